//go:build verif

package lnwallet

// Shared helpers of the C04 (breach retribution) and C05 (force close /
// unilateral close resolutions) harnesses.  Everything here is prefixed
// c0405.  The two harnesses drive pairs of real LightningChannel state
// machines created by the package's CreateTestChannels through random
// histories, keep every commitment either side ever held, and run the real
// btcd script engine on every spend the node derives.

import (
	"bytes"
	"crypto/sha256"
	"encoding/binary"
	"encoding/hex"
	"errors"
	"fmt"
	"math/rand"
	"net"
	"sort"
	"strings"
	"testing"

	"github.com/btcsuite/btcd/address/v2"
	"github.com/btcsuite/btcd/btcec/v2"
	"github.com/btcsuite/btcd/btcec/v2/schnorr"
	"github.com/btcsuite/btcd/btcutil/v2"
	"github.com/btcsuite/btcd/chainhash/v2"
	"github.com/btcsuite/btcd/txscript/v2"
	"github.com/btcsuite/btcd/wire/v2"
	"github.com/lightningnetwork/lnd/channeldb"
	"github.com/lightningnetwork/lnd/chanstate"
	"github.com/lightningnetwork/lnd/input"
	"github.com/lightningnetwork/lnd/keychain"
	"github.com/lightningnetwork/lnd/lnwallet/chainfee"
	"github.com/lightningnetwork/lnd/lnwire"
	"github.com/lightningnetwork/lnd/shachain"
)

// ---------------------------------------------------------------------------
// channel kinds
// ---------------------------------------------------------------------------

type c0405Kind struct {
	Name string
	CT   channeldb.ChannelType
}

var c0405Kinds = []c0405Kind{
	{"legacy", channeldb.SingleFunderBit},
	{"tweakless", channeldb.SingleFunderTweaklessBit},
	{"anchorsfee", channeldb.SingleFunderTweaklessBit | channeldb.AnchorOutputsBit},
	{"anchors", channeldb.SingleFunderTweaklessBit | channeldb.AnchorOutputsBit |
		channeldb.ZeroHtlcTxFeeBit},
	{"lease", channeldb.SingleFunderTweaklessBit | channeldb.AnchorOutputsBit |
		channeldb.ZeroHtlcTxFeeBit | channeldb.LeaseExpirationBit},
	{"taproot", channeldb.SingleFunderTweaklessBit | channeldb.AnchorOutputsBit |
		channeldb.ZeroHtlcTxFeeBit | channeldb.SimpleTaprootFeatureBit},
	{"taprootfinal", channeldb.SingleFunderTweaklessBit | channeldb.AnchorOutputsBit |
		channeldb.ZeroHtlcTxFeeBit | channeldb.SimpleTaprootFeatureBit |
		channeldb.TaprootFinalBit},
}

func c0405B2i(b bool) int {
	if b {
		return 1
	}
	return 0
}

func c0405Pick[T any](r *rand.Rand, xs ...T) T { return xs[r.Intn(len(xs))] }

var c0405NodeName = [2]string{"A", "B"}

// ---------------------------------------------------------------------------
// the pair and its message queues
// ---------------------------------------------------------------------------

type c0405Msg struct {
	kind     string
	add      *lnwire.UpdateAddHTLC
	idx      uint64
	preimage [32]byte
	fee      chainfee.SatPerKWeight
	sigs     *CommitSigs
	rev      *lnwire.RevokeAndAck
}

type c0405Add struct {
	amt    lnwire.MilliSatoshi
	expiry uint32
	hash   [32]byte
}

type c0405Pair struct {
	t    *testing.T
	kind c0405Kind
	r    *rand.Rand
	ch   [2]*LightningChannel
	q    [2][]c0405Msg // q[d]: messages from node d to node 1-d
	dead bool

	preimages map[[32]byte][32]byte
	nextHash  int
	last      *c0405Add
	adds      [2]int
	thaw      uint32
	noAmt     bool
	prm       c0405Params

	// held[x][h]: the commitment transaction node x held as (a candidate
	// for) its own commitment at height h (unsigned copy).
	held [2]map[uint64]*wire.MsgTx
	// closes[x][h]: ForceClose summary taken while height h was node x's
	// broadcastable commitment.
	closes [2]map[uint64]*LocalForceCloseSummary

	// hooks
	onLocalCommit func(x int, h uint64, s *LocalForceCloseSummary, fpk int64, err error, tag string)
	onRemoteView  func(x int)

	stats map[string]int
}

// c0405Params are the channel parameters CreateTestChannels hard-codes.
type c0405Params struct {
	Capacity   btcutil.Amount
	InitiatorA bool
	OpenerPct  int64 // share of the capacity the initiator starts with
	FeePerKw   chainfee.SatPerKWeight
	Dust       [2]btcutil.Amount
	Csv        [2]uint16
	Reserve    [2]btcutil.Amount
	Thaw       uint32
}

func c0405GenParams(r *rand.Rand, kind c0405Kind, small bool) c0405Params {
	for {
		var p c0405Params
		p.Capacity = c0405Pick(r, btcutil.Amount(200_000), 1_000_000, 10_000_000, 1_000_000_000)
		p.InitiatorA = r.Intn(2) == 0
		p.OpenerPct = c0405Pick(r, int64(100), 100, 50, 90, 99)
		p.FeePerKw = c0405Pick(r, chainfee.SatPerKWeight(253), 1000, 2500, 6000, 12500)
		maxDust := btcutil.Amount(0)
		for i := 0; i < 2; i++ {
			p.Dust[i] = c0405Pick(r, btcutil.Amount(200), 354, 546, 1300, 3000)
			p.Csv[i] = c0405Pick(r, uint16(1), 4, 5, 144, 2016)
			if p.Dust[i] > maxDust {
				maxDust = p.Dust[i]
			}
		}
		if small {
			// one side starts with nothing and the dust limits differ
			p.OpenerPct = 100
			if p.Dust[0] == p.Dust[1] {
				continue
			}
		}
		for i := 0; i < 2; i++ {
			p.Reserve[i] = c0405Pick(r, p.Capacity/100, p.Capacity/1000, maxDust)
			if p.Reserve[i] < maxDust {
				p.Reserve[i] = maxDust
			}
		}
		if kind.CT.HasLeaseExpiration() {
			p.Thaw = uint32(600_000 + r.Intn(100_000))
		}
		fee := p.FeePerKw.FeeForWeight(CommitWeight(kind.CT))
		var anchors btcutil.Amount
		if kind.CT.HasAnchors() {
			anchors = 2 * AnchorSize
		}
		o := 1
		if p.InitiatorA {
			o = 0
		}
		if p.Capacity*btcutil.Amount(p.OpenerPct)/100 < 3*(fee+anchors)+p.Reserve[o]+20_000 {
			continue
		}
		return p
	}
}

func c0405Keys(seed []byte) []*btcec.PrivateKey {
	var keys []*btcec.PrivateKey
	for i := 0; i < 5; i++ {
		k := append([]byte{}, seed...)
		k[0] ^= byte(i + 1)
		priv, _ := btcec.PrivKeyFromBytes(k)
		keys = append(keys, priv)
	}
	return keys
}

// c0405NewPair follows the recipe of the package's CreateTestChannels (same
// keys, signer, sig pool, database, revocation windows) with the constants
// turned into parameters: capacity, initial split, initiator, fee rate, dust
// limits, CSV delays, reserves and - for leased channels - the thaw height,
// which is stored with the channel.  The height-0 commitments pay the fee from
// the initiator's balance, as real funding does.
func c0405NewPair(t *testing.T, kind c0405Kind, r *rand.Rand,
	noAmt, small bool) (*c0405Pair, error) {

	prm := c0405GenParams(r, kind, small)
	var mods []channeldb.OptionModifier
	if noAmt {
		mods = append(mods, channeldb.OptionNoRevLogAmtData(true))
	}
	prevOut := &wire.OutPoint{Hash: chainhash.Hash(testHdSeed), Index: r.Uint32()}
	fundingTxIn := wire.NewTxIn(prevOut, nil, nil)
	keys := [2][]*btcec.PrivateKey{c0405Keys(testWalletPrivKey), c0405Keys(bobsPrivKey)}
	var cfgs [2]channeldb.ChannelConfig
	for i := 0; i < 2; i++ {
		cfgs[i] = channeldb.ChannelConfig{
			ChannelStateBounds: channeldb.ChannelStateBounds{
				MaxPendingAmount: lnwire.NewMSatFromSatoshis(prm.Capacity),
				ChanReserve:      prm.Reserve[i],
				MinHTLC:          0,
				MaxAcceptedHtlcs: input.MaxHTLCNumber / 2,
			},
			CommitmentParams: channeldb.CommitmentParams{
				DustLimit: prm.Dust[i], CsvDelay: prm.Csv[i],
			},
			MultiSigKey:         keychain.KeyDescriptor{PubKey: keys[i][0].PubKey()},
			RevocationBasePoint: keychain.KeyDescriptor{PubKey: keys[i][1].PubKey()},
			PaymentBasePoint:    keychain.KeyDescriptor{PubKey: keys[i][2].PubKey()},
			DelayBasePoint:      keychain.KeyDescriptor{PubKey: keys[i][3].PubKey()},
			HtlcBasePoint:       keychain.KeyDescriptor{PubKey: keys[i][4].PubKey()},
		}
	}
	var (
		producers [2]*shachain.RevocationProducer
		points    [2]*btcec.PublicKey
	)
	for i := 0; i < 2; i++ {
		root, err := chainhash.NewHash(keys[i][0].Serialize())
		if err != nil {
			return nil, err
		}
		producers[i] = shachain.NewRevocationProducer(*root)
		first, err := producers[i].AtIndex(0)
		if err != nil {
			return nil, err
		}
		points[i] = input.ComputeCommitmentPoint(first[:])
	}
	commitFee := prm.FeePerKw.FeeForWeight(CommitWeight(kind.CT))
	var anchorAmt btcutil.Amount
	if kind.CT.HasAnchors() {
		anchorAmt = 2 * AnchorSize
	}
	o := 1
	if prm.InitiatorA {
		o = 0
	}
	var bal [2]btcutil.Amount
	openerTotal := prm.Capacity * btcutil.Amount(prm.OpenerPct) / 100
	bal[o] = openerTotal - commitFee - anchorAmt
	bal[1-o] = prm.Capacity - openerTotal

	aliceTx, bobTx, err := CreateCommitmentTxns(bal[0], bal[1], &cfgs[0], &cfgs[1],
		points[0], points[1], *fundingTxIn, kind.CT, prm.InitiatorA, prm.Thaw)
	if err != nil {
		return nil, err
	}
	txs := [2]*wire.MsgTx{aliceTx, bobTx}
	shortChanID := lnwire.NewShortChanIDFromInt(uint64(r.Int63()))

	p := &c0405Pair{
		t: t, kind: kind, r: r, prm: prm,
		preimages: map[[32]byte][32]byte{},
		noAmt:     noAmt, thaw: prm.Thaw,
		stats: map[string]int{},
	}
	var states [2]*chanstate.OpenChannel
	for i := 0; i < 2; i++ {
		j := 1 - i
		mk := func(tx *wire.MsgTx) channeldb.ChannelCommitment {
			return channeldb.ChannelCommitment{
				CommitHeight:  0,
				LocalBalance:  lnwire.NewMSatFromSatoshis(bal[i]),
				RemoteBalance: lnwire.NewMSatFromSatoshis(bal[j]),
				CommitFee:     commitFee,
				FeePerKw:      btcutil.Amount(prm.FeePerKw),
				CommitTx:      tx,
				CommitSig:     testSigBytes,
			}
		}
		db := channeldb.OpenForTesting(t, t.TempDir(), mods...)
		states[i] = &chanstate.OpenChannel{
			LocalChanCfg:            cfgs[i],
			RemoteChanCfg:           cfgs[j],
			IdentityPub:             keys[i][0].PubKey(),
			FundingOutpoint:         *prevOut,
			ShortChannelID:          shortChanID,
			ChanType:                kind.CT,
			IsInitiator:             (i == 0) == prm.InitiatorA,
			Capacity:                prm.Capacity,
			RemoteCurrentRevocation: points[j],
			RevocationProducer:      producers[i],
			RevocationStore:         shachain.NewRevocationStore(),
			LocalCommitment:         mk(txs[i]),
			RemoteCommitment:        mk(txs[j]),
			Db:                      db.ChannelStateDB(),
			FundingTxn:              testTx,
			ThawHeight:              prm.Thaw,
		}
	}
	for i := 0; i < 2; i++ {
		signer := input.NewMockSigner(keys[i], nil)
		pool := NewSigPool(1, signer)
		ch, err := NewLightningChannel(signer, states[i], pool)
		if err != nil {
			return nil, err
		}
		if err := pool.Start(); err != nil {
			return nil, err
		}
		t.Cleanup(func() { _ = pool.Stop() })
		p.ch[i] = ch
	}
	obf := createStateHintObfuscator(states[0])
	for i := 0; i < 2; i++ {
		if err := SetStateNumHint(txs[i], 0, obf); err != nil {
			return nil, err
		}
	}
	for i := 0; i < 2; i++ {
		addr := &net.TCPAddr{IP: net.ParseIP("127.0.0.1"), Port: 18555 + i}
		if err := p.ch[i].channelState.SyncPending(addr, 101); err != nil {
			return nil, err
		}
	}
	if err := initRevocationWindows(p.ch[0], p.ch[1]); err != nil {
		return nil, err
	}
	for x := 0; x < 2; x++ {
		p.held[x] = map[uint64]*wire.MsgTx{}
		p.closes[x] = map[uint64]*LocalForceCloseSummary{}
		p.held[x][0] = p.ch[x].channelState.LocalCommitment.CommitTx.Copy()
	}
	return p, nil
}

// header fields describing the pair, shared by both harnesses
func (p *c0405Pair) header() string {
	a := p.ch[0].channelState
	ini := "B"
	if p.prm.InitiatorA {
		ini = "A"
	}
	return fmt.Sprintf("type=%s anchors=%d taproot=%d lease=%d tweakless=%d zerofee=%d noamt=%d "+
		"thaw=%d initiator=%s cap=%d openerpct=%d fpk0=%d csvA=%d csvB=%d dustA=%d dustB=%d",
		p.kind.Name, c0405B2i(p.kind.CT.HasAnchors()), c0405B2i(p.kind.CT.IsTaproot()),
		c0405B2i(p.kind.CT.HasLeaseExpiration()), c0405B2i(p.kind.CT.IsTweakless()),
		c0405B2i(p.kind.CT.ZeroHtlcTxFee()), c0405B2i(p.noAmt), p.thaw, ini,
		int64(p.prm.Capacity), p.prm.OpenerPct, int64(p.prm.FeePerKw),
		a.LocalChanCfg.CsvDelay, a.RemoteChanCfg.CsvDelay,
		int64(a.LocalChanCfg.DustLimit), int64(a.RemoteChanCfg.DustLimit))
}

func (p *c0405Pair) newHash() [32]byte {
	p.nextHash++
	var pre [32]byte
	binary.BigEndian.PutUint64(pre[:8], uint64(p.nextHash))
	copy(pre[8:], "c0405-verif-preimage")
	h := sha256.Sum256(pre[:])
	p.preimages[h] = pre
	return h
}

func c0405Recover(res *string) {
	if r := recover(); r != nil {
		*res = fmt.Sprintf("panic:%v", r)
		if len(*res) > 80 {
			*res = (*res)[:80]
		}
		*res = strings.ReplaceAll(*res, " ", "_")
	}
}

func c0405ErrClass(err error) string {
	if err == nil {
		return "ok"
	}
	switch {
	case errors.Is(err, ErrRevLogDataMissing):
		return "err:nodata"
	case errors.Is(err, ErrNoRevocationLogFound):
		return "err:nolog"
	case errors.Is(err, channeldb.ErrLogEntryNotFound):
		return "err:noentry"
	case errors.Is(err, channeldb.ErrNoPastDeltas):
		return "err:nodeltas"
	case errors.Is(err, ErrOutputIndexOutOfRange):
		return "err:idxrange"
	case errors.Is(err, ErrNoWindow):
		return "err:nowindow"
	case errors.Is(err, ErrBelowChanReserve):
		return "err:reserve"
	case errors.Is(err, ErrMaxHTLCNumber):
		return "err:maxhtlc"
	case errors.Is(err, ErrBelowMinHTLC):
		return "err:minhtlc"
	case errors.Is(err, ErrMaxPendingAmount):
		return "err:maxpending"
	}
	s := err.Error()
	if len(s) > 60 {
		s = s[:60]
	}
	return "err:other:" + strings.Map(func(c rune) rune {
		if c == ' ' || c == '=' {
			return '_'
		}
		return c
	}, s)
}

// act executes a local action on node x; on success the wire message is queued.
func (p *c0405Pair) act(x int, kind string, a c0405Add, idx uint64,
	fee chainfee.SatPerKWeight) (res string) {

	ch := p.ch[x]
	defer c0405Recover(&res)
	switch kind {
	case "add":
		htlc := &lnwire.UpdateAddHTLC{
			PaymentHash: a.hash, Amount: a.amt, Expiry: a.expiry,
		}
		i, err := ch.AddHTLC(htlc, nil)
		if err == nil {
			htlc.ID = i
			p.q[x] = append(p.q[x], c0405Msg{kind: "add", add: htlc})
		}
		return c0405ErrClass(err)

	case "settle":
		var pre [32]byte
		if pd := ch.updateLogs.Remote.lookupHtlc(idx); pd != nil {
			pre = p.preimages[pd.RHash]
		}
		err := ch.SettleHTLC(pre, idx, nil, nil, nil)
		if err == nil {
			p.q[x] = append(p.q[x], c0405Msg{kind: "settle", idx: idx, preimage: pre})
		}
		return c0405ErrClass(err)

	case "fail":
		err := ch.FailHTLC(idx, []byte("c0405"), nil, nil, nil)
		if err == nil {
			p.q[x] = append(p.q[x], c0405Msg{kind: "fail", idx: idx})
		}
		return c0405ErrClass(err)

	case "fee":
		err := ch.UpdateFee(fee)
		if err == nil {
			p.q[x] = append(p.q[x], c0405Msg{kind: "fee", fee: fee})
		}
		return c0405ErrClass(err)

	case "sign":
		st, err := ch.SignNextCommitment(ctxb)
		if err == nil {
			p.q[x] = append(p.q[x], c0405Msg{kind: "commitsig", sigs: st.CommitSigs})
			if p.onRemoteView != nil {
				p.onRemoteView(x)
			}
		}
		return c0405ErrClass(err)

	case "revoke":
		rev, _, _, err := ch.RevokeCurrentCommitment()
		if err == nil {
			p.q[x] = append(p.q[x], c0405Msg{kind: "revoke", rev: rev})
			p.snapshotLocal(x, false)
		}
		return c0405ErrClass(err)
	}
	return "badop"
}

// snapshotLocal records what node x could broadcast right now.  mid = the call
// happens between ReceiveNewCommitment and RevokeCurrentCommitment (the local
// chain tip is one ahead of the broadcastable commitment).
func (p *c0405Pair) snapshotLocal(x int, mid bool) {
	ch := p.ch[x]
	h := ch.channelState.LocalCommitment.CommitHeight
	var (
		s   *LocalForceCloseSummary
		err error
	)
	func() {
		defer func() {
			if r := recover(); r != nil {
				err = fmt.Errorf("panic: %v", r)
			}
		}()
		s, err = ch.ForceClose()
	}()
	// ForceClose only reads the state and sets this flag.
	ch.isClosed = false
	tag := "mid"
	if mid {
		tag = "midrecv"
	} else if err == nil {
		p.closes[x][h] = s
	}
	if p.onLocalCommit != nil {
		p.onLocalCommit(x, h, s, int64(ch.channelState.LocalCommitment.FeePerKw), err, tag)
	}
}

// deliver hands the oldest message of direction d to node 1-d.
func (p *c0405Pair) deliver(d int) (kind, res string) {
	if len(p.q[d]) == 0 {
		return "none", "empty"
	}
	m := p.q[d][0]
	p.q[d] = p.q[d][1:]
	y := 1 - d
	ch := p.ch[y]
	kind = m.kind
	defer c0405Recover(&res)
	var err error
	switch m.kind {
	case "add":
		cp := *m.add
		_, err = ch.ReceiveHTLC(&cp)
	case "settle":
		err = ch.ReceiveHTLCSettle(m.preimage, m.idx)
	case "fail":
		err = ch.ReceiveFailHTLC(m.idx, []byte("c0405"))
	case "fee":
		err = ch.ReceiveUpdateFee(m.fee)
	case "commitsig":
		err = ch.ReceiveNewCommitment(m.sigs)
		if err == nil {
			tip := ch.commitChains.Local.tip()
			p.held[y][tip.height] = tip.txn.Copy()
			if ch.channelState.LocalCommitment.CommitHeight > 0 {
				p.snapshotLocal(y, true)
			}
		}
	case "revoke":
		_, _, err = ch.ReceiveRevocation(m.rev)
		if err == nil && p.onRemoteView != nil {
			p.onRemoteView(y)
		}
	}
	res = c0405ErrClass(err)
	if res != "ok" {
		p.dead = true
		p.stats["deliver_fail_"+kind]++
	}
	return kind, res
}

// settleable lists incoming HTLCs of x that are irrevocably locked in.
func (p *c0405Pair) settleable(x int) []uint64 {
	ch := p.ch[x]
	lt := ch.commitChains.Local.tail().height
	rt := ch.commitChains.Remote.tail().height
	var out []uint64
	for e := ch.updateLogs.Remote.Front(); e != nil; e = e.Next() {
		pd := e.Value
		if !pd.isAdd() {
			continue
		}
		al, ar := pd.addCommitHeights.Local, pd.addCommitHeights.Remote
		if al == 0 || ar == 0 || al > lt || ar > rt {
			continue
		}
		if ch.updateLogs.Remote.htlcHasModification(pd.HtlcIndex) {
			continue
		}
		out = append(out, pd.HtlcIndex)
	}
	return out
}

func (p *c0405Pair) pickAmount(x int) lnwire.MilliSatoshi {
	r := p.r
	ch := p.ch[x]
	ct := ch.channelState.ChanType
	fpk := c0405Pick(r, ch.commitChains.Local.tip().feePerKw,
		ch.commitChains.Remote.tip().feePerKw)
	dustX := ch.channelState.LocalChanCfg.DustLimit
	dustY := ch.channelState.RemoteChanCfg.DustLimit
	deltas := []int64{-1000, -1, 0, 1, 999, 1000, 1001, 2000}
	// the receiver's settled balance between the two dust limits: its output
	// exists on one commitment and is trimmed on the other
	dl, dh := dustX, dustY
	if dl > dh {
		dl, dh = dh, dl
	}
	peerBal := ch.channelState.LocalCommitment.RemoteBalance.ToSatoshis()
	if dl < dh && peerBal < dh && r.Intn(3) == 0 {
		target := dl + btcutil.Amount(r.Int63n(int64(dh-dl)))
		if r.Intn(4) == 0 {
			target = c0405Pick(r, dl, dh-1, dl-1, dh)
		}
		if target > peerBal {
			return lnwire.NewMSatFromSatoshis(target - peerBal)
		}
	}
	// an amount whose trimmed status differs between two plausible fee rates
	if r.Intn(6) == 0 {
		f1 := c0405Pick(r, chainfee.SatPerKWeight(253), 1000, 2500, 6000, 12500, fpk*2, fpk/2+1)
		f2 := fpk
		a := dustY + HtlcSuccessFee(ct, f1)
		b := dustY + HtlcSuccessFee(ct, f2)
		if r.Intn(2) == 0 {
			a, b = dustX+HtlcTimeoutFee(ct, f1), dustX+HtlcTimeoutFee(ct, f2)
		}
		if a > b {
			a, b = b, a
		}
		if b > a {
			return lnwire.NewMSatFromSatoshis(a + btcutil.Amount(r.Int63n(int64(b-a))))
		}
	}
	switch r.Intn(10) {
	case 0, 1, 2, 3:
		th := c0405Pick(r,
			dustX+HtlcTimeoutFee(ct, fpk), dustY+HtlcSuccessFee(ct, fpk),
			dustX+HtlcSuccessFee(ct, fpk), dustY+HtlcTimeoutFee(ct, fpk),
			dustX, dustY)
		v := int64(th)*1000 + c0405Pick(r, deltas...)
		if v < 0 {
			v = 0
		}
		return lnwire.MilliSatoshi(v)
	case 4:
		return c0405Pick(r, lnwire.MilliSatoshi(1000), 150_000, 5_000_000, 1_299_999, 1_300_000)
	case 5:
		return lnwire.MilliSatoshi(1_000_000 * int64(1+r.Intn(500)))
	default:
		return lnwire.MilliSatoshi(2_000_000 + r.Int63n(int64(p.prm.Capacity)*1000/20))
	}
}

type c0405Choice struct {
	w   int
	run func()
}

// step performs one random schedule step; false if nothing is enabled.
func (p *c0405Pair) step(maxAdds int) bool {
	r := p.r
	var cs []c0405Choice
	add := func(w int, f func()) { cs = append(cs, c0405Choice{w, f}) }

	for d := 0; d < 2; d++ {
		d := d
		if len(p.q[d]) > 0 {
			add(7, func() { k, _ := p.deliver(d); p.stats["deliver_"+k]++ })
		}
	}
	for x := 0; x < 2; x++ {
		x := x
		ch := p.ch[x]
		if p.adds[x] < maxAdds {
			add(3, func() {
				var a c0405Add
				if p.last != nil && r.Intn(4) == 0 {
					a = *p.last // exact duplicate (hash, amount, expiry)
					switch r.Intn(4) {
					case 0:
						a.expiry = c0405Pick(r, uint32(700_100), 700_144, 700_500)
					case 1:
						a.hash = p.newHash() // same amount/expiry, other hash
					}
					p.stats["add_dup"]++
				} else {
					a = c0405Add{amt: p.pickAmount(x),
						expiry: c0405Pick(r, uint32(700_100), 700_144, 700_144, 700_500),
						hash:   p.newHash()}
				}
				if p.act(x, "add", a, 0, 0) == "ok" {
					p.adds[x]++
					p.last = &a
					p.stats["add_ok"]++
				} else {
					p.stats["add_rejected"]++
				}
			})
		}
		if cand := p.settleable(x); len(cand) > 0 {
			add(3, func() {
				idx := cand[r.Intn(len(cand))]
				k := c0405Pick(r, "settle", "settle", "fail")
				if p.act(x, k, c0405Add{}, idx, 0) == "ok" {
					p.stats[k+"_ok"]++
				}
			})
		}
		if ch.channelState.IsInitiator {
			add(1, func() {
				cur := ch.commitChains.Local.tip().feePerKw
				f := c0405Pick(r, cur+1, cur*2, cur/2+1, 253, 1000, 2500,
					chainfee.SatPerKWeight(253+r.Intn(20000)))
				// a rate at which some live HTLC changes between trimmed and untrimmed
				if hs := ch.channelState.LocalCommitment.Htlcs; len(hs) > 0 && r.Intn(2) == 0 {
					ht := hs[r.Intn(len(hs))]
					dust := c0405Pick(r, ch.channelState.LocalChanCfg.DustLimit,
						ch.channelState.RemoteChanCfg.DustLimit)
					w := c0405Pick(r, int64(input.HtlcTimeoutWeight), int64(input.HtlcSuccessWeight),
						int64(input.HtlcTimeoutWeightConfirmed), int64(input.HtlcSuccessWeightConfirmed))
					if amt := ht.Amt.ToSatoshis(); amt > dust {
						f0 := int64(amt-dust) * 1000 / w
						f0 += int64(r.Intn(5)) - 2
						if f0 >= 253 && f0 < 200_000 {
							f = chainfee.SatPerKWeight(f0)
						}
					}
				}
				if p.act(x, "fee", c0405Add{}, 0, f) == "ok" {
					p.stats["fee_ok"]++
				}
			})
		}
		if ch.OweCommitment() && !ch.commitChains.Remote.hasUnackedCommitment() {
			add(8, func() {
				if p.act(x, "sign", c0405Add{}, 0, 0) == "ok" {
					p.stats["sign_ok"]++
				} else {
					p.stats["sign_rejected"]++
				}
			})
		}
		if ch.commitChains.Local.hasUnackedCommitment() {
			add(8, func() {
				if p.act(x, "revoke", c0405Add{}, 0, 0) == "ok" {
					p.stats["revoke_ok"]++
				}
			})
		}
	}
	if len(cs) == 0 {
		return false
	}
	total := 0
	for _, c := range cs {
		total += c.w
	}
	k := r.Intn(total)
	for _, c := range cs {
		if k < c.w {
			c.run()
			return true
		}
		k -= c.w
	}
	return true
}

// smallBalancePrefix steers the history into the corner in which one side's
// settled balance lies between the two dust limits (its output exists on one
// commitment and is trimmed on the other), then moves on so that those states
// get revoked.
func (p *c0405Pair) smallBalancePrefix() {
	for x := 0; x < 2; x++ {
		ch := p.ch[x]
		dl := ch.channelState.LocalChanCfg.DustLimit
		dh := ch.channelState.RemoteChanCfg.DustLimit
		if dl > dh {
			dl, dh = dh, dl
		}
		peerBal := ch.channelState.LocalCommitment.RemoteBalance.ToSatoshis()
		ownBal := ch.channelState.LocalCommitment.LocalBalance.ToSatoshis()
		if dl == dh || peerBal >= dh || ownBal < 50_000 {
			continue
		}
		target := dl + btcutil.Amount(p.r.Int63n(int64(dh-dl)))
		if target <= peerBal {
			continue
		}
		a := c0405Add{amt: lnwire.NewMSatFromSatoshis(target - peerBal), expiry: 700_144,
			hash: p.newHash()}
		if p.act(x, "add", a, 0, 0) != "ok" {
			continue
		}
		p.adds[x]++
		p.drain()
		for _, idx := range p.settleable(1 - x) {
			p.act(1-x, "settle", c0405Add{}, idx, 0)
		}
		p.drain()
		// two more transitions revoke the states carrying the small balance
		for i := 0; i < 2 && !p.dead; i++ {
			b := c0405Add{amt: lnwire.MilliSatoshi(20_000_000 + p.r.Int63n(5_000_000)),
				expiry: 700_144, hash: p.newHash()}
			if p.act(x, "add", b, 0, 0) == "ok" {
				p.adds[x]++
			}
			p.drain()
		}
		p.stats["small_balance_prefix"]++
		return
	}
}

// drain completes the dance until nothing is in flight.
func (p *c0405Pair) drain() {
	for i := 0; i < 100 && !p.dead; i++ {
		progress := false
		for d := 0; d < 2; d++ {
			for len(p.q[d]) > 0 && !p.dead {
				p.deliver(d)
				progress = true
			}
		}
		if p.dead {
			return
		}
		for x := 0; x < 2; x++ {
			ch := p.ch[x]
			if ch.commitChains.Local.hasUnackedCommitment() {
				p.act(x, "revoke", c0405Add{}, 0, 0)
				progress = true
			}
		}
		for x := 0; x < 2; x++ {
			ch := p.ch[x]
			if ch.OweCommitment() && !ch.commitChains.Remote.hasUnackedCommitment() {
				if p.act(x, "sign", c0405Add{}, 0, 0) == "ok" {
					progress = true
				}
			}
		}
		if !progress {
			return
		}
	}
}

// ---------------------------------------------------------------------------
// symbolic names of keys ("terms") and script rendering
// ---------------------------------------------------------------------------

// c0405Terms maps the serialisation (33 byte compressed, 32 byte x-only and
// hash160) of every key derivable from the two channel configs and the commit
// point to a term name:
//
//	bs:<N>.<role>   the base point itself
//	tw:<N>.<role>   TweakPubKey(base, commitPoint)
//	rv:<N>.rev      DeriveRevocationPubkey(N's revocation base, commitPoint)
//
// N is the node (A/B) owning the base point.
type c0405Terms struct {
	byKey map[string]string
}

func (t *c0405Terms) put(k *btcec.PublicKey, name string) {
	t.byKey[string(k.SerializeCompressed())] = name
	t.byKey[string(schnorr.SerializePubKey(k))] = name
	t.byKey[string(address.Hash160(k.SerializeCompressed()))] = "h160(" + name + ")"
}

func (p *c0405Pair) terms(commitPoint *btcec.PublicKey) *c0405Terms {
	t := &c0405Terms{byKey: map[string]string{}}
	for x := 0; x < 2; x++ {
		cfg := p.ch[x].channelState.LocalChanCfg
		n := c0405NodeName[x]
		bases := []struct {
			role string
			k    *btcec.PublicKey
		}{
			{"ms", cfg.MultiSigKey.PubKey}, {"rev", cfg.RevocationBasePoint.PubKey},
			{"pay", cfg.PaymentBasePoint.PubKey}, {"delay", cfg.DelayBasePoint.PubKey},
			{"htlc", cfg.HtlcBasePoint.PubKey},
		}
		for _, b := range bases {
			t.put(b.k, "bs:"+n+"."+b.role)
			if commitPoint != nil {
				t.put(input.TweakPubKey(b.k, commitPoint), "tw:"+n+"."+b.role)
			}
		}
		if commitPoint != nil {
			t.put(input.DeriveRevocationPubkey(cfg.RevocationBasePoint.PubKey, commitPoint),
				"rv:"+n+".rev")
		}
	}
	return t
}

func (t *c0405Terms) name(b []byte) (string, bool) {
	s, ok := t.byKey[string(b)]
	return s, ok
}

// signerTerm names the public key a signer would sign with for this descriptor.
func (t *c0405Terms) signerTerm(sd *input.SignDescriptor) string {
	if sd.KeyDesc.PubKey == nil {
		return "nokey"
	}
	pub := sd.KeyDesc.PubKey
	switch {
	case sd.SingleTweak != nil:
		pub = input.TweakPubKeyWithTweak(pub, sd.SingleTweak)
	case sd.DoubleTweak != nil:
		pub = input.DeriveRevocationPubkey(pub, sd.DoubleTweak.PubKey())
	}
	if s, ok := t.name(pub.SerializeCompressed()); ok {
		return s
	}
	return "unknownkey"
}

var c0405OpName = func() map[byte]string {
	m := map[byte]string{}
	for name, op := range txscript.OpcodeByName {
		if old, ok := m[op]; ok {
			// prefer the descriptive alias
			if strings.HasPrefix(old, "OP_NOP") || old == "OP_TRUE" || old == "OP_FALSE" {
				m[op] = name
			}
			if strings.HasPrefix(name, "OP_NOP") || name == "OP_TRUE" || name == "OP_FALSE" {
				continue
			}
			if old < name && !strings.HasPrefix(old, "OP_NOP") && old != "OP_TRUE" && old != "OP_FALSE" {
				continue
			}
		}
		m[op] = name
	}
	return m
}()

func c0405ScriptNum(b []byte) (int64, bool) {
	if len(b) == 0 {
		return 0, true
	}
	if len(b) > 5 {
		return 0, false
	}
	// minimal encoding check
	if b[len(b)-1]&0x7f == 0 {
		if len(b) == 1 || b[len(b)-2]&0x80 == 0 {
			return 0, false
		}
	}
	var v int64
	for i, x := range b {
		v |= int64(x) << (8 * uint(i))
	}
	if b[len(b)-1]&0x80 != 0 {
		v &= ^(int64(0x80) << (8 * uint(len(b)-1)))
		v = -v
	}
	return v, true
}

// renderScript prints a script as comma separated tokens: opcode names, small
// integers as OP_<n>, pushed data as [term], [rip:<tag>], num:<n> or
// [data:<len>].  payHash (may be nil) is the payment hash of the HTLC at hand.
func (t *c0405Terms) renderScript(script []byte, payHash []byte) string {
	if len(script) == 0 {
		return "-"
	}
	var toks []string
	tk := txscript.MakeScriptTokenizer(0, script)
	for tk.Next() {
		op := tk.Opcode()
		data := tk.Data()
		switch {
		case op == txscript.OP_0:
			toks = append(toks, "OP_0")
		case op >= txscript.OP_1 && op <= txscript.OP_16:
			toks = append(toks, fmt.Sprintf("OP_%d", int(op-txscript.OP_1)+1))
		case data != nil:
			if s, ok := t.name(data); ok {
				toks = append(toks, "["+s+"]")
			} else if payHash != nil && bytes.Equal(data, input.Ripemd160H(payHash)) {
				toks = append(toks, "[rip:h]")
			} else if len(data) == 20 {
				toks = append(toks, "[rip:x]")
			} else if v, ok := c0405ScriptNum(data); ok {
				toks = append(toks, fmt.Sprintf("num:%d", v))
			} else {
				toks = append(toks, fmt.Sprintf("[data:%d]", len(data)))
			}
		default:
			if n, ok := c0405OpName[op]; ok {
				toks = append(toks, n)
			} else {
				toks = append(toks, fmt.Sprintf("OP_UNKNOWN%d", op))
			}
		}
	}
	if tk.Err() != nil {
		toks = append(toks, "PARSE_ERROR")
	}
	return strings.Join(toks, ",")
}

func c0405IsSig(b []byte) (hashType int, schnorrSig, ok bool) {
	switch {
	case len(b) == 64:
		return 0, true, true
	case len(b) == 65:
		return int(b[64]), true, true
	case len(b) >= 68 && len(b) <= 73 && b[0] == 0x30:
		return int(b[len(b)-1]), false, true
	}
	return 0, false, false
}

// renderWitness prints the witness elements below the script (and control
// block).  sigTerms names the signer of the signatures in stack order.
func (t *c0405Terms) renderWitness(w wire.TxWitness, nScriptElems int,
	sigTerms []string, payHash []byte) string {

	var toks []string
	si := 0
	for i := 0; i < len(w)-nScriptElems; i++ {
		e := w[i]
		if ht, _, ok := c0405IsSig(e); ok {
			term := "?"
			if si < len(sigTerms) {
				term = sigTerms[si]
			}
			si++
			toks = append(toks, fmt.Sprintf("sig(%s;%d)", term, ht))
			continue
		}
		switch {
		case len(e) == 0:
			toks = append(toks, "empty")
		case len(e) == 1:
			toks = append(toks, fmt.Sprintf("b%02x", e[0]))
		case len(e) == 33:
			if s, ok := t.name(e); ok {
				toks = append(toks, "key("+s+")")
			} else {
				toks = append(toks, "key(unknown)")
			}
		case len(e) == 32:
			h := sha256.Sum256(e)
			if payHash != nil && bytes.Equal(h[:], payHash) {
				toks = append(toks, "pre(h)")
			} else {
				toks = append(toks, "pre(x)")
			}
		default:
			toks = append(toks, fmt.Sprintf("data%d", len(e)))
		}
	}
	if len(toks) == 0 {
		return "-"
	}
	return strings.Join(toks, ",")
}

// ---------------------------------------------------------------------------
// the script engine
// ---------------------------------------------------------------------------

func c0405Exec(tx *wire.MsgTx, idx int, prev map[wire.OutPoint]*wire.TxOut) (res string) {
	defer c0405Recover(&res)
	out, ok := prev[tx.TxIn[idx].PreviousOutPoint]
	if !ok {
		return "fail:noprevout"
	}
	fetcher := txscript.NewMultiPrevOutFetcher(prev)
	hc := txscript.NewTxSigHashes(tx, fetcher)
	vm, err := txscript.NewEngine(out.PkScript, tx, idx,
		txscript.StandardVerifyFlags, nil, hc, out.Value, fetcher)
	if err != nil {
		return "fail:" + c0405ScriptErr(err)
	}
	if err := vm.Execute(); err != nil {
		return "fail:" + c0405ScriptErr(err)
	}
	return "ok"
}

func c0405ScriptErr(err error) string {
	var se txscript.Error
	if errors.As(err, &se) {
		return se.ErrorCode.String()
	}
	return "other"
}

func c0405SpkClass(pk []byte) string {
	switch {
	case txscript.IsPayToTaproot(pk):
		return "p2tr"
	case txscript.IsPayToWitnessScriptHash(pk):
		return "p2wsh"
	case txscript.IsPayToWitnessPubKeyHash(pk):
		return "p2wkh"
	}
	return "other"
}

var c0405SweepPkScript = func() []byte {
	h := address.Hash160([]byte("c0405 sweep"))
	return append([]byte{txscript.OP_0, txscript.OP_DATA_20}, h...)
}()

// c0405Mut describes a deliberate corruption of a spend (negative variants).
type c0405Mut struct {
	name     string
	seqDelta int64 // added to the input's sequence before signing
	lock     *uint32
	desc     func(sd *input.SignDescriptor)
	witness  func(w wire.TxWitness) wire.TxWitness
}

// c0405Sweep builds a sweep transaction for one input the way the sweeper /
// breach arbitrator do (version 2, sequence = BlocksToMaturity, locktime =
// RequiredLockTime or the given height), signs it with the input's own sign
// descriptor and runs the engine against the *actual* previous output.
type c0405SweepRes struct {
	tx     *wire.MsgTx
	engine string
}

func c0405Sweep(inp input.Input, signer input.Signer, actual *wire.TxOut,
	height uint32, mut *c0405Mut) (res c0405SweepRes) {

	defer func() {
		if r := recover(); r != nil {
			res.engine = "panic"
		}
	}()
	if mut != nil && mut.desc != nil {
		mut.desc(inp.SignDesc())
	}
	tx := wire.NewMsgTx(2)
	if rto := inp.RequiredTxOut(); rto != nil {
		tx.AddTxOut(rto)
	}
	tx.AddTxOut(&wire.TxOut{PkScript: c0405SweepPkScript, Value: 546})
	seq := int64(inp.BlocksToMaturity())
	if mut != nil {
		seq += mut.seqDelta
	}
	tx.AddTxIn(&wire.TxIn{PreviousOutPoint: inp.OutPoint(), Sequence: uint32(seq)})
	tx.LockTime = height
	if lt, ok := inp.RequiredLockTime(); ok {
		tx.LockTime = lt
	}
	if mut != nil && mut.lock != nil {
		tx.LockTime = *mut.lock
	}
	res.tx = tx
	fetcher, err := input.MultiPrevOutFetcher([]input.Input{inp})
	if err != nil {
		res.engine = "signerr:fetcher"
		return res
	}
	hc := txscript.NewTxSigHashes(tx, fetcher)
	script, err := inp.CraftInputScript(signer, tx, hc, fetcher, 0)
	if err != nil {
		res.engine = "signerr"
		return res
	}
	tx.TxIn[0].Witness = script.Witness
	if mut != nil && mut.witness != nil {
		w2 := mut.witness(tx.TxIn[0].Witness)
		if w2 == nil {
			res.engine = "n/a"
			return res
		}
		tx.TxIn[0].Witness = w2
	}
	res.engine = c0405Exec(tx, 0, map[wire.OutPoint]*wire.TxOut{inp.OutPoint(): actual})
	return res
}

// nScriptElems is the number of trailing witness elements that are the
// script itself (and the taproot control block).
func c0405NScriptElems(spk string, w wire.TxWitness) int {
	switch spk {
	case "p2wsh":
		return 1
	case "p2tr":
		if len(w) >= 2 {
			last := w[len(w)-1]
			if len(last) >= 33 && (len(last)-33)%32 == 0 && last[0]&0xfe == 0xc0 {
				return 2
			}
		}
		return 0
	}
	return 0
}

// c0405SpendLine formats the canonical `spend` trace line.
func c0405SpendLine(id int, ctx, kind, wt, variant string, tx *wire.MsgTx,
	recIdx uint32, recAmt, actAmt int64, pkMatch bool, spk string,
	ws, wit, engine string) string {

	seq, lock, ver := uint32(0), uint32(0), int32(0)
	if tx != nil {
		seq, lock, ver = tx.TxIn[0].Sequence, tx.LockTime, tx.Version
	}
	return fmt.Sprintf("spend id=%d ctx=%s kind=%s wt=%s var=%s ver=%d seq=%d lock=%d "+
		"rec_idx=%d rec_amt=%d act_amt=%d pk=%d spk=%s ws=%s wit=%s => %s\n",
		id, ctx, kind, wt, variant, ver, seq, lock, recIdx, recAmt, actAmt,
		c0405B2i(pkMatch), spk, ws, wit, engine)
}

// c0405Negatives proposes corruptions applicable to an input.
func c0405Negatives(p *c0405Pair, x int, inp input.Input, hasCSV, hasCLTV bool,
	spk string) []*c0405Mut {

	var out []*c0405Mut
	cfg := p.ch[x].channelState.LocalChanCfg
	if hasCSV && inp.BlocksToMaturity() >= 1 {
		out = append(out, &c0405Mut{name: "neg_seq", seqDelta: -1})
	}
	if lt, ok := inp.RequiredLockTime(); hasCLTV && ok && lt > 0 {
		l := lt - 1
		out = append(out, &c0405Mut{name: "neg_lock", lock: &l})
	}
	// sign with another of our base keys
	out = append(out, &c0405Mut{name: "neg_key", desc: func(sd *input.SignDescriptor) {
		cur := sd.KeyDesc.PubKey
		for _, k := range []*btcec.PublicKey{cfg.HtlcBasePoint.PubKey,
			cfg.PaymentBasePoint.PubKey, cfg.DelayBasePoint.PubKey} {
			if cur == nil || !k.IsEqual(cur) {
				sd.KeyDesc.PubKey = k
				return
			}
		}
	}})
	// wrong tweak: single <-> double / drop
	out = append(out, &c0405Mut{name: "neg_tweak", desc: func(sd *input.SignDescriptor) {
		switch {
		case sd.DoubleTweak != nil:
			sd.SingleTweak = input.SingleTweakBytes(sd.DoubleTweak.PubKey(), sd.KeyDesc.PubKey)
			sd.DoubleTweak = nil
		case sd.SingleTweak != nil:
			t2 := sha256.Sum256(sd.SingleTweak)
			sd.SingleTweak = t2[:]
		default:
			t2 := sha256.Sum256([]byte("c0405 tweak"))
			sd.SingleTweak = t2[:]
		}
	}})
	if spk == "p2wsh" {
		out = append(out, &c0405Mut{name: "neg_sel", witness: func(w wire.TxWitness) wire.TxWitness {
			// flip the branch selector (the element right below the script)
			if len(w) < 3 {
				return nil
			}
			i := len(w) - 2
			w2 := append(wire.TxWitness{}, w...)
			switch {
			case len(w[i]) == 0:
				w2[i] = []byte{1}
			case len(w[i]) == 1:
				w2[i] = nil
			default:
				return nil
			}
			return w2
		}})
	}
	return out
}

func c0405SortedU32(m map[uint32]bool) string {
	var xs []int
	for k := range m {
		xs = append(xs, int(k))
	}
	sort.Ints(xs)
	if len(xs) == 0 {
		return "-"
	}
	ss := make([]string, len(xs))
	for i, v := range xs {
		ss[i] = fmt.Sprint(v)
	}
	return strings.Join(ss, ",")
}

func c0405Hex(b []byte) string {
	if len(b) == 0 {
		return "-"
	}
	return hex.EncodeToString(b)
}

// c0405Templates emits one `script` line per script constructor of
// input/script_utils.go, built from distinguishable placeholder keys, for the
// driver to compare with the model's templates.
func c0405Templates(w func(string), r *rand.Rand) {
	mk := func(tag string) *btcec.PublicKey {
		h := sha256.Sum256([]byte("c0405 template key " + tag))
		_, pub := btcec.PrivKeyFromBytes(h[:])
		return pub
	}
	t := &c0405Terms{byKey: map[string]string{}}
	names := []string{"K1", "K2", "K3"}
	keys := map[string]*btcec.PublicKey{}
	for _, n := range names {
		keys[n] = mk(n)
		t.put(keys[n], n)
	}
	ph := sha256.Sum256([]byte("c0405 template hash"))
	emit := func(ctor string, csv, cltv uint32, confirmed bool, script []byte, err error) {
		if err != nil {
			w(fmt.Sprintf("script ctor=%s csv=%d cltv=%d conf=%d => error\n", ctor, csv, cltv,
				c0405B2i(confirmed)))
			return
		}
		w(fmt.Sprintf("script ctor=%s csv=%d cltv=%d conf=%d => %s\n", ctor, csv, cltv,
			c0405B2i(confirmed), t.renderScript(script, ph[:])))
	}
	csvs := []uint32{1, 2, 5, 16, 17, 144, 2016, 65535}
	cltvs := []uint32{1, 16, 17, 144, 500_000, 700_144, 499_999_999}
	for i := 0; i < 6; i++ {
		csv := csvs[r.Intn(len(csvs))]
		cltv := cltvs[r.Intn(len(cltvs))]
		for _, conf := range []bool{false, true} {
			s, err := input.SenderHTLCScript(keys["K1"], keys["K2"], keys["K3"], ph[:], conf)
			emit("SenderHTLCScript", 0, 0, conf, s, err)
			s, err = input.ReceiverHTLCScript(cltv, keys["K1"], keys["K2"], keys["K3"], ph[:], conf)
			emit("ReceiverHTLCScript", 0, cltv, conf, s, err)
		}
		s, err := input.SecondLevelHtlcScript(keys["K3"], keys["K1"], csv)
		emit("SecondLevelHtlcScript", csv, 0, false, s, err)
		s, err = input.LeaseSecondLevelHtlcScript(keys["K3"], keys["K1"], csv, cltv)
		emit("LeaseSecondLevelHtlcScript", csv, cltv, false, s, err)
		s, err = input.CommitScriptToSelf(csv, keys["K1"], keys["K3"])
		emit("CommitScriptToSelf", csv, 0, false, s, err)
		s, err = input.LeaseCommitScriptToSelf(keys["K1"], keys["K3"], csv, cltv)
		emit("LeaseCommitScriptToSelf", csv, cltv, false, s, err)
		s, err = input.CommitScriptUnencumbered(keys["K1"])
		emit("CommitScriptUnencumbered", 0, 0, false, s, err)
		s, err = input.CommitScriptToRemoteConfirmed(keys["K1"])
		emit("CommitScriptToRemoteConfirmed", 0, 0, false, s, err)
		s, err = input.LeaseCommitScriptToRemoteConfirmed(keys["K1"], cltv)
		emit("LeaseCommitScriptToRemoteConfirmed", 0, cltv, false, s, err)
		s, err = input.CommitScriptAnchor(keys["K1"])
		emit("CommitScriptAnchor", 0, 0, false, s, err)
		s, err = input.GenMultiSigScript(keys["K1"].SerializeCompressed(),
			keys["K2"].SerializeCompressed())
		emit("GenMultiSigScript", 0, 0, false, s, err)
	}
}
