//go:build verif

package lnwallet

// C05 harness: whichever commitment confirms, the node holds valid spends for
// all it owns.  Along random channel histories, every time a node's own
// broadcastable commitment changes ForceClose() is taken (the channel keeps
// running afterwards), and every time its view of the peer's commitments
// changes NewUnilateralCloseSummary is built for the peer's current and
// pending commitment.  The real btcd script engine is executed on the fully
// signed commitment (against the funding output), on every signed second-level
// transaction, and on sweep transactions built from every resolution the way
// contractcourt's resolvers and the sweeper do.

import (
	"bufio"
	"bytes"
	"fmt"
	"math/rand"
	"os"
	"sort"
	"strconv"
	"strings"
	"testing"

	"github.com/btcsuite/btcd/btcec/v2"
	"github.com/btcsuite/btcd/btcec/v2/schnorr"
	"github.com/btcsuite/btcd/txscript/v2"
	"github.com/btcsuite/btcd/wire/v2"
	"github.com/lightningnetwork/lnd/chainntnfs"
	"github.com/lightningnetwork/lnd/channeldb"
	"github.com/lightningnetwork/lnd/chanstate"
	"github.com/lightningnetwork/lnd/fn/v2"
	"github.com/lightningnetwork/lnd/input"
	"github.com/lightningnetwork/lnd/lntypes"
)

const c05Height = 800_000 // "current height" used as default sweep locktime

type c05Run struct {
	w       *bufio.Writer
	p       *c0405Pair
	spendID int
	probeID int
	negLeft int
	sample  int // run a probe with probability sample/100
	codec   bool // build inputs from descriptors that went through the sign descriptor codec
	nCodec  int
}

// rt returns the descriptor as it comes back from the node's persistence when
// c.codec is set: input.WriteSignDescriptor / ReadSignDescriptor, plus what the
// contract court's taproot briefcase restores (control block; tap tweak of the
// anchor).  The real briefcase / resolver round trip is exercised by the
// contract-court stream (harness/overlay/contractcourt/zz_c05_verif_test.go);
// here the same loss of fields is applied to the resolutions of the long
// histories of this stream.
func (c *c05Run) rt(sd input.SignDescriptor) input.SignDescriptor {
	if !c.codec {
		return sd
	}
	var b bytes.Buffer
	if err := input.WriteSignDescriptor(&b, &sd); err != nil {
		return input.SignDescriptor{}
	}
	var out input.SignDescriptor
	if err := input.ReadSignDescriptor(&b, &out); err != nil {
		return input.SignDescriptor{}
	}
	out.ControlBlock = sd.ControlBlock
	out.TapTweak = sd.TapTweak
	return out
}

func (c *c05Run) pf(format string, a ...interface{}) { fmt.Fprintf(c.w, format, a...) }

// sweep runs one sweeper-style spend (and negatives) of a resolution input.
func (c *c05Run) sweep(x int, ctx, kind string, mk func() input.Input, actual *wire.TxOut,
	terms *c0405Terms, payHash []byte, hasCSV, hasCLTV bool, sigTerms func(inp input.Input) []string) {

	p := c.p
	signer := p.ch[x].Signer
	run := func(mut *c0405Mut) {
		inp := mk()
		res := c0405Sweep(inp, signer, actual, c05Height, mut)
		variant := "pos"
		if mut != nil {
			variant = mut.name
		}
		if res.engine == "n/a" {
			return
		}
		spk := c0405SpkClass(actual.PkScript)
		ws, wit := "-", "-"
		if res.tx != nil {
			w := res.tx.TxIn[0].Witness
			n := c0405NScriptElems(spk, w)
			if n >= 1 && len(w) >= n {
				ws = terms.renderScript(w[len(w)-n], payHash)
			}
			st := []string{terms.signerTerm(inp.SignDesc())}
			if sigTerms != nil {
				st = sigTerms(inp)
			}
			wit = terms.renderWitness(w, n, st, payHash)
		}
		sd := inp.SignDesc()
		c.spendID++
		line := c0405SpendLine(c.spendID, ctx, kind, fmt.Sprint(inp.WitnessType()), variant, res.tx,
			inp.OutPoint().Index, sd.Output.Value, actual.Value,
			string(sd.Output.PkScript) == string(actual.PkScript), spk, ws, wit, res.engine)
		if spk == "p2tr" && ws == "-" {
			// key-path spend: does the descriptor's tap tweak lead to the output key?
			line = strings.Replace(line, " spk=", " kp="+c05KeyPathMatch(sd, actual.PkScript)+" spk=", 1)
		}
		c.pf("%s", line)
	}
	run(nil)
	// the same spend from the descriptor as reloaded from disk
	c.nCodec++
	if c.nCodec%2 == 0 {
		c.codec = true
		run(&c0405Mut{name: "reload"})
		c.codec = false
	}
	if c.negLeft <= 0 || strings.HasSuffix(kind, "Agg") {
		return
	}
	spk := c0405SpkClass(actual.PkScript)
	negs := c0405Negatives(p, x, mk(), hasCSV, hasCLTV, spk)
	p.r.Shuffle(len(negs), func(i, j int) { negs[i], negs[j] = negs[j], negs[i] })
	for i := 0; i < len(negs) && i < 2 && c.negLeft > 0; i++ {
		c.negLeft--
		run(negs[i])
	}
}

// presigned executes a second-level transaction signed at close time.
func (c *c05Run) presigned(ctx, kind, variant string, tx *wire.MsgTx, actual *wire.TxOut,
	terms *c0405Terms, payHash []byte, sigTerms []string, recAmt int64) {

	spk := c0405SpkClass(actual.PkScript)
	w := tx.TxIn[0].Witness
	n := c0405NScriptElems(spk, w)
	ws := "-"
	if n >= 1 && len(w) >= n {
		ws = terms.renderScript(w[len(w)-n], payHash)
	}
	wit := terms.renderWitness(w, n, sigTerms, payHash)
	engine := c0405Exec(tx, 0, map[wire.OutPoint]*wire.TxOut{tx.TxIn[0].PreviousOutPoint: actual})
	c.spendID++
	c.pf("%s", c0405SpendLine(c.spendID, ctx, kind, "presigned", variant, tx,
		tx.TxIn[0].PreviousOutPoint.Index, recAmt, actual.Value, true, spk, ws, wit, engine))
}


// c05KeyPathMatch tells whether the taproot output key is the descriptor's
// (tweaked) key with the descriptor's TapTweak applied (1 / 0; "-" if not
// applicable).
func c05KeyPathMatch(sd *input.SignDescriptor, pkScript []byte) string {
	if sd == nil || !txscript.IsPayToTaproot(pkScript) || sd.KeyDesc.PubKey == nil || len(pkScript) != 34 {
		return "-"
	}
	pub := sd.KeyDesc.PubKey
	switch {
	case sd.SingleTweak != nil:
		pub = input.TweakPubKeyWithTweak(pub, sd.SingleTweak)
	case sd.DoubleTweak != nil:
		pub = input.DeriveRevocationPubkey(pub, sd.DoubleTweak.PubKey())
	}
	out := txscript.ComputeTaprootOutputKey(pub, sd.TapTweak)
	if bytes.Equal(schnorr.SerializePubKey(out), pkScript[2:34]) {
		return "1"
	}
	return "0"
}

func c05HtlcList(htlcs []channeldb.HTLC, claimed map[int32]int64) string {
	var ss []string
	for _, h := range htlcs {
		cv, ok := claimed[h.OutputIndex]
		if !ok || h.OutputIndex < 0 {
			cv = -1
		}
		ss = append(ss, fmt.Sprintf("%d:%d:%d:%d", c0405B2i(h.Incoming), uint64(h.Amt), h.OutputIndex, cv))
	}
	if len(ss) == 0 {
		return "-"
	}
	return strings.Join(ss, ";")
}

func (c *c05Run) leaseCLTV(x int) (uint32, bool) {
	st := c.p.ch[x].channelState
	if st.ChanType.HasLeaseExpiration() && st.IsInitiator && st.ThawHeight > 0 {
		return st.ThawHeight, true
	}
	return 0, false
}

// localClose checks a ForceClose summary of node x.
func (c *c05Run) localClose(x int, h uint64, s *LocalForceCloseSummary, fpk int64, err error, tag string) {
	p := c.p
	c.probeID++
	xn := c0405NodeName[x]
	if err != nil {
		c.pf("probe n=%d x=%s src=local h=%d tag=%s => %s\n", c.probeID, xn, h, tag, c0405ErrClass(err))
		return
	}
	c.pf("probe n=%d x=%s src=local h=%d tag=%s => ok\n", c.probeID, xn, h, tag)
	st := p.ch[x].channelState
	ct := st.ChanType
	ctx := fmt.Sprintf("x:%s,src:local,h:%d,n:%d", xn, h, c.probeID)
	peer := c0405NodeName[1-x]

	rev, _ := st.RevocationProducer.AtIndex(h)
	cp := input.ComputeCommitmentPoint(rev[:])
	terms := p.terms(cp)

	// 1. the fully signed commitment against the funding output
	var fundOut *wire.TxOut
	if ct.IsTaproot() {
		_, fundOut, _ = input.GenTaprootFundingScript(st.LocalChanCfg.MultiSigKey.PubKey,
			st.RemoteChanCfg.MultiSigKey.PubKey, int64(st.Capacity), st.TapscriptRoot)
	} else {
		_, fundOut, _ = input.GenFundingPkScript(
			st.LocalChanCfg.MultiSigKey.PubKey.SerializeCompressed(),
			st.RemoteChanCfg.MultiSigKey.PubKey.SerializeCompressed(), int64(st.Capacity))
	}
	if h > 0 && fundOut != nil {
		tx := s.CloseTx
		w := tx.TxIn[0].Witness
		spk := c0405SpkClass(fundOut.PkScript)
		n := c0405NScriptElems(spk, w)
		ws := "-"
		if n >= 1 {
			ws = terms.renderScript(w[len(w)-n], nil)
		}
		// signature order follows the sorted keys
		la := st.LocalChanCfg.MultiSigKey.PubKey.SerializeCompressed()
		ra := st.RemoteChanCfg.MultiSigKey.PubKey.SerializeCompressed()
		st2 := []string{"bs:" + xn + ".ms", "bs:" + peer + ".ms"}
		if string(la) > string(ra) {
			st2 = []string{"bs:" + peer + ".ms", "bs:" + xn + ".ms"}
		}
		if ct.IsTaproot() {
			st2 = []string{"musig(A.ms+B.ms)"}
		}
		wit := terms.renderWitness(w, n, st2, nil)
		engine := c0405Exec(tx, 0, map[wire.OutPoint]*wire.TxOut{st.FundingOutpoint: fundOut})
		c.spendID++
		c.pf("%s", c0405SpendLine(c.spendID, ctx, "funding", "commit", "pos", tx,
			tx.TxIn[0].PreviousOutPoint.Index, fundOut.Value, fundOut.Value, true, spk, ws, wit, engine))
	}

	res := s.ContractResolutions.UnwrapOr(ContractResolutions{})
	commitTx := s.CloseTx
	htlcByIdx := map[uint32]channeldb.HTLC{}
	for _, ht := range s.ChanSnapshot.Htlcs {
		if ht.OutputIndex >= 0 {
			htlcByIdx[uint32(ht.OutputIndex)] = ht
		}
	}
	lease, hasLease := c.leaseCLTV(x)

	// 2. delayed to-local output
	claimSelf := int64(0)
	used := map[uint32]int{}
	if cr := res.CommitResolution; cr != nil && int(cr.SelfOutPoint.Index) < len(commitTx.TxOut) {
		actual := commitTx.TxOut[cr.SelfOutPoint.Index]
		claimSelf = actual.Value
		used[cr.SelfOutPoint.Index]++
		var wt input.StandardWitnessType
		switch {
		case ct.IsTaprootFinal():
			wt = input.TaprootLocalCommitSpendFinal
		case ct.IsTaproot():
			wt = input.TaprootLocalCommitSpend
		case hasLease:
			wt = input.LeaseCommitmentTimeLock
		default:
			wt = input.CommitmentTimeLock
		}
		mk := func() input.Input {
			sd := c.rt(cr.SelfOutputSignDesc)
			op := cr.SelfOutPoint
			if hasLease {
				return input.NewCsvInputWithCltv(&op, wt, &sd, c05Height, cr.MaturityDelay, lease)
			}
			return input.NewCsvInput(&op, wt, &sd, c05Height, cr.MaturityDelay)
		}
		c.sweep(x, ctx, "toLocal", mk, actual, terms, nil, true, hasLease, nil)
	}

	claimed := map[int32]int64{}
	if hr := res.HtlcResolutions; hr != nil {
		// 3. offered HTLCs: timeout tx, then the delayed second-level output
		for i := range hr.OutgoingHTLCs {
			r := &hr.OutgoingHTLCs[i]
			idx := r.HtlcPoint().Index
			if r.SignedTimeoutTx == nil || int(idx) >= len(commitTx.TxOut) {
				c.pf("bad ctx=%s kind=htlcTimeoutTx idx=%d => missing\n", ctx, idx)
				continue
			}
			used[idx]++
			actual := commitTx.TxOut[idx]
			claimed[int32(idx)] = actual.Value
			var payHash []byte
			if ht, ok := htlcByIdx[idx]; ok {
				payHash = ht.RHash[:]
			}
			sigs := []string{"tw:" + peer + ".htlc", "tw:" + xn + ".htlc"}
			stx := r.SignedTimeoutTx
			c.pf("second ctx=%s kind=timeout idx=%d expiry=%d locktime=%d seq=%d out_amt=%d htlc_amt=%d fpk=%d\n",
				ctx, idx, r.Expiry, stx.LockTime, stx.TxIn[0].Sequence, stx.TxOut[0].Value, actual.Value,
				fpk)
			c.presigned(ctx, "htlcTimeoutTx", "pos", stx, actual, terms, payHash, sigs, actual.Value)
			if r.SignDetails != nil {
				mk := func() input.Input {
					sdt := *r.SignDetails
					sdt.SignDesc = c.rt(sdt.SignDesc)
					if ct.IsTaproot() {
						v := input.MakeHtlcSecondLevelTimeoutTaprootInput(stx, &sdt, c05Height)
						return &v
					}
					v := input.MakeHtlcSecondLevelTimeoutAnchorInput(stx, &sdt, c05Height)
					return &v
				}
				c.sweep(x, ctx, "htlcTimeoutAgg", mk, actual, terms, payHash, true, true,
					func(input.Input) []string { return sigs })
			}
			var wt input.StandardWitnessType
			switch {
			case ct.IsTaprootFinal():
				wt = input.TaprootHtlcOfferedTimeoutSecondLevelFinal
			case ct.IsTaproot():
				wt = input.TaprootHtlcOfferedTimeoutSecondLevel
			case hasLease:
				wt = input.LeaseHtlcOfferedTimeoutSecondLevel
			default:
				wt = input.HtlcOfferedTimeoutSecondLevel
			}
			mk := func() input.Input {
				sd := c.rt(r.SweepSignDesc)
				op := r.ClaimOutpoint
				if hasLease {
					return input.NewCsvInputWithCltv(&op, wt, &sd, c05Height, r.CsvDelay, lease)
				}
				return input.NewCsvInput(&op, wt, &sd, c05Height, r.CsvDelay)
			}
			c.sweep(x, ctx, "secondLevelOut", mk, stx.TxOut[0], terms, nil, true, hasLease, nil)
		}
		// 4. received HTLCs: success tx with the preimage, then the second-level output
		for i := range hr.IncomingHTLCs {
			r := &hr.IncomingHTLCs[i]
			idx := r.HtlcPoint().Index
			if r.SignedSuccessTx == nil || int(idx) >= len(commitTx.TxOut) {
				c.pf("bad ctx=%s kind=htlcSuccessTx idx=%d => missing\n", ctx, idx)
				continue
			}
			used[idx]++
			actual := commitTx.TxOut[idx]
			claimed[int32(idx)] = actual.Value
			ht := htlcByIdx[idx]
			payHash := ht.RHash[:]
			pre := p.preimages[ht.RHash]
			sigs := []string{"tw:" + peer + ".htlc", "tw:" + xn + ".htlc"}
			stx := r.SignedSuccessTx.Copy()
			pi := 3
			if ct.IsTaproot() {
				pi = 2
			}
			c.pf("second ctx=%s kind=success idx=%d expiry=%d locktime=%d seq=%d out_amt=%d htlc_amt=%d fpk=%d\n",
				ctx, idx, ht.RefundTimeout, stx.LockTime, stx.TxIn[0].Sequence, stx.TxOut[0].Value, actual.Value,
				fpk)
			// as produced (no preimage yet) it must not be valid
			c.presigned(ctx, "htlcSuccessTx", "neg_nopre", stx, actual, terms, payHash, sigs, actual.Value)
			if pi < len(stx.TxIn[0].Witness) {
				stx.TxIn[0].Witness[pi] = pre[:]
			}
			c.presigned(ctx, "htlcSuccessTx", "pos", stx, actual, terms, payHash, sigs, actual.Value)
			if r.SignDetails != nil {
				mk := func() input.Input {
					sdt := *r.SignDetails
					sdt.SignDesc = c.rt(sdt.SignDesc)
					if ct.IsTaproot() {
						v := input.MakeHtlcSecondLevelSuccessTaprootInput(stx, &sdt, pre, c05Height)
						return &v
					}
					v := input.MakeHtlcSecondLevelSuccessAnchorInput(stx, &sdt, pre, c05Height)
					return &v
				}
				c.sweep(x, ctx, "htlcSuccessAgg", mk, actual, terms, payHash, true, false,
					func(input.Input) []string { return sigs })
			}
			var wt input.StandardWitnessType
			switch {
			case ct.IsTaprootFinal():
				wt = input.TaprootHtlcAcceptedSuccessSecondLevelFinal
			case ct.IsTaproot():
				wt = input.TaprootHtlcAcceptedSuccessSecondLevel
			case hasLease:
				wt = input.LeaseHtlcAcceptedSuccessSecondLevel
			default:
				wt = input.HtlcAcceptedSuccessSecondLevel
			}
			mk := func() input.Input {
				sd := c.rt(r.SweepSignDesc)
				op := r.ClaimOutpoint
				if hasLease {
					return input.NewCsvInputWithCltv(&op, wt, &sd, c05Height, r.CsvDelay, lease)
				}
				return input.NewCsvInput(&op, wt, &sd, c05Height, r.CsvDelay)
			}
			c.sweep(x, ctx, "secondLevelOut", mk, stx.TxOut[0], terms, nil, true, hasLease, nil)
		}
	}
	c.anchor(x, ctx, res.AnchorResolution, commitTx, terms, used)

	distinct := 1
	for _, n := range used {
		if n > 1 {
			distinct = 0
		}
	}
	lc := s.ChanSnapshot.ChannelCommitment
	c.pf("value ctx=%s whose=local own_msat=%d dust=%d fpk=%d claim_self=%d distinct=%d htlcs=%s\n",
		ctx, uint64(lc.LocalBalance), int64(st.LocalChanCfg.DustLimit), fpk,
		claimSelf, distinct, c05HtlcList(lc.Htlcs, claimed))
}

func (c *c05Run) anchor(x int, ctx string, ar *AnchorResolution, commitTx *wire.MsgTx,
	terms *c0405Terms, used map[uint32]int) {

	if ar == nil {
		return
	}
	if int(ar.CommitAnchor.Index) >= len(commitTx.TxOut) {
		c.pf("bad ctx=%s kind=anchor idx=%d => out-of-range\n", ctx, ar.CommitAnchor.Index)
		return
	}
	used[ar.CommitAnchor.Index]++
	actual := commitTx.TxOut[ar.CommitAnchor.Index]
	wt := input.CommitmentAnchor
	if txscript.IsPayToTaproot(ar.AnchorSignDescriptor.Output.PkScript) {
		wt = input.TaprootAnchorSweepSpend
	}
	mk := func() input.Input {
		sd := c.rt(ar.AnchorSignDescriptor)
		op := ar.CommitAnchor
		return input.NewBaseInput(&op, wt, &sd, c05Height)
	}
	c.sweep(x, ctx, "anchor", mk, actual, terms, nil, false, false, nil)
}

// remoteClose checks the resolutions for the peer's commitment `rc`.
func (c *c05Run) remoteClose(x int, src string, rc channeldb.ChannelCommitment,
	commitPoint *btcec.PublicKey, st *chanstate.OpenChannel, tag string) {

	p := c.p
	c.probeID++
	xn := c0405NodeName[x]
	h := rc.CommitHeight
	tx := rc.CommitTx
	hash := tx.TxHash()
	spend := &chainntnfs.SpendDetail{
		SpentOutPoint: &st.FundingOutpoint, SpenderTxHash: &hash, SpendingTx: tx,
		SpendingHeight: 777_000,
	}
	var (
		s   *UnilateralCloseSummary
		res string
	)
	func() {
		defer c0405Recover(&res)
		var err error
		s, err = NewUnilateralCloseSummary(st, p.ch[x].Signer, spend, rc, commitPoint,
			fn.None[AuxLeafStore](), fn.None[AuxContractResolver]())
		res = c0405ErrClass(err)
	}()
	// does the peer really hold this transaction?
	mirror := "-"
	if ptx, ok := p.held[1-x][h]; ok {
		mirror = strconv.Itoa(c0405B2i(ptx.TxHash() == hash))
	}
	c.pf("probe n=%d x=%s src=%s h=%d tag=%s mirror=%s => %s\n", c.probeID, xn, src, h, tag, mirror, res)
	if res != "ok" {
		return
	}
	ct := st.ChanType
	ctx := fmt.Sprintf("x:%s,src:%s,h:%d,n:%d", xn, src, h, c.probeID)
	terms := p.terms(commitPoint)
	htlcByIdx := map[uint32]channeldb.HTLC{}
	for _, ht := range rc.Htlcs {
		if ht.OutputIndex >= 0 {
			htlcByIdx[uint32(ht.OutputIndex)] = ht
		}
	}
	lease, hasLease := uint32(0), false
	if ct.HasLeaseExpiration() && st.IsInitiator && st.ThawHeight > 0 {
		lease, hasLease = st.ThawHeight, true
	}
	used := map[uint32]int{}
	claimSelf := int64(0)
	if cr := s.CommitResolution; cr != nil && int(cr.SelfOutPoint.Index) < len(tx.TxOut) {
		actual := tx.TxOut[cr.SelfOutPoint.Index]
		claimSelf = actual.Value
		used[cr.SelfOutPoint.Index]++
		var wt input.StandardWitnessType
		delayed := cr.MaturityDelay != 0
		switch {
		case ct.IsTaprootFinal():
			wt = input.TaprootRemoteCommitSpendFinal
		case ct.IsTaproot():
			wt = input.TaprootRemoteCommitSpend
		case delayed && hasLease:
			wt = input.LeaseCommitmentToRemoteConfirmed
		case delayed:
			wt = input.CommitmentToRemoteConfirmed
		case cr.SelfOutputSignDesc.SingleTweak == nil:
			wt = input.CommitSpendNoDelayTweakless
		default:
			wt = input.CommitmentNoDelay
		}
		mk := func() input.Input {
			sd := c.rt(cr.SelfOutputSignDesc)
			op := cr.SelfOutPoint
			if hasLease {
				return input.NewCsvInputWithCltv(&op, wt, &sd, c05Height, cr.MaturityDelay, lease)
			}
			return input.NewCsvInput(&op, wt, &sd, c05Height, cr.MaturityDelay)
		}
		c.sweep(x, ctx, "toRemote", mk, actual, terms, nil, delayed, hasLease, nil)
	}
	claimed := map[int32]int64{}
	if hr := s.HtlcResolutions; hr != nil {
		for i := range hr.OutgoingHTLCs {
			r := &hr.OutgoingHTLCs[i]
			idx := r.ClaimOutpoint.Index
			if int(idx) >= len(tx.TxOut) {
				c.pf("bad ctx=%s kind=htlcTimeout idx=%d => out-of-range\n", ctx, idx)
				continue
			}
			used[idx]++
			actual := tx.TxOut[idx]
			claimed[int32(idx)] = actual.Value
			var payHash []byte
			if ht, ok := htlcByIdx[idx]; ok {
				payHash = ht.RHash[:]
			}
			var wt input.StandardWitnessType
			switch {
			case ct.IsTaprootFinal():
				wt = input.TaprootHtlcOfferedRemoteTimeoutFinal
			case ct.IsTaproot():
				wt = input.TaprootHtlcOfferedRemoteTimeout
			default:
				wt = input.HtlcOfferedRemoteTimeout
			}
			mk := func() input.Input {
				sd := c.rt(r.SweepSignDesc)
				op := r.ClaimOutpoint
				return input.NewCsvInputWithCltv(&op, wt, &sd, c05Height, r.CsvDelay, r.Expiry)
			}
			c.sweep(x, ctx, "htlcTimeout", mk, actual, terms, payHash, r.CsvDelay > 0, true, nil)
		}
		for i := range hr.IncomingHTLCs {
			r := &hr.IncomingHTLCs[i]
			idx := r.ClaimOutpoint.Index
			if int(idx) >= len(tx.TxOut) {
				c.pf("bad ctx=%s kind=htlcClaim idx=%d => out-of-range\n", ctx, idx)
				continue
			}
			used[idx]++
			actual := tx.TxOut[idx]
			claimed[int32(idx)] = actual.Value
			ht := htlcByIdx[idx]
			payHash := ht.RHash[:]
			pre := p.preimages[ht.RHash]
			mk := func() input.Input {
				sd := c.rt(r.SweepSignDesc)
				op := r.ClaimOutpoint
				switch {
				case ct.IsTaprootFinal():
					v := input.MakeTaprootHtlcSucceedInputFinal(&op, &sd, pre[:], c05Height, r.CsvDelay)
					return &v
				case ct.IsTaproot():
					v := input.MakeTaprootHtlcSucceedInput(&op, &sd, pre[:], c05Height, r.CsvDelay)
					return &v
				}
				v := input.MakeHtlcSucceedInput(&op, &sd, pre[:], c05Height, r.CsvDelay)
				return &v
			}
			c.sweep(x, ctx, "htlcClaim", mk, actual, terms, payHash, r.CsvDelay > 0, false, nil)
		}
	}
	c.anchor(x, ctx, s.AnchorResolution, tx, terms, used)
	distinct := 1
	for _, n := range used {
		if n > 1 {
			distinct = 0
		}
	}
	c.pf("value ctx=%s whose=remote own_msat=%d dust=%d fpk=%d claim_self=%d distinct=%d htlcs=%s\n",
		ctx, uint64(rc.LocalBalance), int64(st.RemoteChanCfg.DustLimit), int64(rc.FeePerKw),
		claimSelf, distinct, c05HtlcList(rc.Htlcs, claimed))
}

// remoteViews probes the peer's current and pending commitments as node x
// sees them.
func (c *c05Run) remoteViews(x int, tag string, st *chanstate.OpenChannel) {
	c.remoteClose(x, "remote", st.RemoteCommitment, st.RemoteCurrentRevocation, st, tag)
	diff, err := st.RemoteCommitChainTip()
	if err == nil && diff != nil && st.RemoteNextRevocation != nil {
		c.remoteClose(x, "pending", diff.Commitment, st.RemoteNextRevocation, st, tag)
	}
}

func TestVerifC05(t *testing.T) {
	out := os.Getenv("VERIF_OUT")
	if out == "" {
		t.Skip("VERIF_OUT not set")
	}
	seed, _ := strconv.ParseInt(os.Getenv("VERIF_SEED"), 10, 64)
	tier := os.Getenv("VERIF_TIER")
	f, err := os.Create(out)
	if err != nil {
		t.Fatal(err)
	}
	defer f.Close()
	w := bufio.NewWriterSize(f, 1<<20)
	defer w.Flush()

	perKind, maxSteps, maxAdds, sample := 4, 80, 8, 30
	if tier == "thorough" {
		perKind, maxSteps, maxAdds, sample = 70, 160, 12, 30
	}
	if v, err := strconv.Atoi(os.Getenv("VERIF_C05_CASES")); err == nil && v > 0 {
		perKind = v
	}

	fmt.Fprintf(w, "FACT htlcTimeoutWeight=%d htlcSuccessWeight=%d htlcTimeoutWeightConf=%d "+
		"htlcSuccessWeightConf=%d anchorSize=%d sweepHeight=%d\n",
		input.HtlcTimeoutWeight, input.HtlcSuccessWeight, input.HtlcTimeoutWeightConfirmed,
		input.HtlcSuccessWeightConfirmed, int64(AnchorSize), c05Height)

	fmt.Fprintf(w, "CASE tmpl prop=c05 type=templates\n")
	c0405Templates(func(s string) { w.WriteString(s) }, rand.New(rand.NewSource(seed+7)))
	fmt.Fprintf(w, "END\n")

	caseID := 0
	stats := map[string]int{}
	for ki, kind := range c0405Kinds {
		for i := 0; i < perKind; i++ {
			caseID++
			r := rand.New(rand.NewSource(seed*1_000_033 + int64(ki)*1013 + int64(i)))
			p, err := c0405NewPair(t, kind, r, false, i%3 == 1)
			if err != nil {
				t.Fatalf("create channels %s: %v", kind.Name, err)
			}
			fmt.Fprintf(w, "CASE %d prop=c05 %s\n", caseID, p.header())
			run := &c05Run{w: w, p: p, negLeft: 60, sample: sample}
			p.onLocalCommit = func(x int, h uint64, s *LocalForceCloseSummary, fpk int64, err error, tag string) {
				if err != nil || r.Intn(100) < run.sample {
					run.localClose(x, h, s, fpk, err, tag)
				}
			}
			p.onRemoteView = func(x int) {
				if r.Intn(100) < run.sample {
					run.remoteViews(x, "mid", p.ch[x].channelState)
				}
			}
			if i%3 == 1 {
				p.smallBalancePrefix()
			}
			steps := maxSteps/2 + r.Intn(maxSteps/2+1)
			n := 0
			for n < steps && !p.dead && p.step(maxAdds) {
				n++
			}
			if r.Intn(3) != 0 {
				p.drain()
			}
			// final probes: live state and the state reloaded from disk
			p.onLocalCommit, p.onRemoteView = nil, nil
			for x := 0; x < 2; x++ {
				ch := p.ch[x]
				st := ch.channelState
				h := st.LocalCommitment.CommitHeight
				if h > 0 {
					func() {
						var (
							s   *LocalForceCloseSummary
							err error
						)
						func() {
							defer func() {
								if rr := recover(); rr != nil {
									err = fmt.Errorf("panic: %v", rr)
								}
							}()
							s, err = ch.ForceClose()
						}()
						ch.isClosed = false
						run.localClose(x, h, s, int64(st.LocalCommitment.FeePerKw), err, "final")
					}()
				}
				run.remoteViews(x, "final", st)

				// reloaded from the database
				chans, err := st.Db.FetchOpenChannels(st.IdentityPub)
				if err != nil || len(chans) != 1 {
					fmt.Fprintf(w, "probe n=0 x=%s src=reload h=%d tag=reload => err:fetch\n",
						c0405NodeName[x], h)
					continue
				}
				rst := chans[0]
				if h > 0 {
					func() {
						var (
							s   *LocalForceCloseSummary
							err error
						)
						func() {
							defer func() {
								if rr := recover(); rr != nil {
									err = fmt.Errorf("panic: %v", rr)
								}
							}()
							var nc *LightningChannel
							nc, err = NewLightningChannel(ch.Signer, rst, ch.sigPool)
							if err != nil {
								return
							}
							s, err = nc.ForceClose()
						}()
						run.localClose(x, h, s, int64(rst.LocalCommitment.FeePerKw), err, "reload")
					}()
				}
				run.remoteViews(x, "reload", rst)
			}
			fmt.Fprintf(w, "history steps=%d dead=%d\n", n, c0405B2i(p.dead))
			fmt.Fprintf(w, "END\n")
			for k, v := range p.stats {
				stats[k] += v
			}
		}
	}
	keys := make([]string, 0, len(stats))
	for k := range stats {
		keys = append(keys, k)
	}
	sort.Strings(keys)
	var sb strings.Builder
	for _, k := range keys {
		fmt.Fprintf(&sb, " %s=%d", k, stats[k])
	}
	fmt.Fprintf(w, "DIST%s\n", sb.String())
	_ = lntypes.Local
}
