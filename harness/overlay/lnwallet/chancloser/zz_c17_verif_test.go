//go:build verif

package chancloser

// C17 correspondence/monitor harness (stream "chancloser"). Two real
// ChanClosers are wired back-to-back over a real lnwallet channel pair (real
// signatures, real close transactions); the only stand-ins are the fee
// estimator (returns the configured absolute fee), the broadcast/disable
// callbacks and, for taproot channels, a local copy of peer.MusigChanCloser
// (package peer cannot be imported from here). One line is printed per
// delivered closing_signed for the Lean driver (drv_c17 chancloser).

import (
	"bufio"
	"bytes"
	"errors"
	"fmt"
	"io"
	"math"
	"math/rand"
	"os"
	"sort"
	"strconv"
	"strings"
	"testing"

	"github.com/btcsuite/btcd/btcec/v2/schnorr/musig2"
	"github.com/btcsuite/btcd/btcutil/v2"
	"github.com/btcsuite/btcd/chaincfg/v2"
	"github.com/btcsuite/btcd/wire/v2"
	"github.com/lightningnetwork/lnd/channeldb"
	"github.com/lightningnetwork/lnd/fn/v2"
	"github.com/lightningnetwork/lnd/input"
	"github.com/lightningnetwork/lnd/lntypes"
	"github.com/lightningnetwork/lnd/lnwallet"
	"github.com/lightningnetwork/lnd/lnwallet/chainfee"
	"github.com/lightningnetwork/lnd/lnwire"
)

type c17 struct {
	w   *bufio.Writer
	rng *rand.Rand
	n   int
}

func (c *c17) pf(format string, a ...interface{}) {
	fmt.Fprintf(c.w, format+"\n", a...)
}

func c17b(b bool) int {
	if b {
		return 1
	}
	return 0
}

// c17Estimator maps a "fee rate" one-to-one onto an absolute fee so that the
// harness controls idealFeeSat and maxFee exactly.
type c17Estimator struct{}

func (c17Estimator) EstimateFee(_ channeldb.ChannelType, _, _ *wire.TxOut,
	rate chainfee.SatPerKWeight) btcutil.Amount {

	return btcutil.Amount(rate)
}

// c17Musig is peer.MusigChanCloser, reproduced because package peer imports
// this package.
type c17Musig struct {
	channel      *lnwallet.LightningChannel
	musigSession *lnwallet.MusigSession
	localNonce   *musig2.Nonces
	remoteNonce  *musig2.Nonces
}

func (m *c17Musig) ProposalClosingOpts() ([]lnwallet.ChanCloseOpt, error) {
	switch {
	case m.localNonce == nil:
		return nil, fmt.Errorf("local nonce not generated")
	case m.remoteNonce == nil:
		return nil, fmt.Errorf("remote nonce not generated")
	}
	localKey, remoteKey := m.channel.MultiSigKeys()
	tweak := fn.MapOption(lnwallet.TapscriptRootToTweak)(
		m.channel.State().TapscriptRoot,
	)
	m.musigSession = lnwallet.NewPartialMusigSession(
		*m.remoteNonce, localKey, remoteKey, m.channel.Signer,
		m.channel.FundingTxOut(), lnwallet.RemoteMusigCommit, tweak,
		fn.None[io.Reader](),
	)
	if err := m.musigSession.FinalizeSession(*m.localNonce); err != nil {
		return nil, err
	}
	return []lnwallet.ChanCloseOpt{
		lnwallet.WithCoopCloseMusigSession(m.musigSession),
	}, nil
}

func (m *c17Musig) CombineClosingOpts(localSig,
	remoteSig lnwire.PartialSig) (input.Signature, input.Signature,
	[]lnwallet.ChanCloseOpt, error) {

	if m.musigSession == nil {
		return nil, nil, nil, fmt.Errorf("musig session not created")
	}
	l := new(lnwallet.MusigPartialSig).FromWireSig(
		&lnwire.PartialSigWithNonce{
			PartialSig: localSig, Nonce: m.localNonce.PubNonce,
		},
	)
	r := new(lnwallet.MusigPartialSig).FromWireSig(
		&lnwire.PartialSigWithNonce{
			PartialSig: remoteSig, Nonce: m.remoteNonce.PubNonce,
		},
	)
	return l, r, []lnwallet.ChanCloseOpt{
		lnwallet.WithCoopCloseMusigSession(m.musigSession),
	}, nil
}

func (m *c17Musig) ClosingNonce() (*musig2.Nonces, error) {
	localKey, _ := m.channel.MultiSigKeys()
	nonce, err := musig2.GenNonces(musig2.WithPublicKey(localKey.PubKey))
	if err != nil {
		return nil, err
	}
	m.localNonce = nonce
	return nonce, nil
}

func (m *c17Musig) InitRemoteNonce(nonce *musig2.Nonces) {
	m.remoteNonce = nonce
}

func (m *c17Musig) InvalidateNonce() {
	m.localNonce = nil
	m.musigSession = nil
}

func c17err(err error) string {
	switch {
	case err == nil:
		return "ok"
	case errors.Is(err, ErrProposalExceedsMaxFee):
		return "exceedsmax"
	case strings.Contains(err.Error(), "cannot afford"),
		strings.Contains(err.Error(), "transaction has no outputs"):

		// CreateCloseProposal refused to build / sign this fee
		return "cannotsign"
	case strings.Contains(err.Error(), "was not accepted"):
		return "taprootmismatch"
	case errors.Is(err, ErrInvalidState):
		return "invalidstate"
	}
	return "other"
}

// ---------------------------------------------------------------------------
// direct grids for the three fee functions
// ---------------------------------------------------------------------------

func (c *c17) amt() int64 {
	switch c.rng.Intn(12) {
	case 0:
		return []int64{0, 1, 2, 3, 4, 9, 10, 11, 19, 20, 99, 100,
			101, 109, 110, 111}[c.rng.Intn(16)]
	case 1:
		return int64(c.rng.Intn(40))
	case 2:
		return int64(c.rng.Intn(2000))
	case 3: // overflow neighbourhoods of fee*3 and fee+fee*3/10
		p := []int64{math.MaxInt64 / 3, math.MaxInt64,
			math.MaxInt64 / 13 * 10, math.MinInt64 / 3,
			math.MinInt64}[c.rng.Intn(5)]
		d := int64(c.rng.Intn(41)) - 20
		if (p > 0 && d > 0 && p > math.MaxInt64-d) ||
			(p < 0 && d < 0 && p < math.MinInt64-d) {

			d = -d
		}
		return p + d
	case 4:
		return -int64(c.rng.Intn(2000))
	case 5:
		return c.rng.Int63n(21_000_000 * 100_000_000)
	default:
		return int64(c.rng.Intn(1_000_000))
	}
}

// near returns a value close to one of the thresholds local is compared with.
func (c *c17) near(local int64) int64 {
	if local > math.MaxInt64/4 || local < math.MinInt64/4 {
		return c.amt()
	}
	piv := []int64{local, local + local*3/10, local - local*3/10,
		local + local/10, local - local/10, 0}[c.rng.Intn(6)]
	return piv + int64(c.rng.Intn(5)) - 2
}

func (c *c17) grids(n int) {
	c.n++
	c.pf("CASE %d kind=grid-fee", c.n)
	for i := 0; i < n; i++ {
		fee := c.amt()
		c.pf("ratchet fee=%d up=1 => %d", fee,
			int64(ratchetFee(btcutil.Amount(fee), true)))
		c.pf("ratchet fee=%d up=0 => %d", fee,
			int64(ratchetFee(btcutil.Amount(fee), false)))

		local := c.amt()
		remote := c.near(local)
		if c.rng.Intn(4) == 0 {
			remote = c.amt()
		}
		c.pf("inrange local=%d remote=%d => %d", local, remote,
			c17b(feeInAcceptableRange(btcutil.Amount(local),
				btcutil.Amount(remote))))

		ideal, last := c.amt(), c.amt()
		if c.rng.Intn(6) == 0 {
			last = 0
		}
		rem := c.near(last)
		switch c.rng.Intn(6) {
		case 0:
			rem = ideal
		case 1:
			rem = c.amt()
		}
		c.pf("compromise ideal=%d last=%d remote=%d => %d", ideal, last,
			rem, int64(calcCompromiseFee(wire.OutPoint{},
				btcutil.Amount(ideal), btcutil.Amount(last),
				btcutil.Amount(rem))))
	}
	c.pf("END")
}

// ---------------------------------------------------------------------------
// back-to-back negotiation
// ---------------------------------------------------------------------------

type c17node struct {
	name   string
	ch     *lnwallet.LightningChannel
	closer *ChanCloser
	script []byte
	bcast  []*wire.MsgTx
	// gone: after a restart the channel is not loaded any more because a
	// co-op close tx is on record (peer.restartCoopClose); the old closer
	// object is kept for reporting only.
	gone bool
}

func c17ser(tx *wire.MsgTx) []byte {
	var b bytes.Buffer
	_ = tx.Serialize(&b)
	return b.Bytes()
}

func (nd *c17node) offers() string {
	var fs []int64
	for f := range nd.closer.priorFeeOffers {
		fs = append(fs, int64(f))
	}
	sort.Slice(fs, func(i, j int) bool { return fs[i] < fs[j] })
	if len(fs) == 0 {
		return "-"
	}
	var sb strings.Builder
	for i, f := range fs {
		if i > 0 {
			sb.WriteString(",")
		}
		fmt.Fprint(&sb, f)
	}
	return sb.String()
}

func (nd *c17node) stateName() string {
	switch nd.closer.state {
	case closeIdle:
		return "idle"
	case closeShutdownInitiated:
		return "shutdown"
	case closeAwaitingFlush:
		return "flush"
	case closeFeeNegotiation:
		return "neg"
	case closeFinished:
		return "fin"
	}
	return "unknown"
}

func (c *c17) reply(nd *c17node, r fn.Option[lnwire.ClosingSigned],
	err error) (string, *lnwire.ClosingSigned) {

	if err != nil {
		return "err " + c17err(err), nil
	}
	var out *lnwire.ClosingSigned
	r.WhenSome(func(cs lnwire.ClosingSigned) { out = &cs })
	if out == nil {
		return "none", nil
	}
	if nd.closer.state == closeFinished {
		return fmt.Sprintf("final %d", int64(out.FeeSatoshis)), out
	}
	return fmt.Sprintf("send %d", int64(out.FeeSatoshis)), out
}

type c17neg struct {
	tname            string
	idealI, idealR   int64
	maxCfgI, maxCfgR int64
	shutdownByI      bool
	early            bool
	openerSat        int64 // opener's balance incl. commit fee and anchors
	otherSat         int64 // the non-opener's balance
	maxMsgs          int
}

// negotiate runs one full legacy negotiation. chI is the channel opener's
// state machine (sends the first closing_signed), chR the other side's.
func (c *c17) negotiate(chI, chR *lnwallet.LightningChannel, p c17neg) {
	chI.ResetState()
	chR.ResetState()
	c.n++
	stI := chI.State()
	c.pf("CASE %d kind=neg type=%s taproot=%d idealI=%d idealR=%d maxCfgI=%d "+
		"maxCfgR=%d shutdownBy=%s early=%d openerSat=%d otherSat=%d dustI=%d dustR=%d "+
		"capacity=%d cap=%d", c.n, p.tname,
		c17b(stI.ChanType.IsTaproot()), p.idealI, p.idealR, p.maxCfgI,
		p.maxCfgR, map[bool]string{true: "I", false: "R"}[p.shutdownByI],
		c17b(p.early), p.openerSat, p.otherSat,
		int64(stI.LocalChanCfg.DustLimit),
		int64(stI.RemoteChanCfg.DustLimit), int64(stI.Capacity), p.maxMsgs)

	mk := func(name string, ch *lnwallet.LightningChannel, ideal,
		maxCfg int64, local bool) *c17node {

		nd := &c17node{name: name, ch: ch}
		nd.script = make([]byte, 22)
		c.rng.Read(nd.script)
		nd.script[0], nd.script[1] = 0x00, 0x14
		party := lntypes.Remote
		if local {
			party = lntypes.Local
		}
		cfg := ChanCloseCfg{
			Channel: ch,
			BroadcastTx: func(tx *wire.MsgTx, _ string) error {
				nd.bcast = append(nd.bcast, tx)
				return nil
			},
			DisableChannel: func(wire.OutPoint) error { return nil },
			Disconnect:     func() error { return nil },
			MaxFee:         chainfee.SatPerKWeight(maxCfg),
			ChainParams:    &chaincfg.RegressionNetParams,
			FeeEstimator:   c17Estimator{},
			Quit:           make(chan struct{}),
		}
		if ch.State().ChanType.IsTaproot() {
			cfg.MusigSession = &c17Musig{channel: ch}
		}
		nd.closer = NewChanCloser(
			cfg, DeliveryAddrWithKey{DeliveryAddress: nd.script},
			chainfee.SatPerKWeight(ideal), 100, nil, party,
		)
		return nd
	}
	nI := mk("I", chI, p.idealI, p.maxCfgI, p.shutdownByI)
	nR := mk("R", chR, p.idealR, p.maxCfgR, !p.shutdownByI)

	fail := func(what string, err error) {
		c.pf("setup %s => err %s", what, c17err(err))
		c.pf("END")
	}

	// shutdown exchange
	first, second := nI, nR
	if !p.shutdownByI {
		first, second = nR, nI
	}
	sd1, err := first.closer.ShutdownChan()
	if err != nil {
		fail("shutdown1", err)
		return
	}
	osd2, err := second.closer.ReceiveShutdown(*sd1)
	if err != nil || osd2.IsNone() {
		fail("shutdown2", err)
		return
	}
	sd2 := osd2.UnwrapOr(lnwire.Shutdown{})
	if _, err := first.closer.ReceiveShutdown(sd2); err != nil {
		fail("shutdown3", err)
		return
	}

	// the opener starts
	var msg *lnwire.ClosingSigned
	res := ""
	func() {
		defer func() {
			if r := recover(); r != nil {
				res = "panic"
			}
		}()
		r, err := nI.closer.BeginNegotiation()
		res, msg = c.reply(nI, r, err)
	}()
	c.pf("init I ideal=%d max=%d", int64(nI.closer.idealFeeSat),
		int64(nI.closer.maxFee))
	c.pf("begin I => %s", res)

	delivered := 0
	capped := false
	cur, oth := nR, nI
	if msg != nil && p.early {
		// the first offer overtakes R's flush notification
		r, err := nR.closer.ReceiveClosingSigned(*msg)
		s, _ := c.reply(nR, r, err)
		c.pf("cache R fee=%d => %s", int64(msg.FeeSatoshis), s)
	}
	func() {
		defer func() {
			if r := recover(); r != nil {
				res = "panic"
			}
		}()
		r, err := nR.closer.BeginNegotiation()
		var m2 *lnwire.ClosingSigned
		res, m2 = c.reply(nR, r, err)
		c.pf("init R ideal=%d max=%d", int64(nR.closer.idealFeeSat),
			int64(nR.closer.maxFee))
		if msg != nil && p.early {
			// BeginNegotiation processed the cached offer
			delivered++
			c.pf("recv R fee=%d => %s", int64(msg.FeeSatoshis), res)
			msg = m2
			cur, oth = nI, nR
			if strings.HasPrefix(res, "err") {
				msg = nil
			}
		} else {
			c.pf("begin R => %s", res)
		}
	}()

	for msg != nil {
		if delivered >= p.maxMsgs {
			capped = true
			break
		}
		delivered++
		in := *msg
		func() {
			defer func() {
				if r := recover(); r != nil {
					res, msg = "panic", nil
				}
			}()
			r, err := cur.closer.ReceiveClosingSigned(in)
			res, msg = c.reply(cur, r, err)
		}()
		c.pf("recv %s fee=%d => %s", cur.name, int64(in.FeeSatoshis), res)
		cur, oth = oth, cur
	}

	txfee := func(nd *c17node) int64 {
		tx, err := nd.closer.ClosingTx()
		if err != nil || tx == nil {
			return -1
		}
		var sum int64
		for _, o := range tx.TxOut {
			sum += o.Value
		}
		// fee actually paid = funds of the channel (credited balances)
		// minus what the outputs carry
		return p.openerSat + p.otherSat - sum
	}
	txeq := -1
	tI, eI := nI.closer.ClosingTx()
	tR, eR := nR.closer.ClosingTx()
	if eI == nil && eR == nil && tI != nil && tR != nil {
		txeq = c17b(bytes.Equal(c17ser(tI), c17ser(tR)))
	}
	c.pf("end delivered=%d capped=%d stateI=%s stateR=%s txfeeI=%d "+
		"txfeeR=%d txeq=%d bcastI=%d bcastR=%d lastI=%d lastR=%d "+
		"offersI=%s offersR=%s", delivered, c17b(capped), nI.stateName(),
		nR.stateName(), txfee(nI), txfee(nR), txeq, len(nI.bcast),
		len(nR.bcast), int64(nI.closer.lastFeeProposal),
		int64(nR.closer.lastFeeProposal), nI.offers(), nR.offers())
	c.pf("END")
}

func (c *c17) ideal(lo int64) int64 {
	switch c.rng.Intn(8) {
	case 0:
		return lo + int64(c.rng.Intn(12))
	case 1:
		return 100 + int64(c.rng.Intn(30))
	case 2:
		return 100 + int64(c.rng.Intn(2000))
	case 3:
		return 183 * int64(1+c.rng.Intn(200)) // ~ sat/vbyte steps
	default:
		return lo + int64(c.rng.Intn(30000))
	}
}

func TestVerifC17(t *testing.T) {
	out := os.Getenv("VERIF_OUT")
	if out == "" {
		t.Skip("VERIF_OUT not set")
	}
	seed, _ := strconv.ParseInt(os.Getenv("VERIF_SEED"), 10, 64)
	thorough := os.Getenv("VERIF_TIER") == "thorough"
	f, err := os.Create(out)
	if err != nil {
		t.Fatal(err)
	}
	defer f.Close()
	c := &c17{
		w:   bufio.NewWriterSize(f, 1<<20),
		rng: rand.New(rand.NewSource(seed)),
	}
	defer c.w.Flush()

	c.pf("FACT maxFeeMult=%d", defaultMaxFeeMultiplier)

	mult := 1
	if thorough {
		mult = 10
	}
	c.grids(2500 * mult)

	anchor := channeldb.AnchorOutputsBit | channeldb.ZeroHtlcTxFeeBit |
		channeldb.SingleFunderTweaklessBit
	types := []struct {
		name string
		ct   channeldb.ChannelType
		n    int
	}{
		{"tweakless", channeldb.SingleFunderTweaklessBit, 120},
		{"anchors", anchor, 120},
		{"taproot", anchor | channeldb.SimpleTaprootFeatureBit, 25},
	}
	for _, ty := range types {
		a, b, err := lnwallet.CreateTestChannels(t, ty.ct)
		if err != nil {
			t.Fatalf("CreateTestChannels(%s): %v", ty.name, err)
		}
		anchors := int64(0)
		if ty.ct.HasAnchors() {
			anchors = 660
		}
		origA := a.State().LocalCommitment
		origB := b.State().LocalCommitment
		for i := 0; i < ty.n*mult; i++ {
			// who opened the channel (forced flag; CreateTestChannels
			// always makes Alice the opener)
			aOpens := c.rng.Intn(2) == 0
			a.State().IsInitiator, b.State().IsInitiator = aOpens, !aOpens
			a.State().LocalCommitment = origA
			b.State().LocalCommitment = origB
			chI, chR := a, b
			if !aOpens {
				chI, chR = b, a
				// keep "the opener's balance excludes the commit
				// fee" true after flipping the flag
				la := origA.LocalBalance
				a.State().LocalCommitment.LocalBalance = origB.LocalBalance
				a.State().LocalCommitment.RemoteBalance = la
				b.State().LocalCommitment.LocalBalance = la
				b.State().LocalCommitment.RemoteBalance = origB.LocalBalance
			}
			cf := int64(chI.State().LocalCommitment.CommitFee)

			p := c17neg{tname: ty.name, maxMsgs: 400,
				shutdownByI: c.rng.Intn(2) == 0,
				early:       c.rng.Intn(4) == 0}
			switch c.rng.Intn(10) {
			case 0: // below the realistic range: may not terminate
				p.idealI, p.idealR = c.ideal(0), c.ideal(0)
				if c.rng.Intn(2) == 0 {
					p.idealI = int64(c.rng.Intn(12))
				}
				if c.rng.Intn(2) == 0 {
					p.idealR = int64(c.rng.Intn(12))
				}
				p.maxMsgs = 120
			case 1: // equal or adjacent ideals
				p.idealI = c.ideal(100)
				p.idealR = p.idealI + int64(c.rng.Intn(3)) - 1
			case 2: // around the 30% acceptance boundary
				p.idealI = c.ideal(100)
				k := []int64{13, 7, 10, 11, 9}[c.rng.Intn(5)]
				p.idealR = p.idealI*k/10 + int64(c.rng.Intn(5)) - 2
				if c.rng.Intn(2) == 0 {
					p.idealI, p.idealR = p.idealR, p.idealI
				}
			default:
				p.idealI, p.idealR = c.ideal(100), c.ideal(100)
			}
			if p.idealI < 0 {
				p.idealI = 0
			}
			if p.idealR < 0 {
				p.idealR = 0
			}
			hi := p.idealI
			if p.idealR > hi {
				hi = p.idealR
			}
			switch c.rng.Intn(6) {
			case 0: // explicit cap above both ideals
				p.maxCfgI = hi + int64(c.rng.Intn(1000))
			case 1: // explicit cap near the larger ideal (may bail out)
				p.maxCfgI = hi + int64(c.rng.Intn(7)) - 3
			case 2: // the non-opener's cap is never consulted
				p.maxCfgR = 1 + int64(c.rng.Intn(100))
			}
			if c.rng.Intn(8) == 0 {
				// cap boundary: the other side's ideal is the larger
				// one, within 30% of the opener's, and EXACTLY the
				// opener's cap, so the opener's accepting proposal
				// equals its max fee
				p.idealI = c.ideal(100)
				p.idealR = p.idealI + p.idealI*int64(1+c.rng.Intn(3))/10
				p.maxCfgI = p.idealR + int64(c.rng.Intn(3)) - 1
				p.maxCfgR = 0
				hi = p.idealR
			}
			if p.maxCfgI < 0 {
				p.maxCfgI = 0
			}
			// the opener's spendable balance
			openerSat := int64(chI.State().LocalCommitment.LocalBalance.ToSatoshis()) +
				cf + anchors
			if c.rng.Intn(8) == 0 {
				// opener can pay only about the ideal fees
				want := c.ideal(100)
				if c.rng.Intn(2) == 0 {
					want = hi + int64(c.rng.Intn(400)) - 200
				}
				if want < cf+anchors {
					want = cf + anchors
				}
				bal := lnwire.NewMSatFromSatoshis(
					btcutil.Amount(want - cf - anchors),
				)
				rest := lnwire.NewMSatFromSatoshis(
					chI.State().Capacity - btcutil.Amount(want),
				)
				chI.State().LocalCommitment.LocalBalance = bal
				chI.State().LocalCommitment.RemoteBalance = rest
				chR.State().LocalCommitment.RemoteBalance = bal
				chR.State().LocalCommitment.LocalBalance = rest
				openerSat = want
			}
			if c.rng.Intn(10) == 0 {
				// the non-opener is below its dust limit: the close tx
				// has only the opener's output, which must stay above
				// the opener's own dust limit
				dustR := int64(chI.State().RemoteChanCfg.DustLimit)
				other := c.rng.Int63n(dustR)
				lb := chI.State().LocalCommitment.LocalBalance
				if c.rng.Intn(2) == 0 {
					// ... and the opener can pay only about the fees
					want := hi + int64(c.rng.Intn(600)) - 100
					if want < cf+anchors {
						want = cf + anchors
					}
					lb = lnwire.NewMSatFromSatoshis(
						btcutil.Amount(want - cf - anchors),
					)
					openerSat = want
				}
				ob := lnwire.NewMSatFromSatoshis(btcutil.Amount(other))
				chI.State().LocalCommitment.LocalBalance = lb
				chI.State().LocalCommitment.RemoteBalance = ob
				chR.State().LocalCommitment.RemoteBalance = lb
				chR.State().LocalCommitment.LocalBalance = ob
			}
			p.openerSat = openerSat
			p.otherSat = int64(chI.State().LocalCommitment.RemoteBalance.ToSatoshis())
			c.negotiate(chI, chR, p)
		}
	}
}
