//go:build verif

package chancloser

// C17 correspondence/monitor harness (stream "rbf"). Two RBF co-op closer state
// machines (the real state types and ProcessEvent functions of
// rbf_coop_transitions.go, each with its own real Environment whose CloseSigner
// is a real lnwallet channel) are driven back-to-back through
// shutdown -> channel flushed -> SendOfferEvent -> closing_complete ->
// closing_sig, for several RBF iterations with either side as closer.
//
// The generic protofsm executor (goroutines, daemon adapters) is replaced by a
// synchronous loop with the same semantics: external events of a transition
// are executed first (messages go to the peer's queue through the real
// RbfMsgMapper, PostSendEvent is fed back), then internal events are processed
// in order. Stand-ins: the fee estimator (returns the configured absolute fee)
// and the channel observer (final balances = the channel's snapshot, as
// peer.chanObserver does).

import (
	"bufio"
	"bytes"
	"encoding/hex"
	"errors"
	"fmt"
	"math/rand"
	"os"
	"strconv"
	"strings"
	"testing"

	"github.com/btcsuite/btcd/btcec/v2"
	"github.com/btcsuite/btcd/btcutil/v2"
	"github.com/btcsuite/btcd/chaincfg/v2"
	"github.com/btcsuite/btcd/txscript/v2"
	"github.com/btcsuite/btcd/wire/v2"
	"github.com/lightningnetwork/lnd/channeldb"
	"github.com/lightningnetwork/lnd/fn/v2"
	"github.com/lightningnetwork/lnd/lnwallet"
	"github.com/lightningnetwork/lnd/lnwallet/chainfee"
	"github.com/lightningnetwork/lnd/lnwire"
	"github.com/lightningnetwork/lnd/msgmux"
	"github.com/lightningnetwork/lnd/protofsm"
)

type c17rbfEstimator struct{ fee btcutil.Amount }

func (e *c17rbfEstimator) EstimateFee(_ channeldb.ChannelType, _, _ *wire.TxOut,
	_ chainfee.SatPerKWeight) btcutil.Amount {

	return e.fee
}

type c17observer struct {
	ch     *lnwallet.LightningChannel
	marked []*wire.MsgTx
}

func (o *c17observer) NoDanglingUpdates() bool    { return true }
func (o *c17observer) DisableIncomingAdds() error { return nil }
func (o *c17observer) DisableOutgoingAdds() error { return nil }
func (o *c17observer) DisableChannel() error      { return nil }
func (o *c17observer) MarkCoopBroadcasted(tx *wire.MsgTx, _ bool) error {
	o.marked = append(o.marked, tx)
	return nil
}
func (o *c17observer) MarkShutdownSent([]byte, bool) error { return nil }
func (o *c17observer) FinalBalances() fn.Option[ShutdownBalances] {
	snap := o.ch.StateSnapshot()
	return fn.Some(ShutdownBalances{
		LocalBalance:  snap.LocalBalance,
		RemoteBalance: snap.RemoteBalance,
	})
}

// c17rbfNode is one side's state machine instance plus its event queue.
type c17rbfNode struct {
	name   string
	ch     *lnwallet.LightningChannel
	env    *Environment
	state  ProtocolState
	est    *c17rbfEstimator
	obs    *c17observer
	mapper *RbfMsgMapper
	peer   *c17rbfNode
	pub    btcec.PublicKey // own identity as seen by the peer

	queue  []ProtocolEvent
	inbox  []lnwire.Message
	bcast  []*wire.MsgTx
	lastTr string // error of the last failing transition
}

func c17rbfErr(err error) string {
	switch {
	case err == nil:
		return "ok"
	case errors.Is(err, ErrRemoteCannotPay):
		return "remotecannotpay"
	case errors.Is(err, ErrCloserNoClosee), errors.Is(err, ErrCloserAndClosee),
		errors.Is(err, ErrNoSig):

		return "sigfield"
	case errors.Is(err, ErrInvalidStateTransition):
		return "invalidtransition"
	case strings.Contains(err.Error(), "cannot afford"):
		return "afford"
	case strings.Contains(err.Error(), "transaction has no outputs"):
		return "nooutputs"
	}
	// the counterparty's signature does not fit the transaction this side
	// built (script engine failure for ECDSA, musig2 combine/verify failure
	// for taproot)
	var se txscript.Error
	if errors.As(err, &se) ||
		strings.Contains(err.Error(), "unable to complete coop close") {

		return "sigreject"
	}
	return "other"
}

// step processes one queued event (and everything it emits internally).
// Returns false if the transition failed.
func (n *c17rbfNode) process(ev ProtocolEvent) (ok bool) {
	defer func() {
		if r := recover(); r != nil {
			n.lastTr = "panic"
			ok = false
		}
	}()
	tr, err := n.state.ProcessEvent(ev, n.env)
	if err != nil {
		n.lastTr = c17rbfErr(err)
		return false
	}
	n.state = tr.NextState.(ProtocolState)
	var internal []ProtocolEvent
	tr.NewEvents.WhenSome(func(e RbfEvent) {
		for _, d := range e.ExternalEvents {
			switch de := d.(type) {
			case *protofsm.SendMsgEvent[ProtocolEvent]:
				n.peer.inbox = append(n.peer.inbox, de.Msgs...)
				de.PostSendEvent.WhenSome(func(p ProtocolEvent) {
					internal = append(internal, p)
				})
			case *protofsm.BroadcastTxn:
				n.bcast = append(n.bcast, de.Tx)
			}
		}
		internal = append(internal, e.InternalEvent...)
	})
	for _, ie := range internal {
		if !n.process(ie) {
			return false
		}
	}
	return true
}

// deliver maps every wire message in the inbox through the real msg mapper
// and processes it.
func (n *c17rbfNode) deliver() bool {
	for len(n.inbox) > 0 {
		m := n.inbox[0]
		n.inbox = n.inbox[1:]
		ev := n.mapper.MapMsg(msgmux.PeerMsg{
			Message: m, PeerPub: n.peer.pub,
		})
		okAll := true
		ev.WhenSome(func(e ProtocolEvent) {
			okAll = n.process(e)
		})
		if ev.IsNone() {
			n.lastTr = "unmapped"
			return false
		}
		if !okAll {
			return false
		}
	}
	return true
}

func c17stateName(s ProtocolState) string {
	short := func(x interface{}) string {
		return strings.TrimPrefix(fmt.Sprintf("%T", x), "*chancloser.")
	}
	if cn, ok := s.(*ClosingNegotiation); ok {
		return fmt.Sprintf("Neg(%s,%s)", short(cn.PeerState.Local),
			short(cn.PeerState.Remote))
	}
	return short(s)
}

func c17rbfTx(tx *wire.MsgTx) string {
	var sb strings.Builder
	fmt.Fprintf(&sb, "ver=%d nin=%d seq=%d lock=%d outs=", tx.Version,
		len(tx.TxIn), tx.TxIn[0].Sequence, tx.LockTime)
	if len(tx.TxOut) == 0 {
		sb.WriteString("-")
	}
	for i, o := range tx.TxOut {
		if i > 0 {
			sb.WriteString(",")
		}
		fmt.Fprintf(&sb, "%d:%s", o.Value, hex.EncodeToString(o.PkScript))
	}
	return sb.String()
}

func c17rbfEngine(ch *lnwallet.LightningChannel, tx *wire.MsgTx) string {
	res := "ok"
	func() {
		defer func() {
			if r := recover(); r != nil {
				res = "panic"
			}
		}()
		prev := ch.FundingTxOut()
		fetcher := txscript.NewCannedPrevOutputFetcher(
			prev.PkScript, prev.Value,
		)
		vm, err := txscript.NewEngine(
			prev.PkScript, tx, 0, txscript.StandardVerifyFlags, nil,
			txscript.NewTxSigHashes(tx, fetcher), prev.Value, fetcher,
		)
		if err != nil {
			res = "fail"
			return
		}
		if err := vm.Execute(); err != nil {
			res = "fail"
		}
	}()
	return res
}

// label extracts which sig field a closing_complete / closing_sig carries.
func c17label(cs lnwire.ClosingSigs, ts lnwire.TaprootClosingSigs) string {
	var l []string
	if cs.CloserNoClosee.IsSome() || ts.CloserNoClosee.IsSome() {
		l = append(l, "closerOnly")
	}
	if cs.NoCloserClosee.IsSome() || ts.NoCloserClosee.IsSome() {
		l = append(l, "closeeOnly")
	}
	if cs.CloserAndClosee.IsSome() || ts.CloserAndClosee.IsSome() {
		l = append(l, "both")
	}
	if len(l) == 0 {
		return "none"
	}
	return strings.Join(l, "+")
}

func c17sigLabel(cs lnwire.ClosingSigs, ts lnwire.TaprootPartialSigs) string {
	var l []string
	if cs.CloserNoClosee.IsSome() || ts.CloserNoClosee.IsSome() {
		l = append(l, "closerOnly")
	}
	if cs.NoCloserClosee.IsSome() || ts.NoCloserClosee.IsSome() {
		l = append(l, "closeeOnly")
	}
	if cs.CloserAndClosee.IsSome() || ts.CloserAndClosee.IsSome() {
		l = append(l, "both")
	}
	if len(l) == 0 {
		return "none"
	}
	return strings.Join(l, "+")
}

type c17rbf struct {
	w   *bufio.Writer
	rng *rand.Rand
	n   int
}

func (c *c17rbf) pf(format string, a ...interface{}) {
	fmt.Fprintf(c.w, format+"\n", a...)
}

func (c *c17rbf) deliveryScript() []byte {
	var b []byte
	switch c.rng.Intn(4) {
	case 0: // p2wsh
		b = make([]byte, 34)
		c.rng.Read(b)
		b[0], b[1] = 0x00, 0x20
	case 1: // p2tr
		b = make([]byte, 34)
		c.rng.Read(b)
		b[0], b[1] = 0x51, 0x20
	case 2: // future witness version, 2..40 byte program
		n := 2 + c.rng.Intn(39)
		b = make([]byte, 2+n)
		c.rng.Read(b)
		b[0], b[1] = byte(0x52+c.rng.Intn(15)), byte(n)
	default: // p2wkh
		b = make([]byte, 22)
		c.rng.Read(b)
		b[0], b[1] = 0x00, 0x14
	}
	return b
}

func (c *c17rbf) around(pivots ...int64) int64 {
	p := pivots[c.rng.Intn(len(pivots))]
	switch c.rng.Intn(5) {
	case 0:
		return p
	case 1:
		return p - 1
	case 2:
		return p + 1
	case 3:
		return p + int64(c.rng.Intn(7)) - 3
	default:
		return p + int64(c.rng.Intn(2001)) - 1000
	}
}

func (c *c17rbf) viewLine(name string, ch *lnwallet.LightningChannel) {
	st := ch.State()
	c.pf("view %s localMsat=%d remoteMsat=%d commitFee=%d isInit=%d "+
		"localDust=%d remoteDust=%d anchors=%d taproot=%d capacity=%d",
		name, uint64(st.LocalCommitment.LocalBalance),
		uint64(st.LocalCommitment.RemoteBalance),
		int64(st.LocalCommitment.CommitFee), c17b(st.IsInitiator),
		int64(st.LocalChanCfg.DustLimit), int64(st.RemoteChanCfg.DustLimit),
		c17b(st.ChanType.HasAnchors()), c17b(st.ChanType.IsTaproot()),
		int64(st.Capacity))
}

type c17rbfCase struct {
	tname     string
	sA, sB    []byte
	envHeight uint32
	firstShut string // A | B
	// iterations: who offers and with which absolute fee
	who  []string
	fees []int64
}

func (c *c17rbf) run(a, b *lnwallet.LightningChannel, p c17rbfCase) {
	a.ResetState()
	b.ResetState()
	c.n++
	feeStrs := make([]string, len(p.fees))
	for i, f := range p.fees {
		feeStrs[i] = fmt.Sprint(f)
	}
	c.pf("CASE %d kind=rbf type=%s envHeight=%d firstShutdown=%s sA=%s sB=%s "+
		"sdA=%d sdB=%d iters=%d who=%s fees=%s", c.n, p.tname, p.envHeight,
		p.firstShut, hex.EncodeToString(p.sA), hex.EncodeToString(p.sB),
		int64(lnwallet.DustLimitForSize(len(p.sA))),
		int64(lnwallet.DustLimitForSize(len(p.sB))), len(p.who),
		strings.Join(p.who, ","), strings.Join(feeStrs, ","))
	c.viewLine("A", a)
	c.viewLine("B", b)

	mk := func(name string, ch *lnwallet.LightningChannel,
		script []byte) *c17rbfNode {

		st := ch.State()
		nd := &c17rbfNode{name: name, ch: ch, est: &c17rbfEstimator{},
			obs: &c17observer{ch: ch}, state: &ChannelActive{}}
		chanID := lnwire.NewChanIDFromOutPoint(st.FundingOutpoint)
		peerPub := *st.RemoteChanCfg.MultiSigKey.PubKey
		nd.pub = *st.LocalChanCfg.MultiSigKey.PubKey
		nd.env = &Environment{
			ChainParams:    chaincfg.RegressionNetParams,
			ChanPeer:       peerPub,
			ChanPoint:      st.FundingOutpoint,
			ChanID:         chanID,
			Scid:           st.ShortChannelID,
			ChanType:       st.ChanType,
			BlockHeight:    p.envHeight,
			DefaultFeeRate: chainfee.SatPerVByte(1),
			NewDeliveryScript: func() (lnwire.DeliveryAddress, error) {
				return script, nil
			},
			FeeEstimator: nd.est,
			ChanObserver: nd.obs,
			CloseSigner:  ch,
		}
		if st.ChanType.IsTaproot() {
			nd.env.LocalMusigSession = &c17Musig{channel: ch}
			nd.env.RemoteMusigSession = &c17Musig{channel: ch}
		}
		nd.mapper = NewRbfMsgMapper(
			func() uint32 { return 100 }, chanID, peerPub,
		)
		return nd
	}
	nA := mk("A", a, p.sA)
	nB := mk("B", b, p.sB)
	nA.peer, nB.peer = nB, nA
	node := map[string]*c17rbfNode{"A": nA, "B": nB}

	// the fee the first SendOfferEvent (emitted by ChannelFlushing) uses
	firstFee := map[string]int64{"A": -1, "B": -1}
	for i, w := range p.who {
		if firstFee[w] < 0 {
			firstFee[w] = p.fees[i]
		}
	}
	for _, w := range []string{"A", "B"} {
		if firstFee[w] < 0 {
			// a side that never offers in this case: make its automatic
			// first offer unaffordable so that it is skipped
			firstFee[w] = int64(node[w].ch.State().Capacity) + 1
		}
		node[w].est.fee = btcutil.Amount(firstFee[w])
	}

	// --- shutdown exchange -------------------------------------------
	first, second := nA, nB
	if p.firstShut == "B" {
		first, second = nB, nA
	}
	// While the shutdowns are exchanged both sides reach ClosingNegotiation
	// and each emits its first SendOfferEvent. We hold the resulting
	// closing_complete messages back and replay the iterations one by one
	// below, so that each iteration is observed separately.
	ok := first.process(&SendShutdown{
		IdealFeeRate: chainfee.SatPerVByte(1),
	})
	if !ok {
		c.pf("shutdown %s => err %s", first.name, first.lastTr)
		c.pf("END")
		return
	}
	// second receives the shutdown
	var held = map[string][]lnwire.Message{}
	hold := func(n *c17rbfNode) {
		// move closing_complete messages addressed to n into held
		var keep []lnwire.Message
		for _, m := range n.inbox {
			if _, isCC := m.(*lnwire.ClosingComplete); isCC {
				held[n.name] = append(held[n.name], m)
			} else {
				keep = append(keep, m)
			}
		}
		n.inbox = keep
	}
	if !second.deliver() {
		c.pf("shutdown %s => err %s", second.name, second.lastTr)
		c.pf("END")
		return
	}
	hold(first)
	if !first.deliver() {
		c.pf("shutdown %s => err %s", first.name, first.lastTr)
		c.pf("END")
		return
	}
	hold(second)
	hold(first)
	c.pf("shutdown => ok stateA=%s stateB=%s", c17stateName(nA.state),
		c17stateName(nB.state))

	offered := map[string]int{"A": 0, "B": 0}
	for i, w := range p.who {
		closer, closee := node[w], node[w].peer
		fee := p.fees[i]
		var cc *lnwire.ClosingComplete
		res := ""
		if offered[w] == 0 {
			// the automatic first offer made when the channel was
			// flushed
			if len(held[closee.name]) > 0 {
				cc = held[closee.name][0].(*lnwire.ClosingComplete)
				held[closee.name] = nil
			} else {
				res = "skip"
			}
		} else {
			// an RBF bump requested by the user
			closer.est.fee = btcutil.Amount(fee)
			before := len(closee.inbox)
			if !closer.process(&SendOfferEvent{
				TargetFeeRate: chainfee.SatPerVByte(1 + i),
			}) {
				res = "err " + closer.lastTr
			} else if len(closee.inbox) > before {
				cc = closee.inbox[before].(*lnwire.ClosingComplete)
				closee.inbox = closee.inbox[:before]
			} else {
				res = "skip"
			}
		}
		offered[w]++
		if cc == nil {
			c.pf("offer %s fee=%d => %s state=%s", w, fee, res,
				c17stateName(closer.state))
			continue
		}
		c.pf("offer %s fee=%d => sent fee=%d lock=%d label=%s "+
			"closerScript=%s closeeScript=%s", w, fee,
			int64(cc.FeeSatoshis), cc.LockTime,
			c17label(cc.ClosingSigs, cc.TaprootClosingSigs),
			hex.EncodeToString(cc.CloserScript),
			hex.EncodeToString(cc.CloseeScript))

		// closee handles closing_complete
		nb := len(closee.bcast)
		closee.inbox = append(closee.inbox, cc)
		if !closee.deliver() {
			c.pf("accept %s => err %s", closee.name, closee.lastTr)
			// drop anything half-sent
			closer.inbox = nil
			continue
		}
		var sig *lnwire.ClosingSig
		for _, m := range closer.inbox {
			if s, isSig := m.(*lnwire.ClosingSig); isSig {
				sig = s
			}
		}
		if sig == nil || len(closee.bcast) != nb+1 {
			c.pf("accept %s => err nosig", closee.name)
			closer.inbox = nil
			continue
		}
		ctx := closee.bcast[nb]
		c.pf("accept %s => ok fee=%d lock=%d label=%s engine=%s %s",
			closee.name, int64(sig.FeeSatoshis), sig.LockTime,
			c17sigLabel(sig.ClosingSigs, sig.TaprootPartialSigs),
			c17rbfEngine(closer.ch, ctx), c17rbfTx(ctx))

		// closer handles closing_sig
		nb2 := len(closer.bcast)
		if !closer.deliver() || len(closer.bcast) != nb2+1 {
			c.pf("finish %s => err %s", w, closer.lastTr)
			continue
		}
		ftx := closer.bcast[nb2]
		var b1, b2 bytes.Buffer
		_ = ftx.Serialize(&b1)
		_ = ctx.Serialize(&b2)
		c.pf("finish %s => ok engine=%s txeq=%d %s", w,
			c17rbfEngine(closee.ch, ftx),
			c17b(bytes.Equal(b1.Bytes(), b2.Bytes())), c17rbfTx(ftx))
	}
	c.pf("end stateA=%s stateB=%s", c17stateName(nA.state),
		c17stateName(nB.state))
	c.pf("END")
}

func TestVerifC17Rbf(t *testing.T) {
	out := os.Getenv("VERIF_OUT")
	if out == "" {
		t.Skip("VERIF_OUT not set")
	}
	seed, _ := strconv.ParseInt(os.Getenv("VERIF_SEED"), 10, 64)
	thorough := os.Getenv("VERIF_TIER") == "thorough"
	f, err := os.Create(out)
	if err != nil {
		t.Fatal(err)
	}
	defer f.Close()
	c := &c17rbf{
		w:   bufio.NewWriterSize(f, 1<<20),
		rng: rand.New(rand.NewSource(seed ^ 0x5bf)),
	}
	defer c.w.Flush()

	c.pf("FACT anchorSize=%d maxRBFSequence=%d", int64(lnwallet.AnchorSize),
		uint32(4294967293))

	mult := 1
	if thorough {
		mult = 10
	}
	anchor := channeldb.AnchorOutputsBit | channeldb.ZeroHtlcTxFeeBit |
		channeldb.SingleFunderTweaklessBit
	types := []struct {
		name string
		ct   channeldb.ChannelType
		n    int
	}{
		{"tweakless", channeldb.SingleFunderTweaklessBit, 110},
		{"anchors", anchor, 110},
		{"taproot", anchor | channeldb.SimpleTaprootFeatureBit, 40},
	}
	dusts := []int64{200, 294, 330, 354, 546, 1300}
	for _, ty := range types {
		a, b, err := lnwallet.CreateTestChannels(t, ty.ct)
		if err != nil {
			t.Fatalf("CreateTestChannels(%s): %v", ty.name, err)
		}
		capSat := int64(a.State().Capacity)
		anchors := int64(0)
		if ty.ct.HasAnchors() {
			anchors = 660
		}
		for i := 0; i < ty.n*mult; i++ {
			p := c17rbfCase{tname: ty.name, sA: c.deliveryScript(),
				sB: c.deliveryScript(), firstShut: "A"}
			if c.rng.Intn(2) == 0 {
				p.firstShut = "B"
			}
			// production never sets Environment.BlockHeight; a few
			// cases probe what happens if it were set
			if c.rng.Intn(12) == 0 {
				p.envHeight = 1 + uint32(c.rng.Intn(800000))
			}
			sdA := int64(lnwallet.DustLimitForSize(len(p.sA)))
			sdB := int64(lnwallet.DustLimitForSize(len(p.sB)))
			aOpens := c.rng.Intn(2) == 0
			commitFee := c.around(0, 1000, 9050)
			if commitFee < 0 {
				commitFee = -commitFee
			}
			dustA := dusts[c.rng.Intn(len(dusts))]
			dustB := dusts[c.rng.Intn(len(dusts))]
			delta := commitFee + anchors

			// iterations
			nIt := 1 + c.rng.Intn(4)
			base := c.around(200, 1000, 5000)
			if base < 0 {
				base = -base
			}
			for k := 0; k < nIt; k++ {
				w := "A"
				if c.rng.Intn(2) == 0 {
					w = "B"
				}
				p.who = append(p.who, w)
				p.fees = append(p.fees, base+int64(k)*int64(1+c.rng.Intn(400)))
			}
			fee0 := p.fees[0]

			// raw balances: one side "small" around the interesting
			// thresholds, the other side gets the rest (or is small too)
			small := func(sd, dust int64, opener bool) int64 {
				piv := []int64{0, sd, dust, fee0, fee0 + sd, fee0 + dust}
				if opener {
					piv = append(piv, dust-delta, sd-delta,
						fee0+dust-delta, fee0-delta)
				}
				v := c.around(piv...)
				if v < 0 {
					v = 0
				}
				return v
			}
			total := capSat - delta
			var aSat, bSat int64
			switch c.rng.Intn(5) {
			case 0, 1:
				aSat = small(sdA, dustA, aOpens)
				bSat = total - aSat
			case 2, 3:
				bSat = small(sdB, dustB, !aOpens)
				aSat = total - bSat
			default: // both small: balances do not add up to capacity
				aSat = small(sdA, dustA, aOpens)
				bSat = small(sdB, dustB, !aOpens)
			}
			remA, remB := uint64(c.rng.Intn(1000)), uint64(0)
			if aSat+bSat == total && remA > 0 {
				// keep the msat total a multiple of 1000 sat
				if bSat > 0 {
					bSat--
					remB = 1000 - remA
				} else {
					remA = 0
				}
			}
			aMsat := uint64(aSat)*1000 + remA
			bMsat := uint64(bSat)*1000 + remB

			sa, sb := a.State(), b.State()
			sa.IsInitiator, sb.IsInitiator = aOpens, !aOpens
			sa.LocalCommitment.LocalBalance = lnwire.MilliSatoshi(aMsat)
			sa.LocalCommitment.RemoteBalance = lnwire.MilliSatoshi(bMsat)
			sb.LocalCommitment.LocalBalance = lnwire.MilliSatoshi(bMsat)
			sb.LocalCommitment.RemoteBalance = lnwire.MilliSatoshi(aMsat)
			sa.LocalCommitment.CommitFee = btcutil.Amount(commitFee)
			sb.LocalCommitment.CommitFee = btcutil.Amount(commitFee)
			sa.LocalChanCfg.DustLimit = btcutil.Amount(dustA)
			sa.RemoteChanCfg.DustLimit = btcutil.Amount(dustB)
			sb.LocalChanCfg.DustLimit = btcutil.Amount(dustB)
			sb.RemoteChanCfg.DustLimit = btcutil.Amount(dustA)

			c.run(a, b, p)
		}
	}
}
