//go:build verif

package chancloser

// C17 correspondence/monitor harness (stream "sched"). Two real legacy
// ChanClosers over a real lnwallet channel pair (real signatures / musig2, real
// close transactions) are connected by two FIFO queues of real lnwire messages
// and driven by a RANDOM SCHEDULER over the events of peer/brontide.go: a local
// close request (ShutdownChan), delivery of the oldest message of either
// direction (ReceiveShutdown / ReceiveClosingSigned, reply queued), and the
// link's flush notification of either side (BeginNegotiation, reply queued).
// Delivery scripts and upfront shutdown scripts are chosen per case (valid
// witness programs of all classes, mismatching / invalid upfront scripts,
// invalid delivery scripts). One line is printed per event for the Lean driver
// (drv_c17 sched), which replays it on LndModel.C17.Sys. A grid section calls
// validateShutdownScript / lnwallet.ValidateUpfrontShutdown directly.

import (
	"bufio"
	"bytes"
	"errors"
	"fmt"
	"math/rand"
	"os"
	"strconv"
	"strings"
	"testing"

	"github.com/btcsuite/btcd/btcutil/v2"
	"github.com/btcsuite/btcd/chaincfg/v2"
	"github.com/btcsuite/btcd/wire/v2"
	"github.com/lightningnetwork/lnd/channeldb"
	"github.com/lightningnetwork/lnd/fn/v2"
	"github.com/lightningnetwork/lnd/lntypes"
	"github.com/lightningnetwork/lnd/lnwallet"
	"github.com/lightningnetwork/lnd/lnwallet/chainfee"
	"github.com/lightningnetwork/lnd/lnwire"
)

func c17sErr(err error) string {
	switch {
	case err == nil:
		return "ok"
	case errors.Is(err, ErrInvalidShutdownScript):
		return "invalidscript"
	case errors.Is(err, ErrUpfrontShutdownScriptMismatch):
		return "upfrontmismatch"
	case errors.Is(err, ErrInvalidState):
		return "invalidstate"
	case errors.Is(err, ErrChanAlreadyClosing):
		return "alreadyclosing"
	case errors.Is(err, errNoShutdownNonce):
		return "nononce"
	case strings.Contains(err.Error(), "partial sig not set"):
		return "nopartialsig"
	}
	return c17err(err)
}

func c17sHex(b []byte) string {
	if len(b) == 0 {
		return "-"
	}
	return fmt.Sprintf("%x", b)
}

// ---------------------------------------------------------------------------
// script generators
// ---------------------------------------------------------------------------

func (c *c17) sBytes(n int) []byte {
	b := make([]byte, n)
	c.rng.Read(b)
	return b
}

// sProg returns <version opcode> <push len> <len bytes>.
func (c *c17) sProg(ver byte, n int) []byte {
	return append([]byte{ver, byte(n)}, c.sBytes(n)...)
}

// sValid returns a delivery script lnwallet.ValidateUpfrontShutdown accepts.
func (c *c17) sValid() []byte {
	switch c.rng.Intn(6) {
	case 0:
		return c.sProg(0x00, 20) // p2wpkh
	case 1:
		return c.sProg(0x00, 32) // p2wsh
	case 2:
		return c.sProg(0x51, 32) // p2tr
	case 3: // future version, boundary program lengths
		return c.sProg(byte(0x52+c.rng.Intn(15)),
			[]int{2, 3, 20, 32, 39, 40}[c.rng.Intn(6)])
	default:
		return c.sProg(byte(0x52+c.rng.Intn(15)), 2+c.rng.Intn(39))
	}
}

// sInvalid returns a NON-EMPTY script that must be rejected.
func (c *c17) sInvalid() []byte {
	switch c.rng.Intn(12) {
	case 0: // p2pkh
		s := append([]byte{0x76, 0xa9, 0x14}, c.sBytes(20)...)
		return append(s, 0x88, 0xac)
	case 1: // p2sh
		s := append([]byte{0xa9, 0x14}, c.sBytes(20)...)
		return append(s, 0x87)
	case 2: // version 0 program of another length
		return c.sProg(0x00, []int{25, 2, 19, 21, 31, 33, 40}[c.rng.Intn(7)])
	case 3: // 3 bytes
		return []byte{byte(0x51 + c.rng.Intn(16)), 0x01, byte(c.rng.Intn(256))}
	case 4: // 43 bytes
		return c.sProg(byte(0x51+c.rng.Intn(16)), 41)
	case 5: // OP_RETURN
		return append([]byte{0x6a, 0x04}, c.sBytes(4)...)
	case 6: // wrong push length byte
		s := c.sValid()
		if c.rng.Intn(2) == 0 {
			s[1]++
		} else {
			s[1]--
		}
		return s
	case 7: // not a version opcode
		s := c.sValid()
		s[0] = []byte{0x50, 0x61, 0x4f, 0x62, 0xff}[c.rng.Intn(5)]
		return s
	case 8: // a byte appended / dropped
		s := c.sValid()
		if c.rng.Intn(2) == 0 {
			return append(s, byte(c.rng.Intn(256)))
		}
		return s[:len(s)-1]
	case 9: // 1 or 2 bytes
		return c.sBytes(1 + c.rng.Intn(2))
	case 10: // bare data push (OP_PUSHDATA1 form of a witness program)
		return append([]byte{0x51, 0x4c, 0x20}, c.sBytes(32)...)
	default:
		n := 4 + c.rng.Intn(40)
		s := c.sBytes(n)
		if s[0] == 0 || (s[0] >= 0x51 && s[0] <= 0x60) {
			s[0] = 0xac
		}
		return s
	}
}

// sNear returns a script related to s: a flipped byte (mostly still valid) or a
// fresh valid one.
func (c *c17) sNear(s []byte) []byte {
	for {
		var d []byte
		if len(s) > 2 && c.rng.Intn(2) == 0 {
			d = append([]byte(nil), s...)
			d[2+c.rng.Intn(len(s)-2)] ^= byte(1 << uint(c.rng.Intn(8)))
		} else {
			d = c.sValid()
		}
		if !bytes.Equal(d, s) {
			return d
		}
	}
}

// ---------------------------------------------------------------------------
// validateShutdownScript / ValidateUpfrontShutdown grid
// ---------------------------------------------------------------------------

func (c *c17) sAny() []byte {
	switch c.rng.Intn(10) {
	case 0:
		return nil
	case 1, 2, 3:
		return c.sInvalid()
	case 4: // length / version boundaries
		ver := []byte{0x00, 0x50, 0x51, 0x52, 0x60, 0x61}[c.rng.Intn(6)]
		n := []int{1, 2, 3, 20, 32, 39, 40, 41}[c.rng.Intn(8)] // total 3,4,5,..,42,43
		return c.sProg(ver, n)
	default:
		return c.sValid()
	}
}

func (c *c17) vss(upfront, peer []byte) {
	res := "panic"
	func() {
		defer func() { _ = recover() }()
		err := validateShutdownScript(
			upfront, peer, &chaincfg.RegressionNetParams,
		)
		if err == nil {
			res = "ok"
		} else {
			res = "err " + c17sErr(err)
		}
	}()
	c.pf("vss upfront=%s peer=%s => %s", c17sHex(upfront), c17sHex(peer), res)
}

func (c *c17) vus(s []byte) {
	res := "panic"
	func() {
		defer func() { _ = recover() }()
		res = strconv.Itoa(c17b(lnwallet.ValidateUpfrontShutdown(
			s, &chaincfg.RegressionNetParams,
		)))
	}()
	c.pf("vus script=%s => %s", c17sHex(s), res)
}

func (c *c17) scriptGrid(n int) {
	c.n++
	c.pf("CASE %d kind=grid-script", c.n)
	// fixed boundary scripts first
	zero := func(k int) []byte { return make([]byte, k) }
	for _, ver := range []byte{0x00, 0x4f, 0x50, 0x51, 0x52, 0x5f, 0x60, 0x61} {
		for _, k := range []int{1, 2, 3, 19, 20, 21, 25, 31, 32, 33, 39, 40, 41} {
			s := append([]byte{ver, byte(k)}, zero(k)...)
			c.vus(s)
			c.vss(nil, s)
			c.vss(s, s)
		}
	}
	c.vus(nil)
	c.vss(nil, nil)
	for i := 0; i < n; i++ {
		peer := c.sAny()
		var up []byte
		switch c.rng.Intn(8) {
		case 0, 1:
		case 2, 3:
			up = append([]byte(nil), peer...)
		case 4:
			if len(peer) > 0 {
				up = c.sNear(peer)
			} else {
				up = c.sValid()
			}
		case 5:
			up = c.sInvalid()
		default:
			up = c.sAny()
		}
		c.vss(up, peer)
		c.vus(peer)
		if i%4 == 0 {
			c.vus(c.sAny())
		}
	}
	c.pf("END")
}

// ---------------------------------------------------------------------------
// two closers, two queues, a random scheduler
// ---------------------------------------------------------------------------

type c17sCase struct {
	c17neg
	closeBy            string // I | R | both
	mode               string // uniform | early | rfirst | crossing
	scriptI, scriptR   []byte
	upfrontI, upfrontR []byte
	// restarts: how many times the connection drops and both peers re-create
	// their closers from the channel database (peer.loadActiveChannels /
	// restartCoopClose); restartAt biases WHEN: rand | sd | neg | fin1.
	restarts  int
	restartAt string
}

const (
	c17sClose = iota
	c17sDeliver
	c17sFlush
	c17sRestart
)

// sentinels written at the start of every case so that "nothing persisted in
// this case" is observable on a channel database that is shared by all cases
// (the store has no delete for the shutdown info / close tx keys).
var c17sSentScript = []byte{0xff}

func c17sSentTx() *wire.MsgTx {
	tx := wire.NewMsgTx(2)
	tx.AddTxIn(&wire.TxIn{})
	tx.AddTxOut(&wire.TxOut{PkScript: []byte{0xff}})
	return tx
}

var c17sCloseFlags = channeldb.ChanStatusCoopBroadcasted |
	channeldb.ChanStatusLocalCloseInitiator |
	channeldb.ChanStatusRemoteCloseInitiator

// c17sInfo reads the persisted ShutdownInfo of this case (nil = none).
func c17sInfo(ch *lnwallet.LightningChannel) *channeldb.ShutdownInfo {
	var out *channeldb.ShutdownInfo
	si, err := ch.State().ShutdownInfo()
	if err != nil {
		return nil
	}
	si.WhenSome(func(i channeldb.ShutdownInfo) {
		if !bytes.Equal(i.DeliveryScript.Val, c17sSentScript) {
			out = &i
		}
	})
	return out
}

// c17sCoopTx reads the persisted co-op close tx of this case (nil = none).
func c17sCoopTx(ch *lnwallet.LightningChannel) *wire.MsgTx {
	tx, err := ch.State().BroadcastedCooperative()
	if err != nil || tx == nil ||
		bytes.Equal(c17ser(tx), c17ser(c17sSentTx())) {

		return nil
	}
	return tx
}

type c17sEvent struct {
	kind int
	who  int // 0 = I (the channel opener), 1 = R
}

func c17sNonce(sd *lnwire.Shutdown) int {
	return c17b(sd.ShutdownNonce.IsSome())
}

func c17sSd(sd *lnwire.Shutdown) string {
	return fmt.Sprintf("sd script=%s nonce=%d", c17sHex(sd.Address),
		c17sNonce(sd))
}

func c17sSigs(cs *lnwire.ClosingSigned) string {
	sig := false
	for _, b := range cs.Signature.RawBytes() {
		if b != 0 {
			sig = true
		}
	}
	return fmt.Sprintf("sig=%d psig=%d", c17b(sig),
		c17b(cs.PartialSig.IsSome()))
}

// sreply renders the answer of ReceiveClosingSigned / BeginNegotiation.
func c17sReply(nd *c17node, r fn.Option[lnwire.ClosingSigned],
	err error) (string, *lnwire.ClosingSigned) {

	if err != nil {
		return "err " + c17sErr(err), nil
	}
	var out *lnwire.ClosingSigned
	r.WhenSome(func(cs lnwire.ClosingSigned) { out = &cs })
	if out == nil {
		return "none", nil
	}
	kind := "send"
	if nd.closer.state == closeFinished {
		kind = "final"
	}
	return fmt.Sprintf("%s %d %s", kind, int64(out.FeeSatoshis),
		c17sSigs(out)), out
}

func (c *c17) sched(chI, chR *lnwallet.LightningChannel, p c17sCase) {
	chI.ResetState()
	chR.ResetState()
	origUpI := chI.State().RemoteShutdownScript
	origUpR := chR.State().RemoteShutdownScript
	chI.State().RemoteShutdownScript = p.upfrontI
	chR.State().RemoteShutdownScript = p.upfrontR
	defer func() {
		chI.State().RemoteShutdownScript = origUpI
		chR.State().RemoteShutdownScript = origUpR
	}()

	for _, ch := range []*lnwallet.LightningChannel{chI, chR} {
		st := ch.State()
		if err := st.MarkCoopBroadcasted(c17sSentTx(), lntypes.Local); err != nil {
			panic(err)
		}
		if err := st.ClearChanStatus(c17sCloseFlags); err != nil {
			panic(err)
		}
		if err := st.MarkShutdownSent(channeldb.NewShutdownInfo(
			c17sSentScript, false,
		)); err != nil {
			panic(err)
		}
	}

	c.n++
	stI := chI.State()
	c.pf("CASE %d kind=sched type=%s taproot=%d idealI=%d idealR=%d "+
		"maxCfgI=%d maxCfgR=%d closeBy=%s openerSat=%d otherSat=%d "+
		"dustI=%d dustR=%d capacity=%d scriptI=%s scriptR=%s upfrontI=%s "+
		"upfrontR=%s cap=%d mode=%s restarts=%d restartAt=%s", c.n, p.tname,
		c17b(stI.ChanType.IsTaproot()), p.idealI, p.idealR, p.maxCfgI,
		p.maxCfgR, p.closeBy, p.openerSat, p.otherSat,
		int64(stI.LocalChanCfg.DustLimit),
		int64(stI.RemoteChanCfg.DustLimit), int64(stI.Capacity),
		c17sHex(p.scriptI), c17sHex(p.scriptR),
		c17sHex(chI.RemoteUpfrontShutdownScript()),
		c17sHex(chR.RemoteUpfrontShutdownScript()), p.maxMsgs, p.mode,
		p.restarts, p.restartAt)

	mayClose := [2]bool{p.closeBy != "R", p.closeBy != "I"}
	mk := func(name string, ch *lnwallet.LightningChannel, ideal,
		maxCfg int64, script []byte, local bool) *c17node {

		nd := &c17node{name: name, ch: ch, script: script}
		party := lntypes.Remote
		if local {
			party = lntypes.Local
		}
		cfg := ChanCloseCfg{
			Channel: ch,
			BroadcastTx: func(tx *wire.MsgTx, _ string) error {
				nd.bcast = append(nd.bcast, tx)
				return nil
			},
			DisableChannel: func(wire.OutPoint) error { return nil },
			Disconnect:     func() error { return nil },
			MaxFee:         chainfee.SatPerKWeight(maxCfg),
			ChainParams:    &chaincfg.RegressionNetParams,
			FeeEstimator:   c17Estimator{},
			Quit:           make(chan struct{}),
		}
		if ch.State().ChanType.IsTaproot() {
			cfg.MusigSession = &c17Musig{channel: ch}
		}
		nd.closer = NewChanCloser(
			cfg, DeliveryAddrWithKey{DeliveryAddress: script},
			chainfee.SatPerKWeight(ideal), 100, nil, party,
		)
		return nd
	}
	// As in peer/brontide.go a closer created for a local close request is
	// made with closer = Local (see the close event), one created on receipt
	// of the peer's Shutdown with closer = Remote.
	chs := [2]*lnwallet.LightningChannel{chI, chR}
	names := [2]string{"I", "R"}
	ideals := [2]int64{p.idealI, p.idealR}
	maxCfgs := [2]int64{p.maxCfgI, p.maxCfgR}
	scripts := [2][]byte{p.scriptI, p.scriptR}
	nds := [2]*c17node{
		mk("I", chI, p.idealI, p.maxCfgI, p.scriptI, false),
		mk("R", chR, p.idealR, p.maxCfgR, p.scriptR, false),
	}
	restartsLeft := p.restarts
	var q [2][]lnwire.Message // q[w] = messages addressed to w

	processed, nev, closes, delivers := 0, 0, 0, 0
	capped, stopped := false, false

	enabled := func() []c17sEvent {
		var evs []c17sEvent
		for w := 0; w < 2; w++ {
			if len(q[w]) > 0 {
				evs = append(evs, c17sEvent{c17sDeliver, w})
			}
			if nds[w].gone {
				continue
			}
			if mayClose[w] && nds[w].closer.state == closeIdle {
				evs = append(evs, c17sEvent{c17sClose, w})
			}
			if nds[w].closer.state == closeAwaitingFlush {
				evs = append(evs, c17sEvent{c17sFlush, w})
			}
		}
		return evs
	}
	filter := func(evs []c17sEvent, keep func(c17sEvent) bool) []c17sEvent {
		var out []c17sEvent
		for _, e := range evs {
			if keep(e) {
				out = append(out, e)
			}
		}
		return out
	}
	fin := func(w int) bool { return nds[w].closer.state == closeFinished }
	neg := func(w int) bool {
		return nds[w].closer.state == closeFeeNegotiation
	}
	wantRestart := func() bool {
		if restartsLeft == 0 || nev == 0 {
			return false
		}
		switch p.restartAt {
		case "sd":
			return nev == 1 || c.rng.Intn(12) == 0
		case "neg":
			return (neg(0) && neg(1) && c.rng.Intn(3) == 0) ||
				c.rng.Intn(20) == 0
		case "fin1":
			return fin(0) != fin(1) && !nds[0].gone && !nds[1].gone
		}
		return c.rng.Intn(7) == 0
	}
	pick := func(evs []c17sEvent) c17sEvent {
		cands := evs
		isClose := func(e c17sEvent) bool { return e.kind == c17sClose }
		switch {
		case nev == 0:
			// a case starts with a local close request
			cands = filter(evs, isClose)
		case p.mode == "crossing" && closes < 2 && delivers == 0:
			cands = filter(evs, isClose)
		case p.mode == "early":
			// the opener's offer overtakes R's flush notification
			cands = filter(evs, func(e c17sEvent) bool {
				return !(e.kind == c17sFlush && e.who == 1)
			})
		case p.mode == "rfirst":
			cands = filter(evs, func(e c17sEvent) bool {
				return e.kind == c17sFlush && e.who == 1
			})
			if len(cands) == 0 {
				cands = filter(evs, func(e c17sEvent) bool {
					return !(e.kind == c17sFlush && e.who == 0)
				})
			}
		}
		if len(cands) == 0 {
			cands = evs
		}
		return cands[c.rng.Intn(len(cands))]
	}

	// the persisted close state of one side, read back from the real channel
	// database: ShutdownInfo (script / locally initiated), the co-op close
	// tx (its fee, and whether it is byte-identical to the closer's closing
	// tx and to the tx it handed to BroadcastTx), the three status flags.
	sumOuts := func(tx *wire.MsgTx) int64 {
		var sum int64
		for _, o := range tx.TxOut {
			sum += o.Value
		}
		return sum
	}
	dbStr := func(w int) string {
		n := names[w]
		info, loc := "-", 0
		if i := c17sInfo(chs[w]); i != nil {
			info, loc = c17sHex(i.DeliveryScript.Val), c17b(i.Closer().IsLocal())
			if len(i.DeliveryScript.Val) == 0 {
				info = "empty"
			}
		}
		txs, same := "-", -1
		if tx := c17sCoopTx(chs[w]); tx != nil {
			txs = strconv.FormatInt(p.openerSat+p.otherSat-sumOuts(tx), 10)
			same = 0
			ct, err := nds[w].closer.ClosingTx()
			nb := len(nds[w].bcast)
			if err == nil && ct != nil && nb > 0 &&
				bytes.Equal(c17ser(ct), c17ser(tx)) &&
				bytes.Equal(c17ser(nds[w].bcast[nb-1]), c17ser(tx)) {

				same = 1
			}
		}
		st := chs[w].State()
		return fmt.Sprintf("info%s=%s loc%s=%d tx%s=%s same%s=%d coop%s=%d "+
			"li%s=%d ri%s=%d", n, info, n, loc, n, txs, n, same, n,
			c17b(st.HasChanStatus(channeldb.ChanStatusCoopBroadcasted)),
			n, c17b(st.HasChanStatus(channeldb.ChanStatusLocalCloseInitiator)),
			n, c17b(st.HasChanStatus(channeldb.ChanStatusRemoteCloseInitiator)))
	}

	for !stopped {
		evs := enabled()
		restart := wantRestart()
		if len(evs) == 0 && !restart {
			break
		}
		if processed >= p.maxMsgs {
			capped = true
			break
		}
		var e c17sEvent
		if restart {
			e = c17sEvent{kind: c17sRestart}
		} else {
			e = pick(evs)
		}
		nev++
		nd, oth := nds[e.who], 1-e.who
		res, initLine := "panic", ""
		isErr := true
		if e.kind == c17sRestart {
			isErr = false
		}
		switch e.kind {
		case c17sRestart:
			// The connection drops: messages in flight are lost and both
			// peers forget their closers. On reconnect each side does
			// what peer.loadActiveChannels / restartCoopClose do: a
			// channel with a co-op close tx on record is not loaded
			// (only re-broadcast by the chain arbitrator); otherwise, if
			// a ShutdownInfo is on record, a new closer is created from
			// it (persisted delivery script, persisted closer, no max fee
			// from a request) and its Shutdown is sent again.
			restartsLeft--
			q[0], q[1] = nil, nil
			var parts [2]string
			for w := 0; w < 2; w++ {
				parts[w] = fmt.Sprintf("r%s=panic", names[w])
				func() {
					defer func() { _ = recover() }()
					old := nds[w]
					if old.gone || c17sCoopTx(chs[w]) != nil {
						old.gone = true
						parts[w] = fmt.Sprintf("r%s=gone", names[w])
						return
					}
					info := c17sInfo(chs[w])
					if info == nil {
						nds[w] = mk(names[w], chs[w], ideals[w],
							maxCfgs[w], scripts[w], false)
						parts[w] = fmt.Sprintf("r%s=idle", names[w])
						return
					}
					nds[w] = mk(names[w], chs[w], ideals[w], 0,
						info.DeliveryScript.Val,
						info.Closer().IsLocal())
					sd, err := nds[w].closer.ShutdownChan()
					if err != nil {
						parts[w] = fmt.Sprintf("r%s=err", names[w])
						isErr = true
						return
					}
					q[1-w] = append(q[1-w], sd)
					parts[w] = fmt.Sprintf("r%s=resend sd%s=%s n%s=%d",
						names[w], names[w], c17sHex(sd.Address),
						names[w], c17sNonce(sd))
				}()
			}
			isErr = isErr || strings.Contains(parts[0]+parts[1], "panic")
			c.pf("ev restart both => %s %s", parts[0], parts[1])

		case c17sClose:
			closes++
			func() {
				defer func() { _ = recover() }()
				// peer.handleLocalCloseReq: a new closer for a local
				// close request, closer = Local.
				nds[e.who] = mk(names[e.who], chs[e.who], ideals[e.who],
					maxCfgs[e.who], scripts[e.who], true)
				nd = nds[e.who]
				sd, err := nd.closer.ShutdownChan()
				if err != nil {
					res = "err " + c17sErr(err)
					return
				}
				q[oth] = append(q[oth], sd)
				res, isErr = "ok "+c17sSd(sd), false
			}()
			c.pf("ev close %s => %s", nd.name, res)

		case c17sDeliver:
			delivers++
			m := q[e.who][0]
			q[e.who] = q[e.who][1:]
			if nd.gone {
				// no closer, channel not loaded: the message is dropped
				// (peer answers with an Error for an unknown channel)
				kind := "cs"
				if _, ok := m.(*lnwire.Shutdown); ok {
					kind = "sd"
				}
				isErr = false
				c.pf("ev deliver %s %s => dropped", nd.name, kind)
				break
			}
			switch msg := m.(type) {
			case *lnwire.Shutdown:
				func() {
					defer func() { _ = recover() }()
					osd, err := nd.closer.ReceiveShutdown(*msg)
					if err != nil {
						res = "err " + c17sErr(err)
						return
					}
					res, isErr = "ok none", false
					osd.WhenSome(func(sd lnwire.Shutdown) {
						q[oth] = append(q[oth], &sd)
						res = "ok " + c17sSd(&sd)
					})
				}()
				c.pf("ev deliver %s %s => %s", nd.name, c17sSd(msg), res)

			case *lnwire.ClosingSigned:
				before := nd.closer.state
				func() {
					defer func() { _ = recover() }()
					r, err := nd.closer.ReceiveClosingSigned(*msg)
					var out *lnwire.ClosingSigned
					res, out = c17sReply(nd, r, err)
					isErr = err != nil
					if out != nil {
						q[oth] = append(q[oth], out)
					}
				}()
				if !isErr && (before == closeFeeNegotiation ||
					before == closeFinished) {

					processed++
				}
				c.pf("ev deliver %s cs fee=%d %s => %s", nd.name,
					int64(msg.FeeSatoshis), c17sSigs(msg), res)
			}

		case c17sFlush:
			replay := !nd.ch.State().IsInitiator &&
				nd.closer.cachedClosingSigned.IsSome()
			func() {
				defer func() { _ = recover() }()
				r, err := nd.closer.BeginNegotiation()
				var out *lnwire.ClosingSigned
				res, out = c17sReply(nd, r, err)
				isErr = err != nil
				if out != nil {
					q[oth] = append(q[oth], out)
				}
				initLine = fmt.Sprintf("init %s ideal=%d max=%d",
					nd.name, int64(nd.closer.idealFeeSat),
					int64(nd.closer.maxFee))
			}()
			if !isErr && replay {
				processed++
			}
			c.pf("ev flush %s => %s", nd.name, res)
			if initLine != "" {
				c.pf("%s", initLine)
			}
		}
		c.pf("st I=%s R=%s qI=%d qR=%d cachedI=%d cachedR=%d goneI=%d goneR=%d",
			nds[0].stateName(), nds[1].stateName(), len(q[0]), len(q[1]),
			c17b(nds[0].closer.cachedClosingSigned.IsSome()),
			c17b(nds[1].closer.cachedClosingSigned.IsSome()),
			c17b(nds[0].gone), c17b(nds[1].gone))
		c.pf("db %s %s", dbStr(0), dbStr(1))
		if isErr {
			// negotiateCloseErrHandler: the connection is torn down
			stopped = true
		}
	}

	txfee := func(nd *c17node) int64 {
		tx, err := nd.closer.ClosingTx()
		if err != nil || tx == nil {
			return -1
		}
		var sum int64
		for _, o := range tx.TxOut {
			sum += o.Value
		}
		return p.openerSat + p.otherSat - sum
	}
	outs := func(nd *c17node) string {
		tx, err := nd.closer.ClosingTx()
		if err != nil || tx == nil || len(tx.TxOut) == 0 {
			return "-"
		}
		var parts []string
		for _, o := range tx.TxOut {
			parts = append(parts, fmt.Sprintf("%d:%s", o.Value,
				c17sHex(o.PkScript)))
		}
		return strings.Join(parts, ",")
	}
	txeq := -1
	tI, eI := nds[0].closer.ClosingTx()
	tR, eR := nds[1].closer.ClosingTx()
	if eI == nil && eR == nil && tI != nil && tR != nil {
		txeq = c17b(bytes.Equal(c17ser(tI), c17ser(tR)))
	}
	dbeq := -1
	if a, b := c17sCoopTx(chI), c17sCoopTx(chR); a != nil && b != nil {
		dbeq = c17b(bytes.Equal(c17ser(a), c17ser(b)))
	}
	c.pf("dbend dbeq=%d goneI=%d goneR=%d restarts=%d", dbeq,
		c17b(nds[0].gone), c17b(nds[1].gone), p.restarts-restartsLeft)
	c.pf("end processed=%d capped=%d stateI=%s stateR=%s txfeeI=%d "+
		"txfeeR=%d txeq=%d bcastI=%d bcastR=%d lastI=%d lastR=%d "+
		"offersI=%s offersR=%s outsI=%s outsR=%s", processed, c17b(capped),
		nds[0].stateName(), nds[1].stateName(), txfee(nds[0]),
		txfee(nds[1]), txeq, len(nds[0].bcast), len(nds[1].bcast),
		int64(nds[0].closer.lastFeeProposal),
		int64(nds[1].closer.lastFeeProposal), nds[0].offers(),
		nds[1].offers(), outs(nds[0]), outs(nds[1]))
	c.pf("END")
}

// schedParams draws the fee / cap / balance parameters exactly like
// TestVerifC17 does for kind=neg and applies the balance variation to the two
// channel objects.
func (c *c17) schedParams(tname string, chI, chR *lnwallet.LightningChannel,
	anchors int64) c17neg {

	cf := int64(chI.State().LocalCommitment.CommitFee)
	p := c17neg{tname: tname, maxMsgs: 400}
	switch c.rng.Intn(10) {
	case 0: // below the realistic range: may not terminate
		p.idealI, p.idealR = c.ideal(0), c.ideal(0)
		if c.rng.Intn(2) == 0 {
			p.idealI = int64(c.rng.Intn(12))
		}
		if c.rng.Intn(2) == 0 {
			p.idealR = int64(c.rng.Intn(12))
		}
		p.maxMsgs = 120
	case 1: // equal or adjacent ideals
		p.idealI = c.ideal(100)
		p.idealR = p.idealI + int64(c.rng.Intn(3)) - 1
	case 2: // around the 30% acceptance boundary
		p.idealI = c.ideal(100)
		k := []int64{13, 7, 10, 11, 9}[c.rng.Intn(5)]
		p.idealR = p.idealI*k/10 + int64(c.rng.Intn(5)) - 2
		if c.rng.Intn(2) == 0 {
			p.idealI, p.idealR = p.idealR, p.idealI
		}
	default:
		p.idealI, p.idealR = c.ideal(100), c.ideal(100)
	}
	if p.idealI < 0 {
		p.idealI = 0
	}
	if p.idealR < 0 {
		p.idealR = 0
	}
	hi := p.idealI
	if p.idealR > hi {
		hi = p.idealR
	}
	switch c.rng.Intn(6) {
	case 0: // explicit cap above both ideals
		p.maxCfgI = hi + int64(c.rng.Intn(1000))
	case 1: // explicit cap near the larger ideal (may bail out)
		p.maxCfgI = hi + int64(c.rng.Intn(7)) - 3
	case 2: // the non-opener's cap is never consulted
		p.maxCfgR = 1 + int64(c.rng.Intn(100))
	}
	if c.rng.Intn(8) == 0 {
		// the opener's accepting proposal equals its max fee
		p.idealI = c.ideal(100)
		p.idealR = p.idealI + p.idealI*int64(1+c.rng.Intn(3))/10
		p.maxCfgI = p.idealR + int64(c.rng.Intn(3)) - 1
		p.maxCfgR = 0
		hi = p.idealR
	}
	if p.maxCfgI < 0 {
		p.maxCfgI = 0
	}
	// the opener's spendable balance
	openerSat := int64(chI.State().LocalCommitment.LocalBalance.ToSatoshis()) +
		cf + anchors
	if c.rng.Intn(8) == 0 {
		// opener can pay only about the ideal fees
		want := c.ideal(100)
		if c.rng.Intn(2) == 0 {
			want = hi + int64(c.rng.Intn(400)) - 200
		}
		if want < cf+anchors {
			want = cf + anchors
		}
		bal := lnwire.NewMSatFromSatoshis(
			btcutil.Amount(want - cf - anchors),
		)
		rest := lnwire.NewMSatFromSatoshis(
			chI.State().Capacity - btcutil.Amount(want),
		)
		chI.State().LocalCommitment.LocalBalance = bal
		chI.State().LocalCommitment.RemoteBalance = rest
		chR.State().LocalCommitment.RemoteBalance = bal
		chR.State().LocalCommitment.LocalBalance = rest
		openerSat = want
	}
	if c.rng.Intn(10) == 0 {
		// the non-opener is below its dust limit: only the opener's
		// output is left
		dustR := int64(chI.State().RemoteChanCfg.DustLimit)
		other := c.rng.Int63n(dustR)
		lb := chI.State().LocalCommitment.LocalBalance
		if c.rng.Intn(2) == 0 {
			want := hi + int64(c.rng.Intn(600)) - 100
			if want < cf+anchors {
				want = cf + anchors
			}
			lb = lnwire.NewMSatFromSatoshis(
				btcutil.Amount(want - cf - anchors),
			)
			openerSat = want
		}
		ob := lnwire.NewMSatFromSatoshis(btcutil.Amount(other))
		chI.State().LocalCommitment.LocalBalance = lb
		chI.State().LocalCommitment.RemoteBalance = ob
		chR.State().LocalCommitment.RemoteBalance = lb
		chR.State().LocalCommitment.LocalBalance = ob
	}
	p.openerSat = openerSat
	p.otherSat = int64(chI.State().LocalCommitment.RemoteBalance.ToSatoshis())
	return p
}

// upfront draws the upfront shutdown script one side has on record for its
// peer, whose delivery script is peer.
func (c *c17) upfront(peer []byte) []byte {
	switch u := c.rng.Intn(100); {
	case u < 78:
		return nil
	case u < 90:
		return append([]byte(nil), peer...)
	case u < 96:
		if len(peer) == 0 {
			return c.sValid()
		}
		return c.sNear(peer)
	default:
		return c.sInvalid()
	}
}

func TestVerifC17Sched(t *testing.T) {
	out := os.Getenv("VERIF_OUT")
	if out == "" {
		t.Skip("VERIF_OUT not set")
	}
	seed, _ := strconv.ParseInt(os.Getenv("VERIF_SEED"), 10, 64)
	thorough := os.Getenv("VERIF_TIER") == "thorough"
	f, err := os.Create(out)
	if err != nil {
		t.Fatal(err)
	}
	defer f.Close()
	c := &c17{
		w:   bufio.NewWriterSize(f, 1<<20),
		rng: rand.New(rand.NewSource(seed*7919 + 17)),
	}
	defer c.w.Flush()

	c.pf("FACT maxFeeMult=%d", defaultMaxFeeMultiplier)
	rr := rand.New(rand.NewSource(seed*104729 + 71))

	mult := 1
	if thorough {
		mult = 10
	}
	c.scriptGrid(300 * mult)

	anchor := channeldb.AnchorOutputsBit | channeldb.ZeroHtlcTxFeeBit |
		channeldb.SingleFunderTweaklessBit
	types := []struct {
		name string
		ct   channeldb.ChannelType
		n    int
	}{
		{"tweakless", channeldb.SingleFunderTweaklessBit, 112},
		{"anchors", anchor, 112},
		{"taproot", anchor | channeldb.SimpleTaprootFeatureBit, 26},
	}
	for _, ty := range types {
		a, b, err := lnwallet.CreateTestChannels(t, ty.ct)
		if err != nil {
			t.Fatalf("CreateTestChannels(%s): %v", ty.name, err)
		}
		anchors := int64(0)
		if ty.ct.HasAnchors() {
			anchors = 660
		}
		origA := a.State().LocalCommitment
		origB := b.State().LocalCommitment
		for i := 0; i < ty.n*mult; i++ {
			// who opened the channel (forced flag; CreateTestChannels
			// always makes Alice the opener)
			aOpens := c.rng.Intn(2) == 0
			a.State().IsInitiator, b.State().IsInitiator = aOpens, !aOpens
			a.State().LocalCommitment = origA
			b.State().LocalCommitment = origB
			chI, chR := a, b
			if !aOpens {
				chI, chR = b, a
				la := origA.LocalBalance
				a.State().LocalCommitment.LocalBalance = origB.LocalBalance
				a.State().LocalCommitment.RemoteBalance = la
				b.State().LocalCommitment.LocalBalance = la
				b.State().LocalCommitment.RemoteBalance = origB.LocalBalance
			}
			p := c17sCase{c17neg: c.schedParams(ty.name, chI, chR, anchors)}

			// interleaving bias
			switch m := c.rng.Intn(6); {
			case m < 2:
				p.mode = "early"
			case m == 2:
				p.mode = "rfirst"
			case m == 3:
				p.mode = "crossing"
			default:
				p.mode = "uniform"
			}
			p.closeBy = []string{"I", "R", "both"}[c.rng.Intn(3)]
			if p.mode == "crossing" {
				p.closeBy = "both"
			}

			// delivery scripts; a small fraction is not acceptable to
			// the receiver
			p.scriptI, p.scriptR = c.sValid(), c.sValid()
			if c.rng.Intn(12) == 0 {
				bad := c.sInvalid()
				if c.rng.Intn(4) == 0 {
					bad = nil
				}
				switch c.rng.Intn(5) {
				case 0, 1:
					p.scriptI = bad
				case 2, 3:
					p.scriptR = bad
				default:
					p.scriptI, p.scriptR = bad, c.sInvalid()
				}
			}
			p.upfrontI = c.upfront(p.scriptR)
			p.upfrontR = c.upfront(p.scriptI)
			// restarts (separate generator: the draws above are
			// unchanged)
			p.restartAt = "none"
			if rr.Intn(3) == 0 {
				p.restarts = 1 + rr.Intn(2)
				p.restartAt = []string{"rand", "sd", "neg", "fin1",
					"fin1"}[rr.Intn(5)]
			}
			c.sched(chI, chR, p)
		}
	}
}
