//go:build verif

package lnwallet

// C04 harness: every revoked counterparty commitment can be fully punished
// from persisted data.  For each revoked height of random channel histories
// the state hint of the cheater's real transaction is decoded,
// NewBreachRetribution is built from the live and the reloaded channel state
// (with and without the breach transaction), the recorded output indexes and
// amounts are compared with the transaction the cheater really held, and the
// justice spend of every output is assembled the way
// contractcourt/breach_arbitrator.go does (witness type table of
// newRetributionInfo, sequence of breachedOutput.BlocksToMaturity, version 2,
// locktime 0) and executed with the real btcd script engine - also for the
// second-level output after the cheater's own second-level transaction.

import (
	"bufio"
	"bytes"
	"crypto/sha256"
	"encoding/hex"
	"fmt"
	"math/rand"
	"os"
	"sort"
	"strconv"
	"strings"
	"testing"

	"github.com/btcsuite/btcd/btcec/v2"
	"github.com/btcsuite/btcd/txscript/v2"
	"github.com/btcsuite/btcd/wire/v2"
	"github.com/lightningnetwork/lnd/channeldb"
	"github.com/lightningnetwork/lnd/chanstate"
	"github.com/lightningnetwork/lnd/fn/v2"
	"github.com/lightningnetwork/lnd/input"
	"github.com/lightningnetwork/lnd/lntypes"
)

type c04Out struct {
	kind   string // toRemote (ours) | toLocal (theirs, revoked) | htlcAcc | htlcOff
	op     wire.OutPoint
	sd     input.SignDescriptor
	wt     input.StandardWitnessType
	htlc   *HtlcRetribution
	mature uint32
}

// c04WitnessTypes mirrors contractcourt.newRetributionInfo and
// breachedOutput.BlocksToMaturity.
func c04Outs(br *BreachRetribution) []c04Out {
	var outs []c04Out
	isTaproot := false
	switch {
	case br.LocalOutputSignDesc != nil:
		isTaproot = txscript.IsPayToTaproot(br.LocalOutputSignDesc.Output.PkScript)
	case br.RemoteOutputSignDesc != nil:
		isTaproot = txscript.IsPayToTaproot(br.RemoteOutputSignDesc.Output.PkScript)
	case len(br.HtlcRetributions) > 0:
		isTaproot = txscript.IsPayToTaproot(br.HtlcRetributions[0].SignDesc.Output.PkScript)
	}
	maturity := func(wt input.StandardWitnessType) uint32 {
		switch wt {
		case input.CommitmentToRemoteConfirmed, input.TaprootRemoteCommitSpend,
			input.TaprootRemoteCommitSpendFinal:
			return 1
		}
		return 0
	}
	if br.LocalOutputSignDesc != nil {
		var wt input.StandardWitnessType
		switch {
		case br.ChanType.IsTaprootFinal():
			wt = input.TaprootRemoteCommitSpendFinal
		case isTaproot:
			wt = input.TaprootRemoteCommitSpend
		case br.LocalOutputSignDesc.SingleTweak == nil:
			wt = input.CommitSpendNoDelayTweakless
		default:
			wt = input.CommitmentNoDelay
		}
		if !isTaproot && br.LocalDelay != 0 {
			wt = input.CommitmentToRemoteConfirmed
		}
		outs = append(outs, c04Out{kind: "toRemote", op: br.LocalOutpoint,
			sd: *br.LocalOutputSignDesc, wt: wt, mature: maturity(wt)})
	}
	if br.RemoteOutputSignDesc != nil {
		var wt input.StandardWitnessType
		switch {
		case br.ChanType.IsTaprootFinal():
			wt = input.TaprootCommitmentRevokeFinal
		case isTaproot:
			wt = input.TaprootCommitmentRevoke
		default:
			wt = input.CommitmentRevoke
		}
		outs = append(outs, c04Out{kind: "toLocal", op: br.RemoteOutpoint,
			sd: *br.RemoteOutputSignDesc, wt: wt, mature: maturity(wt)})
	}
	for i := range br.HtlcRetributions {
		hr := &br.HtlcRetributions[i]
		var wt input.StandardWitnessType
		kind := "htlcOff"
		switch {
		case isTaproot && hr.IsIncoming:
			wt, kind = input.TaprootHtlcAcceptedRevoke, "htlcAcc"
		case isTaproot && !hr.IsIncoming:
			wt = input.TaprootHtlcOfferedRevoke
		case !isTaproot && hr.IsIncoming:
			wt, kind = input.HtlcAcceptedRevoke, "htlcAcc"
		default:
			wt = input.HtlcOfferedRevoke
		}
		outs = append(outs, c04Out{kind: kind, op: hr.OutPoint, sd: hr.SignDesc,
			wt: wt, htlc: hr, mature: maturity(wt)})
	}
	return outs
}

func c04SdDigest(b *strings.Builder, sd *input.SignDescriptor) {
	if sd == nil {
		b.WriteString("nil;")
		return
	}
	pk := []byte{}
	if sd.KeyDesc.PubKey != nil {
		pk = sd.KeyDesc.PubKey.SerializeCompressed()
	}
	dt := []byte{}
	if sd.DoubleTweak != nil {
		dt = sd.DoubleTweak.Serialize()
	}
	fmt.Fprintf(b, "%x|%x|%x|%x|%x|%d|%d|%d|%x|%x;", pk, sd.SingleTweak, dt,
		sd.WitnessScript, sd.Output.PkScript, sd.Output.Value, sd.HashType,
		sd.SignMethod, sd.ControlBlock, sd.TapTweak)
}

func c04Digest(br *BreachRetribution) string {
	var b strings.Builder
	fmt.Fprintf(&b, "%d|%d|%d|%d|%d;", br.RevokedStateNum, br.LocalOutpoint.Index,
		br.RemoteOutpoint.Index, br.LocalDelay, br.RemoteDelay)
	b.WriteString(br.BreachTxHash.String())
	c04SdDigest(&b, br.LocalOutputSignDesc)
	c04SdDigest(&b, br.RemoteOutputSignDesc)
	for i := range br.HtlcRetributions {
		hr := &br.HtlcRetributions[i]
		fmt.Fprintf(&b, "%d|%v|%x|%x;", hr.OutPoint.Index, hr.IsIncoming,
			hr.SecondLevelWitnessScript, hr.SecondLevelTapTweak)
		c04SdDigest(&b, &hr.SignDesc)
	}
	h := sha256.Sum256([]byte(b.String()))
	return hex.EncodeToString(h[:6])
}

type c04Run struct {
	stale   [2]*chanstate.OpenChannel
	w       *bufio.Writer
	p       *c0405Pair
	spendID int
	negLeft int
}

func (c *c04Run) pf(format string, a ...interface{}) { fmt.Fprintf(c.w, format, a...) }

// spend executes one justice input (plus negative variants) and prints it.
func (c *c04Run) spend(v int, ctx string, o c04Out, actual *wire.TxOut, terms *c0405Terms,
	payHash []byte, withNeg bool) {

	p := c.p
	signer := p.ch[v].Signer
	run := func(mut *c0405Mut) {
		sd := o.sd
		op := o.op
		inp := input.NewCsvInput(&op, o.wt, &sd, 0, o.mature)
		res := c0405Sweep(inp, signer, actual, 0, mut)
		variant := "pos"
		if mut != nil {
			variant = mut.name
		}
		if res.engine == "n/a" {
			return
		}
		spk := c0405SpkClass(actual.PkScript)
		ws, wit := "-", "-"
		if res.tx != nil {
			w := res.tx.TxIn[0].Witness
			n := c0405NScriptElems(spk, w)
			if n >= 1 && len(w) >= n {
				ws = terms.renderScript(w[len(w)-n], payHash)
			}
			wit = terms.renderWitness(w, n, []string{terms.signerTerm(inp.SignDesc())}, payHash)
		}
		c.spendID++
		c.pf("%s", c0405SpendLine(c.spendID, ctx, o.kind, o.wt.String(), variant, res.tx,
			o.op.Index, o.sd.Output.Value, actual.Value,
			bytes.Equal(o.sd.Output.PkScript, actual.PkScript), spk, ws, wit, res.engine))
	}
	run(nil)
	if !withNeg {
		return
	}
	spk := c0405SpkClass(actual.PkScript)
	negs := c0405Negatives(p, v, input.NewCsvInput(&o.op, o.wt, &o.sd, 0, o.mature),
		o.mature >= 1, false, spk)
	p.r.Shuffle(len(negs), func(i, j int) { negs[i], negs[j] = negs[j], negs[i] })
	for i := 0; i < len(negs) && i < 2 && c.negLeft > 0; i++ {
		c.negLeft--
		run(negs[i])
	}
}

// check examines every revoked height both nodes know of.
func (c *c04Run) check() {
	p := c.p
	for v := 0; v < 2; v++ {
		ch := 1 - v
		st := p.ch[v].channelState
		cst := p.ch[ch].channelState
		obf := createStateHintObfuscator(st)
		revokedBelow := st.RemoteCommitment.CommitHeight

		var reloaded *chanstate.OpenChannel
		if chans, err := st.Db.FetchOpenChannels(st.IdentityPub); err == nil && len(chans) == 1 {
			reloaded = chans[0]
		}

		for h := uint64(0); h < revokedBelow; h++ {
			vn := c0405NodeName[v]
			var cheaterTx *wire.MsgTx
			cs := p.closes[ch][h]
			if cs != nil {
				cheaterTx = cs.CloseTx
			} else {
				cheaterTx = p.held[ch][h]
			}
			if cheaterTx == nil {
				c.pf("rev v=%s h=%d => missing-tx\n", vn, h)
				continue
			}
			// ground truth from the cheater's own point of view
			rev, err := cst.RevocationProducer.AtIndex(h)
			if err != nil {
				c.pf("rev v=%s h=%d => producer-error\n", vn, h)
				continue
			}
			cp := input.ComputeCommitmentPoint(rev[:])
			ckr := DeriveCommitmentKeys(cp, lntypes.Local, cst.ChanType,
				&cst.LocalChanCfg, &cst.RemoteChanCfg)
			anchors := map[uint32]bool{}
			if cst.ChanType.HasAnchors() {
				la, ra, err := CommitScriptAnchors(cst.ChanType, &cst.LocalChanCfg,
					&cst.RemoteChanCfg, ckr)
				if err == nil {
					for i, o := range cheaterTx.TxOut {
						if bytes.Equal(o.PkScript, la.PkScript()) ||
							bytes.Equal(o.PkScript, ra.PkScript()) {
							anchors[uint32(i)] = true
						}
					}
				}
			}
			htlcByIdx := map[uint32]channeldb.HTLC{}
			nHtlcOut := 0
			if cs != nil {
				for _, ht := range cs.ChanSnapshot.Htlcs {
					if ht.OutputIndex >= 0 {
						htlcByIdx[uint32(ht.OutputIndex)] = ht
						nHtlcOut++
					}
				}
			}
			hint := GetStateNumHint(cheaterTx, obf)
			seqOK := cheaterTx.TxIn[0].Sequence&wire.SequenceLockTimeDisabled != 0
			c.pf("rev v=%s h=%d hint=%d seqbit=%d locktime=%d nouts=%d nanch=%d nhtlc=%d signed=%d\n",
				vn, h, hint, c0405B2i(seqOK), cheaterTx.LockTime, len(cheaterTx.TxOut),
				len(anchors), nHtlcOut, c0405B2i(cs != nil))

			c.revlogLine(vn, h, st, cst, cp, ckr, cheaterTx, htlcByIdx, cs != nil)

			terms := p.terms(cp)
			var primary *BreachRetribution
			primaryDigest := ""
			type mode struct {
				name  string
				state *chanstate.OpenChannel
				tx    *wire.MsgTx
			}
			modes := []mode{{"live/tx", st, cheaterTx}, {"live/notx", st, nil}}
			if reloaded != nil {
				modes = append(modes, mode{"reload/tx", reloaded, cheaterTx},
					mode{"reload/notx", reloaded, nil})
			}
			if sc := c.stale[v]; sc != nil {
				// exactly what contractcourt/chain_watcher.go does with
				// its own start-up copy of the channel: refresh the
				// revocation state from disk (newChainSet), then build
				// the retribution on that copy (handlePossibleBreach)
				if _, err := sc.RemoteRevocationStore(); err != nil {
					c.pf("retr v=%s h=%d mode=stale/tx noamt=%d same=- => err:refresh\n", vn, h,
						c0405B2i(p.noAmt))
				} else {
					modes = append(modes, mode{"stale/tx", sc, cheaterTx})
				}
			}
			for mi, m := range modes {
				var (
					br  *BreachRetribution
					res string
				)
				func() {
					defer c0405Recover(&res)
					var err error
					br, err = NewBreachRetribution(m.state, h, 777, m.tx,
						fn.None[AuxLeafStore](), fn.None[AuxContractResolver]())
					res = c0405ErrClass(err)
				}()
				same := "-"
				var d string
				if res == "ok" {
					d = c04Digest(br)
					if mi == 0 {
						primary, primaryDigest = br, d
					} else if primary != nil {
						same = strconv.Itoa(c0405B2i(d == primaryDigest))
					}
				}
				c.pf("retr v=%s h=%d mode=%s noamt=%d same=%s => %s\n", vn, h, m.name,
					c0405B2i(p.noAmt), same, res)
				if res != "ok" {
					continue
				}
				full := mi == 0 || same != "1"
				if !full {
					continue
				}
				ctx := fmt.Sprintf("v:%s,h:%d,m:%s", vn, h, m.name)
				outs := c04Outs(br)
				claimed := map[uint32]bool{}
				dup := false
				for _, o := range outs {
					if claimed[o.op.Index] {
						dup = true
					}
					claimed[o.op.Index] = true
				}
				expect := map[uint32]bool{}
				for i := range cheaterTx.TxOut {
					if !anchors[uint32(i)] {
						expect[uint32(i)] = true
					}
				}
				c.pf("cover ctx=%s txid=%d claimed=%s expect=%s dup=%d\n", ctx,
					c0405B2i(br.BreachTxHash == cheaterTx.TxHash()),
					c0405SortedU32(claimed), c0405SortedU32(expect), c0405B2i(dup))

				for _, o := range outs {
					if int(o.op.Index) >= len(cheaterTx.TxOut) {
						c.pf("out ctx=%s kind=%s rec_idx=%d => out-of-range\n", ctx, o.kind, o.op.Index)
						continue
					}
					actual := cheaterTx.TxOut[o.op.Index]
					var payHash []byte
					if ht, ok := htlcByIdx[o.op.Index]; ok {
						payHash = ht.RHash[:]
					}
					// ground-truth class of the output the record points at
					actKind := "other"
					if ht, ok := htlcByIdx[o.op.Index]; ok {
						// cheater's incoming = we offered
						if ht.Incoming {
							actKind = "htlcOff"
						} else {
							actKind = "htlcAcc"
						}
					} else if anchors[o.op.Index] {
						actKind = "anchor"
					} else if cs != nil {
						cr := cs.ContractResolutions.UnwrapOr(ContractResolutions{}).CommitResolution
						if cr != nil && cr.SelfOutPoint.Index == o.op.Index {
							actKind = "toLocal"
						} else {
							actKind = "toRemote"
						}
					} else {
						actKind = "unknown"
					}
					c.pf("out ctx=%s kind=%s act_kind=%s rec_idx=%d rec_amt=%d act_amt=%d pk=%d\n",
						ctx, o.kind, actKind, o.op.Index, o.sd.Output.Value, actual.Value,
						c0405B2i(bytes.Equal(o.sd.Output.PkScript, actual.PkScript)))
					c.spend(v, ctx, o, actual, terms, payHash, mi == 0)

					// second level: the cheater first advances the HTLC
					if o.htlc == nil || cs == nil || mi != 0 {
						continue
					}
					var stx *wire.MsgTx
					cres := cs.ContractResolutions.UnwrapOr(ContractResolutions{})
					if cres.HtlcResolutions != nil {
						for _, r := range cres.HtlcResolutions.OutgoingHTLCs {
							if r.SignedTimeoutTx != nil && r.HtlcPoint().Index == o.op.Index {
								stx = r.SignedTimeoutTx
							}
						}
						for _, r := range cres.HtlcResolutions.IncomingHTLCs {
							if r.SignedSuccessTx != nil && r.HtlcPoint().Index == o.op.Index {
								stx = r.SignedSuccessTx
							}
						}
					}
					if stx == nil {
						c.pf("second ctx=%s rec_idx=%d => no-second-level-tx\n", ctx, o.op.Index)
						continue
					}
					// contractcourt.convertToSecondLevelRevoke
					o2 := o
					o2.kind = "secondLevel"
					if txscript.IsPayToTaproot(o.sd.Output.PkScript) {
						o2.wt = input.TaprootHtlcSecondLevelRevoke
					} else {
						o2.wt = input.HtlcSecondLevelRevoke
					}
					o2.op = wire.OutPoint{Hash: stx.TxHash(), Index: 0}
					o2.sd.Output = &wire.TxOut{Value: stx.TxOut[0].Value,
						PkScript: stx.TxOut[0].PkScript}
					o2.sd.TapTweak = o.htlc.SecondLevelTapTweak[:]
					o2.sd.WitnessScript = o.htlc.SecondLevelWitnessScript
					o2.mature = 0
					c.spend(v, ctx, o2, stx.TxOut[0], terms, nil, true)
				}
			}
		}
	}
}

// revlogLine prints the victim's persisted revocation-log entry for height h next
// to the cheater's real transaction in the abstract form the Lean model
// (RevLog.scanIdx / C01.assignFrom) works on: outputs as value:scriptId:cltv
// (script ids by first occurrence; cltv = the HTLC expiry the sort used, taken
// from the CHEATER's snapshot), the two commitment scripts as derived from the
// cheater's own key ring, and the HTLC entries in log order with the pkScript
// the victim computes for them.
func (c *c04Run) revlogLine(vn string, h uint64, st, cst *chanstate.OpenChannel,
	cp *btcec.PublicKey, ckr *CommitmentKeyRing, tx *wire.MsgTx,
	htlcByIdx map[uint32]channeldb.HTLC, signed bool) {

	if !signed {
		return
	}
	res := "ok"
	var line strings.Builder
	func() {
		defer c0405Recover(&res)
		rl, _, err := st.FindPreviousState(h)
		if err != nil || rl == nil {
			res = "nolog"
			return
		}
		sid := map[string]int{}
		id := func(pk []byte) int {
			k := string(pk)
			if v, ok := sid[k]; ok {
				return v
			}
			sid[k] = len(sid) + 1
			return sid[k]
		}
		hid := map[[32]byte]int{}
		hidOf := func(hh [32]byte) int {
			if v, ok := hid[hh]; ok {
				return v
			}
			hid[hh] = len(hid) + 1
			return hid[hh]
		}
		var outs []string
		for i, o := range tx.TxOut {
			cltv := uint32(0)
			if ht, ok := htlcByIdx[uint32(i)]; ok {
				cltv = ht.RefundTimeout
			}
			outs = append(outs, fmt.Sprintf("%d:%d:%d", o.Value, id(o.PkScript), cltv))
		}
		var lease uint32
		if cst.ChanType.HasLeaseExpiration() {
			lease = cst.ThawHeight
		}
		theirS, err := CommitScriptToSelf(cst.ChanType, cst.IsInitiator, ckr.ToLocalKey,
			ckr.RevocationKey, uint32(cst.LocalChanCfg.CsvDelay), lease, input.NoneTapLeaf())
		if err != nil {
			res = "err:toself"
			return
		}
		ourS, _, err := CommitScriptToRemote(cst.ChanType, cst.IsInitiator, ckr.ToRemoteKey,
			lease, input.NoneTapLeaf())
		if err != nil {
			res = "err:toremote"
			return
		}
		vkr := DeriveCommitmentKeys(cp, lntypes.Remote, st.ChanType, &st.LocalChanCfg, &st.RemoteChanCfg)
		var hts []string
		for _, e := range rl.HTLCEntries {
			si, err := genHtlcScript(st.ChanType, e.Incoming.Val, lntypes.Remote,
				e.RefundTimeout.Val, e.RHash.Val, vkr, input.NoneTapLeaf())
			if err != nil {
				res = "err:htlcscript"
				return
			}
			hts = append(hts, fmt.Sprintf("%d:%d:%d:%d:%d:%d", e.OutputIndex.Val,
				uint64(e.Amt.Val.Int()), hidOf(e.RHash.Val), e.RefundTimeout.Val,
				c0405B2i(e.Incoming.Val), id(si.PkScript())))
		}
		fmt.Fprintf(&line, "ours=%d theirs=%d ourS=%d theirS=%d outs=%s htlcs=%s",
			rl.OurOutputIndex.Val, rl.TheirOutputIndex.Val, id(ourS.PkScript()), id(theirS.PkScript()),
			strings.Join(outs, ","), strings.Join(append(hts, ""), ","))
	}()
	c.pf("revlog v=%s h=%d %s => %s\n", vn, h, line.String(), res)
}

func TestVerifC04(t *testing.T) {
	out := os.Getenv("VERIF_OUT")
	if out == "" {
		t.Skip("VERIF_OUT not set")
	}
	seed, _ := strconv.ParseInt(os.Getenv("VERIF_SEED"), 10, 64)
	tier := os.Getenv("VERIF_TIER")
	f, err := os.Create(out)
	if err != nil {
		t.Fatal(err)
	}
	defer f.Close()
	w := bufio.NewWriterSize(f, 1<<20)
	defer w.Flush()

	perKind, maxSteps, maxAdds := 5, 90, 8
	if tier == "thorough" {
		perKind, maxSteps, maxAdds = 90, 160, 12
	}
	if v, err := strconv.Atoi(os.Getenv("VERIF_C04_CASES")); err == nil && v > 0 {
		perKind = v
	}

	fmt.Fprintf(w, "FACT maxStateHint=%d timelockShift=%d seqLockTimeDisabled=%d stateHintSize=%d\n",
		uint64(maxStateHint), TimelockShift, uint32(wire.SequenceLockTimeDisabled), StateHintSize)

	// script templates of input/script_utils.go
	fmt.Fprintf(w, "CASE tmpl prop=c04 type=templates\n")
	c0405Templates(func(s string) { w.WriteString(s) }, rand.New(rand.NewSource(seed)))
	fmt.Fprintf(w, "END\n")

	// state hint: direct calls on boundary values
	fmt.Fprintf(w, "CASE hint prop=c04 type=hint\n")
	hr := rand.New(rand.NewSource(seed ^ 0x5eed))
	states := []uint64{0, 1, 2, 0xFFFFFF, 0x1000000, 0x1000001, 1<<47 - 1, 1 << 47, 1<<48 - 2, 1<<48 - 1,
		1 << 48, 1<<48 + 1, 1<<63 - 1, 1 << 63, ^uint64(0)}
	for i := 0; i < 40; i++ {
		states = append(states, hr.Uint64()>>uint(hr.Intn(64)))
	}
	for _, s := range states {
		var obf [StateHintSize]byte
		switch hr.Intn(4) {
		case 0:
		case 1:
			for i := range obf {
				obf[i] = 0xff
			}
		default:
			hr.Read(obf[:])
		}
		tx := wire.NewMsgTx(2)
		tx.AddTxIn(&wire.TxIn{Sequence: hr.Uint32()})
		tx.LockTime = hr.Uint32()
		err := SetStateNumHint(tx, s, obf)
		if err != nil {
			fmt.Fprintf(w, "sethint state=%d obf=%s => error\n", s, hex.EncodeToString(obf[:]))
			continue
		}
		got := GetStateNumHint(tx, obf)
		fmt.Fprintf(w, "sethint state=%d obf=%s => seq=%d lock=%d get=%d\n", s,
			hex.EncodeToString(obf[:]), tx.TxIn[0].Sequence, tx.LockTime, got)
	}
	// decoding arbitrary fields
	for i := 0; i < 20; i++ {
		var obf [StateHintSize]byte
		hr.Read(obf[:])
		tx := wire.NewMsgTx(2)
		tx.AddTxIn(&wire.TxIn{Sequence: hr.Uint32()})
		tx.LockTime = hr.Uint32()
		fmt.Fprintf(w, "gethint seq=%d lock=%d obf=%s => %d\n", tx.TxIn[0].Sequence, tx.LockTime,
			hex.EncodeToString(obf[:]), GetStateNumHint(tx, obf))
	}
	fmt.Fprintf(w, "END\n")

	caseID := 0
	stats := map[string]int{}
	for ki, kind := range c0405Kinds {
		for i := 0; i < perKind; i++ {
			caseID++
			r := rand.New(rand.NewSource(seed*1_000_003 + int64(ki)*1009 + int64(i)))
			noAmt := r.Intn(4) == 0
			p, err := c0405NewPair(t, kind, r, noAmt, i%3 == 1)
			if err != nil {
				t.Fatalf("create channels %s: %v", kind.Name, err)
			}
			if i%3 == 1 {
				p.smallBalancePrefix()
			}
			steps := maxSteps/2 + r.Intn(maxSteps/2+1)
			n := 0
			// like a chain watcher started earlier, keep a SEPARATE copy of
			// each node's channel loaded from the database at some earlier
			// point of the history
			staleAt := r.Intn(steps + 1)
			var stale [2]*chanstate.OpenChannel
			takeStale := func() {
				for x := 0; x < 2; x++ {
					st := p.ch[x].channelState
					if chans, err := st.Db.FetchOpenChannels(st.IdentityPub); err == nil && len(chans) == 1 {
						stale[x] = chans[0]
					}
				}
			}
			for n < steps && !p.dead {
				if n == staleAt {
					takeStale()
				}
				if !p.step(maxAdds) {
					break
				}
				n++
			}
			if stale[0] == nil {
				takeStale()
			}
			drained := r.Intn(3) != 0
			if drained {
				p.drain()
			}
			fmt.Fprintf(w, "CASE %d prop=c04 %s steps=%d drained=%d dead=%d\n",
				caseID, p.header(), n, c0405B2i(drained), c0405B2i(p.dead))
			run := &c04Run{w: w, p: p, negLeft: 40, stale: stale}
			run.check()
			fmt.Fprintf(w, "END\n")
			for k, v := range p.stats {
				stats[k] += v
			}
		}
	}
	keys := make([]string, 0, len(stats))
	for k := range stats {
		keys = append(keys, k)
	}
	sort.Strings(keys)
	var sb strings.Builder
	for _, k := range keys {
		fmt.Fprintf(&sb, " %s=%d", k, stats[k])
	}
	fmt.Fprintf(w, "DIST%s\n", sb.String())
}
