//go:build verif

package lnwallet

// C17 correspondence/monitor harness (stream "lnwallet"). Injected with
// `go test -overlay`; drives the real CoopCloseBalance,
// CreateCooperativeCloseTx, CreateCloseProposal and CompleteCooperativeClose
// on real channel pairs and prints one line per operation for the Lean driver
// (drv_c17 lnwallet).

import (
	"bufio"
	"bytes"
	"encoding/hex"
	"errors"
	"fmt"
	"io"
	"math/rand"
	"os"
	"strconv"
	"strings"
	"testing"

	"github.com/btcsuite/btcd/blockchain"
	"github.com/btcsuite/btcd/btcec/v2/schnorr/musig2"
	"github.com/btcsuite/btcd/btcutil/v2"
	"github.com/btcsuite/btcd/mempool"
	"github.com/btcsuite/btcd/txscript/v2"
	"github.com/btcsuite/btcd/wire/v2"
	"github.com/lightningnetwork/lnd/channeldb"
	"github.com/lightningnetwork/lnd/fn/v2"
	"github.com/lightningnetwork/lnd/input"
	"github.com/lightningnetwork/lnd/lntypes"
	"github.com/lightningnetwork/lnd/lnwallet/chainfee"
	"github.com/lightningnetwork/lnd/lnwire"
)

type c17 struct {
	w   *bufio.Writer
	rng *rand.Rand
	n   int
	t   *testing.T
}

func (c *c17) pf(format string, a ...interface{}) {
	fmt.Fprintf(c.w, format+"\n", a...)
}

func c17hx(b []byte) string {
	if len(b) == 0 {
		return "-"
	}
	return hex.EncodeToString(b)
}

func c17b(b bool) int {
	if b {
		return 1
	}
	return 0
}

// c17tx prints the parts of a transaction the property talks about.
func c17tx(tx *wire.MsgTx) string {
	if tx == nil {
		return "nil"
	}
	var sb strings.Builder
	fmt.Fprintf(&sb, "ver=%d nin=%d", tx.Version, len(tx.TxIn))
	if len(tx.TxIn) > 0 {
		fmt.Fprintf(&sb, " seq=%d", tx.TxIn[0].Sequence)
	}
	fmt.Fprintf(&sb, " lock=%d outs=", tx.LockTime)
	if len(tx.TxOut) == 0 {
		sb.WriteString("-")
	}
	for i, o := range tx.TxOut {
		if i > 0 {
			sb.WriteString(",")
		}
		fmt.Fprintf(&sb, "%d:%s", o.Value, c17hx(o.PkScript))
	}
	return sb.String()
}

func c17ser(tx *wire.MsgTx) []byte {
	var b bytes.Buffer
	_ = tx.Serialize(&b)
	return b.Bytes()
}

func c17err(err error) string {
	var re blockchain.RuleError
	switch {
	case err == nil:
		return "ok"
	case errors.Is(err, ErrChanClosing):
		return "closing"
	case errors.As(err, &re):
		if re.ErrorCode == blockchain.ErrNoTxOutputs {
			return "nooutputs"
		}
		return "sanity"
	case strings.Contains(err.Error(), "cannot afford"):
		return "afford"
	}
	var se txscript.Error
	if errors.As(err, &se) {
		return "script"
	}
	return "other"
}

// ---------------------------------------------------------------------------
// integer generators
// ---------------------------------------------------------------------------

// around returns a value near one of the given pivots (or a pivot itself).
func (c *c17) around(pivots ...int64) int64 {
	p := pivots[c.rng.Intn(len(pivots))]
	switch c.rng.Intn(6) {
	case 0:
		return p
	case 1:
		return p - 1
	case 2:
		return p + 1
	case 3:
		return p + int64(c.rng.Intn(7)) - 3
	case 4:
		return p + int64(c.rng.Intn(2001)) - 1000
	default:
		return p + int64(c.rng.Intn(200001)) - 100000
	}
}

func (c *c17) script() []byte {
	switch c.rng.Intn(10) {
	case 0: // p2wsh-like
		b := make([]byte, 34)
		c.rng.Read(b)
		b[0], b[1] = 0x00, 0x20
		return b
	case 1: // p2tr-like
		b := make([]byte, 34)
		c.rng.Read(b)
		b[0], b[1] = 0x51, 0x20
		return b
	case 2: // op_return with data push
		n := c.rng.Intn(20)
		b := make([]byte, 2+n)
		c.rng.Read(b)
		b[0], b[1] = txscript.OP_RETURN, byte(n)
		return b
	case 3: // bare op_return
		return []byte{txscript.OP_RETURN}
	case 4: // op_return followed by garbage (not a null-data script)
		return []byte{txscript.OP_RETURN, 0x4c}
	case 5: // very short scripts, to exercise the lexicographic tie-break
		b := make([]byte, 1+c.rng.Intn(3))
		for i := range b {
			b[i] = byte(c.rng.Intn(3))
		}
		return b
	default: // p2wkh-like
		b := make([]byte, 22)
		c.rng.Read(b)
		b[0], b[1] = 0x00, 0x14
		return b
	}
}

// scriptPair returns two delivery scripts; sometimes equal or sharing a
// prefix so that BIP69's script tie-break matters.
func (c *c17) scriptPair() ([]byte, []byte) {
	a := c.script()
	switch c.rng.Intn(8) {
	case 0:
		return a, append([]byte{}, a...)
	case 1:
		b := append([]byte{}, a...)
		b[len(b)-1] ^= byte(1 + c.rng.Intn(255))
		return a, b
	case 2:
		return a, append(append([]byte{}, a...), byte(c.rng.Intn(256)))
	case 3:
		if len(a) > 1 {
			return a, append([]byte{}, a[:len(a)-1]...)
		}
	}
	return a, c.script()
}

// ---------------------------------------------------------------------------
// direct grids
// ---------------------------------------------------------------------------

func (c *c17) ccbLine(ct channeldb.ChannelType, isInit bool, fee, our, their,
	commitFee btcutil.Amount, payer fn.Option[lntypes.ChannelParty]) {

	ps := "none"
	payer.WhenSome(func(p lntypes.ChannelParty) {
		if p == lntypes.Local {
			ps = "local"
		} else {
			ps = "remote"
		}
	})
	res := ""
	func() {
		defer func() {
			if r := recover(); r != nil {
				res = "panic"
			}
		}()
		o, t, err := CoopCloseBalance(
			ct, isInit, fee, our, their, commitFee, payer,
		)
		if err != nil {
			res = "err"
			if o != 0 || t != 0 {
				res = "err-nonzero"
			}
			return
		}
		res = fmt.Sprintf("ok %d %d", int64(o), int64(t))
	}()
	c.pf("ccb anchors=%d init=%d fee=%d our=%d their=%d commitFee=%d "+
		"payer=%s => %s", c17b(ct.HasAnchors()), c17b(isInit),
		int64(fee), int64(our), int64(their), int64(commitFee), ps, res)
}

func (c *c17) gridCCB(n int) {
	c.n++
	c.pf("CASE %d kind=grid-ccb", c.n)
	types := []channeldb.ChannelType{
		channeldb.SingleFunderTweaklessBit,
		channeldb.SingleFunderTweaklessBit | channeldb.AnchorOutputsBit |
			channeldb.ZeroHtlcTxFeeBit,
		channeldb.SimpleTaprootFeatureBit | channeldb.AnchorOutputsBit |
			channeldb.ZeroHtlcTxFeeBit |
			channeldb.SingleFunderTweaklessBit,
	}
	payers := []fn.Option[lntypes.ChannelParty]{
		fn.None[lntypes.ChannelParty](), fn.Some(lntypes.Local),
		fn.Some(lntypes.Remote),
	}
	for i := 0; i < n; i++ {
		ct := types[c.rng.Intn(len(types))]
		isInit := c.rng.Intn(2) == 0
		payer := payers[c.rng.Intn(3)]
		commitFee := c.around(0, 1, 9050, 660)
		if c.rng.Intn(8) != 0 && commitFee < 0 {
			commitFee = -commitFee
		}
		our := c.around(0, 1, 330, 660, 1000, 500000)
		their := c.around(0, 1, 330, 660, 1000, 500000)
		if c.rng.Intn(8) != 0 {
			if our < 0 {
				our = -our
			}
			if their < 0 {
				their = -their
			}
		}
		delta := commitFee
		if ct.HasAnchors() {
			delta += 660
		}
		// fee near every quantity it is compared with
		fee := c.around(0, our, their, our+delta, their+delta, delta)
		if c.rng.Intn(10) != 0 && fee < 0 {
			fee = -fee
		}
		c.ccbLine(ct, isInit, btcutil.Amount(fee), btcutil.Amount(our),
			btcutil.Amount(their), btcutil.Amount(commitFee), payer)
	}
	c.pf("END")
}

func (c *c17) cctxLine(localDust, remoteDust, our, their btcutil.Amount,
	ls, rs []byte, rbf bool, seq, lock fn.Option[uint32]) {

	var opts []CloseTxOpt
	if rbf {
		opts = append(opts, WithRBFCloseTx())
	}
	seqS, lockS := "none", "none"
	seq.WhenSome(func(s uint32) {
		opts = append(opts, WithCustomTxInSequence(s))
		seqS = fmt.Sprint(s)
	})
	lock.WhenSome(func(l uint32) {
		opts = append(opts, WithCustomTxLockTime(l))
		lockS = fmt.Sprint(l)
	})
	res := ""
	func() {
		defer func() {
			if r := recover(); r != nil {
				res = "panic"
			}
		}()
		txIn := wire.NewTxIn(&wire.OutPoint{Index: 1}, nil, nil)
		tx, err := CreateCooperativeCloseTx(
			*txIn, localDust, remoteDust, our, their, ls, rs,
			opts...,
		)
		if err != nil {
			res = "err"
			return
		}
		res = "ok " + c17tx(tx)
	}()
	c.pf("cctx ldust=%d rdust=%d our=%d their=%d ls=%s rs=%s lop=%d "+
		"rop=%d rbf=%d cseq=%s clock=%s => %s", int64(localDust),
		int64(remoteDust), int64(our), int64(their), c17hx(ls),
		c17hx(rs), c17b(input.ScriptIsOpReturn(ls)),
		c17b(input.ScriptIsOpReturn(rs)), c17b(rbf), seqS, lockS, res)
}

func (c *c17) optU32() fn.Option[uint32] {
	switch c.rng.Intn(5) {
	case 0:
		return fn.Some(uint32(mempool.MaxRBFSequence))
	case 1:
		return fn.Some(c.rng.Uint32())
	case 2:
		return fn.Some(uint32(c.rng.Intn(3)))
	default:
		return fn.None[uint32]()
	}
}

func (c *c17) gridCCTx(n int) {
	c.n++
	c.pf("CASE %d kind=grid-cctx", c.n)
	for i := 0; i < n; i++ {
		ld := c.around(0, 200, 354, 546, 1300)
		rd := c.around(0, 200, 354, 546, 1300)
		if ld < 0 && c.rng.Intn(4) != 0 {
			ld = -ld
		}
		if rd < 0 && c.rng.Intn(4) != 0 {
			rd = -rd
		}
		our := c.around(0, ld, rd, 100000)
		their := c.around(0, ld, rd, 100000)
		if c.rng.Intn(5) == 0 {
			their = our // equal amounts: order decided by the script
		}
		if c.rng.Intn(10) != 0 {
			if our < 0 {
				our = -our
			}
			if their < 0 {
				their = -their
			}
		}
		ls, rs := c.scriptPair()
		c.cctxLine(btcutil.Amount(ld), btcutil.Amount(rd),
			btcutil.Amount(our), btcutil.Amount(their), ls, rs,
			c.rng.Intn(2) == 0, c.optU32(), c.optU32())
	}
	c.pf("END")
}

// ---------------------------------------------------------------------------
// real channel pairs
// ---------------------------------------------------------------------------

type c17side struct {
	name   string
	ch     *LightningChannel
	local  []byte // own delivery script
	remote []byte
	opts   []ChanCloseOpt
	musig  *MusigSession
	sig    input.Signature
	tx     *wire.MsgTx
	ok     bool
}

func (c *c17) viewLine(s *c17side) {
	st := s.ch.channelState
	c.pf("view %s localMsat=%d remoteMsat=%d commitFee=%d isInit=%d "+
		"localDust=%d remoteDust=%d anchors=%d taproot=%d capacity=%d",
		s.name, uint64(st.LocalCommitment.LocalBalance),
		uint64(st.LocalCommitment.RemoteBalance),
		int64(st.LocalCommitment.CommitFee), c17b(st.IsInitiator),
		int64(st.LocalChanCfg.DustLimit), int64(st.RemoteChanCfg.DustLimit),
		c17b(st.ChanType.HasAnchors()), c17b(st.ChanType.IsTaproot()),
		int64(st.Capacity))
}

// musigPair builds the two symmetric musig2 sessions the peers use for one
// co-op close signature (same construction as peer.MusigChanCloser).
func c17musigPair(a, b *LightningChannel) (*MusigSession, *MusigSession, error) {
	mk := func(ch *LightningChannel, localNonce,
		remoteNonce *musig2.Nonces) (*MusigSession, error) {

		localKey, remoteKey := ch.MultiSigKeys()
		tweak := fn.MapOption(TapscriptRootToTweak)(
			ch.channelState.TapscriptRoot,
		)
		s := NewPartialMusigSession(
			*remoteNonce, localKey, remoteKey, ch.Signer,
			ch.FundingTxOut(), RemoteMusigCommit, tweak,
			fn.None[io.Reader](),
		)
		if err := s.FinalizeSession(*localNonce); err != nil {
			return nil, err
		}
		return s, nil
	}
	aKey, _ := a.MultiSigKeys()
	bKey, _ := b.MultiSigKeys()
	aNonce, err := musig2.GenNonces(musig2.WithPublicKey(aKey.PubKey))
	if err != nil {
		return nil, nil, err
	}
	bNonce, err := musig2.GenNonces(musig2.WithPublicKey(bKey.PubKey))
	if err != nil {
		return nil, nil, err
	}
	sa, err := mk(a, aNonce, bNonce)
	if err != nil {
		return nil, nil, err
	}
	sb, err := mk(b, bNonce, aNonce)
	if err != nil {
		return nil, nil, err
	}
	return sa, sb, nil
}

// engine runs the script engine on a completed close tx against the funding
// output, independently of CompleteCooperativeClose.
func c17engine(ch *LightningChannel, tx *wire.MsgTx) string {
	res := "ok"
	func() {
		defer func() {
			if r := recover(); r != nil {
				res = "panic"
			}
		}()
		prev := ch.FundingTxOut()
		if len(tx.TxIn) != 1 ||
			tx.TxIn[0].PreviousOutPoint != ch.channelState.FundingOutpoint {

			res = "wrong-input"
			return
		}
		fetcher := txscript.NewCannedPrevOutputFetcher(
			prev.PkScript, prev.Value,
		)
		vm, err := txscript.NewEngine(
			prev.PkScript, tx, 0, txscript.StandardVerifyFlags, nil,
			txscript.NewTxSigHashes(tx, fetcher), prev.Value, fetcher,
		)
		if err != nil {
			res = "fail"
			return
		}
		if err := vm.Execute(); err != nil {
			res = "fail"
		}
	}()
	return res
}

type c17params struct {
	tname   string
	mode    string // legacy | rbfA | rbfB (who is the RBF closer)
	fee     int64
	sA, sB  []byte
	lock    uint32
	reached string // forced | payments
}

func (c *c17) closeCase(a, b *LightningChannel, p c17params) {
	a.isClosed, b.isClosed = false, false
	c.n++
	ct := a.channelState.ChanType
	c.pf("CASE %d kind=chan type=%s reached=%s mode=%s fee=%d sA=%s sB=%s "+
		"opA=%d opB=%d lock=%d", c.n, p.tname, p.reached, p.mode, p.fee,
		c17hx(p.sA), c17hx(p.sB), c17b(input.ScriptIsOpReturn(p.sA)),
		c17b(input.ScriptIsOpReturn(p.sB)), p.lock)

	sa := &c17side{name: "A", ch: a, local: p.sA, remote: p.sB}
	sb := &c17side{name: "B", ch: b, local: p.sB, remote: p.sA}
	switch p.mode {
	case "rbfA", "rbfB":
		pa, pb := lntypes.Local, lntypes.Remote
		if p.mode == "rbfB" {
			pa, pb = pb, pa
		}
		common := []ChanCloseOpt{
			WithCustomSequence(mempool.MaxRBFSequence),
			WithCustomLockTime(p.lock),
		}
		sa.opts = append(append([]ChanCloseOpt{}, common...),
			WithCustomPayer(pa))
		sb.opts = append(append([]ChanCloseOpt{}, common...),
			WithCustomPayer(pb))
	}
	if ct.IsTaproot() {
		ma, mb, err := c17musigPair(a, b)
		if err != nil {
			c.pf("musig => err")
			c.pf("END")
			return
		}
		sa.musig, sb.musig = ma, mb
		sa.opts = append(sa.opts, WithCoopCloseMusigSession(ma))
		sb.opts = append(sb.opts, WithCoopCloseMusigSession(mb))
	}
	c.viewLine(sa)
	c.viewLine(sb)

	for _, s := range []*c17side{sa, sb} {
		func() {
			defer func() {
				if r := recover(); r != nil {
					c.pf("propose %s => panic", s.name)
				}
			}()
			sig, tx, bal, err := s.ch.CreateCloseProposal(
				btcutil.Amount(p.fee), s.local, s.remote, s.opts...,
			)
			if err != nil {
				c.pf("propose %s => err %s", s.name, c17err(err))
				return
			}
			s.sig, s.tx, s.ok = sig, tx, true
			c.pf("propose %s => ok bal=%d %s", s.name, int64(bal),
				c17tx(tx))
		}()
	}
	if sa.ok && sb.ok {
		c.pf("proposeq => %d", c17b(bytes.Equal(c17ser(sa.tx),
			c17ser(sb.tx))))
		var done [2]*wire.MsgTx
		for i, pr := range [][2]*c17side{{sa, sb}, {sb, sa}} {
			s, o := pr[0], pr[1]
			func() {
				defer func() {
					if r := recover(); r != nil {
						c.pf("complete %s => panic", s.name)
					}
				}()
				tx, bal, err := s.ch.CompleteCooperativeClose(
					s.sig, o.sig, s.local, s.remote,
					btcutil.Amount(p.fee), s.opts...,
				)
				if err != nil {
					c.pf("complete %s => err %s", s.name,
						c17err(err))
					return
				}
				done[i] = tx
				c.pf("complete %s => ok bal=%d closed=%d engine=%s "+
					"wit=%d %s", s.name, int64(bal),
					c17b(s.ch.isClosed), c17engine(o.ch, tx),
					len(tx.TxIn[0].Witness), c17tx(tx))
			}()
		}
		if done[0] != nil && done[1] != nil {
			c.pf("completeq => %d", c17b(bytes.Equal(c17ser(done[0]),
				c17ser(done[1]))))
		}
		// A signature for a different fee must not complete the close
		// (musig2 sessions are single-use, so only for ECDSA channels).
		if c.rng.Intn(4) == 0 && !ct.IsTaproot() {
			a.isClosed = false
			func() {
				defer func() {
					if r := recover(); r != nil {
						c.pf("crossfee A => panic")
					}
				}()
				_, _, err := a.CompleteCooperativeClose(
					sa.sig, sb.sig, sa.local, sa.remote,
					btcutil.Amount(p.fee+1), sa.opts...,
				)
				// what the real code builds for fee+1, so that the
				// monitor can compare trace against trace
				a.isClosed = false
				alt := ""
				_, atx, _, aerr := a.CreateCloseProposal(
					btcutil.Amount(p.fee+1), sa.local, sa.remote,
					sa.opts...,
				)
				if aerr != nil {
					alt = "err-" + c17err(aerr)
				} else {
					alt = strings.ReplaceAll(strings.ReplaceAll(
						c17tx(atx), " ", ";"), "=", "~")
				}
				c.pf("crossfee A => %s alt=%s", c17err(err), alt)
			}()
		}
	}
	a.isClosed, b.isClosed = false, false
	c.pf("END")
}

// force puts both channel states into the mirrored HTLC-free state described
// by the arguments.
func c17force(a, b *LightningChannel, aInit bool, aMsat, bMsat uint64,
	commitFee, dustA, dustB int64) {

	sa, sb := a.channelState, b.channelState
	sa.IsInitiator, sb.IsInitiator = aInit, !aInit
	sa.LocalCommitment.LocalBalance = lnwire.MilliSatoshi(aMsat)
	sa.LocalCommitment.RemoteBalance = lnwire.MilliSatoshi(bMsat)
	sb.LocalCommitment.LocalBalance = lnwire.MilliSatoshi(bMsat)
	sb.LocalCommitment.RemoteBalance = lnwire.MilliSatoshi(aMsat)
	sa.LocalCommitment.CommitFee = btcutil.Amount(commitFee)
	sb.LocalCommitment.CommitFee = btcutil.Amount(commitFee)
	sa.LocalChanCfg.DustLimit = btcutil.Amount(dustA)
	sa.RemoteChanCfg.DustLimit = btcutil.Amount(dustB)
	sb.LocalChanCfg.DustLimit = btcutil.Amount(dustB)
	sb.RemoteChanCfg.DustLimit = btcutil.Amount(dustA)
}

func (c *c17) mode() string {
	switch c.rng.Intn(4) {
	case 0:
		return "rbfA"
	case 1:
		return "rbfB"
	default:
		return "legacy"
	}
}

func (c *c17) dust() int64 {
	return []int64{200, 1300, 354, 546, 330, 294, 1}[c.rng.Intn(7)]
}

// payment moves amt msat from src to dst through the real state machine.
func c17pay(src, dst *LightningChannel, id int, amt lnwire.MilliSatoshi) error {
	htlc, preimage := createHTLC(id, amt)
	idx, err := src.AddHTLC(htlc, nil)
	if err != nil {
		return err
	}
	htlc.ID = idx
	ridx, err := dst.ReceiveHTLC(htlc)
	if err != nil {
		return err
	}
	if err := ForceStateTransition(src, dst); err != nil {
		return err
	}
	if err := dst.SettleHTLC(preimage, ridx, nil, nil, nil); err != nil {
		return err
	}
	if err := src.ReceiveHTLCSettle(preimage, idx); err != nil {
		return err
	}
	return ForceStateTransition(dst, src)
}

func TestVerifC17(t *testing.T) {
	out := os.Getenv("VERIF_OUT")
	if out == "" {
		t.Skip("VERIF_OUT not set")
	}
	seed, _ := strconv.ParseInt(os.Getenv("VERIF_SEED"), 10, 64)
	thorough := os.Getenv("VERIF_TIER") == "thorough"
	f, err := os.Create(out)
	if err != nil {
		t.Fatal(err)
	}
	defer f.Close()
	c := &c17{
		w:   bufio.NewWriterSize(f, 1<<20),
		rng: rand.New(rand.NewSource(seed)),
		t:   t,
	}
	defer c.w.Flush()

	c.pf("FACT anchorSize=%d maxRBFSequence=%d defaultSequence=%d "+
		"maxSatoshi=%d", int64(AnchorSize), uint32(mempool.MaxRBFSequence),
		uint32(wire.MaxTxInSequenceNum), int64(btcutil.MaxSatoshi))

	mult := 1
	if thorough {
		mult = 10
	}

	c.gridCCB(1500 * mult)
	c.gridCCTx(1500 * mult)

	anchor := channeldb.AnchorOutputsBit | channeldb.ZeroHtlcTxFeeBit |
		channeldb.SingleFunderTweaklessBit
	types := []struct {
		name string
		ct   channeldb.ChannelType
	}{
		{"legacy", channeldb.SingleFunderBit},
		{"tweakless", channeldb.SingleFunderTweaklessBit},
		{"anchors", anchor},
		{"lease", anchor | channeldb.LeaseExpirationBit},
		{"taproot", anchor | channeldb.SimpleTaprootFeatureBit},
		{"taproot-root", anchor | channeldb.SimpleTaprootFeatureBit |
			channeldb.TapscriptRootBit},
		{"taproot-final", anchor | channeldb.SimpleTaprootFeatureBit |
			channeldb.TaprootFinalBit},
	}

	for _, ty := range types {
		a, b, err := CreateTestChannels(t, ty.ct)
		if err != nil {
			t.Fatalf("CreateTestChannels(%s): %v", ty.name, err)
		}
		capSat := int64(a.channelState.Capacity)
		anchors := int64(0)
		if ty.ct.HasAnchors() {
			anchors = 2 * int64(AnchorSize)
		}

		// (a) states reached through the real state machine: a few
		// payments with sub-satoshi amounts in both directions, a close
		// attempt after each.
		nPay := 3 * mult
		for i := 0; i < nPay; i++ {
			amt := lnwire.MilliSatoshi(1_000_000 + c.rng.Int63n(3_000_000_000))
			src, dst := a, b
			if c.rng.Intn(2) == 0 {
				src, dst = b, a
			}
			if err := c17pay(src, dst, i, amt); err != nil {
				t.Fatalf("payment %s/%d: %v", ty.name, i, err)
			}
			sA, sB := c.scriptPair()
			cf := int64(a.channelState.LocalCommitment.CommitFee)
			c.closeCase(a, b, c17params{
				tname: ty.name, mode: c.mode(), reached: "payments",
				fee: c.around(0, 1000, cf, 20000), sA: sA, sB: sB,
				lock: c.rng.Uint32(),
			})
		}

		// (a') HTLC-free but NOT clean: the opener (Alice) sends
		// update_fee and the commitment dance stops at each intermediate
		// step. The two local commitments then differ (fee rate, commit
		// fee, opener balance). Production only negotiates a close on a
		// clean channel; these cases document what would happen otherwise
		// (diagnostic, see driver).
		{
			fa, fb, err := CreateTestChannels(t, ty.ct)
			if err != nil {
				t.Fatalf("CreateTestChannels(%s): %v", ty.name, err)
			}
			newFee := chainfee.SatPerKWeight(
				int64(fa.channelState.LocalCommitment.FeePerKw) +
					500 + int64(c.rng.Intn(3000)),
			)
			step := 0
			try := func(name string) {
				sA, sB := c.scriptPair()
				c.closeCase(fa, fb, c17params{
					tname: ty.name, mode: "legacy",
					reached: fmt.Sprintf("feeupdate-%d-%s", step, name),
					fee: 1000, sA: sA, sB: sB,
				})
				step++
			}
			func() {
				defer func() {
					if r := recover(); r != nil {
						t.Logf("feeupdate flow panic: %v", r)
					}
				}()
				if err := fa.UpdateFee(newFee); err != nil {
					t.Logf("UpdateFee: %v", err)
					return
				}
				if err := fb.ReceiveUpdateFee(newFee); err != nil {
					t.Logf("ReceiveUpdateFee: %v", err)
					return
				}
				try("update-sent")
				aSigs, err := fa.SignNextCommitment(ctxb)
				if err != nil {
					return
				}
				if err := fb.ReceiveNewCommitment(aSigs.CommitSigs); err != nil {
					return
				}
				try("commit-received")
				bRev, _, _, err := fb.RevokeCurrentCommitment()
				if err != nil {
					return
				}
				try("bob-revoked")
				bSigs, err := fb.SignNextCommitment(ctxb)
				if err != nil {
					return
				}
				if _, _, err := fa.ReceiveRevocation(bRev); err != nil {
					return
				}
				if err := fa.ReceiveNewCommitment(bSigs.CommitSigs); err != nil {
					return
				}
				try("alice-commit-received")
				aRev, _, _, err := fa.RevokeCurrentCommitment()
				if err != nil {
					return
				}
				try("alice-revoked")
				if _, _, err := fb.ReceiveRevocation(aRev); err != nil {
					return
				}
				try("clean")
			}()
		}

		// (b) forced HTLC-free states on a boundary grid.
		nForced := 70 * mult
		for i := 0; i < nForced; i++ {
			aInit := c.rng.Intn(2) == 0
			commitFee := c.around(0, 9050, 1000)
			if commitFee < 0 {
				commitFee = -commitFee
			}
			dustA, dustB := c.dust(), c.dust()
			if c.rng.Intn(3) == 0 {
				dustA, dustB = 200, 1300
			}
			fee := c.around(0, 1, 500, 5000, commitFee+anchors)
			if fee < 0 && c.rng.Intn(20) != 0 {
				fee = -fee
			}
			totalSat := capSat - commitFee - anchors
			// the opener's balance (sat) near the interesting points
			// *after* the commit fee and anchors are credited back
			var initSat int64
			delta := commitFee + anchors
			dI, dO := dustA, dustB
			if !aInit {
				dI, dO = dustB, dustA
			}
			switch c.rng.Intn(6) {
			case 0, 1: // opener near fee / fee+dust (cannot pay, or pays and becomes dust)
				initSat = c.around(fee, fee+dI, fee+dO) - delta
			case 2: // non-opener near its dust limit / near the other's
				initSat = totalSat - c.around(0, dO, dI, fee, fee+dO)
			case 3:
				initSat = c.around(0, dI, dO)
			case 4: // both below dust is impossible with 10 BTC; near total
				initSat = totalSat - c.around(0, 1, 200)
			default:
				initSat = c.rng.Int63n(totalSat + 1)
			}
			if initSat < 0 {
				initSat = 0
			}
			if initSat > totalSat {
				initSat = totalSat
			}
			// sub-satoshi remainders
			rem := uint64(c.rng.Intn(1000))
			if c.rng.Intn(3) == 0 {
				rem = []uint64{0, 1, 999, 500}[c.rng.Intn(4)]
			}
			totalMsat := uint64(totalSat) * 1000
			initMsat := uint64(initSat)*1000 + rem
			if initMsat > totalMsat {
				initMsat = totalMsat
			}
			otherMsat := totalMsat - initMsat
			if c.rng.Intn(8) == 0 {
				// both sides tiny (balances do not add up to the
				// capacity; only the <= clause applies)
				is := c.around(0, dI, fee, fee+dI) - delta
				if is < 0 {
					is = 0
				}
				os := c.around(0, dO, dO/2)
				if os < 0 {
					os = 0
				}
				initMsat = uint64(is)*1000 + rem
				otherMsat = uint64(os)*1000 + uint64(c.rng.Intn(1000))
			}
			aMsat, bMsat := initMsat, otherMsat
			if !aInit {
				aMsat, bMsat = otherMsat, initMsat
			}
			c17force(a, b, aInit, aMsat, bMsat, commitFee, dustA, dustB)
			sA, sB := c.scriptPair()
			c.closeCase(a, b, c17params{
				tname: ty.name, mode: c.mode(), reached: "forced",
				fee: fee, sA: sA, sB: sB, lock: c.rng.Uint32(),
			})
		}
	}
}
