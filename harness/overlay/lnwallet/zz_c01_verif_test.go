//go:build verif

package lnwallet

// C01 correspondence/monitor harness (also the shared two-party harness for
// C02/C03).  Injected with `go test -overlay`; drives a pair of real
// LightningChannel state machines (real keys, real signatures, real bbolt
// channeldb) through random schedules and prints one canonical line per
// operation plus a canonical state dump for the Lean driver (drv_c01).
//
// Reusable parts (for a second overlay file in this package):
//   c01Params / c01GenParams     channel-pair configuration
//   c01NewPair                   parameterised CreateTestChannels
//   (*c01Pair).Do / .Deliver     schedule executor with the two FIFO queues
//   (*c01Pair).DumpNode          canonical state dump
//   c01ErrClass                  error -> small enum
//   (*c01Sched)                  random schedule generator

import (
	"bufio"
	"bytes"
	"crypto/sha256"
	"encoding/binary"
	"encoding/hex"
	"errors"
	"fmt"
	"math/rand"
	"net"
	"os"
	"sort"
	"strconv"
	"strings"
	"testing"

	"github.com/btcsuite/btcd/btcec/v2"
	"github.com/btcsuite/btcd/btcutil/v2"
	"github.com/btcsuite/btcd/chainhash/v2"
	"github.com/btcsuite/btcd/txscript/v2"
	"github.com/btcsuite/btcd/wire/v2"
	"github.com/lightningnetwork/lnd/channeldb"
	"github.com/lightningnetwork/lnd/chanstate"
	"github.com/lightningnetwork/lnd/fn/v2"
	"github.com/lightningnetwork/lnd/input"
	"github.com/lightningnetwork/lnd/keychain"
	"github.com/lightningnetwork/lnd/lntypes"
	"github.com/lightningnetwork/lnd/lnwallet/chainfee"
	"github.com/lightningnetwork/lnd/lnwire"
	"github.com/lightningnetwork/lnd/shachain"
	"github.com/lightningnetwork/lnd/tlv"
)

// ---------------------------------------------------------------------------
// configuration
// ---------------------------------------------------------------------------

type c01Params struct {
	Name      string
	ChanType  channeldb.ChannelType
	Capacity  btcutil.Amount
	OpenerA   bool
	OpenerPct int64 // share of the capacity initially owned by the opener
	FeePerKw  chainfee.SatPerKWeight
	Dust      [2]btcutil.Amount
	Reserve   [2]btcutil.Amount
	MinHTLC   [2]lnwire.MilliSatoshi
	MaxPend   [2]lnwire.MilliSatoshi
	MaxAcc    [2]uint16
}

type c01ChanKind struct {
	name string
	ct   channeldb.ChannelType
}

var c01ChanKinds = []c01ChanKind{
	{"legacy", channeldb.SingleFunderBit},
	{"tweakless", channeldb.SingleFunderTweaklessBit},
	{"anchors", channeldb.SingleFunderTweaklessBit | channeldb.AnchorOutputsBit},
	{"zerofee", channeldb.SingleFunderTweaklessBit | channeldb.AnchorOutputsBit |
		channeldb.ZeroHtlcTxFeeBit},
	{"lease", channeldb.SingleFunderTweaklessBit | channeldb.AnchorOutputsBit |
		channeldb.ZeroHtlcTxFeeBit | channeldb.LeaseExpirationBit},
	{"taproot", channeldb.SingleFunderTweaklessBit | channeldb.AnchorOutputsBit |
		channeldb.ZeroHtlcTxFeeBit | channeldb.SimpleTaprootFeatureBit},
	{"taprootfinal", channeldb.SingleFunderTweaklessBit | channeldb.AnchorOutputsBit |
		channeldb.ZeroHtlcTxFeeBit | channeldb.SimpleTaprootFeatureBit |
		channeldb.TaprootFinalBit},
	// the shape the package's own fixture uses for taproot (no anchor bit)
	{"taprootbare", channeldb.SimpleTaprootFeatureBit},
}

func c01Pick[T any](r *rand.Rand, xs ...T) T { return xs[r.Intn(len(xs))] }

// c01GenParams draws a channel configuration.  Reserves are never below the
// larger dust limit (BOLT 2), the opener can always pay the initial fee.
func c01GenParams(r *rand.Rand, kind c01ChanKind) c01Params {
	for {
		p := c01Params{Name: kind.name, ChanType: kind.ct}
		p.Capacity = c01Pick(r, btcutil.Amount(100_000), 400_000, 1_000_000,
			10_000_000, 16_777_215, 1_000_000_000)
		p.OpenerA = r.Intn(2) == 0
		p.OpenerPct = c01Pick(r, int64(100), 50, 50, 90, 10, 99, 70, 30)
		p.FeePerKw = c01Pick(r, chainfee.SatPerKWeight(253), 254, 500, 1000,
			2500, 6000, 12500, 50000)
		for i := 0; i < 2; i++ {
			p.Dust[i] = c01Pick(r, btcutil.Amount(200), 330, 354, 546, 573,
				1300, 3000)
		}
		maxDust := p.Dust[0]
		if p.Dust[1] > maxDust {
			maxDust = p.Dust[1]
		}
		for i := 0; i < 2; i++ {
			p.Reserve[i] = c01Pick(r, p.Capacity/100, p.Capacity/100,
				maxDust, p.Capacity/10, p.Capacity/1000)
			if p.Reserve[i] < maxDust {
				p.Reserve[i] = maxDust
			}
			p.MinHTLC[i] = c01Pick(r, lnwire.MilliSatoshi(0), 0, 1, 1000, 5000)
			p.MaxPend[i] = c01Pick(r,
				lnwire.NewMSatFromSatoshis(p.Capacity),
				lnwire.NewMSatFromSatoshis(p.Capacity),
				lnwire.NewMSatFromSatoshis(p.Capacity/10),
				lnwire.NewMSatFromSatoshis(p.Capacity/3))
			p.MaxAcc[i] = c01Pick(r, uint16(input.MaxHTLCNumber/2),
				uint16(input.MaxHTLCNumber/2), 3, 6, 10)
		}
		fee := p.FeePerKw.FeeForWeight(CommitWeight(p.ChanType))
		var anchors btcutil.Amount
		if p.ChanType.HasAnchors() {
			anchors = 2 * AnchorSize
		}
		openerBal := p.Capacity * btcutil.Amount(p.OpenerPct) / 100
		o := 1
		if p.OpenerA {
			o = 0
		}
		// the opener must be able to pay the fee and stay above its reserve
		if openerBal < fee+anchors+p.Reserve[o]+1000 {
			continue
		}
		return p
	}
}

// ---------------------------------------------------------------------------
// channel pair
// ---------------------------------------------------------------------------

type c01Msg struct {
	kind     string // add | settle | fail | fee | commitsig | revoke
	add      *lnwire.UpdateAddHTLC
	idx      uint64
	preimage [32]byte
	fee      chainfee.SatPerKWeight
	sigs     *CommitSigs
	rev      *lnwire.RevokeAndAck
}

type c01Pair struct {
	P  c01Params
	Ch [2]*LightningChannel
	Q  [2][]c01Msg // Q[0]: A->B, Q[1]: B->A (head = oldest)

	hashID   map[[32]byte]int
	preimage map[int][32]byte
	nextHash int
}

func c01Keys(seed []byte) []*btcec.PrivateKey {
	var keys []*btcec.PrivateKey
	for i := 0; i < 5; i++ {
		key := make([]byte, len(seed))
		copy(key, seed)
		key[0] ^= byte(i + 1)
		k, _ := btcec.PrivKeyFromBytes(key)
		keys = append(keys, k)
	}
	return keys
}

func c01ChanCfg(p c01Params, i int, keys []*btcec.PrivateKey, csv uint16) channeldb.ChannelConfig {
	return channeldb.ChannelConfig{
		ChannelStateBounds: channeldb.ChannelStateBounds{
			MaxPendingAmount: p.MaxPend[i],
			ChanReserve:      p.Reserve[i],
			MinHTLC:          p.MinHTLC[i],
			MaxAcceptedHtlcs: p.MaxAcc[i],
		},
		CommitmentParams: channeldb.CommitmentParams{
			DustLimit: p.Dust[i],
			CsvDelay:  csv,
		},
		MultiSigKey:         keychain.KeyDescriptor{PubKey: keys[0].PubKey()},
		RevocationBasePoint: keychain.KeyDescriptor{PubKey: keys[1].PubKey()},
		PaymentBasePoint:    keychain.KeyDescriptor{PubKey: keys[2].PubKey()},
		DelayBasePoint:      keychain.KeyDescriptor{PubKey: keys[3].PubKey()},
		HtlcBasePoint:       keychain.KeyDescriptor{PubKey: keys[4].PubKey()},
	}
}

// c01NewPair is CreateTestChannels with every constant turned into a
// parameter (capacity, split, opener, dust limits, reserves, bounds, fee rate,
// channel type).  No aux leaf store / aux signer is attached.
func c01NewPair(t *testing.T, p c01Params, outpointIdx uint32) (*c01Pair, error) {
	prevOut := &wire.OutPoint{Hash: chainhash.Hash(testHdSeed), Index: outpointIdx}
	fundingTxIn := wire.NewTxIn(prevOut, nil, nil)

	keys := [2][]*btcec.PrivateKey{c01Keys(testWalletPrivKey), c01Keys(bobsPrivKey)}
	cfgs := [2]channeldb.ChannelConfig{
		c01ChanCfg(p, 0, keys[0], 5), c01ChanCfg(p, 1, keys[1], 4),
	}

	var (
		producers [2]*shachain.RevocationProducer
		points    [2]*btcec.PublicKey
	)
	for i := 0; i < 2; i++ {
		root, err := chainhash.NewHash(keys[i][0].Serialize())
		if err != nil {
			return nil, err
		}
		producers[i] = shachain.NewRevocationProducer(*root)
		first, err := producers[i].AtIndex(0)
		if err != nil {
			return nil, err
		}
		points[i] = input.ComputeCommitmentPoint(first[:])
	}

	commitFee := p.FeePerKw.FeeForWeight(CommitWeight(p.ChanType))
	var anchorAmt btcutil.Amount
	if p.ChanType.HasAnchors() {
		anchorAmt = 2 * AnchorSize
	}
	openerTotal := p.Capacity * btcutil.Amount(p.OpenerPct) / 100
	var bal [2]btcutil.Amount
	o := 1
	if p.OpenerA {
		o = 0
	}
	bal[o] = openerTotal - commitFee - anchorAmt
	bal[1-o] = p.Capacity - openerTotal

	var leaseExpiry uint32
	if p.ChanType.HasLeaseExpiration() {
		leaseExpiry = 1000
	}

	aliceCommitTx, bobCommitTx, err := CreateCommitmentTxns(
		bal[0], bal[1], &cfgs[0], &cfgs[1], points[0], points[1],
		*fundingTxIn, p.ChanType, p.OpenerA, leaseExpiry,
	)
	if err != nil {
		return nil, err
	}
	txs := [2]*wire.MsgTx{aliceCommitTx, bobCommitTx}

	var shortIDBytes [8]byte
	binary.BigEndian.PutUint64(shortIDBytes[:], uint64(outpointIdx)+1)
	shortChanID := lnwire.NewShortChanIDFromInt(
		binary.BigEndian.Uint64(shortIDBytes[:]),
	)

	pair := &c01Pair{
		P: p, hashID: map[[32]byte]int{}, preimage: map[int][32]byte{},
	}
	var states [2]*chanstate.OpenChannel
	for i := 0; i < 2; i++ {
		j := 1 - i
		mkCommit := func(tx *wire.MsgTx) channeldb.ChannelCommitment {
			return channeldb.ChannelCommitment{
				CommitHeight:  0,
				LocalBalance:  lnwire.NewMSatFromSatoshis(bal[i]),
				RemoteBalance: lnwire.NewMSatFromSatoshis(bal[j]),
				CommitFee:     commitFee,
				FeePerKw:      btcutil.Amount(p.FeePerKw),
				CommitTx:      tx,
				CommitSig:     testSigBytes,
			}
		}
		db := channeldb.OpenForTesting(t, t.TempDir())
		states[i] = &chanstate.OpenChannel{
			LocalChanCfg:            cfgs[i],
			RemoteChanCfg:           cfgs[j],
			IdentityPub:             keys[i][0].PubKey(),
			FundingOutpoint:         *prevOut,
			ShortChannelID:          shortChanID,
			ChanType:                p.ChanType,
			IsInitiator:             (i == 0) == p.OpenerA,
			Capacity:                p.Capacity,
			RemoteCurrentRevocation: points[j],
			RevocationProducer:      producers[i],
			RevocationStore:         shachain.NewRevocationStore(),
			LocalCommitment:         mkCommit(txs[i]),
			RemoteCommitment:        mkCommit(txs[j]),
			Db:                      db.ChannelStateDB(),
			FundingTxn:              testTx,
			ThawHeight:              leaseExpiry,
		}
	}

	for i := 0; i < 2; i++ {
		signer := input.NewMockSigner(keys[i], nil)
		pool := NewSigPool(1, signer)
		ch, err := NewLightningChannel(signer, states[i], pool)
		if err != nil {
			return nil, err
		}
		if err := pool.Start(); err != nil {
			return nil, err
		}
		t.Cleanup(func() { _ = pool.Stop() })
		pair.Ch[i] = ch
	}

	obfuscator := createStateHintObfuscator(states[0])
	for i := 0; i < 2; i++ {
		if err := SetStateNumHint(txs[i], 0, obfuscator); err != nil {
			return nil, err
		}
	}
	for i := 0; i < 2; i++ {
		addr := &net.TCPAddr{IP: net.ParseIP("127.0.0.1"), Port: 18555 + i}
		if err := pair.Ch[i].channelState.SyncPending(addr, 101); err != nil {
			return nil, err
		}
	}
	if err := initRevocationWindows(pair.Ch[0], pair.Ch[1]); err != nil {
		return nil, err
	}
	return pair, nil
}

// ---------------------------------------------------------------------------
// error classes
// ---------------------------------------------------------------------------

func c01ErrClass(err error) string {
	if err == nil {
		return "ok"
	}
	var (
		unk   ErrUnknownHtlcIndex
		dupS  ErrHtlcIndexAlreadySettled
		dupF  ErrHtlcIndexAlreadyFailed
		badP  ErrInvalidSettlePreimage
		sigE  *InvalidCommitSigError
		hsigE *InvalidHtlcSigError
		psigE *InvalidPartialCommitSigError
	)
	switch {
	case errors.Is(err, ErrNoWindow):
		return "noWindow"
	case errors.Is(err, ErrBelowChanReserve):
		return "belowReserve"
	case errors.Is(err, ErrInvalidHTLCAmt):
		return "invalidAmt"
	case errors.Is(err, ErrBelowMinHTLC):
		return "belowMin"
	case errors.Is(err, ErrMaxPendingAmount):
		return "maxPending"
	case errors.Is(err, ErrMaxHTLCNumber):
		return "maxHtlcs"
	case errors.Is(err, ErrFeeBufferNotInitiator):
		return "feeBufNotInit"
	case errors.As(err, &unk):
		return "unknownHtlc"
	case errors.As(err, &dupS), errors.As(err, &dupF):
		return "dupMod"
	case errors.As(err, &badP):
		return "badPreimage"
	case errors.As(err, &psigE), errors.As(err, &sigE), errors.As(err, &hsigE):
		return "invalidSig"
	}
	s := err.Error()
	switch {
	case strings.Contains(s, "below fee floor"):
		return "feeFloor"
	case strings.Contains(s, "unable to find parent entry"),
		strings.Contains(s, "parent entry"):
		return "parent"
	case strings.Contains(s, "does not match expected next ID"):
		return "badId"
	case strings.Contains(s, "local fee update as non-initiator"):
		return "notInitiator"
	case strings.Contains(s, "received fee update as initiator"):
		return "feeAsInitiator"
	case strings.Contains(s, "cannot apply fee_update"):
		return "feeUnaffordable"
	case strings.Contains(s, "attempts to consume"):
		return "overCapacity"
	case strings.Contains(s, "transaction has no outputs"):
		return "txSanity"
	case strings.Contains(s, "attempts to create commitment with feerate"):
		return "lowEffFee"
	}
	f := strings.Fields(s)
	if len(f) > 4 {
		f = f[:4]
	}
	return "other:" + strings.Join(f, "_")
}

// ---------------------------------------------------------------------------
// executor
// ---------------------------------------------------------------------------

type c01Act struct {
	Kind     string // add settle fail malformed fee sign revoke | misuse: settlebad rawrecv
	Amt      lnwire.MilliSatoshi
	Expiry   uint32
	HashID   int
	Idx      uint64
	FeePerKw chainfee.SatPerKWeight
}

func (p *c01Pair) newHash() int {
	id := p.nextHash
	p.nextHash++
	var pre [32]byte
	binary.BigEndian.PutUint64(pre[:8], uint64(id)+1)
	copy(pre[8:], "c01-verif-preimage")
	p.preimage[id] = pre
	p.hashID[sha256.Sum256(pre[:])] = id
	return id
}

func (p *c01Pair) hashOf(id int) [32]byte {
	pre := p.preimage[id]
	return sha256.Sum256(pre[:])
}

func c01Recover(res *string) {
	if r := recover(); r != nil {
		*res = "panic"
	}
}

// Do executes a local action on node x (0 = A, 1 = B).  On success the wire
// message is appended to the queue towards the peer.  Returns the error class
// and an extra `k=v` result string.
func (p *c01Pair) Do(x int, a c01Act) (res string, extra string) {
	ch := p.Ch[x]
	defer c01Recover(&res)
	switch a.Kind {
	case "add":
		htlc := &lnwire.UpdateAddHTLC{
			PaymentHash: p.hashOf(a.HashID),
			Amount:      a.Amt,
			Expiry:      a.Expiry,
		}
		idx, err := ch.AddHTLC(htlc, nil)
		if err == nil {
			htlc.ID = idx
			p.Q[x] = append(p.Q[x], c01Msg{kind: "add", add: htlc})
			extra = fmt.Sprintf("idx=%d", idx)
		}
		return c01ErrClass(err), extra

	case "settle", "settlebad":
		pre := [32]byte{}
		if a.Kind == "settle" {
			if pd := ch.updateLogs.Remote.lookupHtlc(a.Idx); pd != nil {
				pre = p.preimage[p.hashID[pd.RHash]]
			}
		}
		err := ch.SettleHTLC(pre, a.Idx, nil, nil, nil)
		if err == nil {
			p.Q[x] = append(p.Q[x], c01Msg{kind: "settle", idx: a.Idx, preimage: pre})
		}
		return c01ErrClass(err), ""

	case "fail":
		err := ch.FailHTLC(a.Idx, []byte("c01"), nil, nil, nil)
		if err == nil {
			p.Q[x] = append(p.Q[x], c01Msg{kind: "fail", idx: a.Idx})
		}
		return c01ErrClass(err), ""

	case "malformed":
		err := ch.MalformedFailHTLC(
			a.Idx, lnwire.CodeInvalidOnionKey, [32]byte{1}, nil,
		)
		if err == nil {
			p.Q[x] = append(p.Q[x], c01Msg{kind: "fail", idx: a.Idx})
		}
		return c01ErrClass(err), ""

	case "fee":
		err := ch.UpdateFee(a.FeePerKw)
		if err == nil {
			p.Q[x] = append(p.Q[x], c01Msg{kind: "fee", fee: a.FeePerKw})
		}
		return c01ErrClass(err), ""

	case "sign":
		st, err := ch.SignNextCommitment(ctxb)
		if err == nil {
			p.Q[x] = append(p.Q[x], c01Msg{kind: "commitsig", sigs: st.CommitSigs})
		}
		return c01ErrClass(err), ""

	case "revoke":
		rev, _, _, err := ch.RevokeCurrentCommitment()
		if err == nil {
			p.Q[x] = append(p.Q[x], c01Msg{kind: "revoke", rev: rev})
		}
		return c01ErrClass(err), ""

	case "rawrecv":
		// a malformed update_add (wrong id) handed straight to the API
		htlc := &lnwire.UpdateAddHTLC{
			ID: a.Idx, PaymentHash: p.hashOf(a.HashID), Amount: a.Amt,
			Expiry: a.Expiry,
		}
		_, err := ch.ReceiveHTLC(htlc)
		return c01ErrClass(err), ""
	}
	return "badop", ""
}

// Deliver hands the oldest undelivered message of direction d (0: A->B,
// 1: B->A) to the receiving node.
func (p *c01Pair) Deliver(d int) (kind string, res string) {
	if len(p.Q[d]) == 0 {
		return "none", "empty"
	}
	m := p.Q[d][0]
	p.Q[d] = p.Q[d][1:]
	ch := p.Ch[1-d]
	kind = m.kind
	defer c01Recover(&res)
	var err error
	switch m.kind {
	case "add":
		cp := *m.add
		_, err = ch.ReceiveHTLC(&cp)
	case "settle":
		err = ch.ReceiveHTLCSettle(m.preimage, m.idx)
	case "fail":
		err = ch.ReceiveFailHTLC(m.idx, []byte("c01"))
	case "fee":
		err = ch.ReceiveUpdateFee(m.fee)
	case "commitsig":
		err = ch.ReceiveNewCommitment(m.sigs)
	case "revoke":
		_, _, err = ch.ReceiveRevocation(m.rev)
	}
	return kind, c01ErrClass(err)
}

// c01TamperSigs returns a copy of the signature set with one signature made
// invalid but still well-formed: an HTLC signature if htlc is set and there is
// one, else the commitment signature (the MuSig2 partial signature on taproot
// channels).
func c01TamperSigs(in *CommitSigs, htlc bool) *CommitSigs {
	out := *in
	out.HtlcSigs = append([]lnwire.Sig(nil), in.HtlcSigs...)
	flip := func(sg lnwire.Sig) lnwire.Sig {
		cp := sg.Copy()
		cp.RawBytes()[47] ^= 0x01 // inside S
		return cp
	}
	if htlc && len(out.HtlcSigs) > 0 {
		out.HtlcSigs[0] = flip(out.HtlcSigs[0])
		return &out
	}
	if ps, err := in.PartialSig.UnwrapOrErrV(errNoPartialSig); err == nil {
		var one btcec.ModNScalar
		one.SetInt(1)
		bad := ps
		bad.Sig.Add(&one)
		out.PartialSig = lnwire.MaybePartialSigWithNonce(&bad)
		return &out
	}
	out.CommitSig = flip(in.CommitSig)
	return &out
}

// DeliverTampered pops the oldest message of direction d, which must be a
// commitment_signed, corrupts one of its signatures and hands it to the
// receiver.  The link would fail the channel on the answer.
func (p *c01Pair) DeliverTampered(d int, htlc bool) (res string) {
	m := p.Q[d][0]
	p.Q[d] = p.Q[d][1:]
	defer c01Recover(&res)
	err := p.Ch[1-d].ReceiveNewCommitment(c01TamperSigs(m.sigs, htlc))
	return c01ErrClass(err)
}

// ---------------------------------------------------------------------------
// canonical state dump
// ---------------------------------------------------------------------------

func c01TyName(t updateType) string {
	switch t {
	case Add:
		return "add"
	case Settle:
		return "settle"
	case Fail:
		return "fail"
	case MalformedFail:
		return "malformed"
	case FeeUpdate:
		return "fee"
	}
	return "other"
}

func (p *c01Pair) dumpLog(sb *strings.Builder, name string, side string, l *updateLog) {
	fmt.Fprintf(sb, "G %s %s", name, side)
	for e := l.Front(); e != nil; e = e.Next() {
		pd := e.Value
		ref := pd.ParentIndex
		hid := 0
		if pd.isAdd() {
			ref = pd.HtlcIndex
			hid = p.hashID[pd.RHash]
		}
		fmt.Fprintf(sb, " E:%s:%d:%d:%d:%d:%d:%d:%d:%d:%d", c01TyName(pd.EntryType),
			pd.LogIndex, ref, uint64(pd.Amount), pd.Timeout, hid,
			pd.addCommitHeights.Local, pd.addCommitHeights.Remote,
			pd.removeCommitHeights.Local, pd.removeCommitHeights.Remote)
	}
	sb.WriteString("\n")
}

func c01SortedSet(s fn.Set[uint64]) string {
	xs := s.ToSlice()
	sort.Slice(xs, func(i, j int) bool { return xs[i] < xs[j] })
	if len(xs) == 0 {
		return "-"
	}
	var parts []string
	for _, x := range xs {
		parts = append(parts, strconv.FormatUint(x, 10))
	}
	return strings.Join(parts, ";")
}

// scriptsFor returns the pkScripts (toLocal, toRemote, anchorLocal,
// anchorRemote; owner's perspective) of node x's commitment on chain `whose`
// at the given height, built with the production script constructors.
func (p *c01Pair) scriptsFor(x int, whose lntypes.ChannelParty, height uint64) [][]byte {
	ch := p.Ch[x]
	st := ch.channelState
	producer := st.RevocationProducer
	ownerCfg, otherCfg := &st.LocalChanCfg, &st.RemoteChanCfg
	initiator := st.IsInitiator
	if whose.IsRemote() {
		producer = p.Ch[1-x].channelState.RevocationProducer
		ownerCfg, otherCfg = otherCfg, ownerCfg
		initiator = !initiator
	}
	secret, err := producer.AtIndex(height)
	if err != nil {
		return nil
	}
	point := input.ComputeCommitmentPoint(secret[:])
	ring := DeriveCommitmentKeys(
		point, whose, st.ChanType, &st.LocalChanCfg, &st.RemoteChanCfg,
	)
	var lease uint32
	if st.ChanType.HasLeaseExpiration() {
		lease = st.ThawHeight
	}
	big := ownerCfg.DustLimit + 100_000
	tx, err := CreateCommitTx(
		st.ChanType, fundingTxIn(st), ring, ownerCfg, otherCfg, big, big,
		1, initiator, lease, fn.None[CommitAuxLeaves](),
	)
	if err != nil {
		return nil
	}
	var out [][]byte
	for _, o := range tx.TxOut {
		out = append(out, o.PkScript)
	}
	return out
}

func (p *c01Pair) dumpCommit(sb *strings.Builder, x int, name string,
	whose lntypes.ChannelParty, pos int, c *commitment) {

	side := "L"
	if whose.IsRemote() {
		side = "R"
	}
	fmt.Fprintf(sb, "C %s %s %d h=%d our=%d their=%d fee=%d fpk=%d mi=%d,%d hi=%d,%d |",
		name, side, pos, c.height, uint64(c.ourBalance), uint64(c.theirBalance),
		int64(c.fee), int64(c.feePerKw), c.messageIndices.Local,
		c.messageIndices.Remote, c.ourHtlcIndex, c.theirHtlcIndex)

	type hinfo struct {
		class string
		cltv  uint32
		hid   int
	}
	byOut := map[int32]hinfo{}
	var idxToks []string
	emit := func(hs []paymentDescriptor, incoming bool) {
		dir := "o"
		if incoming {
			dir = "i"
		}
		for i := range hs {
			h := &hs[i]
			oi := h.localOutputIndex
			if whose.IsRemote() {
				oi = h.remoteOutputIndex
			}
			dust := 0
			if oi < 0 {
				dust = 1
			} else {
				// offered by the owner of the commitment?
				offered := incoming == whose.IsRemote()
				cl := "hr"
				if offered {
					cl = "ho"
				}
				byOut[oi] = hinfo{cl, h.Timeout, p.hashID[h.RHash]}
			}
			fmt.Fprintf(sb, " H:%s:%d:%d:%d:%d:%d", dir, h.HtlcIndex,
				uint64(h.Amount), h.Timeout, p.hashID[h.RHash], dust)
			idxToks = append(idxToks, fmt.Sprintf(" I:%s:%d:%d", dir, h.HtlcIndex, oi))
		}
	}
	emit(c.outgoingHTLCs, false)
	emit(c.incomingHTLCs, true)
	// the recorded HTLC -> output index assignment (ignored by parsers that
	// only know H tokens)
	for _, t := range idxToks {
		sb.WriteString(t)
	}
	sb.WriteString(" |")

	if c.txn != nil {
		scripts := p.scriptsFor(x, whose, c.height)
		names := []string{"tl", "tr", "al", "ar"}
		for i, o := range c.txn.TxOut {
			class, cltv, hid := "unknown", uint32(0), 0
			if hi, ok := byOut[int32(i)]; ok {
				class, cltv, hid = hi.class, hi.cltv, hi.hid
			} else {
				for k, s := range scripts {
					if k < len(names) && bytes.Equal(s, o.PkScript) {
						class = names[k]
					}
				}
			}
			fmt.Fprintf(sb, " O:%d:%s:%d:%d:%s", o.Value, class, cltv, hid,
				hex.EncodeToString(o.PkScript))
		}
	}
	sb.WriteString("\n")
}

// DumpNode writes the canonical state of node x.
func (p *c01Pair) DumpNode(sb *strings.Builder, x int) {
	ch := p.Ch[x]
	name := string(rune('A' + x))
	b2i := func(b bool) int {
		if b {
			return 1
		}
		return 0
	}
	fmt.Fprintf(sb, "N %s ll=%d lc=%d rl=%d rc=%d owe=%d need=%d pend=%d,%d,%d,%d lmod=%s rmod=%s\n",
		name, ch.updateLogs.Local.logIndex, ch.updateLogs.Local.htlcCounter,
		ch.updateLogs.Remote.logIndex, ch.updateLogs.Remote.htlcCounter,
		b2i(ch.OweCommitment()), b2i(ch.NeedCommitment()),
		ch.NumPendingUpdates(lntypes.Local, lntypes.Local),
		ch.NumPendingUpdates(lntypes.Local, lntypes.Remote),
		ch.NumPendingUpdates(lntypes.Remote, lntypes.Local),
		ch.NumPendingUpdates(lntypes.Remote, lntypes.Remote),
		c01SortedSet(ch.updateLogs.Local.modifiedHtlcs),
		c01SortedSet(ch.updateLogs.Remote.modifiedHtlcs))
	p.dumpLog(sb, name, "L", ch.updateLogs.Local)
	p.dumpLog(sb, name, "R", ch.updateLogs.Remote)
	for _, whose := range []lntypes.ChannelParty{lntypes.Local, lntypes.Remote} {
		chain := ch.commitChains.GetForParty(whose)
		pos := 0
		for e := chain.commitments.Front(); e != nil; e = e.Next() {
			p.dumpCommit(sb, x, name, whose, pos, e.Value)
			pos++
		}
	}
}

// ---------------------------------------------------------------------------
// second-level HTLC transactions (C01 only; lines J and V)
// ---------------------------------------------------------------------------

// keyRingFor derives the key ring of the commitment at `height` on node x's
// chain `whose`, like SignNextCommitment / ReceiveNewCommitment do.
func (p *c01Pair) keyRingFor(x int, whose lntypes.ChannelParty, height uint64) (*CommitmentKeyRing, uint32, error) {
	st := p.Ch[x].channelState
	producer := st.RevocationProducer
	if whose.IsRemote() {
		producer = p.Ch[1-x].channelState.RevocationProducer
	}
	secret, err := producer.AtIndex(height)
	if err != nil {
		return nil, 0, err
	}
	point := input.ComputeCommitmentPoint(secret[:])
	ring := DeriveCommitmentKeys(
		point, whose, st.ChanType, &st.LocalChanCfg, &st.RemoteChanCfg,
	)
	var lease uint32
	if st.ChanType.HasLeaseExpiration() {
		lease = st.ThawHeight
	}
	return ring, lease, nil
}

func c01B2i(b bool) int {
	if b {
		return 1
	}
	return 0
}

// c01JobSigHash is the digest the signer's job signs.
func c01JobSigHash(job *SignJob, taproot bool) ([]byte, error) {
	sd := &job.SignDesc
	if taproot {
		return txscript.CalcTapscriptSignaturehash(
			sd.SigHashes, sd.HashType, job.Tx, 0, sd.PrevOutputFetcher,
			txscript.NewBaseTapLeaf(sd.WitnessScript),
		)
	}
	return txscript.CalcWitnessSigHash(
		sd.WitnessScript, sd.SigHashes, sd.HashType, job.Tx, 0,
		sd.Output.Value,
	)
}

// dumpSignJobs: node x has just signed its new remote commitment.  The jobs
// are what the production genRemoteHtlcSigJobs derives for that commitment
// (unsorted: incoming HTLCs first); for every job the position of the HTLC
// signature of commitment_signed that really signs it is found by verifying
// the signatures against the job's digest (-1: none does).
//   J X h= n=<number of htlc sigs> | T:<sigpos>:<jobOutputIndex>:<success>:<locktime>:<sequence>:
//       <outValue>:<prevValue>:<hashType>:<version>:<nIn>:<nOut>:<prevIndex>:<prevHashOk>:<digest>
func (p *c01Pair) dumpSignJobs(sb *strings.Builder, x int, sigs *CommitSigs) {
	ch := p.Ch[x]
	st := ch.channelState
	name := string(rune('A' + x))
	c := ch.commitChains.Remote.tip()
	res := "ok"
	defer func() {
		if r := recover(); r != nil {
			fmt.Fprintf(sb, "J %s h=%d n=%d err=panic |\n", name, c.height, len(sigs.HtlcSigs))
		}
	}()
	ring, lease, err := p.keyRingFor(x, lntypes.Remote, c.height)
	var jobs []SignJob
	var aux []AuxSigJob
	if err == nil {
		jobs, aux, _, err = genRemoteHtlcSigJobs(
			ring, st, lease, c, fn.None[AuxLeafStore](),
		)
	}
	if err != nil {
		res = "err"
	}
	var out strings.Builder
	taproot := st.ChanType.IsTaproot()
	txHash := c.txn.TxHash()
	for j := range jobs {
		job := &jobs[j]
		digest, err := c01JobSigHash(job, taproot)
		pos := -1
		if err == nil {
			for i := range sigs.HtlcSigs {
				sg := sigs.HtlcSigs[i]
				if taproot {
					sg.ForceSchnorr()
				}
				s, err := sg.ToSignature()
				if err == nil && s.Verify(digest, ring.LocalHtlcKey) {
					pos = i
					break
				}
			}
		}
		if len(digest) > 8 {
			digest = digest[:8]
		}
		op := job.Tx.TxIn[0].PreviousOutPoint
		fmt.Fprintf(&out, " T:%d:%d:%d:%d:%d:%d:%d:%d:%d:%d:%d:%d:%d:%s", pos, job.OutputIndex,
			c01B2i(!aux[j].Incoming), job.Tx.LockTime, job.Tx.TxIn[0].Sequence,
			job.Tx.TxOut[0].Value, job.SignDesc.Output.Value, uint32(job.SignDesc.HashType),
			job.Tx.Version, len(job.Tx.TxIn), len(job.Tx.TxOut), op.Index,
			c01B2i(op.Hash == txHash), hex.EncodeToString(digest))
	}
	fmt.Fprintf(sb, "J %s h=%d n=%d err=%s |%s\n", name, c.height, len(sigs.HtlcSigs), res, out.String())
}

// dumpVerifyJobs: node y has just accepted a commitment_signed.  K tokens:
// from the state, which signature of the message was stored with which HTLC
// of the new local commitment; Q tokens: the verification jobs the production
// genHtlcSigValidationJobs derives (job position = signature position).
//   V Y h= n= | K:<sigpos>:<o|i>:<htlcIndex>:<localOutputIndex> ... Q:<jobpos>:<htlcIndex>:<digest> ...
func (p *c01Pair) dumpVerifyJobs(sb *strings.Builder, y int, sigs *CommitSigs) {
	ch := p.Ch[y]
	st := ch.channelState
	name := string(rune('A' + y))
	c := ch.commitChains.Local.tip()
	defer func() {
		if r := recover(); r != nil {
			fmt.Fprintf(sb, "V %s h=%d n=%d err=panic |\n", name, c.height, len(sigs.HtlcSigs))
		}
	}()
	taproot := st.ChanType.IsTaproot()
	var wsigs [][]byte
	for i := range sigs.HtlcSigs {
		sg := sigs.HtlcSigs[i]
		if taproot {
			sg.ForceSchnorr()
		}
		s, err := sg.ToSignature()
		if err != nil {
			wsigs = append(wsigs, nil)
			continue
		}
		wsigs = append(wsigs, s.Serialize())
	}
	var out strings.Builder
	emit := func(hs []paymentDescriptor, dir string) {
		for i := range hs {
			h := &hs[i]
			if h.sig == nil {
				continue
			}
			pos := -1
			ser := h.sig.Serialize()
			for k, w := range wsigs {
				if w != nil && bytes.Equal(w, ser) {
					pos = k
					break
				}
			}
			fmt.Fprintf(&out, " K:%d:%s:%d:%d", pos, dir, h.HtlcIndex, h.localOutputIndex)
		}
	}
	emit(c.outgoingHTLCs, "o")
	emit(c.incomingHTLCs, "i")
	res := "ok"
	ring, lease, err := p.keyRingFor(y, lntypes.Local, c.height)
	if err == nil {
		cp := append([]lnwire.Sig(nil), sigs.HtlcSigs...)
		var vjobs []VerifyJob
		vjobs, _, err = genHtlcSigValidationJobs(
			st, c, ring, cp, lease, fn.None[AuxLeafStore](),
			fn.None[AuxSigner](), fn.None[tlv.Blob](),
		)
		for j := range vjobs {
			digest, derr := vjobs[j].SigHash()
			if derr != nil {
				digest = nil
			}
			if len(digest) > 8 {
				digest = digest[:8]
			}
			fmt.Fprintf(&out, " Q:%d:%d:%s", j, vjobs[j].HtlcIndex, hex.EncodeToString(digest))
		}
	}
	if err != nil {
		res = "err"
	}
	fmt.Fprintf(sb, "V %s h=%d n=%d err=%s |%s\n", name, c.height, len(sigs.HtlcSigs), res, out.String())
}

// ---------------------------------------------------------------------------
// schedule generator
// ---------------------------------------------------------------------------

type c01Sched struct {
	r    *rand.Rand
	p    *c01Pair
	w    *bufio.Writer
	adds [2]int
	last *c01Act // last add (for equal hash/amount/expiry duplicates)
	lastOwn [2]*c01Act // last successful add per node (duplicate families)
	dead bool    // a delivery was rejected: the link would have failed
	tamper bool  // this case ends with a corrupted commitment_signed
	second bool  // C01 only: J / V lines on the second-level HTLC transactions

	stats map[string]int
}

func (s *c01Sched) emit(line string) { s.w.WriteString(line) }

func (s *c01Sched) dump(x int) {
	var sb strings.Builder
	s.p.DumpNode(&sb, x)
	s.w.WriteString(sb.String())
}

func (s *c01Sched) runAct(x int, a c01Act) string {
	name := string(rune('A' + x))
	res, extra := s.p.Do(x, a)
	var args string
	switch a.Kind {
	case "add":
		args = fmt.Sprintf(" amt=%d exp=%d hash=%d", uint64(a.Amt), a.Expiry, a.HashID)
	case "rawrecv":
		args = fmt.Sprintf(" id=%d amt=%d exp=%d hash=%d", a.Idx, uint64(a.Amt), a.Expiry, a.HashID)
	case "settle", "settlebad", "fail", "malformed":
		args = fmt.Sprintf(" idx=%d", a.Idx)
	case "fee":
		args = fmt.Sprintf(" fpk=%d", int64(a.FeePerKw))
	}
	if extra != "" {
		extra = " " + extra
	}
	s.emit(fmt.Sprintf("%s %s%s => %s%s q=%d,%d\n", name, a.Kind, args, res, extra,
		len(s.p.Q[0]), len(s.p.Q[1])))
	s.dump(x)
	if s.second && a.Kind == "sign" && res == "ok" && len(s.p.Q[x]) > 0 {
		var sb strings.Builder
		s.p.dumpSignJobs(&sb, x, s.p.Q[x][len(s.p.Q[x])-1].sigs)
		s.w.WriteString(sb.String())
	}
	s.stats["op_"+a.Kind]++
	s.stats["res_"+strings.SplitN(res, ":", 2)[0]]++
	return res
}

func (s *c01Sched) runDeliver(d int) string {
	var sigs *CommitSigs
	if len(s.p.Q[d]) > 0 && s.p.Q[d][0].kind == "commitsig" {
		sigs = s.p.Q[d][0].sigs
	}
	kind, res := s.p.Deliver(d)
	dir := "AB"
	if d == 1 {
		dir = "BA"
	}
	s.emit(fmt.Sprintf("D %s %s => %s q=%d,%d\n", dir, kind, res,
		len(s.p.Q[0]), len(s.p.Q[1])))
	s.dump(1 - d)
	if s.second && sigs != nil && res == "ok" {
		var sb strings.Builder
		s.p.dumpVerifyJobs(&sb, 1-d, sigs)
		s.w.WriteString(sb.String())
	}
	s.stats["deliver_"+kind]++
	s.stats["res_"+strings.SplitN(res, ":", 2)[0]]++
	if res != "ok" {
		s.dead = true
	}
	return res
}

// settleable lists the incoming HTLCs of node x that are irrevocably locked in
// on both commitments and not yet resolved (what a link would settle/fail).
func (s *c01Sched) settleable(x int) []uint64 {
	ch := s.p.Ch[x]
	lt := ch.commitChains.Local.tail().height
	rt := ch.commitChains.Remote.tail().height
	var out []uint64
	for e := ch.updateLogs.Remote.Front(); e != nil; e = e.Next() {
		pd := e.Value
		if !pd.isAdd() {
			continue
		}
		al, ar := pd.addCommitHeights.Local, pd.addCommitHeights.Remote
		if al == 0 || ar == 0 || al > lt || ar > rt {
			continue
		}
		if ch.updateLogs.Remote.htlcHasModification(pd.HtlcIndex) {
			continue
		}
		out = append(out, pd.HtlcIndex)
	}
	return out
}

// dupOf derives a new HTLC of node x from its previous one `b`, varying each of
// (payment hash, amount, expiry) independently.  Amounts are kept non-dust on
// both commitments most of the time so that the HTLCs share output scripts
// (same hash) while their values / CLTVs differ or coincide.
func (s *c01Sched) dupOf(x int, b c01Act) c01Act {
	r := s.r
	ch := s.p.Ch[x]
	ct := ch.channelState.ChanType
	a := b
	if r.Intn(4) == 0 {
		a.HashID = s.p.newHash()
	}
	if r.Intn(3) == 0 {
		a.Expiry = c01Pick(r, uint32(100), 144, 500)
	}
	// smallest amount that is non-dust on both commitments at the larger of
	// the two current fee rates
	fpk := ch.commitChains.Local.tip().feePerKw
	if f2 := ch.commitChains.Remote.tip().feePerKw; f2 > fpk {
		fpk = f2
	}
	dust := ch.channelState.LocalChanCfg.DustLimit
	if d2 := ch.channelState.RemoteChanCfg.DustLimit; d2 > dust {
		dust = d2
	}
	floor := lnwire.NewMSatFromSatoshis(dust + HtlcSuccessFee(ct, fpk) + 2)
	if r.Intn(8) != 0 && b.Amt < floor {
		b.Amt = floor + lnwire.MilliSatoshi(r.Intn(3))*1_000_000
		a.Amt = b.Amt
	}
	switch r.Intn(6) {
	case 0, 1: // same amount
	case 2:
		a.Amt = b.Amt + c01Pick(r, lnwire.MilliSatoshi(1), 999, 1000, 1_000_000, 2_345_000)
	case 3:
		d := c01Pick(r, lnwire.MilliSatoshi(1), 999, 1000, 1_000_000, 2_345_000)
		if b.Amt > floor+d {
			a.Amt = b.Amt - d
		} else {
			a.Amt = b.Amt + d
		}
	case 4:
		a.Amt = b.Amt * 2
	case 5:
		if b.Amt/2 >= floor {
			a.Amt = b.Amt / 2
		} else {
			a.Amt = b.Amt + 3_000_000
		}
	}
	return a
}

func (s *c01Sched) pickAmount(x int) lnwire.MilliSatoshi {
	r := s.r
	ch := s.p.Ch[x]
	ct := ch.channelState.ChanType
	fpks := []chainfee.SatPerKWeight{
		ch.commitChains.Local.tip().feePerKw, ch.commitChains.Remote.tip().feePerKw,
	}
	fpk := fpks[r.Intn(2)]
	dustX := ch.channelState.LocalChanCfg.DustLimit
	dustY := ch.channelState.RemoteChanCfg.DustLimit
	avail := ch.AvailableBalance()
	deltas := []int64{-1000, -1, 0, 1, 999, 1000, -1001, 1001}
	switch r.Intn(12) {
	case 0, 1, 2, 3:
		// straddle a dust threshold (limit + second-level fee) of either commitment
		th := c01Pick(r,
			dustX+HtlcTimeoutFee(ct, fpk), // our commitment, outgoing -> timeout tx
			dustY+HtlcSuccessFee(ct, fpk), // their commitment -> success tx
			dustX, dustY,
			dustX+HtlcSuccessFee(ct, fpk), dustY+HtlcTimeoutFee(ct, fpk))
		v := int64(th)*1000 + c01Pick(r, deltas...)
		if v < 0 {
			v = 0
		}
		return lnwire.MilliSatoshi(v)
	case 4:
		return c01Pick(r, lnwire.MilliSatoshi(1), 999, 1000, 1001, 0, 4999, 5000)
	case 5, 6:
		// around the spendable balance
		v := int64(avail) + c01Pick(r, deltas...)
		if v < 0 {
			v = 0
		}
		return lnwire.MilliSatoshi(v)
	case 7:
		return avail / 2
	case 8:
		// more than we have
		return avail + lnwire.MilliSatoshi(r.Int63n(int64(avail)+2_000_000))
	default:
		if avail < 10 {
			return lnwire.MilliSatoshi(r.Int63n(5000))
		}
		// log-uniform below the spendable balance
		bits := r.Intn(bitsLen(uint64(avail))) + 1
		return lnwire.MilliSatoshi(r.Int63n(1<<uint(bits))) % (avail + 1)
	}
}

func bitsLen(x uint64) int {
	n := 0
	for x > 0 {
		n++
		x >>= 1
	}
	if n == 0 {
		return 1
	}
	return n
}

func (s *c01Sched) pickFee(x int) chainfee.SatPerKWeight {
	r := s.r
	ch := s.p.Ch[x]
	cur := ch.commitChains.Local.tip().feePerKw
	switch r.Intn(9) {
	case 0:
		// around the relay floor; below it every later signature is refused
		// (feeFloor) until the update is overwritten, so keep that rare
		return c01Pick(r, chainfee.SatPerKWeight(253), 253, 254, 255, 252, 250, 1, 0)
	case 1, 2, 8:
		return cur + chainfee.SatPerKWeight(r.Intn(7)) - 3
	case 3:
		return cur * 2
	case 4:
		return cur/2 + 1
	case 5, 6:
		// around the largest affordable fee rate (validateFeeRate)
		avail, w := ch.availableBalance(AdditionalHtlc)
		if w == 0 {
			return cur + 1
		}
		oldFee := lnwire.NewMSatFromSatoshis(cur.FeeForWeight(w))
		base := int64((avail + oldFee) / 1000)
		fmax := base*1000/int64(w) + 1
		return chainfee.SatPerKWeight(fmax + int64(r.Intn(5)) - 2)
	default:
		return chainfee.SatPerKWeight(253 + r.Intn(100000))
	}
}

type c01Choice struct {
	w   int
	run func()
}

// step performs one random schedule step; returns false if nothing is enabled.
func (s *c01Sched) step(eagerRevoke bool, maxAdds int) bool {
	r := s.r
	var cs []c01Choice
	add := func(w int, f func()) { cs = append(cs, c01Choice{w, f}) }

	for d := 0; d < 2; d++ {
		d := d
		if len(s.p.Q[d]) > 0 && s.p.Q[d][0].kind == "commitsig" && s.tamper && r.Intn(3) == 0 {
			// a forged / corrupted commitment_signed: must be rejected; the
			// link fails the channel, so the case ends here
			add(40, func() {
				res := s.p.DeliverTampered(d, r.Intn(2) == 0)
				dir := "AB"
				if d == 1 {
					dir = "BA"
				}
				s.emit(fmt.Sprintf("D %s commitsig-bad => %s q=%d,%d\n", dir, res,
					len(s.p.Q[0]), len(s.p.Q[1])))
				s.dump(1 - d)
				s.stats["deliver_commitsig_bad"]++
				s.stats["res_bad_"+strings.SplitN(res, ":", 2)[0]]++
				s.dead = true
			})
		}
		if len(s.p.Q[d]) > 0 {
			add(4, func() {
				kind := s.p.Q[d][0].kind
				res := s.runDeliver(d)
				if eagerRevoke && kind == "commitsig" && res == "ok" {
					s.runAct(1-d, c01Act{Kind: "revoke"})
				}
			})
		}
	}
	for x := 0; x < 2; x++ {
		x := x
		ch := s.p.Ch[x]
		if s.adds[x] < maxAdds {
			add(3, func() {
				var a c01Act
				if s.lastOwn[x] != nil && r.Intn(3) == 0 {
					// duplicate family of this node's previous HTLC: hash,
					// amount and expiry are varied independently
					a = s.dupOf(x, *s.lastOwn[x])
				} else if s.last != nil && r.Intn(6) == 0 {
					a = *s.last // exact duplicate (hash, amount, expiry), any direction
					if r.Intn(3) == 0 {
						a.Expiry = c01Pick(r, uint32(100), 144, 500)
					}
				} else {
					a = c01Act{Kind: "add", Amt: s.pickAmount(x),
						Expiry: c01Pick(r, uint32(100), 144, 144, 500),
						HashID: s.p.newHash()}
				}
				if s.runAct(x, a) == "ok" {
					s.adds[x]++
					s.last = &a
					s.lastOwn[x] = &a
				}
			})
		}
		if cand := s.settleable(x); len(cand) > 0 {
			add(3, func() {
				idx := cand[r.Intn(len(cand))]
				kind := c01Pick(r, "settle", "settle", "fail", "malformed")
				s.runAct(x, c01Act{Kind: kind, Idx: idx})
			})
		}
		if ch.channelState.IsInitiator {
			add(1, func() { s.runAct(x, c01Act{Kind: "fee", FeePerKw: s.pickFee(x)}) })
		}
		if ch.OweCommitment() {
			w := 4
			if ch.commitChains.Remote.hasUnackedCommitment() {
				w = 1 // will answer ErrNoWindow
			}
			add(w, func() { s.runAct(x, c01Act{Kind: "sign"}) })
		}
		if ch.commitChains.Local.hasUnackedCommitment() {
			add(8, func() { s.runAct(x, c01Act{Kind: "revoke"}) })
		}
		// API misuse that must be rejected without touching the state
		if r.Intn(40) == 0 {
			add(1, func() {
				switch r.Intn(5) {
				case 0:
					s.runAct(x, c01Act{Kind: "settle", Idx: 900 + uint64(r.Intn(3))})
				case 1:
					s.runAct(x, c01Act{Kind: "fail", Idx: ch.updateLogs.Remote.htlcCounter})
				case 2:
					if c := s.settleable(x); len(c) > 0 {
						s.runAct(x, c01Act{Kind: "settlebad", Idx: c[0]})
					}
				case 3:
					// resolve twice
					for e := ch.updateLogs.Remote.Front(); e != nil; e = e.Next() {
						if e.Value.isAdd() && ch.updateLogs.Remote.htlcHasModification(e.Value.HtlcIndex) {
							s.runAct(x, c01Act{Kind: c01Pick(r, "settle", "fail"), Idx: e.Value.HtlcIndex})
							break
						}
					}
				case 4:
					s.runAct(x, c01Act{Kind: "rawrecv", Idx: ch.updateLogs.Remote.htlcCounter + 1 + uint64(r.Intn(2)),
						Amt: 5_000_000, Expiry: 144, HashID: s.p.newHash()})
				}
			})
		}
		if !ch.channelState.IsInitiator && r.Intn(60) == 0 {
			add(1, func() { s.runAct(x, c01Act{Kind: "fee", FeePerKw: 1000}) })
		}
	}
	if len(cs) == 0 {
		return false
	}
	total := 0
	for _, c := range cs {
		total += c.w
	}
	k := r.Intn(total)
	for _, c := range cs {
		if k < c.w {
			c.run()
			return true
		}
		k -= c.w
	}
	return true
}

// drain completes the dance deterministically until nothing is in flight.
func (s *c01Sched) drain(resolve bool) {
	for i := 0; i < 200 && !s.dead; i++ {
		progress := false
		for d := 0; d < 2; d++ {
			for len(s.p.Q[d]) > 0 && !s.dead {
				s.runDeliver(d)
				progress = true
			}
		}
		if s.dead {
			return
		}
		for x := 0; x < 2; x++ {
			ch := s.p.Ch[x]
			if ch.commitChains.Local.hasUnackedCommitment() {
				s.runAct(x, c01Act{Kind: "revoke"})
				progress = true
			}
		}
		for x := 0; x < 2; x++ {
			ch := s.p.Ch[x]
			if ch.OweCommitment() && !ch.commitChains.Remote.hasUnackedCommitment() {
				if s.runAct(x, c01Act{Kind: "sign"}) == "ok" {
					progress = true
				}
			}
		}
		if !progress && resolve {
			for x := 0; x < 2; x++ {
				for _, idx := range s.settleable(x) {
					s.runAct(x, c01Act{Kind: c01Pick(s.r, "settle", "fail"), Idx: idx})
					progress = true
				}
			}
		}
		if !progress {
			return
		}
	}
}

// ---------------------------------------------------------------------------
// restarts in pipelined schedules (case class "pipe")
// ---------------------------------------------------------------------------

// Reload replaces the live channel object of node x by one rebuilt from its
// database with NewLightningChannel: a restart of that node alone while the
// transport keeps running (the messages in both queues stay in flight).
func (p *c01Pair) Reload(x int) (res string) {
	defer c01Recover(&res)
	old := p.Ch[x]
	st := old.channelState
	chans, err := st.Db.FetchOpenChannels(st.IdentityPub)
	if err != nil {
		return "fetcherr"
	}
	for _, oc := range chans {
		if oc.FundingOutpoint != st.FundingOutpoint {
			continue
		}
		lc, err := NewLightningChannel(old.Signer, oc, old.sigPool)
		if err != nil {
			return "err:" + c01ErrClass(err)
		}
		p.Ch[x] = lc
		return "ok"
	}
	return "notfound"
}

// restartable: node x holds nothing a restart drops (every own update is
// signed for, every received update is acknowledged by a revocation, no
// received-but-unrevoked commitment); taproot channels additionally need a
// reestablish for fresh nonces and are left to C02/C03.
func (s *c01Sched) restartable(x int) bool {
	ch := s.p.Ch[x]
	if s.p.P.ChanType.IsTaproot() {
		return false
	}
	return ch.updateLogs.Local.logIndex == ch.commitChains.Remote.tip().messageIndices.Local &&
		ch.updateLogs.Remote.logIndex == ch.commitChains.Local.tail().messageIndices.Remote &&
		!ch.commitChains.Local.hasUnackedCommitment()
}

func (s *c01Sched) restart(x int) {
	pend := 0
	if s.p.Ch[x].commitChains.Remote.hasUnackedCommitment() {
		pend = 1
	}
	res := s.p.Reload(x)
	s.emit(fmt.Sprintf("R %s pending=%d => %s q=%d,%d\n", string(rune('A'+x)), pend, res,
		len(s.p.Q[0]), len(s.p.Q[1])))
	s.stats["restart"]++
	s.stats[fmt.Sprintf("restart_pending%d", pend)]++
	if res != "ok" {
		s.dead = true
		return
	}
	s.dump(x)
}

// maybeRestart restarts the restartable nodes: one with a pending remote
// commitment always (or with probability 1/2), one without now and then.
func (s *c01Sched) maybeRestart(always bool) {
	xs := []int{0, 1}
	if s.r.Intn(2) == 0 {
		xs = []int{1, 0}
	}
	for _, x := range xs {
		if s.dead {
			return
		}
		if !s.restartable(x) {
			continue
		}
		// the interesting restarts are the ones with a signed, not yet revoked
		// remote commitment (the others are C02's daily bread)
		if s.p.Ch[x].commitChains.Remote.hasUnackedCommitment() {
			if always || s.r.Intn(2) == 0 {
				s.restart(x)
			}
		} else if s.r.Intn(5) == 0 {
			s.restart(x)
		}
	}
}

// someUpdate performs one random update on node x (add, resolution of a
// locked-in HTLC, fee update by the opener); returns whether it succeeded.
func (s *c01Sched) someUpdate(x int) bool {
	r := s.r
	ch := s.p.Ch[x]
	cand := s.settleable(x)
	k := r.Intn(10)
	switch {
	case len(cand) > 0 && k < 6:
		idx := cand[r.Intn(len(cand))]
		return s.runAct(x, c01Act{Kind: c01Pick(r, "settle", "settle", "fail", "malformed"), Idx: idx}) == "ok"
	case ch.channelState.IsInitiator && k < 8:
		return s.runAct(x, c01Act{Kind: "fee", FeePerKw: s.pickFee(x)}) == "ok"
	default:
		a := c01Act{Kind: "add", Amt: s.pickAmount(x), Expiry: c01Pick(r, uint32(100), 144, 500),
			HashID: s.p.newHash()}
		if s.runAct(x, a) == "ok" {
			s.adds[x]++
			s.last = &a
			s.lastOwn[x] = &a
			return true
		}
		return false
	}
}

// deliverAll delivers the whole queue of direction d in order, revoking at
// once for an accepted commitment_signed (link discipline), with a restart
// attempt after every delivery.
func (s *c01Sched) deliverAll(d int, always bool) {
	for len(s.p.Q[d]) > 0 && !s.dead {
		kind := s.p.Q[d][0].kind
		res := s.runDeliver(d)
		if kind == "commitsig" && res == "ok" {
			s.runAct(1-d, c01Act{Kind: "revoke"})
		}
		s.maybeRestart(always)
	}
}

// finishDance: both nodes sign whenever they owe a signature and everything
// in flight is delivered, with restart attempts after every step, until
// nothing moves any more.
func (s *c01Sched) finishDance(always bool) {
	for i := 0; i < 6 && !s.dead; i++ {
		progress := false
		for z := 0; z < 2 && !s.dead; z++ {
			ch := s.p.Ch[z]
			if ch.OweCommitment() && !ch.commitChains.Remote.hasUnackedCommitment() {
				if s.runAct(z, c01Act{Kind: "sign"}) == "ok" {
					progress = true
				}
				s.maybeRestart(always)
			}
		}
		s.deliverAll(0, always)
		s.deliverAll(1, always)
		if !progress {
			break
		}
	}
}

// pipeCase: pipelined (non lock-step) rounds with restarts.  In every round
// node x sends updates and a commitment_signed that stays in flight (its
// updates are delivered or not); meanwhile y sends updates and its own
// commitment_signed, which x receives and revokes for while its own commitment
// is still unrevoked; then everything is delivered and the dance completed.
// After every single step each node that holds nothing a restart would drop is
// really restarted (always / with probability 1/2) and the schedule goes on.
func (s *c01Sched) pipeCase(always bool, maxAdds int, tail int) {
	r := s.r
	// some HTLCs locked in both ways, so that both sides have something to resolve
	for x := 0; x < 2; x++ {
		for i, n := 0, 1+r.Intn(3); i < n; i++ {
			a := c01Act{Kind: "add", Amt: s.pickAmount(x), Expiry: c01Pick(r, uint32(100), 144, 500),
				HashID: s.p.newHash()}
			if s.runAct(x, a) == "ok" {
				s.adds[x]++
				s.lastOwn[x] = &a
			}
		}
	}
	s.drain(false)
	for round, rounds := 0, 2+r.Intn(3); round < rounds && !s.dead; round++ {
		x := r.Intn(2)
		y := 1 - x
		if r.Intn(2) == 0 {
			// delayed counter-signature: y processes x's updates and signature
			// completely (it revokes, but does not sign yet), x receives the
			// revocation and sends further updates, which reach y - possibly
			// restarted in between - before y signs for anything
			for i, n := 0, 1+r.Intn(2); i < n; i++ {
				s.someUpdate(x)
				s.maybeRestart(always)
			}
			if s.p.Ch[x].OweCommitment() && !s.p.Ch[x].commitChains.Remote.hasUnackedCommitment() {
				s.runAct(x, c01Act{Kind: "sign"})
				s.maybeRestart(always)
			}
			s.deliverAll(x, always)
			s.deliverAll(y, always)
			for i, n := 0, 1+r.Intn(2); i < n && !s.dead; i++ {
				s.someUpdate(x)
				s.maybeRestart(always)
			}
			s.deliverAll(x, always)
			s.stats["pipe_delayed_countersig_rounds"]++
			s.finishDance(always)
			continue
		}
		// x: updates + signature
		for i, n := 0, r.Intn(3); i < n; i++ {
			s.someUpdate(x)
			s.maybeRestart(always)
		}
		nUpd := len(s.p.Q[x])
		if s.p.Ch[x].OweCommitment() && !s.p.Ch[x].commitChains.Remote.hasUnackedCommitment() {
			s.runAct(x, c01Act{Kind: "sign"})
			s.maybeRestart(always)
		}
		// x's updates (never its signature) reach y or stay in flight
		if r.Intn(2) == 0 {
			for i := 0; i < nUpd && len(s.p.Q[x]) > 0 && s.p.Q[x][0].kind != "commitsig" && !s.dead; i++ {
				s.runDeliver(x)
				s.maybeRestart(always)
			}
		}
		// y: updates + signature while x's signature is in flight
		for i, n := 0, 1+r.Intn(2); i < n && !s.dead; i++ {
			s.someUpdate(y)
			s.maybeRestart(always)
		}
		if !s.dead && s.p.Ch[y].OweCommitment() && !s.p.Ch[y].commitChains.Remote.hasUnackedCommitment() {
			s.runAct(y, c01Act{Kind: "sign"})
			s.maybeRestart(always)
		}
		// x receives y's updates and signature and revokes; x's own commitment is still pending
		s.deliverAll(y, always)
		// the rest of the dance
		s.deliverAll(x, always)
		s.deliverAll(y, always)
		s.finishDance(always)
	}
	// a random asynchronous tail under the link discipline, restarts after every step
	for i := 0; i < tail && !s.dead; i++ {
		if !s.step(true, maxAdds) {
			break
		}
		s.maybeRestart(always)
	}
}

// ---------------------------------------------------------------------------
// the test
// ---------------------------------------------------------------------------

func c01CaseHeader(id int, kind string, p c01Params, pair *c01Pair) string {
	b2i := func(b bool) int {
		if b {
			return 1
		}
		return 0
	}
	a := pair.Ch[0]
	return fmt.Sprintf("CASE %d kind=%s type=%s anchors=%d zerofee=%d taproot=%d cap=%d openerA=%d fpk=%d "+
		"dustA=%d dustB=%d resA=%d resB=%d minA=%d minB=%d mpA=%d mpB=%d maA=%d maB=%d\n",
		id, kind, p.Name, b2i(p.ChanType.HasAnchors()), b2i(p.ChanType.ZeroHtlcTxFee()),
		b2i(p.ChanType.IsTaproot()), int64(a.channelState.Capacity), b2i(p.OpenerA),
		int64(p.FeePerKw), int64(p.Dust[0]), int64(p.Dust[1]), int64(p.Reserve[0]),
		int64(p.Reserve[1]), uint64(p.MinHTLC[0]), uint64(p.MinHTLC[1]),
		uint64(p.MaxPend[0]), uint64(p.MaxPend[1]), p.MaxAcc[0], p.MaxAcc[1])
}

func TestVerifC01(t *testing.T) {
	out := os.Getenv("VERIF_OUT")
	if out == "" {
		t.Skip("VERIF_OUT not set")
	}
	seed, _ := strconv.ParseInt(os.Getenv("VERIF_SEED"), 10, 64)
	tier := os.Getenv("VERIF_TIER")
	f, err := os.Create(out)
	if err != nil {
		t.Fatal(err)
	}
	defer f.Close()
	w := bufio.NewWriterSize(f, 1<<20)
	defer w.Flush()

	// quick tier: volume moved to the thorough tier in round 7 (24 -> 16 random
	// schedules and 5 -> 4 pipelined cases per channel type)
	perKind, maxSteps, maxAdds := 16, 50, 8
	perPipe, pipeTail := 4, 12
	if tier == "thorough" {
		perKind, maxSteps, maxAdds = 120, 130, 14
		perPipe, pipeTail = 24, 30
	}
	if v, err := strconv.Atoi(os.Getenv("VERIF_C01_CASES")); err == nil && v > 0 {
		perKind = v
	}
	if v, err := strconv.Atoi(os.Getenv("VERIF_C01_PIPE")); err == nil && v > 0 {
		perPipe = v
	}

	fmt.Fprintf(w, "FACT commitWeight=%d anchorCommitWeight=%d taprootCommitWeight=%d htlcWeight=%d "+
		"htlcTimeoutWeight=%d htlcSuccessWeight=%d htlcTimeoutWeightConf=%d htlcSuccessWeightConf=%d "+
		"anchorSize=%d feeFloor=%d\n",
		input.CommitWeight, input.AnchorCommitWeight, input.TaprootCommitWeight, input.HTLCWeight,
		input.HtlcTimeoutWeight, input.HtlcSuccessWeight, input.HtlcTimeoutWeightConfirmed,
		input.HtlcSuccessWeightConfirmed, int64(AnchorSize), int64(chainfee.FeePerKwFloor))

	stats := map[string]int{}
	id := 0
	for ki, kind := range c01ChanKinds {
		for c := 0; c < perKind; c++ {
			id++
			caseID := id
			r := rand.New(rand.NewSource(seed*1_000_003 + int64(ki)*10_007 + int64(c)))
			t.Run(fmt.Sprintf("%s_%d", kind.name, c), func(t *testing.T) {
				p := c01GenParams(r, kind)
				pair, err := c01NewPair(t, p, uint32(caseID))
				if err != nil {
					t.Fatalf("pair: %v", err)
				}
				s := &c01Sched{r: r, p: pair, w: w, stats: stats, second: true}
				s.tamper = c%6 == 5
				w.WriteString(c01CaseHeader(caseID, "sched", p, pair))
				s.dump(0)
				s.dump(1)
				eager := r.Intn(3) != 0
				steps := 10 + r.Intn(maxSteps)
				for i := 0; i < steps && !s.dead; i++ {
					if !s.step(eager, maxAdds) {
						break
					}
					// now and then run to quiescence in the middle of a schedule
					if r.Intn(25) == 0 {
						s.drain(false)
					}
				}
				s.drain(r.Intn(2) == 0)
				s.drain(false)
				w.WriteString("END\n")
				stats["cases"]++
				stats["type_"+kind.name]++
			})
		}
		// pipelined schedules with restarts of single nodes
		for c := 0; c < perPipe; c++ {
			id++
			caseID := id
			r := rand.New(rand.NewSource(seed*1_000_003 + int64(ki)*10_007 + 5_000 + int64(c)))
			t.Run(fmt.Sprintf("%s_pipe_%d", kind.name, c), func(t *testing.T) {
				p := c01GenParams(r, kind)
				pair, err := c01NewPair(t, p, uint32(caseID))
				if err != nil {
					t.Fatalf("pair: %v", err)
				}
				s := &c01Sched{r: r, p: pair, w: w, stats: stats, second: true}
				w.WriteString(c01CaseHeader(caseID, "pipe", p, pair))
				s.dump(0)
				s.dump(1)
				s.pipeCase(c%2 == 0, maxAdds, 6+r.Intn(pipeTail))
				s.drain(r.Intn(2) == 0)
				s.drain(false)
				w.WriteString("END\n")
				stats["cases"]++
				stats["pipe_cases"]++
				stats["type_"+kind.name]++
			})
		}
	}
	keys := make([]string, 0, len(stats))
	for k := range stats {
		keys = append(keys, k)
	}
	sort.Strings(keys)
	for _, k := range keys {
		fmt.Fprintf(w, "HSTAT %s=%d\n", k, stats[k])
	}
}
