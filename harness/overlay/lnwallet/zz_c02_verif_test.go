//go:build verif

package lnwallet

// C02 harness (also the release-rule half of C06): the two-party schedules of
// the C01 harness (zz_c01_verif_test.go supplies c01Params, c01NewPair,
// Do/Deliver, DumpNode, c01Sched) with crash/restart points.
//
// After EVERY schedule step and for BOTH nodes the channel is re-fetched from
// the real channeldb and a second LightningChannel is built from it
// (`probe`): the durable state (K* lines) and the restored in-memory state
// (N/G/C lines after a `P` line) are dumped next to the live state, the live
// run is not disturbed.  At random points (every step in the exhaustive
// family of the thorough tier) the live channel is really replaced:
//
//   m1  one node is reloaded while the transport keeps running.  Only done when
//       that node holds nothing a restart would drop (no own update that it
//       has not signed, no peer update it has not acknowledged with a
//       revocation, no received-but-unrevoked commitment) and the channel is
//       not a taproot channel (MuSig2 nonces live in memory only and are
//       re-established by channel_reestablish).  Messages in flight stay in
//       flight: everything the node has sent is covered by its durable state.
//   m2  a real reconnect: both queues are dropped (in-flight messages are
//       lost), BOTH nodes are rebuilt from their databases (what lnd does when
//       a peer connection is re-established), real ChanSyncMsg /
//       ProcessChanSyncMsg are exchanged and the retransmissions are fed into
//       the queues.  Sound at every point of every schedule.
//
// Every RevokeAndAck handed out (by RevokeCurrentCommitment or retransmitted
// by ProcessChanSyncMsg) is logged with the index of its secret / next point
// in the node's own shachain producer and with LocalCommitment.CommitHeight as
// read back from the database at that moment (V lines).  Status flags are
// written through a second, stale *OpenChannel handle; the case ends with
// MarkBorked through the stale handle followed by attempts to revoke / sign on
// the live channel (the durable write fails: nothing may be handed out).

import (
	"bufio"
	"bytes"
	"crypto/sha256"
	"encoding/hex"
	"errors"
	"fmt"
	"math/rand"
	"os"
	"sort"
	"strconv"
	"strings"
	"testing"

	"github.com/btcsuite/btcwallet/walletdb"
	"github.com/lightningnetwork/lnd/channeldb"
	"github.com/lightningnetwork/lnd/chanstate"
	"github.com/lightningnetwork/lnd/input"
	"github.com/lightningnetwork/lnd/lnwallet/chainfee"
	"github.com/lightningnetwork/lnd/lnwire"
)

type c02Ctx struct {
	s     *c01Sched
	p     *c01Pair
	w     *bufio.Writer
	r     *rand.Rand
	stats map[string]int

	seenRev map[*lnwire.RevokeAndAck]bool
	seenSig map[*CommitSigs]bool
	stale   [2]*chanstate.OpenChannel
	taproot bool
	stop    bool

	// per-case personality of the schedule
	wSign    [2]int
	wRevoke  [2]int
	wFee     int
	wDeliver [2]int
	// crash points = committed write transactions (see c02Backend)
	raw  [2]*channeldb.ChannelStateDB
	wb   [2]*c02Backend
	tx0  [2]int
	imgs [2][]string
	// references of the node's own settles/fails not yet covered by a signature:
	// the next successful SignNextCommitment acknowledges them together with its
	// commit diff (createCommitDiff collects SourceRef/DestRef of the updates
	// committed at the new height); a restart drops them with the updates
	pendSrc [2][]channeldb.AddRef
	pendDst [2][]channeldb.SettleFailRef

	pProbe   int // probe after a step with probability 1/pProbe (1 = always)
	pBogus   int // a dishonest revocation before an honest one with probability 1/pBogus
}

// c02Backend wraps the kvdb backend of one node's channel database: it counts
// the write transactions that COMMIT and calls `hook` right after each commit,
// i.e. at every instant at which a crash leaves a new durable state.  The
// database content at that instant is the crash image: it is re-fetched through
// the unwrapped store and rebuilt with NewLightningChannel inside the hook,
// while the API call that issued the transaction is still in progress.
type c02Backend struct {
	walletdb.DB
	n    int
	hook func(n int)
}

func (b *c02Backend) Update(f func(tx walletdb.ReadWriteTx) error, reset func()) error {
	err := b.DB.Update(f, reset)
	if err == nil {
		b.n++
		if b.hook != nil {
			b.hook(b.n)
		}
	}
	return err
}

// wrapDB routes all channel state writes of node x through a c02Backend.
func (c *c02Ctx) wrapDB(t *testing.T, x int) {
	st := c.p.Ch[x].channelState
	raw, ok := st.Db.(*channeldb.ChannelStateDB)
	if !ok {
		t.Fatalf("unexpected channel store type %T", st.Db)
	}
	wb := &c02Backend{DB: raw.GetParentDB().Backend}
	wdb, err := channeldb.CreateWithBackend(wb)
	if err != nil {
		t.Fatalf("wrap db: %v", err)
	}
	st.Db = wdb.ChannelStateDB()
	c.raw[x], c.wb[x] = raw, wb
}

// image = the durable state of node x right after its k-th write transaction
// of the call in progress: the channel is re-fetched (unwrapped store), rebuilt
// with NewLightningChannel and the database content is dumped.  Every line is
// prefixed with "M ".
func (c *c02Ctx) image(x, k int) string {
	var sb strings.Builder
	name := c02Name(x)
	old := c.p.Ch[x].channelState
	var oc *chanstate.OpenChannel
	if chans, err := c.raw[x].FetchOpenChannels(old.IdentityPub); err == nil {
		for _, o := range chans {
			if o.FundingOutpoint == old.FundingOutpoint {
				oc = o
			}
		}
	}
	if oc == nil {
		fmt.Fprintf(&sb, "M P %s tx=%d => fetcherr\n", name, k)
		return sb.String()
	}
	_, res := c.newChan(x, oc)
	fmt.Fprintf(&sb, "M P %s tx=%d => %s\n", name, k, res)
	for _, l := range strings.Split(strings.TrimRight(c.diskString(x, oc), "\n"), "\n") {
		sb.WriteString("M ")
		sb.WriteString(l)
		sb.WriteString("\n")
	}
	c.stats["crash_images"]++
	return sb.String()
}

// txBegin / txEnd bracket one API call of node x: every write transaction the
// call commits is counted and its crash image is taken.  The number of
// transactions is printed (`WT`); the model attributes exactly one transaction
// to a successful Sign / Revoke / ReceiveRevocation / link operation and none to
// anything else, the driver compares.  If the call committed more than one
// transaction, the images after each of them are printed: a crash between two of
// them is a crash point the per-call probes never see.
func (c *c02Ctx) txBegin(x int) {
	w := c.wb[x]
	if w == nil {
		return
	}
	c.tx0[x] = w.n
	c.imgs[x] = nil
	w.hook = func(n int) {
		c.imgs[x] = append(c.imgs[x], c.image(x, n-c.tx0[x]))
	}
}

func (c *c02Ctx) txEnd(x int, op, res string) {
	w := c.wb[x]
	if w == nil {
		return
	}
	w.hook = nil
	n := w.n - c.tx0[x]
	c.emit("WT %s op=%s res=%s n=%d\n", c02Name(x), op, strings.SplitN(res, ":", 2)[0], n)
	c.stats[fmt.Sprintf("write_txs_%s_%d", strings.SplitN(op, "_", 2)[0], n)]++
	if n >= 2 {
		for _, img := range c.imgs[x] {
			c.w.WriteString(img)
		}
		c.stats["calls_with_several_write_txs"]++
	}
	c.imgs[x] = nil
}

func c02AddRefs(rs []channeldb.AddRef) string {
	if len(rs) == 0 {
		return "-"
	}
	var parts []string
	for _, r := range rs {
		parts = append(parts, fmt.Sprintf("%d:%d", r.Height, r.Index))
	}
	return strings.Join(parts, ",")
}

func c02SfRefs(own lnwire.ShortChannelID, rs []channeldb.SettleFailRef) string {
	if len(rs) == 0 {
		return "-"
	}
	var parts []string
	for _, r := range rs {
		if r.Source == own {
			parts = append(parts, fmt.Sprintf("%d:%d", r.Height, r.Index))
		} else {
			parts = append(parts, fmt.Sprintf("x%d:%d", r.Height, r.Index))
		}
	}
	return strings.Join(parts, ",")
}

// runAct = c01Sched.runAct bracketed by txBegin/txEnd.  After a successful sign
// the acknowledgements the durable commit diff carries are printed (`LS`).
func (c *c02Ctx) runAct(x int, a c01Act) string {
	c.txBegin(x)
	res := c.s.runAct(x, a)
	c.txEnd(x, a.Kind, res)
	if a.Kind == "sign" {
		// printed also for a failed call: these are the acknowledgements the
		// commit diff of THIS call carries
		st := c.p.Ch[x].channelState
		c.emit("LS %s res=%s addacks=%s sfacks=%s\n", c02Name(x), strings.SplitN(res, ":", 2)[0],
			c02AddRefs(c.pendSrc[x]), c02SfRefs(st.ShortChannelID, c.pendDst[x]))
		if res == "ok" {
			if len(c.pendSrc[x]) > 0 {
				c.stats["signs_with_add_acks"]++
			}
			c.pendSrc[x], c.pendDst[x] = nil, nil
		}
	}
	return res
}

func (c *c02Ctx) runDeliver(d int) string {
	x := 1 - d
	kind := c.p.Q[d][0].kind
	c.txBegin(x)
	res := c.s.runDeliver(d)
	c.txEnd(x, "recv_"+kind, res)
	return res
}

// resolve settles / fails the incoming HTLC `idx` of node x the way a link does
// for a forwarded or exit-hop HTLC: with the reference to the add in the
// node's forwarding package (and sometimes a reference to a settle/fail entry of
// a package), so that the acknowledgement travels with the next commit diff.
// Prints the same lines as c01Sched.runAct.
func (c *c02Ctx) resolve(x int, kind string, idx uint64) string {
	ch := c.p.Ch[x]
	var (
		src *channeldb.AddRef
		dst *channeldb.SettleFailRef
	)
	if oc, err := c.fetch(x); err == nil && c.r.Intn(4) != 0 {
		pkgs, _ := oc.LoadFwdPkgs()
		var sfc []channeldb.SettleFailRef
		for _, p := range pkgs {
			for i := range p.Adds {
				if m, ok := p.Adds[i].UpdateMsg.(*lnwire.UpdateAddHTLC); ok && m.ID == idx {
					r := p.SourceRef(uint16(i))
					src = &r
				}
			}
			for i := range p.SettleFails {
				if !p.SettleFailFilter.Contains(uint16(i)) {
					sfc = append(sfc, p.DestRef(uint16(i)))
				}
			}
		}
		if len(sfc) > 0 && kind != "malformed" && c.r.Intn(3) == 0 {
			r := sfc[c.r.Intn(len(sfc))]
			dst = &r
		}
	}
	res := "ok"
	c.txBegin(x)
	func() {
		defer c01Recover(&res)
		var err error
		switch kind {
		case "settle":
			pre := [32]byte{}
			if pd := ch.updateLogs.Remote.lookupHtlc(idx); pd != nil {
				pre = c.p.preimage[c.p.hashID[pd.RHash]]
			}
			err = ch.SettleHTLC(pre, idx, src, dst, nil)
			if err == nil {
				c.p.Q[x] = append(c.p.Q[x], c01Msg{kind: "settle", idx: idx, preimage: pre})
			}
		case "fail":
			err = ch.FailHTLC(idx, []byte("c01"), src, dst, nil)
			if err == nil {
				c.p.Q[x] = append(c.p.Q[x], c01Msg{kind: "fail", idx: idx})
			}
		default:
			err = ch.MalformedFailHTLC(idx, lnwire.CodeInvalidOnionKey, [32]byte{1}, src)
			if err == nil {
				c.p.Q[x] = append(c.p.Q[x], c01Msg{kind: "fail", idx: idx})
			}
		}
		res = c01ErrClass(err)
	}()
	c.s.emit(fmt.Sprintf("%s %s idx=%d => %s q=%d,%d\n", c02Name(x), kind, idx, res, len(c.p.Q[0]), len(c.p.Q[1])))
	c.s.dump(x)
	c.txEnd(x, kind, res)
	c.stats["op_"+kind]++
	c.stats["res_"+strings.SplitN(res, ":", 2)[0]]++
	if res == "ok" && src != nil {
		c.pendSrc[x] = append(c.pendSrc[x], *src)
		c.stats["resolve_with_source_ref"]++
	}
	if res == "ok" && dst != nil {
		c.pendDst[x] = append(c.pendDst[x], *dst)
		c.stats["resolve_with_dest_ref"]++
	}
	return res
}

func c02Name(x int) string { return string(rune('A' + x)) }

func c02Hash(parts ...[]byte) string {
	h := sha256.New()
	for _, p := range parts {
		h.Write(p)
		h.Write([]byte{0xff})
	}
	return hex.EncodeToString(h.Sum(nil)[:6])
}

func (c *c02Ctx) emit(format string, a ...interface{}) {
	fmt.Fprintf(c.w, format, a...)
}

func (c *c02Ctx) qlen() string {
	return fmt.Sprintf("q=%d,%d", len(c.p.Q[0]), len(c.p.Q[1]))
}

// fetch re-reads the channel of node x from its database.
func (c *c02Ctx) fetch(x int) (*chanstate.OpenChannel, error) {
	st := c.p.Ch[x].channelState
	chans, err := st.Db.FetchOpenChannels(st.IdentityPub)
	if err != nil {
		return nil, err
	}
	for _, oc := range chans {
		if oc.FundingOutpoint == st.FundingOutpoint {
			return oc, nil
		}
	}
	return nil, errors.New("channel not found")
}

func (c *c02Ctx) newChan(x int, oc *chanstate.OpenChannel) (lc *LightningChannel, res string) {
	defer func() {
		if r := recover(); r != nil {
			lc, res = nil, "panic"
		}
	}()
	old := c.p.Ch[x]
	lc, err := NewLightningChannel(old.Signer, oc, old.sigPool)
	if err != nil {
		return nil, "err:" + c01ErrClass(err)
	}
	return lc, "ok"
}

// secretIndex returns the index of `secret` in node x's own producer chain.
func (c *c02Ctx) secretIndex(x int, secret [32]byte, upTo uint64) int {
	prod := c.p.Ch[x].channelState.RevocationProducer
	for h := uint64(0); h <= upTo; h++ {
		s, err := prod.AtIndex(h)
		if err == nil && bytes.Equal(s[:], secret[:]) {
			return int(h)
		}
	}
	return -1
}

func (c *c02Ctx) pointIndex(x int, point []byte, upTo uint64) int {
	prod := c.p.Ch[x].channelState.RevocationProducer
	for h := uint64(0); h <= upTo; h++ {
		s, err := prod.AtIndex(h)
		if err == nil && bytes.Equal(
			input.ComputeCommitmentPoint(s[:]).SerializeCompressed(), point) {

			return int(h)
		}
	}
	return -1
}

func (c *c02Ctx) durableHeight(x int) int64 {
	oc, err := c.fetch(x)
	if err != nil {
		return -1
	}
	return int64(oc.LocalCommitment.CommitHeight)
}

// logRev prints one released revoke_and_ack of node x.
func (c *c02Ctx) logRev(x int, rev *lnwire.RevokeAndAck, src string) {
	cur := c.p.Ch[x].currentHeight
	var np []byte
	if rev.NextRevocationKey != nil {
		np = rev.NextRevocationKey.SerializeCompressed()
	}
	c.emit("V %s src=%s s=%d np=%d dur=%d\n", c02Name(x), src,
		c.secretIndex(x, rev.Revocation, cur+4), c.pointIndex(x, np, cur+6),
		c.durableHeight(x))
	c.stats["rev_"+src]++
}

func c02SigHash(s *CommitSigs) string {
	parts := [][]byte{s.CommitSig.RawBytes()}
	for i := range s.HtlcSigs {
		parts = append(parts, s.HtlcSigs[i].RawBytes())
	}
	return c02Hash(parts...)
}

// scanQueues logs the revocations / signatures that were handed out since the
// last call (they are still in the queues: nothing is delivered in between).
func (c *c02Ctx) scanQueues() {
	for d := 0; d < 2; d++ {
		for _, m := range c.p.Q[d] {
			switch {
			case m.kind == "revoke" && !c.seenRev[m.rev]:
				c.seenRev[m.rev] = true
				c.logRev(d, m.rev, "revoke")
			case m.kind == "commitsig" && !c.seenSig[m.sigs]:
				c.seenSig[m.sigs] = true
				c.emit("S %s sent=%s\n", c02Name(d), c02SigHash(m.sigs))
			}
		}
	}
}

// ---------------------------------------------------------------------------
// durable state dump
// ---------------------------------------------------------------------------

func (c *c02Ctx) diskCommit(sb *strings.Builder, name, which string, cm *channeldb.ChannelCommitment) {
	fmt.Fprintf(sb, "KC %s %s h=%d our=%d their=%d fee=%d fpk=%d mi=%d,%d hi=%d,%d |", name, which,
		cm.CommitHeight, uint64(cm.LocalBalance), uint64(cm.RemoteBalance), int64(cm.CommitFee),
		int64(cm.FeePerKw), cm.LocalLogIndex, cm.RemoteLogIndex, cm.LocalHtlcIndex, cm.RemoteHtlcIndex)
	for i := range cm.Htlcs {
		h := &cm.Htlcs[i]
		dir, dust := "o", 0
		if h.Incoming {
			dir = "i"
		}
		if h.OutputIndex < 0 {
			dust = 1
		}
		fmt.Fprintf(sb, " H:%s:%d:%d:%d:%d:%d:%d", dir, h.HtlcIndex, uint64(h.Amt), h.RefundTimeout,
			c.p.hashID[h.RHash], dust, h.LogIndex)
	}
	sb.WriteString(" |")
	if cm.CommitTx != nil {
		for _, o := range cm.CommitTx.TxOut {
			fmt.Fprintf(sb, " O:%d:%s", o.Value, c02Hash(o.PkScript))
		}
	}
	sb.WriteString("\n")
}

func (c *c02Ctx) diskUpdates(sb *strings.Builder, name, which string, us []channeldb.LogUpdate) {
	fmt.Fprintf(sb, "KU %s %s", name, which)
	for _, u := range us {
		switch m := u.UpdateMsg.(type) {
		case *lnwire.UpdateAddHTLC:
			fmt.Fprintf(sb, " U:add:%d:%d:%d:%d:%d", u.LogIndex, m.ID, uint64(m.Amount), m.Expiry,
				c.p.hashID[m.PaymentHash])
		case *lnwire.UpdateFulfillHTLC:
			fmt.Fprintf(sb, " U:settle:%d:%d:0:0:0", u.LogIndex, m.ID)
		case *lnwire.UpdateFailHTLC:
			fmt.Fprintf(sb, " U:fail:%d:%d:0:0:0", u.LogIndex, m.ID)
		case *lnwire.UpdateFailMalformedHTLC:
			fmt.Fprintf(sb, " U:malformed:%d:%d:0:0:0", u.LogIndex, m.ID)
		case *lnwire.UpdateFee:
			fmt.Fprintf(sb, " U:fee:%d:0:%d:0:0", u.LogIndex, uint64(m.FeePerKw)*1000)
		default:
			fmt.Fprintf(sb, " U:other:%d:0:0:0:0", u.LogIndex)
		}
	}
	sb.WriteString("\n")
}

func c02Ids(us []channeldb.LogUpdate) string {
	var ids []string
	for _, u := range us {
		switch m := u.UpdateMsg.(type) {
		case *lnwire.UpdateAddHTLC:
			ids = append(ids, strconv.FormatUint(m.ID, 10))
		case *lnwire.UpdateFulfillHTLC:
			ids = append(ids, strconv.FormatUint(m.ID, 10))
		case *lnwire.UpdateFailHTLC:
			ids = append(ids, strconv.FormatUint(m.ID, 10))
		case *lnwire.UpdateFailMalformedHTLC:
			ids = append(ids, strconv.FormatUint(m.ID, 10))
		}
	}
	if len(ids) == 0 {
		return "-"
	}
	return strings.Join(ids, ",")
}

// dumpDisk prints everything a restart reads, from a freshly fetched handle.
func (c *c02Ctx) dumpDisk(x int, oc *chanstate.OpenChannel) {
	c.w.WriteString(c.diskString(x, oc))
}

func (c *c02Ctx) diskString(x int, oc *chanstate.OpenChannel) string {
	var sb strings.Builder
	name := c02Name(x)
	peer := 1 - x
	rh := oc.RemoteCommitment.CommitHeight

	diff, derr := oc.RemoteCommitChainTip()
	ph, dsig := "-", "-"
	if derr == nil && diff != nil {
		ph = strconv.FormatUint(diff.Commitment.CommitHeight, 10)
		parts := [][]byte{diff.CommitSig.CommitSig.RawBytes()}
		for i := range diff.CommitSig.HtlcSigs {
			parts = append(parts, diff.CommitSig.HtlcSigs[i].RawBytes())
		}
		dsig = c02Hash(parts...)
	} else if derr != nil && !errors.Is(derr, channeldb.ErrNoPendingCommit) {
		ph = "err"
	}
	ua, err1 := oc.UnsignedAckedUpdates()
	rul, err2 := oc.RemoteUnsignedLocalUpdates()
	uaN, rulN := strconv.Itoa(len(ua)), strconv.Itoa(len(rul))
	if err1 != nil {
		uaN = "err"
	}
	if err2 != nil {
		rulN = "err"
	}

	// revocation bookkeeping of the peer's chain
	rcur, rnext := -1, -1
	if oc.RemoteCurrentRevocation != nil {
		rcur = c.pointIndex(peer, oc.RemoteCurrentRevocation.SerializeCompressed(), rh+4)
	}
	if oc.RemoteNextRevocation != nil {
		rnext = c.pointIndex(peer, oc.RemoteNextRevocation.SerializeCompressed(), rh+4)
	}
	store := int64(rh)
	if rh > 0 {
		s, err := oc.RevocationStore.LookUp(rh - 1)
		want, _ := c.p.Ch[peer].channelState.RevocationProducer.AtIndex(rh - 1)
		if err != nil || want == nil || !bytes.Equal(s[:], want[:]) {
			store = -1
		}
	}
	if _, err := oc.RevocationStore.LookUp(rh); err == nil {
		store = -2
	}
	// the store still reproduces EVERY secret the peer has revealed so far
	storeAll := 1
	for i := uint64(0); i < rh; i++ {
		got, err := oc.RevocationStore.LookUp(i)
		want, _ := c.p.Ch[peer].channelState.RevocationProducer.AtIndex(i)
		if err != nil || want == nil || !bytes.Equal(got[:], want[:]) {
			storeAll = 0
		}
	}
	prev, curlog := 1, 0
	if rh > 0 {
		if _, _, err := oc.FindPreviousState(rh - 1); err != nil {
			prev = 0
		}
	}
	if _, _, err := oc.FindPreviousState(rh); err == nil {
		curlog = 1
	}

	var sigParts [][]byte
	hs := append([]channeldb.HTLC(nil), oc.LocalCommitment.Htlcs...)
	sort.Slice(hs, func(i, j int) bool {
		if hs[i].Incoming != hs[j].Incoming {
			return !hs[i].Incoming
		}
		return hs[i].HtlcIndex < hs[j].HtlcIndex
	})
	for i := range hs {
		sigParts = append(sigParts, hs[i].Signature)
	}

	b2i := func(b bool) int {
		if b {
			return 1
		}
		return 0
	}
	fmt.Fprintf(&sb, "K %s lh=%d rh=%d ph=%s lwr=%d ua=%s rul=%s rcur=%d rnext=%d store=%d storeall=%d prev=%d curlog=%d "+
		"lsig=%s lhs=%s dsig=%s st=%d\n", name, oc.LocalCommitment.CommitHeight, rh, ph,
		b2i(oc.LastWasRevoke), uaN, rulN, rcur, rnext, store, storeAll, prev, curlog,
		c02Hash(oc.LocalCommitment.CommitSig), c02Hash(sigParts...), dsig, uint64(oc.ChanStatus()))
	c.diskCommit(&sb, name, "L", &oc.LocalCommitment)
	c.diskCommit(&sb, name, "R", &oc.RemoteCommitment)
	if derr == nil && diff != nil {
		c.diskCommit(&sb, name, "P", &diff.Commitment)
		c.diskUpdates(&sb, name, "D", diff.LogUpdates)
	}
	c.diskUpdates(&sb, name, "U", ua)
	c.diskUpdates(&sb, name, "Q", rul)

	pkgs, err := oc.LoadFwdPkgs()
	fmt.Fprintf(&sb, "KF %s", name)
	if err != nil {
		sb.WriteString(" err")
	}
	sort.Slice(pkgs, func(i, j int) bool { return pkgs[i].Height < pkgs[j].Height })
	for _, p := range pkgs {
		// the complete package as a restarted link sees it: state and, for each
		// of the three filters, encoding / IsFull() / Contains(i) for i < count
		fmt.Fprintf(&sb, " F:%d:%s:%s:%d:%s:%s:%s", p.Height, c02Ids(p.Adds), c02Ids(p.SettleFails),
			int(p.State), c02Filter(p.FwdFilter), c02Filter(p.AckFilter), c02Filter(p.SettleFailFilter))
	}
	sb.WriteString("\n")
	return sb.String()
}

// c02Filter prints enc/full/bits of a PkgFilter; every call is guarded.
func c02Filter(f *channeldb.PkgFilter) string {
	if f == nil {
		return "nil"
	}
	res := ""
	func() {
		defer func() {
			if r := recover(); r != nil {
				res = "panic"
			}
		}()
		var b bytes.Buffer
		if err := f.Encode(&b); err != nil {
			res = "encerr"
			return
		}
		full := 0
		if f.IsFull() {
			full = 1
		}
		var bits strings.Builder
		for i := uint16(0); i < f.Count(); i++ {
			if f.Contains(i) {
				bits.WriteByte('1')
			} else {
				bits.WriteByte('0')
			}
		}
		bs := bits.String()
		if bs == "" {
			bs = "-"
		}
		res = fmt.Sprintf("%s/%d/%s", hex.EncodeToString(b.Bytes()), full, bs)
	}()
	return res
}

// linkTick does to node x's forwarding packages what its link does between two
// state-machine calls, through the same OpenChannel methods and with the
// packages as a restarted link holds them (freshly loaded): persist the
// forwarding decision of a locked-in package (SetFwdFilter with the package's
// own FwdFilter), acknowledge adds / settle-fails in random order (AckAddHtlcs,
// AckSettleFails).  Packages are not removed here (stream fwdpkg does).  The
// node is probed first, so every package an operation touches has been dumped.
func (c *c02Ctx) linkTick(x int, probed bool) {
	if !probed {
		c.probe(x)
	}
	if c.stop {
		return
	}
	oc, err := c.fetch(x)
	if err != nil {
		return
	}
	pkgs, err := oc.LoadFwdPkgs()
	if err != nil || len(pkgs) == 0 {
		return
	}
	live := c.p.Ch[x].channelState
	name := c02Name(x)
	guarded := func(f func() error) (res string) {
		defer func() {
			if rc := recover(); rc != nil {
				res = "panic"
			}
		}()
		if err := f(); err != nil {
			if errors.Is(err, channeldb.ErrCorruptedFwdPkg) {
				return "corrupted"
			}
			return "err"
		}
		return "ok"
	}
	// pick an operation that has something to do
	var locked, unackedAdds, unackedSfs []*channeldb.FwdPkg
	for _, q := range pkgs {
		if q.State == channeldb.FwdStateLockedIn {
			locked = append(locked, q)
		}
		if len(q.Adds) > 0 && !q.AckFilter.IsFull() {
			unackedAdds = append(unackedAdds, q)
		}
		if len(q.SettleFails) > 0 && !q.SettleFailFilter.IsFull() {
			unackedSfs = append(unackedSfs, q)
		}
	}
	p := pkgs[c.r.Intn(len(pkgs))]
	k := c.r.Intn(6)
	switch {
	case k < 2 && len(locked) > 0:
		p, k = locked[c.r.Intn(len(locked))], 0
	case k < 4 && len(unackedAdds) > 0:
		p, k = unackedAdds[c.r.Intn(len(unackedAdds))], 2
	case len(unackedSfs) > 0:
		p, k = unackedSfs[c.r.Intn(len(unackedSfs))], 4
	case len(unackedAdds) > 0:
		p, k = unackedAdds[c.r.Intn(len(unackedAdds))], 2
	case len(locked) > 0:
		p, k = locked[c.r.Intn(len(locked))], 0
	}
	switch {
	case k < 2:
		var idx []string
		filter := p.FwdFilter
		c.txBegin(x)
		res := guarded(func() error {
			for i := range p.Adds {
				if c.r.Intn(5) != 0 {
					idx = append(idx, strconv.Itoa(i))
				}
			}
			c.r.Shuffle(len(idx), func(i, j int) { idx[i], idx[j] = idx[j], idx[i] })
			for _, s := range idx {
				i, _ := strconv.Atoi(s)
				filter.Set(uint16(i))
			}
			return live.SetFwdFilter(p.Height, filter)
		})
		is := "-"
		if len(idx) > 0 {
			is = strings.Join(idx, ",")
		}
		c.emit("L %s op=setfwd h=%d idx=%s => %s passed=%s\n", name, p.Height, is, res, c02Filter(filter))
		c.txEnd(x, "link_setfwd", res)
		c.stats["link_setfwd"]++
	case k < 4:
		var refs []channeldb.AddRef
		var rs []string
		perm := c.r.Perm(len(p.Adds))
		for _, i := range perm {
			if len(refs) < 3 && (!p.AckFilter.Contains(uint16(i)) || c.r.Intn(6) == 0) {
				refs = append(refs, channeldb.AddRef{Height: p.Height, Index: uint16(i)})
				rs = append(rs, fmt.Sprintf("%d:%d", p.Height, i))
			}
		}
		if len(refs) == 0 {
			return
		}
		c.txBegin(x)
		res := guarded(func() error { return live.AckAddHtlcs(refs...) })
		c.emit("L %s op=ackadd refs=%s => %s\n", name, strings.Join(rs, ","), res)
		c.txEnd(x, "link_ackadd", res)
		c.stats["link_ackadd"]++
	default:
		var refs []channeldb.SettleFailRef
		var rs []string
		perm := c.r.Perm(len(p.SettleFails))
		for _, i := range perm {
			if len(refs) < 3 && (!p.SettleFailFilter.Contains(uint16(i)) || c.r.Intn(6) == 0) {
				refs = append(refs, channeldb.SettleFailRef{Source: p.Source, Height: p.Height, Index: uint16(i)})
				rs = append(rs, fmt.Sprintf("%d:%d", p.Height, i))
			}
		}
		if len(refs) == 0 {
			return
		}
		c.txBegin(x)
		res := guarded(func() error { return live.AckSettleFails(refs...) })
		c.emit("L %s op=acksf refs=%s => %s\n", name, strings.Join(rs, ","), res)
		c.txEnd(x, "link_acksf", res)
		c.stats["link_acksf"]++
	}
	// the durable state after the link operation = baseline for the crash
	// images of the next call
	c.probe(x)
}

// liveExtra prints the parts of the live node the C01 dump does not contain.
func (c *c02Ctx) liveExtra(x int) {
	ch := c.p.Ch[x]
	tail := ch.commitChains.Local.tail()
	type hk struct {
		inc bool
		idx uint64
		sig []byte
	}
	var hs []hk
	complete := true
	add := func(pds []paymentDescriptor, inc bool) {
		for i := range pds {
			var b []byte
			if pds[i].sig != nil {
				b = pds[i].sig.Serialize()
			} else if pds[i].localOutputIndex >= 0 {
				complete = false
			}
			hs = append(hs, hk{inc, pds[i].HtlcIndex, b})
		}
	}
	add(tail.outgoingHTLCs, false)
	add(tail.incomingHTLCs, true)
	sort.Slice(hs, func(i, j int) bool {
		if hs[i].inc != hs[j].inc {
			return !hs[i].inc
		}
		return hs[i].idx < hs[j].idx
	})
	var parts [][]byte
	for _, h := range hs {
		parts = append(parts, h.sig)
	}
	lhs := "-"
	if complete {
		lhs = c02Hash(parts...)
	}
	c.emit("X %s cur=%d lsig=%s lhs=%s\n", c02Name(x), ch.currentHeight, c02Hash(tail.sig), lhs)
}

// probe rebuilds node x from its database next to the live channel.
func (c *c02Ctx) probe(x int) {
	c.liveExtra(x)
	oc, err := c.fetch(x)
	if err != nil {
		c.emit("P %s => fetcherr\n", c02Name(x))
		c.stop = true
		return
	}
	lc, res := c.newChan(x, oc)
	c.emit("P %s => %s\n", c02Name(x), res)
	c.dumpDisk(x, oc)
	if lc != nil {
		old := c.p.Ch[x]
		c.p.Ch[x] = lc
		c.s.dump(x)
		c.p.Ch[x] = old
	} else {
		c.stop = true
	}
	c.stats["probes"]++
}

// after is called after every schedule step.
func (c *c02Ctx) after() {
	c.scanQueues()
	probed := false
	if c.pProbe <= 1 || c.r.Intn(c.pProbe) == 0 {
		c.probe(0)
		c.probe(1)
		probed = true
	}
	if !c.stop && c.r.Intn(3) == 0 {
		c.linkTick(c.r.Intn(2), probed)
	}
	if c.s.dead {
		c.stop = true
	}
}

// ---------------------------------------------------------------------------
// reloads
// ---------------------------------------------------------------------------

func (c *c02Ctx) eligibleM1(x int) bool {
	if c.taproot {
		return false
	}
	ch := c.p.Ch[x]
	return ch.updateLogs.Local.logIndex == ch.commitChains.Remote.tip().messageIndices.Local &&
		ch.updateLogs.Remote.logIndex == ch.commitChains.Local.tail().messageIndices.Remote &&
		!ch.commitChains.Local.hasUnackedCommitment()
}

func (c *c02Ctx) reload(x int, mode string) bool {
	oc, err := c.fetch(x)
	if err != nil {
		c.emit("R %s mode=%s => fetcherr %s\n", c02Name(x), mode, c.qlen())
		c.stop = true
		return false
	}
	lc, res := c.newChan(x, oc)
	c.emit("R %s mode=%s => %s %s\n", c02Name(x), mode, res, c.qlen())
	if lc == nil {
		c.stop = true
		return false
	}
	c.p.Ch[x] = lc
	c.pendSrc[x], c.pendDst[x] = nil, nil
	c.s.dump(x)
	c.stats["reload_"+mode]++
	return true
}

func c02SyncErr(err error) string {
	var dl *ErrCommitSyncLocalDataLoss
	switch {
	case err == nil:
		return "ok"
	case errors.As(err, &dl):
		return "localDataLoss"
	case errors.Is(err, ErrCommitSyncRemoteDataLoss):
		return "remoteDataLoss"
	case errors.Is(err, ErrCannotSyncCommitChains):
		return "cannotSync"
	case errors.Is(err, ErrInvalidLastCommitSecret):
		return "invalidSecret"
	case errors.Is(err, ErrInvalidLocalUnrevokedCommitPoint):
		return "invalidCommitPoint"
	}
	return "err:" + c01ErrClass(err)
}

// reconnect = m2: both sides restart, in-flight messages are lost, real
// channel_reestablish exchange, retransmissions are queued.
func (c *c02Ctx) reconnect() {
	c.p.Q[0], c.p.Q[1] = nil, nil
	for x := 0; x < 2; x++ {
		if !c.reload(x, "m2") {
			return
		}
	}
	var msgs [2]*lnwire.ChannelReestablish
	for x := 0; x < 2; x++ {
		m, err := c.p.Ch[x].channelState.ChanSyncMsg()
		if err != nil {
			c.emit("Y %s next=0 tail=0 => err:chansyncmsg msgs=- %s\n", c02Name(x), c.qlen())
			c.stop = true
			return
		}
		msgs[x] = m
	}
	order := []int{0, 1}
	if c.r.Intn(2) == 0 {
		order = []int{1, 0}
	}
	for _, x := range order {
		in := msgs[1-x]
		var (
			out []lnwire.Message
			res string
		)
		func() {
			defer func() {
				if r := recover(); r != nil {
					res = "panic"
				}
			}()
			o, _, _, err := c.p.Ch[x].ProcessChanSyncMsg(ctxb, in)
			out, res = o, c02SyncErr(err)
		}()
		var kinds []string
		var revs []*lnwire.RevokeAndAck
		for _, m := range out {
			switch mm := m.(type) {
			case *lnwire.UpdateAddHTLC:
				kinds = append(kinds, "add")
				c.p.Q[x] = append(c.p.Q[x], c01Msg{kind: "add", add: mm})
			case *lnwire.UpdateFulfillHTLC:
				kinds = append(kinds, "settle")
				c.p.Q[x] = append(c.p.Q[x], c01Msg{kind: "settle", idx: mm.ID, preimage: mm.PaymentPreimage})
			case *lnwire.UpdateFailHTLC:
				kinds = append(kinds, "fail")
				c.p.Q[x] = append(c.p.Q[x], c01Msg{kind: "fail", idx: mm.ID})
			case *lnwire.UpdateFailMalformedHTLC:
				kinds = append(kinds, "fail")
				c.p.Q[x] = append(c.p.Q[x], c01Msg{kind: "fail", idx: mm.ID})
			case *lnwire.UpdateFee:
				kinds = append(kinds, "fee")
				c.p.Q[x] = append(c.p.Q[x], c01Msg{kind: "fee", fee: chainfee.SatPerKWeight(mm.FeePerKw)})
			case *lnwire.CommitSig:
				kinds = append(kinds, "commitsig")
				sigs := &CommitSigs{CommitSig: mm.CommitSig, HtlcSigs: mm.HtlcSigs, PartialSig: mm.PartialSig}
				c.seenSig[sigs] = true
				c.p.Q[x] = append(c.p.Q[x], c01Msg{kind: "commitsig", sigs: sigs})
			case *lnwire.RevokeAndAck:
				kinds = append(kinds, "revoke")
				c.seenRev[mm] = true
				revs = append(revs, mm)
				c.p.Q[x] = append(c.p.Q[x], c01Msg{kind: "revoke", rev: mm})
			default:
				kinds = append(kinds, "other")
			}
		}
		ks := "-"
		if len(kinds) > 0 {
			ks = strings.Join(kinds, ",")
		}
		c.emit("Y %s next=%d tail=%d => %s msgs=%s %s\n", c02Name(x), in.NextLocalCommitHeight,
			in.RemoteCommitTailHeight, res, ks, c.qlen())
		c.s.dump(x)
		for _, rv := range revs {
			c.logRev(x, rv, "sync")
		}
		for _, m := range c.p.Q[x] {
			if m.kind == "commitsig" {
				c.emit("S %s sent=%s\n", c02Name(x), c02SigHash(m.sigs))
			}
		}
		c.stats["sync_"+res]++
		c.stats["sync_msgs_"+strconv.Itoa(len(kinds))]++
		if res != "ok" {
			c.stop = true
			return
		}
	}
}

// maybeReload performs a real reload after a step.
func (c *c02Ctx) maybeReload(force string) {
	if c.stop {
		return
	}
	switch force {
	case "m2":
		c.reconnect()
		c.after()
		return
	case "m1":
		did := false
		for x := 0; x < 2; x++ {
			if c.eligibleM1(x) {
				did = c.reload(x, "m1") || did
			}
		}
		if !did {
			c.reconnect()
		}
		c.after()
		return
	}
	switch c.r.Intn(14) {
	case 0:
		c.reconnect()
		c.after()
	case 1, 2, 3:
		did := false
		xs := []int{0, 1}
		if c.r.Intn(2) == 0 {
			xs = []int{1, 0}
		}
		for _, x := range xs {
			if c.eligibleM1(x) && c.r.Intn(3) != 0 {
				did = c.reload(x, "m1") || did
			}
		}
		if did {
			c.after()
		}
	}
}

// staleOps rewrites the channel through a handle fetched at the start of the
// case.  Any status flag blocks every further update of the channel
// (isChannelBorked), so in the middle of a schedule only the flag-clearing
// write is used; the flag-setting write (putChanStatus) is exercised by
// borkedTail at the end.
func (c *c02Ctx) staleOps() {
	for x := 0; x < 2; x++ {
		if c.stale[x] == nil {
			if oc, err := c.fetch(x); err == nil {
				c.stale[x] = oc
			}
			continue
		}
		if c.r.Intn(10) == 0 {
			c.probe(x) // current durable state = baseline of the comparison
			err := c.stale[x].ClearChanStatus(channeldb.ChanStatusCoopBroadcasted)
			c.emit("T %s status=clear stale_lh=%d stale_rh=%d => %s\n", c02Name(x),
				c.stale[x].LocalCommitment.CommitHeight, c.stale[x].RemoteCommitment.CommitHeight,
				c01ErrClass(err))
			c.stats["stale_status"]++
			c.probe(x)
		}
	}
}

// borkedTail: MarkBorked through the stale handle, then the durable write of
// every further state transition fails; nothing may be handed out.
func (c *c02Ctx) borkedTail() {
	for x := 0; x < 2; x++ {
		h := c.stale[x]
		if h == nil {
			oc, err := c.fetch(x)
			if err != nil {
				continue
			}
			h = oc
		}
		c.probe(x) // current durable state = baseline of the comparison
		err := h.MarkBorked()
		c.emit("T %s status=borked stale_lh=%d stale_rh=%d => %s\n", c02Name(x),
			h.LocalCommitment.CommitHeight, h.RemoteCommitment.CommitHeight, c01ErrClass(err))
		c.probe(x)
	}
	// give both sides something to do
	for x := 0; x < 2; x++ {
		ch := c.p.Ch[x]
		if !ch.commitChains.Local.hasUnackedCommitment() && len(c.p.Q[1-x]) > 0 &&
			c.p.Q[1-x][0].kind == "commitsig" {

			m := c.p.Q[1-x][0]
			c.p.Q[1-x] = c.p.Q[1-x][1:]
			err := ch.ReceiveNewCommitment(m.sigs)
			c.emit("Z %s recvsig => %s\n", c02Name(x), c01ErrClass(err))
		}
	}
	for x := 0; x < 2; x++ {
		ch := c.p.Ch[x]
		name := c02Name(x)
		if ch.commitChains.Local.hasUnackedCommitment() {
			res, got := "ok", 0
			func() {
				defer c01Recover(&res)
				rev, _, _, err := ch.RevokeCurrentCommitment()
				if errors.Is(err, channeldb.ErrChanBorked) {
					res = "borked"
				} else {
					res = c01ErrClass(err)
				}
				if rev != nil {
					got = 1
					c.logRev(x, rev, "revoke")
				}
			}()
			c.emit("Z %s revoke => %s out=%d\n", name, res, got)
			c.stats["borked_revoke"]++
			c.probe(x)
			continue
		}
		if ch.OweCommitment() && !ch.commitChains.Remote.hasUnackedCommitment() {
			res, got := "ok", 0
			func() {
				defer c01Recover(&res)
				st, err := ch.SignNextCommitment(ctxb)
				if errors.Is(err, channeldb.ErrChanBorked) {
					res = "borked"
				} else {
					res = c01ErrClass(err)
				}
				if st != nil {
					got = 1
				}
			}()
			c.emit("Z %s sign => %s out=%d\n", name, res, got)
			c.stats["borked_sign"]++
			c.probe(x)
		}
	}
}

// ---------------------------------------------------------------------------
// schedule
// ---------------------------------------------------------------------------

// c02RevErr classifies the answer of ReceiveRevocation.
func c02RevErr(err error) string {
	switch {
	case err == nil:
		return "ok"
	case strings.Contains(err.Error(), "revocation key mismatch"):
		return "keyMismatch"
	case strings.Contains(err.Error(), "isn't derivable"):
		return "storeReject"
	}
	return c01ErrClass(err)
}

// bogusRevocation: the oldest message of direction d is an honest
// revoke_and_ack; BEFORE it, a dishonest variant is handed to the receiver:
// the secret has one bit flipped / is the peer's secret of another height / is
// random, the next commitment point is the right one or a wrong one.  The
// receiver must refuse it, persist nothing, and keep every earlier secret.
// Afterwards both sides reconnect (lnd fails the link on a refused revocation;
// the in-memory shachain store may have taken the value before the commitment
// point comparison failed), the honest revocation is retransmitted by the
// channel_reestablish exchange and must be accepted.
func (c *c02Ctx) bogusRevocation(d int) {
	honest := c.p.Q[d][0].rev
	snd, rcv := d, 1-d
	ch := c.p.Ch[rcv]
	h := ch.commitChains.Remote.tail().height
	prod := c.p.Ch[snd].channelState.RevocationProducer
	bad := *honest
	kind := c01Pick(c.r, "flip", "other", "other", "random")
	switch kind {
	case "flip":
		bad.Revocation[c.r.Intn(32)] ^= 1 << uint(c.r.Intn(8))
	case "other":
		o := h + 1 + uint64(c.r.Intn(3))
		if h > 0 && c.r.Intn(2) == 0 {
			o = h - 1 - uint64(c.r.Intn(int(h)))
		}
		sec, _ := prod.AtIndex(o)
		copy(bad.Revocation[:], sec[:])
	case "random":
		c.r.Read(bad.Revocation[:])
	}
	np := "ok"
	if c.r.Intn(3) == 0 {
		np = "bad"
		sec, _ := prod.AtIndex(h + 3 + uint64(c.r.Intn(3)))
		bad.NextRevocationKey = input.ComputeCommitmentPoint(sec[:])
	}
	c.probe(rcv) // current durable state = baseline of the "nothing persisted" comparison
	res := "ok"
	c.txBegin(rcv)
	func() {
		defer c01Recover(&res)
		_, _, err := ch.ReceiveRevocation(&bad)
		res = c02RevErr(err)
	}()
	c.txEnd(rcv, "recv_bogus", res)
	var npb []byte
	if bad.NextRevocationKey != nil {
		npb = bad.NextRevocationKey.SerializeCompressed()
	}
	dir := "AB"
	if d == 1 {
		dir = "BA"
	}
	c.emit("W %s kind=%s np=%s h=%d s=%d npi=%d => %s %s\n", dir, kind, np, h,
		c.secretIndex(snd, bad.Revocation, h+8), c.pointIndex(snd, npb, h+10), res, c.qlen())
	c.s.dump(rcv)
	c.stats["bogus_"+kind+"_"+res]++
	c.probe(rcv)
	if res == "ok" {
		// the property is already violated; the channel state is poisoned
		c.stop = true
		return
	}
	c.reconnect()
	c.after()
}

// deliver hands the oldest message of direction d to its receiver.  A node that
// has accepted a commitment revokes in the same handler (as lnd's link does:
// ReceiveNewCommitment is directly followed by RevokeCurrentCommitment); the
// only thing that can fall between the two calls is a crash.  Schedules in
// which a node keeps operating while it sits on an unrevoked commitment are
// excluded: that commitment is not durable, and a signature retransmitted
// after a restart is checked against whatever the peer has acknowledged by
// then.
func (c *c02Ctx) deliver(d int, crashWindow bool) {
	s := c.s
	kind := s.p.Q[d][0].kind
	if kind == "revoke" && crashWindow && c.r.Intn(c.pBogus) == 0 {
		c.bogusRevocation(d)
		return
	}
	res := c.runDeliver(d)
	c.after()
	if c.stop || kind != "commitsig" || res != "ok" {
		return
	}
	x := 1 - d
	if crashWindow && c.r.Intn(12) == 0 {
		// crash between ReceiveNewCommitment and RevokeCurrentCommitment
		c.stats["crash_before_revoke"]++
		c.reconnect()
		c.after()
		return
	}
	if s.p.Ch[x].commitChains.Local.hasUnackedCommitment() {
		c.runAct(x, c01Act{Kind: "revoke"})
		c.after()
	}
}

// step is c01Sched.step with per-case weights (lazy signers / lazy revokers /
// fee bursts keep updates in the signed-by-one-side-only windows that restore
// has to reconstruct).
func (c *c02Ctx) step(maxAdds int) bool {
	s, r := c.s, c.r
	var cs []c01Choice
	add := func(w int, f func()) {
		if w > 0 {
			cs = append(cs, c01Choice{w, f})
		}
	}
	for d := 0; d < 2; d++ {
		d := d
		if len(s.p.Q[d]) > 0 {
			add(c.wDeliver[d], func() { c.deliver(d, true) })
		}
	}
	for x := 0; x < 2; x++ {
		x := x
		ch := s.p.Ch[x]
		if s.adds[x] < maxAdds {
			add(3, func() {
				var a c01Act
				if s.last != nil && r.Intn(6) == 0 {
					a = *s.last
				} else {
					a = c01Act{Kind: "add", Amt: s.pickAmount(x),
						Expiry: c01Pick(r, uint32(100), 144, 144, 500),
						HashID: s.p.newHash()}
				}
				if c.runAct(x, a) == "ok" {
					s.adds[x]++
					s.last = &a
				}
			})
		}
		if cand := s.settleable(x); len(cand) > 0 {
			add(3, func() {
				idx := cand[r.Intn(len(cand))]
				kind := c01Pick(r, "settle", "settle", "fail", "malformed", "malformed")
				c.resolve(x, kind, idx)
			})
		}
		if ch.channelState.IsInitiator {
			add(c.wFee, func() {
				f := s.pickFee(x)
				if f < 253 {
					f = 253 + chainfee.SatPerKWeight(r.Intn(50))
				}
				c.runAct(x, c01Act{Kind: "fee", FeePerKw: f})
			})
		}
		if ch.OweCommitment() {
			w := c.wSign[x]
			if ch.commitChains.Remote.hasUnackedCommitment() {
				w = 1
				if r.Intn(4) != 0 {
					w = 0
				}
			}
			add(w, func() { c.runAct(x, c01Act{Kind: "sign"}) })
		}
		if ch.commitChains.Local.hasUnackedCommitment() {
			add(1000, func() { c.runAct(x, c01Act{Kind: "revoke"}) })
		}
	}
	if len(cs) == 0 {
		return false
	}
	total := 0
	for _, ch := range cs {
		total += ch.w
	}
	k := r.Intn(total)
	for _, ch := range cs {
		if k < ch.w {
			ch.run()
			return true
		}
		k -= ch.w
	}
	return true
}

// drain is c01Sched.drain with the probe hook after every operation.
func (c *c02Ctx) drain(resolve bool, reloads bool) {
	s := c.s
	for i := 0; i < 200 && !s.dead && !c.stop; i++ {
		progress := false
		for d := 0; d < 2; d++ {
			for len(s.p.Q[d]) > 0 && !s.dead && !c.stop {
				c.deliver(d, reloads)
				progress = true
			}
		}
		if s.dead || c.stop {
			return
		}
		for x := 0; x < 2; x++ {
			if s.p.Ch[x].commitChains.Local.hasUnackedCommitment() {
				c.runAct(x, c01Act{Kind: "revoke"})
				c.after()
				progress = true
				if reloads {
					c.maybeReload("")
				}
			}
		}
		for x := 0; x < 2 && !c.stop; x++ {
			ch := s.p.Ch[x]
			if ch.OweCommitment() && !ch.commitChains.Remote.hasUnackedCommitment() {
				if c.runAct(x, c01Act{Kind: "sign"}) == "ok" {
					progress = true
				}
				c.after()
				if reloads {
					c.maybeReload("")
				}
			}
		}
		if !progress && resolve {
			for x := 0; x < 2 && !c.stop; x++ {
				for _, idx := range s.settleable(x) {
					c.resolve(x, c01Pick(s.r, "settle", "fail", "malformed"), idx)
					c.after()
					progress = true
				}
			}
		}
		if !progress {
			return
		}
	}
}

// burst is a scripted family: rounds of "x performs a few updates and signs,
// the peer acknowledges with a revocation and (often) does NOT sign back yet",
// so that updates signed by one side only (remote-unsigned-local / unsigned-acked
// lists) coexist with a pending commit diff; a restart is placed at a random
// boundary inside the rounds.
func (c *c02Ctx) burst(rounds int, maxAdds int) {
	s, r := c.s, c.r
	cut := r.Intn(rounds*4 + 1)
	pos := 0
	boundary := func() {
		if c.stop {
			return
		}
		if pos == cut {
			c.maybeReload(c01Pick(r, "m1", "m2"))
		} else if r.Intn(9) == 0 {
			c.maybeReload(c01Pick(r, "m1", "m1", "m2"))
		}
		pos++
	}
	deliverAll := func(d int) {
		for len(s.p.Q[d]) > 0 && !c.stop {
			c.deliver(d, true)
		}
	}
	for i := 0; i < rounds && !c.stop; i++ {
		x := r.Intn(2)
		if s.p.Ch[x].channelState.IsInitiator && r.Intn(3) != 0 {
			// keep the opener busy: fee updates are the only non-add update
			// available on an empty channel
		} else if r.Intn(2) == 0 {
			x = 1 - x
		}
		ch := s.p.Ch[x]
		n := 1 + r.Intn(3)
		for k := 0; k < n && !c.stop; k++ {
			cand := s.settleable(x)
			switch {
			case ch.channelState.IsInitiator && r.Intn(2) == 0:
				f := s.pickFee(x)
				if f < 253 {
					f = 253 + chainfee.SatPerKWeight(r.Intn(50))
				}
				c.runAct(x, c01Act{Kind: "fee", FeePerKw: f})
			case len(cand) > 0 && r.Intn(2) == 0:
				c.resolve(x, c01Pick(r, "settle", "fail", "malformed"), cand[r.Intn(len(cand))])
			case s.adds[x] < maxAdds:
				a := c01Act{Kind: "add", Amt: s.pickAmount(x), Expiry: c01Pick(r, uint32(100), 144, 500),
					HashID: s.p.newHash()}
				if c.runAct(x, a) == "ok" {
					s.adds[x]++
				}
			default:
				continue
			}
			c.after()
		}
		boundary()
		if c.stop {
			return
		}
		ch = s.p.Ch[x]
		if ch.OweCommitment() && !ch.commitChains.Remote.hasUnackedCommitment() {
			c.runAct(x, c01Act{Kind: "sign"})
			c.after()
		}
		boundary()
		deliverAll(x)
		if c.stop {
			return
		}
		y := 1 - x
		if s.p.Ch[y].commitChains.Local.hasUnackedCommitment() {
			c.runAct(y, c01Act{Kind: "revoke"})
			c.after()
		}
		boundary()
		deliverAll(y)
		if c.stop {
			return
		}
		boundary()
		if r.Intn(2) == 0 {
			// the peer signs back, x acknowledges
			chy := s.p.Ch[y]
			if chy.OweCommitment() && !chy.commitChains.Remote.hasUnackedCommitment() {
				c.runAct(y, c01Act{Kind: "sign"})
				c.after()
				deliverAll(y)
				if !c.stop && s.p.Ch[x].commitChains.Local.hasUnackedCommitment() {
					c.runAct(x, c01Act{Kind: "revoke"})
					c.after()
					deliverAll(x)
				}
			}
		}
	}
}

// runCase executes one schedule.  forceAt >= 0: exactly one forced reload
// (mode forceMode) after step forceAt and no random ones before it.
func c02RunCase(t *testing.T, w *bufio.Writer, stats map[string]int, caseID int, kind c01ChanKind,
	seed int64, maxSteps, maxAdds int, forceAt int, forceMode string, pProbe int) {

	r := rand.New(rand.NewSource(seed))
	p := c01GenParams(r, kind)
	pair, err := c01NewPair(t, p, uint32(caseID))
	if err != nil {
		t.Fatalf("pair: %v", err)
	}
	s := &c01Sched{r: r, p: pair, w: w, stats: stats}
	c := &c02Ctx{s: s, p: pair, w: w, r: r, stats: stats,
		seenRev: map[*lnwire.RevokeAndAck]bool{}, seenSig: map[*CommitSigs]bool{},
		taproot: p.ChanType.IsTaproot(), pProbe: pProbe, pBogus: 5}
	c.wrapDB(t, 0)
	c.wrapDB(t, 1)
	lazy := r.Intn(3)
	for x := 0; x < 2; x++ {
		c.wSign[x], c.wRevoke[x], c.wDeliver[x] = 4, 8, 4
	}
	switch lazy {
	case 1:
		// one side signs rarely, the other keeps producing commitments
		z := r.Intn(2)
		c.wSign[z] = 1
	case 2:
		z := r.Intn(2)
		c.wSign[z], c.wRevoke[z] = 1, 2
		c.wDeliver[r.Intn(2)] = 2
	}
	c.wFee = c01Pick(r, 1, 1, 3, 5)

	fam := "rand"
	if forceAt >= 0 {
		fam = "at" + strconv.Itoa(forceAt) + forceMode
	} else if forceAt == -2 {
		fam = "burst"
	}
	w.WriteString(c01CaseHeader(caseID, "c02_"+fam, p, pair))
	s.dump(0)
	s.dump(1)
	c.after()
	steps := 10 + r.Intn(maxSteps)
	if forceAt == -2 {
		steps = 0
		c.burst(3+r.Intn(6), maxAdds)
	}
	for i := 0; i < steps && !c.stop; i++ {
		if !c.step(maxAdds) {
			break
		}
		c.after()
		if c.stop {
			break
		}
		switch {
		case forceAt < 0:
			c.staleOps()
			c.maybeReload("")
		case i == forceAt:
			c.maybeReload(forceMode)
		case i > forceAt:
			c.maybeReload("")
		}
		if r.Intn(30) == 0 {
			c.drain(false, forceAt < 0)
		}
	}
	if !c.stop {
		c.drain(r.Intn(2) == 0, forceAt == -1)
	}
	if !c.stop {
		// always end with a real restart of both sides and a full dance
		c.reconnect()
		c.after()
		c.drain(false, false)
	}
	if !c.stop {
		// leave something pending for the borked tail
		for i := 0; i < 6 && !c.stop; i++ {
			if !c.step(maxAdds + 2) {
				break
			}
			c.after()
		}
		c.borkedTail()
	}
	w.WriteString("END\n")
	stats["cases"]++
	stats["type_"+kind.name]++
	stats["family_"+strings.TrimRight(fam, "0123456789m")]++
}

func TestVerifC02(t *testing.T) {
	out := os.Getenv("VERIF_OUT")
	if out == "" {
		t.Skip("VERIF_OUT not set")
	}
	seed, _ := strconv.ParseInt(os.Getenv("VERIF_SEED"), 10, 64)
	tier := os.Getenv("VERIF_TIER")
	f, err := os.Create(out)
	if err != nil {
		t.Fatal(err)
	}
	defer f.Close()
	w := bufio.NewWriterSize(f, 1<<20)
	defer w.Flush()

	perKind, maxSteps, maxAdds, exhaustive := 7, 36, 6, 0
	if tier == "thorough" {
		perKind, maxSteps, maxAdds, exhaustive = 40, 70, 10, 3
	}
	if v, err := strconv.Atoi(os.Getenv("VERIF_C02_CASES")); err == nil && v > 0 {
		perKind = v
	}

	fmt.Fprintf(w, "FACT commitWeight=%d anchorCommitWeight=%d taprootCommitWeight=%d htlcWeight=%d "+
		"htlcTimeoutWeight=%d htlcSuccessWeight=%d htlcTimeoutWeightConf=%d htlcSuccessWeightConf=%d "+
		"anchorSize=%d feeFloor=%d\n",
		input.CommitWeight, input.AnchorCommitWeight, input.TaprootCommitWeight, input.HTLCWeight,
		input.HtlcTimeoutWeight, input.HtlcSuccessWeight, input.HtlcTimeoutWeightConfirmed,
		input.HtlcSuccessWeightConfirmed, int64(AnchorSize), int64(chainfee.FeePerKwFloor))

	stats := map[string]int{}
	id := 0
	for ki, kind := range c01ChanKinds {
		for n := 0; n < perKind; n++ {
			id++
			caseID := id
			cs := seed*1_000_003 + int64(ki)*10_007 + int64(n) + 77
			fam := -1
			if n%3 == 2 {
				fam = -2
			}
			t.Run(fmt.Sprintf("%s_%d", kind.name, n), func(t *testing.T) {
				c02RunCase(t, w, stats, caseID, kind, cs, maxSteps, maxAdds, fam, "", 1)
			})
		}
		// exhaustive family: the same schedule restarted after every single step
		for n := 0; n < exhaustive; n++ {
			cs := seed*1_000_003 + int64(ki)*10_007 + int64(n) + 5_000
			for at := 0; at < 24; at++ {
				id++
				caseID := id
				mode := "m2"
				if at%2 == 1 {
					mode = "m1"
				}
				t.Run(fmt.Sprintf("%s_x%d_%d", kind.name, n, at), func(t *testing.T) {
					c02RunCase(t, w, stats, caseID, kind, cs, 16, maxAdds, at, mode, 4)
				})
			}
		}
	}
	keys := make([]string, 0, len(stats))
	for k := range stats {
		keys = append(keys, k)
	}
	sort.Strings(keys)
	for _, k := range keys {
		fmt.Fprintf(w, "HSTAT %s=%d\n", k, stats[k])
	}
}
