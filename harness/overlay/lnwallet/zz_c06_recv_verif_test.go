//go:build verif

package lnwallet

// C06 harness, receiving half (cases `kind=recv` inside stream `release`):
// LightningChannel.ReceiveRevocation with the REAL shachain store, the
// commitment-point comparison, AdvanceCommitChainTail's persistence of the
// revocation state (putChanRevocationState) and its re-reading
// (fetchChanRevocationState) on a real bbolt database.
//
// Node A is the receiver under test, node B an honest peer.  Every round A
// adds an HTLC and signs, B accepts and revokes; before B's honest
// revoke_and_ack reaches A, dishonest variants may be handed to A (bit flip,
// the peer's secret of another height, random bytes, a value crafted to fit
// the NEXT store slot, an honest secret with a wrong next point), and the
// AdvanceCommitChainTail write may be made to fail.  After a refused message
// A is rebuilt from the database (what lnd does: the link fails, the channel
// is re-read on reconnect) or - as a terminal probe, flagged obj=poisoned -
// the very same object is used again.
//
// After every step the trace carries the in-memory revocation state of A's
// OpenChannel (store encoding, current / next remote commitment point), the
// RAW bytes stored under the revocation-state key of A's channel bucket, the
// re-encoding of what FetchOpenChannels decodes from them, and LookUp(v) of
// the decoded store for every height up to the next one.

import (
	"bufio"
	"bytes"
	"crypto/sha256"
	"encoding/hex"
	"fmt"
	"math/rand"
	"strings"
	"testing"

	"github.com/btcsuite/btcd/btcec/v2"
	"github.com/btcsuite/btcd/btcutil/v2"
	"github.com/lightningnetwork/lnd/channeldb"
	"github.com/lightningnetwork/lnd/chanstate"
	"github.com/lightningnetwork/lnd/input"
	"github.com/lightningnetwork/lnd/kvdb"
	"github.com/lightningnetwork/lnd/lnwire"
)

func c06Hex(b []byte) string {
	if len(b) == 0 {
		return "-"
	}
	return hex.EncodeToString(b)
}

func c06Pt(p *btcec.PublicKey) string {
	if p == nil {
		return "-"
	}
	return hex.EncodeToString(p.SerializeCompressed())
}

// c06RawRevState reads the raw value stored under the revocation state key of
// the channel's bucket.
func c06RawRevState(n *c06Node) []byte {
	cdb, ok := n.real.(*channeldb.ChannelStateDB)
	if !ok {
		return nil
	}
	var out []byte
	_ = kvdb.View(cdb.GetParentDB(), func(tx kvdb.RTx) error {
		b := tx.ReadBucket([]byte("open-chan-bucket"))
		if b == nil {
			return nil
		}
		b = b.NestedReadBucket(n.handle.IdentityPub.SerializeCompressed())
		if b == nil {
			return nil
		}
		b = b.NestedReadBucket(n.handle.ChainHash[:])
		if b == nil {
			return nil
		}
		// graphdb.WriteOutpoint: 32-byte hash, big-endian uint32 index
		fo := n.handle.FundingOutpoint
		op := append([]byte(nil), fo.Hash[:]...)
		op = append(op, byte(fo.Index>>24), byte(fo.Index>>16), byte(fo.Index>>8), byte(fo.Index))
		b = b.NestedReadBucket(op)
		if b == nil {
			return nil
		}
		v := b.Get([]byte("revocation-state-key"))
		out = append([]byte(nil), v...)
		return nil
	}, func() { out = nil })
	return out
}

// c06EncRevState re-encodes the revocation state of an OpenChannel through the
// public encoders of its parts, in the layout of putChanRevocationState.
func c06EncRevState(oc *chanstate.OpenChannel) []byte {
	var b bytes.Buffer
	if oc.RemoteCurrentRevocation != nil {
		b.Write(oc.RemoteCurrentRevocation.SerializeCompressed())
	}
	if oc.RevocationProducer != nil {
		_ = oc.RevocationProducer.Encode(&b)
	}
	if oc.RevocationStore != nil {
		_ = oc.RevocationStore.Encode(&b)
	}
	if oc.RemoteNextRevocation != nil {
		b.Write(oc.RemoteNextRevocation.SerializeCompressed())
	}
	return b.Bytes()
}

func c06StoreHex(oc *chanstate.OpenChannel) string {
	var b bytes.Buffer
	if oc.RevocationStore == nil || oc.RevocationStore.Encode(&b) != nil {
		return "-"
	}
	return c06Hex(b.Bytes())
}

type c06Recv struct {
	*c06Case
	poisoned bool
	accepted int // revocations accepted and persisted so far
}

// state prints A's in-memory revocation state, the raw durable bytes, the
// re-encoding of the decoded durable state and look-ups on the decoded store.
func (c *c06Recv) state() string {
	n := c.n[0]
	raw := c06RawRevState(n)
	refetch, looks := "-", ""
	if oc, err := c.fetch(0); err == nil {
		refetch = c06Hex(c06EncRevState(oc))
		for v := 0; v <= c.accepted+2; v++ {
			h, err := oc.RevocationStore.LookUp(uint64(v))
			if err != nil {
				looks += fmt.Sprintf(" k%d=none", v)
			} else {
				looks += fmt.Sprintf(" k%d=%s", v, c06Hex(h[:]))
			}
		}
	}
	return fmt.Sprintf("mstore=%s mcur=%s mnext=%s disk=%s refetch=%s%s",
		c06StoreHex(n.handle), c06Pt(n.handle.RemoteCurrentRevocation),
		c06Pt(n.handle.RemoteNextRevocation), c06Hex(raw), refetch, looks)
}

func c06RevErrClass(err error) string {
	if err == nil {
		return "ok"
	}
	cl := c06ErrClass(err)
	if cl != "err:other" {
		return cl
	}
	msg := err.Error()
	switch {
	case strings.Contains(msg, "revocation key mismatch"):
		return "err:keymismatch"
	case strings.Contains(msg, "isn't derivable"), strings.Contains(msg, "prefixes are different"):
		return "err:storereject"
	}
	return cl
}

// recv hands one revoke_and_ack to A and logs it.
func (c *c06Recv) recv(kind string, m *lnwire.RevokeAndAck) string {
	n := c.n[0]
	var (
		err error
		pan bool
	)
	func() {
		defer func() {
			if r := recover(); r != nil {
				pan = true
			}
		}()
		_, _, err = n.lc.ReceiveRevocation(m)
	}()
	res := c06RevErrClass(err)
	if pan {
		res = "panic"
	}
	fail := "-"
	if n.fs.fired != "" {
		fail = n.fs.fired
	}
	n.fs.fired = ""
	obj := "clean"
	if c.poisoned {
		obj = "poisoned"
	}
	if res == "ok" && !c.poisoned {
		c.accepted++
	}
	pt := input.ComputeCommitmentPoint(m.Revocation[:])
	c.emit("R A recvrev kind=%s obj=%s sec=%s np=%s pt=%s => %s fail=%s %s\n", kind, obj,
		c06Hex(m.Revocation[:]), c06Pt(m.NextRevocationKey), c06Pt(pt), res, fail, c.state())
	c.stats["rcv_"+kind+"_"+res]++
	if res == "err:keymismatch" || fail != "-" || (res != "ok" && res != "err:storereject") {
		c.poisoned = true
	}
	return res
}

func (c *c06Recv) reload() bool {
	n := c.n[0]
	oc, err := c.fetch(0)
	var lc *LightningChannel
	if err == nil {
		oc.Db = n.fs
		func() {
			defer func() {
				if r := recover(); r != nil {
					err = fmt.Errorf("panic")
				}
			}()
			lc, err = NewLightningChannel(n.signer, oc, n.pool)
		}()
	}
	if err != nil || lc == nil {
		c.emit("L A reload => err\n")
		return false
	}
	n.lc, n.handle = lc, oc
	c.poisoned = false
	c.emit("L A reload => ok %s\n", c.state())
	c.stats["rcv_reload"]++
	return true
}

func c06RunRecvCase(t *testing.T, w *bufio.Writer, id string, seed int64, idx int,
	thorough bool, stats map[string]int) {

	r := rand.New(rand.NewSource(seed))
	types := []channeldb.ChannelType{
		channeldb.SingleFunderTweaklessBit,
		channeldb.SingleFunderTweaklessBit | channeldb.AnchorOutputsBit |
			channeldb.ZeroHtlcTxFeeBit,
	}
	ct := types[idx%len(types)]
	a, b, err := CreateTestChannels(t, ct)
	if err != nil {
		t.Fatalf("create channels: %v", err)
	}
	cc := &c06Case{t: t, w: w, r: r, stats: stats}
	for x, lc := range []*LightningChannel{a, b} {
		fs := &c06Store{Store: lc.channelState.Db, calls: map[string]int{}}
		cc.n[x] = &c06Node{
			lc: lc, handle: lc.channelState, real: lc.channelState.Db, fs: fs,
			signer: lc.Signer, pool: lc.sigPool,
		}
		lc.channelState.Db = fs
		fs.borkFn = func() {}
	}
	c := &c06Recv{c06Case: cc}
	// one failing AdvanceCommitChainTail in every third case
	if idx%3 == 1 {
		c.n[0].fs.plan = append(c.n[0].fs.plan,
			c06Fault{"AdvanceCommitChainTail", 1 + (idx/3)%6, false})
	}
	rounds := 7 + r.Intn(5)
	if thorough {
		rounds = 10 + r.Intn(14)
	}
	// the bogus message of this case is aimed at one height, walked systematically
	target := idx % 8
	kinds := []string{"flip", "other", "random", "craft", "badnext", "flip", "craft", "other"}
	prodB := c.n[1].handle.RevocationProducer

	c.emit("CASE %s kind=recv type=%d target=%d\n", id, uint64(ct), target)
	c.emit("I A init => ok %s\n", c.state())
	for rd := 0; rd < rounds; rd++ {
		c.nAdd++
		pre := sha256.Sum256([]byte(fmt.Sprintf("c06r-%d", c.nAdd)))
		h := &lnwire.UpdateAddHTLC{
			PaymentHash: sha256.Sum256(pre[:]),
			Amount:      lnwire.NewMSatFromSatoshis(btcutil.Amount(20000 + 1000*c.nAdd)),
			Expiry:      uint32(10),
		}
		var rev *lnwire.RevokeAndAck
		ok := func() (ok bool) {
			defer func() {
				if rc := recover(); rc != nil {
					ok = false
				}
			}()
			idxH, err := c.n[0].lc.AddHTLC(h, nil)
			if err != nil {
				return false
			}
			h.ID = idxH
			if _, err := c.n[1].lc.ReceiveHTLC(h); err != nil {
				return false
			}
			ns, err := c.n[0].lc.SignNextCommitment(ctxb)
			if err != nil {
				return false
			}
			err = c.n[1].lc.ReceiveNewCommitment(&CommitSigs{
				CommitSig: ns.CommitSig, HtlcSigs: ns.HtlcSigs,
			})
			if err != nil {
				return false
			}
			rev, _, _, err = c.n[1].lc.RevokeCurrentCommitment()
			return err == nil && rev != nil
		}()
		if !ok {
			c.emit("# round %d derailed before the revocation\n", rd)
			stats["rcv_derailed"]++
			break
		}
		height := uint64(rd) // B's commitment being revoked
		terminal := false
		nBogus := 0
		if rd == target || r.Intn(4) == 0 {
			nBogus = 1 + r.Intn(2)
		}
		for i := 0; i < nBogus && !terminal; i++ {
			kind := kinds[r.Intn(len(kinds))]
			if rd == target && i == 0 {
				kind = kinds[(idx/8)%len(kinds)]
			}
			bad := *rev
			switch kind {
			case "flip":
				bad.Revocation[r.Intn(32)] ^= 1 << uint(r.Intn(8))
			case "other":
				o := height + 1 + uint64(r.Intn(3))
				if height > 0 && r.Intn(2) == 0 {
					o = height - 1 - uint64(r.Intn(int(height)))
				}
				s, _ := prodB.AtIndex(o)
				copy(bad.Revocation[:], s[:])
			case "random":
				r.Read(bad.Revocation[:])
			case "craft":
				// the value the NEXT store slot would derive for this slot
				// from the honest secret
				buf := rev.Revocation
				buf[0] ^= 1
				bad.Revocation = sha256.Sum256(buf[:])
			case "badnext":
				s, _ := prodB.AtIndex(height + 3 + uint64(r.Intn(3)))
				bad.NextRevocationKey = input.ComputeCommitmentPoint(s[:])
			}
			res := c.recv(kind, &bad)
			if res == "ok" {
				// the message was taken (honest secret with a foreign next
				// point): the honest run cannot continue
				terminal = true
				break
			}
			if c.poisoned {
				if r.Intn(4) == 0 {
					// terminal probe on the very same object
					c.recv("honest", rev)
					terminal = true
					break
				}
				if !c.reload() {
					terminal = true
				}
			} else if r.Intn(2) == 0 {
				if !c.reload() {
					terminal = true
				}
			}
		}
		if terminal {
			break
		}
		res := c.recv("honest", rev)
		if res != "ok" {
			if !c.poisoned || !c.reload() {
				break
			}
			// the failed write is retried after the restart
			if c.recv("honest", rev) != "ok" {
				break
			}
		}
		if r.Intn(5) == 0 {
			if !c.reload() {
				break
			}
		}
	}
	c.emit("END\n")
	stats["rcv_cases"]++
}

func c06RecvCases(t *testing.T, w *bufio.Writer, seed int64, thorough bool,
	stats map[string]int) {

	n := 16
	if thorough {
		n = 96
	}
	for i := 0; i < n; i++ {
		idx := i + int(seed-1)*5
		c06RunRecvCase(t, w, fmt.Sprintf("v%d-%d", seed, i), seed*7000003+int64(i), idx,
			thorough, stats)
	}
}
