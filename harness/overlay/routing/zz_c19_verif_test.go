//go:build verif

package routing

// C19 correspondence/monitor harness. Injected with `go test -overlay`; drives
// the real findPath + newRoute (and paymentSession.RequestRoute) on generated
// small directed multigraphs and prints the full graph, the request, the
// unified edges chosen by the search and the resulting route for the Lean
// driver (drv_c19).

import (
	"bufio"
	"bytes"
	"context"
	"errors"
	"fmt"
	"math"
	"math/rand"
	"os"
	"sort"
	"strconv"
	"strings"
	"testing"
	"time"

	"github.com/btcsuite/btcd/btcec/v2"
	"github.com/btcsuite/btcd/btcutil/v2"
	sphinx "github.com/lightningnetwork/lightning-onion"
	"github.com/lightningnetwork/lnd/fn/v2"
	graphdb "github.com/lightningnetwork/lnd/graph/db"
	"github.com/lightningnetwork/lnd/htlcswitch"
	"github.com/lightningnetwork/lnd/graph/db/models"
	"github.com/lightningnetwork/lnd/lnwire"
	paymentsdb "github.com/lightningnetwork/lnd/payments/db"
	"github.com/lightningnetwork/lnd/routing/route"
	"github.com/lightningnetwork/lnd/zpay32"
)

type c19Pol struct {
	min, max, base, rate uint64
	delta                uint16
	ib, ir               int32

	// ver is the gossip version of the channel update the policy comes from
	// (0/1: v1, 2: v2); dflags are the raw disable bits: v1 bit 0 = the
	// ChanUpdateDisabled channel flag, v2 = ChanUpdateDisableFlags (incoming 1,
	// outgoing 2).
	ver    uint8
	dflags uint8
}

// orig builds the full graph policy (models.ChannelEdgePolicy) this policy
// stands for; the pathfinding view is derived from it with the real
// models.NewCachedPolicy.
func (p *c19Pol) orig(chanID uint64, node1 bool) *models.ChannelEdgePolicy {
	pol := &models.ChannelEdgePolicy{
		Version:                   lnwire.GossipVersion1,
		ChannelID:                 chanID,
		TimeLockDelta:             p.delta,
		MinHTLC:                   lnwire.MilliSatoshi(p.min),
		MaxHTLC:                   lnwire.MilliSatoshi(p.max),
		FeeBaseMSat:               lnwire.MilliSatoshi(p.base),
		FeeProportionalMillionths: lnwire.MilliSatoshi(p.rate),
		InboundFee: fn.Some(lnwire.Fee{
			BaseFee: p.ib, FeeRate: p.ir,
		}),
	}
	if p.ver == 2 {
		pol.Version = lnwire.GossipVersion2
		pol.SecondPeer = !node1
		pol.DisableFlags = lnwire.ChanUpdateDisableFlags(p.dflags)

		return pol
	}
	if p.max != 0 {
		pol.MessageFlags |= lnwire.ChanUpdateRequiredMaxHtlc
	}
	if !node1 {
		pol.ChannelFlags |= lnwire.ChanUpdateDirection
	}
	if p.dflags&1 != 0 {
		pol.ChannelFlags |= lnwire.ChanUpdateDisabled
	}

	return pol
}

// isDis is the ground truth for the "enabled" clause: what the ORIGINAL graph
// policy reports.
func (p *c19Pol) isDis() bool { return p.orig(0, true).IsDisabled() }

// hasMax: v2 updates always carry htlc_maximum_msat.
func (p *c19Pol) hasMax() bool { return p.ver == 2 || p.max != 0 }

func (c *c19) setDisabled(p *c19Pol, on bool) {
	switch {
	case !on:
		p.dflags = 0
	case p.ver == 2:
		p.dflags = uint8(c.pick(1, 2, 3))
	default:
		p.dflags = 1
	}
}

type c19Chan struct {
	id     uint64
	a, b   int
	capSat int64
	p1, p2 *c19Pol // p1: policy of a (a->b), p2: policy of b (b->a)

	// hint marks a route hint (additional edge a->b, not in the graph):
	// only p1 is used, capacity is fakeHopHintCapacity.
	hint bool

	// inv marks a hop hint of an invoice route hint as the payer supplies
	// it (zpay32.HopHint: start node, channel id, base fee, fee rate, delta);
	// the hop hints of one route hint (same chain id, in slice order) are
	// chained: each leads to the start node of the next one, the last one to
	// the target. These are converted by the real RouteHintsToEdges; b is
	// DERIVED from the hint list (c19Case.fixInvHints), never read back from
	// the edge objects.
	inv   bool
	chain int
}

// c19HintEdge is an AdditionalEdge that records every payload-size query of
// findPath: the query is made right before an entry is stored and carries the
// amount to send over the edge and the incoming CLTV of the edge's head node.
type c19HintEdge struct {
	PrivateEdge
	from, to int
	chanID   uint64
	log      *[]c19Stored
}

type c19Stored struct {
	from, to int
	chanID   uint64
	amt      uint64
	expiry   uint32
}

func (e *c19HintEdge) IntermediatePayloadSize(amount lnwire.MilliSatoshi,
	expiry uint32, channelID uint64) uint64 {

	*e.log = append(*e.log, c19Stored{e.from, e.to, e.chanID,
		uint64(amount), expiry})

	return e.PrivateEdge.IntermediatePayloadSize(amount, expiry, channelID)
}

type c19Relax struct {
	from, to int
	amt      uint64
	p        float64
}

type c19Case struct {
	kind       string // mem | dbc | dbn
	via        string // find | sess
	n          int
	chans      []c19Chan
	order      []int // iteration order of the channels in the in-memory graph
	self       int
	src, tgt   int
	amt        uint64
	feeLimit   uint64
	cltvLimit  uint32
	height     uint32
	finalDelta uint16
	lastHop    int
	outChans   []uint64
	ignNodes   []int
	ignPairs   [][2]int
	bw         map[uint64]uint64
	// link is the state of the switch's link of an own channel as the real
	// bandwidth manager sees it (via == "route" only): 0 = up (Bandwidth() =
	// bw[id]), 1 = link not eligible to forward, 2 = MayAddOutgoingHtlc
	// fails, 3 = the switch has no such link.
	link       map[uint64]int
	defaultCfg bool
	probSalt   int // 0: constant 1; >0: a fixed table; <0: distinct per pair
	metaLen    int // length of the payment metadata for the final hop

	// bl makes the payment go to a blinded path: the request's target is the
	// NUMS key (node index n+k), the blinded hops are nodes n .. n+k-1.
	bl *c19Blinded

	// droppedInb lists policy re-announcements (graph-DB stream) that no
	// longer carry an inbound-fee record: channel, node index, and the
	// inbound fee (base, rate) the node had announced before.
	droppedInb [][4]int64
}

// c19Blinded is a blinded payment path (BlindedPayment): introduction node in
// the graph, k blinded hops behind it, and the aggregate relay parameters.
type c19Blinded struct {
	intro, k   int
	base, rate uint32
	delta      uint16
	min, max   uint64
}

// c19BlindedChanBase is the channel id the trace uses for the edge out of the
// introduction node (blinded edges carry channel id 0 in the code); the edge out
// of blinded hop i is base+i.
const c19BlindedChanBase = 9000

func (cs *c19Case) blChan(from int) uint64 {
	if from == cs.bl.intro {
		return c19BlindedChanBase
	}

	return uint64(c19BlindedChanBase + from - cs.n + 1)
}

func (cs *c19Case) clone() *c19Case {
	c := *cs
	if cs.bl != nil {
		b := *cs.bl
		c.bl = &b
	}
	c.chans = make([]c19Chan, len(cs.chans))
	for i, ch := range cs.chans {
		c.chans[i] = ch
		if ch.p1 != nil {
			p := *ch.p1
			c.chans[i].p1 = &p
		}
		if ch.p2 != nil {
			p := *ch.p2
			c.chans[i].p2 = &p
		}
	}
	c.order = append([]int(nil), cs.order...)
	c.outChans = append([]uint64(nil), cs.outChans...)
	c.ignNodes = append([]int(nil), cs.ignNodes...)
	c.ignPairs = append([][2]int(nil), cs.ignPairs...)
	c.droppedInb = append([][4]int64(nil), cs.droppedInb...)
	c.bw = make(map[uint64]uint64, len(cs.bw))
	for k, v := range cs.bw {
		c.bw[k] = v
	}
	c.link = make(map[uint64]int, len(cs.link))
	for k, v := range cs.link {
		c.link[k] = v
	}
	return &c
}

// invChains returns the invoice route hints of the case: indices into chans,
// grouped by chain id in order of first appearance, hop hints in slice order.
func (cs *c19Case) invChains() [][]int {
	var (
		out [][]int
		pos = map[int]int{}
	)
	for i, ch := range cs.chans {
		if !ch.inv {
			continue
		}
		k, ok := pos[ch.chain]
		if !ok {
			k = len(out)
			pos[ch.chain] = k
			out = append(out, nil)
		}
		out[k] = append(out[k], i)
	}

	return out
}

// fixInvHints sets the end node of every invoice hop hint as the hint list
// declares it: the start node of the next hop hint of the same route hint, the
// target for the last one.
func (cs *c19Case) fixInvHints() {
	for _, chain := range cs.invChains() {
		for j, i := range chain {
			cs.chans[i].b = cs.tgt
			if j+1 < len(chain) {
				cs.chans[i].b = cs.chans[chain[j+1]].a
			}
		}
	}
}

// c19Graph is an in-memory implementation of the routing.Graph interface.
type c19Graph struct {
	cs   *c19Case
	keys []route.Vertex
	idx  map[route.Vertex]int
}

func (g *c19Graph) ForEachNodeDirectedChannel(_ context.Context,
	node route.Vertex, cb func(*graphdb.DirectedChannel) error,
	_ func()) error {

	ni, ok := g.idx[node]
	if !ok {
		return nil
	}
	for _, k := range g.cs.order {
		ch := &g.cs.chans[k]
		if ch.hint {
			continue
		}
		var (
			own, other *c19Pol
			peer       int
		)
		switch {
		case ch.a == ni:
			own, other, peer = ch.p1, ch.p2, ch.b
		case ch.b == ni:
			own, other, peer = ch.p2, ch.p1, ch.a
		default:
			continue
		}
		peerKey := g.keys[peer]
		isNode1 := bytes.Compare(node[:], peerKey[:]) < 0
		dc := &graphdb.DirectedChannel{
			ChannelID:    ch.id,
			IsNode1:      isNode1,
			OtherNode:    peerKey,
			Capacity:     btcutil.Amount(ch.capSat),
			OutPolicySet: own != nil,
		}
		// Both policies go through the real conversion
		// models.ChannelEdgePolicy -> models.NewCachedPolicy, the way the
		// graph cache and the KV store build a DirectedChannel.
		if own != nil {
			ownCached := models.NewCachedPolicy(own.orig(ch.id, isNode1))
			ownCached.InboundFee.WhenSome(func(fee lnwire.Fee) {
				dc.InboundFee = fee
			})
		}
		if other != nil {
			dc.InPolicy = models.NewCachedPolicy(
				other.orig(ch.id, !isNode1),
			)
			dc.InPolicy.ToNodePubKey = func() route.Vertex {
				return node
			}
			dc.InPolicy.ToNodeFeatures = lnwire.EmptyFeatureVector()
		}
		if err := cb(dc); err != nil {
			return err
		}
	}

	return nil
}

func (g *c19Graph) FetchNodeFeatures(_ context.Context,
	_ route.Vertex) (*lnwire.FeatureVector, error) {

	return lnwire.EmptyFeatureVector(), nil
}

func (g *c19Graph) GraphSession(_ context.Context,
	cb func(graph graphdb.NodeTraverser) error, _ func()) error {

	return cb(g)
}

// c19MC is a constant-probability mission control.
type c19MC struct {
	prob func(route.Vertex, route.Vertex, lnwire.MilliSatoshi,
		btcutil.Amount) float64
}

func (m *c19MC) ReportPaymentFail(uint64, *route.Route, *int,
	lnwire.FailureMessage) (*paymentsdb.FailureReason, error) {

	return nil, nil
}

func (m *c19MC) ReportPaymentSuccess(uint64, *route.Route) error {
	return nil
}

func (m *c19MC) GetProbability(a, b route.Vertex, amt lnwire.MilliSatoshi,
	c btcutil.Amount) float64 {

	return m.prob(a, b, amt, c)
}

type c19 struct {
	w     *bufio.Writer
	rng   *rand.Rand
	n     int
	found int
	loose bool

	// dbBias shapes the cases for the graph-DB stream: multi-hop, permissive
	// limits and mostly non-zero inbound fees, so that the DB's mapping of
	// policies and inbound fees onto directed channels is visible in the fees.
	dbBias bool

	// v1Only: the test graph DB (KV store) only supports gossip v1.
	v1Only bool
}

func (c *c19) pf(format string, a ...interface{}) {
	fmt.Fprintf(c.w, format+"\n", a...)
}

func (c *c19) pick(xs ...uint64) uint64 { return xs[c.rng.Intn(len(xs))] }

func (c *c19) chance(p float64) bool { return c.rng.Float64() < p }

func c19Sub(a, b uint64) uint64 {
	if a < b {
		return 0
	}
	return a - b
}

func (c *c19) genPol(amt uint64) *c19Pol {
	r := c.rng
	p := &c19Pol{}
	loose := c.loose
	p.base = c.pick(0, 0, 0, 1, 7, 1000, 1000, 5000, uint64(r.Intn(3000)))
	p.rate = c.pick(0, 0, 1, 100, 100, 2500, 2500, 40000, 999999, 1000000,
		uint64(r.Intn(5000)))
	if c.chance(0.02) {
		p.rate = c.pick(3000000, 1<<32-1)
	}
	p.delta = uint16(c.pick(0, 1, 6, 18, 40, 40, 40, 80, 144, 144, 2016,
		uint64(r.Intn(300))))
	if c.chance(0.4) && !c.dbBias && !c.v1Only {
		p.ver = 2
	}
	defer func() {
		if p.ver == 2 && p.max == 0 && c.chance(0.8) {
			p.max = 1 << 40
		}
	}()
	if loose {
		c.setDisabled(p, c.chance(0.04))
		p.min = c.pick(0, 0, 1, amt)
		p.max = c.pick(0, 1<<40, 1<<40, 2*amt+100000)
	} else {
		c.setDisabled(p, c.chance(0.12))
		p.min = c.pick(0, 0, 0, 1, 1, 1000, c19Sub(amt, 1), amt, amt+1,
			amt+uint64(r.Intn(2000)))
		p.max = c.pick(0, 0, 0, amt, amt+1, c19Sub(amt, 1), 2*amt+1,
			amt+uint64(r.Intn(3000)), amt+amt/50, 1<<40, 1<<40)
	}
	if c.chance(0.45) {
		p.ib = int32(int64(c.pick(0, 1, 500, 5000)) -
			int64(c.pick(0, 1, 2, p.base, p.base+1, p.base+1000, 5000,
				100000)))
		p.ir = int32(int64(c.pick(0, 1, 2000, 50000)) -
			int64(c.pick(0, 1, p.rate%1000001, 100000, 999999)))
		if c.chance(0.03) {
			p.ir = int32(c.pick(10000005, 20000000)) *
				int32(1-2*r.Intn(2))
		}
		if c.chance(0.01) {
			p.ib = math.MinInt32
		}
	}
	if c.dbBias && c.chance(0.6) {
		p.ib = int32(c.pick(1, 500, 5000))
		p.ir = int32(c.pick(0, 2000, 50000))
	}
	return p
}

func (c *c19) genAmt() uint64 {
	r := c.rng
	return c.pick(1, 2, 999, 1000, 1001, 50000, 1000000, 1000000, 123456789,
		10000000000, uint64(1+r.Intn(100000)), uint64(1+r.Int63n(5000000000)))
}

func (c *c19) genCase() *c19Case {
	r := c.rng
	cs := &c19Case{kind: "mem", via: "find", lastHop: -1,
		bw: map[uint64]uint64{}}
	cs.n = 2 + r.Intn(5)
	cs.amt = c.genAmt()
	if c.chance(0.01) {
		cs.amt = 0
	}
	c.loose = c.chance(0.6) || c.dbBias
	cs.src = r.Intn(cs.n)
	cs.self = cs.src
	if c.chance(0.06) {
		cs.self = r.Intn(cs.n)
	}
	cs.tgt = r.Intn(cs.n)
	if cs.tgt == cs.src && !c.chance(0.4) {
		cs.tgt = (cs.src + 1 + r.Intn(cs.n-1)) % cs.n
	}
	id := uint64(1)
	addChans := func(a, b int) {
		par := 1
		if c.chance(0.3) {
			par = 2 + r.Intn(2)
		}
		for k := 0; k < par; k++ {
			ch := c19Chan{id: id, a: a, b: b}
			id++
			if c.chance(0.5) {
				ch.a, ch.b = b, a
			}
			amtSat := (cs.amt + 999) / 1000
			if c.loose {
				ch.capSat = int64(c.pick(0, 10*amtSat+1000, 1<<33,
					1<<33, 1<<33))
			} else {
				ch.capSat = int64(c.pick(0, amtSat, amtSat+1,
					c19Sub(amtSat, 1), amtSat+uint64(r.Intn(50)),
					10*amtSat+1000, 1<<33, 1<<33, 1<<33))
			}
			if c.chance(0.93) {
				ch.p1 = c.genPol(cs.amt)
			}
			if c.chance(0.93) {
				ch.p2 = c.genPol(cs.amt)
			}
			cs.chans = append(cs.chans, ch)
		}
	}
	// a backbone path src -> x1 -> ... -> tgt over distinct intermediates.
	if c.chance(0.85) {
		perm := r.Perm(cs.n)
		var mids []int
		want := r.Intn(5)
		if c.dbBias {
			want = 1 + r.Intn(3)
		}
		for _, v := range perm {
			if len(mids) < want && v != cs.src && v != cs.tgt {
				mids = append(mids, v)
			}
		}
		if cs.src == cs.tgt && len(mids) == 0 {
			mids = append(mids, (cs.src+1)%cs.n)
		}
		seq := append(append([]int{cs.src}, mids...), cs.tgt)
		for i := 0; i+1 < len(seq); i++ {
			addChans(seq[i], seq[i+1])
		}
	}
	nextra := r.Intn(cs.n + 2)
	if len(cs.chans) == 0 {
		nextra++
	}
	for k := 0; k < nextra; {
		a := r.Intn(cs.n)
		b := r.Intn(cs.n)
		if a == b {
			continue
		}
		direct := (a == cs.src && b == cs.tgt) ||
			(a == cs.tgt && b == cs.src)
		if direct && (c.dbBias || c.chance(0.7)) {
			k++
			continue
		}
		addChans(a, b)
		k++
	}
	if len(cs.chans) == 0 {
		addChans(0, 1)
	}
	cs.order = r.Perm(len(cs.chans))
	cs.feeLimit = c.pick(math.MaxUint64, math.MaxUint64, 1<<50, 1<<50,
		1<<50, 1<<50, cs.amt, cs.amt/10, 0, 1000, uint64(r.Intn(5000)))
	cs.cltvLimit = uint32(c.pick(math.MaxUint32, math.MaxUint32, 1<<20,
		1<<20, 1<<20, 2016, 2016, 288, 144, 80, 40, 0,
		uint64(r.Intn(400))))
	if c.loose {
		cs.feeLimit = c.pick(math.MaxUint64, 1<<50)
		cs.cltvLimit = uint32(c.pick(math.MaxUint32, 1<<20))
	}
	cs.height = uint32(c.pick(0, 1, 100, 800000, 800000, 1<<31-5000))
	cs.finalDelta = uint16(c.pick(3, 9, 18, 40, 40, 144, 0, 1))
	cs.defaultCfg = c.chance(0.5)
	switch {
	case c.chance(0.3):
		cs.probSalt = 1 + r.Intn(50)
	case c.chance(0.6):
		cs.probSalt = -1
	}
	switch {
	case c.chance(0.15):
		// every channel that does not touch our own node becomes a pair
		// of route hints.
		var out []c19Chan
		next := uint64(len(cs.chans) + 1)
		for _, ch := range cs.chans {
			if ch.a == cs.self || ch.b == cs.self {
				out = append(out, ch)
				continue
			}
			if ch.p1 != nil {
				out = append(out, c19Chan{id: ch.id, a: ch.a, b: ch.b,
					p1: ch.p1, hint: true})
			}
			if ch.p2 != nil {
				out = append(out, c19Chan{id: next, a: ch.b, b: ch.a,
					p1: ch.p2, hint: true})
				next++
			}
		}
		if len(out) > 0 {
			cs.chans = out
			for i := range cs.chans {
				if cs.chans[i].hint {
					cs.chans[i].p1.ib, cs.chans[i].p1.ir = 0, 0
				}
			}
		}
	case c.chance(0.15):
		// one or two route hints into the target.
		for k := 0; k < 1+r.Intn(2); k++ {
			x := r.Intn(cs.n)
			if x == cs.self || x == cs.tgt || cs.tgt >= cs.n {
				continue
			}
			p := c.genPol(cs.amt)
			p.ib, p.ir = 0, 0
			cs.chans = append(cs.chans, c19Chan{
				id: uint64(len(cs.chans) + 1), a: x, b: cs.tgt, p1: p,
				hint: true,
			})
		}
	case c.chance(0.25) && cs.n >= 3:
		// invoice route hints as a payer supplies them: 1-3 route hints of
		// 1-3 chained hop hints each (the receiver sits behind private
		// channels), converted by the real RouteHintsToEdges.
		if c.chance(0.6) && cs.tgt != cs.src && cs.tgt != cs.self {
			// the receiver is only reachable over its private channels.
			var keep []c19Chan
			for _, ch := range cs.chans {
				if ch.a != cs.tgt && ch.b != cs.tgt {
					keep = append(keep, ch)
				}
			}
			cs.chans = keep
		}
		next := uint64(len(cs.chans) + 1000)
		for k := 0; k < 1+r.Intn(3); k++ {
			ln := int(c.pick(1, 2, 2, 3))
			var nodes []int
			for _, v := range r.Perm(cs.n) {
				if v != cs.tgt && v != cs.self && len(nodes) < ln {
					nodes = append(nodes, v)
				}
			}
			for _, x := range nodes {
				p := &c19Pol{
					base: c.pick(0, 1, 1000, 1000, 5000,
						uint64(r.Intn(3000))),
					rate: c.pick(0, 1, 100, 2500, 40000, 1000000,
						uint64(r.Intn(5000))),
					delta: uint16(c.pick(0, 1, 18, 40, 40, 80, 144,
						uint64(r.Intn(300)))),
				}
				cs.chans = append(cs.chans, c19Chan{id: next, a: x,
					b: cs.tgt, p1: p, hint: true, inv: true, chain: k})
				next++
			}
		}
	case c.chance(0.15):
		cs.metaLen = int(c.pick(1100, 1150, 1200))
	}
	// ids must stay unique.
	{
		seen := map[uint64]bool{}
		next := uint64(len(cs.chans) + 100)
		for i := range cs.chans {
			if seen[cs.chans[i].id] {
				cs.chans[i].id = next
				next++
			}
			seen[cs.chans[i].id] = true
		}
	}
	cs.order = r.Perm(len(cs.chans))
	if c.chance(0.01) {
		// malformed: a target that is not in the graph.
		cs.tgt = cs.n
	}
	// bandwidth hints for channels adjacent to self.
	for _, ch := range cs.chans {
		if ch.a != cs.self && ch.b != cs.self {
			continue
		}
		if c.chance(0.8) {
			cs.bw[ch.id] = c.pick(0, cs.amt, cs.amt+1,
				c19Sub(cs.amt, 1), cs.amt+uint64(r.Intn(5000)),
				1<<41, 1<<41, 1<<41, 1<<41, 1<<41, 1<<41, 1<<41)
			if c.loose {
				cs.bw[ch.id] = 1 << 41
			}
		}
	}
	if c.chance(0.12) {
		cs.lastHop = r.Intn(cs.n)
	}
	if c.chance(0.12) {
		for _, ch := range cs.chans {
			if (ch.a == cs.self || ch.b == cs.self) && c.chance(0.5) {
				cs.outChans = append(cs.outChans, ch.id)
			}
		}
		if c.chance(0.2) {
			cs.outChans = append(cs.outChans, 9999)
		}
	}
	if c.chance(0.1) {
		cs.ignNodes = append(cs.ignNodes, r.Intn(cs.n))
	}
	if c.chance(0.1) {
		ch := cs.chans[r.Intn(len(cs.chans))]
		cs.ignPairs = append(cs.ignPairs, [2]int{ch.a, ch.b})
	}
	return cs
}

// genTieCase builds a dense zero-fee graph in which every partial path has the
// same distance, so that the order of relaxations is decided only by the heap's
// probability tie-break and map iteration order: a probe of the finality
// discipline (an expanded node's entry is never replaced) that the soundness
// theorem takes as a hypothesis. Time-lock deltas differ, so a stale entry
// would show up as a violated CLTV limit in a follow-up case.
func (c *c19) genTieCase() *c19Case {
	r := c.rng
	cs := &c19Case{kind: "mem", via: "find", lastHop: -1,
		bw: map[uint64]uint64{}}
	cs.n = 4 + r.Intn(3)
	cs.amt = c.pick(2, 1000, 1000, 50000)
	cs.src = r.Intn(cs.n)
	cs.self = cs.src
	cs.tgt = (cs.src + 1 + r.Intn(cs.n-1)) % cs.n
	id := uint64(1)
	for a := 0; a < cs.n; a++ {
		for b := a + 1; b < cs.n; b++ {
			direct := (a == cs.src && b == cs.tgt) ||
				(a == cs.tgt && b == cs.src)
			if !c.chance(0.6) || (direct && c.chance(0.8)) {
				continue
			}
			mk := func() *c19Pol {
				p := &c19Pol{max: 1 << 40}
				p.delta = uint16(c.pick(1, 10, 40, 144, 300))
				if c.chance(0.15) {
					p.base = 1
				}
				return p
			}
			cs.chans = append(cs.chans, c19Chan{id: id, a: a, b: b,
				capSat: 1 << 33, p1: mk(), p2: mk()})
			id++
		}
	}
	if len(cs.chans) == 0 {
		cs.chans = append(cs.chans, c19Chan{id: 1, a: cs.src, b: cs.tgt,
			capSat: 1 << 33, p1: &c19Pol{delta: 40}, p2: &c19Pol{delta: 40}})
	}
	cs.order = r.Perm(len(cs.chans))
	cs.feeLimit = 1 << 50
	cs.cltvLimit = uint32(c.pick(math.MaxUint32, 40, 144, 200, 400,
		uint64(r.Intn(600))))
	cs.height = 800000
	cs.finalDelta = 9
	cs.defaultCfg = c.chance(0.2)
	cs.probSalt = 1 + r.Intn(50)
	return cs
}

// genBlindedCase builds a payment to a blinded path: a random graph, the
// introduction node is a graph node (the former target where possible), k = 1..3
// blinded hops behind it, aggregate min/max HTLC around the amount.
func (c *c19) genBlindedCase() *c19Case {
	r := c.rng
	cs := c.genCase()
	var keep []c19Chan
	for _, ch := range cs.chans {
		if !ch.hint {
			keep = append(keep, ch)
		}
	}
	if len(keep) == 0 {
		keep = append(keep, c19Chan{id: 1, a: 0, b: 1, capSat: 1 << 33,
			p1: c.genPol(cs.amt), p2: c.genPol(cs.amt)})
	}
	cs.chans = keep
	cs.order = r.Perm(len(cs.chans))
	cs.self = cs.src
	cs.metaLen = 0
	cs.lastHop = -1
	intro := cs.tgt
	if intro >= cs.n || intro == cs.src {
		intro = (cs.src + 1 + r.Intn(cs.n-1)) % cs.n
	}
	amt := cs.amt
	bl := &c19Blinded{
		intro: intro, k: 1 + r.Intn(3),
		base:  uint32(c.pick(0, 0, 1, 1000, 5000, uint64(r.Intn(3000)))),
		rate:  uint32(c.pick(0, 0, 1, 100, 2500, 40000, 1000000)),
		delta: uint16(c.pick(0, 18, 40, 80, 144, 300, uint64(r.Intn(500)))),
		min:   c.pick(0, 0, 1, c19Sub(amt, 1), amt, amt+1),
		max: c.pick(0, c19Sub(amt, 1), c19Sub(amt, 1), amt, amt, amt+1,
			2*amt+1, 1<<40),
	}
	if bl.max < bl.min {
		if c.chance(0.5) {
			bl.min = 0
		} else {
			bl.max = bl.min
		}
	}
	cs.bl = bl
	cs.tgt = cs.n + bl.k
	cs.finalDelta = 0
	cs.via = "find"
	if c.chance(0.5) {
		cs.via = "route"
	}

	return cs
}

// deriveBlinded moves one constraint of a blinded payment to the boundary of the
// route just found.
func (c *c19) deriveBlinded(cs *c19Case, rt *route.Route) *c19Case {
	d := cs.clone()
	fee := uint64(rt.TotalAmount) - cs.amt
	sum := rt.TotalTimeLock - cs.height - uint32(cs.finalDelta)
	switch c.rng.Intn(8) {
	case 0:
		d.bl.max = c19Sub(cs.amt, 1)
		if d.bl.max < d.bl.min {
			d.bl.min = d.bl.max
		}
	case 1:
		d.bl.max = cs.amt
		if d.bl.max < d.bl.min {
			d.bl.min = d.bl.max
		}
	case 2:
		d.bl.min = cs.amt + 1
		if d.bl.max < d.bl.min {
			d.bl.max = d.bl.min
		}
	case 3:
		d.bl.min = cs.amt
		if d.bl.max < d.bl.min {
			d.bl.max = d.bl.min
		}
	case 4:
		d.feeLimit = fee
	case 5:
		d.feeLimit = c19Sub(fee, 1)
	case 6:
		d.cltvLimit = sum
	case 7:
		if sum > 0 {
			d.cltvLimit = sum - 1
		}
	}
	d.order = c.rng.Perm(len(d.chans))

	return d
}

// c19PolVer prints gossip version and raw disable bits of a policy.
func c19PolVer(p *c19Pol) string {
	if p == nil {
		return "-"
	}
	v := p.ver
	if v == 0 {
		v = 1
	}
	return fmt.Sprintf("%d:%d", v, p.dflags)
}

func c19PolStr(p *c19Pol) string {
	if p == nil {
		return "-"
	}
	b2i := func(b bool) int {
		if b {
			return 1
		}
		return 0
	}
	return fmt.Sprintf("%d,%d,%d,%d,%d,%d,%d,%d,%d", p.min, p.max,
		b2i(p.hasMax()), p.base, p.rate, p.delta, b2i(p.isDis()), p.ib, p.ir)
}

func c19List[T any](xs []T, f func(T) string) string {
	if len(xs) == 0 {
		return "-"
	}
	var ss []string
	for _, x := range xs {
		ss = append(ss, f(x))
	}
	return strings.Join(ss, ",")
}

type c19Result struct {
	rt   *route.Route
	path []*unifiedEdge
	prob float64
}

func c19ErrClass(err error) string {
	switch {
	case errors.Is(err, errNoPathFound):
		return "nopath"
	case errors.Is(err, errInsufficientBalance):
		return "insufficient"
	default:
		return "err"
	}
}

// run executes one case on the real code and prints it.
func (c *c19) run(cs *c19Case, g Graph, sess GraphSessionFactory,
	keys []route.Vertex) *c19Result {

	c.n++
	cs.fixInvHints()
	idx := make(map[route.Vertex]int)
	for i, k := range keys {
		idx[k] = i
	}
	vi := func(v route.Vertex) int {
		if i, ok := idx[v]; ok {
			return i
		}
		return -1
	}
	lh := "-"
	if cs.lastHop >= 0 {
		lh = strconv.Itoa(cs.lastHop)
	}
	c.pf("CASE %d kind=%s via=%s n=%d self=%d src=%d tgt=%d amt=%d "+
		"feeLimit=%d cltvLimit=%d height=%d finalDelta=%d lastHop=%s "+
		"outChans=%s ignNodes=%s ignPairs=%s prob=%d meta=%d", c.n, cs.kind, cs.via,
		cs.n,
		cs.self, cs.src, cs.tgt, cs.amt, cs.feeLimit, cs.cltvLimit,
		cs.height, cs.finalDelta, lh,
		c19List(cs.outChans, func(x uint64) string {
			return strconv.FormatUint(x, 10)
		}),
		c19List(cs.ignNodes, strconv.Itoa),
		c19List(cs.ignPairs, func(p [2]int) string {
			return fmt.Sprintf("%d>%d", p[0], p[1])
		}), cs.probSalt, cs.metaLen)
	// graph channels in iteration order, then the route hints (the unifier
	// sees graph policies first, hints in slice order per from node).
	for _, k := range cs.order {
		ch := cs.chans[k]
		if ch.hint {
			continue
		}
		c.pf("chan %d %d %d cap=%d p1=%s p2=%s hint=0 pv1=%s pv2=%s", ch.id,
			ch.a, ch.b, ch.capSat, c19PolStr(ch.p1), c19PolStr(ch.p2),
			c19PolVer(ch.p1), c19PolVer(ch.p2))
	}
	var (
		storedLog []c19Stored
		relaxLog  []c19Relax
		addEdges  = map[route.Vertex][]AdditionalEdge{}
		hintFrom  = map[int]bool{}
		graphFrom = map[int]bool{}
	)
	for _, ch := range cs.chans {
		if !ch.hint {
			graphFrom[ch.a], graphFrom[ch.b] = true, true
			continue
		}
		if ch.p1 == nil || ch.inv {
			continue
		}
		// hop hints are not gossip policies.
		ch.p1.ver = 0
		if ch.p1.dflags != 0 {
			ch.p1.dflags = 1
		}
		c.pf("chan %d %d %d cap=%d p1=%s p2=- hint=1", ch.id, ch.a, ch.b,
			int64(fakeHopHintCapacity), c19PolStr(ch.p1))
		to := keys[ch.b]
		pol := &models.CachedEdgePolicy{
			ChannelID:                 ch.id,
			HasMaxHTLC:                ch.p1.max != 0,
			IsDisabled:                ch.p1.dflags != 0,
			TimeLockDelta:             ch.p1.delta,
			MinHTLC:                   lnwire.MilliSatoshi(ch.p1.min),
			MaxHTLC:                   lnwire.MilliSatoshi(ch.p1.max),
			FeeBaseMSat:               lnwire.MilliSatoshi(ch.p1.base),
			FeeProportionalMillionths: lnwire.MilliSatoshi(ch.p1.rate),
			ToNodePubKey: func() route.Vertex {
				return to
			},
			ToNodeFeatures: lnwire.EmptyFeatureVector(),
		}
		hintFrom[ch.a] = true
		addEdges[keys[ch.a]] = append(addEdges[keys[ch.a]], &c19HintEdge{
			PrivateEdge: PrivateEdge{policy: pol},
			from:        ch.a, to: ch.b, chanID: ch.id, log: &storedLog,
		})
	}
	// Invoice route hints: the payer's input is the list of chained hop hints;
	// it is printed as given (start node, channel, fee, delta per hop hint, one
	// line per route hint) and converted by the real RouteHintsToEdges. The
	// driver derives the topology from the printed hint list.
	if chains := cs.invChains(); len(chains) > 0 {
		var routeHints [][]zpay32.HopHint
		decl := map[uint64]c19Chan{}
		for _, chain := range chains {
			var (
				hops  []zpay32.HopHint
				parts []string
			)
			for _, i := range chain {
				ch := cs.chans[i]
				pub, err := btcec.ParsePubKey(keys[ch.a][:])
				if err != nil {
					panic(err)
				}
				hops = append(hops, zpay32.HopHint{
					NodeID:                    pub,
					ChannelID:                 ch.id,
					FeeBaseMSat:               uint32(ch.p1.base),
					FeeProportionalMillionths: uint32(ch.p1.rate),
					CLTVExpiryDelta:           ch.p1.delta,
				})
				parts = append(parts, fmt.Sprintf("%d:%d:%d:%d:%d", ch.a,
					ch.id, uint32(ch.p1.base), uint32(ch.p1.rate),
					ch.p1.delta))
				decl[ch.id] = ch
				hintFrom[ch.a] = true
			}
			routeHints = append(routeHints, hops)
			c.pf("rhint %s", strings.Join(parts, ","))
		}
		edges, err := RouteHintsToEdges(routeHints, keys[cs.tgt])
		if err != nil {
			panic(err)
		}
		// Keep the slice order per start node; wrap every edge so that its
		// payload-size queries are logged (the policy object, including
		// its ToNodePubKey closure, is the one the real code built).
		for v, es := range edges {
			for _, e := range es {
				pe := e.(*PrivateEdge)
				d := decl[pe.policy.ChannelID]
				addEdges[v] = append(addEdges[v], &c19HintEdge{
					PrivateEdge: *pe, from: d.a, to: d.b,
					chanID: d.id, log: &storedLog,
				})
			}
		}
	}
	if len(addEdges) == 0 {
		addEdges = nil
	}
	var bwIDs []uint64
	for id := range cs.bw {
		bwIDs = append(bwIDs, id)
	}
	sort.Slice(bwIDs, func(i, j int) bool { return bwIDs[i] < bwIDs[j] })
	linkNames := []string{"up", "ineligible", "cannotadd", "nolink"}
	for _, id := range bwIDs {
		if cs.via == "route" {
			// ground truth for the bandwidth manager: the link's state
			// and its Bandwidth(); the driver derives the hint with the
			// model of availableChanBandwidth.
			c.pf("link %d %s %d", id, linkNames[cs.link[id]], cs.bw[id])

			continue
		}
		c.pf("bw %d %d", id, cs.bw[id])
	}
	for _, d := range cs.droppedInb {
		c.pf("droppedinb %d %d %d %d", d[0], d[1], d[2], d[3])
	}

	hints := &mockBandwidthHints{hints: map[uint64]lnwire.MilliSatoshi{}}
	for id, v := range cs.bw {
		if cs.via == "route" && cs.link[id] != 0 {
			// (only used by the second search that recovers FindRoute's
			// edge list.)
			v = 0
		}
		hints.hints[id] = lnwire.MilliSatoshi(v)
	}
	ignN := make(map[route.Vertex]struct{})
	for _, i := range cs.ignNodes {
		ignN[keys[i]] = struct{}{}
	}
	ignP := make(map[DirectedNodePair]struct{})
	for _, p := range cs.ignPairs {
		ignP[NewDirectedNodePair(keys[p[0]], keys[p[1]])] = struct{}{}
	}
	// The probability source of routerrpc's QueryRoutes without mission
	// control: ignored nodes / pairs get probability zero, all else one.
	logOn := true
	probVal := func(from, to route.Vertex) float64 {
		if _, ok := ignN[from]; ok {
			return 0
		}
		if _, ok := ignP[DirectedNodePair{From: from, To: to}]; ok {
			return 0
		}
		if cs.probSalt > 0 {
			table := []float64{1, 0.95, 0.5, 1, 0.9, 0.75, 1, 0.6}
			k := idx[from]*7 + idx[to]*3 + cs.probSalt

			return table[k%len(table)]
		}
		if cs.probSalt < 0 {
			// distinct per ordered pair and within 2^-14 of 1: the
			// product along a chain identifies the chain.
			k := 1 + idx[from]*8 + idx[to]

			return 1 - float64(k)/float64(1<<20)
		}
		return 1
	}
	// The probability source doubles as the trace hook of the real search:
	// findPath calls it once per processEdge that passed the fee limit, in
	// the order of the main loop, with (fromVertex, pivot, amountToSend).
	prob := func(from, to route.Vertex, amt lnwire.MilliSatoshi,
		_ btcutil.Amount) float64 {

		v := probVal(from, to)
		if len(relaxLog) > 20000 {
			// 2..7 nodes: a search that relaxes this often does not
			// terminate (e.g. negative edge weights); report the case
			// instead of exhausting memory.
			panic("c19: search does not terminate")
		}
		if logOn {
			relaxLog = append(relaxLog, c19Relax{idx[from], idx[to],
				uint64(amt), v})
		}

		return v
	}
	var metadata []byte
	if cs.metaLen > 0 {
		metadata = make([]byte, cs.metaLen)
	}
	cfg := PathFindingConfig{}
	if cs.defaultCfg {
		cfg = PathFindingConfig{
			AttemptCost:    DefaultAttemptCost,
			AttemptCostPPM: DefaultAttemptCostPPM,
			MinProbability: DefaultMinRouteProbability,
		}
	}
	var lastHop *route.Vertex
	if cs.lastHop >= 0 {
		v := keys[cs.lastHop]
		lastHop = &v
	}

	// Blinded payment tail: built as the caller of the router supplies it
	// (BlindedPayment -> NewBlindedPaymentPathSet -> ToRouteHints, target =
	// TargetPubKey()). The trace prints the aggregate parameters as given
	// (ground truth) and the HasMaxHTLC flag the code put on the edge out of
	// the introduction node.
	var blSet *BlindedPaymentPathSet
	if cs.bl != nil {
		intro, err := btcec.ParsePubKey(keys[cs.bl.intro][:])
		if err != nil {
			panic(err)
		}
		_, blinding := btcec.PrivKeyFromBytes([]byte{99})
		bpath := &sphinx.BlindedPath{
			IntroductionPoint: intro,
			BlindingPoint:     blinding,
			BlindedHops: []*sphinx.BlindedHopInfo{
				{CipherText: bytes.Repeat([]byte{1}, 12)},
			},
		}
		var nodes []string
		for i := 0; i < cs.bl.k; i++ {
			pub, err := btcec.ParsePubKey(keys[cs.n+i][:])
			if err != nil {
				panic(err)
			}
			bpath.BlindedHops = append(bpath.BlindedHops,
				&sphinx.BlindedHopInfo{
					BlindedNodePub: pub,
					CipherText:     bytes.Repeat([]byte{2}, 12+i),
				})
			nodes = append(nodes, strconv.Itoa(cs.n+i))
		}
		nodes = append(nodes, strconv.Itoa(cs.n+cs.bl.k))
		bp := &BlindedPayment{
			BlindedPath:         bpath,
			BaseFee:             cs.bl.base,
			ProportionalFeeRate: cs.bl.rate,
			CltvExpiryDelta:     cs.bl.delta,
			HtlcMinimum:         cs.bl.min,
			HtlcMaximum:         cs.bl.max,
		}
		if err := bp.Validate(); err != nil {
			panic(err)
		}
		blSet, err = NewBlindedPaymentPathSet([]*BlindedPayment{bp})
		if err != nil {
			panic(err)
		}
		bh, err := blSet.ToRouteHints()
		if err != nil {
			panic(err)
		}
		if route.NewVertex(blSet.TargetPubKey()) != keys[cs.tgt] {
			panic("c19: blinded target is not the NUMS key")
		}
		addEdges = map[route.Vertex][]AdditionalEdge(bh)
		hasMaxCode := 0
		if es := bh[keys[cs.bl.intro]]; len(es) == 1 &&
			es[0].EdgePolicy().HasMaxHTLC {

			hasMaxCode = 1
		}
		c.pf("blinded intro=%d nodes=%s chan=%d min=%d max=%d base=%d "+
			"rate=%d delta=%d hasmax_code=%d", cs.bl.intro,
			strings.Join(nodes, ","), c19BlindedChanBase, cs.bl.min,
			cs.bl.max, cs.bl.base, cs.bl.rate, cs.bl.delta, hasMaxCode)
	}

	res := &c19Result{}
	var (
		ferr     error
		rerr     error
		status   = "ok"
		sessGlue string
	)
	func() {
		defer func() {
			if r := recover(); r != nil {
				status = "panic"
			}
		}()
		switch cs.via {
		case "find":
			r := &RestrictParams{
				ProbabilitySource:  prob,
				FeeLimit:           lnwire.MilliSatoshi(cs.feeLimit),
				OutgoingChannelIDs: cs.outChans,
				LastHop:            lastHop,
				CltvLimit:          cs.cltvLimit,
				Metadata:           metadata,

				BlindedPaymentPathSet: blSet,
			}
			res.path, res.prob, ferr = findPath(
				&graphParams{graph: g, bandwidthHints: hints,
					additionalEdges: addEdges}, r,
				&cfg, keys[cs.self], keys[cs.src], keys[cs.tgt],
				lnwire.MilliSatoshi(cs.amt), 0,
				int32(cs.height)+int32(cs.finalDelta),
			)
			if ferr != nil {
				return
			}
			res.rt, rerr = newRoute(
				keys[cs.src], res.path, cs.height, finalHopParams{
					amt:       lnwire.MilliSatoshi(cs.amt),
					totalAmt:  lnwire.MilliSatoshi(cs.amt),
					cltvDelta: cs.finalDelta,
					metadata:  metadata,
				}, blSet,
			)

		case "route":
			// ChannelRouter.FindRoute with a real bandwidth manager
			// over mock links.
			rtr := &ChannelRouter{cfg: &Config{
				RoutingGraph: g,
				SelfNode:     keys[cs.self],
				GetLink: func(id lnwire.ShortChannelID) (
					htlcswitch.ChannelLink, error) {

					bw, ok := cs.bw[id.ToUint64()]
					st := cs.link[id.ToUint64()]
					if !ok || st == 3 {
						return nil, errors.New("no link")
					}
					l := &mockLink{
						bandwidth:  lnwire.MilliSatoshi(bw),
						ineligible: st == 1,
					}
					if st == 2 {
						l.mayAddOutgoingErr = errors.New("cannot add")
					}

					return l, nil
				},
				Chain:             newMockChain(cs.height),
				PathFindingConfig: cfg,
			}}
			r := &RestrictParams{
				ProbabilitySource:  prob,
				FeeLimit:           lnwire.MilliSatoshi(cs.feeLimit),
				OutgoingChannelIDs: cs.outChans,
				LastHop:            lastHop,
				CltvLimit:          cs.cltvLimit,
				Metadata:           metadata,

				BlindedPaymentPathSet: blSet,
			}
			req := &RouteRequest{
				Source:       keys[cs.src],
				Target:       keys[cs.tgt],
				Amount:       lnwire.MilliSatoshi(cs.amt),
				Restrictions: r,
				RouteHints:   addEdges,
				FinalExpiry:  cs.finalDelta,
			}
			if blSet != nil {
				// the entry the router offers for blinded payments.
				req, ferr = NewRouteRequest(keys[cs.src], nil,
					lnwire.MilliSatoshi(cs.amt), 0, r, nil, nil,
					blSet, 0)
				if ferr != nil {
					return
				}
			}
			res.rt, res.prob, ferr = rtr.FindRoute(req)
			if ferr != nil {
				return
			}
			// FindRoute does not expose the unified edges; obtain
			// them from a second search and keep them only if it
			// chose the same channels.
			relax1, stored1 := relaxLog, storedLog
			logOn = false
			p2, _, err2 := findPath(
				&graphParams{graph: g, bandwidthHints: hints,
					additionalEdges: addEdges}, r,
				&cfg, keys[cs.self], keys[cs.src], keys[cs.tgt],
				lnwire.MilliSatoshi(cs.amt), 0,
				int32(cs.height)+int32(cs.finalDelta),
			)
			logOn = true
			relaxLog, storedLog = relax1, stored1
			same := err2 == nil && (len(p2) == len(res.rt.Hops) ||
				(blSet != nil && len(p2) == len(res.rt.Hops)+1))
			for i := 0; same && i < len(res.rt.Hops); i++ {
				same = p2[i].policy.ChannelID ==
					res.rt.Hops[i].ChannelID
			}
			if same {
				res.path = p2
			}

		case "sess":
			ps := &paymentSession{
				selfNode:        keys[cs.self],
				additionalEdges: addEdges,
				getBandwidthHints: func(Graph) (bandwidthHints,
					error) {

					return hints, nil
				},
				payment: &LightningPayment{
					Target:             keys[cs.tgt],
					Amount:             lnwire.MilliSatoshi(cs.amt),
					FeeLimit:           lnwire.MilliSatoshi(cs.feeLimit),
					CltvLimit:          cs.cltvLimit + uint32(cs.finalDelta),
					FinalCLTVDelta:     cs.finalDelta - BlockPadding,
					OutgoingChannelIDs: cs.outChans,
					LastHop:            lastHop,
					Metadata:           metadata,
				},
				pathFinder: func(g *graphParams, r *RestrictParams,
					cfg *PathFindingConfig, self, source,
					target route.Vertex, amt lnwire.MilliSatoshi,
					timePref float64, finalHtlcExpiry int32) (
					[]*unifiedEdge, float64, error) {

					relaxLog, storedLog = nil, nil
					// what RequestRoute derived from the payment: the
					// restrictions and the final expiry the search
					// is run with (compared with the model of the
					// glue on every run).
					sessGlue = fmt.Sprintf("restr_cltv=%d restr_fee=%d "+
						"final_expiry=%d amt=%d", r.CltvLimit,
						uint64(r.FeeLimit), finalHtlcExpiry,
						uint64(amt))
					p, pr, err := findPath(g, r, cfg, self, source,
						target, amt, timePref, finalHtlcExpiry)
					res.path = p
					res.prob = pr
					ferr = err

					return p, pr, err
				},
				graphSessFactory:  sess,
				pathFindingConfig: cfg,
				missionControl:    &c19MC{prob: prob},
				minShardAmt:       DefaultShardMinAmt,
				log:               log,
			}
			res.rt, rerr = ps.RequestRoute(
				lnwire.MilliSatoshi(cs.amt),
				lnwire.MilliSatoshi(cs.feeLimit), 0, cs.height, nil,
			)
			if ferr == nil && res.path == nil && rerr != nil {
				ferr = rerr
			}
		}
	}()

	if cs.via == "sess" && sessGlue != "" {
		// LightningPayment as the caller filled it in, ValidateCLTVLimit's
		// verdict on it (the RPC layer's guard), and what RequestRoute made
		// of it.
		payCltv := cs.cltvLimit + uint32(cs.finalDelta)
		payFinal := cs.finalDelta - BlockPadding
		valid := 0
		if ValidateCLTVLimit(payCltv, payFinal, true) == nil {
			valid = 1
		}
		c.pf("sess pay_cltv=%d pay_final=%d height=%d pay_fee=%d "+
			"pay_amt=%d validate=%d => %s", payCltv, payFinal, cs.height,
			cs.feeLimit, cs.amt, valid, sessGlue)
	}
	// The whole search as the real findPath performed it (in-memory graphs,
	// whose channel iteration order the driver knows): attempt cost, minimum
	// probability, payload size of the final hop from the real
	// lastHopPayloadSize, then every relaxation that reached the probability
	// source, in order.
	if cs.kind == "mem" && status != "panic" {
		pen := float64(cfg.AttemptCost+
			lnwire.MilliSatoshi(cs.amt)*
				lnwire.MilliSatoshi(cfg.AttemptCostPPM)/1000000) *
			(1/(0.5-0.0/2) - 1)
		lastPay, lerr := lastHopPayloadSize(
			&RestrictParams{Metadata: metadata,
				BlindedPaymentPathSet: blSet},
			int32(cs.height)+int32(cs.finalDelta),
			lnwire.MilliSatoshi(cs.amt),
		)
		if lerr == nil {
			c.pf("search penbits=%d minbits=%d lastpay=%d maxpay=%d "+
				"nrelax=%d", math.Float64bits(pen),
				math.Float64bits(cfg.MinProbability), lastPay,
				sphinx.MaxRoutingPayloadSize, len(relaxLog))
			for _, e := range relaxLog {
				c.pf("relax %d %d %d %d", e.from, e.to, e.amt,
					math.Float64bits(e.p))
			}
		}
	}
	switch {
	case status == "panic":
		c.pf("find => panic")
	case ferr != nil:
		c.pf("find => %s", c19ErrClass(ferr))
		res.rt = nil
	default:
		// The chain of (from, to) node pairs of the returned path.
		var chainFrom, chainTo []route.Vertex
		var chainChan []uint64
		{
			cur := keys[cs.src]
			// (blinded: the search's chain has one more edge, the dummy
			// hop to the NUMS key, which newRoute removes.)
			if res.rt != nil && !(cs.bl != nil && res.path != nil) {
				for _, h := range res.rt.Hops {
					chainFrom = append(chainFrom, cur)
					cur = route.Vertex(h.PubKeyBytes)
					chainTo = append(chainTo, cur)
					chainChan = append(chainChan, h.ChannelID)
				}
			} else {
				for _, e := range res.path {
					chainFrom = append(chainFrom, cur)
					cur = e.policy.ToNodePubKey()
					chainTo = append(chainTo, cur)
					chainChan = append(chainChan, e.policy.ChannelID)
				}
			}
		}
		// The probability findPath reports is the one stored with the
		// source's entry; recompute it along the returned chain in the
		// search's own order (target backwards). A difference means the
		// entries along the chain are not the ones the edges were relaxed
		// with (finality discipline of the search).
		logOn = false
		want := 1.0
		for i := len(chainFrom) - 1; i >= 0; i-- {
			want *= prob(chainFrom[i], chainTo[i], 0, 0)
		}
		logOn = true
		probOK := 0
		if want == res.prob {
			probOK = 1
		}
		// A node pair relaxed twice in one search means the head node was
		// expanded twice.
		relaxDup := 0
		seen := map[[2]int]bool{}
		for _, e := range relaxLog {
			k := [2]int{e.from, e.to}
			if seen[k] {
				relaxDup = 1
			}
			seen[k] = true
		}
		c.pf("find => ok nedges=%d probok=%d relaxdup=%d probbits=%d",
			len(res.path), probOK, relaxDup, math.Float64bits(res.prob))
		// What the search itself used when it relaxed each edge of the
		// returned chain: the amount passed to the probability source (all
		// edges) and, where every outgoing edge of the tail node is a route
		// hint, the (amount, incoming CLTV) of the last entry stored for it.
		for i := range chainFrom {
			if res.rt != nil && i >= len(res.rt.Hops) {
				break
			}
			f, t := vi(chainFrom[i]), vi(chainTo[i])
			cnt, amt := 0, uint64(0)
			for _, e := range relaxLog {
				if e.from == f && e.to == t {
					cnt++
					amt = e.amt
				}
			}
			line := fmt.Sprintf("stored %d from=%d to=%d cnt=%d amt=%d", i,
				f, t, cnt, amt)
			if hintFrom[f] && !graphFrom[f] && f != cs.src {
				for k := len(storedLog) - 1; k >= 0; k-- {
					if storedLog[k].from == f {
						line += fmt.Sprintf(" schan=%d samt=%d "+
							"scltv=%d", storedLog[k].chanID,
							storedLog[k].amt, storedLog[k].expiry)
						break
					}
				}
			}
			c.pf("%s", line)
		}
		from := cs.src
		for i, e := range res.path {
			to := vi(e.policy.ToNodePubKey())
			chanID := e.policy.ChannelID
			if cs.bl != nil && e.blindedPayment != nil && chanID == 0 {
				chanID = cs.blChan(from)
			}
			c.pf("edge %d chan=%d from=%d to=%d base=%d rate=%d "+
				"delta=%d ibase=%d irate=%d cap=%d", i,
				chanID, from, to,
				uint64(e.policy.FeeBaseMSat),
				uint64(e.policy.FeeProportionalMillionths),
				e.policy.TimeLockDelta, e.inboundFees.Base,
				e.inboundFees.Rate, int64(e.capacity))
			from = to
		}
		if rerr != nil || res.rt == nil {
			c.pf("route => err")
			res.rt = nil
		} else {
			rt := res.rt
			// Real onion payload size of the route against the sphinx
			// limit.
			var payload uint64
			for i, h := range rt.Hops {
				var next uint64
				if i+1 < len(rt.Hops) {
					next = rt.Hops[i+1].ChannelID
				}
				payload += h.PayloadSize(next)
			}
			c.pf("route => ok total_amt=%d total_tl=%d src=%d nhops=%d "+
				"total_fees=%d recv=%d payload=%d payload_max=%d "+
				"hops_max=%d", uint64(rt.TotalAmount),
				rt.TotalTimeLock, vi(rt.SourcePubKey), len(rt.Hops),
				uint64(rt.TotalFees()), uint64(rt.ReceiverAmt()),
				payload, sphinx.MaxRoutingPayloadSize, sphinx.NumMaxHops)
			hopFrom := cs.src
			for i, h := range rt.Hops {
				chanID := h.ChannelID
				if cs.bl != nil && chanID == 0 && (hopFrom == cs.bl.intro ||
					hopFrom >= cs.n) {

					chanID = cs.blChan(hopFrom)
				}
				hopFrom = vi(h.PubKeyBytes)
				c.pf("hop %d chan=%d to=%d amt=%d tl=%d fee=%d", i,
					chanID, vi(h.PubKeyBytes),
					uint64(h.AmtToForward), h.OutgoingTimeLock,
					uint64(rt.HopFee(i)))
			}
			c.found++
		}
	}
	c.pf("END")

	return res
}

// derive produces a follow-up case from a case on which a route was found,
// moving one constraint to the exact boundary of that route (or one past it).
func (c *c19) derive(cs *c19Case, rt *route.Route, chanMut bool) *c19Case {
	r := c.rng
	d := cs.clone()
	nh := len(rt.Hops)
	carried := make([]uint64, nh)
	froms := make([]int, nh)
	tos := make([]int, nh)
	carried[0] = uint64(rt.TotalAmount)
	for i := 1; i < nh; i++ {
		carried[i] = uint64(rt.Hops[i-1].AmtToForward)
	}
	// node indices: recover from channel endpoints.
	cur := cs.src
	for i, h := range rt.Hops {
		froms[i] = cur
		for _, ch := range cs.chans {
			if ch.id == h.ChannelID {
				if ch.a == cur {
					cur = ch.b
				} else {
					cur = ch.a
				}
				break
			}
		}
		tos[i] = cur
	}
	fee := uint64(rt.TotalAmount) - cs.amt
	sum := rt.TotalTimeLock - cs.height - uint32(cs.finalDelta)
	i := r.Intn(nh)
	polOf := func(dc *c19Case, hop int) *c19Pol {
		for k := range dc.chans {
			ch := &dc.chans[k]
			if ch.id == rt.Hops[hop].ChannelID {
				if ch.a == froms[hop] {
					return ch.p1
				}
				return ch.p2
			}
		}
		return nil
	}
	chanOf := func(dc *c19Case, hop int) *c19Chan {
		for k := range dc.chans {
			if dc.chans[k].id == rt.Hops[hop].ChannelID {
				return &dc.chans[k]
			}
		}
		return nil
	}
	menu := []int{0, 1, 2, 3, 4, 4, 4, 5, 6, 7, 8}
	if chanMut {
		menu = append(menu, 9, 9, 10, 10, 11, 11, 12, 13, 13, 14, 15, 15,
			16, 17)
	}
	m := menu[r.Intn(len(menu))]
	if ch := chanOf(d, i); ch != nil && ch.inv && m >= 9 && m <= 15 {
		// a hop hint only carries base fee, fee rate and delta.
		m = int(c.pick(14, 16, 17))
	}
	if m == 13 {
		for j := 0; j < nh; j++ {
			if ch := chanOf(d, j); ch != nil && ch.inv {
				m = 14
			}
		}
	}
	switch m {
	case 0:
		d.feeLimit = fee
	case 1:
		d.feeLimit = c19Sub(fee, 1)
	case 2:
		d.cltvLimit = sum
	case 3:
		if sum > 0 {
			d.cltvLimit = sum - 1
		}
	case 4:
		d.bw[rt.Hops[0].ChannelID] = carried[0] - uint64(r.Intn(2))
		if d.via == "route" && froms[0] == d.self && r.Intn(3) == 0 {
			// the link of the channel the route leaves over changes its
			// state (goes down in one of the three ways / comes back)
			// while its bandwidth stays sufficient.
			if d.link == nil {
				d.link = map[uint64]int{}
			}
			d.bw[rt.Hops[0].ChannelID] = carried[0] + uint64(r.Intn(2))
			d.link[rt.Hops[0].ChannelID] = r.Intn(4)
		}
	case 5:
		if nh > 1 {
			d.ignNodes = append(d.ignNodes, tos[r.Intn(nh-1)])
		} else {
			d.ignPairs = append(d.ignPairs, [2]int{froms[0], tos[0]})
		}
	case 6:
		d.ignPairs = append(d.ignPairs, [2]int{froms[i], tos[i]})
	case 7:
		// restrict to other local channels (or exactly this one).
		d.outChans = nil
		for _, ch := range cs.chans {
			if (ch.a == cs.self || ch.b == cs.self) &&
				(ch.id != rt.Hops[0].ChannelID) == c.chance(0.8) {

				d.outChans = append(d.outChans, ch.id)
			}
		}
		if len(d.outChans) == 0 {
			d.outChans = []uint64{rt.Hops[0].ChannelID}
		}
	case 8:
		d.lastHop = r.Intn(cs.n)
		if c.chance(0.5) {
			d.lastHop = froms[nh-1]
		}
	case 9:
		if p := polOf(d, i); p != nil {
			p.max = carried[i] - uint64(r.Intn(2))
			if p.max == 0 {
				p.max = 1
			}
		}
	case 10:
		if p := polOf(d, i); p != nil {
			p.min = carried[i] + uint64(r.Intn(2))
		}
	case 11:
		if ch := chanOf(d, i); ch != nil {
			ch.capSat = int64((carried[i] + 999) / 1000)
			if c.chance(0.5) && ch.capSat > 1 {
				ch.capSat--
			}
		}
	case 12:
		if p := polOf(d, i); p != nil {
			c.setDisabled(p, true)
		}
	case 13:
		// make the forwarding node's inbound fee negative enough to
		// cancel (or over-cancel) its outbound fee.
		if nh > 1 {
			j := r.Intn(nh - 1)
			ch := chanOf(d, j)
			if ch.hint {
				break
			}
			own := &ch.p2
			if ch.a == tos[j] {
				own = &ch.p1
			}
			if *own == nil {
				*own = c.genPol(cs.amt)
			}
			outFee := carried[j] - carried[j+1]
			(*own).ib = -int32(outFee%100000) - int32(r.Intn(3)) + 1
			(*own).ir = -int32(r.Intn(3)) * 1000
		}
	case 14:
		// raise the fee of the chosen policy by one unit.
		if p := polOf(d, i); p != nil {
			p.base++
		}
	case 15:
		// add a parallel channel with another time lock / fee.
		if ch := chanOf(d, i); ch != nil {
			nc := *ch
			nc.id = 1
			for _, x := range d.chans {
				if x.id >= nc.id {
					nc.id = x.id + 1
				}
			}
			nc.p1, nc.p2 = c.genPol(cs.amt), c.genPol(cs.amt)
			if nc.hint {
				nc.p2 = nil
				nc.p1.ib, nc.p1.ir = 0, 0
			}
			if c.chance(0.5) {
				if p := polOf(cs, i); p != nil {
					q := *p
					q.delta += uint16(1 + r.Intn(50))
					q.base = c19Sub(q.base, uint64(r.Intn(2)))
					c.setDisabled(&q, c.chance(0.3))
					if nc.hint {
						q.ib, q.ir = 0, 0
					}
					if nc.a == froms[i] {
						nc.p1 = &q
					} else if !nc.hint {
						nc.p2 = &q
					}
				}
			}
			d.chans = append(d.chans, nc)
			d.order = append(d.order, len(d.chans)-1)
			if nc.a == cs.self || nc.b == cs.self {
				d.bw[nc.id] = c.pick(carried[0], carried[0]-1, 1<<41)
			}
		}
	case 16:
		if p := polOf(d, i); p != nil {
			p.delta += uint16(1 + r.Intn(3))
			d.cltvLimit = sum
		}
	case 17:
		if p := polOf(d, i); p != nil {
			p.base += uint64(1 + r.Intn(3))
			d.feeLimit = fee
		}
	}
	d.order = r.Perm(len(d.chans))

	return d
}

// reannounce models a node re-announcing its policy for one channel of the
// route just found (a channel_update arriving over gossip): the new policy is
// written with the graph's own UpdateEdgePolicy (DB and graph cache), and the
// case's ground truth is updated to the new policy. The update changes the
// fee/delta and/or the inbound-fee record, which may also be ABSENT in the
// new update (the node stopped announcing an inbound fee).
func (c *c19) reannounce(t *testing.T, cs *c19Case, rt *route.Route,
	gi *testGraphInstance, keys []route.Vertex) *c19Case {

	r := c.rng
	d := cs.clone()
	// prefer the incoming channel of a forwarding node, on the side of that
	// node: this is where its inbound fee is announced.
	hop := r.Intn(len(rt.Hops))
	if len(rt.Hops) > 1 && c.chance(0.7) {
		hop = r.Intn(len(rt.Hops) - 1)
	}
	var ch *c19Chan
	for k := range d.chans {
		if d.chans[k].id == rt.Hops[hop].ChannelID {
			ch = &d.chans[k]
		}
	}
	if ch == nil {
		return d
	}
	node := -1
	for i, k := range keys {
		if k == route.Vertex(rt.Hops[hop].PubKeyBytes) {
			node = i
		}
	}
	if c.chance(0.2) || node < 0 {
		// the other side: the policy used to forward over this hop.
		if node == ch.a {
			node = ch.b
		} else {
			node = ch.a
		}
	}
	pol := ch.p1
	if node == ch.b {
		pol = ch.p2
	}
	if pol == nil {
		return d
	}
	ctx := context.Background()
	_, e1, e2, err := gi.v1Graph.FetchChannelEdgesByID(ctx, ch.id)
	if err != nil {
		t.Fatalf("fetch: %v", err)
	}
	old := e2
	if bytes.Compare(keys[node][:], keys[ch.a+ch.b-node][:]) < 0 {
		old = e1
	}
	if old == nil {
		return d
	}
	np := *old
	hasInb := true
	switch r.Intn(4) {
	case 0, 1:
		// no inbound-fee record any more.
		if pol.ib != 0 || pol.ir != 0 {
			d.droppedInb = append(d.droppedInb, [4]int64{int64(ch.id),
				int64(node), int64(pol.ib), int64(pol.ir)})
		}
		pol.ib, pol.ir = 0, 0
		hasInb = false
	case 2:
		pol.ib = int32(int64(c.pick(0, 1, 500)) -
			int64(c.pick(0, 1, pol.base, 1000)))
		pol.ir = int32(int64(c.pick(0, 2000)) - int64(c.pick(0, 1, 1000)))
	case 3:
		pol.base += uint64(1 + r.Intn(3))
		pol.delta++
	}
	np.FeeBaseMSat = lnwire.MilliSatoshi(pol.base)
	np.TimeLockDelta = pol.delta
	np.ExtraOpaqueData = nil
	np.InboundFee = fn.None[lnwire.Fee]()
	if hasInb {
		fee := lnwire.Fee{BaseFee: pol.ib, FeeRate: pol.ir}
		np.InboundFee = fn.Some(fee)
		if err := np.ExtraOpaqueData.PackRecords(&fee); err != nil {
			t.Fatalf("pack: %v", err)
		}
		// a later record-less update of this channel side is a new drop.
		var keep [][4]int64
		for _, x := range d.droppedInb {
			if x[0] != int64(ch.id) || x[1] != int64(node) {
				keep = append(keep, x)
			}
		}
		d.droppedInb = keep
	}
	np.LastUpdate = np.LastUpdate.Add(time.Hour)
	if err := gi.graph.UpdateEdgePolicy(ctx, &np); err != nil {
		t.Fatalf("update policy: %v", err)
	}

	return d
}

// c19Corpus returns fixed cases that run first on every seed.
func c19Corpus() []*c19Case {
	line := func(amt uint64, fwd, back *c19Pol) *c19Case {
		return &c19Case{kind: "mem", via: "find", n: 3, lastHop: -1,
			self: 0, src: 0, tgt: 2, amt: amt,
			feeLimit: math.MaxUint64, cltvLimit: math.MaxUint32,
			height: 800000, finalDelta: 40, bw: map[uint64]uint64{},
			order: []int{0, 1},
			chans: []c19Chan{
				{id: 1, a: 0, b: 1, capSat: 1 << 33,
					p1: &c19Pol{delta: 40}, p2: back},
				{id: 2, a: 1, b: 2, capSat: 1 << 33, p1: fwd},
			}}
	}
	return []*c19Case{
		// ComputeFee: amt*rate = 2^64 + 2^32 - 2 wraps in uint64; node 1
		// is left 4294 msat instead of 18446744078004 msat.
		line(4294967298, &c19Pol{rate: 1<<32 - 1, delta: 40}, nil),
		// InboundFee.CalcFee: rate*int64(amt) = 9.3e18 wraps in int64 to
		// a negative value; node 1 is left 0 msat instead of 9.3e12 msat.
		line(930000000000, &c19Pol{delta: 40},
			&c19Pol{delta: 40, ir: 10000000}),
	}
}

func c19Alias(i int) string { return fmt.Sprintf("n%d", i) }

func c19TestPol(p *c19Pol) *testChannelPolicy {
	if p == nil {
		return nil
	}
	return &testChannelPolicy{
		Expiry:             p.delta,
		MinHTLC:            lnwire.MilliSatoshi(p.min),
		MaxHTLC:            lnwire.MilliSatoshi(p.max),
		FeeBaseMsat:        lnwire.MilliSatoshi(p.base),
		FeeRate:            lnwire.MilliSatoshi(p.rate),
		InboundFeeBaseMsat: int64(p.ib),
		InboundFeeRate:     int64(p.ir),
		Disabled:           p.dflags != 0,
	}
}

func TestVerifC19(t *testing.T) {
	out := os.Getenv("VERIF_OUT")
	if out == "" {
		t.Skip("VERIF_OUT not set")
	}
	seed, _ := strconv.ParseInt(os.Getenv("VERIF_SEED"), 10, 64)
	thorough := os.Getenv("VERIF_TIER") == "thorough"
	f, err := os.Create(out)
	if err != nil {
		t.Fatal(err)
	}
	defer f.Close()
	c := &c19{
		w:   bufio.NewWriterSize(f, 1<<20),
		rng: rand.New(rand.NewSource(seed*7919 + 19)),
	}
	defer c.w.Flush()

	c.pf("FACT riskFactorBillionths=%d blockPadding=%d feeRateParts=%d "+
		"hintcap=%d", RiskFactorBillionths, BlockPadding, 1000000,
		int64(fakeHopHintCapacity))

	nMem, nDB := 3000, 300
	if thorough {
		nMem, nDB = 150000, 3000
	}

	memKeys := make([]route.Vertex, 8)
	for i := range memKeys {
		memKeys[i] = createPubkey(byte(i + 1))
	}

	// ---- corpus: minimal instances of recorded findings ---------------------
	for _, cs := range c19Corpus() {
		g := &c19Graph{cs: cs, keys: memKeys[:cs.n],
			idx: map[route.Vertex]int{}}
		for i := 0; i < cs.n; i++ {
			g.idx[memKeys[i]] = i
		}
		c.run(cs, g, g, memKeys[:cs.n+1])
	}

	// ---- in-memory graphs -------------------------------------------------
	for k := 0; k < nMem; k++ {
		cs := c.genCase()
		if c.chance(0.08) {
			cs = c.genTieCase()
		}
		if c.chance(0.08) {
			cs = c.genBlindedCase()
		}
		if cs.bl != nil {
			// via is fixed by genBlindedCase.
		} else if c.chance(0.3) && cs.self == cs.src {
			cs.via = "sess"
			if cs.finalDelta < BlockPadding {
				cs.finalDelta += BlockPadding
			}
			if cs.cltvLimit > math.MaxUint32-uint32(cs.finalDelta) {
				cs.cltvLimit = math.MaxUint32 - uint32(cs.finalDelta)
			}
		} else if c.chance(0.3) {
			cs.via = "route"
		}
		for depth := 0; depth < 5; depth++ {
			g := &c19Graph{cs: cs, keys: memKeys[:cs.n],
				idx: map[route.Vertex]int{}}
			for i := 0; i < cs.n; i++ {
				g.idx[memKeys[i]] = i
			}
			if cs.via == "route" {
				// the bandwidth manager knows every own channel: no
				// link means bandwidth zero.
				for _, ch := range cs.chans {
					if ch.hint || (ch.a != cs.self && ch.b != cs.self) {
						continue
					}
					if _, ok := cs.bw[ch.id]; !ok {
						cs.bw[ch.id] = c.pick(0, 1<<41, 1<<41)
					}
					if _, ok := cs.link[ch.id]; !ok {
						if cs.link == nil {
							cs.link = map[uint64]int{}
						}
						cs.link[ch.id] = 0
						if c.chance(0.18) {
							cs.link[ch.id] = 1 + c.rng.Intn(3)
						}
					}
				}
			}
			keys := memKeys[:cs.n+1]
			if cs.bl != nil {
				// graph nodes, the blinded hops, the NUMS target.
				keys = append([]route.Vertex(nil), memKeys[:cs.n]...)
				for i := 0; i < cs.bl.k; i++ {
					keys = append(keys, createPubkey(byte(60+i)))
				}
				keys = append(keys, route.NewVertex(&BlindedPathNUMSKey))
			}
			res := c.run(cs, g, g, keys)
			if res.rt == nil || !c.chance(0.85) {
				break
			}
			if cs.bl != nil {
				cs = c.deriveBlinded(cs, res.rt)
				continue
			}
			cs = c.derive(cs, res.rt, true)
		}
	}

	// ---- graphs in the real graph DB (with and without graph cache) --------
	for k := 0; k < nDB; k++ {
		c.dbBias = k%4 != 0
		c.v1Only = true
		cs := c.genCase()
		c.dbBias = false
		cs.self = cs.src
		if cs.tgt >= cs.n {
			cs.tgt = (cs.src + 1) % cs.n
		}
		{
			var keep []c19Chan
			for _, ch := range cs.chans {
				if !ch.hint {
					keep = append(keep, ch)
				}
			}
			if len(keep) == 0 {
				keep = append(keep, c19Chan{id: 1, a: cs.src,
					b: (cs.src + 1) % cs.n, capSat: 1 << 33,
					p1: c.genPol(cs.amt), p2: c.genPol(cs.amt)})
			}
			cs.chans = keep
		}
		useCache := k%2 == 0
		cs.kind = "dbn"
		if useCache {
			cs.kind = "dbc"
		}
		// channel ids must be distinct in their low byte; ours are
		// 1..len.
		t.Run(fmt.Sprintf("db%d", k), func(t *testing.T) {
			var tcs []*testChannel
			for _, ch := range cs.chans {
				tcs = append(tcs, asymmetricTestChannel(
					c19Alias(ch.a), c19Alias(ch.b),
					btcutil.Amount(ch.capSat), c19TestPol(ch.p1),
					c19TestPol(ch.p2), ch.id,
				))
			}
			gi, err := createTestGraphFromChannels(
				t, useCache, tcs, c19Alias(cs.self),
			)
			if err != nil {
				t.Fatalf("graph: %v", err)
			}
			keys := make([]route.Vertex, cs.n)
			for i := range keys {
				if v, ok := gi.aliasMap[c19Alias(i)]; ok {
					keys[i] = v
				} else {
					keys[i] = createPubkey(byte(200 + i))
				}
			}
			// The DB iteration order is not ours; print channels
			// in id order.
			cs.order = nil
			for i := range cs.chans {
				cs.order = append(cs.order, i)
			}
			for depth := 0; depth < 4; depth++ {
				var res *c19Result
				err := gi.v1Graph.GraphSession(
					context.Background(),
					func(g graphdb.NodeTraverser) error {
						res = c.run(cs, g, gi.v1Graph, keys)
						return nil
					}, func() {},
				)
				if err != nil {
					t.Fatalf("session: %v", err)
				}
				if res.rt == nil {
					break
				}
				if c.chance(0.35) {
					cs = c.reannounce(t, cs, res.rt, gi, keys)
				} else {
					cs = c.derive(cs, res.rt, false)
				}
				cs.order = nil
				for i := range cs.chans {
					cs.order = append(cs.order, i)
				}
			}
		})
	}

	c.v1Only = false
	t.Logf("C19: %d cases, %d routes", c.n, c.found)
}
