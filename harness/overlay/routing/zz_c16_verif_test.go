//go:build verif

package routing

// C16 `life` stream: the REAL paymentLifecycle.resumePayment runs on the real
// controlTower over the real payments KVStore. Everything that is not the
// payment store is an oracle scripted from (VERIF_SEED, case): context
// cancellation, path finding (RequestRoute), the attempt id sequencer, the
// switch's SendHTLC answer, mission control's verdict, the switch result that
// becomes available while the lifecycle waits, and injected database failures
// (= crash points before / after the write of any control-tower call). After
// a run ends the payment is resumed the way lnd does on start-up
// (FetchInFlightPayments, empty payment session, fee limit 0) or re-sent
// (InitPayment gate, fresh session). One line per database call (with the
// store's answer and the full payment dump) and per oracle consultation (with
// the arguments the lifecycle passed) is printed for the Lean driver, which
// compares the whole sequence with `lifeRun` (LndModel/C16/Life.lean).

import (
	"bufio"
	"bytes"
	"context"
	"errors"
	"fmt"
	"math/rand"
	"os"
	"sort"
	"strconv"
	"strings"
	"sync"
	"sync/atomic"
	"testing"
	"time"

	"github.com/btcsuite/btcd/btcec/v2"
	"github.com/btcsuite/btcd/btcutil/v2"
	"github.com/lightningnetwork/lnd/clock"
	"github.com/lightningnetwork/lnd/fn/v2"
	"github.com/lightningnetwork/lnd/graph/db/models"
	"github.com/lightningnetwork/lnd/htlcswitch"
	"github.com/lightningnetwork/lnd/lntypes"
	"github.com/lightningnetwork/lnd/lnwire"
	paymentsdb "github.com/lightningnetwork/lnd/payments/db"
	"github.com/lightningnetwork/lnd/record"
	"github.com/lightningnetwork/lnd/routing/route"
	"github.com/lightningnetwork/lnd/routing/shards"
)

var (
	errC16Crash = errors.New("c16: injected database failure")
	errC16Crit  = errors.New("c16: critical path finding error")
)

// c16Ctx is a context whose cancellation (and its cause) the harness controls.
type c16Ctx struct {
	mu   sync.Mutex
	done chan struct{}
	err  error
}

func (c *c16Ctx) Deadline() (time.Time, bool) { return time.Time{}, false }
func (c *c16Ctx) Done() <-chan struct{}       { return c.done }
func (c *c16Ctx) Value(any) any               { return nil }
func (c *c16Ctx) Err() error {
	c.mu.Lock()
	defer c.mu.Unlock()
	return c.err
}
func (c *c16Ctx) cancel(err error) {
	c.mu.Lock()
	defer c.mu.Unlock()
	if c.err == nil {
		c.err = err
		close(c.done)
	}
}

type c16Pending struct {
	id   uint64
	kind string
}

type c16L struct {
	t   *testing.T
	w   *bufio.Writer
	rng *rand.Rand
	n   int

	real   paymentsdb.DB
	hash   lntypes.Hash
	idBase uint64
	nextID uint64
	value  uint64
	addr   byte
	hopKey route.Vertex

	// per case probabilities (percent)
	pCrash, pCtx int

	// per run
	inRun   bool
	resumed bool
	fetchN  int
	callN   int
	ctx     *c16Ctx

	mu      sync.Mutex
	pending *c16Pending
	sent    map[uint64]bool
	resCh   map[uint64][]chan *htlcswitch.PaymentResult
}

func (c *c16L) pf(format string, a ...interface{}) {
	fmt.Fprintf(c.w, format+"\n", a...)
}

func (c *c16L) local(id uint64) string {
	if id >= c.idBase && id < c.idBase+1000 {
		return strconv.FormatUint(id-c.idBase, 10)
	}
	return "x" + strconv.FormatUint(id, 10)
}

func c16LErrName(err error) string {
	if err == nil {
		return "ok"
	}
	tbl := []struct {
		e error
		n string
	}{
		{paymentsdb.ErrAlreadyPaid, "AlreadyPaid"},
		{paymentsdb.ErrPaymentInFlight, "PaymentInFlight"},
		{paymentsdb.ErrPaymentExists, "PaymentExists"},
		{paymentsdb.ErrPaymentInternal, "PaymentInternal"},
		{paymentsdb.ErrPaymentNotInitiated, "NotInitiated"},
		{paymentsdb.ErrPaymentAlreadySucceeded, "AlreadySucceeded"},
		{paymentsdb.ErrPaymentAlreadyFailed, "AlreadyFailed"},
		{paymentsdb.ErrUnknownPaymentStatus, "UnknownStatus"},
		{paymentsdb.ErrPaymentTerminal, "Terminal"},
		{paymentsdb.ErrAttemptAlreadySettled, "AttemptAlreadySettled"},
		{paymentsdb.ErrAttemptAlreadyFailed, "AttemptAlreadyFailed"},
		{paymentsdb.ErrValueMismatch, "ValueMismatch"},
		{paymentsdb.ErrValueExceedsAmt, "ValueExceedsAmt"},
		{paymentsdb.ErrNonMPPayment, "NonMPPayment"},
		{paymentsdb.ErrMPPayment, "MPPayment"},
		{paymentsdb.ErrMPPRecordInBlindedPayment, "MPPRecordInBlinded"},
		{paymentsdb.ErrBlindedPaymentTotalAmountMismatch, "BlindedTotalMismatch"},
		{paymentsdb.ErrMixedBlindedAndNonBlindedPayments, "MixedBlinded"},
		{paymentsdb.ErrBlindedPaymentMissingTotalAmount, "BlindedMissingTotal"},
		{paymentsdb.ErrMPPPaymentAddrMismatch, "MPPAddrMismatch"},
		{paymentsdb.ErrMPPTotalAmountMismatch, "MPPTotalMismatch"},
		{paymentsdb.ErrPaymentPendingSettled, "PendingSettled"},
		{paymentsdb.ErrPaymentPendingFailed, "PendingFailed"},
		{paymentsdb.ErrSentExceedsTotal, "SentExceedsTotal"},
		{paymentsdb.ErrNoAttemptInfo, "NoAttemptInfo"},
	}
	for _, e := range tbl {
		if errors.Is(err, e.e) {
			return e.n
		}
	}
	return "other"
}

// dump: the same canonical form as the payments/db harness (c16.dump).
func (c *c16L) dump(p *paymentsdb.MPPayment) string {
	if p == nil {
		return "nil"
	}
	var sb strings.Builder
	fmt.Fprintf(&sb, "value=%d st=%d", uint64(p.Info.Value), int(p.Status))
	b := func(x bool) int {
		if x {
			return 1
		}
		return 0
	}
	if p.State != nil {
		fmt.Fprintf(&sb, " rem=%d nif=%d fees=%d hs=%d pf=%d",
			uint64(p.State.RemainingAmt), p.State.NumAttemptsInFlight,
			uint64(p.State.FeesPaid), b(p.State.HasSettledHTLC),
			b(p.State.PaymentFailed))
	} else {
		sb.WriteString(" nostate")
	}
	if p.FailureReason != nil {
		fmt.Fprintf(&sb, " reason=%d", int(*p.FailureReason))
	} else {
		sb.WriteString(" reason=-")
	}
	if p.State != nil {
		dec := func(v bool, err error) string {
			switch {
			case errors.Is(err, paymentsdb.ErrPaymentInternal):
				return "E"
			case err != nil:
				return "U"
			case v:
				return "t"
			}
			return "f"
		}
		ti := "-"
		th, tf := p.TerminalInfo()
		switch {
		case th != nil && th.Settle != nil && tf == nil:
			ti = "S"
		case th != nil:
			ti = "X"
		case tf != nil:
			ti = "R" + strconv.Itoa(int(*tf))
		}
		fmt.Fprintf(&sb, " allow=%s wait=%s term=%d ti=%s",
			dec(p.AllowMoreAttempts()), dec(p.NeedWaitAttempts()),
			b(p.Terminated()), ti)
	}
	hs := make([]paymentsdb.HTLCAttempt, len(p.HTLCs))
	copy(hs, p.HTLCs)
	sort.SliceStable(hs, func(i, j int) bool {
		return hs[i].AttemptID < hs[j].AttemptID
	})
	sb.WriteString(" htlcs=")
	if len(hs) == 0 {
		sb.WriteString("-")
	}
	for i, h := range hs {
		if i > 0 {
			sb.WriteString(",")
		}
		st := "I"
		switch {
		case h.Settle != nil && h.Failure != nil:
			st = "B"
		case h.Settle != nil:
			st = "S"
		case h.Failure != nil:
			st = "F"
		}
		kind := "p"
		var addr, total uint64
		fh := h.Route.FinalHop()
		if fh != nil {
			switch {
			case len(fh.EncryptedData) != 0 && fh.MPP != nil:
				kind = "bm"
				total = uint64(fh.TotalAmtMsat)
			case len(fh.EncryptedData) != 0:
				kind = "b"
				total = uint64(fh.TotalAmtMsat)
			case fh.MPP != nil:
				kind = "m"
				a := fh.MPP.PaymentAddr()
				addr = uint64(a[0])
				total = uint64(fh.MPP.TotalMsat())
			}
		}
		fmt.Fprintf(&sb, "%s:%d:%s:%s:%d:%d", c.local(h.AttemptID),
			uint64(h.Route.ReceiverAmt()), st, kind, addr, total)
	}
	return sb.String()
}

func (c *c16L) res(p *paymentsdb.MPPayment, err error) string {
	r := c16LErrName(err)
	if err == nil {
		r += " " + c.dump(p)
	}
	return r
}

// ---------------------------------------------------------------------------
// the database under the control tower: logs every call, injects failures.

type c16DB struct {
	paymentsdb.DB
	c *c16L
}

// crash consults the crash oracle for one call issued by the lifecycle.
// 0 = no failure, 1 = fail before the write, 2 = fail after the write.
func (d *c16DB) crash(line string) int {
	c := d.c
	if !c.inRun {
		return 0
	}
	n := c.callN
	c.callN++
	if n >= 400 {
		// safety cap (never reached on the unchanged tree): a lifecycle
		// that keeps looping is stopped by a database failure
		c.pf("O crash after=0 n=%d", n)
		c.pf("X %s => crash", line)
		return 1
	}
	if c.rng.Intn(100) >= c.pCrash {
		return 0
	}
	if c.rng.Intn(2) == 0 {
		c.pf("O crash after=0 n=%d", n)
		c.pf("X %s => crash", line)
		return 1
	}
	c.pf("O crash after=1 n=%d", n)
	return 2
}

func (d *c16DB) InitPayment(ctx context.Context, h lntypes.Hash,
	info *paymentsdb.PaymentCreationInfo) error {

	err := d.DB.InitPayment(ctx, h, info)
	d.c.pf("init h=0 value=%d => %s", uint64(info.Value), c16LErrName(err))
	return err
}

func (d *c16DB) FetchPayment(ctx context.Context,
	h lntypes.Hash) (*paymentsdb.MPPayment, error) {

	c := d.c
	k := d.crash("fetch h=0")
	if k == 1 {
		return nil, errC16Crash
	}
	p, err := d.DB.FetchPayment(ctx, h)
	c.pf("fetch h=0 => %s", c.res(p, err))
	if k == 2 {
		return nil, errC16Crash
	}
	if err != nil || !c.inRun {
		return p, err
	}
	c.fetchN++
	if c.fetchN == 1 {
		// reloadInflightAttempts
		return p, err
	}
	// the payment context may be done from the next checkContext on
	if c.ctx.Err() == nil && c.rng.Intn(100) < c.pCtx {
		if c.rng.Intn(2) == 0 {
			c.pf("O ctx reason=0 n=%d", c.callN-1)
			c.ctx.cancel(context.DeadlineExceeded)
		} else {
			c.pf("O ctx reason=5 n=%d", c.callN-1)
			c.ctx.cancel(context.Canceled)
		}
	}
	// If the lifecycle is going to block for an attempt result, the switch
	// makes exactly one available (never two at a time: the order in which
	// the collector goroutines would deliver them is not determined).
	allow, e1 := p.AllowMoreAttempts()
	if e1 == nil && !allow {
		wait, e2 := p.NeedWaitAttempts()
		c.mu.Lock()
		havePending := c.pending != nil
		c.mu.Unlock()
		if e2 == nil && wait && !havePending {
			c.release(p)
		}
	}
	return p, err
}

func (d *c16DB) RegisterAttempt(ctx context.Context, h lntypes.Hash,
	a *paymentsdb.HTLCAttemptInfo) (*paymentsdb.MPPayment, error) {

	c := d.c
	kind, addr, total := "p", uint64(0), uint64(0)
	if fh := a.Route.FinalHop(); fh != nil && fh.MPP != nil {
		pa := fh.MPP.PaymentAddr()
		kind, addr, total = "m", uint64(pa[0]), uint64(fh.MPP.TotalMsat())
	}
	line := fmt.Sprintf("reg h=0 id=%s amt=%d kind=%s addr=%d total=%d fee=%d",
		c.local(a.AttemptID), uint64(a.Route.ReceiverAmt()), kind, addr,
		total, uint64(a.Route.TotalFees()))
	k := d.crash(line)
	if k == 1 {
		return nil, errC16Crash
	}
	p, err := d.DB.RegisterAttempt(ctx, h, a)
	c.pf("%s => %s", line, c.res(p, err))
	if k == 2 {
		return nil, errC16Crash
	}
	return p, err
}

func (d *c16DB) resolved(id uint64) {
	c := d.c
	c.mu.Lock()
	if c.pending != nil && c.pending.id == id {
		c.pending = nil
	}
	c.mu.Unlock()
}

func (d *c16DB) SettleAttempt(ctx context.Context, h lntypes.Hash, id uint64,
	s *paymentsdb.HTLCSettleInfo) (*paymentsdb.MPPayment, error) {

	c := d.c
	line := fmt.Sprintf("settle h=0 id=%s", c.local(id))
	k := d.crash(line)
	if k == 1 {
		return nil, errC16Crash
	}
	p, err := d.DB.SettleAttempt(ctx, h, id, s)
	c.pf("%s => %s", line, c.res(p, err))
	d.resolved(id)
	if k == 2 {
		return nil, errC16Crash
	}
	return p, err
}

func (d *c16DB) FailAttempt(ctx context.Context, h lntypes.Hash, id uint64,
	f *paymentsdb.HTLCFailInfo) (*paymentsdb.MPPayment, error) {

	c := d.c
	line := fmt.Sprintf("failatt h=0 id=%s", c.local(id))
	k := d.crash(line)
	if k == 1 {
		return nil, errC16Crash
	}
	p, err := d.DB.FailAttempt(ctx, h, id, f)
	c.pf("%s => %s", line, c.res(p, err))
	d.resolved(id)
	if k == 2 {
		return nil, errC16Crash
	}
	return p, err
}

func (d *c16DB) Fail(ctx context.Context, h lntypes.Hash,
	r paymentsdb.FailureReason) (*paymentsdb.MPPayment, error) {

	c := d.c
	line := fmt.Sprintf("fail h=0 reason=%d", int(r))
	k := d.crash(line)
	if k == 1 {
		return nil, errC16Crash
	}
	p, err := d.DB.Fail(ctx, h, r)
	c.pf("%s => %s", line, c.res(p, err))
	if k == 2 {
		return nil, errC16Crash
	}
	return p, err
}

func (d *c16DB) DeleteFailedAttempts(ctx context.Context,
	h lntypes.Hash) error {

	c := d.c
	k := d.crash("delfailed h=0")
	if k == 1 {
		return errC16Crash
	}
	err := d.DB.DeleteFailedAttempts(ctx, h)
	c.pf("delfailed h=0 => %s", c16LErrName(err))
	if k == 2 {
		return errC16Crash
	}
	return err
}

// ---------------------------------------------------------------------------
// the switch

func (c *c16L) switchErr(kind string) error {
	switch kind {
	case "idnotfound":
		return htlcswitch.ErrPaymentIDNotFound
	case "unreadable":
		return htlcswitch.ErrUnreadableFailureMessage
	case "link":
		return htlcswitch.NewLinkError(
			&lnwire.FailTemporaryChannelFailure{},
		)
	}
	return errors.New("c16: some switch error")
}

func (c *c16L) resultOf(kind string) *htlcswitch.PaymentResult {
	if kind == "settle" {
		return &htlcswitch.PaymentResult{
			Preimage: lntypes.Preimage{byte(c.n), byte(c.n >> 8), 7},
		}
	}
	return &htlcswitch.PaymentResult{Error: c.switchErr(kind)}
}

// release makes the result of one in-flight attempt available.
func (c *c16L) release(p *paymentsdb.MPPayment) {
	infl := p.InFlightHTLCs()
	if len(infl) == 0 {
		return
	}
	sort.Slice(infl, func(i, j int) bool {
		return infl[i].AttemptID < infl[j].AttemptID
	})
	id := infl[c.rng.Intn(len(infl))].AttemptID
	kind := "idnotfound"
	c.mu.Lock()
	wasSent := c.sent[id]
	c.mu.Unlock()
	if wasSent {
		switch r := c.rng.Intn(100); {
		case r < 50:
			kind = "settle"
		case r < 65:
			kind = "unreadable"
		case r < 80:
			kind = "link"
		case r < 92:
			kind = "generic"
		}
	}
	c.pf("O result id=%s => %s", c.local(id), kind)
	c.mu.Lock()
	c.pending = &c16Pending{id: id, kind: kind}
	// every subscriber of the attempt gets the result (a collector of a
	// lifecycle that has already exited may still be subscribing)
	for _, ch := range c.resCh[id] {
		ch <- c.resultOf(kind)
	}
	c.mu.Unlock()
}

type c16Payer struct{ c *c16L }

func (m *c16Payer) SendHTLC(_ lnwire.ShortChannelID, id uint64,
	_ *lnwire.UpdateAddHTLC) error {

	c := m.c
	kind := "ok"
	switch r := c.rng.Intn(100); {
	case r < 76:
	case r < 82:
		kind = "idnotfound"
	case r < 88:
		kind = "unreadable"
	case r < 94:
		kind = "link"
	default:
		kind = "generic"
	}
	c.pf("O send id=%s => %s", c.local(id), kind)
	if kind == "ok" {
		c.mu.Lock()
		c.sent[id] = true
		c.mu.Unlock()
		return nil
	}
	return c.switchErr(kind)
}

func (m *c16Payer) GetAttemptResult(id uint64, _ lntypes.Hash,
	_ htlcswitch.ErrorDecrypter) (<-chan *htlcswitch.PaymentResult, error) {

	c := m.c
	c.mu.Lock()
	defer c.mu.Unlock()
	ch := make(chan *htlcswitch.PaymentResult, 1)
	c.resCh[id] = append(c.resCh[id], ch)
	if c.pending != nil && c.pending.id == id {
		ch <- c.resultOf(c.pending.kind)
	}
	return ch, nil
}

func (m *c16Payer) CleanStore(map[uint64]struct{}) error { return nil }
func (m *c16Payer) HasAttemptResult(uint64) (bool, error) {
	return false, nil
}

// ---------------------------------------------------------------------------
// mission control, payment session

type c16MC struct{ c *c16L }

func (m *c16MC) ReportPaymentFail(id uint64, _ *route.Route, _ *int,
	_ lnwire.FailureMessage) (*paymentsdb.FailureReason, error) {

	c := m.c
	switch r := c.rng.Intn(100); {
	case r < 50:
		c.pf("O mc id=%s => -", c.local(id))
		return nil, nil
	case r < 86:
		reason := paymentsdb.FailureReason(1 + c.rng.Intn(4))
		c.pf("O mc id=%s => %d", c.local(id), int(reason))
		return &reason, nil
	}
	c.pf("O mc id=%s => err", c.local(id))
	return nil, errors.New("c16: mission control error")
}

func (m *c16MC) ReportPaymentSuccess(uint64, *route.Route) error { return nil }
func (m *c16MC) GetProbability(_, _ route.Vertex, _ lnwire.MilliSatoshi,
	_ btcutil.Amount) float64 {

	return 1
}

type c16Session struct {
	c     *c16L
	empty PaymentSession
}

func (s *c16Session) RequestRoute(maxAmt, feeLimit lnwire.MilliSatoshi,
	activeShards, height uint32,
	recs lnwire.CustomRecords) (*route.Route, error) {

	c := s.c
	args := fmt.Sprintf("max=%d budget=%d nif=%d", uint64(maxAmt),
		uint64(feeLimit), activeShards)
	if c.resumed {
		// lnd's start-up path: the real empty payment session
		rt, err := s.empty.RequestRoute(
			maxAmt, feeLimit, activeShards, height, recs,
		)
		var nr noRouteError
		if rt == nil && errors.As(err, &nr) {
			c.pf("O route %s => noroute reason=%d", args,
				int(nr.FailureReason()))
		} else {
			c.pf("O route %s => unexpected", args)
		}
		return rt, err
	}
	r := c.rng.Intn(100)
	switch {
	case r < 3:
		c.pf("O route %s => crit", args)
		return nil, errC16Crit
	case r < 9:
		c.pf("O route %s => noroute reason=1", args)
		return nil, errNoPathFound
	case r < 14:
		c.pf("O route %s => noroute reason=4", args)
		return nil, errInsufficientBalance
	}
	m := uint64(maxAmt)
	amt := m
	switch q := c.rng.Intn(100); {
	case q < 38:
	case q < 58:
		amt = m / 2
	case q < 70:
		amt = 1
	case q < 82:
		amt = m - 1
	case q < 92:
		amt = 1 + uint64(c.rng.Int63n(int64(m)))
	case q < 96:
		amt = m + 1
	default:
		amt = m + 1 + uint64(c.rng.Intn(5))
	}
	if amt == 0 {
		amt = 1
	}
	fee := uint64(c.rng.Intn(4))
	if c.rng.Intn(8) == 0 {
		fee = uint64(c.rng.Intn(40))
	}
	c.pf("O route %s => amt=%d fee=%d", args, amt, fee)
	hop := &route.Hop{
		PubKeyBytes:      c.hopKey,
		ChannelID:        1,
		OutgoingTimeLock: 100,
		AmtToForward:     lnwire.MilliSatoshi(amt),
		MPP: record.NewMPP(
			lnwire.MilliSatoshi(c.value), [32]byte{c.addr},
		),
	}
	return &route.Route{
		SourcePubKey:  c.hopKey,
		TotalAmount:   lnwire.MilliSatoshi(amt + fee),
		TotalTimeLock: 120,
		Hops:          []*route.Hop{hop},
	}, nil
}

func (s *c16Session) UpdateAdditionalEdge(*lnwire.ChannelUpdate1,
	*btcec.PublicKey, *models.CachedEdgePolicy) bool {

	return false
}

func (s *c16Session) GetAdditionalEdgePolicy(*btcec.PublicKey,
	uint64) *models.CachedEdgePolicy {

	return nil
}

// ---------------------------------------------------------------------------

// run executes one resumePayment.
func (c *c16L) run(tower ControlTower, resumed bool) {
	feeLimit := uint64(0)
	keep := c.rng.Intn(3) == 0
	if !resumed {
		switch c.rng.Intn(4) {
		case 0:
			feeLimit = uint64(c.rng.Intn(6))
		case 1:
			feeLimit = uint64(c.rng.Intn(60))
		default:
			feeLimit = 1 << 40
		}
	}
	mode := "fresh"
	if resumed {
		mode = "resumed"
	}
	c.pf("RUN mode=%s feelimit=%d keep=%d", mode, feeLimit, c16b(keep))

	quit := make(chan struct{})
	r := &ChannelRouter{
		cfg: &Config{
			Control:        tower,
			Payer:          &c16Payer{c},
			Clock:          clock.NewDefaultClock(),
			MissionControl: &c16MC{c},
			NextPaymentID: func() (uint64, error) {
				c.nextID++
				id := c.idBase + c.nextID
				c.pf("O nextid => %s", c.local(id))
				return id, nil
			},
			TrafficShaper: fn.None[htlcswitch.AuxTrafficShaper](),
			KeepFailedPaymentAttempts: keep,
		},
		quit: quit,
	}
	c.ctx = &c16Ctx{done: make(chan struct{})}
	c.resumed = resumed
	c.fetchN = 0
	c.callN = 0
	c.mu.Lock()
	c.resCh = make(map[uint64][]chan *htlcswitch.PaymentResult)
	c.mu.Unlock()

	p := newPaymentLifecycle(
		r, lnwire.MilliSatoshi(feeLimit), c.hash,
		&c16Session{c: c, empty: &paymentSession{empty: true}},
		shards.NewSimpleShardTracker(c.hash, nil), 0, nil,
	)

	type outT struct {
		pre [32]byte
		err error
		pan bool
	}
	done := make(chan outT, 1)
	c.inRun = true
	go func() {
		var o outT
		defer func() {
			if rec := recover(); rec != nil {
				o.pan = true
			}
			done <- o
		}()
		o.pre, _, o.err = p.resumePayment(c.ctx)
	}()
	var o outT
	select {
	case o = <-done:
	case <-time.After(60 * time.Second):
		// the lifecycle blocks although no result can arrive any more
		close(quit)
		o = <-done
		c.inRun = false
		c.pf("ENDRUN => hang")
		return
	}
	c.inRun = false
	var fr paymentsdb.FailureReason
	switch {
	case o.pan:
		c.pf("ENDRUN => panic")
	case o.err == nil:
		c.pf("ENDRUN => preimage")
	case errors.As(o.err, &fr):
		c.pf("ENDRUN => reason=%d", int(fr))
	case errors.Is(o.err, errC16Crash):
		c.pf("ENDRUN => err=crash")
	case errors.Is(o.err, paymentsdb.ErrPaymentInternal):
		c.pf("ENDRUN => err=internal")
	case errors.Is(o.err, errC16Crit):
		c.pf("ENDRUN => err=crit")
	default:
		c.pf("ENDRUN => err=%s", c16LErrName(o.err))
	}
}

func c16b(x bool) int {
	if x {
		return 1
	}
	return 0
}

var c16LValues = []uint64{1, 2, 3, 7, 10, 10, 10, 100, 1000, 1 << 40}

func (c *c16L) genCase(db paymentsdb.DB) {
	c.value = c16LValues[c.rng.Intn(len(c16LValues))]
	c.addr = byte(1 + c.rng.Intn(200))
	c.idBase = uint64(c.n) * 1000
	c.hash = lntypes.Hash{byte(c.n), byte(c.n >> 8), byte(c.n >> 16), 0x16}
	c.sent = make(map[uint64]bool)
	switch c.rng.Intn(3) {
	case 0:
		c.pCrash, c.pCtx = 0, 4
	case 1:
		c.pCrash, c.pCtx = 5, 4
	default:
		c.pCrash, c.pCtx = 12, 10
	}
	c.real = db
	wdb := &c16DB{DB: db, c: c}
	tower := NewControlTower(wdb)
	ctx := context.Background()

	c.pf("CASE %d kind=life value=%d addr=%d", c.n, c.value, c.addr)
	info := func() *paymentsdb.PaymentCreationInfo {
		return &paymentsdb.PaymentCreationInfo{
			PaymentIdentifier: c.hash,
			Value:             lnwire.MilliSatoshi(c.value),
			CreationTime:      time.Unix(1700000000, 0),
			PaymentRequest:    []byte("req"),
		}
	}
	if err := tower.InitPayment(ctx, c.hash, info()); err != nil {
		c.pf("END")
		return
	}
	c.run(tower, false)
	acts := 1 + c.rng.Intn(5)
	for i := 0; i < acts; i++ {
		if c.rng.Intn(100) < 65 {
			// restart: lnd resumes the payments FetchInFlightPayments
			// returns
			ps, err := tower.FetchInFlightPayments(ctx)
			found := false
			for _, p := range ps {
				if p.Info.PaymentIdentifier == c.hash {
					found = true
				}
			}
			switch {
			case err != nil:
				c.pf("inflight => %s", c16LErrName(err))
			case found:
				c.pf("inflight => ok set=0")
			default:
				c.pf("inflight => ok set=-")
			}
			if found {
				c.run(tower, true)
			}
		} else if tower.InitPayment(ctx, c.hash, info()) == nil {
			// the payment is sent again
			c.run(tower, false)
		}
	}
	_, _ = wdb.FetchPayment(ctx, c.hash)
	c.pf("END")
}

func TestVerifC16Life(t *testing.T) {
	out := os.Getenv("VERIF_OUT")
	if out == "" {
		t.Skip("VERIF_OUT not set")
	}
	seed, _ := strconv.ParseInt(os.Getenv("VERIF_SEED"), 10, 64)
	if seed == 0 {
		seed = 1
	}
	f, err := os.Create(out)
	if err != nil {
		t.Fatal(err)
	}
	defer f.Close()
	w := bufio.NewWriterSize(f, 1<<20)
	defer w.Flush()

	nCases := 240
	if os.Getenv("VERIF_TIER") == "thorough" {
		nCases = 6000
	}
	if v := os.Getenv("VERIF_C16_CASES"); v != "" {
		nCases, _ = strconv.Atoi(v)
	}
	priv, err := btcec.NewPrivateKey()
	if err != nil {
		t.Fatal(err)
	}
	hopKey := route.NewVertex(priv.PubKey())

	const workers = 8
	const perDB = 60
	bufs := make([]bytes.Buffer, nCases)
	var next int64 = -1
	var wg sync.WaitGroup
	for wk := 0; wk < workers; wk++ {
		wg.Add(1)
		go func() {
			defer wg.Done()
			more := true
			for more {
				t.Run("epoch", func(et *testing.T) {
					db, err := paymentsdb.NewKVStore(initDB(et))
					if err != nil {
						et.Fatal(err)
					}
					for n := 0; n < perDB; n++ {
						i := int(atomic.AddInt64(&next, 1))
						if i >= nCases {
							more = false
							return
						}
						c := &c16L{
							t: et, w: bufio.NewWriter(&bufs[i]),
							n: i + 1, hopKey: hopKey,
							rng: rand.New(rand.NewSource(
								seed*1000003 + int64(i),
							)),
						}
						c.genCase(db)
						c.w.Flush()
					}
				})
			}
		}()
	}
	wg.Wait()
	for i := range bufs {
		w.Write(bufs[i].Bytes())
	}
}
