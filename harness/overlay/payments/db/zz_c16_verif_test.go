//go:build verif

package paymentsdb

// C16 correspondence/monitor harness. Injected with `go test -overlay`; drives
// the real payments DB (KVStore in the default build, SQLStore with
// `-tags test_db_sqlite`) through the paymentsdb.DB interface and prints one
// line per operation for the Lean driver (drv_c16). The operation stream is a
// function of (VERIF_SEED, VERIF_TIER) only: both backends see the same ops.

import (
	"bufio"
	"bytes"
	"context"
	"errors"
	"fmt"
	"math/rand"
	"os"
	"sort"
	"strconv"
	"strings"
	"sync"
	"sync/atomic"
	"testing"
	"time"

	"github.com/lightningnetwork/lnd/lntypes"
	"github.com/lightningnetwork/lnd/lnwire"
	"github.com/lightningnetwork/lnd/record"
	"github.com/lightningnetwork/lnd/routing/route"
)

const (
	c16Hashes = 3
	c16Ids    = 4
)

type c16 struct {
	t    *testing.T
	w    *bufio.Writer
	rng  *rand.Rand
	db   DB
	db2  DB // cross-backend stream only: the SAME calls are also issued on the KV store
	ctx  context.Context
	n    int    // case number
	keyN uint64 // session key counter (unique per registration)

	// per-case
	hashes [c16Hashes]lntypes.Hash
	idBase uint64
	mu     sync.Mutex
	wmu    sync.Mutex
	newDB  func() (DB, DB) // fresh database(s) (bulk-delete cases start on an empty one)
}

func (c *c16) pf(format string, a ...interface{}) {
	c.wmu.Lock()
	fmt.Fprintf(c.w, format+"\n", a...)
	c.wmu.Unlock()
}

// c16ErrName maps an error to a small enum by sentinel identity.
func c16ErrName(err error) string {
	if err == nil {
		return "ok"
	}
	tbl := []struct {
		e error
		n string
	}{
		{ErrAlreadyPaid, "AlreadyPaid"},
		{ErrPaymentInFlight, "PaymentInFlight"},
		{ErrPaymentExists, "PaymentExists"},
		{ErrPaymentInternal, "PaymentInternal"},
		{ErrPaymentNotInitiated, "NotInitiated"},
		{ErrPaymentAlreadySucceeded, "AlreadySucceeded"},
		{ErrPaymentAlreadyFailed, "AlreadyFailed"},
		{ErrUnknownPaymentStatus, "UnknownStatus"},
		{ErrPaymentTerminal, "Terminal"},
		{ErrAttemptAlreadySettled, "AttemptAlreadySettled"},
		{ErrAttemptAlreadyFailed, "AttemptAlreadyFailed"},
		{ErrValueMismatch, "ValueMismatch"},
		{ErrValueExceedsAmt, "ValueExceedsAmt"},
		{ErrNonMPPayment, "NonMPPayment"},
		{ErrMPPayment, "MPPayment"},
		{ErrMPPRecordInBlindedPayment, "MPPRecordInBlinded"},
		{ErrBlindedPaymentTotalAmountMismatch, "BlindedTotalMismatch"},
		{ErrMixedBlindedAndNonBlindedPayments, "MixedBlinded"},
		{ErrBlindedPaymentMissingTotalAmount, "BlindedMissingTotal"},
		{ErrMPPPaymentAddrMismatch, "MPPAddrMismatch"},
		{ErrMPPTotalAmountMismatch, "MPPTotalMismatch"},
		{ErrPaymentPendingSettled, "PendingSettled"},
		{ErrPaymentPendingFailed, "PendingFailed"},
		{ErrSentExceedsTotal, "SentExceedsTotal"},
		{ErrNoAttemptInfo, "NoAttemptInfo"},
	}
	for _, e := range tbl {
		if errors.Is(err, e.e) {
			return e.n
		}
	}
	return "other"
}

// localID maps a global attempt id back to the per-case id space.
func (c *c16) localID(id uint64) string {
	if id >= c.idBase && id < c.idBase+64 {
		return strconv.FormatUint(id-c.idBase, 10)
	}
	return "x" + strconv.FormatUint(id, 10)
}

// dump canonicalises an MPPayment.
func (c *c16) dump(p *MPPayment) string {
	if p == nil {
		return "nil"
	}
	var sb strings.Builder
	fmt.Fprintf(&sb, "value=%d st=%d", uint64(p.Info.Value), int(p.Status))
	if p.State != nil {
		b := func(x bool) int {
			if x {
				return 1
			}
			return 0
		}
		fmt.Fprintf(&sb, " rem=%d nif=%d fees=%d hs=%d pf=%d",
			uint64(p.State.RemainingAmt), p.State.NumAttemptsInFlight,
			uint64(p.State.FeesPaid), b(p.State.HasSettledHTLC),
			b(p.State.PaymentFailed))
	} else {
		sb.WriteString(" nostate")
	}
	if p.FailureReason != nil {
		fmt.Fprintf(&sb, " reason=%d", int(*p.FailureReason))
	} else {
		sb.WriteString(" reason=-")
	}
	// what the router's payment lifecycle reads off this payment
	if p.State != nil {
		dec := func(b bool, err error) string {
			switch {
			case errors.Is(err, ErrPaymentInternal):
				return "E"
			case err != nil:
				return "U"
			case b:
				return "t"
			}
			return "f"
		}
		term := 0
		if p.Terminated() {
			term = 1
		}
		ti := "-"
		th, tf := p.TerminalInfo()
		switch {
		case th != nil && th.Settle != nil && tf == nil:
			ti = "S"
		case th != nil:
			ti = "X"
		case tf != nil:
			ti = "R" + strconv.Itoa(int(*tf))
		}
		fmt.Fprintf(&sb, " allow=%s wait=%s term=%d ti=%s",
			dec(p.AllowMoreAttempts()), dec(p.NeedWaitAttempts()),
			term, ti)
	}
	hs := make([]HTLCAttempt, len(p.HTLCs))
	copy(hs, p.HTLCs)
	sort.SliceStable(hs, func(i, j int) bool {
		return hs[i].AttemptID < hs[j].AttemptID
	})
	sb.WriteString(" htlcs=")
	if len(hs) == 0 {
		sb.WriteString("-")
	}
	for i, h := range hs {
		if i > 0 {
			sb.WriteString(",")
		}
		st := "I"
		switch {
		case h.Settle != nil && h.Failure != nil:
			st = "B"
		case h.Settle != nil:
			st = "S"
		case h.Failure != nil:
			st = "F"
		}
		kind := "p"
		var addr, total uint64
		fh := h.Route.FinalHop()
		if fh != nil {
			switch {
			case len(fh.EncryptedData) != 0 && fh.MPP != nil:
				kind = "bm"
				total = uint64(fh.TotalAmtMsat)
			case len(fh.EncryptedData) != 0:
				kind = "b"
				total = uint64(fh.TotalAmtMsat)
			case fh.MPP != nil:
				kind = "m"
				a := fh.MPP.PaymentAddr()
				addr = uint64(a[0])
				total = uint64(fh.MPP.TotalMsat())
			}
		}
		fmt.Fprintf(&sb, "%s:%d:%s:%s:%d:%d", c.localID(h.AttemptID),
			uint64(h.Route.ReceiverAmt()), st, kind, addr, total)
	}
	return sb.String()
}

// c16NewKV builds a bbolt-backed KVStore; only set in the build that also has
// the SQL store (zz_c16_x_verif_test.go, cross-backend stream).
var c16NewKV func(t *testing.T) DB

// both runs one call on the store under test and, in the cross-backend
// stream, the same call on the KV store: "<kv answer> ## <sql answer>".
func (c *c16) both(f func(db DB) string) string {
	run := func(db DB) (res string) {
		defer c.guard(&res)
		return f(db)
	}
	if c.db2 == nil {
		return run(c.db)
	}
	kv := run(c.db2)
	return kv + " ## " + run(c.db)
}

func (c *c16) guard(res *string) {
	if r := recover(); r != nil {
		*res = "panic"
	}
}

func (c *c16) opInit(h int, value uint64) string {
	res := c.both(func(db DB) string {
		info := &PaymentCreationInfo{
			PaymentIdentifier: c.hashes[h],
			Value:             lnwire.MilliSatoshi(value),
			CreationTime:      time.Unix(1700000000, 0),
			PaymentRequest:    []byte("req"),
		}
		return c16ErrName(db.InitPayment(c.ctx, c.hashes[h], info))
	})
	return fmt.Sprintf("init h=%d value=%d => %s", h, value, res)
}

// mkAttempt builds an attempt with a single (final) hop.
// kind: p (no MPP record), m (MPP record addr/total), b (blinded, total),
// bm (blinded with an MPP record).
func (c *c16) mkAttempt(h int, id uint64, amt uint64, kind string, addr byte,
	total uint64, fee uint64) *HTLCAttemptInfo {

	c.mu.Lock()
	c.keyN++
	k := uint64(c.n)<<24 | c.keyN
	c.mu.Unlock()

	hop := &route.Hop{
		PubKeyBytes:      vertex,
		ChannelID:        1,
		OutgoingTimeLock: 100,
		AmtToForward:     lnwire.MilliSatoshi(amt),
	}
	switch kind {
	case "m":
		hop.MPP = record.NewMPP(lnwire.MilliSatoshi(total), [32]byte{addr})
	case "b":
		hop.EncryptedData = []byte{1, 2, 3}
		hop.TotalAmtMsat = lnwire.MilliSatoshi(total)
	case "bm":
		hop.EncryptedData = []byte{1, 2, 3}
		hop.TotalAmtMsat = lnwire.MilliSatoshi(total)
		hop.MPP = record.NewMPP(lnwire.MilliSatoshi(total), [32]byte{addr})
	}
	var sk [32]byte
	sk[0] = 1
	for i := 0; i < 8; i++ {
		sk[31-i] = byte(k >> (8 * i))
	}
	hash := c.hashes[h]
	return &HTLCAttemptInfo{
		AttemptID:   c.idBase + id,
		sessionKey:  sk,
		AttemptTime: time.Unix(1700000001, 0),
		Hash:        &hash,
		Route: route.Route{
			SourcePubKey:  vertex,
			TotalAmount:   lnwire.MilliSatoshi(amt + fee),
			TotalTimeLock: 120,
			Hops:          []*route.Hop{hop},
		},
	}
}

func (c *c16) opReg(h int, id uint64, amt uint64, kind string, addr byte,
	total uint64, fee uint64) string {

	a := c.mkAttempt(h, id, amt, kind, addr, total, fee)
	res := c.both(func(db DB) string {
		a2 := *a
		p, err := db.RegisterAttempt(c.ctx, c.hashes[h], &a2)
		res := c16ErrName(err)
		if err == nil {
			res += " " + c.dump(p)
		}
		return res
	})
	return fmt.Sprintf("reg h=%d id=%d amt=%d kind=%s addr=%d total=%d fee=%d => %s",
		h, id, amt, kind, addr, total, fee, res)
}

func (c *c16) opSettle(h int, id uint64) string {
	res := c.both(func(db DB) string {
		p, err := db.SettleAttempt(c.ctx, c.hashes[h], c.idBase+id,
			&HTLCSettleInfo{
				Preimage:   lntypes.Preimage{byte(h + 1)},
				SettleTime: time.Unix(1700000002, 0),
			})
		res := c16ErrName(err)
		if err == nil {
			res += " " + c.dump(p)
		}
		return res
	})
	return fmt.Sprintf("settle h=%d id=%d => %s", h, id, res)
}

func (c *c16) opFailAtt(h int, id uint64) string {
	res := c.both(func(db DB) string {
		p, err := db.FailAttempt(c.ctx, c.hashes[h], c.idBase+id,
			&HTLCFailInfo{
				Reason:   HTLCFailUnreadable,
				FailTime: time.Unix(1700000003, 0),
			})
		res := c16ErrName(err)
		if err == nil {
			res += " " + c.dump(p)
		}
		return res
	})
	return fmt.Sprintf("failatt h=%d id=%d => %s", h, id, res)
}

func (c *c16) opFail(h int, reason int) string {
	res := c.both(func(db DB) string {
		p, err := db.Fail(c.ctx, c.hashes[h], FailureReason(reason))
		res := c16ErrName(err)
		if err == nil {
			res += " " + c.dump(p)
		}
		return res
	})
	return fmt.Sprintf("fail h=%d reason=%d => %s", h, reason, res)
}

func (c *c16) opDel(h int) string {
	res := c.both(func(db DB) string {
		return c16ErrName(db.DeletePayment(c.ctx, c.hashes[h], false))
	})
	return fmt.Sprintf("del h=%d => %s", h, res)
}

func (c *c16) opDelFailed(h int) string {
	res := c.both(func(db DB) string {
		return c16ErrName(db.DeleteFailedAttempts(c.ctx, c.hashes[h]))
	})
	return fmt.Sprintf("delfailed h=%d => %s", h, res)
}

func (c *c16) opFetch(h int) string {
	res := c.both(func(db DB) string {
		p, err := db.FetchPayment(c.ctx, c.hashes[h])
		res := c16ErrName(err)
		if err == nil {
			res += " " + c.dump(p)
		}
		return res
	})
	return fmt.Sprintf("fetch h=%d => %s", h, res)
}

func (c *c16) opInflight() string {
	res := c.both(func(db DB) string {
		ps, err := db.FetchInFlightPayments(c.ctx)
		if err != nil {
			return c16ErrName(err)
		}
		var hs []string
		for _, p := range ps {
			for i := range c.hashes {
				if p.Info.PaymentIdentifier == c.hashes[i] {
					hs = append(hs, strconv.Itoa(i))
				}
			}
		}
		sort.Strings(hs)
		if len(hs) == 0 {
			return "ok set=-"
		}
		return "ok set=" + strings.Join(hs, ",")
	})
	return "inflight => " + res
}

// opDelAll: bulk DeletePayments. Only issued in cases that run on their own
// database, so the returned count refers to this case's payments.
func (c *c16) opDelAll(failedOnly, failedHtlcsOnly bool) string {
	res := c.both(func(db DB) string {
		n, err := db.DeletePayments(c.ctx, failedOnly, failedHtlcsOnly)
		if err == nil {
			return fmt.Sprintf("ok n=%d", n)
		}
		return c16ErrName(err)
	})
	b := func(x bool) int {
		if x {
			return 1
		}
		return 0
	}
	return fmt.Sprintf("delall fo=%d fho=%d => %s", b(failedOnly), b(failedHtlcsOnly), res)
}

// opList: QueryPayments over everything, restricted to this case's hashes,
// canonical order by hash index: "h:status".
func (c *c16) opList(incl bool) string {
	res := c.both(func(db DB) string {
		resp, err := db.QueryPayments(c.ctx, Query{
			MaxPayments:       1 << 20,
			IncludeIncomplete: incl,
		})
		if err != nil {
			return c16ErrName(err)
		}
		var hs []string
		for _, p := range resp.Payments {
			for i := range c.hashes {
				if p.Info.PaymentIdentifier == c.hashes[i] {
					hs = append(hs, fmt.Sprintf("%d:%d", i, int(p.Status)))
				}
			}
		}
		sort.Strings(hs)
		if len(hs) == 0 {
			return "ok set=-"
		}
		return "ok set=" + strings.Join(hs, ",")
	})
	incN := 0
	if incl {
		incN = 1
	}
	return fmt.Sprintf("list incl=%d => %s", incN, res)
}

// opPage: paginated QueryPayments. The cursor is the sequence number of the
// payment with hash index `cur` (-1: IndexOffset 0), read from the store by a
// FetchPayment in the same call. Only issued in cases that run on their own
// database. Answer: the returned payments IN RETURNED ORDER as "h:status"
// ("x" for a payment that is not of this case), whether First/LastIndexOffset
// are the sequence numbers of the first / last returned payment and strictly
// increase along the page, and TotalCount.
func (c *c16) opPage(incl, rev bool, cur int, max uint64) string {
	res := c.both(func(db DB) string {
		var off uint64
		if cur >= 0 {
			p, err := db.FetchPayment(c.ctx, c.hashes[cur])
			if err != nil {
				return "nocursor"
			}
			off = p.SequenceNum
		}
		resp, err := db.QueryPayments(c.ctx, Query{
			IndexOffset:       off,
			MaxPayments:       max,
			Reversed:          rev,
			IncludeIncomplete: incl,
			CountTotal:        true,
		})
		if err != nil {
			return c16ErrName(err)
		}
		var hs []string
		offOK := 1
		var last uint64
		for k, p := range resp.Payments {
			name := "x"
			for i := range c.hashes {
				if p.Info.PaymentIdentifier == c.hashes[i] {
					name = strconv.Itoa(i)
				}
			}
			hs = append(hs, fmt.Sprintf("%s:%d", name, int(p.Status)))
			if k > 0 && p.SequenceNum <= last {
				offOK = 0
			}
			last = p.SequenceNum
			if rev && off != 0 && p.SequenceNum >= off {
				offOK = 0
			}
			if !rev && p.SequenceNum <= off {
				offOK = 0
			}
		}
		if n := len(resp.Payments); n > 0 {
			if resp.FirstIndexOffset != resp.Payments[0].SequenceNum ||
				resp.LastIndexOffset != resp.Payments[n-1].SequenceNum {

				offOK = 0
			}
		} else if resp.FirstIndexOffset != 0 || resp.LastIndexOffset != 0 {
			offOK = 0
		}
		set := "-"
		if len(hs) > 0 {
			set = strings.Join(hs, ",")
		}
		return fmt.Sprintf("ok set=%s off=%d total=%d", set, offOK, resp.TotalCount)
	})
	b := func(x bool) int {
		if x {
			return 1
		}
		return 0
	}
	return fmt.Sprintf("page incl=%d rev=%d cur=%d max=%d => %s", b(incl), b(rev), cur, max, res)
}

// doPage issues one paginated query with a random cursor / direction / size.
func (c *c16) doPage(cs *c16Case) {
	cur := -1
	if c.rng.Intn(100) < 65 {
		cur = c.rng.Intn(c16Hashes)
		// mostly a payment that (by the generator's shadow) exists
		var ex []int
		for h := range cs.sh {
			if cs.sh[h].exists {
				ex = append(ex, h)
			}
		}
		if len(ex) > 0 && c.rng.Intn(100) < 85 {
			cur = ex[c.rng.Intn(len(ex))]
		}
	}
	c.pf("%s", c.opPage(c.rng.Intn(4) != 0, c.rng.Intn(2) == 0, cur, uint64(1+c.rng.Intn(3))))
}

func (c *c16) startCase(kind string) {
	c.keyN = 0
	c.idBase = uint64(c.n) * 64
	for i := range c.hashes {
		var h lntypes.Hash
		h[0] = byte(i + 1)
		h[1] = byte(c.n)
		h[2] = byte(c.n >> 8)
		h[3] = byte(c.n >> 16)
		h[4] = byte(c.n >> 24)
		c.hashes[i] = h
	}
	c.pf("CASE %d kind=%s", c.n, kind)
}

func (c *c16) endCase() { c.pf("END") }


// ---------------------------------------------------------------------------
// generator

// shadow is the generator's own rough picture of a payment; it only biases
// the choice of the next operation (towards valid flows and towards the
// remaining-amount boundary) and never depends on the store's answers, so
// that both backends receive the same operation list for a seed.
type c16ShadowAtt struct {
	id  uint64
	amt uint64
	st  byte // 'I','S','F'
}

type c16Shadow struct {
	exists bool
	value  uint64
	atts   []c16ShadowAtt
	reason bool
}

func (p *c16Shadow) sent() uint64 {
	var s uint64
	for _, a := range p.atts {
		if a.st != 'F' {
			s += a.amt
		}
	}
	return s
}

func (p *c16Shadow) status() int {
	var infl, setl, fld bool
	for _, a := range p.atts {
		switch a.st {
		case 'I':
			infl = true
		case 'S':
			setl = true
		case 'F':
			fld = true
		}
	}
	switch {
	case infl:
		return 2
	case setl:
		return 3
	case p.reason:
		return 4
	case fld:
		return 2
	}
	return 1
}

var c16Values = []uint64{1, 2, 3, 7, 10, 10, 10, 1000, 1000, 1 << 40, 1 << 61}

func (c *c16) pickAmt(p *c16Shadow) uint64 {
	var rem uint64
	if p.value >= p.sent() {
		rem = p.value - p.sent()
	}
	switch r := c.rng.Intn(100); {
	case r < 26:
		return rem
	case r < 36:
		return rem + 1
	case r < 46:
		if rem > 0 {
			return rem - 1
		}
		return 0
	case r < 66:
		if rem >= 2 {
			return rem / 2
		}
		return rem
	case r < 74:
		return 1
	case r < 82:
		return p.value
	case r < 86:
		return p.value + 1
	case r < 89:
		return 0
	case r < 92:
		if p.value > 0 {
			return p.value - 1
		}
		return 0
	default:
		if p.value == 0 {
			return 0
		}
		return uint64(c.rng.Int63n(int64(p.value%(1<<62)) + 1))
	}
}

type c16Case struct {
	wild   bool
	bulk   bool // case runs on its own database and issues DeletePayments
	mode   int // 0 mpp, 1 plain, 2 blinded, 3 mixed
	sh     [c16Hashes]c16Shadow
	nextID uint64
	focus  int
}

func (c *c16) pickShape(cs *c16Case, p *c16Shadow) (kind string, addr byte, total uint64) {
	v := p.value
	mut := c.rng.Intn(100) < 14
	mode := cs.mode
	if mode == 3 {
		mode = c.rng.Intn(3)
	}
	switch mode {
	case 0:
		kind, addr, total = "m", 1, v
		if mut {
			switch c.rng.Intn(6) {
			case 0:
				addr = 2
			case 1:
				total = v + 1
			case 2:
				kind = "p"
			case 3:
				kind = "b"
			case 4:
				kind = "bm"
			case 5:
				total = 0
			}
		}
	case 1:
		kind, addr, total = "p", 0, 0
		if mut {
			switch c.rng.Intn(3) {
			case 0:
				kind, addr, total = "m", 1, v
			case 1:
				kind, total = "b", v
			case 2:
				kind, addr, total = "m", 0, 0
			}
		}
	default:
		kind, addr, total = "b", 0, v
		if v == 0 {
			total = 5
		}
		if mut {
			switch c.rng.Intn(6) {
			case 0:
				total = total + 1
			case 1:
				total = 0
			case 2:
				kind, addr = "m", 1
			case 3:
				kind = "bm"
			case 4:
				kind = "p"
			case 5:
				if total > 1 {
					total--
				}
			}
		}
	}
	return
}

func (c *c16) pickResolveID(cs *c16Case, h int) uint64 {
	p := &cs.sh[h]
	var infl, done []uint64
	for _, a := range p.atts {
		if a.st == 'I' {
			infl = append(infl, a.id)
		} else {
			done = append(done, a.id)
		}
	}
	r := c.rng.Intn(100)
	switch {
	case r < 72 && len(infl) > 0:
		return infl[c.rng.Intn(len(infl))]
	case r < 84 && len(done) > 0:
		return done[c.rng.Intn(len(done))]
	case r < 92 || !cs.wild:
		if cs.wild {
			return uint64(c.rng.Intn(c16Ids))
		}
		// an id that is never registered in this case
		return 60 + uint64(c.rng.Intn(3))
	default:
		// wild: an id of another payment
		o := &cs.sh[(h+1+c.rng.Intn(c16Hashes-1))%c16Hashes]
		if len(o.atts) > 0 {
			return o.atts[c.rng.Intn(len(o.atts))].id
		}
		return uint64(c.rng.Intn(c16Ids))
	}
}

func (c *c16) genOp(cs *c16Case) {
	if c.rng.Intn(100) < 12 {
		cs.focus = c.rng.Intn(c16Hashes)
	}
	h := cs.focus
	if c.rng.Intn(100) < 25 {
		h = c.rng.Intn(c16Hashes)
	}
	p := &cs.sh[h]

	// op weights
	type wop struct {
		name string
		w    int
	}
	var ws []wop
	if !p.exists {
		ws = []wop{{"init", 70}, {"reg", 6}, {"settle", 4}, {"failatt", 4}, {"fail", 4},
			{"del", 3}, {"delfailed", 3}, {"fetch", 4}, {"inflight", 2}}
	} else {
		switch p.status() {
		case 1:
			ws = []wop{{"init", 5}, {"reg", 60}, {"settle", 3}, {"failatt", 3}, {"fail", 7},
				{"del", 4}, {"delfailed", 3}, {"fetch", 8}, {"inflight", 7}}
		case 2:
			ws = []wop{{"init", 6}, {"reg", 34}, {"settle", 13}, {"failatt", 20}, {"fail", 8},
				{"del", 3}, {"delfailed", 4}, {"fetch", 6}, {"inflight", 6}}
		case 3:
			ws = []wop{{"init", 14}, {"reg", 14}, {"settle", 10}, {"failatt", 10}, {"fail", 12},
				{"del", 10}, {"delfailed", 12}, {"fetch", 10}, {"inflight", 8}}
		default:
			ws = []wop{{"init", 30}, {"reg", 14}, {"settle", 8}, {"failatt", 8}, {"fail", 8},
				{"del", 8}, {"delfailed", 10}, {"fetch", 8}, {"inflight", 6}}
		}
	}
	ws = append(ws, wop{"list", 3})
	if cs.bulk {
		ws = append(ws, wop{"delall", 10}, wop{"page", 9})
	}
	tot := 0
	for _, w := range ws {
		tot += w.w
	}
	r := c.rng.Intn(tot)
	name := ""
	for _, w := range ws {
		if r < w.w {
			name = w.name
			break
		}
		r -= w.w
	}

	switch name {
	case "init":
		v := c16Values[c.rng.Intn(len(c16Values))]
		if c.rng.Intn(40) == 0 {
			v = 0
		}
		c.pf("%s", c.opInit(h, v))
		if !p.exists || p.status() == 4 {
			*p = c16Shadow{exists: true, value: v}
		}
		if c.rng.Intn(2) == 0 {
			c.pf("%s", c.opFetch(h))
		}

	case "reg":
		var id uint64
		if cs.wild {
			id = uint64(c.rng.Intn(c16Ids))
		} else {
			id = cs.nextID
			cs.nextID++
		}
		q := p
		if !p.exists {
			q = &c16Shadow{value: 10}
		}
		amt := c.pickAmt(q)
		kind, addr, total := c.pickShape(cs, q)
		if kind == "p" && c.rng.Intn(100) < 75 {
			amt = q.value
		}
		fee := uint64(c.rng.Intn(4))
		c.pf("%s", c.opReg(h, id, amt, kind, addr, total, fee))
		if p.exists && (p.status() == 1 || p.status() == 2) && !p.reason &&
			p.sent()+amt <= p.value && kind != "bm" {

			found := false
			for i := range p.atts {
				if p.atts[i].id == id {
					p.atts[i].amt = amt
					found = true
				}
			}
			if !found {
				p.atts = append(p.atts, c16ShadowAtt{id, amt, 'I'})
			}
		}

	case "settle", "failatt":
		id := c.pickResolveID(cs, h)
		if name == "settle" {
			c.pf("%s", c.opSettle(h, id))
		} else {
			c.pf("%s", c.opFailAtt(h, id))
		}
		if p.exists && (p.status() == 1 || p.status() == 2) {
			for i := range p.atts {
				if p.atts[i].id == id && p.atts[i].st == 'I' {
					if name == "settle" {
						p.atts[i].st = 'S'
					} else {
						p.atts[i].st = 'F'
					}
				}
			}
		}

	case "fail":
		c.pf("%s", c.opFail(h, c.rng.Intn(6)))
		if p.exists {
			p.reason = true
		}

	case "del":
		c.pf("%s", c.opDel(h))
		if p.exists && p.status() != 2 {
			*p = c16Shadow{}
		}
		if c.rng.Intn(2) == 0 {
			c.pf("%s", c.opFetch(h))
		}

	case "delfailed":
		c.pf("%s", c.opDelFailed(h))
		if p.exists && p.status() != 2 {
			var keep []c16ShadowAtt
			for _, a := range p.atts {
				if a.st != 'F' {
					keep = append(keep, a)
				}
			}
			p.atts = keep
		}
		if c.rng.Intn(2) == 0 {
			c.pf("%s", c.opFetch(h))
		}

	case "fetch":
		c.pf("%s", c.opFetch(h))

	case "inflight":
		c.pf("%s", c.opInflight())

	case "list":
		c.pf("%s", c.opList(c.rng.Intn(3) != 0))

	case "delall":
		c.doDelAll(cs, c.rng.Intn(100) < 60, c.rng.Intn(100) < 40)

	case "page":
		c.doPage(cs)
	}
}

// doDelAll issues DeletePayments, updates the shadow and observes every
// payment of the case afterwards.
func (c *c16) doDelAll(cs *c16Case, fo, fho bool) {
	c.pf("%s", c.opDelAll(fo, fho))
	for h := range cs.sh {
		p := &cs.sh[h]
		if !p.exists || p.status() == 2 || (fo && p.status() != 4) {
			continue
		}
		if fho {
			var keep []c16ShadowAtt
			for _, a := range p.atts {
				if a.st != 'F' {
					keep = append(keep, a)
				}
			}
			p.atts = keep
		} else {
			*p = c16Shadow{}
		}
	}
	for h := 0; h < c16Hashes; h++ {
		c.pf("%s", c.opFetch(h))
	}
	c.pf("%s", c.opInflight())
	c.pf("%s", c.opList(true))
}

// scenario drives payment h through the documented two-shard history: both
// shards registered, the first one fails, the payment is failed at payment
// level while the second shard is still in flight; then, by variant, the second
// shard settles (status succeeded WITH a failure reason), stays in flight
// (in flight WITH a failure reason) or fails (failed).
func (c *c16) scenario(cs *c16Case, h int, variant int) {
	p := &cs.sh[h]
	v := []uint64{10, 10, 1000, 7}[c.rng.Intn(4)]
	c.pf("%s", c.opInit(h, v))
	*p = c16Shadow{exists: true, value: v}
	a, b := cs.nextID, cs.nextID+1
	cs.nextID += 2
	c.pf("%s", c.opReg(h, a, v/2, "m", 1, v, 1))
	c.pf("%s", c.opReg(h, b, v-v/2, "m", 1, v, 2))
	p.atts = []c16ShadowAtt{{a, v / 2, 'I'}, {b, v - v/2, 'I'}}
	c.pf("%s", c.opFailAtt(h, a))
	p.atts[0].st = 'F'
	if variant != 3 {
		c.pf("%s", c.opFail(h, c.rng.Intn(6)))
		p.reason = true
	}
	switch variant {
	case 0, 3:
		c.pf("%s", c.opSettle(h, b))
		p.atts[1].st = 'S'
	case 2:
		c.pf("%s", c.opFailAtt(h, b))
		p.atts[1].st = 'F'
	}
}

func (c *c16) genCase(wild bool) {
	kind := "contract"
	if wild {
		kind = "wild"
	}
	bulk := c.rng.Intn(100) < 30
	if bulk && c.newDB != nil {
		// bulk DeletePayments acts on (and counts) every payment in the
		// database: such a case starts on an empty one.
		c.db, c.db2 = c.newDB()
	} else {
		bulk = false
	}
	c.startCase(kind)
	cs := &c16Case{wild: wild, bulk: bulk, mode: c.rng.Intn(4), focus: c.rng.Intn(c16Hashes)}
	if c.rng.Intn(100) < 35 {
		cs.mode = 0
	}
	if !wild && (bulk || c.rng.Intn(100) < 15) {
		cs.mode = 0
		for h := 0; h < c16Hashes; h++ {
			if c.rng.Intn(100) < 65 {
				c.scenario(cs, h, c.rng.Intn(4))
			}
		}
		if bulk && c.rng.Intn(100) < 70 {
			c.doDelAll(cs, c.rng.Intn(100) < 70, c.rng.Intn(100) < 35)
		}
	}
	n := 12 + c.rng.Intn(50)
	for i := 0; i < n; i++ {
		c.genOp(cs)
	}
	// closing observation of every payment and of the in-flight set
	for h := 0; h < c16Hashes; h++ {
		c.pf("%s", c.opFetch(h))
	}
	c.pf("%s", c.opInflight())
	c.pf("%s", c.opList(true))
	if bulk {
		for i := 0; i < 3; i++ {
			c.doPage(cs)
		}
	}
	c.endCase()
}


// genConcCase: 2-4 goroutines issue operations on the same three payments
// concurrently (monitor only: the answers depend on the schedule, so the
// driver does not replay them on the model). Hashes 0 and 1 are initiated
// before the goroutines start; every goroutine first tries to initiate hash 2
// (exactly one may win), then, after a barrier, runs its mix:
//   - registrations with its own ids (g*16+n, on hash n%3), amounts around a
//     third to all of the payment amount so that the goroutines compete for
//     the remaining amount;
//   - settles / fails of attempts it registered itself or (racing with the
//     owner) the first attempts of another goroutine;
//   - Fail (payment-level failure) of hash 0, which is never re-initiated or
//     deleted in the concurrent phase;
//   - DeleteFailedAttempts / DeletePayment / InitPayment of hash 1;
//   - InitPayment of hash 2 (must be refused), fetches.
// Every line carries the goroutine number and two stamps of a case-wide
// atomic counter taken immediately before the call and immediately after it
// returned: `A.e < B.s` means A returned before B was issued. Lines are
// written in completion order.
func (c *c16) genConcCase() {
	c.startCase("conc")
	values := [c16Hashes]uint64{}
	for h := 0; h < c16Hashes; h++ {
		values[h] = []uint64{3, 10, 10, 1000, 1 << 40}[c.rng.Intn(5)]
	}
	c.pf("%s", c.opInit(0, values[0]))
	c.pf("%s", c.opInit(1, values[1]))
	nG := 2 + c.rng.Intn(3)
	blinded := c.rng.Intn(4) == 0
	seeds := make([]int64, nG)
	for g := range seeds {
		seeds[g] = c.rng.Int63()
	}
	var stamp int64
	emit := func(g int, f func() string) string {
		st := atomic.AddInt64(&stamp, 1)
		line := f()
		en := atomic.AddInt64(&stamp, 1)
		c.pf("g=%d s=%d e=%d %s", g, st, en, line)
		return line
	}
	var wg, phaseA sync.WaitGroup
	start := make(chan struct{})
	phaseA.Add(nG)
	for g := 0; g < nG; g++ {
		wg.Add(1)
		go func(g int) {
			defer wg.Done()
			<-start
			rng := rand.New(rand.NewSource(seeds[g]))
			emit(g, func() string { return c.opInit(2, values[2]) })
			phaseA.Done()
			phaseA.Wait()
			var mine [c16Hashes][]uint64 // ids this goroutine got admitted
			next := uint64(g * 16)
			nOps := 8 + rng.Intn(10)
			for i := 0; i < nOps; i++ {
				h := rng.Intn(c16Hashes)
				v := values[h]
				switch r := rng.Intn(100); {
				case r < 50 && next < uint64(g*16+16):
					id := next
					next++
					// the n-th registration of every goroutine goes
					// to hash n%3, so that a racing goroutine can
					// address the attempt through its own payment
					h = int(id%16) % c16Hashes
					v = values[h]
					var amt uint64
					switch rng.Intn(5) {
					case 0:
						amt = v
					case 1:
						amt = v/2 + 1
					case 2:
						amt = v / 2
					case 3:
						amt = v/3 + 1
					default:
						amt = 1
					}
					kind, total := "m", v
					if blinded {
						kind = "b"
					}
					fee := uint64(rng.Intn(3))
					line := emit(g, func() string {
						return c.opReg(h, id, amt, kind, 1, total, fee)
					})
					if strings.Contains(line, "=> ok") {
						mine[h] = append(mine[h], id)
					}
				case r < 74:
					// resolve an attempt this goroutine got admitted
					// or (racing with its owner) one of another
					// goroutine's first attempts
					var id uint64
					if len(mine[h]) == 0 || rng.Intn(100) < 30 {
						id = uint64(rng.Intn(nG)*16 + rng.Intn(5))
						h = int(id%16) % c16Hashes
					} else {
						k := rng.Intn(len(mine[h]))
						id = mine[h][k]
						mine[h] = append(mine[h][:k], mine[h][k+1:]...)
					}
					if r < 67 {
						emit(g, func() string { return c.opFailAtt(h, id) })
					} else {
						emit(g, func() string { return c.opSettle(h, id) })
					}
				case r < 80:
					reason := rng.Intn(6)
					emit(g, func() string { return c.opFail(0, reason) })
				case r < 85:
					emit(g, func() string { return c.opDelFailed(1) })
				case r < 88:
					emit(g, func() string { return c.opDel(1) })
				case r < 93:
					hh := 1 + rng.Intn(2)
					emit(g, func() string { return c.opInit(hh, values[hh]) })
				case r < 98:
					emit(g, func() string { return c.opFetch(h) })
				default:
					emit(g, func() string { return c.opInflight() })
				}
			}
		}(g)
	}
	close(start)
	wg.Wait()
	for h := 0; h < c16Hashes; h++ {
		c.pf("final %s", c.opFetch(h))
	}
	c.pf("final %s", c.opInflight())
	c.endCase()
}

func TestVerifC16(t *testing.T) { c16Run(t, false) }

// c16Run: x = cross-backend stream (every call is issued on the KV store and
// on the SQL store, sequential cases only).
func c16Run(t *testing.T, x bool) {
	out := os.Getenv("VERIF_OUT")
	if out == "" {
		t.Skip("VERIF_OUT not set")
	}
	seed, _ := strconv.ParseInt(os.Getenv("VERIF_SEED"), 10, 64)
	if seed == 0 {
		seed = 1
	}
	tier := os.Getenv("VERIF_TIER")
	f, err := os.Create(out)
	if err != nil {
		t.Fatal(err)
	}
	defer f.Close()
	w := bufio.NewWriterSize(f, 1<<20)
	defer w.Flush()

	nCases := 320
	if tier == "thorough" {
		nCases = 8000
	}
	if x {
		// 200 quick / 3000 thorough (every case runs on two stores)
		nCases = nCases * 5 / 8
		if tier == "thorough" {
			nCases = 3000
		}
	}
	if v := os.Getenv("VERIF_C16_CASES"); v != "" {
		nCases, _ = strconv.Atoi(v)
	}

	// Every case draws all its choices from its own generator seeded by
	// (seed, case number) and runs on hashes / attempt ids / session keys
	// that are unique to the case, so cases can share a database and be
	// executed by parallel workers (database commits are mostly idle
	// waiting) while the trace stays a function of the seed only.
	const workers = 12
	const perDB = 40
	bufs := make([]bytes.Buffer, nCases)
	var next int64 = -1
	var wg sync.WaitGroup
	// Databases live in the scope of a subtest so that their temp dirs are
	// removed as soon as they are no longer used (one "epoch" subtest per
	// shared database of up to perDB cases, one nested subtest per case for
	// the databases of own-database cases), not only when the whole test
	// ends. t.Run may be called from several goroutines.
	fresh := func(tt *testing.T) (DB, DB) {
		d, _ := NewTestDB(tt)
		if x {
			return d, c16NewKV(tt)
		}
		return d, nil
	}
	for wk := 0; wk < workers; wk++ {
		wg.Add(1)
		go func() {
			defer wg.Done()
			more := true
			for more {
				t.Run("epoch", func(et *testing.T) {
					db, db2 := fresh(et)
					for done := 0; done < perDB; done++ {
						i := int(atomic.AddInt64(&next, 1))
						if i >= nCases {
							more = false
							return
						}
						et.Run("case", func(ct *testing.T) {
							c := &c16{
								t: ct, w: bufio.NewWriter(&bufs[i]), db: db, db2: db2,
								ctx: context.Background(), n: i + 1,
								rng: rand.New(rand.NewSource(seed*1000003 + int64(i))),
								newDB: func() (DB, DB) { return fresh(ct) },
							}
							if i%10 == 9 && !x {
								// every tenth case: concurrent tier
								c.genConcCase()
							} else {
								c.genCase(c.rng.Intn(100) < 40)
							}
							c.w.Flush()
						})
					}
				})
			}
		}()
	}
	wg.Wait()
	for i := range bufs {
		w.Write(bufs[i].Bytes())
	}
}
