//go:build verif

package paymentsdb

// C16 correspondence/monitor harness. Injected with `go test -overlay`; drives
// the real payments DB (KVStore in the default build, SQLStore with
// `-tags test_db_sqlite`) through the paymentsdb.DB interface and prints one
// line per operation for the Lean driver (drv_c16). The operation stream is a
// function of (VERIF_SEED, VERIF_TIER) only: both backends see the same ops.

import (
	"bufio"
	"context"
	"errors"
	"fmt"
	"math/rand"
	"os"
	"sort"
	"strconv"
	"strings"
	"sync"
	"testing"
	"time"

	"github.com/lightningnetwork/lnd/lntypes"
	"github.com/lightningnetwork/lnd/lnwire"
	"github.com/lightningnetwork/lnd/record"
	"github.com/lightningnetwork/lnd/routing/route"
)

const (
	c16Hashes = 3
	c16Ids    = 4
)

type c16 struct {
	t    *testing.T
	w    *bufio.Writer
	rng  *rand.Rand
	db   DB
	ctx  context.Context
	n    int    // case counter
	keyN uint64 // session key counter (unique per registration)

	// per-case
	hashes [c16Hashes]lntypes.Hash
	idBase uint64
	mu     sync.Mutex
}

func (c *c16) pf(format string, a ...interface{}) {
	fmt.Fprintf(c.w, format+"\n", a...)
}

// c16ErrName maps an error to a small enum by sentinel identity.
func c16ErrName(err error) string {
	if err == nil {
		return "ok"
	}
	tbl := []struct {
		e error
		n string
	}{
		{ErrAlreadyPaid, "AlreadyPaid"},
		{ErrPaymentInFlight, "PaymentInFlight"},
		{ErrPaymentExists, "PaymentExists"},
		{ErrPaymentInternal, "PaymentInternal"},
		{ErrPaymentNotInitiated, "NotInitiated"},
		{ErrPaymentAlreadySucceeded, "AlreadySucceeded"},
		{ErrPaymentAlreadyFailed, "AlreadyFailed"},
		{ErrUnknownPaymentStatus, "UnknownStatus"},
		{ErrPaymentTerminal, "Terminal"},
		{ErrAttemptAlreadySettled, "AttemptAlreadySettled"},
		{ErrAttemptAlreadyFailed, "AttemptAlreadyFailed"},
		{ErrValueMismatch, "ValueMismatch"},
		{ErrValueExceedsAmt, "ValueExceedsAmt"},
		{ErrNonMPPayment, "NonMPPayment"},
		{ErrMPPayment, "MPPayment"},
		{ErrMPPRecordInBlindedPayment, "MPPRecordInBlinded"},
		{ErrBlindedPaymentTotalAmountMismatch, "BlindedTotalMismatch"},
		{ErrMixedBlindedAndNonBlindedPayments, "MixedBlinded"},
		{ErrBlindedPaymentMissingTotalAmount, "BlindedMissingTotal"},
		{ErrMPPPaymentAddrMismatch, "MPPAddrMismatch"},
		{ErrMPPTotalAmountMismatch, "MPPTotalMismatch"},
		{ErrPaymentPendingSettled, "PendingSettled"},
		{ErrPaymentPendingFailed, "PendingFailed"},
		{ErrSentExceedsTotal, "SentExceedsTotal"},
		{ErrNoAttemptInfo, "NoAttemptInfo"},
	}
	for _, e := range tbl {
		if errors.Is(err, e.e) {
			return e.n
		}
	}
	return "other"
}

// localID maps a global attempt id back to the per-case id space.
func (c *c16) localID(id uint64) string {
	if id >= c.idBase && id < c.idBase+64 {
		return strconv.FormatUint(id-c.idBase, 10)
	}
	return "x" + strconv.FormatUint(id, 10)
}

// dump canonicalises an MPPayment.
func (c *c16) dump(p *MPPayment) string {
	if p == nil {
		return "nil"
	}
	var sb strings.Builder
	fmt.Fprintf(&sb, "value=%d st=%d", uint64(p.Info.Value), int(p.Status))
	if p.State != nil {
		b := func(x bool) int {
			if x {
				return 1
			}
			return 0
		}
		fmt.Fprintf(&sb, " rem=%d nif=%d fees=%d hs=%d pf=%d",
			uint64(p.State.RemainingAmt), p.State.NumAttemptsInFlight,
			uint64(p.State.FeesPaid), b(p.State.HasSettledHTLC),
			b(p.State.PaymentFailed))
	} else {
		sb.WriteString(" nostate")
	}
	if p.FailureReason != nil {
		fmt.Fprintf(&sb, " reason=%d", int(*p.FailureReason))
	} else {
		sb.WriteString(" reason=-")
	}
	hs := make([]HTLCAttempt, len(p.HTLCs))
	copy(hs, p.HTLCs)
	sort.SliceStable(hs, func(i, j int) bool {
		return hs[i].AttemptID < hs[j].AttemptID
	})
	sb.WriteString(" htlcs=")
	if len(hs) == 0 {
		sb.WriteString("-")
	}
	for i, h := range hs {
		if i > 0 {
			sb.WriteString(",")
		}
		st := "I"
		switch {
		case h.Settle != nil && h.Failure != nil:
			st = "B"
		case h.Settle != nil:
			st = "S"
		case h.Failure != nil:
			st = "F"
		}
		kind := "p"
		var addr, total uint64
		fh := h.Route.FinalHop()
		if fh != nil {
			switch {
			case len(fh.EncryptedData) != 0 && fh.MPP != nil:
				kind = "bm"
				total = uint64(fh.TotalAmtMsat)
			case len(fh.EncryptedData) != 0:
				kind = "b"
				total = uint64(fh.TotalAmtMsat)
			case fh.MPP != nil:
				kind = "m"
				a := fh.MPP.PaymentAddr()
				addr = uint64(a[0])
				total = uint64(fh.MPP.TotalMsat())
			}
		}
		fmt.Fprintf(&sb, "%s:%d:%s:%s:%d:%d", c.localID(h.AttemptID),
			uint64(h.Route.ReceiverAmt()), st, kind, addr, total)
	}
	return sb.String()
}

func (c *c16) guard(res *string) {
	if r := recover(); r != nil {
		*res = "panic"
	}
}

func (c *c16) opInit(h int, value uint64) string {
	res := ""
	func() {
		defer c.guard(&res)
		info := &PaymentCreationInfo{
			PaymentIdentifier: c.hashes[h],
			Value:             lnwire.MilliSatoshi(value),
			CreationTime:      time.Unix(1700000000, 0),
			PaymentRequest:    []byte("req"),
		}
		res = c16ErrName(c.db.InitPayment(c.ctx, c.hashes[h], info))
	}()
	return fmt.Sprintf("init h=%d value=%d => %s", h, value, res)
}

// mkAttempt builds an attempt with a single (final) hop.
// kind: p (no MPP record), m (MPP record addr/total), b (blinded, total),
// bm (blinded with an MPP record).
func (c *c16) mkAttempt(h int, id uint64, amt uint64, kind string, addr byte,
	total uint64, fee uint64) *HTLCAttemptInfo {

	c.mu.Lock()
	c.keyN++
	k := c.keyN
	c.mu.Unlock()

	hop := &route.Hop{
		PubKeyBytes:      vertex,
		ChannelID:        1,
		OutgoingTimeLock: 100,
		AmtToForward:     lnwire.MilliSatoshi(amt),
	}
	switch kind {
	case "m":
		hop.MPP = record.NewMPP(lnwire.MilliSatoshi(total), [32]byte{addr})
	case "b":
		hop.EncryptedData = []byte{1, 2, 3}
		hop.TotalAmtMsat = lnwire.MilliSatoshi(total)
	case "bm":
		hop.EncryptedData = []byte{1, 2, 3}
		hop.TotalAmtMsat = lnwire.MilliSatoshi(total)
		hop.MPP = record.NewMPP(lnwire.MilliSatoshi(total), [32]byte{addr})
	}
	var sk [32]byte
	sk[0] = 1
	for i := 0; i < 8; i++ {
		sk[31-i] = byte(k >> (8 * i))
	}
	hash := c.hashes[h]
	return &HTLCAttemptInfo{
		AttemptID:   c.idBase + id,
		sessionKey:  sk,
		AttemptTime: time.Unix(1700000001, 0),
		Hash:        &hash,
		Route: route.Route{
			SourcePubKey:  vertex,
			TotalAmount:   lnwire.MilliSatoshi(amt + fee),
			TotalTimeLock: 120,
			Hops:          []*route.Hop{hop},
		},
	}
}

func (c *c16) opReg(h int, id uint64, amt uint64, kind string, addr byte,
	total uint64, fee uint64) string {

	res := ""
	func() {
		defer c.guard(&res)
		a := c.mkAttempt(h, id, amt, kind, addr, total, fee)
		p, err := c.db.RegisterAttempt(c.ctx, c.hashes[h], a)
		res = c16ErrName(err)
		if err == nil {
			res += " " + c.dump(p)
		}
	}()
	return fmt.Sprintf("reg h=%d id=%d amt=%d kind=%s addr=%d total=%d fee=%d => %s",
		h, id, amt, kind, addr, total, fee, res)
}

func (c *c16) opSettle(h int, id uint64) string {
	res := ""
	func() {
		defer c.guard(&res)
		p, err := c.db.SettleAttempt(c.ctx, c.hashes[h], c.idBase+id,
			&HTLCSettleInfo{
				Preimage:   lntypes.Preimage{byte(h + 1)},
				SettleTime: time.Unix(1700000002, 0),
			})
		res = c16ErrName(err)
		if err == nil {
			res += " " + c.dump(p)
		}
	}()
	return fmt.Sprintf("settle h=%d id=%d => %s", h, id, res)
}

func (c *c16) opFailAtt(h int, id uint64) string {
	res := ""
	func() {
		defer c.guard(&res)
		p, err := c.db.FailAttempt(c.ctx, c.hashes[h], c.idBase+id,
			&HTLCFailInfo{
				Reason:   HTLCFailUnreadable,
				FailTime: time.Unix(1700000003, 0),
			})
		res = c16ErrName(err)
		if err == nil {
			res += " " + c.dump(p)
		}
	}()
	return fmt.Sprintf("failatt h=%d id=%d => %s", h, id, res)
}

func (c *c16) opFail(h int, reason int) string {
	res := ""
	func() {
		defer c.guard(&res)
		p, err := c.db.Fail(c.ctx, c.hashes[h], FailureReason(reason))
		res = c16ErrName(err)
		if err == nil {
			res += " " + c.dump(p)
		}
	}()
	return fmt.Sprintf("fail h=%d reason=%d => %s", h, reason, res)
}

func (c *c16) opDel(h int) string {
	res := ""
	func() {
		defer c.guard(&res)
		res = c16ErrName(c.db.DeletePayment(c.ctx, c.hashes[h], false))
	}()
	return fmt.Sprintf("del h=%d => %s", h, res)
}

func (c *c16) opDelFailed(h int) string {
	res := ""
	func() {
		defer c.guard(&res)
		res = c16ErrName(c.db.DeleteFailedAttempts(c.ctx, c.hashes[h]))
	}()
	return fmt.Sprintf("delfailed h=%d => %s", h, res)
}

func (c *c16) opFetch(h int) string {
	res := ""
	func() {
		defer c.guard(&res)
		p, err := c.db.FetchPayment(c.ctx, c.hashes[h])
		res = c16ErrName(err)
		if err == nil {
			res += " " + c.dump(p)
		}
	}()
	return fmt.Sprintf("fetch h=%d => %s", h, res)
}

func (c *c16) opInflight() string {
	res := ""
	func() {
		defer c.guard(&res)
		ps, err := c.db.FetchInFlightPayments(c.ctx)
		if err != nil {
			res = c16ErrName(err)
			return
		}
		var hs []string
		for _, p := range ps {
			for i := range c.hashes {
				if p.Info.PaymentIdentifier == c.hashes[i] {
					hs = append(hs, strconv.Itoa(i))
				}
			}
		}
		sort.Strings(hs)
		res = "ok set=" + strings.Join(hs, ",")
		if len(hs) == 0 {
			res = "ok set=-"
		}
	}()
	return "inflight => " + res
}

func (c *c16) startCase(kind string) {
	c.n++
	c.idBase = uint64(c.n) * 64
	for i := range c.hashes {
		var h lntypes.Hash
		h[0] = byte(i + 1)
		h[1] = byte(c.n)
		h[2] = byte(c.n >> 8)
		h[3] = byte(c.n >> 16)
		h[4] = byte(c.n >> 24)
		c.hashes[i] = h
	}
	c.pf("CASE %d kind=%s", c.n, kind)
}

func (c *c16) endCase() { c.pf("END") }

func TestVerifC16Probe(t *testing.T) {
	db, _ := NewTestDB(t)
	c := &c16{t: t, w: bufio.NewWriter(os.Stdout), db: db, ctx: context.Background()}
	defer c.w.Flush()
	c.startCase("probe")
	p := func(s string) { c.pf("%s", s) }
	p(c.opFetch(0))
	p(c.opDel(0))
	p(c.opDelFailed(0))
	p(c.opFail(0, 1))
	p(c.opReg(0, 0, 5, "m", 1, 10, 0))
	p(c.opSettle(0, 0))
	p(c.opFailAtt(0, 0))
	p(c.opInit(0, 10))
	p(c.opInit(0, 10))
	p(c.opSettle(0, 0))
	p(c.opFailAtt(0, 0))
	p(c.opReg(0, 0, 5, "m", 1, 10, 1))
	p(c.opReg(0, 0, 3, "m", 1, 10, 1))
	p(c.opReg(0, 1, 6, "m", 1, 10, 1))
	p(c.opReg(0, 1, 5, "p", 1, 10, 1))
	p(c.opReg(0, 1, 5, "m", 2, 10, 1))
	p(c.opReg(0, 1, 5, "m", 1, 11, 1))
	p(c.opReg(0, 1, 5, "b", 1, 10, 1))
	p(c.opReg(0, 1, 5, "m", 1, 10, 1))
	p(c.opInflight())
	p(c.opInit(1, 10))
	p(c.opReg(1, 1, 5, "m", 1, 10, 1))
	p(c.opReg(1, 2, 5, "m", 1, 10, 1))
	p(c.opSettle(1, 0))
	p(c.opFetch(0))
	p(c.opFetch(1))
	p(c.opFailAtt(0, 1))
	p(c.opFailAtt(0, 1))
	p(c.opSettle(0, 1))
	p(c.opReg(0, 1, 2, "m", 1, 10, 1))
	p(c.opFetch(0))
	p(c.opSettle(0, 0))
	p(c.opSettle(0, 0))
	p(c.opFailAtt(0, 0))
	p(c.opSettle(0, 3))
	p(c.opFail(0, 2))
	p(c.opInit(0, 10))
	p(c.opDelFailed(0))
	p(c.opFetch(0))
	p(c.opDel(0))
	p(c.opFetch(0))
	p(c.opInflight())
	p(c.opDel(1))
	p(c.opDelFailed(1))
	p(c.opFail(1, 3))
	p(c.opReg(1, 3, 1, "m", 1, 10, 1))
	p(c.opFailAtt(1, 2))
	p(c.opDel(1))
	p(c.opInit(1, 7))
	p(c.opFetch(1))
	p(c.opInit(2, 0))
	p(c.opReg(2, 0, 0, "p", 0, 0, 0))
	p(c.opReg(2, 1, 0, "p", 0, 0, 0))
	p(c.opInit(2, 0))
	p(c.opSettle(2, 0))
	p(c.opFetch(2))
	c.endCase()
}
