//go:build verif && test_db_sqlite

package paymentsdb

// C16 cross-backend stream: in the sqlite build both real stores exist in one
// test binary (SQLStore from the package's NewTestDB, KVStore on a bbolt test
// backend), so the SAME operation list is issued on both in one case and the
// driver diffs the two answers line by line (monitor clause `backends-agree`).

import (
	"testing"

	"github.com/lightningnetwork/lnd/kvdb"
)

func init() {
	c16NewKV = func(t *testing.T) DB {
		backend, cleanup, err := kvdb.GetTestBackend(t.TempDir(), "c16kv")
		if err != nil {
			t.Fatal(err)
		}
		t.Cleanup(cleanup)
		db, err := NewKVStore(backend)
		if err != nil {
			t.Fatal(err)
		}
		return db
	}
}

func TestVerifC16X(t *testing.T) { c16Run(t, true) }
