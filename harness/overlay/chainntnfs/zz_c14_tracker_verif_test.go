//go:build verif

package chainntnfs

// C14 harness, stream `tracker`: BestBlockTracker (best_block_view.go), the
// view of the active chain tip that consumers read through BestBlockView.
//
// The real tracker is driven through its exported API (NewBestBlockTracker,
// Start, BestHeight, BestBlockHeader, Stop) with a mock ChainNotifier whose
// RegisterBlockEpochNtfn hands out a channel fed by this harness.  Epochs are
// generated from a chain history (connect, disconnect to any depth, reconnect
// on a competing branch: same-height tip replacement, new tip lower than a
// stale earlier one, longer branch, the tip re-sent) and delivered
//
//   - as a backlog that is already queued when the tracker is started,
//   - as bursts on a buffered channel (the tracker finds several queued),
//   - one by one on a rendezvous channel (every send waits for the tracker),
//
// After every burst the harness waits until the stream is drained and the
// view has settled and prints what BestHeight / BestBlockHeader answer.  The
// Lean driver (drv_c14 tracker) replays the epochs on the model and checks the
// monitor clause "the view is the last epoch delivered = the active tip".

import (
	"bufio"
	"fmt"
	"math/rand"
	"os"
	"runtime"
	"sort"
	"strconv"
	"testing"
	"time"

	"github.com/btcsuite/btcd/chainhash/v2"
	"github.com/btcsuite/btcd/wire/v2"
)

type c14tNotifier struct {
	ch        chan *BlockEpoch
	cancelled int
	registers int
}

func (n *c14tNotifier) RegisterConfirmationsNtfn(*chainhash.Hash, []byte,
	uint32, uint32, ...NotifierOption) (*ConfirmationEvent, error) {

	return nil, fmt.Errorf("not used")
}

func (n *c14tNotifier) RegisterSpendNtfn(*wire.OutPoint, []byte,
	uint32) (*SpendEvent, error) {

	return nil, fmt.Errorf("not used")
}

func (n *c14tNotifier) RegisterBlockEpochNtfn(*BlockEpoch) (*BlockEpochEvent,
	error) {

	n.registers++
	return &BlockEpochEvent{
		Epochs: n.ch,
		Cancel: func() { n.cancelled++ },
	}, nil
}

func (n *c14tNotifier) Start() error  { return nil }
func (n *c14tNotifier) Started() bool { return true }
func (n *c14tNotifier) Stop() error   { return nil }

type c14tBlock struct {
	id     int
	height int32
	hdr    *wire.BlockHeader
	hash   chainhash.Hash
	epoch  *BlockEpoch
}

type c14t struct {
	w     *bufio.Writer
	rng   *rand.Rand
	stats map[string]int

	nextID   int
	chain    []*c14tBlock // active chain, chain[0] is the base block
	byHdr    map[*wire.BlockHeader]*c14tBlock
	lastSent *BlockEpoch

	timeouts int
}

func (c *c14t) pf(format string, a ...interface{}) {
	fmt.Fprintf(c.w, format+"\n", a...)
}

func (c *c14t) mkBlock(prev *c14tBlock, height int32) *c14tBlock {
	c.nextID++
	hdr := &wire.BlockHeader{
		Version:   2,
		Timestamp: time.Unix(1700000000+int64(c.nextID), 0),
		Bits:      0x207fffff,
		Nonce:     uint32(c.nextID),
	}
	c.rng.Read(hdr.MerkleRoot[:])
	if prev != nil {
		hdr.PrevBlock = prev.hash
	}
	b := &c14tBlock{id: c.nextID, height: height, hdr: hdr}
	b.hash = hdr.BlockHash()
	hash := b.hash
	b.epoch = &BlockEpoch{Hash: &hash, Height: height, BlockHeader: hdr}
	c.byHdr[hdr] = b
	return b
}

func (c *c14t) tip() *c14tBlock { return c.chain[len(c.chain)-1] }

// chain events: every connect yields the epoch the notifier emits for it.
func (c *c14t) connect() *BlockEpoch {
	t := c.tip()
	b := c.mkBlock(t, t.height+1)
	c.chain = append(c.chain, b)
	c.pf("conn h=%d b=%d prev=%d", b.height, b.id, t.id)
	c.stats["connects"]++
	return b.epoch
}

func (c *c14t) disconnect() {
	t := c.tip()
	c.chain = c.chain[:len(c.chain)-1]
	c.pf("disc h=%d b=%d", t.height, t.id)
	c.stats["disconnects"]++
}

// one chain event group of at most max (>= 1) emitted epochs; returns the
// epochs the notifier emits for it, in order.
func (c *c14t) chainEvents(max int) []*BlockEpoch {
	var out []*BlockEpoch
	switch r := c.rng.Intn(100); {
	case r < 40:
		n := 1 + c.rng.Intn(3)
		if n > max {
			n = max
		}
		for i := 0; i < n; i++ {
			out = append(out, c.connect())
		}
	case r < 90 && len(c.chain) > 1:
		// reorg: k blocks off, m blocks of the competing branch on.
		k := 1 + c.rng.Intn(4)
		if k > len(c.chain)-1 {
			k = len(c.chain) - 1
		}
		var m int
		switch c.rng.Intn(4) {
		case 0:
			m = k // same height as the replaced tip
		case 1:
			m = 1 + c.rng.Intn(k) // not higher than the stale tip
		case 2:
			m = k + 1
		default:
			m = 1 + c.rng.Intn(k+2)
		}
		if m > max {
			m = max
		}
		for i := 0; i < k; i++ {
			c.disconnect()
		}
		for i := 0; i < m; i++ {
			out = append(out, c.connect())
		}
		switch {
		case m == k:
			c.stats["reorg_same_height"]++
		case m < k:
			c.stats["reorg_new_tip_lower"]++
		default:
			c.stats["reorg_new_tip_higher"]++
		}
	default:
		// the notifier sends its current tip again.
		c.stats["resends"]++
		out = append(out, c.tip().epoch)
	}
	return out
}

func (c *c14t) viewStr(tr *BestBlockTracker) string {
	h, errH := tr.BestHeight()
	hdr, errB := tr.BestBlockHeader()
	switch {
	case errH != nil && errB != nil:
		return "none"
	case errH != nil || errB != nil:
		return fmt.Sprintf("torn errH=%v errB=%v", errH != nil, errB != nil)
	}
	b, ok := c.byHdr[hdr]
	if !ok {
		return fmt.Sprintf("h=%d b=unknown hh=0", h)
	}
	return fmt.Sprintf("h=%d b=%d hh=%d", h, b.id, b.height)
}

// sync waits until the epoch stream is drained and the view shows the last
// epoch delivered (what a correct tracker reaches after finitely many steps),
// or until the timeout; then reports the settled view.
func (c *c14t) sync(n *c14tNotifier, tr *BestBlockTracker, stopped bool) {
	deadline := time.Now().Add(10 * time.Second)
	timedOut := false
	for i := 0; ; i++ {
		if len(n.ch) == 0 {
			hdr, err := tr.BestBlockHeader()
			if stopped || c.lastSent == nil {
				if err != nil {
					break
				}
			} else if err == nil && hdr == c.lastSent.BlockHeader {
				break
			}
		}
		if time.Now().After(deadline) {
			timedOut = true
			c.timeouts++
			break
		}
		if i < 200 {
			runtime.Gosched()
		} else {
			time.Sleep(50 * time.Microsecond)
		}
	}
	if timedOut {
		// let an implementation that lags behind settle on whatever
		// it is going to report.
		time.Sleep(20 * time.Millisecond)
		c.pf("sync => %s timeout=1", c.viewStr(tr))
	} else {
		c.pf("sync => %s", c.viewStr(tr))
	}
	c.stats["syncs"]++
}

func (c *c14t) send(n *c14tNotifier, e *BlockEpoch) {
	n.ch <- e
	c.lastSent = e
	c.pf("send h=%d b=%d", e.Height, c.byHdr[e.BlockHeader].id)
	c.stats["epochs"]++
}

func (c *c14t) oneCase(id int) {
	caps := []int{0, 0, 1, 2, 3, 8, 20, 20, 64}
	capN := caps[c.rng.Intn(len(caps))]
	c.pf("CASE t%06d tracker cap=%d", id, capN)
	c.nextID = 0
	c.byHdr = map[*wire.BlockHeader]*c14tBlock{}
	base := c.mkBlock(nil, int32(1+c.rng.Intn(2000)))
	c.chain = []*c14tBlock{base}
	c.pf("base h=%d b=%d", base.height, base.id)

	sessions := 1 + c.rng.Intn(3)
	for s := 0; s < sessions && c.timeouts < 2; s++ {
		n := &c14tNotifier{ch: make(chan *BlockEpoch, capN)}
		c.lastSent = nil
		tr := NewBestBlockTracker(n)
		c.pf("new")

		// backlog that is queued before the tracker starts.
		if capN > 0 && c.rng.Intn(3) > 0 {
			var evs []*BlockEpoch
			for len(evs) < capN && c.rng.Intn(6) > 0 {
				evs = append(evs,
					c.chainEvents(capN-len(evs))...)
			}
			for _, e := range evs {
				c.send(n, e)
			}
			if len(evs) > 1 {
				c.stats["backlogs_before_start"]++
			}
		} else if c.rng.Intn(4) == 0 {
			c.sync(n, tr, false)
		}
		err := tr.Start()
		c.pf("start => %s", c14tErr(err))
		if c.rng.Intn(10) == 0 {
			c.pf("start => %s", c14tErr(tr.Start()))
		}
		c.sync(n, tr, false)

		segs := 1 + c.rng.Intn(6)
		for g := 0; g < segs && c.timeouts < 2; g++ {
			groups := 1 + c.rng.Intn(3)
			var evs []*BlockEpoch
			for i := 0; i < groups; i++ {
				evs = append(evs, c.chainEvents(8)...)
			}
			if len(evs) > 1 {
				c.stats["bursts"]++
			}
			for _, e := range evs {
				c.send(n, e)
			}
			c.sync(n, tr, false)
		}

		err = tr.Stop()
		c.pf("stop => %s cancel=%d", c14tErr(err), n.cancelled)
		c.sync(n, tr, true)
		if c.rng.Intn(10) == 0 {
			c.pf("stop => %s cancel=%d", c14tErr(tr.Stop()), n.cancelled)
		}
	}
	c.pf("END")
}

func c14tErr(err error) string {
	if err != nil {
		return "err"
	}
	return "ok"
}

func TestVerifC14Tracker(t *testing.T) {
	out := os.Getenv("VERIF_OUT")
	if out == "" {
		t.Skip("VERIF_OUT not set")
	}
	seed, _ := strconv.ParseInt(os.Getenv("VERIF_SEED"), 10, 64)
	tier := os.Getenv("VERIF_TIER")
	f, err := os.Create(out)
	if err != nil {
		t.Fatal(err)
	}
	defer f.Close()
	w := bufio.NewWriterSize(f, 1<<20)
	defer w.Flush()

	c := &c14t{
		w:     w,
		rng:   rand.New(rand.NewSource(seed*104729 + 1414)),
		stats: map[string]int{},
	}
	nCases := 400
	if tier == "thorough" {
		nCases = 20000
	}
	for i := 0; i < nCases && c.timeouts < 2; i++ {
		c.oneCase(i)
	}
	c.stats["sync_timeouts"] = c.timeouts
	keys := make([]string, 0, len(c.stats))
	for k := range c.stats {
		keys = append(keys, k)
	}
	sort.Strings(keys)
	for _, k := range keys {
		c.pf("HSTAT %s=%d", k, c.stats[k])
	}
}
