//go:build verif

package chainntnfs

// C14 correspondence/monitor harness. Injected with `go test -overlay`; drives
// the real TxNotifier (NewTxNotifier + in-memory hint caches) through random
// chain histories (connect / disconnect / reorg with the watched transaction
// absent, moved or replaced by a conflicting spend), registrations with any
// height hint, cancellations and historical-rescan completions injected at
// arbitrary later points.  After every operation all event channels are
// emptied without blocking and printed together with the notifier's internal
// state and both hint caches.  The Lean driver (drv_c14) replays the same
// operations on the model and evaluates the property monitor.

import (
	"bufio"
	"fmt"
	"math/rand"
	"os"
	"sort"
	"strconv"
	"strings"
	"sync"
	"testing"
	"time"

	"github.com/btcsuite/btcd/btcjson"
	"github.com/btcsuite/btcd/btcutil/v2"
	"github.com/btcsuite/btcd/chainhash/v2"
	"github.com/btcsuite/btcd/wire/v2"
)

// ---------------------------------------------------------------- hint cache

type c14Hints struct {
	mu      sync.Mutex
	conf    map[ConfRequest]uint32
	spend   map[SpendRequest]uint32
	commits int
}

func newC14Hints() *c14Hints {
	return &c14Hints{conf: map[ConfRequest]uint32{}, spend: map[SpendRequest]uint32{}}
}

func (c *c14Hints) CommitSpendHint(h uint32, rs ...SpendRequest) error {
	c.mu.Lock()
	defer c.mu.Unlock()
	for _, r := range rs {
		c.spend[r] = h
		c.commits++
	}
	return nil
}

func (c *c14Hints) QuerySpendHint(r SpendRequest) (uint32, error) {
	c.mu.Lock()
	defer c.mu.Unlock()
	h, ok := c.spend[r]
	if !ok {
		return 0, ErrSpendHintNotFound
	}
	return h, nil
}

func (c *c14Hints) PurgeSpendHint(rs ...SpendRequest) error {
	c.mu.Lock()
	defer c.mu.Unlock()
	for _, r := range rs {
		delete(c.spend, r)
	}
	return nil
}

func (c *c14Hints) CommitConfirmHint(h uint32, rs ...ConfRequest) error {
	c.mu.Lock()
	defer c.mu.Unlock()
	for _, r := range rs {
		c.conf[r] = h
		c.commits++
	}
	return nil
}

func (c *c14Hints) QueryConfirmHint(r ConfRequest) (uint32, error) {
	c.mu.Lock()
	defer c.mu.Unlock()
	h, ok := c.conf[r]
	if !ok {
		return 0, ErrConfirmHintNotFound
	}
	return h, nil
}

func (c *c14Hints) PurgeConfirmHint(rs ...ConfRequest) error {
	c.mu.Lock()
	defer c.mu.Unlock()
	for _, r := range rs {
		delete(c.conf, r)
	}
	return nil
}

// ---------------------------------------------------------------- universe

var (
	c14RawScript = []byte{
		0xa9, 0x14,
		0x90, 0x1c, 0x86, 0x94, 0xc0, 0x3f, 0xaf, 0xd5,
		0x52, 0x28, 0x10, 0xe0, 0x33, 0x0f, 0x26, 0xe6,
		0x7a, 0x85, 0x33, 0xcd,
		0x87,
	}
	c14SigScript = []byte{
		0x16,
		0x00, 0x14, 0x1d, 0x7c, 0xd6, 0xc7, 0x5c, 0x2e,
		0x86, 0xf4, 0xcb, 0xf9, 0x8e, 0xae, 0xd2, 0x21,
		0xb3, 0x0b, 0xd9, 0xa0, 0xb9, 0x28,
	}
	c14Witness = [][]byte{{0x01}}

	// spends of transaction i (outpoint numbers, input order).
	c14TxSpends = [][]int{
		{},     // 0  watched
		{0},    // 1  watched, spends O0
		{1},    // 2  watched, spends O1
		{0},    // 3  conflicts with 1
		{1, 2}, // 4  conflicts with 2, spends O2 as input 1
		{2},    // 5
		{2, 0}, // 6  spends O2 as input 0, O0 as input 1
		{},     // 7  filler
		{1},    // 8  conflicts with 2 and 4
	}
	c14NumConfKeys  = 4
	c14NumSpendKeys = 3
)

func c14OutPoint(o int) wire.OutPoint {
	return wire.OutPoint{Hash: chainhash.Hash{0xc1, 0x4c}, Index: uint32(o)}
}

func c14Script(id int) []byte {
	s := make([]byte, 34)
	s[0], s[1] = 0x00, 0x20
	for i := 2; i < 34; i++ {
		s[i] = byte(0x40 + id)
	}
	return s
}

func c14BuildTx(id int) *wire.MsgTx {
	tx := wire.NewMsgTx(2)
	tx.LockTime = uint32(7000 + id)
	for _, o := range c14TxSpends[id] {
		tx.AddTxIn(&wire.TxIn{
			PreviousOutPoint: c14OutPoint(o),
			SignatureScript:  c14SigScript,
			Witness:          c14Witness,
		})
	}
	if len(c14TxSpends[id]) == 0 {
		tx.AddTxIn(&wire.TxIn{
			PreviousOutPoint: c14OutPoint(1000 + id),
			SignatureScript:  c14SigScript,
			Witness:          c14Witness,
		})
	}
	tx.AddTxOut(&wire.TxOut{Value: int64(1000 + id), PkScript: c14Script(id)})
	return tx
}

type c14Block struct {
	id     int
	height uint32
	txs    []int
	blk    *btcutil.Block
}

type c14Reg struct {
	conf   bool
	key    int
	confID uint64
	cev    *ConfirmationEvent
	sev    *SpendEvent
	closed bool
}

type c14 struct {
	w      *bufio.Writer
	rng    *rand.Rand
	caseNo int
	stats  map[string]int

	txs      []*wire.MsgTx
	txHash   []chainhash.Hash
	txByHash map[chainhash.Hash]int

	// per case
	n         *TxNotifier
	hc        *c14Hints
	limit     uint32
	cur       uint32
	maxTip    uint32
	lazy      bool
	chain     map[uint32]*c14Block
	blkByID   map[chainhash.Hash]int
	blkByHash map[chainhash.Hash]*c14Block
	backend   map[uint32]*c14Block // the backend's main chain during a fork switch
	nextBlk   int
	regs      []*c14Reg
	confReq   map[int]ConfRequest
	spendReq  map[int]SpendRequest
	confIDs   map[uint64]int // ConfID -> reg handle
	spendIDs  map[uint64]int
	pendC     map[int]uint32 // key -> start height of the outstanding historical dispatch
	pendS     map[int]uint32
	lastC     map[int]uint32
	lastS     map[int]uint32
	endC      map[int]uint32 // key -> end height (height at registration) of the last dispatch
	endS      map[int]uint32
	oldRange  bool // next rescan completion answers for the dispatched range only
	lastSt    map[string]string
	needNtfy  uint32
	dead      bool
}

func (c *c14) pf(format string, a ...interface{}) { fmt.Fprintf(c.w, format+"\n", a...) }

func (c *c14) txStr(id int) string {
	sp := c14TxSpends[id]
	if len(sp) == 0 {
		return fmt.Sprintf("%d:-", id)
	}
	ss := make([]string, len(sp))
	for i, o := range sp {
		ss[i] = strconv.Itoa(o)
	}
	return fmt.Sprintf("%d:%s", id, strings.Join(ss, "."))
}

func (c *c14) blockStr(b *c14Block) string {
	ss := make([]string, 0, len(b.txs)+1)
	ss = append(ss, fmt.Sprintf("b%d", b.id))
	for _, t := range b.txs {
		ss = append(ss, c.txStr(t))
	}
	return strings.Join(ss, " ")
}

func (c *c14) mkBlock(height uint32, txs []int) *c14Block {
	c.nextBlk++
	mb := &wire.MsgBlock{Header: wire.BlockHeader{Nonce: uint32(c.nextBlk), Bits: uint32(c.caseNo)}}
	if height > 0 {
		if prev := c.chain[height-1]; prev != nil {
			mb.Header.PrevBlock = *prev.blk.Hash()
		}
	}
	for _, t := range txs {
		mb.Transactions = append(mb.Transactions, c.txs[t])
	}
	b := &c14Block{id: c.nextBlk, height: height, txs: txs, blk: btcutil.NewBlock(mb)}
	c.blkByID[*b.blk.Hash()] = b.id
	c.blkByHash[*b.blk.Hash()] = b
	return b
}

// c14Conn is the chain backend the package's reorg helpers (HandleMissedBlocks
// / RewindChain / GetCommonBlockAncestorHeight) talk to: it knows every block
// ever created (also reorged-out ones) and the backend's current main chain.
type c14Conn struct{ c *c14 }

func (cc c14Conn) GetBlockHeader(h *chainhash.Hash) (*wire.BlockHeader, error) {
	b, ok := cc.c.blkByHash[*h]
	if !ok {
		return nil, fmt.Errorf("unknown block %v", h)
	}
	hdr := b.blk.MsgBlock().Header
	return &hdr, nil
}

func (cc c14Conn) GetBlockHeaderVerbose(h *chainhash.Hash) (
	*btcjson.GetBlockHeaderVerboseResult, error) {

	b, ok := cc.c.blkByHash[*h]
	if !ok {
		return nil, fmt.Errorf("unknown block %v", h)
	}
	return &btcjson.GetBlockHeaderVerboseResult{Height: int32(b.height)}, nil
}

func (cc c14Conn) GetBlockHash(height int64) (*chainhash.Hash, error) {
	b, ok := cc.c.backend[uint32(height)]
	if !ok {
		return nil, fmt.Errorf("no block at height %d", height)
	}
	return b.blk.Hash(), nil
}

// position of tx id on the active chain.
func (c *c14) txOnChain(id int) (*c14Block, int, bool) {
	for h := uint32(1); h <= c.cur; h++ {
		if b := c.chain[h]; b != nil {
			for i, t := range b.txs {
				if t == id {
					return b, i, true
				}
			}
		}
	}
	return nil, 0, false
}

// spender of outpoint o on the active chain.
func (c *c14) opOnChain(o int) (*c14Block, int, int, bool) {
	for h := uint32(1); h <= c.cur; h++ {
		if b := c.chain[h]; b != nil {
			for _, t := range b.txs {
				for i, so := range c14TxSpends[t] {
					if so == o {
						return b, t, i, true
					}
				}
			}
		}
	}
	return nil, 0, 0, false
}

// a random block content that keeps the active chain valid (no tx twice, no
// outpoint spent twice).
func (c *c14) genTxs(p float64) []int {
	var out []int
	used := map[int]bool{}
	order := c.rng.Perm(len(c14TxSpends))
	for _, t := range order {
		if c.rng.Float64() >= p {
			continue
		}
		if _, _, ok := c.txOnChain(t); ok {
			continue
		}
		bad := false
		for _, o := range c14TxSpends[t] {
			if _, _, _, ok := c.opOnChain(o); ok || used[o] {
				bad = true
			}
		}
		if bad {
			continue
		}
		for _, o := range c14TxSpends[t] {
			used[o] = true
		}
		out = append(out, t)
	}
	return out
}

// ---------------------------------------------------------------- running ops

// run executes f against the notifier; a call that does not return within the
// timeout is reported as "blocked", a panic as "panic".
func (c *c14) run(f func() string) string {
	ch := make(chan string, 1)
	go func() {
		defer func() {
			if r := recover(); r != nil {
				ch <- "panic"
			}
		}()
		ch <- f()
	}()
	select {
	case r := <-ch:
		return r
	case <-time.After(400 * time.Millisecond):
		return "blocked"
	}
}

func (c *c14) after(res string) {
	c.stats["res_"+strings.Fields(res)[0]]++
	if res == "blocked" || res == "panic" {
		c.dead = true
		return
	}
	if !c.lazy {
		c.drain()
	}
	c.dump()
}

func (c *c14) drain() {
	for i, r := range c.regs {
		if r.closed {
			continue
		}
		var parts []string
		if r.conf {
			var us, cs, ns []string
			d := 0
		loopC:
			for {
				select {
				case u, ok := <-r.cev.Updates:
					if !ok {
						break loopC
					}
					us = append(us, fmt.Sprintf("%d@%d", u.NumConfsLeft, u.BlockHeight))
				default:
					break loopC
				}
			}
			select {
			case d0, ok := <-r.cev.Confirmed:
				if ok && d0 != nil {
					s := fmt.Sprintf("%d/%d/%d", d0.BlockHeight, c.blkID(d0.BlockHash), d0.TxIndex)
					if d0.Tx == nil || d0.Tx.TxHash() != c.txHash[r.key] {
						s += "!"
					}
					cs = append(cs, s)
				}
			default:
			}
			select {
			case v, ok := <-r.cev.NegativeConf:
				if ok {
					ns = append(ns, strconv.Itoa(int(v)))
				}
			default:
			}
			select {
			case <-r.cev.Done:
				d++
			default:
			}
			if len(us) > 0 {
				parts = append(parts, "U="+strings.Join(us, ","))
			}
			if len(cs) > 0 {
				parts = append(parts, "C="+strings.Join(cs, ","))
			}
			if len(ns) > 0 {
				parts = append(parts, "N="+strings.Join(ns, ","))
			}
			if d > 0 {
				parts = append(parts, "D="+strconv.Itoa(d))
			}
		} else {
			select {
			case d0, ok := <-r.sev.Spend:
				if ok && d0 != nil {
					sp := -1
					if d0.SpenderTxHash != nil {
						if t, ok := c.txByHash[*d0.SpenderTxHash]; ok {
							sp = t
						}
					}
					s := fmt.Sprintf("S=%d/%d/%d", d0.SpendingHeight, sp, d0.SpenderInputIndex)
					if d0.SpentOutPoint == nil || *d0.SpentOutPoint != c14OutPoint(r.key) {
						s += "!"
					}
					parts = append(parts, s)
				}
			default:
			}
			select {
			case _, ok := <-r.sev.Reorg:
				if ok {
					parts = append(parts, "R=1")
				}
			default:
			}
			select {
			case _, ok := <-r.sev.Done:
				if ok {
					parts = append(parts, "D=1")
				}
			default:
			}
		}
		if len(parts) > 0 {
			c.pf("ev r%d %s", i, strings.Join(parts, " "))
			c.stats["ev_lines"]++
			for _, p := range parts {
				c.stats["ev_"+p[:1]]++
			}
		}
	}
}

func (c *c14) blkID(h *chainhash.Hash) int {
	if h == nil {
		return -1
	}
	if id, ok := c.blkByID[*h]; ok {
		return id
	}
	return -1
}

func c14Heights(hs []int) string {
	if len(hs) == 0 {
		return "-"
	}
	sort.Ints(hs)
	ss := make([]string, len(hs))
	for i, h := range hs {
		ss[i] = strconv.Itoa(h)
	}
	return strings.Join(ss, ".")
}

func c14Join(ss []string) string {
	if len(ss) == 0 {
		return "-"
	}
	sort.Strings(ss)
	return strings.Join(ss, ",")
}

func c14B(b bool) int {
	if b {
		return 1
	}
	return 0
}

// dump prints the notifier's internal state and the hint caches (only the
// lines that changed since the previous dump).
func (c *c14) dump() {
	n := c.n
	n.Lock()
	defer n.Unlock()
	emit := func(key, line string) {
		if c.lastSt[key] != line {
			c.lastSt[key] = line
			c.pf("%s", line)
		}
	}
	emit("g", fmt.Sprintf("stg cur=%d rd=%d", n.currentHeight, n.reorgDepth))
	for k := 0; k < c14NumConfKeys; k++ {
		req, ok := c.confReq[k]
		if !ok {
			continue
		}
		hint := "-"
		if h, err := c.hc.QueryConfirmHint(req); err == nil {
			hint = strconv.Itoa(int(h))
		}
		var ini []int
		for h, m := range n.confsByInitialHeight {
			if _, ok := m[req]; ok {
				ini = append(ini, int(h))
			}
		}
		var q []string
		for h, m := range n.ntfnsByConfirmHeight {
			for nt := range m {
				if nt.ConfRequest == req {
					q = append(q, fmt.Sprintf("%02d:r%d", h, c.confIDs[nt.ConfID]))
				}
			}
		}
		set, rs, det := 0, 0, "-"
		var nts []string
		if cs, ok := n.confNotifications[req]; ok {
			set = 1
			rs = int(cs.rescanStatus)
			if cs.details != nil {
				det = fmt.Sprintf("%d/%d/%d", cs.details.BlockHeight, c.blkID(cs.details.BlockHash), cs.details.TxIndex)
			}
			for id, nt := range cs.ntfns {
				nts = append(nts, fmt.Sprintf("r%02d:%d:%d:%d", c.confIDs[id], nt.NumConfirmations, c14B(nt.dispatched), nt.numConfsLeft))
			}
		}
		emit(fmt.Sprintf("c%d", k), fmt.Sprintf("stc %d set=%d rs=%d det=%s ini=%s hint=%s nt=%s q=%s",
			k, set, rs, det, c14Heights(ini), hint, c14Join(nts), c14Join(q)))
	}
	for k := 0; k < c14NumSpendKeys; k++ {
		req, ok := c.spendReq[k]
		if !ok {
			continue
		}
		hint := "-"
		if h, err := c.hc.QuerySpendHint(req); err == nil {
			hint = strconv.Itoa(int(h))
		}
		var at []int
		for h, m := range n.spendsByHeight {
			if _, ok := m[req]; ok {
				at = append(at, int(h))
			}
		}
		set, rs, det := 0, 0, "-"
		var nts []string
		if ss, ok := n.spendNotifications[req]; ok {
			set = 1
			rs = int(ss.rescanStatus)
			if ss.details != nil {
				sp := -1
				if ss.details.SpenderTxHash != nil {
					if t, ok := c.txByHash[*ss.details.SpenderTxHash]; ok {
						sp = t
					}
				}
				det = fmt.Sprintf("%d/%d/%d", ss.details.SpendingHeight, sp, ss.details.SpenderInputIndex)
			}
			for id, nt := range ss.ntfns {
				nts = append(nts, fmt.Sprintf("r%02d:%d", c.spendIDs[id], c14B(nt.dispatched)))
			}
		}
		emit(fmt.Sprintf("s%d", k), fmt.Sprintf("sts %d set=%d rs=%d det=%s at=%s hint=%s nt=%s",
			k, set, rs, det, c14Heights(at), hint, c14Join(nts)))
	}
}

// ---------------------------------------------------------------- operations

func (c *c14) ensureConfReq(k int) ConfRequest {
	if r, ok := c.confReq[k]; ok {
		return r
	}
	r, err := NewConfRequest(&c.txHash[k], c14Script(k))
	if err != nil {
		panic(err)
	}
	c.confReq[k] = r
	return r
}

func (c *c14) ensureSpendReq(k int) SpendRequest {
	if r, ok := c.spendReq[k]; ok {
		return r
	}
	op := c14OutPoint(k)
	r, err := NewSpendRequest(&op, c14RawScript)
	if err != nil {
		panic(err)
	}
	c.spendReq[k] = r
	return r
}

func (c *c14) opSeedConf(k int, h uint32) {
	c.hc.CommitConfirmHint(h, c.ensureConfReq(k))
	c.pf("seedc %d %d => ok", k, h)
	c.after("ok")
}

func (c *c14) opSeedSpend(k int, h uint32) {
	c.hc.CommitSpendHint(h, c.ensureSpendReq(k))
	c.pf("seeds %d %d => ok", k, h)
	c.after("ok")
}

func c14Err(err error) string {
	switch err {
	case ErrNumConfsOutOfRange:
		return "err numconfs"
	case ErrNoHeightHint:
		return "err nohint"
	case ErrNoScript:
		return "err noscript"
	case ErrTxNotifierExiting:
		return "err exiting"
	}
	if strings.Contains(err.Error(), "out of order") {
		return "err order"
	}
	if strings.Contains(err.Error(), "not found") {
		return "err notfound"
	}
	return "err other"
}

func (c *c14) opRegConf(k int, numConfs, hint uint32) {
	req := c.ensureConfReq(k)
	var reg *ConfRegistration
	res := c.run(func() string {
		r, err := c.n.RegisterConf(&c.txHash[k], c14Script(k), numConfs, hint)
		if err != nil {
			return c14Err(err)
		}
		reg = r
		if r.HistoricalDispatch != nil {
			if r.HistoricalDispatch.ConfRequest != req {
				return "err badreq"
			}
			return fmt.Sprintf("hist %d %d", r.HistoricalDispatch.StartHeight, r.HistoricalDispatch.EndHeight)
		}
		return "ok"
	})
	if reg != nil {
		id := c.n.confClientCounter
		c.confIDs[id] = len(c.regs)
		c.regs = append(c.regs, &c14Reg{conf: true, key: k, confID: id, cev: reg.Event})
		if reg.HistoricalDispatch != nil {
			c.pendC[k] = reg.HistoricalDispatch.StartHeight
			c.lastC[k] = reg.HistoricalDispatch.StartHeight
			c.endC[k] = reg.HistoricalDispatch.EndHeight
		}
		if reg.Height != c.cur {
			res += " badheight"
		}
	}
	c.pf("regc %d %d %d => %s", k, numConfs, hint, res)
	c.after(res)
}

func (c *c14) opRegSpend(k int, hint uint32) {
	req := c.ensureSpendReq(k)
	var reg *SpendRegistration
	res := c.run(func() string {
		op := c14OutPoint(k)
		r, err := c.n.RegisterSpend(&op, c14RawScript, hint)
		if err != nil {
			return c14Err(err)
		}
		reg = r
		if r.HistoricalDispatch != nil {
			if r.HistoricalDispatch.SpendRequest != req {
				return "err badreq"
			}
			return fmt.Sprintf("hist %d %d", r.HistoricalDispatch.StartHeight, r.HistoricalDispatch.EndHeight)
		}
		return "ok"
	})
	if reg != nil {
		id := c.n.spendClientCounter
		c.spendIDs[id] = len(c.regs)
		c.regs = append(c.regs, &c14Reg{conf: false, key: k, confID: id, sev: reg.Event})
		if reg.HistoricalDispatch != nil {
			c.pendS[k] = reg.HistoricalDispatch.StartHeight
			c.lastS[k] = reg.HistoricalDispatch.StartHeight
			c.endS[k] = reg.HistoricalDispatch.EndHeight
		}
		if reg.Height != c.cur {
			res += " badheight"
		}
	}
	c.pf("regs %d %d => %s", k, hint, res)
	c.after(res)
}

func (c *c14) opCancel(i int) {
	r := c.regs[i]
	// Cancel on a client whose request was already removed at maturity is
	// a no-op and leaves the channels open; stop reading only when the
	// channels are really closed.
	live := false
	c.n.Lock()
	if r.conf {
		if cs, ok := c.n.confNotifications[c.confReq[r.key]]; ok {
			_, live = cs.ntfns[r.confID]
		}
	} else {
		if ss, ok := c.n.spendNotifications[c.spendReq[r.key]]; ok {
			_, live = ss.ntfns[r.confID]
		}
	}
	c.n.Unlock()
	res := c.run(func() string {
		if r.conf {
			r.cev.Cancel()
		} else {
			r.sev.Cancel()
		}
		return "ok"
	})
	if res == "ok" && live {
		r.closed = true
	}
	c.pf("cancel r%d => %s", i, res)
	c.after(res)
}

func (c *c14) opConnect(txs []int) {
	c.opConnectBlock(c.mkBlock(c.cur+1, txs))
}

func (c *c14) opConnectBlock(b *c14Block) {
	h := c.cur + 1
	res := c.run(func() string {
		if err := c.n.ConnectTip(b.blk, h); err != nil {
			return c14Err(err)
		}
		return "ok"
	})
	if res == "ok" {
		c.chain[h] = b
		c.cur = h
		if h > c.maxTip {
			c.maxTip = h
		}
		c.needNtfy = h
	}
	c.pf("conn %d %s => %s", h, c.blockStr(b), res)
	c.after(res)
}

// opSwitchFork: the chain backend switches, in one step, to a fork that
// branches off k blocks below the notifier's tip (without delivering the
// individual disconnects) and then announces the fork's tip.  The notifier side
// is driven exactly like the bitcoind/btcd notifiers do it: the real
// HandleMissedBlocks (GetCommonBlockAncestorHeight + RewindChain) against a
// ChainConn backed by the harness's chains, then ConnectTip+NotifyHeight for
// every missed block and the new tip.
func (c *c14) opSwitchFork(k int, extra int) {
	old := c.cur
	oldTip := c.chain[old]
	common := old - uint32(k)
	saved := map[uint32]*c14Block{}
	for h, b := range c.chain {
		saved[h] = b
	}
	// build the fork on top of the common ancestor (valid contents)
	for h := common + 1; h <= old; h++ {
		delete(c.chain, h)
	}
	c.cur = common
	var fork []*c14Block
	for i := 0; i < k+extra; i++ {
		b := c.mkBlock(c.cur+1, c.genTxs(0.3))
		c.chain[c.cur+1] = b
		c.cur++
		fork = append(fork, b)
	}
	c.backend = map[uint32]*c14Block{}
	for h, b := range c.chain {
		c.backend[h] = b
	}
	newTip := c.cur
	// back to what the notifier has been told so far
	c.chain = saved
	c.cur = old

	hdr := oldTip.blk.MsgBlock().Header
	var height uint32
	res := c.run(func() string {
		best, missed, err := HandleMissedBlocks(
			c14Conn{c}, c.n, BlockEpoch{
				Height: int32(old), Hash: oldTip.blk.Hash(), BlockHeader: &hdr,
			}, int32(newTip), true,
		)
		if err != nil {
			if strings.Contains(err.Error(), "out of order") {
				return "err order"
			}
			return "err other"
		}
		r := "ok"
		if best.Height != int32(common) || len(missed) != len(fork)-1 {
			r += " badmissed"
		} else {
			for i, m := range missed {
				if *m.Hash != *fork[i].blk.Hash() || m.Height != int32(fork[i].height) {
					r = "ok badmissed"
				}
			}
		}
		return r
	})
	if res != "blocked" && res != "panic" {
		c.n.Lock()
		height = c.n.currentHeight
		c.n.Unlock()
	}
	// the backend's main chain is the fork from now on, whatever the notifier did
	for h := common + 1; h <= old; h++ {
		delete(c.chain, h)
	}
	c.cur = common
	c.stats[fmt.Sprintf("rewind_depth_%d", k)]++
	c.pf("rewind %d => %s", k, res)
	c.after(res)
	if res != "ok" {
		_ = height
		c.dead = true
		return
	}
	for _, b := range fork {
		if c.dead {
			return
		}
		c.opConnectBlock(b)
		if !c.dead {
			c.opNotify(c.cur)
		}
	}
}

// a connect at a wrong height (must be refused without any effect).
func (c *c14) opConnectBad(h uint32) {
	b := c.mkBlock(h, nil)
	res := c.run(func() string {
		if err := c.n.ConnectTip(b.blk, h); err != nil {
			return c14Err(err)
		}
		return "ok"
	})
	c.pf("conn %d %s => %s", h, c.blockStr(b), res)
	c.after(res)
}

func (c *c14) opNotify(h uint32) {
	res := c.run(func() string {
		if err := c.n.NotifyHeight(h); err != nil {
			return c14Err(err)
		}
		return "ok"
	})
	if h == c.needNtfy {
		c.needNtfy = 0
	}
	c.pf("ntfy %d => %s", h, res)
	c.after(res)
}

func (c *c14) opDisconnect(h uint32) {
	res := c.run(func() string {
		if err := c.n.DisconnectTip(h); err != nil {
			return c14Err(err)
		}
		return "ok"
	})
	if res == "ok" {
		delete(c.chain, h)
		c.cur = h - 1
		c.needNtfy = 0
	}
	c.pf("disc %d => %s", h, res)
	c.after(res)
}

// rescanTo: the last height a completing historical rescan answers for.  A real
// dispatch covers [StartHeight, EndHeight = height at registration]; the answer
// may arrive late, after more blocks (possibly containing the transaction) were
// connected at tip, and is then still only about that range.  Half of the
// completions answer for the dispatched range, the others for everything up to
// the current tip.
func (c *c14) rescanTo(ends map[int]uint32, k int) uint32 {
	end, ok := ends[k]
	old := c.oldRange || c.rng.Intn(2) == 0
	c.oldRange = false
	if ok && old && end < c.cur {
		c.stats["rescan_old_range"]++
		return end
	}
	return c.cur
}

// historical rescan for conf key k finishing now.  lie: report something that
// is not the active chain's answer.
func (c *c14) opUpdConf(k int, from uint32, lie bool) {
	req := c.ensureConfReq(k)
	var det *TxConfirmation
	arg := "none"
	to := c.rescanTo(c.endC, k)
	b, idx, ok := c.txOnChain(k)
	if ok && (b.height < from || b.height > to) {
		ok = false
	}
	if lie {
		if ok {
			ok = false
		} else {
			ok = true
			hh := uint32(1)
			if c.cur > 0 {
				hh = 1 + uint32(c.rng.Intn(int(c.cur)))
			}
			b, idx = c.chain[hh], 0
			if b == nil {
				b = c.mkBlock(hh, nil)
			}
		}
	}
	if ok {
		det = &TxConfirmation{
			BlockHash:   b.blk.Hash(),
			BlockHeight: b.height,
			TxIndex:     uint32(idx),
			Tx:          c.txs[k],
			Block:       b.blk.MsgBlock(),
		}
		arg = fmt.Sprintf("%d/%d/%d", b.height, b.id, idx)
	}
	res := c.run(func() string {
		if err := c.n.UpdateConfDetails(req, det); err != nil {
			return c14Err(err)
		}
		return "ok"
	})
	delete(c.pendC, k)
	c.pf("updc %d from=%d to=%d %s => %s", k, from, to, arg, res)
	c.after(res)
}

func (c *c14) opUpdSpend(k int, from uint32, lie bool) {
	req := c.ensureSpendReq(k)
	var det *SpendDetail
	arg := "none"
	to := c.rescanTo(c.endS, k)
	b, sp, idx, ok := c.opOnChain(k)
	if ok && (b.height < from || b.height > to) {
		ok = false
	}
	if lie {
		if ok {
			ok = false
		} else {
			ok = true
			hh := uint32(1)
			if c.cur > 0 {
				hh = 1 + uint32(c.rng.Intn(int(c.cur)))
			}
			b = &c14Block{height: hh}
			// some transaction that spends k
			for t, sps := range c14TxSpends {
				for i, o := range sps {
					if o == k {
						sp, idx = t, i
					}
				}
			}
		}
	}
	if ok {
		op := c14OutPoint(k)
		h := c.txHash[sp]
		det = &SpendDetail{
			SpentOutPoint:     &op,
			SpenderTxHash:     &h,
			SpendingTx:        c.txs[sp],
			SpenderInputIndex: uint32(idx),
			SpendingHeight:    int32(b.height),
		}
		arg = fmt.Sprintf("%d/%d/%d", b.height, sp, idx)
	}
	res := c.run(func() string {
		if err := c.n.UpdateSpendDetails(req, det); err != nil {
			return c14Err(err)
		}
		return "ok"
	})
	delete(c.pendS, k)
	c.pf("upds %d from=%d to=%d %s => %s", k, from, to, arg, res)
	c.after(res)
}

// ---------------------------------------------------------------- generator

func (c *c14) pickHint(onChain bool, at uint32) uint32 {
	r := c.rng.Intn(100)
	switch {
	case r < 22:
		return 1
	case r < 40 && onChain:
		return at
	case r < 48 && onChain && at > 1:
		return at - 1
	case r < 52 && onChain:
		return at + 1
	case r < 62:
		return c.cur
	case r < 72:
		return c.cur + 1
	case r < 78 && c.cur > 1:
		return c.cur - 1
	case r < 82:
		return c.cur + 2
	case r < 84:
		return 0
	default:
		return 1 + uint32(c.rng.Intn(12))
	}
}

func (c *c14) pickNumConfs() uint32 {
	r := c.rng.Intn(100)
	switch {
	case r < 30:
		return 1
	case r < 55:
		return 2
	case r < 75:
		return 3
	case r < 79:
		return 6
	case r < 90:
		return c.limit
	case r < 92:
		return c.limit + 1
	case r < 93:
		return 0
	default:
		return 1 + uint32(c.rng.Intn(int(c.limit)))
	}
}

func (c *c14) liveRegs() []int {
	var out []int
	for i, r := range c.regs {
		if !r.closed {
			out = append(out, i)
		}
	}
	return out
}

func (c *c14) oneCase(kind string, nops int) {
	c.caseNo++
	c.hc = newC14Hints()
	c.chain = map[uint32]*c14Block{}
	c.blkByID = map[chainhash.Hash]int{}
	c.blkByHash = map[chainhash.Hash]*c14Block{}
	c.nextBlk = -1
	c.chain[0] = c.mkBlock(0, nil) // genesis, id 0 (never printed)
	c.nextBlk = 0
	c.regs = nil
	c.confReq = map[int]ConfRequest{}
	c.spendReq = map[int]SpendRequest{}
	c.confIDs = map[uint64]int{}
	c.spendIDs = map[uint64]int{}
	c.pendC, c.pendS = map[int]uint32{}, map[int]uint32{}
	c.lastC, c.lastS = map[int]uint32{}, map[int]uint32{}
	c.endC, c.endS = map[int]uint32{}, map[int]uint32{}
	c.oldRange = false
	c.lastSt = map[string]string{}
	c.needNtfy = 0
	c.dead = false

	limits := []uint32{4, 4, 4, 4, 4, 4, 3, 2, 6, 8, 1}
	c.limit = limits[c.rng.Intn(len(limits))]
	if kind == "lazy" {
		c.limit = 4
	}
	start := uint32(c.rng.Intn(7))
	c.lazy = kind == "lazy"
	c.cur = 0
	c.pf("CASE %d kind=%s limit=%d start=%d lazy=%d", c.caseNo, kind, c.limit, start, c14B(c.lazy))
	c.stats["cases_"+kind]++
	c.stats[fmt.Sprintf("limit_%d", c.limit)]++

	// chain that exists before the notifier is started
	for h := uint32(1); h <= start; h++ {
		c.cur = h - 1
		txs := c.genTxs(0.12)
		c.cur = h
		b := c.mkBlock(h, txs)
		c.chain[h] = b
		c.pf("pre %d %s", h, c.blockStr(b))
	}
	c.cur = start
	c.maxTip = start
	c.n = NewTxNotifier(start, c.limit, c.hc, c.hc)

	if c.rng.Intn(10) == 0 {
		c.opSeedConf(c.rng.Intn(3), 1+uint32(c.rng.Intn(8)))
	}
	if c.rng.Intn(10) == 0 {
		c.opSeedSpend(c.rng.Intn(3), 1+uint32(c.rng.Intn(8)))
	}

	invalid := func(why string) {
		c.pf("invalid %s", why)
		c.stats["invalid_"+why]++
	}

	if kind == "story" {
		c.story()
	}
	if kind == "lazy" {
		switch c.rng.Intn(3) {
		case 0:
			c.storyOverflow()
		case 1:
			c.storyLostNotice()
		}
	}

	discRun := false
	for i := 0; i < nops && !c.dead; i++ {
		malformed := kind == "malformed"
		// ---- pending notify first (the backends call NotifyHeight right after ConnectTip;
		// registrations / cancellations / rescan completions from other goroutines may
		// slip in between)
		if c.needNtfy != 0 {
			x := c.rng.Intn(100)
			if x < 80 {
				c.opNotify(c.needNtfy)
				continue
			}
			if x < 84 && malformed {
				invalid("no_notify")
				c.needNtfy = 0
				continue
			}
		}
		r := c.rng.Intn(100)
		if c.needNtfy != 0 && r < 46 {
			r = 46 + c.rng.Intn(54)
		}
		switch {
		case r < 30 && c.needNtfy == 0:
			if c.cur >= 12 {
				continue
			}
			discRun = false
			if malformed && c.rng.Intn(12) == 0 {
				invalid("bad_connect")
				c.opConnectBad(c.cur + uint32(c.rng.Intn(3))*2)
				continue
			}
			txs := c.genTxs(0.3)
			if malformed && c.rng.Intn(4) == 0 {
				// a transaction a second time / a double spend
				invalid("dup_tx")
				txs = append(txs, c.rng.Intn(len(c14TxSpends)))
			}
			c.opConnect(txs)

		case r < 46 && c.needNtfy == 0 || (discRun && r < 60 && c.needNtfy == 0):
			if c.cur == 0 {
				continue
			}
			// depth < limit, measured from the highest tip ever seen
			ok := c.cur-1+c.limit > c.maxTip
			if !ok {
				if !malformed || c.rng.Intn(3) != 0 {
					continue
				}
				invalid("deep_reorg")
			}
			if malformed && c.rng.Intn(15) == 0 {
				invalid("bad_disconnect")
				c.opDisconnect(c.cur + 1)
				continue
			}
			if !malformed && !c.lazy && c.rng.Intn(3) == 0 {
				// the backend switches to a fork in one step
				maxK := 0
				for kk := 1; kk <= int(c.cur); kk++ {
					if c.cur-uint32(kk)+c.limit > c.maxTip {
						maxK = kk
					}
				}
				if maxK >= 1 {
					kk := 1 + c.rng.Intn(maxK)
					if maxK >= 2 && c.rng.Intn(2) == 0 {
						kk = 2 + c.rng.Intn(maxK-1)
					}
					if c.cur+1 <= 12 {
						c.opSwitchFork(kk, c.rng.Intn(2))
						continue
					}
				}
			}
			discRun = true
			c.opDisconnect(c.cur)

		case r < 60:
			if len(c.regs) >= 7 {
				continue
			}
			k := c.rng.Intn(3)
			if c.rng.Intn(12) == 0 {
				k = 3
			}
			b, _, ok := c.txOnChain(k)
			at := uint32(0)
			if ok {
				at = b.height
			}
			c.opRegConf(k, c.pickNumConfs(), c.pickHint(ok, at))

		case r < 71:
			if len(c.regs) >= 7 {
				continue
			}
			k := c.rng.Intn(c14NumSpendKeys)
			b, _, _, ok := c.opOnChain(k)
			at := uint32(0)
			if ok {
				at = b.height
			}
			c.opRegSpend(k, c.pickHint(ok, at))

		case r < 77:
			lr := c.liveRegs()
			if len(lr) == 0 {
				continue
			}
			j := lr[c.rng.Intn(len(lr))]
			c.opCancel(j)

		case r < 92:
			// a historical rescan completes
			lie := (malformed || c.lazy) && c.rng.Intn(5) == 0
			if lie {
				invalid("stale_rescan")
			}
			var pc, ps []int
			for k := range c.pendC {
				pc = append(pc, k)
			}
			for k := range c.pendS {
				ps = append(ps, k)
			}
			sort.Ints(pc)
			sort.Ints(ps)
			x := c.rng.Intn(10)
			switch {
			case len(pc)+len(ps) > 0 && x < 8:
				j := c.rng.Intn(len(pc) + len(ps))
				if j < len(pc) {
					c.opUpdConf(pc[j], c.pendC[pc[j]], lie)
				} else {
					k := ps[j-len(pc)]
					c.opUpdSpend(k, c.pendS[k], lie)
				}
			case x < 9:
				// a second / unsolicited completion
				if c.rng.Intn(2) == 0 {
					k := c.rng.Intn(3)
					from, ok := c.lastC[k]
					if !ok {
						from = 1
					}
					c.opUpdConf(k, from, lie)
				} else {
					k := c.rng.Intn(c14NumSpendKeys)
					from, ok := c.lastS[k]
					if !ok {
						from = 1
					}
					c.opUpdSpend(k, from, lie)
				}
			default:
				continue
			}

		default:
			if c.lazy {
				c.pf("drain => ok")
				c.drain()
				c.dump()
			}
		}
	}
	if !c.dead && c.needNtfy != 0 && kind != "malformed" {
		c.opNotify(c.needNtfy)
	}
	if !c.dead && c.lazy {
		c.pf("drain => ok")
		c.drain()
		c.dump()
	}
	c.pf("END")
	if !c.dead {
		c.n.TearDown()
	}
	c.stats["regs_total"] += len(c.regs)
}

// story: directed prefixes for orders that random choice rarely produces:
// a historical rescan that completes after every client of the request has
// cancelled, followed by a reorg of the block it reported and a new
// registration; a registration between ConnectTip and NotifyHeight; a reorg
// that moves the transaction / replaces the spender.
func (c *c14) story() {
	conf := c.rng.Intn(2) == 0
	k := c.rng.Intn(3)
	if c.rng.Intn(4) == 0 {
		c.storyInterleave(k)
		return
	}
	// make sure the watched transaction / a spender is in a recent block
	var onChain bool
	if conf {
		_, _, onChain = c.txOnChain(k)
	} else {
		_, _, _, onChain = c.opOnChain(k)
	}
	for tries := 0; !onChain && tries < 4 && !c.dead; tries++ {
		c.opConnect(c.genTxs(0.6))
		if !c.dead {
			c.opNotify(c.cur)
		}
		if conf {
			_, _, onChain = c.txOnChain(k)
		} else {
			_, _, _, onChain = c.opOnChain(k)
		}
	}
	if c.dead {
		return
	}
	nc := []uint32{1, 1, 2, 3}[c.rng.Intn(4)]
	if nc > c.limit {
		nc = 1
	}
	reg := func() {
		if conf {
			c.opRegConf(k, nc, 1)
		} else {
			c.opRegSpend(k, 1)
		}
	}
	upd := func() {
		if conf {
			if from, ok := c.pendC[k]; ok {
				c.opUpdConf(k, from, false)
			}
		} else {
			if from, ok := c.pendS[k]; ok {
				c.opUpdSpend(k, from, false)
			}
		}
	}
	if c.rng.Intn(3) == 0 {
		c.storyLateAnswer(conf, k)
		return
	}
	switch c.rng.Intn(3) {
	case 0:
		// register, cancel, rescan completes, reorg, register again
		reg()
		if c.dead {
			return
		}
		if c.rng.Intn(4) != 0 {
			c.opCancel(len(c.regs) - 1)
		}
		if !c.dead {
			upd()
		}
	case 1:
		// rescan completes first, then everybody cancels
		reg()
		if !c.dead {
			upd()
		}
		if !c.dead && c.rng.Intn(2) == 0 {
			c.opCancel(len(c.regs) - 1)
		}
	default:
		reg()
	}
	// reorg some blocks away
	d := 1 + c.rng.Intn(int(c.limit))
	for i := 0; i < d && !c.dead && c.cur > 0 && c.cur-1+c.limit > c.maxTip; i++ {
		c.opDisconnect(c.cur)
	}
	if !c.dead && c.rng.Intn(2) == 0 {
		reg()
	}
	if !c.dead && c.rng.Intn(2) == 0 {
		upd()
	}
}

// storyLateAnswer: a rescan is dispatched for [hint, cur]; the transaction (a
// spender) is then mined at tip, more blocks follow, and only then does the
// rescan answer "not found" for its old range.
func (c *c14) storyLateAnswer(conf bool, k int) {
	// needs the tx / a spender off chain
	want := -1
	if conf {
		if _, _, ok := c.txOnChain(k); ok {
			return
		}
		want = k
	} else {
		if _, _, _, ok := c.opOnChain(k); ok {
			return
		}
		for t, sps := range c14TxSpends {
			for _, o := range sps {
				if o == k {
					if _, _, on := c.txOnChain(t); !on {
						want = t
					}
				}
			}
		}
	}
	if want < 0 || c.cur == 0 {
		return
	}
	for _, o := range c14TxSpends[want] {
		if _, _, _, ok := c.opOnChain(o); ok {
			return
		}
	}
	hint := uint32(1)
	if c.rng.Intn(2) == 0 {
		hint = c.cur
	}
	if conf {
		c.opRegConf(k, 1+uint32(c.rng.Intn(2)), hint)
	} else {
		c.opRegSpend(k, hint)
	}
	if c.dead {
		return
	}
	c.opConnect([]int{want})
	if !c.dead {
		c.opNotify(c.cur)
	}
	for i := c.rng.Intn(3); i > 0 && !c.dead && c.cur < 12; i-- {
		c.opConnect(nil)
		if !c.dead {
			c.opNotify(c.cur)
		}
	}
	if c.dead {
		return
	}
	c.oldRange = true
	if conf {
		if from, ok := c.pendC[k]; ok {
			c.opUpdConf(k, from, false)
		}
	} else {
		if from, ok := c.pendS[k]; ok {
			c.opUpdSpend(k, from, false)
		}
	}
	c.oldRange = false
}

// storyInterleave: client A waits for N confirmations of a transaction that
// is not yet mined; the block that gives the N-th confirmation is connected,
// and before NotifyHeight a second client registers for the same request.
func (c *c14) storyInterleave(k int) {
	if _, _, ok := c.txOnChain(k); ok {
		return
	}
	for _, o := range c14TxSpends[k] {
		if _, _, _, ok := c.opOnChain(o); ok {
			return
		}
	}
	nc := uint32(1 + c.rng.Intn(3))
	if nc > c.limit {
		nc = c.limit
	}
	c.opRegConf(k, nc, c.cur+1)
	if c.dead {
		return
	}
	if c.rng.Intn(2) == 0 && len(c14TxSpends[k]) > 0 {
		c.opRegSpend(c14TxSpends[k][0], c.cur+1)
	}
	for i := uint32(0); i < nc && !c.dead && c.cur < 12; i++ {
		txs := []int{}
		if i == 0 {
			txs = []int{k}
		}
		c.opConnect(txs)
		if c.dead {
			return
		}
		if i+1 < nc {
			c.opNotify(c.cur)
		}
	}
	if c.dead {
		return
	}
	switch c.rng.Intn(3) {
	case 0:
		c.opRegConf(k, 1+uint32(c.rng.Intn(int(nc))), 1)
	case 1:
		c.opRegConf(k, nc, c.cur)
	default:
		if len(c14TxSpends[k]) > 0 {
			c.opRegSpend(c14TxSpends[k][0], 1)
		} else {
			c.opRegConf(k, 1, 1)
		}
	}
	if !c.dead && c.needNtfy != 0 {
		c.opNotify(c.needNtfy)
	}
}

// storyLostNotice (lazy clients only): the client reads Confirmed(b1) / Spend,
// the block is disconnected (NegativeConf / Reorg is put into the channel) and
// before the client gets to read it the transaction is mined again in another
// block: handleConfDetailsAtTip / handleSpendDetailsAtTip consume the unread
// notice, and the client next reads Confirmed(b2) / a second Spend.
func (c *c14) storyLostNotice() {
	k := c.rng.Intn(3)
	if _, _, ok := c.txOnChain(k); ok {
		return
	}
	for _, o := range c14TxSpends[k] {
		if _, _, _, ok := c.opOnChain(o); ok {
			return
		}
	}
	c.opRegConf(k, 1, c.cur+1)
	if len(c14TxSpends[k]) > 0 && !c.dead {
		c.opRegSpend(c14TxSpends[k][0], c.cur+1)
	}
	drain := func() {
		if !c.dead {
			c.pf("drain => ok")
			c.drain()
			c.dump()
		}
	}
	if c.dead || c.cur >= 11 {
		return
	}
	c.opConnect([]int{k})
	if !c.dead {
		c.opNotify(c.cur)
	}
	drain() // reads Confirmed(b1)
	if c.dead || !(c.cur > 0 && c.cur-1+c.limit > c.maxTip) {
		return
	}
	c.opDisconnect(c.cur) // NegativeConf sent, not read
	if c.dead {
		return
	}
	if c.rng.Intn(2) == 0 {
		c.opConnect(nil)
		if !c.dead {
			c.opNotify(c.cur)
		}
		if c.dead || c.cur >= 12 {
			return
		}
	}
	c.opConnect([]int{7, k}) // mined again, other block / index
	if !c.dead {
		c.opNotify(c.cur)
	}
	drain() // reads Confirmed(b2) without having seen a NegativeConf
}

// storyOverflow (lazy clients only): a client that never reads its Updates
// channel; a shallow reorg plus a second registration make the notifier send
// more updates than the channel's capacity, so a later NotifyHeight blocks.
func (c *c14) storyOverflow() {
	k := c.rng.Intn(3)
	if _, _, ok := c.txOnChain(k); ok {
		return
	}
	for _, o := range c14TxSpends[k] {
		if _, _, _, ok := c.opOnChain(o); ok {
			return
		}
	}
	nc := uint32(3)
	if c.rng.Intn(3) == 0 {
		nc = 2
	}
	c.opRegConf(k, nc, c.cur+1)
	steps := []string{"ct", "n", "c", "n", "d", "r", "c", "n", "c", "n", "d", "r", "c", "n", "c", "n"}
	for _, st := range steps {
		if c.dead || c.cur >= 12 {
			return
		}
		switch st {
		case "ct":
			c.opConnect([]int{k})
		case "c":
			c.opConnect(nil)
		case "n":
			if c.needNtfy != 0 {
				c.opNotify(c.needNtfy)
			}
		case "d":
			if c.cur > 0 && c.cur-1+c.limit > c.maxTip {
				c.opDisconnect(c.cur)
			}
		case "r":
			if len(c.regs) < 7 {
				c.opRegConf(k, nc, 1)
			}
		}
	}
}

func TestVerifC14(t *testing.T) {
	out := os.Getenv("VERIF_OUT")
	if out == "" {
		t.Skip("VERIF_OUT not set")
	}
	seed, _ := strconv.ParseInt(os.Getenv("VERIF_SEED"), 10, 64)
	tier := os.Getenv("VERIF_TIER")
	f, err := os.Create(out)
	if err != nil {
		t.Fatal(err)
	}
	defer f.Close()
	w := bufio.NewWriterSize(f, 1<<20)
	defer w.Flush()

	c := &c14{w: w, rng: rand.New(rand.NewSource(seed*7919 + 14)), stats: map[string]int{}}
	c.txByHash = map[chainhash.Hash]int{}
	for id := range c14TxSpends {
		tx := c14BuildTx(id)
		c.txs = append(c.txs, tx)
		c.txHash = append(c.txHash, tx.TxHash())
		c.txByHash[tx.TxHash()] = id
	}
	c.pf("FACT maxNumConfs=%d reorgSafetyLimit=%d", MaxNumConfs, ReorgSafetyLimit)

	nValid, nStory, nLazy, nMal := 400, 150, 60, 120
	if tier == "thorough" {
		nValid, nStory, nLazy, nMal = 40000, 12000, 1500, 8000
	}
	for i := 0; i < nValid; i++ {
		c.oneCase("valid", 20+c.rng.Intn(30))
	}
	for i := 0; i < nStory; i++ {
		c.oneCase("story", 10+c.rng.Intn(25))
	}
	for i := 0; i < nLazy; i++ {
		c.oneCase("lazy", 20+c.rng.Intn(30))
	}
	for i := 0; i < nMal; i++ {
		c.oneCase("malformed", 20+c.rng.Intn(30))
	}
	keys := make([]string, 0, len(c.stats))
	for k := range c.stats {
		keys = append(keys, k)
	}
	sort.Strings(keys)
	for _, k := range keys {
		c.pf("HSTAT %s=%d", k, c.stats[k])
	}
}
