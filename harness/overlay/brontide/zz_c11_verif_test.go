//go:build verif

package brontide

// C11 correspondence/monitor harness. Injected with `go test -overlay`; drives
// real brontide Machines (and Dial / Listener.doHandshake / Conn) over an
// in-memory faulty pipe and prints one line per operation for the Lean driver
// (drv_c11). Every random choice derives from VERIF_SEED.

import (
	"bufio"
	"crypto/sha256"
	"encoding/binary"
	"encoding/hex"
	"errors"
	"fmt"
	"io"
	"math/rand"
	"net"
	"os"
	"strconv"
	"strings"
	"sync"
	"sync/atomic"
	"testing"
	"time"

	"github.com/btcsuite/btcd/btcec/v2"
	"github.com/lightningnetwork/lnd/keychain"
	"github.com/lightningnetwork/lnd/lnwire"
	"golang.org/x/crypto/chacha20poly1305"
)

// ---------------------------------------------------------------------------
// in-memory faulty pipe
// ---------------------------------------------------------------------------

type vTimeoutErr struct{}

func (vTimeoutErr) Error() string   { return "verif: i/o timeout" }
func (vTimeoutErr) Timeout() bool   { return true }
func (vTimeoutErr) Temporary() bool { return true }

// vpipe is one direction of a connection. The writer side accepts `budget`
// more bytes (-1 = unlimited) and reports a timeout on a short write (and,
// when eager, as soon as the budget is used up).
type vpipe struct {
	mu       sync.Mutex
	cond     *sync.Cond
	id       int
	buf      []byte
	hist     []byte
	// origin of every byte of buf / hist: writer pipe id and stream offset.
	// The model identifies bytes by origin; a tamper whose first altered
	// position happens to carry the same byte value as before is skipped.
	prov  []uint64
	hprov []uint64
	keepHist bool
	budget   int
	eager    bool
	block    bool // Read waits while empty (used during Dial/doHandshake)
	closed   bool
	frag     func() int
	// hook runs (outside the lock) after every Read that returned bytes: the
	// full-duplex cases use it to operate the reader's own sending side
	// between two fragments of an inbound record
	hook     func()
	written  int
	flipAt   int
	flipXor  byte
	cutAt    int
}

func newPipe(id int) *vpipe {
	p := &vpipe{id: id, budget: -1, flipAt: -1, cutAt: -1}
	p.cond = sync.NewCond(&p.mu)
	return p
}

func (p *vpipe) Write(b []byte) (int, error) {
	p.mu.Lock()
	defer p.mu.Unlock()
	if p.closed {
		return 0, io.ErrClosedPipe
	}
	n := len(b)
	if p.budget >= 0 {
		if n > p.budget {
			n = p.budget
		}
		p.budget -= n
	}
	chunk := append([]byte(nil), b[:n]...)
	for i := range chunk {
		if p.written+i == p.flipAt {
			chunk[i] ^= p.flipXor
		}
	}
	if p.cutAt >= 0 && p.written+len(chunk) > p.cutAt {
		keep := p.cutAt - p.written
		if keep < 0 {
			keep = 0
		}
		chunk = chunk[:keep]
		p.closed = true
	}
	for i := range chunk {
		o := uint64(p.id)<<40 | uint64(p.written+i)
		p.prov = append(p.prov, o)
		if p.keepHist {
			p.hprov = append(p.hprov, o)
		}
	}
	p.written += n
	p.buf = append(p.buf, chunk...)
	if p.keepHist {
		p.hist = append(p.hist, chunk...)
	}
	p.cond.Broadcast()
	if n < len(b) || (p.eager && p.budget == 0) {
		return n, vTimeoutErr{}
	}
	return n, nil
}

func (p *vpipe) Read(b []byte) (int, error) {
	n, err := p.readLocked(b)
	if n > 0 && p.hook != nil {
		p.hook()
	}
	return n, err
}

func (p *vpipe) readLocked(b []byte) (int, error) {
	p.mu.Lock()
	defer p.mu.Unlock()
	for len(p.buf) == 0 {
		if p.closed || !p.block {
			return 0, io.EOF
		}
		p.cond.Wait()
	}
	n := len(b)
	if n > len(p.buf) {
		n = len(p.buf)
	}
	if p.frag != nil {
		if k := p.frag(); k > 0 && k < n {
			n = k
		}
	}
	copy(b, p.buf[:n])
	p.buf = p.buf[n:]
	p.prov = p.prov[n:]
	return n, nil
}

func (p *vpipe) closePipe() {
	p.mu.Lock()
	p.closed = true
	p.cond.Broadcast()
	p.mu.Unlock()
}

func (p *vpipe) clone(id int) *vpipe {
	q := newPipe(id)
	q.buf = append([]byte(nil), p.buf...)
	q.hist = append([]byte(nil), p.hist...)
	q.prov = append([]uint64(nil), p.prov...)
	q.hprov = append([]uint64(nil), p.hprov...)
	q.keepHist = p.keepHist
	q.frag = p.frag
	q.written = p.written
	return q
}

// vconn is a net.Conn over two pipes.
type vconn struct{ r, w *vpipe }

func (c *vconn) Read(b []byte) (int, error)  { return c.r.Read(b) }
func (c *vconn) Write(b []byte) (int, error) { return c.w.Write(b) }
func (c *vconn) Close() error {
	c.r.closePipe()
	c.w.closePipe()
	return nil
}
func (c *vconn) LocalAddr() net.Addr                { return &net.TCPAddr{IP: net.IPv4(127, 0, 0, 1), Port: 1} }
func (c *vconn) RemoteAddr() net.Addr               { return &net.TCPAddr{IP: net.IPv4(127, 0, 0, 1), Port: 2} }
func (c *vconn) SetDeadline(t time.Time) error      { return nil }
func (c *vconn) SetReadDeadline(t time.Time) error  { return nil }
func (c *vconn) SetWriteDeadline(t time.Time) error { return nil }

// ---------------------------------------------------------------------------
// harness state
// ---------------------------------------------------------------------------

type kinfo struct {
	id   int
	priv *btcec.PrivateKey
	pub  []byte
}

type vmach struct {
	id       int
	m        *Machine
	init     bool
	split    bool
	lastSend [32]byte
	lastRecv [32]byte
	sendRot  int
	recvRot  int
	out      *vpipe
	nextEph  *btcec.PrivateKey
	// provenance bookkeeping for the monitor's tampered-accepted clause
	peer    *vmach
	recs    []recInfo // records this machine sealed: where their bytes start in its stream
	nRead   int       // successful reads so far
	hdrProv []uint64  // origin of the bytes consumed by the last ReadHeader
	keyHist [][32]byte
}

// recInfo locates one sealed record in the byte stream of the pipe it was
// (or will be) written to.
type recInfo struct {
	pipe  int
	start int
	n     int
}

// exactRec reports whether the consumed bytes are, byte for byte by origin,
// the next record of v's peer as the peer wrote it.
func exactRec(v *vmach, prov []uint64) int {
	if v.peer == nil || v.nRead >= len(v.peer.recs) {
		return 0
	}
	r := v.peer.recs[v.nRead]
	if len(prov) != r.n {
		return 0
	}
	for i, o := range prov {
		if o != uint64(r.pipe)<<40|uint64(r.start+i) {
			return 0
		}
	}
	return 1
}

type c11 struct {
	w        *bufio.Writer
	rng      *rand.Rand
	thorough bool
	nCase    int
	nKey     int
	nMach    int
	nJunk    uint64
	midMach  *vmach // machine whose read is in progress (its rn/re are in flux)
	fullSearches int
	keys     map[string]*kinfo
	stats    map[string]int
	// pooled send buffers seen so far (kept alive: an address is never reused), numbered in
	// order of first appearance over the whole run (the pools are process-wide)
	bufIDs map[*[]byte]int
}

// bufID names a pooled buffer ("-" = nil).
func (c *c11) bufID(b *[]byte) string {
	if b == nil {
		return "-"
	}
	if c.bufIDs == nil {
		c.bufIDs = map[*[]byte]int{}
	}
	id, ok := c.bufIDs[b]
	if !ok {
		id = len(c.bufIDs) + 1
		c.bufIDs[b] = id
	}
	return strconv.Itoa(id)
}

func (c *c11) pf(format string, a ...interface{}) { fmt.Fprintf(c.w, format+"\n", a...) }

func hx11(b []byte) string {
	if len(b) == 0 {
		return "-"
	}
	return hex.EncodeToString(b)
}

func kh(k [32]byte) string {
	d := sha256.Sum256(k[:])
	return hex.EncodeToString(d[:8])
}

func valOf(b []byte) string {
	if len(b) == 0 {
		return "00"
	}
	if len(b) <= 8 {
		return hex.EncodeToString(b)
	}
	d := sha256.Sum256(b)
	return hex.EncodeToString(d[:])
}

func (c *c11) startCase(kind string) {
	c.nCase++
	c.nKey, c.nMach = 0, 0
	c.keys = map[string]*kinfo{}
	c.stats["case_"+kind]++
	c.pf("CASE %d kind=%s", c.nCase, kind)
}

func (c *c11) endCase() { c.pf("END") }

func (c *c11) newKey() *kinfo {
	for {
		var b [32]byte
		c.rng.Read(b[:])
		priv, pub := btcec.PrivKeyFromBytes(b[:])
		ser := pub.SerializeCompressed()
		if _, dup := c.keys[string(ser)]; dup {
			continue
		}
		c.nKey++
		k := &kinfo{id: c.nKey, priv: priv, pub: ser}
		c.keys[string(ser)] = k
		c.pf("key %d pub=%s", k.id, hx11(ser))
		return k
	}
}

// pkOf describes the 33-byte key field of an act: a known key id, a new id
// for any other valid point, or "invalid".
func (c *c11) pkOf(b []byte) string {
	pk, err := btcec.ParsePubKey(b)
	if err != nil {
		return "invalid"
	}
	ser := pk.SerializeCompressed()
	if k, ok := c.keys[string(ser)]; ok {
		return strconv.Itoa(k.id)
	}
	c.nKey++
	k := &kinfo{id: c.nKey, pub: ser}
	c.keys[string(ser)] = k
	c.pf("key %d pub=%s", k.id, hx11(ser))
	return strconv.Itoa(k.id)
}

func classify(err error) string {
	if err == nil {
		return "ok"
	}
	var ne net.Error
	switch {
	case errors.Is(err, io.EOF):
		return "eof"
	case errors.Is(err, io.ErrUnexpectedEOF):
		return "short"
	case errors.Is(err, ErrMaxMessageLengthExceeded):
		return "toolong"
	case errors.Is(err, ErrMessageNotFlushed):
		return "notflushed"
	case errors.Is(err, io.ErrClosedPipe):
		return "closed"
	case errors.As(err, &ne) && ne.Timeout():
		return "timeout"
	case strings.Contains(err.Error(), "message authentication failed"):
		return "mac"
	case strings.Contains(err.Error(), "invalid handshake version"):
		return "version"
	}
	return "other"
}

// classifyHS maps any remaining act-processing error to the key-parsing class.
func classifyHS(err error) string {
	s := classify(err)
	if s == "other" {
		return "parse"
	}
	return s
}

// classifyConn: outcome classes of Dial / doHandshake (any stream error is "io").
func classifyConn(err error) string {
	s := classifyHS(err)
	if s == "eof" || s == "short" || s == "closed" {
		return "io"
	}
	return s
}

func guard(f func()) (panicked bool) {
	defer func() {
		if r := recover(); r != nil {
			panicked = true
		}
	}()
	f()
	return false
}

func (c *c11) newMach(init bool, ls, rs *kinfo) *vmach {
	c.nMach++
	v := &vmach{id: c.nMach, init: init}
	v.out = newPipe(v.id)
	gen := EphemeralGenerator(func() (*btcec.PrivateKey, error) { return v.nextEph, nil })
	lk := &keychain.PrivKeyECDH{PrivKey: ls.priv}
	if init {
		pub, _ := btcec.ParsePubKey(rs.pub)
		v.m = NewBrontideMachine(true, lk, pub, gen)
		c.pf("mach %d role=init ls=%d rs=%d", v.id, ls.id, rs.id)
	} else {
		v.m = NewBrontideMachine(false, lk, nil, gen)
		c.pf("mach %d role=resp ls=%d", v.id, ls.id)
	}
	return v
}

func (c *c11) cloneMach(v *vmach) *vmach {
	c.nMach++
	n := &vmach{}
	*n = *v
	m := *v.m
	n.m = &m
	n.id = c.nMach
	n.m.ephemeralGen = func() (*btcec.PrivateKey, error) { return n.nextEph, nil }
	n.out = v.out.clone(n.id)
	n.recs = append([]recInfo(nil), v.recs...)
	n.keyHist = append([][32]byte(nil), v.keyHist...)
	n.hdrProv = nil
	return n
}

func (c *c11) clone(v *vmach) *vmach {
	n := c.cloneMach(v)
	c.pf("clone %d from=%d", n.id, v.id)
	return n
}

func (c *c11) clonePair(a, b *vmach) (*vmach, *vmach) {
	na, nb := c.cloneMach(a), c.cloneMach(b)
	na.peer, nb.peer = nb, na
	c.pf("clonepair %d %d from=%d %d", na.id, nb.id, a.id, b.id)
	return na, nb
}

func (c *c11) markSplit(v *vmach) {
	v.split = true
	v.lastSend = v.m.sendCipher.secretKey
	v.lastRecv = v.m.recvCipher.secretKey
	v.keyHist = append(v.keyHist, v.lastSend, v.lastRecv)
}

func (c *c11) obs(v *vmach) string {
	if v.split {
		if v.m.sendCipher.secretKey != v.lastSend {
			v.sendRot++
			v.lastSend = v.m.sendCipher.secretKey
			v.keyHist = append(v.keyHist, v.lastSend)
		}
		if v.m.recvCipher.secretKey != v.lastRecv {
			v.recvRot++
			v.lastRecv = v.m.recvCipher.secretKey
			v.keyHist = append(v.keyHist, v.lastRecv)
		}
	}
	mid := ""
	if c.midMach == v {
		mid = " mid=1"
	}
	return fmt.Sprintf("sn=%d se=%d rn=%d re=%d hl=%d bl=%d hb=%s bb=%s%s", v.m.sendCipher.nonce, v.sendRot,
		v.m.recvCipher.nonce, v.recvRot, len(v.m.nextHeaderSend), len(v.m.nextBodySend),
		c.bufID(v.m.pooledHeaderBuf), c.bufID(v.m.pooledBodyBuf), mid)
}

// ---- handshake operations ---------------------------------------------------

func (c *c11) gen1(v *vmach, e *kinfo) []byte {
	v.nextEph = e.priv
	var a [ActOneSize]byte
	var err error
	if guard(func() { a, err = v.m.GenActOne() }) {
		c.pf("gen1 %d e=%d => panic", v.id, e.id)
		return a[:]
	}
	if err != nil {
		c.pf("gen1 %d e=%d => err", v.id, e.id)
		return a[:]
	}
	c.pf("gen1 %d e=%d => ok act=%s", v.id, e.id, hx11(a[:]))
	return a[:]
}

func (c *c11) gen2(v *vmach, e *kinfo) []byte {
	v.nextEph = e.priv
	var a [ActTwoSize]byte
	var err error
	if guard(func() { a, err = v.m.GenActTwo() }) {
		c.pf("gen2 %d e=%d => panic", v.id, e.id)
		return a[:]
	}
	if err != nil {
		c.pf("gen2 %d e=%d => err", v.id, e.id)
		return a[:]
	}
	c.pf("gen2 %d e=%d => ok act=%s", v.id, e.id, hx11(a[:]))
	return a[:]
}

func (c *c11) gen3(v *vmach) []byte {
	var a [ActThreeSize]byte
	var err error
	if guard(func() { a, err = v.m.GenActThree() }) {
		c.pf("gen3 %d => panic", v.id)
		return a[:]
	}
	if err != nil {
		c.pf("gen3 %d => err", v.id)
		return a[:]
	}
	c.markSplit(v)
	c.pf("gen3 %d => ok act=%s", v.id, hx11(a[:]))
	return a[:]
}

func (c *c11) recv1(v *vmach, act []byte) string {
	var a [ActOneSize]byte
	copy(a[:], act)
	pk := c.pkOf(a[1:34])
	var err error
	res := ""
	if guard(func() { err = v.m.RecvActOne(a) }) {
		res = "panic"
	} else {
		res = classifyHS(err)
	}
	c.stats["recv1_"+res]++
	c.pf("recv1 %d act=%s pk=%s => %s", v.id, hx11(a[:]), pk, res)
	return res
}

func (c *c11) recv2(v *vmach, act []byte) string {
	var a [ActTwoSize]byte
	copy(a[:], act)
	pk := c.pkOf(a[1:34])
	var err error
	res := ""
	if guard(func() { err = v.m.RecvActTwo(a) }) {
		res = "panic"
	} else {
		res = classifyHS(err)
	}
	c.stats["recv2_"+res]++
	c.pf("recv2 %d act=%s pk=%s => %s", v.id, hx11(a[:]), pk, res)
	return res
}

func (c *c11) recv3(v *vmach, act []byte) string {
	var a [ActThreeSize]byte
	copy(a[:], act)
	var err error
	res := ""
	if guard(func() { err = v.m.RecvActThree(a) }) {
		res = "panic"
	} else {
		res = classifyHS(err)
	}
	c.stats["recv3_"+res]++
	rp := "-"
	if res == "ok" {
		c.markSplit(v)
		if v.m.remoteStatic != nil {
			rp = c.pkOf(v.m.remoteStatic.SerializeCompressed())
		}
	}
	c.pf("recv3 %d act=%s => %s rpub=%s", v.id, hx11(a[:]), res, rp)
	return res
}

func (c *c11) keysLine(v *vmach) {
	c.pf("keys %d => sk=%s ss=%s rk=%s rs=%s | %s", v.id, kh(v.m.sendCipher.secretKey), kh(v.m.sendCipher.salt),
		kh(v.m.recvCipher.secretKey), kh(v.m.recvCipher.salt), c.obs(v))
}

// honest runs an unaltered three-act exchange with the right static key.
func (c *c11) honest() (*vmach, *vmach) {
	is, rs := c.newKey(), c.newKey()
	I := c.newMach(true, is, rs)
	R := c.newMach(false, rs, nil)
	I.peer, R.peer = R, I
	c.pf("pair %d %d", I.id, R.id)
	a1 := c.gen1(I, c.newKey())
	c.recv1(R, a1)
	a2 := c.gen2(R, c.newKey())
	c.recv2(I, a2)
	a3 := c.gen3(I)
	c.recv3(R, a3)
	c.keysLine(I)
	c.keysLine(R)
	return I, R
}

// ---- transport operations ---------------------------------------------------

// usedNonce finds, by trial decryption with the real AEAD, which (key, nonce)
// sealed ct: first the expected neighbourhood, then (a bounded number of times
// per run) every key this connection has used so far with every nonce below
// the rotation interval. "?" means: none of those.
func (c *c11) usedNonce(ct []byte, keys [][32]byte, around uint64, all [][32]byte) (string, string) {
	try := func(ks [][32]byte, ns []uint64) (string, string, bool) {
		for _, k := range ks {
			aead, err := chacha20poly1305.New(k[:])
			if err != nil {
				continue
			}
			for _, n := range ns {
				var nb [12]byte
				binary.LittleEndian.PutUint64(nb[4:], n)
				if _, err := aead.Open(nil, nb[:], ct, nil); err == nil {
					return kh(k), strconv.FormatUint(n, 10), true
				}
			}
		}
		return "", "", false
	}
	var cand []uint64
	for d := uint64(0); d < 4; d++ {
		cand = append(cand, around+d)
	}
	if around >= 1 {
		cand = append(cand, around-1)
	}
	if around >= 2 {
		cand = append(cand, around-2)
	}
	for d := uint64(0); d < 4; d++ {
		cand = append(cand, d)
	}
	if k, n, ok := try(keys, cand); ok {
		return k, n
	}
	if c.fullSearches < 60 {
		c.fullSearches++
		c.stats["nonce_full_search"]++
		var ns []uint64
		for n := uint64(0); n < keyRotationInterval+2; n++ {
			ns = append(ns, n)
		}
		if k, n, ok := try(append(append([][32]byte(nil), keys...), all...), ns); ok {
			return k, n
		}
	}
	c.stats["nonce_unidentified"]++
	return "?", "?"
}

func (c *c11) write(v *vmach, msg []byte) string {
	kb, nb := v.m.sendCipher.secretKey, v.m.sendCipher.nonce
	var err error
	res := ""
	if guard(func() { err = v.m.WriteMessage(msg) }) {
		res = "panic"
	} else {
		res = classify(err)
	}
	c.stats["write_"+res]++
	used := ""
	if res == "ok" {
		keys := [][32]byte{kb}
		if v.m.sendCipher.secretKey != kb {
			keys = append(keys, v.m.sendCipher.secretKey)
		}
		all := append([][32]byte(nil), v.keyHist...)
		if v.peer != nil {
			all = append(all, v.peer.keyHist...)
		}
		hk, hn := c.usedNonce(v.m.nextHeaderSend, keys, nb, all)
		bk, bn := c.usedNonce(v.m.nextBodySend, keys, nb, all)
		used = fmt.Sprintf(" hk=%s hn=%s bk=%s bn=%s", hk, hn, bk, bn)
		v.recs = append(v.recs, recInfo{pipe: v.out.id, start: v.out.written, n: len(v.m.nextHeaderSend) + len(v.m.nextBodySend)})
	}
	c.pf("write %d len=%d val=%s => %s%s | %s", v.id, len(msg), valOf(msg), res, used, c.obs(v))
	return res
}

func (c *c11) flush(v *vmach, budget int, eager bool) (int, string) {
	v.out.budget, v.out.eager = budget, eager
	var n int
	var err error
	res := ""
	if guard(func() { n, err = v.m.Flush(v.out) }) {
		res = "panic"
	} else {
		res = classify(err)
	}
	v.out.budget, v.out.eager = -1, false
	bs := "inf"
	if budget >= 0 {
		bs = strconv.Itoa(budget)
	}
	e := 0
	if eager {
		e = 1
	}
	c.stats["flush_"+res]++
	c.pf("flush %d budget=%s eager=%d => n=%d err=%s | %s", v.id, bs, e, n, res, c.obs(v))
	return n, res
}

// clearOp calls Conn.ClearPendingSend on a Conn around v's Machine.
func (c *c11) clearOp(v *vmach) {
	res := "ok"
	if guard(func() { (&Conn{noise: v.m}).ClearPendingSend() }) {
		res = "panic"
	}
	c.stats["clear_"+res]++
	c.pf("clear %d => %s | %s", v.id, res, c.obs(v))
}

func (c *c11) read(v *vmach, from *vpipe) string {
	var msg []byte
	var err error
	res := ""
	before := from.prov
	if guard(func() { msg, err = v.m.ReadMessage(from) }) {
		res = "panic"
	} else {
		res = classify(err)
	}
	c.stats["read_"+res]++
	if res == "ok" {
		ex := exactRec(v, before[:len(before)-len(from.prov)])
		v.nRead++
		c.pf("read %d from=%d => ok len=%d val=%s exact=%d | %s pl=%d", v.id, from.id, len(msg), valOf(msg), ex, c.obs(v), len(from.buf))
	} else {
		c.pf("read %d from=%d => %s | %s pl=%d", v.id, from.id, res, c.obs(v), len(from.buf))
	}
	return res
}

// readSplit uses ReadHeader + ReadBody (the way lnd's peer reads).
func (c *c11) readSplit(v *vmach, from *vpipe) string {
	var n uint32
	var err error
	res := ""
	before := from.prov
	if guard(func() { n, err = v.m.ReadHeader(from) }) {
		res = "panic"
	} else {
		res = classify(err)
	}
	c.stats["rhead_"+res]++
	if res != "ok" {
		c.pf("rhead %d from=%d => %s | %s pl=%d", v.id, from.id, res, c.obs(v), len(from.buf))
		return res
	}
	c.pf("rhead %d from=%d => ok n=%d | %s pl=%d", v.id, from.id, n, c.obs(v), len(from.buf))
	v.hdrProv = append([]uint64(nil), before[:len(before)-len(from.prov)]...)
	before = from.prov
	var msg []byte
	buf := make([]byte, n)
	if guard(func() { msg, err = v.m.ReadBody(from, buf) }) {
		res = "panic"
	} else {
		res = classify(err)
	}
	c.stats["rbody_"+res]++
	if res == "ok" {
		ex := exactRec(v, append(v.hdrProv, before[:len(before)-len(from.prov)]...))
		v.nRead++
		c.pf("rbody %d from=%d n=%d => ok len=%d val=%s exact=%d | %s pl=%d", v.id, from.id, n, len(msg), valOf(msg), ex, c.obs(v), len(from.buf))
	} else {
		c.pf("rbody %d from=%d n=%d => %s | %s pl=%d", v.id, from.id, n, res, c.obs(v), len(from.buf))
	}
	return res
}

// ---- pipe tampering ---------------------------------------------------------

// install replaces the unread bytes of p unless the first position whose
// origin changes carries the same value as before (a 1/256 coincidence the
// symbolic model cannot see); reports whether the change was made.
func (c *c11) install(p *vpipe, nb []byte, np []uint64) bool {
	for i := 0; i < len(nb) && i < len(p.buf); i++ {
		if np[i] != p.prov[i] {
			if nb[i] == p.buf[i] {
				c.stats["t_skipped_coincidence"]++
				return false
			}
			break
		}
	}
	p.buf, p.prov = nb, np
	return true
}

func (c *c11) corrupt(p *vpipe, off int, x byte) bool {
	if off < 0 || off >= len(p.buf) || x == 0 {
		return false
	}
	nb := append([]byte(nil), p.buf...)
	np := append([]uint64(nil), p.prov...)
	nb[off] ^= x
	c.nJunk++
	np[off] = 1<<63 | c.nJunk
	if !c.install(p, nb, np) {
		return false
	}
	c.stats["t_corrupt"]++
	c.pf("corrupt %d off=%d xor=%d", p.id, off, x)
	return true
}

func (c *c11) trunc(p *vpipe, keep int) bool {
	if keep < 0 || keep > len(p.buf) {
		return false
	}
	p.buf = append([]byte(nil), p.buf[:keep]...)
	p.prov = append([]uint64(nil), p.prov[:keep]...)
	c.stats["t_trunc"]++
	c.pf("trunc %d keep=%d", p.id, keep)
	return true
}

func (c *c11) del(p *vpipe, at, n int) bool {
	if at < 0 || n < 0 || at+n > len(p.buf) {
		return false
	}
	nb := append(append([]byte(nil), p.buf[:at]...), p.buf[at+n:]...)
	np := append(append([]uint64(nil), p.prov[:at]...), p.prov[at+n:]...)
	if !c.install(p, nb, np) {
		return false
	}
	c.stats["t_del"]++
	c.pf("del %d at=%d n=%d", p.id, at, n)
	return true
}

func (c *c11) inject(p *vpipe, at int, src *vpipe, from, n int) bool {
	if at < 0 || at > len(p.buf) || from < 0 || n < 0 || from+n > len(src.hist) {
		return false
	}
	nb := append([]byte(nil), p.buf[:at]...)
	nb = append(nb, src.hist[from:from+n]...)
	nb = append(nb, p.buf[at:]...)
	np := append([]uint64(nil), p.prov[:at]...)
	np = append(np, src.hprov[from:from+n]...)
	np = append(np, p.prov[at:]...)
	if !c.install(p, nb, np) {
		return false
	}
	c.stats["t_inject"]++
	c.pf("inject %d at=%d src=%d from=%d n=%d", p.id, at, src.id, from, n)
	return true
}

// ---------------------------------------------------------------------------
// generators
// ---------------------------------------------------------------------------

var sizeBoundaries = []int{0, 1, 2, 15, 16, 17, 18, 31, 32, 33, 255, 256, 65534, 65535}

func (c *c11) randMsg(n int) []byte {
	b := make([]byte, n)
	c.rng.Read(b)
	return b
}

func (c *c11) pickSize(idx int, bigP float64) int {
	near := idx%500 >= 497 || idx%500 <= 2
	r := c.rng.Float64()
	switch {
	case near && r < 0.25:
		return []int{0, 65535, 65534, 17, 1}[c.rng.Intn(5)]
	case r < bigP:
		return []int{65534, 65535, 65535 - c.rng.Intn(40), 1 + c.rng.Intn(65535)}[c.rng.Intn(4)]
	case r < 0.35:
		return sizeBoundaries[c.rng.Intn(12)]
	default:
		return c.rng.Intn(300)
	}
}

// budgetsFor returns boundary-biased write budgets for a pending record of
// rem bytes (header included if hl > 0).
func (c *c11) pickBudget(v *vmach) int {
	hl, bl := len(v.m.nextHeaderSend), len(v.m.nextBodySend)
	rem := hl + bl
	cands := []int{0, 1, hl - 1, hl, hl + 1, rem - 17, rem - 16, rem - 15, rem - 1, rem, rem + 1, hl + 16, hl + 17,
		c.rng.Intn(rem + 2), c.rng.Intn(rem + 2), c.rng.Intn(rem + 2)}
	b := cands[c.rng.Intn(len(cands))]
	if b < 0 {
		b = 0
	}
	return b
}

// sendOne buffers msg and pushes it out completely with a random flush pattern.
func (c *c11) sendOne(v *vmach, msg []byte) {
	if c.write(v, msg) != "ok" {
		return
	}
	if c.rng.Float64() < 0.35 {
		k := 1 + c.rng.Intn(5)
		for i := 0; i < k && len(v.m.nextHeaderSend)+len(v.m.nextBodySend) > 0; i++ {
			c.flush(v, c.pickBudget(v), c.rng.Intn(3) == 0)
			if c.rng.Intn(25) == 0 && len(v.m.nextHeaderSend)+len(v.m.nextBodySend) > 0 {
				// a second WriteMessage while unflushed must be refused
				c.write(v, c.randMsg(c.rng.Intn(4)))
			}
		}
	}
	if len(v.m.nextHeaderSend)+len(v.m.nextBodySend) > 0 || c.rng.Intn(4) != 0 {
		c.flush(v, -1, false)
	}
	if c.rng.Intn(15) == 0 {
		c.flush(v, []int{-1, 0, 5}[c.rng.Intn(3)], c.rng.Intn(2) == 0)
	}
}

func (c *c11) fragger() func() int {
	return func() int {
		switch c.rng.Intn(6) {
		case 0:
			return 1
		case 1:
			return 2
		case 2:
			return 17
		case 3:
			return 1 + c.rng.Intn(2000)
		}
		return 0
	}
}

// caseStream: n messages in each direction, interleaved, random flush patterns.
func (c *c11) caseStream(n int, bigP float64) {
	c.startCase("stream")
	I, R := c.honest()
	I.out.frag, R.out.frag = c.fragger(), c.fragger()
	type dir struct {
		w, r       *vmach
		sent, recv int
	}
	ds := []*dir{{w: I, r: R}, {w: R, r: I}}
	for ds[0].recv < n || ds[1].recv < n {
		d := ds[c.rng.Intn(2)]
		inflight := d.sent - d.recv
		if d.sent < n && (inflight == 0 || (inflight < 4 && c.rng.Intn(2) == 0)) {
			c.sendOne(d.w, c.randMsg(c.pickSize(d.sent, bigP)))
			d.sent++
		} else if inflight > 0 {
			if c.rng.Intn(3) == 0 {
				c.readSplit(d.r, d.w.out)
			} else {
				c.read(d.r, d.w.out)
			}
			d.recv++
		}
	}
	// one more read on the drained pipes: EOF, state untouched
	c.read(R, I.out)
	c.read(I, R.out)
	c.endCase()
}

// duplexFrag hands out inbound bytes in small PRNG-chosen fragments.
func (c *c11) duplexFrag() func() int {
	return func() int {
		return []int{1, 1, 2, 2, 3, 5, 16, 17, 18, 19, 1 + c.rng.Intn(40), 1 + c.rng.Intn(3000), 0}[c.rng.Intn(13)]
	}
}

// caseDuplex: both directions active on the same pair of Machines; every read
// receives its record in fragments, and between fragments the READING machine
// buffers and (partially) flushes messages of its own in the other direction,
// the way lnd's readHandler and writeHandler share one Machine.
func (c *c11) caseDuplex(n int, bigP float64) {
	c.startCase("duplex")
	I, R := c.honest()
	ms := [2]*vmach{I, R}
	var sent, recvd [2]int // index = writer
	pending := func(v *vmach) bool { return len(v.m.nextHeaderSend)+len(v.m.nextBodySend) > 0 }
	for recvd[0] < n || recvd[1] < n {
		d := c.rng.Intn(2)
		w, r := ms[d], ms[1-d]
		if sent[d] == recvd[d] {
			if sent[d] >= n {
				continue
			}
			before := c.stats["write_ok"]
			c.sendOne(w, c.randMsg(c.pickSize(sent[d], bigP)))
			sent[d] += c.stats["write_ok"] - before
			continue
		}
		// r reads w's next record in fragments; in between r works on its own sending side
		acts := 0
		w.out.frag = c.duplexFrag()
		w.out.hook = func() {
			if acts >= 4 || c.rng.Intn(3) != 0 {
				return
			}
			acts++
			c.midMach = r
			defer func() { c.midMach = nil }()
			if !pending(r) {
				if c.write(r, c.randMsg(c.pickSize(sent[1-d], bigP))) == "ok" {
					sent[1-d]++
				}
				if c.rng.Intn(2) == 0 {
					return
				}
			}
			if c.rng.Intn(3) == 0 {
				c.flush(r, -1, false)
			} else {
				c.flush(r, c.pickBudget(r), c.rng.Intn(3) == 0)
			}
		}
		if c.rng.Intn(3) == 0 {
			c.readSplit(r, w.out)
		} else {
			c.read(r, w.out)
		}
		w.out.frag, w.out.hook = nil, nil
		recvd[d]++
		if pending(r) {
			c.flush(r, -1, false)
		}
	}
	c.read(R, I.out)
	c.read(I, R.out)
	c.endCase()
}

// casePool: several connections of one process at once. All Machines share the two
// package-level sync.Pools of send buffers; records of different connections are pending
// (buffered, half written) at the same time, buffers travel from one connection to the
// next, ClearPendingSend is called the way lnd's writeHandler does (after every completed
// write) and, rarely, on a half-written record (the stream is dead afterwards). Every
// completely flushed record is read by the peer.
func (c *c11) casePool(pairs, steps int, bigP float64) {
	c.startCase("pool")
	var ms []*vmach
	for i := 0; i < pairs; i++ {
		I, R := c.honest()
		ms = append(ms, I, R)
	}
	pending := func(v *vmach) bool { return len(v.m.nextHeaderSend)+len(v.m.nextBodySend) > 0 }
	inflight := map[*vmach]int{}
	dead := map[*vmach]bool{}
	sent := map[*vmach]int{}
	for s := 0; s < steps; s++ {
		np := 0
		for _, v := range ms {
			if pending(v) {
				np++
			}
		}
		if np >= 2 {
			c.stats["pool_ops_with_2_pending"]++
		}
		v := ms[c.rng.Intn(len(ms))]
		r := c.rng.Float64()
		switch {
		case inflight[v.peer] > 0 && r < 0.30:
			// v reads the next complete record of its peer (possibly while v itself has a
			// half-written record of its own)
			var res string
			if c.rng.Intn(3) == 0 {
				res = c.readSplit(v, v.peer.out)
			} else {
				res = c.read(v, v.peer.out)
			}
			inflight[v.peer]--
			if res != "ok" {
				dead[v.peer] = true
				inflight[v.peer] = 0
			}
		case dead[v]:
			continue
		case pending(v) && r < 0.04:
			// dropping a half-written record: nothing of this direction can be read afterwards
			c.clearOp(v)
			dead[v] = true
			// the next record goes out all the same (lnd would disconnect); the peer's read fails
			c.write(v, c.randMsg(c.rng.Intn(20)))
			c.flush(v, -1, false)
			if inflight[v] == 0 {
				c.read(v.peer, v.out)
			}
		case pending(v) && r < 0.08:
			c.write(v, c.randMsg(c.rng.Intn(4))) // refused
		case pending(v):
			before := pending(v)
			if c.rng.Intn(4) == 0 {
				c.flush(v, -1, false)
			} else {
				c.flush(v, c.pickBudget(v), c.rng.Intn(3) == 0)
			}
			if before && !pending(v) {
				inflight[v]++
				if c.rng.Intn(3) == 0 {
					c.clearOp(v)
				}
			}
		default:
			if c.write(v, c.randMsg(c.pickSize(sent[v], bigP))) != "ok" {
				continue
			}
			sent[v]++
			if c.rng.Intn(3) == 0 {
				c.flush(v, c.pickBudget(v), c.rng.Intn(3) == 0)
				if !pending(v) {
					inflight[v]++
				}
			}
		}
	}
	// drain: finish every pending record, read everything that is readable
	for _, v := range ms {
		if dead[v] {
			continue
		}
		if pending(v) {
			c.flush(v, -1, false)
			inflight[v]++
		}
		c.clearOp(v)
	}
	for _, v := range ms {
		for ; inflight[v] > 0 && !dead[v]; inflight[v]-- {
			if c.read(v.peer, v.out) != "ok" {
				break
			}
		}
	}
	c.endCase()
}

// caseFlush: focused partial-write patterns for one message length.
func (c *c11) caseFlush(l int) {
	c.startCase("flush")
	I, R := c.honest()
	total := encHeaderSize + l + macSize
	cuts := []int{0, 1, 2, 16, 17, 18, 19, 20, 33, 34, 35, encHeaderSize + l - 1, encHeaderSize + l, encHeaderSize + l + 1,
		encHeaderSize + l + 15, total - 1, total, total + 1}
	ws := []*vmach{I, R}
	k := 0
	for _, cut := range cuts {
		if cut < 0 || cut > total+1 {
			continue
		}
		for _, eager := range []bool{false, true} {
			v := ws[k%2]
			k++
			if c.write(v, c.randMsg(l)) != "ok" {
				continue
			}
			c.flush(v, cut, eager)
			for i := 0; i < 3 && len(v.m.nextHeaderSend)+len(v.m.nextBodySend) > 0; i++ {
				if c.rng.Intn(2) == 0 {
					c.flush(v, c.pickBudget(v), c.rng.Intn(2) == 0)
				}
			}
			c.flush(v, -1, false)
			c.flush(v, 0, eager)
			peer := ws[k%2]
			c.read(peer, v.out)
		}
	}
	// oversize and not-flushed refusals
	c.write(I, make([]byte, 65536))
	c.write(I, c.randMsg(3))
	c.flush(I, 7, false)
	c.write(I, c.randMsg(3))
	c.flush(I, -1, false)
	c.read(R, I.out)
	c.endCase()
}

// positions returns all offsets < total (thorough) or a boundary-biased sample.
func (c *c11) positions(total int, marks []int, extra int) []int {
	if c.thorough && total <= 400 {
		ps := make([]int, total)
		for i := range ps {
			ps[i] = i
		}
		return ps
	}
	seen := map[int]bool{}
	var ps []int
	add := func(p int) {
		if p >= 0 && p < total && !seen[p] {
			seen[p] = true
			ps = append(ps, p)
		}
	}
	for _, m := range marks {
		add(m - 1)
		add(m)
		add(m + 1)
	}
	if c.thorough {
		extra *= 8
	}
	for i := 0; i < extra; i++ {
		add(c.rng.Intn(total))
	}
	return ps
}

// caseStreamTamper: a session advanced by `pre` empty messages per direction,
// then messages of the given sizes in flight; every tamper runs on a clone.
func (c *c11) caseStreamTamper(pre int, sizes []int, mode string) {
	c.startCase("tamper-" + mode)
	I, R := c.honest()
	I.out.keepHist, R.out.keepHist = true, true
	c.pf("hist %d", I.id)
	c.pf("hist %d", R.id)
	for i := 0; i < pre; i++ {
		// distinct prefill messages: a replayed, reordered or dropped one is visible
		c.write(I, []byte{byte(i >> 8), byte(i), 0xA1})
		c.flush(I, -1, false)
		c.read(R, I.out)
		c.write(R, []byte{byte(i >> 8), byte(i), 0xB2})
		c.flush(R, -1, false)
		c.read(I, R.out)
	}
	// a couple of earlier messages to replay, and traffic in the other direction to reflect
	early := len(I.out.hist)
	c.sendOne(I, c.randMsg(sizes[0]))
	c.read(R, I.out)
	c.write(R, c.randMsg(sizes[0]))
	c.flush(R, -1, false)
	c.write(R, c.randMsg(sizes[len(sizes)-1]))
	c.flush(R, -1, false)
	base := len(I.out.hist)
	var marks []int
	off := 0
	for _, s := range sizes {
		c.write(I, c.randMsg(s))
		c.flush(I, -1, false)
		marks = append(marks, off, off+encHeaderSize, off+encHeaderSize+s)
		off += encHeaderSize + s + macSize
	}
	total := off
	marks = append(marks, total)
	rec := func(i int) (int, int) { // offset and length of record i
		o := 0
		for j := 0; j < i; j++ {
			o += encHeaderSize + sizes[j] + macSize
		}
		return o, encHeaderSize + sizes[i] + macSize
	}
	try := func(f func(p *vpipe, ni, nr *vmach)) {
		ni, nr := c.clonePair(I, R)
		f(ni.out, ni, nr)
		for k := 0; k < len(sizes)+2; k++ {
			var res string
			if c.rng.Intn(2) == 0 {
				res = c.readSplit(nr, ni.out)
			} else {
				res = c.read(nr, ni.out)
			}
			if res == "eof" {
				break
			}
		}
	}
	switch mode {
	case "corrupt":
		for _, p := range c.positions(total, marks, 6) {
			p := p
			x := byte(1 << uint(c.rng.Intn(8)))
			if c.rng.Intn(3) == 0 {
				x = byte(1 + c.rng.Intn(255))
			}
			try(func(pp *vpipe, ni, nr *vmach) { c.corrupt(pp, p, x) })
		}
	case "trunc":
		for _, p := range c.positions(total, marks, 6) {
			p := p
			try(func(pp *vpipe, ni, nr *vmach) { c.trunc(pp, p) })
		}
	case "del":
		for _, p := range c.positions(total, marks, 3) {
			p := p
			for _, n := range []int{1, encHeaderSize, macSize} {
				n := n
				try(func(pp *vpipe, ni, nr *vmach) { c.del(pp, p, n) })
			}
		}
	case "splice":
		o0, l0 := rec(0)
		o1, l1 := rec(1)
		// replay: an already delivered record in front
		try(func(pp *vpipe, ni, nr *vmach) { c.inject(pp, 0, ni.out, early, base-early) })
		// duplicate: the first record twice
		try(func(pp *vpipe, ni, nr *vmach) { c.inject(pp, o0+l0, ni.out, base+o0, l0) })
		// duplicate header only
		try(func(pp *vpipe, ni, nr *vmach) { c.inject(pp, 0, ni.out, base+o0, encHeaderSize) })
		// reorder: second record before the first
		try(func(pp *vpipe, ni, nr *vmach) {
			if c.del(pp, o1, l1) {
				c.inject(pp, 0, ni.out, base+o1, l1)
			}
		})
		// drop the first record entirely
		try(func(pp *vpipe, ni, nr *vmach) { c.del(pp, o0, l0) })
		// header of record 1 with the body of record 0
		try(func(pp *vpipe, ni, nr *vmach) {
			if c.del(pp, o0, encHeaderSize) {
				c.inject(pp, 0, ni.out, base+o1, encHeaderSize)
			}
		})
		// body of record 1 under the header of record 0
		try(func(pp *vpipe, ni, nr *vmach) {
			if c.del(pp, o0+encHeaderSize, l0-encHeaderSize) {
				c.inject(pp, o0+encHeaderSize, ni.out, base+o1+encHeaderSize, l1-encHeaderSize)
			}
		})
		// reflection: the peer's own ciphertext in front / instead
		try(func(pp *vpipe, ni, nr *vmach) { c.inject(pp, 0, nr.out, len(nr.out.hist)-len(nr.out.buf), len(nr.out.buf)) })
		try(func(pp *vpipe, ni, nr *vmach) {
			c.trunc(pp, 0)
			c.inject(pp, 0, nr.out, len(nr.out.hist)-len(nr.out.buf), len(nr.out.buf))
		})
		// pure reflection: reader is handed the pipe it wrote itself
		{
			ni, nr := c.clonePair(I, R)
			_ = ni
			c.read(nr, nr.out)
			c.read(nr, nr.out)
		}
		// replay of the very first record of the session (older key epoch when pre >= 500)
		firstRec := encHeaderSize + macSize + sizes[0]
		if pre > 0 {
			firstRec = encHeaderSize + macSize + 3
		}
		try(func(pp *vpipe, ni, nr *vmach) { c.inject(pp, 0, ni.out, 0, firstRec) })
		if pre > 2 {
			// an old record from the middle of the prefill
			try(func(pp *vpipe, ni, nr *vmach) { c.inject(pp, 0, ni.out, (pre/2)*firstRec, firstRec) })
		}
		// random splices
		for i := 0; i < 6; i++ {
			try(func(pp *vpipe, ni, nr *vmach) {
				src := ni.out
				if c.rng.Intn(3) == 0 {
					src = nr.out
				}
				n := 1 + c.rng.Intn(40)
				if n > len(src.hist) {
					n = len(src.hist)
				}
				c.inject(pp, c.rng.Intn(total+1), src, c.rng.Intn(len(src.hist)-n+1), n)
			})
		}
	}
	// control: the untouched clone delivers everything
	try(func(pp *vpipe, ni, nr *vmach) {})
	c.endCase()
}

// caseDesync: after a failed read the stream is out of step; a caller that
// keeps reading can be handed the length prefix of the next record as data
// when the damaged record was the two bytes 0x0002. Reproduced for the model
// correspondence (lnd drops the connection on the first error).
func (c *c11) caseDesync() {
	c.startCase("desync")
	I, R := c.honest()
	c.write(I, []byte{0, 2})
	c.flush(I, -1, false)
	c.write(I, c.randMsg(c.rng.Intn(300)))
	c.flush(I, -1, false)
	c.write(I, c.randMsg(c.rng.Intn(30)))
	c.flush(I, -1, false)
	c.corrupt(I.out, c.rng.Intn(encHeaderSize), 1)
	for i := 0; i < 5; i++ {
		c.read(R, I.out)
	}
	c.endCase()
}

// ---- handshake cases --------------------------------------------------------

func (c *c11) flipAct(act []byte, pos int) []byte {
	b := append([]byte(nil), act...)
	x := byte(1 << uint(c.rng.Intn(8)))
	if c.rng.Intn(3) == 0 {
		x = byte(1 + c.rng.Intn(255))
	}
	b[pos] ^= x
	return b
}

// caseHSWrongKey: initiator dials a key that is not the responder's; every
// step is still executed so the model has to track the diverging states.
func (c *c11) caseHSWrongKey(variant int) {
	c.startCase("hs-wrongkey")
	is, rs := c.newKey(), c.newKey()
	var target *kinfo
	switch variant % 3 {
	case 0:
		target = c.newKey()
	case 1:
		target = is
	default:
		// the responder's key with the other parity (its negation)
		neg := new(btcec.ModNScalar).Set(&rs.priv.Key)
		neg.Negate()
		priv := btcec.PrivKeyFromScalar(neg)
		ser := priv.PubKey().SerializeCompressed()
		c.nKey++
		target = &kinfo{id: c.nKey, priv: priv, pub: ser}
		c.keys[string(ser)] = target
		c.pf("key %d pub=%s", target.id, hx11(ser))
	}
	I := c.newMach(true, is, target)
	R := c.newMach(false, rs, nil)
	I.peer, R.peer = R, I
	c.pf("pair %d %d", I.id, R.id)
	a1 := c.gen1(I, c.newKey())
	c.recv1(R, a1)
	a2 := c.gen2(R, c.newKey())
	c.recv2(I, a2)
	a3 := c.gen3(I)
	c.recv3(R, a3)
	c.endCase()
}

// caseHSTamper: every act altered at the chosen positions, each on a clone of
// the machine that is about to receive it.
func (c *c11) caseHSTamper() {
	c.startCase("hs-tamper")
	is, rs := c.newKey(), c.newKey()
	I := c.newMach(true, is, rs)
	R := c.newMach(false, rs, nil)
	I.peer, R.peer = R, I
	c.pf("pair %d %d", I.id, R.id)
	marks12 := []int{0, 1, 2, 33, 34, 49}
	// version byte: neighbouring and extreme values
	withVer := func(act []byte, v byte) []byte {
		b := append([]byte(nil), act...)
		b[0] = v
		return b
	}
	vers := []byte{1, 2, 0x7f, 0x80, 0xff}
	a1 := c.gen1(I, c.newKey())
	var alt1 [][]byte
	for _, p := range c.positions(ActOneSize, marks12, 4) {
		alt1 = append(alt1, c.flipAct(a1, p))
	}
	for _, v := range vers {
		alt1 = append(alt1, withVer(a1, v))
	}
	for _, t := range alt1 {
		r := c.clone(R)
		if c.recv1(r, t) == "ok" {
			// an altered act one got through: see whether the exchange can complete
			i := c.clone(I)
			c.recv2(i, c.gen2(r, c.newKey()))
			c.recv3(r, c.gen3(i))
		}
	}
	c.recv1(R, a1)
	a2 := c.gen2(R, c.newKey())
	for _, p := range c.positions(ActTwoSize, marks12, 4) {
		c.recv2(c.clone(I), c.flipAct(a2, p))
	}
	for _, v := range vers {
		c.recv2(c.clone(I), withVer(a2, v))
	}
	c.recv2(I, a2)
	a3 := c.gen3(I)
	for _, p := range c.positions(ActThreeSize, []int{0, 1, 2, 33, 34, 49, 50, 65}, 5) {
		c.recv3(c.clone(R), c.flipAct(a3, p))
	}
	for _, v := range vers {
		c.recv3(c.clone(R), withVer(a3, v))
	}
	// a machine that saw a bad act three stays unusable
	bad := c.clone(R)
	c.recv3(bad, c.flipAct(a3, 60))
	c.recv3(bad, a3)
	c.recv3(R, a3)
	c.keysLine(I)
	c.keysLine(R)
	c.sendOne(I, c.randMsg(5))
	c.read(R, I.out)
	c.endCase()
}

// caseHSMix: two sessions towards the same responder key; acts are replayed,
// reflected and spliced across them.
func (c *c11) caseHSMix() {
	c.startCase("hs-mix")
	is1, is2, rs := c.newKey(), c.newKey(), c.newKey()
	I1 := c.newMach(true, is1, rs)
	R1 := c.newMach(false, rs, nil)
	I1.peer, R1.peer = R1, I1
	c.pf("pair %d %d", I1.id, R1.id)
	I2 := c.newMach(true, is2, rs)
	R2 := c.newMach(false, rs, nil)
	I2.peer, R2.peer = R2, I2
	c.pf("pair %d %d", I2.id, R2.id)

	a1 := c.gen1(I1, c.newKey())
	b1 := c.gen1(I2, c.newKey())
	// reflection of act one back to its author as act two
	c.recv2(c.clone(I1), a1)
	// splice: key of one session with the tag of the other
	sp := append(append([]byte(nil), a1[:34]...), b1[34:]...)
	c.recv1(c.clone(R1), sp)
	// replay of act one to a second responder instance is accepted at this stage
	R1b := c.clone(R1)
	c.recv1(R1b, a1)
	c.recv1(R1, a1)
	c.recv1(R2, b1)
	a2 := c.gen2(R1, c.newKey())
	a2b := c.gen2(R1b, c.newKey())
	b2 := c.gen2(R2, c.newKey())
	// act two of the other session / of the replayed responder
	c.recv2(c.clone(I1), b2)
	c.recv2(c.clone(I2), a2)
	sp2 := append(append([]byte(nil), a2[:34]...), b2[34:]...)
	c.recv2(c.clone(I1), sp2)
	// act two fed to a fresh responder as act one
	Rf := c.newMach(false, rs, nil)
	c.recv1(Rf, a2)
	c.recv2(I1, a2)
	c.recv2(I2, b2)
	a3 := c.gen3(I1)
	b3 := c.gen3(I2)
	// the replayed responder never completes with the real act three
	c.recv3(R1b, a3)
	_ = a2b
	// act three across sessions and spliced
	c.recv3(c.clone(R1), b3)
	c.recv3(c.clone(R2), a3)
	c.recv3(c.clone(R1), append(append([]byte(nil), a3[:50]...), b3[50:]...))
	c.recv3(c.clone(R1), append(append([]byte(nil), b3[:50]...), a3[50:]...))
	// act three twice
	R1c := c.clone(R1)
	c.recv3(R1c, a3)
	c.recv3(R1c, a3)
	c.recv3(R1, a3)
	c.recv3(R2, b3)
	for _, v := range []*vmach{I1, R1, I2, R2} {
		c.keysLine(v)
	}
	c.sendOne(I1, c.randMsg(9))
	c.sendOne(I2, c.randMsg(9))
	// cross-session delivery must fail, own session must work
	x1, y1 := c.clonePair(I1, R1)
	x2, _ := c.clonePair(I2, R2)
	c.read(y1, x2.out)
	_ = x1
	c.read(R1, I1.out)
	c.read(R2, I2.out)
	c.endCase()
}

// caseHSOrder: acts called out of order (Go dereferences a nil key: panic) and
// an act three whose first part decrypts to something that is not a point.
func (c *c11) caseHSOrder() {
	c.startCase("hs-order")
	is, rs := c.newKey(), c.newKey()
	I := c.newMach(true, is, rs)
	R := c.newMach(false, rs, nil)
	I.peer, R.peer = R, I
	c.pf("pair %d %d", I.id, R.id)
	// responder: act two generated / received before act one was seen
	c.gen2(c.clone(R), c.newKey())
	a1 := c.gen1(I, c.newKey())
	c.recv2(c.clone(R), a1)
	// initiator: act three before act two
	c.gen3(c.clone(I))
	c.recv1(R, a1)
	// responder: act three before its own act two
	a2probe := c.gen2(c.clone(R), c.newKey())
	_ = a2probe
	a2 := c.gen2(R, c.newKey())
	c.recv2(I, a2)
	// act three carrying 33 bytes that are no curve point, correctly sealed
	bad := c.clone(I)
	var junk [33]byte
	junk[0] = 0x05
	c.rng.Read(junk[1:])
	var ct []byte
	if !guard(func() { ct = bad.m.EncryptAndHash(junk[:]) }) {
		act := make([]byte, ActThreeSize)
		copy(act[1:], ct)
		c.rng.Read(act[50:])
		c.pf("gen3bad %d => ok act=%s", bad.id, hx11(act))
		c.recv3(c.clone(R), act)
	}
	a3 := c.gen3(I)
	c.recv3(R, a3)
	c.keysLine(I)
	c.keysLine(R)
	c.endCase()
}

// ---- Dial / Listener.doHandshake / Conn --------------------------------------

type connRes struct {
	conn *Conn
	err  error
}

// connWriteOp performs Conn.Write(msg) with the given writer budget and prints
// the `cwrite` line (record lengths and content ids of the chunks).
func (c *c11) connWriteOp(name string, w *Conn, p *vpipe, msg []byte, budget int) error {
	n := len(msg)
	p.budget = budget
	var wn int
	var werr error
	if guard(func() { wn, werr = w.Write(msg) }) {
		werr = errors.New("verif: panic in Conn.Write")
	}
	p.budget = -1
	var chunks []string
	for o := 0; o < n || o == 0; o += 65535 {
		e := o + 65535
		if e > n {
			e = n
		}
		chunks = append(chunks, fmt.Sprintf("%d:%s", e-o, valOf(msg[o:e])))
		if n == 0 {
			break
		}
	}
	bs := "inf"
	if budget >= 0 {
		bs = strconv.Itoa(budget)
	}
	c.pf("cwrite %s budget=%s chunks=%s => n=%d err=%s pl=%d", name, bs, strings.Join(chunks, ","), wn, classify(werr), len(p.buf))
	c.stats["cwrite_"+classify(werr)]++
	return werr
}

// caseConn runs the real Dial and Listener.doHandshake against each other over
// blocking pipes, optionally damaging the byte stream in flight.
func (c *c11) caseConn(tamper string, wrongKey bool) {
	c.startCase("conn")
	is, rs, ie, re := c.newKey(), c.newKey(), c.newKey(), c.newKey()
	target := rs
	if wrongKey {
		target = c.newKey()
	}
	i2r, r2i := newPipe(1), newPipe(2)
	i2r.block, r2i.block = true, true
	desc, pk := "none", "-"
	if tamper != "none" {
		// tamper = flip|cut ; direction and offset chosen here
		p, name, size, eph := i2r, "i2r", ActOneSize+ActThreeSize, ie
		if c.rng.Intn(3) == 0 {
			p, name, size, eph = r2i, "r2i", ActTwoSize, re
		}
		off := c.rng.Intn(size)
		if tamper == "flipver" {
			tamper = "flip"
			off = 0
			if name == "i2r" && c.rng.Intn(2) == 0 {
				off = ActOneSize
			}
		} else if c.rng.Intn(4) == 0 {
			off = []int{0, 1, 33, 34, 49, 50, 51, 99, 100, 115}[c.rng.Intn(10)] % size
		}
		if tamper == "flip" {
			p.flipAt, p.flipXor = off, byte(1<<uint(c.rng.Intn(8)))
			if off == 0 || (name == "i2r" && off == ActOneSize) {
				p.flipXor = []byte{1, 1, 2, 0x80, 0xff}[c.rng.Intn(5)]
			}
			desc = fmt.Sprintf("flip:%s:%d:%d", name, off, p.flipXor)
			if off >= 1 && off <= 33 {
				kb := append([]byte(nil), eph.pub...)
				kb[off-1] ^= p.flipXor
				pk = c.pkOf(kb)
			}
		} else {
			p.cutAt = off
			desc = fmt.Sprintf("cut:%s:%d", name, off)
		}
	}
	// the acts reach the other side in fragments (a first Read may return a single
	// byte, the rest comes with later Reads): io.ReadFull has to assemble them.
	// Split points are drawn up front; each pipe is read by one goroutine only.
	fragmented := 0
	if c.rng.Intn(10) < 7 {
		fragmented = 1
		for _, p := range []*vpipe{i2r, r2i} {
			var plan []int
			plan = append(plan, []int{1, 1, 2, 33, 49, 50, 65, 1 + c.rng.Intn(65)}[c.rng.Intn(8)])
			for k := 0; k < 200; k++ {
				plan = append(plan, []int{1, 2, 5, 16, 17, 33, 34, 49, 50, 0, 1 + c.rng.Intn(66)}[c.rng.Intn(11)])
			}
			at := 0
			p.frag = func() int {
				if at >= len(plan) {
					return 0
				}
				at++
				return plan[at-1]
			}
		}
	}
	// deterministic ephemeral keys: the initiator draws first
	oldGen := ephemeralGen
	queue := []*btcec.PrivateKey{ie.priv, re.priv}
	var qmu sync.Mutex
	ephemeralGen = func() (*btcec.PrivateKey, error) {
		qmu.Lock()
		defer qmu.Unlock()
		k := queue[0]
		queue = queue[1:]
		return k, nil
	}
	defer func() { ephemeralGen = oldGen }()

	l := &Listener{
		localStatic:   &keychain.PrivKeyECDH{PrivKey: rs.priv},
		shouldAccept:  DisabledBanClosure,
		handshakeSema: make(chan struct{}, 1),
		conns:         make(chan maybeConn, 1),
		quit:          make(chan struct{}),
	}
	go func() {
		defer func() {
			if r := recover(); r != nil {
				l.conns <- maybeConn{err: errors.New("verif: panic in doHandshake")}
			}
		}()
		l.doHandshake(&vconn{r: i2r, w: r2i})
	}()

	tpub, _ := btcec.ParsePubKey(target.pub)
	addr := &lnwire.NetAddress{IdentityKey: tpub, Address: &net.TCPAddr{IP: net.IPv4(127, 0, 0, 1), Port: 9735}}
	dch := make(chan connRes, 1)
	go func() {
		defer func() {
			if r := recover(); r != nil {
				dch <- connRes{nil, errors.New("verif: panic in Dial")}
			}
		}()
		conn, err := Dial(&keychain.PrivKeyECDH{PrivKey: is.priv}, addr, time.Second,
			func(network, address string, timeout time.Duration) (net.Conn, error) {
				return &vconn{r: r2i, w: i2r}, nil
			})
		dch <- connRes{conn, err}
	}()
	d := <-dch
	if d.err != nil {
		// a failed dial closes its side; the listener then sees EOF
		i2r.closePipe()
		r2i.closePipe()
	}
	var a maybeConn
	select {
	case a = <-l.conns:
	case <-time.After(20 * time.Second):
		a = maybeConn{err: errors.New("verif: listener stuck")}
		i2r.closePipe()
		r2i.closePipe()
	}
	dres, ares := classifyConn(d.err), classifyConn(a.err)
	if d.err != nil && strings.Contains(d.err.Error(), "verif: panic") {
		dres = "panic"
	}
	if a.err != nil && strings.Contains(a.err.Error(), "verif: panic") {
		ares = "panic"
	}
	if a.err != nil && strings.Contains(a.err.Error(), "listener stuck") {
		ares = "stuck"
	}
	// what travelled, for the model: the three acts as received
	rp := "-"
	if a.conn != nil && a.conn.RemotePub() != nil {
		rp = c.pkOf(a.conn.RemotePub().SerializeCompressed())
	}
	c.stats["conn_dial_"+dres]++
	c.stats["conn_accept_"+ares]++
	i2r.frag, r2i.frag = nil, nil
	c.stats[fmt.Sprintf("conn_fragmented_%d", fragmented)]++
	c.pf("connhs is=%d ie=%d target=%d rs=%d re=%d tamper=%s pk=%s frag=%d => dial=%s accept=%s rpub=%s", is.id, ie.id, target.id,
		rs.id, re.id, desc, pk, fragmented, dres, ares, rp)
	if d.err == nil && a.err == nil {
		i2r.block, r2i.block = false, false
		// Conn.Write / Conn.Read including chunking above 65535 bytes
		alive := true
		noBudget := c.rng.Intn(2) == 0 // half of the sessions stay usable for the duplex part
		for k := 0; k < 3; k++ {
			w, r, p := d.conn, a.conn, i2r
			name := "i"
			if k%2 == 1 {
				w, r, p = a.conn, d.conn, r2i
				name = "r"
			}
			n := []int{0, 1, 65535, 65536, 70000, 131070, 131071, c.rng.Intn(200000)}[c.rng.Intn(8)]
			if k == 0 {
				n = 65536 + c.rng.Intn(70000)
			}
			msg := c.randMsg(n)
			budget := -1
			if !noBudget && c.rng.Intn(2) == 0 {
				budget = c.rng.Intn(n + 100)
			}
			werr := c.connWriteOp(name, w, p, msg, budget)
			if werr != nil {
				alive = false
			}
			if werr != nil {
				break
			}
			// read everything back through Conn.Read with a small and a large buffer
			// every single Conn.Read is a trace line: caller buffer size, bytes returned,
			// error class, what stays in readBuf, and whether everything returned so far
			// is a prefix of what was written (judged on the bytes themselves).
			got := make([]byte, 0, n)
			rerr := error(nil)
			pfx := 1
			oneRead := func(capn int) error {
				buf := make([]byte, capn)
				var m int
				var err error
				if guard(func() { m, err = r.Read(buf) }) {
					err = errors.New("verif: panic in Conn.Read")
				}
				if len(got)+m > len(msg) || string(buf[:m]) != string(msg[len(got):len(got)+m]) {
					pfx = 0
				}
				got = append(got, buf[:m]...)
				c.pf("crd %s cap=%d => n=%d err=%s bl=%d pfx=%d", name, capn, m, classify(err), r.readBuf.Len(), pfx)
				c.stats["crd_"+classify(err)]++
				return err
			}
			for len(got) < n {
				// caller buffer sizes: fixed classes plus the neighbourhood of what is
				// left in readBuf (drain it exactly, leave one byte, ask for one more)
				capn := []int{0, 1, 7, 4096, 70000}[c.rng.Intn(5)]
				if rem := r.readBuf.Len(); rem > 1 && c.rng.Intn(3) == 0 {
					capn = rem - 1 + c.rng.Intn(3)
				}
				if err := oneRead(capn); err != nil {
					rerr = err
					break
				}
			}
			if n == 0 {
				rerr = oneRead(8)
			}
			same := 0
			if string(got) == string(msg) {
				same = 1
			}
			c.pf("cread %s want=%d => got=%d same=%d err=%s", name, n, len(got), same, classify(rerr))
		}
		// full duplex on the Conn: while one side receives a (chunked) message record by
		// record through ReadNextHeader/ReadNextBody in small fragments, the same Conn
		// writes a chunked message of its own.
		for k := 0; alive && k < 2; k++ {
			wa, ra, pa, na := d.conn, a.conn, i2r, "i" // sender of the inbound message
			pb, nb := r2i, "r"                          // the reading side writes here meanwhile
			if k%2 == 1 {
				wa, ra, pa, na = a.conn, d.conn, r2i, "r"
				pb, nb = i2r, "i"
			}
			n1 := []int{1, 17, 65535, 65536, 70000 + c.rng.Intn(70000)}[c.rng.Intn(5)]
			msg1 := c.randMsg(n1)
			if c.connWriteOp(na, wa, pa, msg1, -1) != nil {
				break
			}
			n2 := []int{3, 65536, 66000 + c.rng.Intn(70000), 131071}[c.rng.Intn(4)]
			msg2 := c.randMsg(n2)
			wrote, werr2 := false, error(nil)
			fire := 1 + c.rng.Intn(3)
			pa.frag = c.duplexFrag()
			pa.hook = func() {
				fire--
				if fire == 0 && !wrote {
					wrote = true
					budget := -1
					if c.rng.Intn(4) == 0 {
						budget = c.rng.Intn(n2 + 100)
					}
					werr2 = c.connWriteOp(nb, ra, pb, msg2, budget)
				}
			}
			for o := 0; o < n1 || o == 0; o += 65535 {
				var pl uint32
				var body []byte
				var rerr error
				if guard(func() {
					pl, rerr = ra.ReadNextHeader()
					if rerr == nil {
						body, rerr = ra.ReadNextBody(make([]byte, pl))
					}
				}) {
					rerr = errors.New("verif: panic in ReadNext")
				}
				if rerr != nil {
					c.pf("cnext %s => %s", na, classify(rerr))
					alive = false
					break
				}
				c.pf("cnext %s => ok len=%d val=%s", na, len(body), valOf(body))
			}
			pa.frag, pa.hook = nil, nil
			if !alive {
				break
			}
			if !wrote {
				werr2 = c.connWriteOp(nb, ra, pb, msg2, -1)
			}
			if werr2 != nil {
				alive = false
				break
			}
			// the other side collects msg2 record by record as well
			for o := 0; o < n2 || o == 0; o += 65535 {
				var pl uint32
				var body []byte
				var rerr error
				if guard(func() {
					pl, rerr = wa.ReadNextHeader()
					if rerr == nil {
						body, rerr = wa.ReadNextBody(make([]byte, pl))
					}
				}) {
					rerr = errors.New("verif: panic in ReadNext")
				}
				if rerr != nil {
					c.pf("cnext %s => %s", nb, classify(rerr))
					alive = false
					break
				}
				c.pf("cnext %s => ok len=%d val=%s", nb, len(body), valOf(body))
			}
		}
	}
	c.endCase()
}

// ---- one Listener, several handshakes in flight ---------------------------------

// lconn is the listener's end of one inbound connection: a vconn whose
// SetReadDeadline calls are counted and can be made to fail, with its own remote address.
type lconn struct {
	*vconn
	port    int
	dlCalls int32
	dlFail  int32
}

func (c *lconn) SetReadDeadline(t time.Time) error {
	n := atomic.AddInt32(&c.dlCalls, 1)
	if n == c.dlFail {
		return errors.New("verif: deadline cannot be set")
	}
	return nil
}
func (c *lconn) RemoteAddr() net.Addr { return &net.TCPAddr{IP: net.IPv4(127, 0, 0, 1), Port: c.port} }

type lsess struct {
	k        int
	I, R     *vmach
	is, ie   *kinfo
	re       *kinfo
	conn     *lconn
	in, out  *vpipe // to / from the listener
	state    int    // 0 new, 1 act one under way, 2 waiting for act two, 3 act three under way, 4 waiting for the verdict, 5 done
	feed     []byte // bytes of the current act still to deliver
	cutAfter int    // close the stream after this many more bytes (-1: never)
	flip1    int    // byte of act one / act three altered in flight (-1: none)
	flip3    int
	a1, a3   []byte // acts as delivered
	d1, d3   bool   // delivered completely
	a2       []byte
	ban      int // 0 accept, 1 reject with error, 2 reject without error, 3 accept but return an error
	banAsked bool
	res      *maybeConn
}

func waitFor(cond func() bool) bool {
	for i := 0; i < 400000; i++ {
		if cond() {
			return true
		}
		if i < 2000 {
			time.Sleep(time.Microsecond)
		} else {
			time.Sleep(50 * time.Microsecond)
		}
	}
	return false
}

// caseListener: n inbound connections handled by ONE Listener (its own handshake
// semaphore, ban closure, result channel read through Accept), their acts arriving in
// PRNG-interleaved fragments; per session at most one fault: wrong dialled key, a byte
// altered in flight, the stream cut, a failing SetReadDeadline call, a banning closure.
func (c *c11) caseListener(n int) {
	c.startCase("listener")
	rs := c.newKey()
	slots := n - c.rng.Intn(2)
	if slots < 1 {
		slots = 1
	}
	var mu sync.Mutex
	byKey := map[string]*lsess{}
	l := &Listener{
		localStatic:   &keychain.PrivKeyECDH{PrivKey: rs.priv},
		handshakeSema: make(chan struct{}, slots),
		conns:         make(chan maybeConn),
		quit:          make(chan struct{}),
	}
	l.shouldAccept = func(p *btcec.PublicKey) (bool, error) {
		mu.Lock()
		defer mu.Unlock()
		ss := byKey[string(p.SerializeCompressed())]
		if ss == nil {
			return true, nil
		}
		ss.banAsked = true
		switch ss.ban {
		case 1:
			return false, errors.New("verif: banned")
		case 2:
			return false, nil
		case 3:
			return true, errors.New("verif: accepted with a warning")
		}
		return true, nil
	}
	for i := 0; i < slots; i++ {
		l.handshakeSema <- struct{}{}
	}
	resCh := make(chan maybeConn, n+1)
	go func() {
		for {
			conn, err := l.Accept()
			if conn == nil && err != nil && strings.Contains(err.Error(), "brontide connection closed") {
				return
			}
			var bc *Conn
			if conn != nil {
				bc = conn.(*Conn)
			}
			resCh <- maybeConn{conn: bc, err: err}
		}
	}()
	var ss []*lsess
	for k := 0; k < n; k++ {
		x := &lsess{k: k, cutAfter: -1, flip1: -1, flip3: -1}
		x.is, x.ie, x.re = c.newKey(), c.newKey(), c.newKey()
		target := rs
		dlFail := 0
		switch f := c.rng.Intn(20); {
		case f < 9:
		case f < 11:
			target = c.newKey()
		case f < 13:
			if c.rng.Intn(2) == 0 {
				x.flip1 = []int{0, 1, 33, 34, 49, c.rng.Intn(ActOneSize)}[c.rng.Intn(6)]
			} else {
				x.flip3 = []int{0, 1, 49, 50, 65, c.rng.Intn(ActThreeSize)}[c.rng.Intn(6)]
			}
		case f < 15:
			x.cutAfter = c.rng.Intn(ActOneSize + ActThreeSize)
		case f < 18:
			dlFail = 1 + c.rng.Intn(3)
		default:
			x.ban = 1 + c.rng.Intn(3)
		}
		x.I = c.newMach(true, x.is, target)
		c.nMach++
		x.R = &vmach{id: c.nMach, out: newPipe(c.nMach)}
		c.pf("mach %d role=resp ls=%d", x.R.id, rs.id)
		x.I.peer, x.R.peer = x.R, x.I
		c.pf("pair %d %d", x.I.id, x.R.id)
		x.in, x.out = newPipe(1000+2*k), newPipe(1001+2*k)
		x.in.block, x.out.block = true, true
		x.conn = &lconn{vconn: &vconn{r: x.in, w: x.out}, port: 20000 + k, dlFail: int32(dlFail)}
		byKey[string(x.is.pub)] = x
		ss = append(ss, x)
	}
	oldGen := ephemeralGen
	defer func() { ephemeralGen = oldGen }()
	collect := func() {
		for {
			select {
			case r := <-resCh:
				rr := r
				port := -1
				if r.conn != nil {
					port = r.conn.conn.(*lconn).port
				} else if r.err != nil {
					for _, x := range ss {
						if strings.Contains(r.err.Error(), fmt.Sprintf("127.0.0.1:%d:", x.conn.port)) {
							port = x.conn.port
						}
					}
				}
				for _, x := range ss {
					if x.conn.port == port && x.res == nil {
						x.res = &rr
					}
				}
			default:
				return
			}
		}
	}
	pipeLen := func(p *vpipe) int {
		p.mu.Lock()
		defer p.mu.Unlock()
		return len(p.buf)
	}
	// deliver the next fragment of the act under way
	feedSome := func(x *lsess) {
		k := []int{1, 1, 2, 3, 16, 17, 33, 1 + c.rng.Intn(66), len(x.feed)}[c.rng.Intn(9)]
		if k > len(x.feed) {
			k = len(x.feed)
		}
		if x.cutAfter >= 0 && k >= x.cutAfter {
			k = x.cutAfter
		}
		x.in.Write(x.feed[:k])
		if x.state == 1 {
			x.a1 = append(x.a1, x.feed[:k]...)
		} else {
			x.a3 = append(x.a3, x.feed[:k]...)
		}
		x.feed = x.feed[k:]
		if x.cutAfter >= 0 {
			x.cutAfter -= k
			if x.cutAfter == 0 {
				x.in.closePipe()
				x.feed = nil
				x.state = 4
				return
			}
		}
		// the listener has taken the fragment (or has given up) before anything else happens
		waitFor(func() bool { collect(); return pipeLen(x.in) == 0 || x.res != nil })
		if len(x.feed) == 0 {
			if x.state == 1 {
				x.d1 = true
				x.state = 2
			} else {
				x.d3 = true
				x.state = 4
			}
		}
	}
	for {
		collect()
		var live []*lsess
		for _, x := range ss {
			if x.state != 5 {
				live = append(live, x)
			}
		}
		if len(live) == 0 {
			break
		}
		x := live[c.rng.Intn(len(live))]
		if x.res != nil && x.state != 0 && x.state != 2 {
			x.state = 5
			continue
		}
		switch x.state {
		case 0:
			select {
			case <-l.handshakeSema: // what listen() does before Accept
			default:
				continue // every slot is busy: another session has to finish first
			}
			ephemeralGen = func() (*btcec.PrivateKey, error) { return x.re.priv, nil }
			go func() {
				defer func() {
					if r := recover(); r != nil {
						resCh <- maybeConn{err: fmt.Errorf("verif: panic in doHandshake 127.0.0.1:%d: x", x.conn.port)}
					}
				}()
				l.doHandshake(x.conn)
			}()
			waitFor(func() bool { return atomic.LoadInt32(&x.conn.dlCalls) >= 1 })
			a1 := c.gen1(x.I, x.ie)
			if x.flip1 >= 0 {
				a1 = c.flipAct(a1, x.flip1)
			}
			x.feed = a1
			x.state = 1
		case 1, 3:
			feedSome(x)
		case 2:
			waitFor(func() bool { collect(); return pipeLen(x.out) >= ActTwoSize || x.res != nil })
			if pipeLen(x.out) < ActTwoSize {
				// rejected before act two went out (the verdict is there, or the listener hangs)
				x.state = 4
				continue
			}
			x.a2 = make([]byte, ActTwoSize)
			io.ReadFull(x.out, x.a2)
			c.pf("recv1 %d act=%s pk=%s => ok", x.R.id, hx11(x.a1), c.pkOf(x.a1[1:34]))
			c.pf("gen2 %d e=%d => ok act=%s", x.R.id, x.re.id, hx11(x.a2))
			if c.recv2(x.I, x.a2) != "ok" {
				x.in.closePipe()
				x.state = 4
				continue
			}
			a3 := c.gen3(x.I)
			if x.flip3 >= 0 {
				a3 = c.flipAct(a3, x.flip3)
			}
			x.feed = a3
			x.state = 3
		case 4:
			if !waitFor(func() bool { collect(); return x.res != nil }) {
				x.res = &maybeConn{err: errors.New("verif: listener stuck")}
			}
			x.state = 5
		}
	}
	// verdicts
	for _, x := range ss {
		res, rp := "ok", "-"
		if x.res.err != nil || x.res.conn == nil {
			e := ""
			if x.res.err != nil {
				e = x.res.err.Error()
			}
			mu.Lock()
			asked := x.banAsked
			mu.Unlock()
			switch {
			case strings.Contains(e, "verif: panic"):
				res = "panic"
			case strings.Contains(e, "listener stuck"):
				res = "stuck"
			case strings.Contains(e, "verif: deadline"):
				res = "deadline"
			case asked && (x.ban == 1 || x.ban == 2):
				res = "banned"
			case strings.Contains(e, "no remote pubkey"):
				res = "noremote"
			default:
				res = classifyConn(x.res.err)
			}
		}
		pad := func(b []byte, n int) []byte { return append(append([]byte(nil), b...), make([]byte, n-len(b))...) }
		if x.a2 == nil && x.d1 && (res == "mac" || res == "version" || res == "parse") {
			c.stats["recv1_"+res]++
			c.pf("recv1 %d act=%s pk=%s => %s", x.R.id, hx11(x.a1), c.pkOf(x.a1[1:34]), res)
		}
		if x.a2 != nil && x.d3 {
			switch {
			case res == "ok":
				x.R.m = x.res.conn.noise
				rp = c.pkOf(x.res.conn.RemotePub().SerializeCompressed())
				c.markSplit(x.R)
				c.pf("recv3 %d act=%s => ok rpub=%s", x.R.id, hx11(x.a3), rp)
			case res == "banned":
				rp = strconv.Itoa(x.is.id)
				c.pf("recv3 %d act=%s => ok rpub=%s", x.R.id, hx11(x.a3), rp)
			case res == "mac" || res == "version" || res == "parse":
				c.pf("recv3 %d act=%s => %s rpub=-", x.R.id, hx11(x.a3), res)
			}
		}
		c.stats["lsess_"+res]++
		a1h, pk1, a3h := "-", "invalid", "-"
		if x.d1 {
			a1h, pk1 = hx11(x.a1), c.pkOf(x.a1[1:34])
		}
		if x.d3 {
			a3h = hx11(pad(x.a3, ActThreeSize))
		}
		c.pf("lflow %d e=%d dl=%d ban=%d d1=%v d3=%v a1=%s pk1=%s a3=%s => res=%s rpub=%s", x.R.id, x.re.id,
			x.conn.dlFail, x.ban, x.d1, x.d3, a1h, pk1, a3h, res, rp)
		if res == "ok" {
			c.keysLine(x.I)
			c.keysLine(x.R)
		}
	}
	// every doHandshake goroutine gives its slot back when it returns
	waitFor(func() bool { return len(l.handshakeSema) == slots })
	c.pf("lsema cap=%d => free=%d", slots, len(l.handshakeSema))
	close(l.quit)
	// the accepted connections carry traffic, all of them at once
	var okS []*lsess
	for _, x := range ss {
		if x.R.m != nil {
			okS = append(okS, x)
		}
	}
	for round := 0; round < 3; round++ {
		for _, x := range okS {
			c.write(x.I, c.randMsg(c.pickSize(round, 0.02)))
			c.flush(x.I, c.pickBudget(x.I), false)
			c.write(x.R, c.randMsg(c.pickSize(round, 0.02)))
			c.flush(x.R, c.pickBudget(x.R), false)
		}
		for _, x := range okS {
			c.flush(x.I, -1, false)
			c.flush(x.R, -1, false)
			c.read(x.R, x.I.out)
			c.read(x.I, x.R.out)
		}
	}
	c.endCase()
}

// ---------------------------------------------------------------------------

func TestVerifC11(t *testing.T) {
	out := os.Getenv("VERIF_OUT")
	if out == "" {
		t.Skip("VERIF_OUT not set")
	}
	seed, _ := strconv.ParseInt(os.Getenv("VERIF_SEED"), 10, 64)
	thorough := os.Getenv("VERIF_TIER") == "thorough"
	f, err := os.Create(out)
	if err != nil {
		t.Fatal(err)
	}
	defer f.Close()
	c := &c11{w: bufio.NewWriterSize(f, 1<<20), rng: rand.New(rand.NewSource(seed*7919 + 11)), thorough: thorough,
		stats: map[string]int{}}
	defer c.w.Flush()

	c.pf("FACT keyRotationInterval=%d macSize=%d lengthHeaderSize=%d encHeaderSize=%d maxMessageSize=%d "+
		"actOneSize=%d actTwoSize=%d actThreeSize=%d handshakeVersion=%d", keyRotationInterval, macSize,
		lengthHeaderSize, encHeaderSize, maxMessageSize, ActOneSize, ActTwoSize, ActThreeSize, HandshakeVersion)

	rep := func(q, th int) int {
		if thorough {
			return th
		}
		return q
	}

	// handshake
	for i := 0; i < rep(12, 150); i++ {
		c.caseHSWrongKey(i)
	}
	for i := 0; i < rep(6, 40); i++ {
		c.caseHSTamper()
	}
	for i := 0; i < rep(6, 100); i++ {
		c.caseHSMix()
	}
	for i := 0; i < rep(3, 40); i++ {
		c.caseHSOrder()
	}
	// Dial / doHandshake / Conn
	for i := 0; i < rep(14, 120); i++ {
		c.caseConn("none", false)
	}
	for i := 0; i < rep(4, 60); i++ {
		c.caseConn("none", true)
	}
	for i := 0; i < rep(40, 800); i++ {
		c.caseConn("flip", false)
	}
	for i := 0; i < rep(24, 400); i++ {
		c.caseConn("cut", false)
	}
	for i := 0; i < rep(10, 80); i++ {
		c.caseConn("flipver", false)
	}
	// several connections sharing the send-buffer pools
	for i := 0; i < rep(6, 60); i++ {
		c.casePool(2+c.rng.Intn(3), rep(400, 1500), 0.01)
	}
	// one Listener with several handshakes in flight
	for i := 0; i < rep(30, 400); i++ {
		c.caseListener(2 + c.rng.Intn(5))
	}
	// partial writes
	for _, l := range []int{0, 1, 2, 15, 16, 17, 18, 100, 65534, 65535} {
		c.caseFlush(l)
	}
	for i := 0; i < rep(6, 120); i++ {
		c.caseFlush(c.rng.Intn(65536) >> uint(c.rng.Intn(12)))
	}
	// tampering with transport ciphertext
	sizeSets := [][]int{{0, 0, 3}, {1, 2, 0}, {2, 17, 5}, {16, 1, 1}, {17, 0, 40}}
	for i, m := range []string{"corrupt", "trunc", "del", "splice"} {
		for j := 0; j < rep(4, 6*len(sizeSets)); j++ {
			c.caseStreamTamper([]int{0, 3, 2, 1, 5}[(i+j)%5], sizeSets[(i+j+int(seed))%len(sizeSets)], m)
		}
	}
	// near and across a key rotation (500 messages = 1000 encryptions)
	pres := []int{499, 500}
	if thorough {
		pres = []int{498, 499, 500, 501, 999, 1000, 1499, 1500}
	}
	for i, pre := range pres {
		ms := []string{"corrupt", "splice", "trunc", "del"}
		c.caseStreamTamper(pre, sizeSets[(i+int(seed))%len(sizeSets)], ms[(i+int(seed))%4])
		c.caseStreamTamper(pre, sizeSets[(i+1+int(seed))%len(sizeSets)], ms[(i+1+int(seed))%4])
		if thorough {
			c.caseStreamTamper(pre, sizeSets[(i+2+int(seed))%len(sizeSets)], ms[(i+2+int(seed))%4])
			c.caseStreamTamper(pre, sizeSets[(i+3+int(seed))%len(sizeSets)], ms[(i+3+int(seed))%4])
		}
	}
	for i := 0; i < rep(4, 60); i++ {
		c.caseDesync()
	}
	// full duplex: reads fragmented, the reading machine writes in between
	for i := 0; i < rep(3, 16); i++ {
		c.caseDuplex(rep(250, 900)+c.rng.Intn(100), 0.004)
	}
	c.caseDuplex(rep(1040, 2600), 0.002)
	// long streams crossing at least three rotations in both directions
	c.caseStream(1520+c.rng.Intn(60), 0.012)
	c.caseStream(1510+c.rng.Intn(600), 0.004)
	for i := 0; i < rep(3, 30); i++ {
		c.caseStream(rep(300, 2100)+c.rng.Intn(200), float64(rep(30, 8))*0.001)
	}
	if thorough {
		for i := 0; i < 4; i++ {
			c.caseStream(4100+c.rng.Intn(1000), 0.002)
		}
		c.caseStream(6600, 0.001)
	}

	// input distribution summary
	c.pf("CASE %d kind=summary", c.nCase+1)
	var ks []string
	for k := range c.stats {
		ks = append(ks, k)
	}
	sortStrings(ks)
	for _, k := range ks {
		c.pf("dist %s=%d", k, c.stats[k])
	}
	c.pf("END")
}

func sortStrings(a []string) {
	for i := 1; i < len(a); i++ {
		for j := i; j > 0 && a[j] < a[j-1]; j-- {
			a[j], a[j-1] = a[j-1], a[j]
		}
	}
}
