//go:build verif

package contractcourt

// C12 harness, persistence level (round 7): the confirmed commit set on disk and
// the restart of a channel that is already marked closed.
//
//   op reboot (kind=arb)  instead of delivering the close event, the harness does
//       what the close handler persists before it advances the state machine
//       (LogContractResolutions, the REAL boltArbitratorLog.InsertConfirmedCommitSet
//       on a real bbolt database), "stops the node" right after MarkChannelClosed,
//       and starts a NEW arbitrator the way ChainArbitrator does for a closing
//       channel: empty HTLC sets, IsPendingClose / CloseType / ClosingHeight from the
//       close summary, start state and commit set read by the real getStartState /
//       FetchConfirmedCommitSet. progressStateMachineAfterRestart then has to
//       rebuild the close trigger and resolve the channel from the DECODED set.
//       Lines: RH (payment hash bytes), CSB (the raw bytes under commitSetKey),
//       GK / G (what FetchConfirmedCommitSet returns), then the op itself.
//   kind=codec  encodeCommitSet / decodeCommitSet on commit sets with signatures of
//       boundary lengths, onion fill, log indices, 0..3 sets, plus truncated /
//       mutated byte strings through the real decoder.

import (
	"bytes"
	"fmt"
	"sort"
	"strings"
	"time"

	"github.com/btcsuite/btcd/chainhash/v2"
	"github.com/btcsuite/btcd/wire/v2"
	"github.com/lightningnetwork/lnd/channeldb"
	"github.com/lightningnetwork/lnd/fn/v2"
	"github.com/lightningnetwork/lnd/input"
	"github.com/lightningnetwork/lnd/kvdb"
	"github.com/lightningnetwork/lnd/lnwallet"
	"github.com/lightningnetwork/lnd/lnwire"
)

// c12Rle renders bytes as hex with runs of >= 6 equal bytes written as NxHH,
// tokens separated by '.'.
func c12Rle(b []byte) string {
	if len(b) == 0 {
		return "-"
	}
	var toks []string
	var cur strings.Builder
	flush := func() {
		if cur.Len() > 0 {
			toks = append(toks, cur.String())
			cur.Reset()
		}
	}
	for i := 0; i < len(b); {
		j := i
		for j < len(b) && b[j] == b[i] {
			j++
		}
		if j-i >= 6 {
			flush()
			toks = append(toks, fmt.Sprintf("%dx%02x", j-i, b[i]))
		} else {
			for k := i; k < j; k++ {
				fmt.Fprintf(&cur, "%02x", b[k])
			}
		}
		i = j
	}
	flush()
	return strings.Join(toks, ".")
}

func c12KeyName(k HtlcSetKey) string {
	switch k {
	case LocalHtlcSet:
		return "L"
	case RemoteHtlcSet:
		return "R"
	case RemotePendingHtlcSet:
		return "P"
	}
	return "X"
}

func (x *c12) boltLog() *boltArbitratorLog {
	if x.pdb == nil {
		db, err := makeTestDB(x.t)
		if err != nil {
			x.t.Fatalf("makeTestDB: %v", err)
		}
		x.pdb = db
	}
	x.pn++
	op := wire.OutPoint{Hash: chainhash.Hash{0xc1, 0x2b}, Index: uint32(x.pn)}
	lg, err := newBoltArbitratorLog(x.pdb, ChannelArbitratorConfig{}, chainhash.Hash{}, op)
	if err != nil {
		x.t.Fatalf("newBoltArbitratorLog: %v", err)
	}
	return lg
}

func c12RawCommitSet(lg *boltArbitratorLog) []byte {
	var out []byte
	_ = kvdb.View(lg.db, func(tx kvdb.RTx) error {
		b := tx.ReadBucket(lg.scopeKey[:])
		if b == nil {
			return nil
		}
		out = append([]byte(nil), b.Get(commitSetKey)...)
		return nil
	}, func() { out = nil })
	return out
}

// c12BuildResolutions: the HTLC resolutions of a synthetic close event (same
// construction as c12Run.enqueue).
func c12BuildResolutions(ev c12Ev) (*lnwallet.HtlcResolutions, chainhash.Hash) {
	hash := c12CommitHash
	closeTx := &wire.MsgTx{TxIn: []*wire.TxIn{{PreviousOutPoint: wire.OutPoint{}, Witness: [][]byte{{0x1}, {0x2}}}}}
	if ev.kind == "local" {
		hash = closeTx.TxHash()
	}
	htlcRes := &lnwallet.HtlcResolutions{}
	for _, i := range ev.resIn {
		htlcRes.IncomingHTLCs = append(htlcRes.IncomingHTLCs, lnwallet.IncomingHtlcResolution{
			ClaimOutpoint: wire.OutPoint{Hash: hash, Index: uint32(i)},
			SweepSignDesc: input.SignDescriptor{Output: &wire.TxOut{}},
		})
	}
	for _, i := range ev.resOut {
		op := wire.OutPoint{Hash: hash, Index: uint32(i)}
		res := lnwallet.OutgoingHtlcResolution{
			Expiry:        1,
			ClaimOutpoint: op,
			SweepSignDesc: input.SignDescriptor{Output: &wire.TxOut{}},
		}
		if ev.stx {
			res.ClaimOutpoint = wire.OutPoint{Hash: chainhash.Hash{0xee}, Index: 7}
			res.SignedTimeoutTx = &wire.MsgTx{
				TxIn:  []*wire.TxIn{{PreviousOutPoint: op, Witness: [][]byte{{}}}},
				TxOut: []*wire.TxOut{{}},
			}
		}
		htlcRes.OutgoingHTLCs = append(htlcRes.OutgoingHTLCs, res)
	}
	return htlcRes, hash
}

// reboot: see the file comment.
var c12RebootDur, c12CodecDur time.Duration

func (r *c12Run) reboot(bh uint32, ev c12Ev, upK int) {
	t0 := time.Now()
	defer func() { c12RebootDur += time.Since(t0) }()
	x := r.x
	old := r.a
	_ = old.arb.Stop()
	lg := old.log

	htlcRes, hash := c12BuildResolutions(ev)
	var (
		cr  *ContractResolutions
		ct  channeldb.ClosureType
		key *HtlcSetKey
	)
	switch ev.kind {
	case "local":
		cr = &ContractResolutions{CommitHash: hash, HtlcResolutions: *htlcRes}
		ct, key = channeldb.LocalForceClose, &LocalHtlcSet
	case "remote":
		cr = &ContractResolutions{CommitHash: hash, HtlcResolutions: *htlcRes}
		ct, key = channeldb.RemoteForceClose, &RemoteHtlcSet
	case "pending":
		cr = &ContractResolutions{CommitHash: hash, HtlcResolutions: *htlcRes}
		ct, key = channeldb.RemoteForceClose, &RemotePendingHtlcSet
	case "breach":
		cr = &ContractResolutions{CommitHash: hash,
			BreachResolution: &BreachResolution{FundingOutPoint: wire.OutPoint{}}}
		ct, key = channeldb.BreachClose, &RemoteHtlcSet
	case "coop":
		ct = channeldb.CooperativeClose
	}
	// what the close handler writes before MarkChannelClosed
	if cr != nil {
		_ = lg.LogContractResolutions(cr)
	}
	lg.bolt = x.boltLog()
	ids := map[[32]byte]int{}
	for s := 0; s < 3; s++ {
		for _, h := range r.c.sets[s] {
			ids[c12Hash(h.hash)] = h.hash
		}
	}
	if key != nil {
		if err := lg.InsertConfirmedCommitSet(r.c.commitSet(key)); err != nil {
			x.pf("reboot h=%d ev=%s => inserterr", bh, ev.kind)
			r.done = true
			return
		}
		var idl []int
		for _, id := range ids {
			idl = append(idl, id)
		}
		sort.Ints(idl)
		for _, id := range idl {
			hh := c12Hash(id)
			x.pf("RH id=%d hex=%x", id, hh[:])
		}
		x.pf("CSB key=%s bytes=%s", c12KeyName(*key), c12Rle(c12RawCommitSet(lg.bolt)))
	}
	// what the restarted arbitrator will read (the arbitrator reads it again itself)
	got, err := lg.FetchConfirmedCommitSet(nil)
	switch {
	case err != nil && key == nil:
		x.pf("GK key=none p=0")
	case err != nil:
		x.pf("GK key=err p=0")
	default:
		gk := "none"
		got.ConfCommitKey.WhenSome(func(k HtlcSetKey) { gk = c12KeyName(k) })
		_, hasP := got.HtlcSets[RemotePendingHtlcSet]
		x.pf("GK key=%s p=%d n=%d", gk, c12b(hasP), len(got.HtlcSets))
		for s := 0; s < 3; s++ {
			for _, h := range got.HtlcSets[c12SetKeys[s]] {
				id, ok := ids[h.RHash]
				if !ok {
					id = -1
				}
				x.pf("G s=%s idx=%d in=%d amt=%d exp=%d out=%d hash=%d", c12SetNames[s], h.HtlcIndex,
					c12b(h.Incoming), uint64(h.Amt), h.RefundTimeout, h.OutputIndex, id)
			}
		}
	}

	// the new incarnation: empty HTLC sets, pending-close config, same log
	var empty [3][]channeldb.HTLC
	na := c12NewArbP(x.t, r.c, old.fcErr, &empty, false, &c12Pending{lg: lg, closeType: ct, height: ev.evh})
	na.setUptimeK(r.c.grace, upK)
	r.a = na
	na.obs.reset()
	op := fmt.Sprintf("reboot h=%d ev=%s evh=%d resin=%s resout=%s stx=%d commit=0 anchor=0", bh, ev.kind, ev.evh,
		c12I32s(ev.resIn), c12I32s(ev.resOut), c12b(ev.stx))
	if err := na.arb.Start(nil, newBeatFromHeight(int32(bh))); err != nil {
		x.pf("%s => starterr", op)
		r.done = true
		return
	}
	r.barrier()
	r.report(op)
}

// ---------------------------------------------------------------------------
// codec cases
// ---------------------------------------------------------------------------

type c12PH struct {
	h     channeldb.HTLC
	onion byte
}

func c12CanonHtlc(h channeldb.HTLC) string {
	sum := func(b []byte) int {
		t := 0
		for i, v := range b {
			t = (t + (i%251+1)*int(v)) % 1000003
		}
		return t
	}
	return fmt.Sprintf("%d:%d:%d:%d:%d:%d:%d:%d:%d:%d:%d", h.HtlcIndex, c12b(h.Incoming), uint64(h.Amt),
		h.RefundTimeout, h.OutputIndex, h.LogIndex, len(h.Signature), sum(h.Signature), sum(h.RHash[:]),
		sum(h.OnionBlob[:]), len(h.ExtraData))
}

func c12KeyBits(k HtlcSetKey) string { return fmt.Sprintf("%d%d", c12b(k.IsRemote), c12b(k.IsPending)) }

func c12CanonCommitSet(c *CommitSet) string {
	ck := "none"
	c.ConfCommitKey.WhenSome(func(k HtlcSetKey) { ck = c12KeyBits(k) })
	var keys []HtlcSetKey
	for k := range c.HtlcSets {
		keys = append(keys, k)
	}
	sort.Slice(keys, func(i, j int) bool { return c12KeyBits(keys[i]) < c12KeyBits(keys[j]) })
	parts := []string{"key=" + ck}
	for _, k := range keys {
		var hs []string
		for _, h := range c.HtlcSets[k] {
			hs = append(hs, c12CanonHtlc(h))
		}
		parts = append(parts, fmt.Sprintf("%s=[%s]", c12KeyBits(k), strings.Join(hs, ",")))
	}
	return strings.Join(parts, " ")
}

func (x *c12) codecCase() {
	r := x.rng
	x.n++
	id := fmt.Sprintf("c%d", x.n)
	x.pf("CASE %s kind=codec", id)
	defer x.pf("END")

	allKeys := []HtlcSetKey{LocalHtlcSet, RemoteHtlcSet, RemotePendingHtlcSet, {IsRemote: false, IsPending: true}}
	conf := allKeys[r.Intn(3)]
	if r.Intn(12) == 0 {
		conf = allKeys[3]
	}
	cs := &CommitSet{ConfCommitKey: fn.Some(conf), HtlcSets: map[HtlcSetKey][]channeldb.HTLC{}}
	nk := []int{0, 1, 2, 2, 3, 3, 3, 4}[r.Intn(8)]
	perm := r.Perm(4)
	sigLens := []int{0, 0, 1, 64, 73, 252, 253, 254, 300}
	for _, ki := range perm[:nk] {
		k := allKeys[ki]
		n := []int{0, 0, 1, 1, 2, 3, 5}[r.Intn(7)]
		hs := []channeldb.HTLC{}
		if n == 0 && r.Intn(2) == 0 {
			hs = nil
		}
		for j := 0; j < n; j++ {
			var h channeldb.HTLC
			r.Read(h.RHash[:])
			sl := sigLens[r.Intn(len(sigLens))]
			if sl > 0 {
				h.Signature = make([]byte, sl)
				r.Read(h.Signature)
			}
			h.Amt = lnwire.MilliSatoshi([]uint64{0, 1, 1000, 5_000_000, 1 << 32, 1<<63 + 5, ^uint64(0)}[r.Intn(7)])
			h.RefundTimeout = []uint32{0, 1, 144, 700_000, 1<<31 - 1, 1 << 31, ^uint32(0)}[r.Intn(7)]
			h.OutputIndex = []int32{-1, -1, 0, 1, 2, 255, 256, 65536, 1<<31 - 1, -2, -(1 << 31)}[r.Intn(11)]
			h.Incoming = r.Intn(2) == 0
			fill := byte([]int{0, 0, 1, 0xff, r.Intn(256)}[r.Intn(5)])
			for i := range h.OnionBlob {
				h.OnionBlob[i] = fill
			}
			if r.Intn(3) == 0 {
				h.OnionBlob[r.Intn(len(h.OnionBlob))] = byte(r.Intn(256))
			}
			h.HtlcIndex = []uint64{0, 1, 7, 255, 256, 1 << 32, ^uint64(0)}[r.Intn(7)] + uint64(j)
			h.LogIndex = []uint64{0, 3, 1 << 40, ^uint64(0)}[r.Intn(4)]
			hs = append(hs, h)
		}
		cs.HtlcSets[k] = hs
	}
	x.pf("want %s", c12CanonCommitSet(cs))
	var buf bytes.Buffer
	if err := encodeCommitSet(&buf, cs); err != nil {
		x.pf("enc => err")
		return
	}
	raw := buf.Bytes()
	x.pf("enc => %s", c12Rle(raw))
	dec := func(b []byte) string {
		return x.safe(func() string {
			c, err := decodeCommitSet(bytes.NewReader(b))
			if err != nil {
				return "err"
			}
			return "ok " + c12CanonCommitSet(c)
		})
	}
	x.pf("dec bytes=%s => %s", c12Rle(raw), dec(raw))
	// malformed: truncations at structure boundaries and random positions,
	// single byte changes in the structural bytes (outside the onion blobs)
	for m := 0; m < 5; m++ {
		b := append([]byte(nil), raw...)
		switch r.Intn(4) {
		case 0:
			b = b[:r.Intn(len(b)+1)]
		case 1:
			if len(b) > 9 {
				b = b[:[]int{0, 1, 2, 3, len(b) - 1, len(b) - 8, len(b) - 9}[r.Intn(7)]]
			}
		case 2:
			p := r.Intn(len(b))
			if len(b) > 3 && r.Intn(2) == 0 {
				p = r.Intn(4) // conf key / numSets / first set key
			}
			b[p] = []byte{0, 1, 2, 3, 0xfc, 0xfd, 0xfe, 0xff, byte(r.Intn(256))}[r.Intn(9)]
		case 3:
			b = append(b, byte(r.Intn(256)), byte(r.Intn(256)))
		}
		x.pf("dec bytes=%s => %s", c12Rle(b), dec(b))
	}
}
