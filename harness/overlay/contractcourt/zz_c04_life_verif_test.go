//go:build verif

package contractcourt

// C04 harness, breach-arbitrator life cycle: what happens AFTER the first
// justice transactions were signed. The REAL createJusticeTx / updateBreachInfo /
// convertToSecondLevelRevoke / RetributionStore of contractcourt are driven
// through
//   round 1  sign all variants (this is what exactRetribution always does first)
//   batch 1  the cheater takes a random subset of the HTLC outputs to the second
//            level (real second-level transactions), our own spendCommitOuts may
//            confirm; spends are delivered in random order (allSpends channel)
//   restart  (coin) the retribution is read back from the real RetributionStore
//            after the database was closed and re-opened, the historical spends
//            are delivered again
//   round 2  the justice transactions are re-built from the updated breach info;
//            every input of every variant is executed by the btcd engine
//   batch 2  our own round-2 spends confirm; the retribution must be empty, the
//            store entry removed.
// Lines: `ubi` (one updateBreachInfo call: list before, spends, list after,
// totals), `rsload` (retribution read back vs. the one added), `jin` (as in the
// main stream), `rs` (one RetributionStore operation of the store scenario).

import (
	"bufio"
	"bytes"
	"fmt"
	"math/rand"
	"sort"
	"strings"

	"github.com/btcsuite/btcd/btcutil/v2"
	"github.com/btcsuite/btcd/txscript/v2"
	"github.com/btcsuite/btcd/wire/v2"
	"github.com/lightningnetwork/lnd/chainntnfs"
	"github.com/lightningnetwork/lnd/channeldb"
	"github.com/lightningnetwork/lnd/fn/v2"
	"github.com/lightningnetwork/lnd/kvdb"
	"github.com/lightningnetwork/lnd/lnwallet"
)

// c04Store is a real RetributionStore on a bolt file that can be closed and
// re-opened (a restart of the daemon).
type c04Store struct {
	dir string
	be  kvdb.Backend
	rs  *RetributionStore
}

func c04OpenStore(dir string) (*c04Store, error) {
	s := &c04Store{dir: dir}
	if err := s.open(); err != nil {
		return nil, err
	}
	return s, nil
}

func (s *c04Store) open() error {
	be, err := kvdb.GetBoltBackend(&kvdb.BoltBackendConfig{
		DBPath: s.dir, DBFileName: "c04ret.db", NoFreelistSync: true,
		DBTimeout: kvdb.DefaultDBTimeout,
	})
	if err != nil {
		return err
	}
	s.be = be
	s.rs = NewRetributionStore(be)
	return nil
}

func (s *c04Store) reopen() error {
	if err := s.be.Close(); err != nil {
		return err
	}
	return s.open()
}

func (s *c04Store) close() {
	if s.be != nil {
		s.be.Close()
	}
}

// c04BoKey names an outpoint: output i of the revoked commitment = i, output
// of the second-level transaction that spent commitment output i = 1000+i.
type c04Names struct {
	commit wire.OutPoint // hash of the commitment (index ignored)
	second map[wire.OutPoint]int
}

func (n *c04Names) name(op wire.OutPoint) int {
	if op.Hash == n.commit.Hash {
		return int(op.Index)
	}
	if i, ok := n.second[op]; ok {
		return 1000 + i
	}
	return 999999
}

func c04BoList(n *c04Names, bos []breachedOutput) string {
	parts := make([]string, 0, len(bos))
	for i := range bos {
		bo := &bos[i]
		parts = append(parts, fmt.Sprintf("%s:%d:%d:%d", c04KindOf(bo.witnessType),
			int64(bo.amt), bo.signDesc.Output.Value, n.name(bo.outpoint)))
	}
	if len(parts) == 0 {
		return "-"
	}
	return strings.Join(parts, ",")
}

// c04SameBo compares what must survive persistence of one breached output
// (SignMethod is not persisted by design: every witness generator sets it).
func c04SameBo(a, b *breachedOutput) string {
	switch {
	case a.amt != b.amt:
		return "amt"
	case a.outpoint != b.outpoint:
		return "outpoint"
	case a.witnessType != b.witnessType:
		return "witnessType"
	case !bytes.Equal(a.secondLevelWitnessScript, b.secondLevelWitnessScript):
		return "secondLevelWitnessScript"
	case a.secondLevelTapTweak != b.secondLevelTapTweak:
		return "secondLevelTapTweak"
	}
	x, y := &a.signDesc, &b.signDesc
	switch {
	case (x.KeyDesc.PubKey == nil) != (y.KeyDesc.PubKey == nil) ||
		(x.KeyDesc.PubKey != nil && !x.KeyDesc.PubKey.IsEqual(y.KeyDesc.PubKey)):
		return "signDesc.PubKey"
	case x.KeyDesc.KeyLocator != y.KeyDesc.KeyLocator:
		return "signDesc.KeyLocator"
	case !bytes.Equal(x.SingleTweak, y.SingleTweak):
		return "signDesc.SingleTweak"
	case (x.DoubleTweak == nil) != (y.DoubleTweak == nil) ||
		(x.DoubleTweak != nil && !x.DoubleTweak.PubKey().IsEqual(y.DoubleTweak.PubKey())):
		return "signDesc.DoubleTweak"
	case !bytes.Equal(x.WitnessScript, y.WitnessScript):
		return "signDesc.WitnessScript"
	case x.Output.Value != y.Output.Value || !bytes.Equal(x.Output.PkScript, y.Output.PkScript):
		return "signDesc.Output"
	case x.HashType != y.HashType:
		return "signDesc.HashType"
	case !bytes.Equal(x.TapTweak, y.TapTweak):
		return "signDesc.TapTweak"
	case !bytes.Equal(x.ControlBlock, y.ControlBlock):
		return "signDesc.ControlBlock"
	}
	return ""
}

func c04SameRet(a, b *retributionInfo) string {
	switch {
	case a.commitHash != b.commitHash:
		return "commitHash"
	case a.chanPoint != b.chanPoint:
		return "chanPoint"
	case a.chainHash != b.chainHash:
		return "chainHash"
	case a.breachHeight != b.breachHeight:
		return "breachHeight"
	case len(a.breachedOutputs) != len(b.breachedOutputs):
		return "nOutputs"
	}
	for i := range a.breachedOutputs {
		if d := c04SameBo(&a.breachedOutputs[i], &b.breachedOutputs[i]); d != "" {
			return fmt.Sprintf("out%d.%s", i, d)
		}
	}
	return ""
}

// c04Load reads one retribution back from the store.
func c04Load(rs *RetributionStore, cp wire.OutPoint) (*retributionInfo, int, error) {
	var got *retributionInfo
	n := 0
	err := rs.ForAll(func(r *retributionInfo) error {
		n++
		if r.chanPoint == cp {
			got = r
		}
		return nil
	}, func() { got = nil; n = 0 })
	return got, n, err
}

type c04Life struct {
	w     *bufio.Writer
	r     *rand.Rand
	ctx   string
	brar  *BreachArbitrator
	store *c04Store
	vst   *channeldb.OpenChannel
	br    *lnwallet.BreachRetribution
	ctTx  *wire.MsgTx
	thaw  uint32
}

// secondLevelTx builds the cheater's second-level transaction for one HTLC
// retribution (the same recipe as the main stream).
func (l *c04Life) secondLevelTx(hr *lnwallet.HtlcRetribution) (*wire.MsgTx, error) {
	vst, br := l.vst, l.br
	amt := btcutil.Amount(hr.SignDesc.Output.Value)
	isRemoteInitiator := !vst.IsInitiator
	var stx *wire.MsgTx
	var err error
	if hr.IsIncoming {
		stx, err = lnwallet.CreateHtlcTimeoutTx(vst.ChanType, isRemoteInitiator,
			hr.OutPoint, amt-1, 700_100, uint32(vst.RemoteChanCfg.CsvDelay), l.thaw,
			br.KeyRing.RevocationKey, br.KeyRing.ToLocalKey, fn.None[txscript.TapLeaf]())
	} else {
		stx, err = lnwallet.CreateHtlcSuccessTx(vst.ChanType, isRemoteInitiator,
			hr.OutPoint, amt-1, uint32(vst.RemoteChanCfg.CsvDelay), l.thaw,
			br.KeyRing.RevocationKey, br.KeyRing.ToLocalKey, fn.None[txscript.TapLeaf]())
	}
	if err != nil {
		return nil, err
	}
	// the shape of the cheater's witness (never a revocation spend): 5 elements
	// for segwit v0, 4 for the taproot script path
	if txscript.IsPayToTaproot(hr.SignDesc.Output.PkScript) {
		stx.TxIn[0].Witness = wire.TxWitness{{1}, {2}, {3}, {4}}
	} else {
		stx.TxIn[0].Witness = wire.TxWitness{{}, {1}, {2}, {}, hr.SignDesc.WitnessScript}
	}
	return stx, nil
}

type c04Ev struct {
	op     wire.OutPoint // the outpoint that was spent
	ours   bool          // spent by one of our justice transactions
	detail *chainntnfs.SpendDetail
}

func (l *c04Life) emitJustice(tag string, txs *justiceTxVariants, prev map[wire.OutPoint]*wire.TxOut) {
	emit := func(variant string, jc *justiceTxCtx) {
		if jc == nil {
			return
		}
		tx := jc.justiceTx
		for i, inp := range jc.inputs {
			wt := inp.WitnessType()
			op := tx.TxIn[i].PreviousOutPoint
			amtOK := 0
			if o, ok := prev[op]; ok && o.Value == inp.SignDesc().Output.Value &&
				string(o.PkScript) == string(inp.SignDesc().Output.PkScript) &&
				int64(inp.(*breachedOutput).amt) == o.Value {
				amtOK = 1
			}
			fmt.Fprintf(l.w, "jin ctx=%s variant=%s-%s kind=%s wt=%v ver=%d seq=%d lock=%d idx=%d recok=%d => %s\n",
				l.ctx, tag, variant, c04KindOf(wt), wt, tx.Version, tx.TxIn[i].Sequence,
				tx.LockTime, op.Index, amtOK, c04Exec(tx, i, prev))
		}
	}
	emit("spendAll", txs.spendAll)
	emit("spendCommitOuts", txs.spendCommitOuts)
	emit("spendHTLCs", txs.spendHTLCs)
	for _, sl := range txs.spendSecondLevelHTLCs {
		emit("secondLevel", sl)
	}
}

// deliver runs the REAL updateBreachInfo with the events that concern outputs
// of the current list, in random order, and prints the call.
func (l *c04Life) deliver(rd string, names *c04Names, ret *retributionInfo, evs []c04Ev) {
	before := c04BoList(names, ret.breachedOutputs)
	var spends []spend
	var desc []string
	for _, e := range evs {
		for i := range ret.breachedOutputs {
			if ret.breachedOutputs[i].outpoint == e.op {
				spends = append(spends, spend{index: i, detail: e.detail})
				who := "C"
				if e.ours {
					who = "U"
				}
				so := e.detail.SpendingTx.TxOut[0]
				if int(e.detail.SpenderInputIndex) < len(e.detail.SpendingTx.TxOut) {
					so = e.detail.SpendingTx.TxOut[e.detail.SpenderInputIndex]
				}
				desc = append(desc, fmt.Sprintf("%d:%s:%d:%d", i, who, so.Value,
					names.name(wire.OutPoint{Hash: e.detail.SpendingTx.TxHash(),
						Index: e.detail.SpenderInputIndex})))
			}
		}
	}
	l.r.Shuffle(len(spends), func(a, b int) {
		spends[a], spends[b] = spends[b], spends[a]
		desc[a], desc[b] = desc[b], desc[a]
	})
	res := "ok"
	var tot, rev btcutil.Amount
	func() {
		defer func() {
			if rr := recover(); rr != nil {
				res = "panic"
			}
		}()
		tot, rev = updateBreachInfo(ret, spends)
	}()
	ds := "-"
	if len(desc) > 0 {
		ds = strings.Join(desc, ",")
	}
	fmt.Fprintf(l.w, "ubi ctx=%s rd=%s in=%s spends=%s total=%d revoked=%d out=%s => %s\n",
		l.ctx, rd, before, ds, int64(tot), int64(rev), c04BoList(names, ret.breachedOutputs), res)
}

func (l *c04Life) run() {
	defer func() {
		if rr := recover(); rr != nil {
			fmt.Fprintf(l.w, "life ctx=%s => panic\n", l.ctx)
		}
	}()
	vst, br, ctTx := l.vst, l.br, l.ctTx
	// newRetributionInfo copies the sign descriptors by value; their Output is a
	// pointer shared with the BreachRetribution, which convertToSecondLevelRevoke
	// writes through: give every copy its own TxOut
	own := func(ri *retributionInfo) *retributionInfo {
		for i := range ri.breachedOutputs {
			o := *ri.breachedOutputs[i].signDesc.Output
			ri.breachedOutputs[i].signDesc.Output = &o
		}
		return ri
	}
	ret := own(newRetributionInfo(&vst.FundingOutpoint, br))
	if len(ret.breachedOutputs) == 0 {
		return
	}
	pristine := own(newRetributionInfo(&vst.FundingOutpoint, br))
	names := &c04Names{commit: wire.OutPoint{Hash: ctTx.TxHash()}, second: map[wire.OutPoint]int{}}
	prev := map[wire.OutPoint]*wire.TxOut{}
	for i, o := range ctTx.TxOut {
		prev[wire.OutPoint{Hash: ctTx.TxHash(), Index: uint32(i)}] = o
	}
	// the handoff persists the retribution
	if err := l.store.rs.Add(ret); err != nil {
		fmt.Fprintf(l.w, "rsload ctx=%s when=add => err:%s\n", l.ctx, c04Short(err))
		return
	}

	// round 1
	txs1, err := l.brar.createJusticeTx(ret.breachedOutputs)
	if err != nil {
		fmt.Fprintf(l.w, "jtx ctx=%s => err:%s\n", l.ctx, c04Short(err))
		return
	}

	// batch 1
	var hist []c04Ev
	nSecond, nShifted := 0, 0
	// the cheater's second-level transactions: one per HTLC (1-in/1-out), or - on
	// channel types whose second-level signatures are SIGHASH_SINGLE|ANYONECANPAY
	// (anchors, zero-fee, lease, taproot) - several HTLC outputs AGGREGATED into one
	// transaction, inputs in random order, output i paired with input i, optionally
	// with a fee-paying wallet input + change output in front (all indexes shift by
	// one) or at the end
	type c04Adv struct {
		hr  *lnwallet.HtlcRetribution
		stx *wire.MsgTx
	}
	var advs []c04Adv
	for i := range br.HtlcRetributions {
		hr := &br.HtlcRetributions[i]
		if l.r.Intn(3) == 0 {
			continue
		}
		stx, err := l.secondLevelTx(hr)
		if err != nil {
			continue
		}
		advs = append(advs, c04Adv{hr, stx})
	}
	l.r.Shuffle(len(advs), func(a, b int) { advs[a], advs[b] = advs[b], advs[a] })
	for len(advs) > 0 {
		n := 1
		extra := 0 // 0 none, 1 wallet input + change in front, 2 at the end
		if vst.ChanType.HasAnchors() {
			if len(advs) > 1 && l.r.Intn(3) != 0 {
				n = 2 + l.r.Intn(len(advs)-1)
			}
			extra = l.r.Intn(3)
		}
		group := advs[:n]
		advs = advs[n:]
		agg := group[0].stx
		base := uint32(0)
		if n > 1 || extra != 0 {
			agg = wire.NewMsgTx(2)
			wIn := &wire.TxIn{PreviousOutPoint: wire.OutPoint{Hash: ctTx.TxHash(), Index: 7777},
				Witness: wire.TxWitness{{1}, {2}}}
			wOut := &wire.TxOut{Value: 12345, PkScript: []byte{0x00, 0x14, 1, 2, 3, 4, 5, 6, 7, 8, 9,
				10, 11, 12, 13, 14, 15, 16, 17, 18, 19, 20}}
			if extra == 1 {
				agg.AddTxIn(wIn)
				agg.AddTxOut(wOut)
				base = 1
			}
			for _, g := range group {
				agg.AddTxIn(g.stx.TxIn[0])
				agg.AddTxOut(g.stx.TxOut[0])
				if g.stx.LockTime > agg.LockTime {
					agg.LockTime = g.stx.LockTime
				}
			}
			if extra == 2 {
				agg.AddTxIn(wIn)
				agg.AddTxOut(wOut)
			}
		}
		hash := agg.TxHash()
		for gi, g := range group {
			idx := base + uint32(gi)
			names.second[wire.OutPoint{Hash: hash, Index: idx}] = int(g.hr.OutPoint.Index)
			prev[wire.OutPoint{Hash: hash, Index: idx}] = agg.TxOut[idx]
			op := g.hr.OutPoint
			hist = append(hist, c04Ev{op: op, detail: &chainntnfs.SpendDetail{
				SpentOutPoint: &op, SpenderTxHash: &hash, SpendingTx: agg,
				SpenderInputIndex: idx, SpendingHeight: 778}})
			nSecond++
			if idx > 0 {
				nShifted++
			}
		}
	}
	if txs1.spendCommitOuts != nil && l.r.Intn(2) == 0 {
		jt := txs1.spendCommitOuts.justiceTx
		hash := jt.TxHash()
		for i := range jt.TxIn {
			op := jt.TxIn[i].PreviousOutPoint
			hist = append(hist, c04Ev{op: op, ours: true, detail: &chainntnfs.SpendDetail{
				SpentOutPoint: &op, SpenderTxHash: &hash, SpendingTx: jt,
				SpenderInputIndex: uint32(i), SpendingHeight: 779}})
		}
	}
	if len(hist) == 0 {
		// nothing happened after round 1: round 1 itself is checked by the main stream
		l.store.rs.Remove(&vst.FundingOutpoint)
		return
	}
	// the spends may arrive in two waitForSpendEvent rounds
	cut := l.r.Intn(len(hist) + 1)
	l.deliver("1a", names, ret, hist[:cut])
	l.deliver("1b", names, ret, hist[cut:])

	// restart: the in-memory breach info is lost, the store has the handoff-time
	// retribution; the notifier re-delivers the historical spends
	if l.r.Intn(2) == 0 {
		if err := l.store.reopen(); err != nil {
			fmt.Fprintf(l.w, "rsload ctx=%s when=reopen => err:%s\n", l.ctx, c04Short(err))
			return
		}
		got, n, err := c04Load(l.store.rs, vst.FundingOutpoint)
		switch {
		case err != nil:
			fmt.Fprintf(l.w, "rsload ctx=%s when=restart n=%d => err:%s\n", l.ctx, n, c04Short(err))
			return
		case got == nil:
			fmt.Fprintf(l.w, "rsload ctx=%s when=restart n=%d => missing\n", l.ctx, n)
			return
		}
		if d := c04SameRet(pristine, got); d != "" {
			fmt.Fprintf(l.w, "rsload ctx=%s when=restart n=%d => diff:%s\n", l.ctx, n, d)
		} else {
			fmt.Fprintf(l.w, "rsload ctx=%s when=restart n=%d => same\n", l.ctx, n)
		}
		live := c04BoList(names, ret.breachedOutputs)
		ret = got
		l.deliver("r1", names, ret, hist)
		fmt.Fprintf(l.w, "ubisame ctx=%s live=%s reloaded=%s => %v\n", l.ctx, live,
			c04BoList(names, ret.breachedOutputs), live == c04BoList(names, ret.breachedOutputs))
	}

	if len(ret.breachedOutputs) == 0 {
		l.store.rs.Remove(&vst.FundingOutpoint)
		return
	}
	// round 2: re-built justice transactions
	txs2, err := l.brar.createJusticeTx(ret.breachedOutputs)
	if err != nil {
		fmt.Fprintf(l.w, "jtx ctx=%s => err:%s\n", l.ctx, c04Short(err))
		return
	}
	fmt.Fprintf(l.w, "jtx ctx=%s => ok\n", l.ctx)
	l.emitJustice("r2", txs2, prev)

	// batch 2: our split transactions confirm one after the other (commit outs,
	// HTLC outs, each second-level sweep), the slice is compacted in between and
	// the rest is re-signed
	var ours []*justiceTxCtx
	ours = append(ours, txs2.spendSecondLevelHTLCs...)
	if txs2.spendHTLCs != nil {
		ours = append(ours, txs2.spendHTLCs)
	}
	if txs2.spendCommitOuts != nil {
		ours = append(ours, txs2.spendCommitOuts)
	}
	l.r.Shuffle(len(ours), func(a, b int) { ours[a], ours[b] = ours[b], ours[a] })
	for k, jc := range ours {
		jt := jc.justiceTx
		hash := jt.TxHash()
		var evs []c04Ev
		for i := range jt.TxIn {
			op := jt.TxIn[i].PreviousOutPoint
			evs = append(evs, c04Ev{op: op, ours: true, detail: &chainntnfs.SpendDetail{
				SpentOutPoint: &op, SpenderTxHash: &hash, SpendingTx: jt,
				SpenderInputIndex: uint32(i), SpendingHeight: 780}})
		}
		l.deliver(fmt.Sprintf("2.%d", k), names, ret, evs)
		if len(ret.breachedOutputs) == 0 {
			break
		}
		if k == 0 {
			txs3, err := l.brar.createJusticeTx(ret.breachedOutputs)
			if err != nil {
				fmt.Fprintf(l.w, "jtx ctx=%s => err:%s\n", l.ctx, c04Short(err))
				return
			}
			l.emitJustice("r3", &justiceTxVariants{spendAll: txs3.spendAll}, prev)
		}
	}
	fmt.Fprintf(l.w, "lifeend ctx=%s left=%s second=%d shifted=%d => %d\n", l.ctx,
		c04BoList(names, ret.breachedOutputs), nSecond, nShifted, len(ret.breachedOutputs))
	if len(ret.breachedOutputs) == 0 {
		// cleanupBreach
		if err := l.store.rs.Remove(&vst.FundingOutpoint); err != nil {
			fmt.Fprintf(l.w, "rsload ctx=%s when=remove => err:%s\n", l.ctx, c04Short(err))
		}
		if b, err := l.store.rs.IsBreached(&vst.FundingOutpoint); err != nil || b {
			fmt.Fprintf(l.w, "rsload ctx=%s when=after-remove => still-breached\n", l.ctx)
		}
	}
}

// c04StoreScenario drives the real RetributionStore with a random operation
// list over several channel points (the retributions of this case, re-keyed).
func c04StoreScenario(w *bufio.Writer, r *rand.Rand, dir string, pool []*retributionInfo, nOps int) {
	if len(pool) == 0 {
		return
	}
	st, err := c04OpenStore(dir)
	if err != nil {
		fmt.Fprintf(w, "rs op=open => err\n")
		return
	}
	defer st.close()
	digest := func(ri *retributionInfo) string {
		return fmt.Sprintf("%x/%d/%d", ri.commitHash[:4], ri.breachHeight, len(ri.breachedOutputs))
	}
	nKeys := 2 + r.Intn(3)
	keyed := func(k int) *retributionInfo {
		src := pool[r.Intn(len(pool))]
		cp := *src
		cp.chanPoint.Index = uint32(100 + k)
		cp.breachedOutputs = append([]breachedOutput(nil), src.breachedOutputs...)
		return &cp
	}
	cpOf := func(k int) *wire.OutPoint {
		cp := pool[0].chanPoint
		cp.Index = uint32(100 + k)
		return &cp
	}
	for i := 0; i < nOps; i++ {
		k := r.Intn(nKeys)
		switch c := r.Intn(10); {
		case c < 3: // handleBreachHandoff: IsBreached, then Add
			ri := keyed(k)
			b, err := st.rs.IsBreached(cpOf(k))
			res := "skip"
			if err != nil {
				res = "err"
			} else if !b {
				res = "added"
				if err := st.rs.Add(ri); err != nil {
					res = "err"
				}
			}
			fmt.Fprintf(w, "rs op=handoff k=%d d=%s => %s\n", k, digest(ri), res)
		case c < 4: // plain Add (overwrites)
			ri := keyed(k)
			res := "ok"
			if err := st.rs.Add(ri); err != nil {
				res = "err"
			}
			fmt.Fprintf(w, "rs op=add k=%d d=%s => %s\n", k, digest(ri), res)
		case c < 6:
			res := "ok"
			if err := st.rs.Remove(cpOf(k)); err != nil {
				res = "err"
			}
			fmt.Fprintf(w, "rs op=remove k=%d => %s\n", k, res)
		case c < 7:
			b, err := st.rs.IsBreached(cpOf(k))
			res := fmt.Sprintf("%v", b)
			if err != nil {
				res = "err"
			}
			fmt.Fprintf(w, "rs op=isbreached k=%d => %s\n", k, res)
		case c < 8:
			res := "ok"
			if err := st.reopen(); err != nil {
				res = "err"
			}
			fmt.Fprintf(w, "rs op=restart => %s\n", res)
		default:
			var items []string
			err := st.rs.ForAll(func(ri *retributionInfo) error {
				items = append(items, fmt.Sprintf("%d:%s", int(ri.chanPoint.Index)-100, digest(ri)))
				return nil
			}, func() { items = nil })
			sort.Strings(items)
			res := strings.Join(items, ",")
			if res == "" {
				res = "-"
			}
			if err != nil {
				res = "err"
			}
			fmt.Fprintf(w, "rs op=forall => %s\n", res)
		}
	}
}
