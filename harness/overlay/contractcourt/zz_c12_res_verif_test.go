//go:build verif

package contractcourt

// C12 resolver-level stream ("resolvers"). Injected with `go test -overlay`.
//
// The REAL htlcOutgoingContestResolver / htlcTimeoutResolver /
// htlcIncomingContestResolver / htlcSuccessResolver are created with their
// real constructors and driven by the REAL ChannelArbitrator.launchResolvers +
// resolveContract loop (Launch, Resolve, SwapContract, Launch of the next
// resolver, ResolveContract) against a scripted chain oracle:
//
//   - block epochs (the current height is delivered at registration, like
//     the real notifiers do for a nil best block),
//   - confirmed spends of the HTLC outpoint (remembered: later registrations
//     are told immediately) and of the second-level output,
//   - unconfirmed (mempool) spends through a chainntnfs.MempoolWatcher set in
//     ChainArbitratorConfig.Mempool (or nil: neutrino),
//   - preimages through the witness beacon, settle / cancel through the
//     invoice registry's hodl channel.
//
// One event is delivered at a time; the harness waits until every other
// goroutine of the process is parked (runtime.Stack inspection) before it
// records what the resolver reported for that event: upstream ResolutionMsgs
// (fail / settle), sweeps offered, preimages added to the beacon, final HTLC
// outcomes, checkpoints with their report outcomes, contract swaps and the
// final ResolveContract.

import (
	"bufio"
	"errors"
	"fmt"
	"io"
	"math/rand"
	"os"
	"runtime"
	"sort"
	"strconv"
	"strings"
	"sync"
	"testing"
	"time"

	"github.com/btcsuite/btcd/btcec/v2"
	"github.com/btcsuite/btcd/chainhash/v2"
	"github.com/btcsuite/btcd/txscript/v2"
	"github.com/btcsuite/btcd/wire/v2"
	"github.com/lightningnetwork/lnd/chainntnfs"
	"github.com/lightningnetwork/lnd/channeldb"
	"github.com/lightningnetwork/lnd/fn/v2"
	"github.com/lightningnetwork/lnd/graph/db/models"
	"github.com/lightningnetwork/lnd/htlcswitch/hop"
	"github.com/lightningnetwork/lnd/input"
	"github.com/lightningnetwork/lnd/invoices"
	"github.com/lightningnetwork/lnd/kvdb"
	"github.com/lightningnetwork/lnd/lnmock"
	"github.com/lightningnetwork/lnd/lntypes"
	"github.com/lightningnetwork/lnd/lnwallet"
	"github.com/lightningnetwork/lnd/lnwallet/chainfee"
	"github.com/lightningnetwork/lnd/lnwire"
	"github.com/lightningnetwork/lnd/sweep"
)

// ---------------------------------------------------------------------------
// case description
// ---------------------------------------------------------------------------

type c12rCfg struct {
	out      bool   // offered (outgoing) HTLC, else received
	contest  bool   // start as contest resolver, else timeout / success resolver
	commit   string // remote | zf | legacy
	taproot  bool
	mempool  bool
	expiry   uint32
	h0       int32 // best height when the resolver is started
	bh       uint32
	idx      uint64
	known    bool // preimage already in the witness beacon at start (received HTLC)
	exit     bool // we are the exit hop (received HTLC)
	onionErr bool
	amtOK    bool
	cltvOK   bool
	regL     string // registry answer at Launch: nil | settle | notfound | cancel
	regR     string // registry answer in Resolve
	incub    bool   // outputIncubating restored from disk
}

type c12rEv struct {
	kind string // block conf mem conf2 pre wrongpre hodl
	h    int32
	k    string // spend kind: T S B (offered) / S X W (received); hodl: settle cancel
	ann  bool   // taproot annex appended
}

func (e c12rEv) String() string {
	switch e.kind {
	case "block":
		return fmt.Sprintf("block h=%d", e.h)
	case "conf", "mem":
		return fmt.Sprintf("%s k=%s ann=%d", e.kind, e.k, c12rb(e.ann))
	case "hodl":
		return "hodl k=" + e.k
	}
	return e.kind
}

func c12rb(b bool) int {
	if b {
		return 1
	}
	return 0
}

// ---------------------------------------------------------------------------
// environment (chain oracle + recorders)
// ---------------------------------------------------------------------------

type c12rMemSub struct {
	ev *chainntnfs.MempoolSpendEvent
	ch chan *chainntnfs.SpendDetail
}

type c12rEnv struct {
	mu        sync.Mutex
	eff       []string
	nEff      int
	height    int32
	spendSubs map[wire.OutPoint][]chan *chainntnfs.SpendDetail
	confirmed map[wire.OutPoint]*chainntnfs.SpendDetail
	epochSubs map[int]chan *chainntnfs.BlockEpoch
	epochSeq  int
	memSubs   map[wire.OutPoint][]c12rMemSub
	known     map[lntypes.Hash]lntypes.Preimage
	preSubs   []chan lntypes.Preimage
	hodl      chan<- interface{}
	cfg       *c12rCfg
	pre       lntypes.Preimage
	hash      lntypes.Hash
}

func (e *c12rEnv) effect(format string, a ...interface{}) {
	e.mu.Lock()
	e.eff = append(e.eff, fmt.Sprintf(format, a...))
	e.nEff++
	e.mu.Unlock()
}

func (e *c12rEnv) flush() string {
	e.mu.Lock()
	defer e.mu.Unlock()
	if len(e.eff) == 0 {
		return "-"
	}
	s := strings.Join(e.eff, " ")
	e.eff = nil
	return s
}

// --- chainntnfs.ChainNotifier ---

type c12rNotifier struct{ e *c12rEnv }

func (n *c12rNotifier) RegisterConfirmationsNtfn(*chainhash.Hash, []byte, uint32, uint32,
	...chainntnfs.NotifierOption) (*chainntnfs.ConfirmationEvent, error) {

	return nil, errors.New("c12r: confirmations not scripted")
}

func (n *c12rNotifier) RegisterSpendNtfn(op *wire.OutPoint, _ []byte,
	_ uint32) (*chainntnfs.SpendEvent, error) {

	e := n.e
	e.mu.Lock()
	defer e.mu.Unlock()
	ch := make(chan *chainntnfs.SpendDetail, 4)
	if sp, ok := e.confirmed[*op]; ok {
		ch <- sp
	}
	e.spendSubs[*op] = append(e.spendSubs[*op], ch)
	return &chainntnfs.SpendEvent{Spend: ch, Cancel: func() {}}, nil
}

func (n *c12rNotifier) RegisterBlockEpochNtfn(*chainntnfs.BlockEpoch) (
	*chainntnfs.BlockEpochEvent, error) {

	e := n.e
	e.mu.Lock()
	defer e.mu.Unlock()
	ch := make(chan *chainntnfs.BlockEpoch, 32)
	id := e.epochSeq
	e.epochSeq++
	e.epochSubs[id] = ch
	ch <- &chainntnfs.BlockEpoch{Height: e.height}
	return &chainntnfs.BlockEpochEvent{Epochs: ch, Cancel: func() {
		e.mu.Lock()
		delete(e.epochSubs, id)
		e.mu.Unlock()
	}}, nil
}

func (n *c12rNotifier) Start() error  { return nil }
func (n *c12rNotifier) Started() bool { return true }
func (n *c12rNotifier) Stop() error   { return nil }

// --- chainntnfs.MempoolWatcher ---

type c12rMempool struct{ e *c12rEnv }

func (m *c12rMempool) SubscribeMempoolSpent(op wire.OutPoint) (*chainntnfs.MempoolSpendEvent, error) {
	e := m.e
	e.mu.Lock()
	defer e.mu.Unlock()
	ch := make(chan *chainntnfs.SpendDetail, 8)
	ev := &chainntnfs.MempoolSpendEvent{Spend: ch}
	e.memSubs[op] = append(e.memSubs[op], c12rMemSub{ev: ev, ch: ch})
	return ev, nil
}

func (m *c12rMempool) CancelMempoolSpendEvent(sub *chainntnfs.MempoolSpendEvent) {
	e := m.e
	e.mu.Lock()
	defer e.mu.Unlock()
	for op, subs := range e.memSubs {
		var keep []c12rMemSub
		for _, s := range subs {
			if s.ev != sub {
				keep = append(keep, s)
			}
		}
		e.memSubs[op] = keep
	}
}

func (m *c12rMempool) LookupInputMempoolSpend(wire.OutPoint) fn.Option[wire.MsgTx] {
	return fn.None[wire.MsgTx]()
}

// --- WitnessBeacon ---

type c12rBeacon struct{ e *c12rEnv }

func (b *c12rBeacon) SubscribeUpdates(lnwire.ShortChannelID, *channeldb.HTLC, *hop.Payload,
	[]byte) (*WitnessSubscription, error) {

	e := b.e
	e.mu.Lock()
	defer e.mu.Unlock()
	ch := make(chan lntypes.Preimage, 8)
	e.preSubs = append(e.preSubs, ch)
	return &WitnessSubscription{WitnessUpdates: ch, CancelSubscription: func() {
		e.mu.Lock()
		defer e.mu.Unlock()
		var keep []chan lntypes.Preimage
		for _, c := range e.preSubs {
			if c != ch {
				keep = append(keep, c)
			}
		}
		e.preSubs = keep
	}}, nil
}

func (b *c12rBeacon) LookupPreimage(h lntypes.Hash) (lntypes.Preimage, bool) {
	b.e.mu.Lock()
	defer b.e.mu.Unlock()
	p, ok := b.e.known[h]
	return p, ok
}

func (b *c12rBeacon) AddPreimages(ps ...lntypes.Preimage) error {
	for _, p := range ps {
		ok := "bad"
		if p.Matches(b.e.hash) {
			ok = "ok"
		}
		b.e.effect("addpre:%s", ok)
		b.e.mu.Lock()
		b.e.known[p.Hash()] = p
		b.e.mu.Unlock()
	}
	return nil
}

// --- Registry ---

type c12rRegistry struct {
	Registry
	e *c12rEnv
}

func (r *c12rRegistry) answer(kind string) invoices.HtlcResolution {
	key := models.CircuitKey{}
	switch kind {
	case "settle":
		return invoices.NewSettleResolution(r.e.pre, key, 1, invoices.ResultReplayToSettled)
	case "notfound":
		return invoices.NewFailResolution(key, 1, invoices.ResultInvoiceNotFound)
	case "cancel":
		return invoices.NewFailResolution(key, 1, invoices.ResultInvoiceAlreadyCanceled)
	}
	return nil
}

func (r *c12rRegistry) NotifyExitHopHtlc(_ lntypes.Hash, _ lnwire.MilliSatoshi, _ uint32,
	_ int32, _ models.CircuitKey, hodlChan chan<- interface{}, _ lnwire.CustomRecords,
	_ invoices.Payload) (invoices.HtlcResolution, error) {

	if hodlChan == nil {
		return r.answer(r.e.cfg.regL), nil
	}
	r.e.mu.Lock()
	r.e.hodl = hodlChan
	r.e.mu.Unlock()
	return r.answer(r.e.cfg.regR), nil
}

func (r *c12rRegistry) HodlUnsubscribeAll(chan<- interface{}) {
	r.e.mu.Lock()
	r.e.hodl = nil
	r.e.mu.Unlock()
}

// --- onion ---

type c12rOnion struct {
	inner *mockOnionProcessor
	fail  bool
}

func (o *c12rOnion) ReconstructHopIterator(r io.Reader, rHash []byte,
	b hop.ReconstructBlindingInfo) (hop.Iterator, error) {

	if o.fail {
		return nil, errors.New("c12r: onion cannot be decoded")
	}
	return o.inner.ReconstructHopIterator(r, rHash, b)
}

// --- sweeper ---

type c12rSweeper struct{ e *c12rEnv }

func c12rSweepTag(w input.WitnessType) string {
	s := fmt.Sprint(w)
	s = strings.TrimPrefix(s, "Taproot")
	s = strings.TrimSuffix(s, "Final")
	switch s {
	case "HtlcOfferedRemoteTimeout":
		return "direct-timeout"
	case "HtlcOfferedTimeoutSecondLevelInputConfirmed", "HtlcLocalOfferedTimeout":
		return "timeout-tx"
	case "HtlcOfferedTimeoutSecondLevel":
		return "timeout-2nd"
	case "HtlcAcceptedRemoteSuccess":
		return "direct-success"
	case "HtlcAcceptedSuccessSecondLevelInputConfirmed", "HtlcAcceptedLocalSuccess":
		return "success-tx"
	case "HtlcAcceptedSuccessSecondLevel":
		return "success-2nd"
	}
	return s
}

func (s *c12rSweeper) SweepInput(inp input.Input, _ sweep.Params) (chan sweep.Result, error) {
	s.e.effect("sweep:%s", c12rSweepTag(inp.WitnessType()))
	return make(chan sweep.Result, 1), nil
}
func (s *c12rSweeper) RelayFeePerKW() chainfee.SatPerKWeight { return 253 }
func (s *c12rSweeper) UpdateParams(wire.OutPoint, sweep.Params) (chan sweep.Result, error) {
	return make(chan sweep.Result, 1), nil
}

// --- arbitrator log (only what resolveContract touches) ---

type c12rLog struct {
	ArbitratorLog
	e *c12rEnv
}

func c12rName(r ContractResolver) string {
	if p, ok := r.(*c12rProxy); ok {
		r = p.ContractResolver
	}
	switch r.(type) {
	case *htlcTimeoutResolver:
		return "TO"
	case *htlcOutgoingContestResolver:
		return "OC"
	case *htlcSuccessResolver:
		return "SU"
	case *htlcIncomingContestResolver:
		return "IC"
	case nil:
		return "nil"
	}
	return fmt.Sprintf("%T", r)
}

func (l *c12rLog) SwapContract(_, n ContractResolver) error {
	l.e.effect("swap:%s", c12rName(n))
	return nil
}

func (l *c12rLog) ResolveContract(ContractResolver) error {
	l.e.effect("resolved")
	return nil
}

// --- resolver proxy: records Resolve's error, wraps the next resolver ---

type c12rProxy struct {
	ContractResolver
	e *c12rEnv
}

func c12rErrTag(err error) string {
	switch {
	case err == nil:
		return "ok"
	case errors.Is(err, errResolverShuttingDown):
		return "shutdown"
	case errors.Is(err, errPreimageMismatch):
		return "preimage-mismatch"
	case errors.Is(err, errInvalidSuccessResolver):
		return "invalid-success-resolver"
	case errors.Is(err, errInvalidSpendDetails):
		return "invalid-spend-details"
	}
	return "other"
}

func (p *c12rProxy) Resolve() (next ContractResolver, err error) {
	defer func() {
		if r := recover(); r != nil {
			p.e.effect("panic")
			next, err = nil, errResolverShuttingDown
		}
	}()
	n, err := p.ContractResolver.Resolve()
	if err != nil && !errors.Is(err, errResolverShuttingDown) {
		p.e.effect("err:%s", c12rErrTag(err))
	}
	if n == nil {
		return nil, err
	}
	return &c12rProxy{ContractResolver: n, e: p.e}, err
}

func (p *c12rProxy) Launch() (err error) {
	defer func() {
		if r := recover(); r != nil {
			p.e.effect("panic")
			err = errors.New("panic")
		}
	}()
	err = p.ContractResolver.Launch()
	if err != nil {
		p.e.effect("launcherr:%s", c12rErrTag(err))
	}
	return err
}

// ---------------------------------------------------------------------------
// quiescence
// ---------------------------------------------------------------------------

var c12rStackBuf = make([]byte, 4<<20)

// c12rBusy reports whether any goroutine other than the caller is not parked.
func c12rBusy() bool {
	n := runtime.Stack(c12rStackBuf, true)
	gs := strings.Split(string(c12rStackBuf[:n]), "\n\n")
	for i, g := range gs {
		if i == 0 {
			continue // the calling goroutine comes first
		}
		nl := strings.Index(g, "\n")
		if nl < 0 {
			continue
		}
		hdr := g[:nl]
		lb, rb := strings.Index(hdr, "["), strings.LastIndex(hdr, "]")
		if lb < 0 || rb < lb {
			continue
		}
		st := hdr[lb+1 : rb]
		if c := strings.Index(st, ","); c >= 0 {
			st = st[:c]
		}
		switch st {
		case "select", "chan receive", "chan send", "semacquire", "sync.Mutex.Lock",
			"sync.RWMutex.RLock", "sync.RWMutex.Lock", "sync.Cond.Wait",
			"sync.WaitGroup.Wait", "select (no cases)", "chan receive (nil chan)",
			"chan send (nil chan)", "GC assist wait", "finalizer wait",
			"GC sweep wait", "GC scavenge wait", "force gc (idle)", "GC worker (idle)":
		default:
			return true
		}
	}
	return false
}

func (e *c12rEnv) quiet() {
	deadline := time.Now().Add(10 * time.Second)
	for time.Now().Before(deadline) {
		e.mu.Lock()
		mark := e.nEff
		e.mu.Unlock()
		if !c12rBusy() {
			runtime.Gosched()
			time.Sleep(150 * time.Microsecond)
			e.mu.Lock()
			same := e.nEff == mark
			e.mu.Unlock()
			if same && !c12rBusy() {
				return
			}
			continue
		}
		time.Sleep(100 * time.Microsecond)
	}
	e.effect("stuck")
}

// ---------------------------------------------------------------------------
// building resolvers and spends
// ---------------------------------------------------------------------------

var (
	c12rScript = []byte{0x51, 0x75, 0x51}
	c12rSig    = make([]byte, 72)
	c12rPriv   = func() *btcec.PrivateKey { k, _ := btcec.PrivKeyFromBytes([]byte{1, 2, 3, 4, 5, 6, 7, 8, 9}); return k }()
)

func c12rCtrlBlock() []byte {
	cb := txscript.ControlBlock{
		InternalKey: c12rPriv.PubKey(),
		LeafVersion: txscript.BaseLeafVersion,
	}
	b, _ := cb.ToBytes()
	return b
}

func c12rPk(taproot bool, tag byte) []byte {
	pk := make([]byte, 34)
	pk[0], pk[1] = 0x00, 0x20
	if taproot {
		pk[0] = 0x51
	}
	pk[2] = tag
	return pk
}

type c12rRun struct {
	cfg      c12rCfg
	env      *c12rEnv
	arb      *ChannelArbitrator
	first    ContractResolver
	htlcOp   wire.OutPoint
	secondOp wire.OutPoint // output of the second-level tx (when there is one)
	stageTx  *wire.MsgTx   // the (re-signed) second-level tx that spends the HTLC outpoint
	stageIdx uint32
}

func c12rNew(c c12rCfg, n int) *c12rRun {
	pre := lntypes.Preimage{0xc1, 0x2e, byte(n), byte(n >> 8), 7}
	e := &c12rEnv{
		height:    c.h0,
		spendSubs: map[wire.OutPoint][]chan *chainntnfs.SpendDetail{},
		confirmed: map[wire.OutPoint]*chainntnfs.SpendDetail{},
		epochSubs: map[int]chan *chainntnfs.BlockEpoch{},
		memSubs:   map[wire.OutPoint][]c12rMemSub{},
		known:     map[lntypes.Hash]lntypes.Preimage{},
		cfg:       &c,
		pre:       pre,
		hash:      pre.Hash(),
	}
	r := &c12rRun{cfg: c, env: e}
	r.htlcOp = wire.OutPoint{Hash: chainhash.Hash{0xc1, 0x2e, byte(n), byte(n >> 8)}, Index: 2}

	fwd, cltv := 100, uint32(40)
	if !c.amtOK {
		fwd = 1 << 30
	}
	if !c.cltvOK {
		cltv = c.expiry + 1
	}
	onion := &c12rOnion{inner: &mockOnionProcessor{isExit: c.exit, forwardAmount: fwd, outgoingCltv: cltv},
		fail: c.onionErr}

	chainCfg := ChainArbitratorConfig{
		Notifier:   &c12rNotifier{e: e},
		Sweeper:    &c12rSweeper{e: e},
		PreimageDB: &c12rBeacon{e: e},
		Registry:   &c12rRegistry{e: e},
		OnionProcessor: onion,
		ChainIO:    &c12rChainIO{e: e},
		IncubateOutputs: func(_ wire.OutPoint, o fn.Option[lnwallet.OutgoingHtlcResolution],
			_ fn.Option[lnwallet.IncomingHtlcResolution], _ uint32, _ fn.Option[int32],
			_ ...IncubateOption) error {

			e.effect("incubate")
			return nil
		},
		PublishTx: func(*wire.MsgTx, string) error {
			e.effect("publish")
			return nil
		},
		DeliverResolutionMsg: func(msgs ...ResolutionMsg) error {
			for _, m := range msgs {
				switch {
				case m.HtlcIndex != c.idx:
					e.effect("msg-wrong-index:%d", m.HtlcIndex)
				case m.Failure != nil && m.PreImage == nil:
					e.effect("fail")
				case m.Failure == nil && m.PreImage != nil:
					ok := "bad"
					mp := lntypes.Preimage(*m.PreImage)
					if mp.Matches(e.hash) {
						ok = "ok"
					}
					e.effect("settle:%s", ok)
				default:
					e.effect("msg-malformed")
				}
			}
			return nil
		},
		PutFinalHtlcOutcome: func(_ lnwire.ShortChannelID, id uint64, settled bool) error {
			if id != c.idx {
				e.effect("final-wrong-index:%d", id)
			}
			e.effect("final:%d", c12rb(settled))
			return nil
		},
		HtlcNotifier: &mockHTLCNotifier{},
		Budget:       *DefaultBudgetConfig(),
		QueryIncomingCircuit: func(models.CircuitKey) *models.CircuitKey {
			return nil
		},
	}
	if c.mempool {
		chainCfg.Mempool = &c12rMempool{e: e}
	}
	arbCfg := ChannelArbitratorConfig{
		ChainArbitratorConfig: chainCfg,
		PutResolverReport: func(_ kvdb.RwTx, rep *channeldb.ResolverReport) error {
			e.effect("rep:%s", c12rOutcome(rep.ResolverOutcome))
			return nil
		},
	}
	resCfg := ResolverConfig{
		ChannelArbitratorConfig: arbCfg,
		Checkpoint: func(_ ContractResolver, reps ...*channeldb.ResolverReport) error {
			var os []string
			for _, rp := range reps {
				os = append(os, c12rOutcome(rp.ResolverOutcome))
			}
			if len(os) == 0 {
				os = []string{"-"}
			}
			e.effect("ckpt:%s", strings.Join(os, "+"))
			return nil
		},
	}

	htlc := channeldb.HTLC{
		Amt:           20_000_000,
		RHash:         e.hash,
		HtlcIndex:     c.idx,
		RefundTimeout: c.expiry,
		Incoming:      !c.out,
		OnionBlob:     lnmock.MockOnion(),
	}
	sweepDesc := input.SignDescriptor{
		WitnessScript: c12rScript,
		Output:        &wire.TxOut{Value: 19_000, PkScript: c12rPk(c.taproot, 0xaa)},
	}
	if c.taproot {
		sweepDesc.ControlBlock = c12rCtrlBlock()
	}
	htlcDesc := input.SignDescriptor{
		WitnessScript: c12rScript,
		Output:        &wire.TxOut{Value: 20_000, PkScript: c12rPk(c.taproot, 0xbb)},
	}

	// the second-level transaction of our own commitment
	var stage *wire.MsgTx
	if c.commit != "remote" {
		var wit wire.TxWitness
		switch {
		case c.out && !c.taproot:
			wit = wire.TxWitness{{}, c12rSig, c12rSig, {}, c12rScript}
		case c.out && c.taproot:
			wit = wire.TxWitness{c12rSig[:64], c12rSig[:64], c12rScript, c12rCtrlBlock()}
		case !c.out && !c.taproot:
			wit = wire.TxWitness{{}, c12rSig, c12rSig, make([]byte, 32), c12rScript}
		default:
			wit = wire.TxWitness{c12rSig[:64], c12rSig[:64], make([]byte, 32), c12rScript, c12rCtrlBlock()}
		}
		stage = &wire.MsgTx{
			Version: 2,
			TxIn:    []*wire.TxIn{{PreviousOutPoint: r.htlcOp, Witness: wit}},
			TxOut:   []*wire.TxOut{{Value: sweepDesc.Output.Value, PkScript: sweepDesc.Output.PkScript}},
		}
		if c.out {
			stage.LockTime = c.expiry
		}
	}

	var res ContractResolver
	if c.out {
		or := lnwallet.OutgoingHtlcResolution{
			Expiry:        c.expiry,
			ClaimOutpoint: r.htlcOp,
			SweepSignDesc: sweepDesc,
			CsvDelay:      4,
		}
		if c.commit == "remote" {
			or.SweepSignDesc = htlcDesc
			or.SweepSignDesc.Output = &wire.TxOut{Value: 20_000, PkScript: c12rPk(c.taproot, 0xbb)}
		} else {
			or.SignedTimeoutTx = stage
			or.ClaimOutpoint = wire.OutPoint{Hash: stage.TxHash(), Index: 0}
			if c.commit == "zf" {
				or.SignDetails = &input.SignDetails{SignDesc: htlcDesc, PeerSig: testSig}
			}
		}
		if c.contest {
			oc := newOutgoingContestResolver(or, c.bh, htlc, 0, resCfg)
			oc.outputIncubating = c.incub
			res = oc
		} else {
			to := newTimeoutResolver(or, c.bh, htlc, 0, resCfg)
			to.outputIncubating = c.incub
			res = to
		}
	} else {
		ir := lnwallet.IncomingHtlcResolution{
			ClaimOutpoint: r.htlcOp,
			SweepSignDesc: sweepDesc,
			CsvDelay:      4,
		}
		if c.commit != "remote" {
			ir.SignedSuccessTx = stage
			ir.ClaimOutpoint = wire.OutPoint{Hash: stage.TxHash(), Index: 0}
			if c.commit == "zf" {
				ir.SignDetails = &input.SignDetails{SignDesc: htlcDesc, PeerSig: testSig}
			}
		}
		if c.contest {
			res = newIncomingContestResolver(ir, c.bh, htlc, 0, resCfg)
		} else {
			ir.Preimage = e.pre
			su := newSuccessResolver(ir, c.bh, htlc, 0, resCfg)
			su.outputIncubating = c.incub
			res = su
		}
	}
	if c.known {
		e.known[e.hash] = e.pre
	}

	// how the chain will show our second-level transaction
	if stage != nil {
		switch c.commit {
		case "zf":
			// re-signed by the sweeper: other inputs / outputs around ours
			rs := &wire.MsgTx{Version: 2, LockTime: stage.LockTime,
				TxIn: []*wire.TxIn{
					{PreviousOutPoint: wire.OutPoint{Hash: chainhash.Hash{0xaa, 0xbb}, Index: 0}},
					stage.TxIn[0],
				},
				TxOut: []*wire.TxOut{{Value: 111, PkScript: []byte{0xaa, 0xaa}}, stage.TxOut[0]},
			}
			r.stageTx, r.stageIdx = rs, 1
			r.secondOp = wire.OutPoint{Hash: rs.TxHash(), Index: 1}
		default:
			r.stageTx, r.stageIdx = stage, 0
			r.secondOp = wire.OutPoint{Hash: stage.TxHash(), Index: 0}
		}
	}

	r.first = res
	r.arb = &ChannelArbitrator{
		log:              &c12rLog{e: e},
		cfg:              arbCfg,
		quit:             make(chan struct{}),
		resolutionSignal: make(chan struct{}, 8),
	}
	return r
}

type c12rChainIO struct {
	lnwallet.BlockChainIO
	e *c12rEnv
}

func (c *c12rChainIO) GetBestBlock() (*chainhash.Hash, int32, error) {
	c.e.mu.Lock()
	defer c.e.mu.Unlock()
	return &chainhash.Hash{}, c.e.height, nil
}

func c12rOutcome(o channeldb.ResolverOutcome) string {
	switch o {
	case channeldb.ResolverOutcomeClaimed:
		return "claimed"
	case channeldb.ResolverOutcomeUnclaimed:
		return "unclaimed"
	case channeldb.ResolverOutcomeAbandoned:
		return "abandoned"
	case channeldb.ResolverOutcomeTimeout:
		return "timeout"
	case channeldb.ResolverOutcomeFirstStage:
		return "firststage"
	}
	return fmt.Sprintf("outcome%d", o)
}

// spendOf builds the transaction that spends the HTLC outpoint in the way
// `k` says. Witness shapes as in BOLT-3 / the taproot channel spec.
func (r *c12rRun) spendOf(k string, ann bool) (*wire.MsgTx, uint32) {
	c := r.cfg
	pre := r.env.pre[:]
	bad := make([]byte, 32)
	bad[0] = 0xee
	cb := c12rCtrlBlock()
	var wit wire.TxWitness
	local := c.commit != "remote"
	switch {
	// ---- offered HTLC -----------------------------------------------------
	case c.out && k == "T":
		if local {
			return r.stageTx, r.stageIdx
		}
		if c.taproot {
			wit = wire.TxWitness{c12rSig[:64], c12rScript, cb}
		} else {
			wit = wire.TxWitness{c12rSig, {}, c12rScript}
		}
	case c.out && (k == "S" || k == "B"):
		p := pre
		if k == "B" {
			p = bad
		}
		switch {
		case local && c.taproot:
			wit = wire.TxWitness{c12rSig[:64], p, c12rScript, cb}
		case local:
			wit = wire.TxWitness{c12rSig, p, c12rScript}
		case c.taproot:
			wit = wire.TxWitness{c12rSig[:64], c12rSig[:64], p, c12rScript, cb}
		default:
			wit = wire.TxWitness{{}, c12rSig, c12rSig, p, c12rScript}
		}
	// ---- received HTLC ----------------------------------------------------
	case !c.out && (k == "S" || k == "W" || k == "F"):
		if local && k != "F" {
			return r.stageTx, r.stageIdx
		}
		p := pre
		if k == "W" {
			p = bad
		}
		scr := c12rScript
		if k == "F" {
			scr = []byte{0x52, 0x75}
		}
		if c.taproot {
			wit = wire.TxWitness{c12rSig[:64], p, scr, cb}
		} else {
			wit = wire.TxWitness{c12rSig, p, scr}
		}
	default: // "X": the remote party's timeout path
		switch {
		case local && c.taproot:
			wit = wire.TxWitness{c12rSig[:64], c12rScript, cb}
		case local:
			wit = wire.TxWitness{c12rSig, {}, c12rScript}
		case c.taproot:
			wit = wire.TxWitness{c12rSig[:64], c12rSig[:64], c12rScript, cb}
		default:
			wit = wire.TxWitness{{}, c12rSig, c12rSig, {}, c12rScript}
		}
	}
	if ann && c.taproot {
		wit = append(wit, []byte{txscript.TaprootAnnexTag, 1})
	}
	tx := &wire.MsgTx{Version: 2,
		TxIn:  []*wire.TxIn{{PreviousOutPoint: r.htlcOp, Witness: wit}},
		TxOut: []*wire.TxOut{{Value: 18_000, PkScript: []byte{0x00, 0x14, byte(len(k)), k[0]}}},
	}
	return tx, 0
}

// describe renders the facts about a spend that the model takes as input:
// the witness element lengths, whether a 32-byte element is the HTLC's
// preimage, whether the revealed script is the one of our sweep descriptor and
// whether the spending tx carries the expected second-level output.
func (r *c12rRun) describe(ev c12rEv) string {
	if ev.kind != "conf" && ev.kind != "mem" {
		return ""
	}
	tx, idx := r.spendOf(ev.k, ev.ann)
	wit := tx.TxIn[idx].Witness
	var lens []string
	p := "none"
	for _, el := range wit {
		lens = append(lens, strconv.Itoa(len(el)))
		if len(el) == 32 {
			if string(el) == string(r.env.pre[:]) {
				p = "ok"
			} else if p != "ok" {
				p = "bad"
			}
		}
	}
	w := wit
	if r.cfg.taproot {
		w = input.StripTaprootAnnex(w)
	}
	scr := 0
	pos := len(w) - 1
	if r.cfg.taproot {
		pos = len(w) - 2
	}
	if pos >= 0 && string(w[pos]) == string(c12rScript) {
		scr = 1
	}
	lvl2 := 0
	if int(idx) < len(tx.TxOut) && tx.TxOut[idx].Value == 19_000 &&
		string(tx.TxOut[idx].PkScript) == string(c12rPk(r.cfg.taproot, 0xaa)) {

		lvl2 = 1
	}
	return fmt.Sprintf(" wit=%s p=%s scr=%d lvl2=%d", strings.Join(lens, ","), p, scr, lvl2)
}

func (r *c12rRun) detail(op wire.OutPoint, tx *wire.MsgTx, idx uint32, h int32) *chainntnfs.SpendDetail {
	hash := tx.TxHash()
	o := op
	return &chainntnfs.SpendDetail{SpentOutPoint: &o, SpenderTxHash: &hash, SpendingTx: tx,
		SpenderInputIndex: idx, SpendingHeight: h}
}

// deliver applies one environment event and waits for the resolver to settle.
func (r *c12rRun) deliver(ev c12rEv) {
	e := r.env
	switch ev.kind {
	case "block":
		e.mu.Lock()
		e.height = ev.h
		var ids []int
		for id := range e.epochSubs {
			ids = append(ids, id)
		}
		e.mu.Unlock()
		sort.Ints(ids)
		for _, id := range ids {
			e.mu.Lock()
			ch := e.epochSubs[id]
			e.mu.Unlock()
			if ch != nil {
				ch <- &chainntnfs.BlockEpoch{Height: ev.h}
				e.quiet()
			}
		}
	case "conf", "conf2":
		op := r.htlcOp
		var sp *chainntnfs.SpendDetail
		e.mu.Lock()
		h := e.height
		if ev.kind == "conf" {
			tx, idx := r.spendOf(ev.k, ev.ann)
			sp = r.detail(op, tx, idx, h)
		} else {
			op = r.secondOp
			tx := &wire.MsgTx{Version: 2, TxIn: []*wire.TxIn{{PreviousOutPoint: op,
				Witness: wire.TxWitness{c12rSig, c12rScript}}},
				TxOut: []*wire.TxOut{{Value: 17_000, PkScript: []byte{0x00, 0x14, 2}}}}
			sp = r.detail(op, tx, 0, h)
		}
		if _, dup := e.confirmed[op]; dup {
			e.mu.Unlock()
			return
		}
		e.confirmed[op] = sp
		subs := append([]chan *chainntnfs.SpendDetail{}, e.spendSubs[op]...)
		e.mu.Unlock()
		for _, ch := range subs {
			ch <- sp
			e.quiet()
		}
	case "mem":
		tx, idx := r.spendOf(ev.k, ev.ann)
		sp := r.detail(r.htlcOp, tx, idx, 0)
		e.mu.Lock()
		subs := append([]c12rMemSub{}, e.memSubs[r.htlcOp]...)
		e.mu.Unlock()
		for _, s := range subs {
			s.ch <- sp
			e.quiet()
		}
	case "pre", "wrongpre":
		p := e.pre
		if ev.kind == "wrongpre" {
			p = lntypes.Preimage{0xee, 0xee}
		}
		e.mu.Lock()
		e.known[p.Hash()] = p
		subs := append([]chan lntypes.Preimage{}, e.preSubs...)
		e.mu.Unlock()
		for _, ch := range subs {
			ch <- p
			e.quiet()
		}
	case "hodl":
		e.mu.Lock()
		ch := e.hodl
		e.mu.Unlock()
		if ch != nil {
			reg := &c12rRegistry{e: e}
			kind := "settle"
			if ev.k == "cancel" {
				kind = "cancel"
			}
			ch <- reg.answer(kind)
			e.quiet()
		}
	}
}

func (r *c12rRun) start() {
	p := &c12rProxy{ContractResolver: r.first, e: r.env}
	a := r.arb
	a.activeResolversLock.Lock()
	a.activeResolvers = []ContractResolver{p}
	a.activeResolversLock.Unlock()
	a.wg.Add(1)
	go func() {
		a.launchResolvers()
		a.resolveContract(p)
	}()
	r.env.quiet()
}

func (r *c12rRun) stop() {
	close(r.arb.quit)
	r.arb.activeResolversLock.Lock()
	rs := append([]ContractResolver{}, r.arb.activeResolvers...)
	r.arb.activeResolversLock.Unlock()
	for _, x := range rs {
		func() {
			defer func() { _ = recover() }()
			x.Stop()
		}()
	}
	done := make(chan struct{})
	go func() { r.arb.wg.Wait(); close(done) }()
	select {
	case <-done:
	case <-time.After(5 * time.Second):
	}
}

// ---------------------------------------------------------------------------
// generation
// ---------------------------------------------------------------------------

type c12r struct {
	w   *bufio.Writer
	rng *rand.Rand
	n   int
}

func (x *c12r) pf(format string, a ...interface{}) { fmt.Fprintf(x.w, format+"\n", a...) }

func (x *c12r) runCase(c c12rCfg, pre, evs []c12rEv) {
	x.n++
	r := c12rNew(c, x.n)
	x.pf("CASE r%d dir=%s start=%s commit=%s taproot=%d mempool=%d expiry=%d h0=%d bh=%d idx=%d known=%d exit=%d "+
		"onionerr=%d amtok=%d cltvok=%d regl=%s regr=%s incub=%d",
		x.n, map[bool]string{true: "out", false: "in"}[c.out],
		map[bool]string{true: "contest", false: "direct"}[c.contest], c.commit, c12rb(c.taproot),
		c12rb(c.mempool), c.expiry, c.h0, c.bh, c.idx, c12rb(c.known), c12rb(c.exit), c12rb(c.onionErr),
		c12rb(c.amtOK), c12rb(c.cltvOK), c.regL, c.regR, c12rb(c.incub))
	for _, ev := range pre {
		r.deliver(ev)
		x.pf("early %s%s => %s", ev, r.describe(ev), r.env.flush())
	}
	r.start()
	x.pf("start => %s", r.env.flush())
	for _, ev := range evs {
		r.deliver(ev)
		x.pf("%s%s => %s", ev, r.describe(ev), r.env.flush())
	}
	r.stop()
	x.pf("END")
}

func (x *c12r) pick(xs ...string) string { return xs[x.rng.Intn(len(xs))] }

// script draws a mostly chain-valid event script: heights ascend from h0;
// our own timeout transaction shows up in the mempool only once the best
// height is >= expiry and confirms only in a block > expiry.
func (x *c12r) script(c c12rCfg, n int) (pre, evs []c12rEv) {
	r := x.rng
	h := c.h0
	E := int32(c.expiry)
	stage1, stage2 := false, false
	for i := 0; i < n; i++ {
		var ev c12rEv
		roll := r.Intn(100)
		switch {
		case roll < 40:
			h++
			if r.Intn(12) == 0 {
				h += int32(r.Intn(3))
			}
			ev = c12rEv{kind: "block", h: h}
		case c.out && roll < 55:
			k := "S"
			if h >= E && r.Intn(2) == 0 {
				k = "T"
			}
			if r.Intn(25) == 0 {
				k = "B"
			}
			ev = c12rEv{kind: "mem", k: k, ann: c.taproot && r.Intn(4) == 0}
		case c.out && roll < 72:
			if stage1 {
				continue
			}
			k := "S"
			if h > E && r.Intn(2) == 0 {
				k = "T"
			}
			if r.Intn(30) == 0 {
				k = "B"
			}
			stage1 = true
			ev = c12rEv{kind: "conf", k: k, ann: c.taproot && r.Intn(4) == 0}
		case !c.out && roll < 52:
			ev = c12rEv{kind: x.pick("pre", "pre", "pre", "wrongpre")}
		case !c.out && roll < 60:
			ev = c12rEv{kind: "hodl", k: x.pick("settle", "settle", "cancel")}
		case !c.out && roll < 74:
			if stage1 {
				continue
			}
			k := "S"
			if h > E && r.Intn(2) == 0 {
				k = "X"
			}
			if r.Intn(30) == 0 {
				k = "W"
			}
			if r.Intn(30) == 0 {
				k = "F"
			}
			stage1 = true
			ev = c12rEv{kind: "conf", k: k, ann: c.taproot && r.Intn(4) == 0}
		case roll < 86:
			if !stage1 || stage2 || c.commit == "remote" {
				continue
			}
			stage2 = true
			ev = c12rEv{kind: "conf2"}
		default:
			continue
		}
		evs = append(evs, ev)
	}
	return nil, evs
}

func (x *c12r) genCfg() c12rCfg {
	r := x.rng
	E := uint32(150 + r.Intn(4)*100)
	c := c12rCfg{
		out:     r.Intn(2) == 0,
		contest: r.Intn(4) != 0,
		commit:  x.pick("remote", "remote", "zf", "zf", "legacy"),
		taproot: r.Intn(4) == 0,
		mempool: r.Intn(3) != 0,
		expiry:  E,
		idx:     uint64(r.Intn(50)),
		amtOK:   true,
		cltvOK:  true,
		regL:    "nil",
		regR:    "nil",
	}
	if c.commit == "legacy" {
		c.taproot = false
	}
	c.h0 = int32(E) - 4 + int32(r.Intn(7))
	if r.Intn(10) == 0 {
		c.h0 = int32(E) - 30
	}
	c.bh = uint32(c.h0) - uint32(r.Intn(3))
	if !c.out {
		c.known = r.Intn(5) == 0
		c.exit = r.Intn(3) == 0
		c.onionErr = r.Intn(25) == 0
		if c.exit {
			c.amtOK = r.Intn(12) != 0
			c.cltvOK = r.Intn(12) != 0
			c.regL = x.pick("nil", "nil", "nil", "settle", "notfound", "cancel")
			c.regR = x.pick("nil", "nil", "settle", "notfound", "cancel")
		}
	}
	return c
}

// systematic enumerates, for every resolver shape, each start height
// expiry-3..expiry+1 with every ordered pair of chain events around one block.
func (x *c12r) systematic(full bool) {
	const E = 150
	for _, out := range []bool{true, false} {
		for _, commit := range []string{"remote", "zf", "legacy"} {
			for _, contest := range []bool{true, false} {
				for _, mp := range []bool{true, false} {
					if !out && mp {
						continue
					}
					for off := int32(-3); off <= 1; off++ {
						base := c12rCfg{out: out, contest: contest, commit: commit, mempool: mp, expiry: E,
							h0: E + off, bh: uint32(E + off - 1), idx: 7, amtOK: true, cltvOK: true,
							regL: "nil", regR: "nil"}
						var alpha []c12rEv
						if out {
							alpha = []c12rEv{{kind: "mem", k: "S"}, {kind: "conf", k: "S"}}
							if mp {
								alpha = append(alpha, c12rEv{kind: "mem", k: "T"})
							}
						} else {
							alpha = []c12rEv{{kind: "pre"}, {kind: "wrongpre"}, {kind: "hodl", k: "settle"},
								{kind: "hodl", k: "cancel"}}
						}
						for _, a := range alpha {
							for split := 0; split <= 2; split++ {
								base.exit = a.kind == "hodl"
								var evs []c12rEv
								h := base.h0
								for i := 0; i < 4; i++ {
									if i == split {
										evs = append(evs, a)
									}
									h++
									evs = append(evs, c12rEv{kind: "block", h: h})
									if out && h > E && i == 2 {
										evs = append(evs, c12rEv{kind: "mem", k: "T"})
									}
								}
								if out {
									evs = append(evs, c12rEv{kind: "conf", k: "T"}, c12rEv{kind: "conf2"})
								} else {
									evs = append(evs, c12rEv{kind: "conf", k: x.pick("S", "X")}, c12rEv{kind: "conf2"})
								}
								if !full && x.rng.Intn(2) != 0 {
									continue
								}
								x.runCase(base, nil, evs)
							}
						}
					}
				}
			}
		}
	}
}

func TestVerifC12Res(t *testing.T) {
	outPath := os.Getenv("VERIF_OUT")
	if outPath == "" {
		t.Skip("VERIF_OUT not set")
	}
	seed, _ := strconv.ParseInt(os.Getenv("VERIF_SEED"), 10, 64)
	if seed == 0 {
		seed = 1
	}
	tier := os.Getenv("VERIF_TIER")
	f, err := os.Create(outPath)
	if err != nil {
		t.Fatal(err)
	}
	defer f.Close()
	w := bufio.NewWriterSize(f, 1<<20)
	defer w.Flush()
	x := &c12r{w: w, rng: rand.New(rand.NewSource(seed*7919 + 12))}

	x.pf("FACT maxfinalcltvdelta=%d", uint32(invoices.MaxFinalCltvDelta))

	n := 900
	if tier == "thorough" {
		n = 30000
	}
	x.systematic(tier == "thorough")
	for i := 0; i < n; i++ {
		c := x.genCfg()
		pre, evs := x.script(c, 3+x.rng.Intn(9))
		x.runCase(c, pre, evs)
		if i%200 == 0 {
			w.Flush()
		}
	}
}
