//go:build verif

package contractcourt

// C12 correspondence/monitor harness. Injected with `go test -overlay`.
//
// Two kinds of cases are written to VERIF_OUT for the Lean driver drv_c12:
//
//   kind=unit  the real checkLocalChainActions / checkRemoteChainActions /
//              constructChainActions / shouldGoOnChain on generated commit
//              sets; observable = the action map with sorted entries.
//   kind=arb   the real ChannelArbitrator (package's createTestChannelArbitrator
//              + mocks) with its real channelAttendant goroutine, driven by
//              block beats, user force-close requests and close events.
//              Observable per operation: resulting state, number of
//              ForceCloseChan calls, upstream fail batches (abandonForwards →
//              DeliverResolutionMsg), incoming-dust finalisations
//              (failIncomingDust → PutFinalHtlcOutcome) and the resolvers the
//              arbitrator inserted (type + htlc index).
//
// The freshly created resolvers are marked resolved at insertion time so that
// their own (asynchronous, chain-driven) logic stays inert at this level: what
// the HTLC resolvers do on chain events is exercised separately by the
// resolver-level stream in zz_c12_res_verif_test.go (TestVerifC12Res); restart
// and persistence of resolvers are C13's subject.

import (
	"bufio"
	"context"
	"crypto/sha256"
	"errors"
	"fmt"
	"math"
	"math/rand"
	"os"
	"runtime"
	"sort"
	"strconv"
	"strings"
	"sync"
	"testing"
	"time"

	"github.com/btcsuite/btcd/btcutil/v2"
	"github.com/btcsuite/btcd/chainhash/v2"
	"github.com/btcsuite/btcd/wire/v2"
	"github.com/lightningnetwork/lnd/chainio"
	"github.com/lightningnetwork/lnd/chainntnfs"
	"github.com/lightningnetwork/lnd/channeldb"
	"github.com/lightningnetwork/lnd/clock"
	"github.com/lightningnetwork/lnd/fn/v2"
	"github.com/lightningnetwork/lnd/input"
	"github.com/lightningnetwork/lnd/invoices"
	"github.com/lightningnetwork/lnd/kvdb"
	lnmock "github.com/lightningnetwork/lnd/lntest/mock"
	"github.com/lightningnetwork/lnd/lntypes"
	"github.com/lightningnetwork/lnd/lnwallet"
	"github.com/lightningnetwork/lnd/lnwallet/chainfee"
	"github.com/lightningnetwork/lnd/lnwire"
	"github.com/lightningnetwork/lnd/sweep"
)

// ---------------------------------------------------------------------------
// case description
// ---------------------------------------------------------------------------

type c12H struct {
	idx      uint64
	incoming bool
	amt      uint64
	exp      uint32
	out      int32
	hash     int
}

const (
	c12L = 0
	c12R = 1
	c12P = 2
)

var c12SetNames = [3]string{"L", "R", "P"}
var c12SetKeys = [3]HtlcSetKey{LocalHtlcSet, RemoteHtlcSet, RemotePendingHtlcSet}

type c12Case struct {
	dout, din uint32
	grace     bool
	sets      [3][]c12H
	pPresent  bool
	fwd       map[uint64]bool
	// hash id -> answer of the preimage lookup: 0 ErrInvoiceNotFound, 1 found in
	// the witness cache, 2 invoice with preimage, 3 invoice without preimage,
	// 4 ErrNoInvoicesCreated, 5 other (hard) registry error
	pre map[int]int
}

func c12Preimage(id int) lntypes.Preimage {
	return lntypes.Preimage(sha256.Sum256([]byte("c12-preimage-" + strconv.Itoa(id))))
}

func c12Hash(id int) [32]byte {
	p := c12Preimage(id)
	return sha256.Sum256(p[:])
}

func (h c12H) toHTLC() channeldb.HTLC {
	return channeldb.HTLC{
		RHash:         c12Hash(h.hash),
		Amt:           lnwire.MilliSatoshi(h.amt),
		RefundTimeout: h.exp,
		OutputIndex:   h.out,
		Incoming:      h.incoming,
		HtlcIndex:     h.idx,
		LogIndex:      h.idx,
	}
}

func (c *c12Case) htlcs(s int) []channeldb.HTLC {
	out := make([]channeldb.HTLC, 0, len(c.sets[s]))
	for _, h := range c.sets[s] {
		out = append(out, h.toHTLC())
	}
	return out
}

func (c *c12Case) commitSet(key *HtlcSetKey) *CommitSet {
	cs := &CommitSet{HtlcSets: map[HtlcSetKey][]channeldb.HTLC{
		LocalHtlcSet:  c.htlcs(c12L),
		RemoteHtlcSet: c.htlcs(c12R),
	}}
	if c.pPresent {
		cs.HtlcSets[RemotePendingHtlcSet] = c.htlcs(c12P)
	}
	if key != nil {
		cs.ConfCommitKey = fn.Some(*key)
	}
	return cs
}

// ---------------------------------------------------------------------------
// recording mocks
// ---------------------------------------------------------------------------

type c12Obs struct {
	mu        sync.Mutex
	fc        int
	fails     [][]uint64
	finals    []string
	res       []string
	otherMsgs int
	otherFin  int
}

func (o *c12Obs) reset() {
	o.mu.Lock()
	o.fc, o.fails, o.finals, o.res, o.otherMsgs, o.otherFin = 0, nil, nil, nil, 0, 0
	o.mu.Unlock()
}

func c12InStack(suffix string) bool {
	pc := make([]uintptr, 48)
	n := runtime.Callers(2, pc)
	frames := runtime.CallersFrames(pc[:n])
	for {
		f, more := frames.Next()
		if strings.HasSuffix(f.Function, suffix) {
			return true
		}
		if !more {
			return false
		}
	}
}

type c12Chan struct {
	obs *c12Obs
	err error
}

func (m *c12Chan) NewAnchorResolutions() (*lnwallet.AnchorResolutions, error) {
	return &lnwallet.AnchorResolutions{}, nil
}

func (m *c12Chan) ForceCloseChan() (*wire.MsgTx, error) {
	m.obs.mu.Lock()
	m.obs.fc++
	m.obs.mu.Unlock()
	if m.err != nil {
		return nil, m.err
	}
	return &wire.MsgTx{}, nil
}

type c12Sweeper struct{}

func (s *c12Sweeper) SweepInput(input.Input, sweep.Params) (chan sweep.Result, error) {
	return make(chan sweep.Result, 1), nil
}
func (s *c12Sweeper) RelayFeePerKW() chainfee.SatPerKWeight { return 253 }
func (s *c12Sweeper) UpdateParams(wire.OutPoint, sweep.Params) (chan sweep.Result, error) {
	return make(chan sweep.Result, 1), nil
}

type c12Registry struct {
	mockRegistry
	c *c12Case
	// hash -> kind
	kinds map[lntypes.Hash]int
}

func (r *c12Registry) LookupInvoice(_ context.Context, h lntypes.Hash) (invoices.Invoice, error) {
	switch r.kinds[h] {
	case 2:
		p := lntypes.Preimage{1}
		return invoices.Invoice{Terms: invoices.ContractTerm{PaymentPreimage: &p}}, nil
	case 3:
		return invoices.Invoice{}, nil
	case 4:
		// what the kv invoice store answers on a node that never created an invoice
		return invoices.Invoice{}, invoices.ErrNoInvoicesCreated
	case 5:
		return invoices.Invoice{}, errors.New("c12: invoice database failure")
	}
	return invoices.Invoice{}, invoices.ErrInvoiceNotFound
}

type c12Log struct {
	mu          sync.Mutex
	obs         *c12Obs
	state       ArbitratorState
	resolutions *ContractResolutions
	commitSet   *CommitSet
	inserted    []ContractResolver
	// bolt, when set, is a REAL boltArbitratorLog: the confirmed commit set is
	// written / read through the real InsertConfirmedCommitSet /
	// FetchConfirmedCommitSet (encodeCommitSet / decodeCommitSet, bucket layout).
	bolt *boltArbitratorLog
}

var _ ArbitratorLog = (*c12Log)(nil)

func (b *c12Log) CurrentState(kvdb.RTx) (ArbitratorState, error) { return b.state, nil }
func (b *c12Log) CommitState(s ArbitratorState) error {
	b.mu.Lock()
	b.state = s
	b.mu.Unlock()
	return nil
}
func (b *c12Log) FetchUnresolvedContracts() ([]ContractResolver, error) {
	b.mu.Lock()
	defer b.mu.Unlock()
	return append([]ContractResolver(nil), b.inserted...), nil
}

func c12ResolverName(r ContractResolver) string {
	switch x := r.(type) {
	case *htlcOutgoingContestResolver:
		return fmt.Sprintf("OC:%d", x.htlc.HtlcIndex)
	case *htlcTimeoutResolver:
		return fmt.Sprintf("TO:%d", x.htlc.HtlcIndex)
	case *htlcIncomingContestResolver:
		return fmt.Sprintf("IC:%d", x.htlc.HtlcIndex)
	case *htlcSuccessResolver:
		return fmt.Sprintf("SU:%d", x.htlc.HtlcIndex)
	case *commitSweepResolver:
		return "CS:0"
	case *anchorResolver:
		return "AN:0"
	case *breachResolver:
		return "BR:0"
	}
	return fmt.Sprintf("??%T:0", r)
}

func (b *c12Log) InsertUnresolvedContracts(_ []*channeldb.ResolverReport,
	resolvers ...ContractResolver) error {

	if !c12InStack("(*ChannelArbitrator).stateStep") {
		return nil
	}
	b.mu.Lock()
	b.inserted = append(b.inserted, resolvers...)
	b.mu.Unlock()
	b.obs.mu.Lock()
	for _, r := range resolvers {
		b.obs.res = append(b.obs.res, c12ResolverName(r))
		// keep the resolver's own logic inert (see file comment).
		if m, ok := r.(interface{ markResolved() }); ok {
			m.markResolved()
		}
	}
	b.obs.mu.Unlock()
	return nil
}
func (b *c12Log) SwapContract(ContractResolver, ContractResolver) error { return nil }
func (b *c12Log) ResolveContract(ContractResolver) error                { return nil }
func (b *c12Log) LogContractResolutions(c *ContractResolutions) error {
	b.mu.Lock()
	b.resolutions = c
	b.mu.Unlock()
	return nil
}
func (b *c12Log) FetchContractResolutions() (*ContractResolutions, error) {
	b.mu.Lock()
	defer b.mu.Unlock()
	if b.resolutions == nil {
		return nil, errNoResolutions
	}
	return b.resolutions, nil
}
func (b *c12Log) FetchChainActions() (ChainActionMap, error) { return nil, nil }
func (b *c12Log) InsertConfirmedCommitSet(c *CommitSet) error {
	if b.bolt != nil {
		return b.bolt.InsertConfirmedCommitSet(c)
	}
	b.mu.Lock()
	b.commitSet = c
	b.mu.Unlock()
	return nil
}
func (b *c12Log) FetchConfirmedCommitSet(tx kvdb.RTx) (*CommitSet, error) {
	if b.bolt != nil {
		return b.bolt.FetchConfirmedCommitSet(tx)
	}
	b.mu.Lock()
	defer b.mu.Unlock()
	if b.commitSet == nil {
		return nil, errNoCommitSet
	}
	return b.commitSet, nil
}
func (b *c12Log) WipeHistory() error { return nil }

// ---------------------------------------------------------------------------
// arbitrator construction
// ---------------------------------------------------------------------------

// c12Clock returns t0 on the first Now() (the start timestamp taken by Start)
// and t0+up afterwards, so that the uptime is fixed for the whole case.
type c12Clock struct {
	mu    sync.Mutex
	calls int
	t0    time.Time
	up    time.Duration
}

var _ clock.Clock = (*c12Clock)(nil)

func (c *c12Clock) Now() time.Time {
	c.mu.Lock()
	defer c.mu.Unlock()
	c.calls++
	if c.calls == 1 {
		return c.t0
	}
	return c.t0.Add(c.up)
}

func (c *c12Clock) TickAfter(time.Duration) <-chan time.Time { return make(chan time.Time) }

type c12Arb struct {
	ctx   *chanArbTestCtx
	arb   *ChannelArbitrator
	obs   *c12Obs
	log   *c12Log
	clk   *c12Clock
	grace time.Duration
	fcErr error
}

// c12Pending describes the arbitrator of a channel that is already marked
// closed in the database: the log of the previous incarnation, and what
// ChainArbitrator copies from the channel close summary into the config.
type c12Pending struct {
	lg        *c12Log
	closeType channeldb.ClosureType
	height    uint32
}

// c12NewArb builds the arbitrator. boot == nil: the package's test constructor
// (NewChannelArbitrator with EMPTY start-up HTLC sets; the sets arrive through
// link updates). boot != nil: the way ChainArbitrator does it at start-up /
// after a restart: NewChannelArbitrator with the given NON-EMPTY start-up sets
// (boot[s] = HTLCs of set s as loaded from the channel's commitments; the
// pending set only when bootP).
func c12NewArb(t *testing.T, c *c12Case, fcErr error, boot *[3][]channeldb.HTLC, bootP bool) *c12Arb {
	return c12NewArbP(t, c, fcErr, boot, bootP, nil)
}

func c12NewArbP(t *testing.T, c *c12Case, fcErr error, boot *[3][]channeldb.HTLC, bootP bool,
	pend *c12Pending) *c12Arb {

	obs := &c12Obs{}
	lg := &c12Log{obs: obs, state: StateDefault}
	if pend != nil {
		lg = pend.lg
		lg.obs = obs
	}
	ctx, err := createTestChannelArbitrator(t, lg)
	if err != nil {
		t.Fatalf("createTestChannelArbitrator: %v", err)
	}
	arb := ctx.chanArb
	t0 := time.Unix(1_700_000_000, 0)
	clk := &c12Clock{t0: t0}
	beacon := newMockWitnessBeacon()
	reg := &c12Registry{c: c, kinds: map[lntypes.Hash]int{}}
	for id, k := range c.pre {
		h := lntypes.Hash(c12Hash(id))
		switch k {
		case 1:
			beacon.lookupPreimage[h] = c12Preimage(id)
		case 2, 3, 4, 5:
			reg.kinds[h] = k
		}
	}
	arb.cfg.Clock = clk
	arb.cfg.PaymentsExpirationGracePeriod = 20 * time.Second
	arb.cfg.PreimageDB = beacon
	arb.cfg.Registry = reg
	arb.cfg.Sweeper = &c12Sweeper{}
	arb.cfg.OutgoingBroadcastDelta = c.dout
	arb.cfg.IncomingBroadcastDelta = c.din
	arb.cfg.Channel = &c12Chan{obs: obs, err: fcErr}
	fwd := c.fwd
	arb.cfg.IsForwardedHTLC = func(_ lnwire.ShortChannelID, idx uint64) bool {
		return fwd[idx]
	}
	arb.cfg.DeliverResolutionMsg = func(msgs ...ResolutionMsg) error {
		obs.mu.Lock()
		defer obs.mu.Unlock()
		if !c12InStack("(*ChannelArbitrator).abandonForwards") {
			obs.otherMsgs++
			return nil
		}
		batch := make([]uint64, 0, len(msgs))
		for _, m := range msgs {
			batch = append(batch, m.HtlcIndex)
		}
		sort.Slice(batch, func(i, j int) bool { return batch[i] < batch[j] })
		obs.fails = append(obs.fails, batch)
		return nil
	}
	arb.cfg.PutFinalHtlcOutcome = func(_ lnwire.ShortChannelID, id uint64, settled bool) error {
		obs.mu.Lock()
		defer obs.mu.Unlock()
		if !c12InStack("(*ChannelArbitrator).failIncomingDust") {
			obs.otherFin++
			return nil
		}
		s := strconv.FormatUint(id, 10)
		if settled {
			s += "!"
		}
		obs.finals = append(obs.finals, s)
		return nil
	}
	if pend != nil {
		arb.cfg.IsPendingClose = true
		arb.cfg.CloseType = pend.closeType
		arb.cfg.ClosingHeight = pend.height
	}
	if boot != nil {
		htlcSets := make(map[HtlcSetKey]htlcSet)
		htlcSets[LocalHtlcSet] = newHtlcSet(boot[c12L])
		htlcSets[RemoteHtlcSet] = newHtlcSet(boot[c12R])
		if bootP {
			htlcSets[RemotePendingHtlcSet] = newHtlcSet(boot[c12P])
		}
		arb = NewChannelArbitrator(arb.cfg, htlcSets, lg)
		ctx.chanArb = arb
	}
	return &c12Arb{ctx: ctx, arb: arb, obs: obs, log: lg, clk: clk, grace: 20 * time.Second, fcErr: fcErr}
}

// setUptime makes `Clock.Now() - startTimestamp` exceed the grace period iff
// past is true (boundary values: exactly the period, and one nanosecond more).
func (a *c12Arb) setUptime(past bool, r *rand.Rand) {
	a.setUptimeK(past, r.Intn(3))
}

func (a *c12Arb) setUptimeK(past bool, k int) {
	var up time.Duration
	if past {
		up = a.grace + []time.Duration{1, time.Second, 100 * a.grace}[k]
	} else {
		up = []time.Duration{0, a.grace - 1, a.grace}[k]
	}
	a.clk.mu.Lock()
	a.clk.up = up
	a.clk.mu.Unlock()
}

// ---------------------------------------------------------------------------
// rendering
// ---------------------------------------------------------------------------

var c12ActOrder = []struct {
	a ChainAction
	n string
}{
	{HtlcTimeoutAction, "T"}, {HtlcClaimAction, "C"}, {HtlcFailDustAction, "FD"},
	{HtlcOutgoingWatchAction, "OW"}, {HtlcIncomingWatchAction, "IW"},
	{HtlcIncomingDustFinalAction, "IDF"}, {HtlcFailDanglingAction, "FDG"},
}

func c12Render(m ChainActionMap, err error) string {
	if err != nil {
		return "err"
	}
	var parts []string
	known := 0
	for _, e := range c12ActOrder {
		hs, ok := m[e.a]
		if !ok {
			continue
		}
		known++
		items := make([]string, 0, len(hs))
		type it struct {
			idx uint64
			out int32
			exp uint32
		}
		its := make([]it, 0, len(hs))
		for _, h := range hs {
			its = append(its, it{h.HtlcIndex, h.OutputIndex, h.RefundTimeout})
		}
		sort.Slice(its, func(i, j int) bool {
			if its[i].idx != its[j].idx {
				return its[i].idx < its[j].idx
			}
			if its[i].out != its[j].out {
				return its[i].out < its[j].out
			}
			return its[i].exp < its[j].exp
		})
		for _, x := range its {
			items = append(items, fmt.Sprintf("%d@%d", x.idx, x.out))
		}
		parts = append(parts, e.n+"="+strings.Join(items, ","))
	}
	if known != len(m) {
		parts = append(parts, "UNKNOWN")
	}
	if len(parts) == 0 {
		return "-"
	}
	return strings.Join(parts, ";")
}

func c12U64s(xs []uint64) string {
	if len(xs) == 0 {
		return "-"
	}
	ss := make([]string, len(xs))
	for i, x := range xs {
		ss[i] = strconv.FormatUint(x, 10)
	}
	return strings.Join(ss, ",")
}

func c12I32s(xs []int32) string {
	if len(xs) == 0 {
		return "-"
	}
	ss := make([]string, len(xs))
	for i, x := range xs {
		ss[i] = strconv.FormatInt(int64(x), 10)
	}
	return strings.Join(ss, ",")
}

func c12State(s ArbitratorState) string {
	switch s {
	case StateDefault:
		return "D"
	case StateBroadcastCommit:
		return "BC"
	case StateCommitmentBroadcasted:
		return "CB"
	case StateContractClosed:
		return "CC"
	case StateWaitingFullResolution:
		return "WFR"
	case StateFullyResolved:
		return "FR"
	case StateError:
		return "ERR"
	}
	return "?"
}

var c12Triggers = []struct {
	t transitionTrigger
	n string
}{
	{chainTrigger, "chain"}, {userTrigger, "user"}, {remoteCloseTrigger, "remote"},
	{localCloseTrigger, "local"}, {coopCloseTrigger, "coop"}, {breachCloseTrigger, "breach"},
}

// ---------------------------------------------------------------------------
// writer
// ---------------------------------------------------------------------------

type c12 struct {
	forceBoot string
	// forceReboot: 1 = the close of the next arb case is a restart of a
	// pending-close channel, 2 = never; 0 = drawn
	forceReboot int
	pdb         kvdb.Backend
	pn          int
	t    *testing.T
	w    *bufio.Writer
	rng  *rand.Rand
	n    int
	tier string
}

func (x *c12) pf(format string, a ...interface{}) { fmt.Fprintf(x.w, format+"\n", a...) }

func c12b(b bool) int {
	if b {
		return 1
	}
	return 0
}

func (x *c12) header(kind string, c *c12Case, extra string) string {
	x.n++
	id := fmt.Sprintf("%s%d", kind[:1], x.n)
	x.pf("CASE %s kind=%s dout=%d din=%d grace=%d ppresent=%d%s", id, kind, c.dout, c.din,
		c12b(c.grace), c12b(c.pPresent), extra)
	for s := 0; s < 3; s++ {
		for _, h := range c.sets[s] {
			x.pf("H s=%s idx=%d in=%d amt=%d exp=%d out=%d hash=%d", c12SetNames[s], h.idx,
				c12b(h.incoming), h.amt, h.exp, h.out, h.hash)
		}
	}
	var fw []uint64
	for i, v := range c.fwd {
		if v {
			fw = append(fw, i)
		}
	}
	sort.Slice(fw, func(i, j int) bool { return fw[i] < fw[j] })
	var pr []uint64
	for i, v := range c.pre {
		if v == 1 || v == 2 {
			pr = append(pr, uint64(i))
		}
	}
	sort.Slice(pr, func(i, j int) bool { return pr[i] < pr[j] })
	x.pf("FWD %s", c12U64s(fw))
	x.pf("PERR %s", c12U64s(c12PreErr(c.pre)))
	x.pf("PRE %s", c12U64s(pr))
	return id
}

// ---------------------------------------------------------------------------
// generators
// ---------------------------------------------------------------------------

// hash ids whose lookup answers with a hard error
func c12PreErr(pre map[int]int) []uint64 {
	var out []uint64
	for i, v := range pre {
		if v == 5 {
			out = append(out, uint64(i))
		}
	}
	sort.Slice(out, func(i, j int) bool { return out[i] < out[j] })
	return out
}

func c12Pick32(r *rand.Rand, xs ...uint32) uint32 { return xs[r.Intn(len(xs))] }

func (x *c12) genCase(maxSlots int) *c12Case {
	r := x.rng
	c := &c12Case{fwd: map[uint64]bool{}, pre: map[int]int{}}
	c.dout = c12Pick32(r, 0, 1, 2, 5, 5, 10, 10, 18, 40, 144)
	c.din = c12Pick32(r, 0, 1, 2, 5, 5, 10, 10, 18, 40, 144)
	if r.Intn(14) == 0 {
		c.dout = c12Pick32(r, 1<<31, math.MaxUint32, 1<<20, 600)
	}
	if r.Intn(14) == 0 {
		c.din = c12Pick32(r, 1<<31, math.MaxUint32, 1<<20, 600)
	}
	c.grace = r.Intn(2) == 0
	var base uint32
	switch r.Intn(10) {
	case 0:
		base = uint32(r.Intn(12)) // expiry may be below delta: wrap-around of the cutoff
	case 1:
		base = math.MaxUint32 - uint32(r.Intn(80))
	default:
		base = 500 + uint32(r.Intn(1000))
	}
	n := r.Intn(maxSlots + 1)
	nextOut := [3]int32{}
	used := map[[2]uint64]bool{}
	// membership patterns as bit masks L=1,R=2,P=4
	outPat := []int{4, 2, 6, 3, 7, 7, 3, 2, 6}
	inPat := []int{1, 5, 7, 7, 3, 1, 3}
	for s := 0; s < n; s++ {
		h := c12H{}
		h.incoming = r.Intn(3) == 0
		h.idx = uint64(r.Intn(6))
		k := [2]uint64{uint64(c12b(h.incoming)), h.idx}
		for tries := 0; used[k] && tries < 8 && r.Intn(10) != 0; tries++ {
			h.idx = uint64(r.Intn(8))
			k[1] = h.idx
		}
		used[k] = true
		h.hash = s + 1
		if s > 0 && r.Intn(12) == 0 {
			h.hash = r.Intn(s) + 1
		}
		h.exp = base + uint32(r.Intn(60))
		if r.Intn(6) == 0 {
			h.exp = base
		}
		h.amt = uint64(1000 * (1 + r.Intn(5000)))
		var pat int
		if r.Intn(7) == 0 {
			pat = 1 + r.Intn(7)
		} else if h.incoming {
			pat = inPat[r.Intn(len(inPat))]
		} else {
			pat = outPat[r.Intn(len(outPat))]
		}
		dustBase := r.Intn(3) == 0
		dust := [3]bool{dustBase, dustBase, dustBase}
		if r.Intn(10) < 3 {
			dust[c12L] = !dustBase
		}
		if r.Intn(20) < 3 {
			dust[c12P] = !dust[c12R]
		}
		for set := 0; set < 3; set++ {
			if pat&(1<<set) == 0 {
				continue
			}
			hh := h
			if dust[set] {
				hh.out = -1
				if r.Intn(40) == 0 {
					hh.out = -2 - int32(r.Intn(3))
				}
			} else {
				hh.out = nextOut[set]
				nextOut[set]++
				if r.Intn(40) == 0 && hh.out > 0 {
					hh.out = int32(r.Intn(int(hh.out))) // shared output index (malformed)
				}
			}
			if r.Intn(30) == 0 {
				hh.exp = h.exp + uint32(r.Intn(5)) - 2 // per-set divergence (malformed)
			}
			if r.Intn(60) == 0 {
				hh.hash = h.hash + 100
			}
			c.sets[set] = append(c.sets[set], hh)
			if r.Intn(25) == 0 { // duplicate entry with different content
				d := hh
				d.out = -1 - d.out
				if d.out >= 0 {
					d.out = nextOut[set]
					nextOut[set]++
				} else {
					d.out = -1
				}
				c.sets[set] = append(c.sets[set], d)
			}
		}
		if !h.incoming {
			c.fwd[h.idx] = r.Intn(10) < 6
		}
	}
	for s := 0; s < 3; s++ {
		for _, h := range c.sets[s] {
			if _, ok := c.pre[h.hash]; !ok {
				switch v := r.Intn(40); {
				case v < 13:
					c.pre[h.hash] = 0
				case v < 24:
					c.pre[h.hash] = 4
				case v < 31:
					c.pre[h.hash] = 1
				case v < 35:
					c.pre[h.hash] = 2
				case v < 39:
					c.pre[h.hash] = 3
				default:
					c.pre[h.hash] = 5
				}
			}
		}
		r.Shuffle(len(c.sets[s]), func(i, j int) { c.sets[s][i], c.sets[s][j] = c.sets[s][j], c.sets[s][i] })
	}
	c.pPresent = len(c.sets[c12P]) > 0 || r.Intn(4) == 0
	return c
}

// heights of interest: around every cutoff and expiry (uint32 wrap-around).
func (c *c12Case) heights(r *rand.Rand, max int) []uint32 {
	seen := map[uint32]bool{}
	var hs []uint32
	add := func(v uint32) {
		if !seen[v] {
			seen[v] = true
			hs = append(hs, v)
		}
	}
	for s := 0; s < 3; s++ {
		for _, h := range c.sets[s] {
			d := c.dout
			if h.incoming {
				d = c.din
			}
			cut := h.exp - d
			for _, v := range []uint32{cut - 1, cut, cut + 1, h.exp - 1, h.exp, h.exp + 1} {
				add(v)
			}
		}
	}
	add(0)
	add(math.MaxUint32)
	r.Shuffle(len(hs), func(i, j int) { hs[i], hs[j] = hs[j], hs[i] })
	if len(hs) > max {
		hs = hs[:max]
	}
	sort.Slice(hs, func(i, j int) bool { return hs[i] < hs[j] })
	return hs
}

// ---------------------------------------------------------------------------
// unit level
// ---------------------------------------------------------------------------

func (x *c12) safe(f func() string) (res string) {
	defer func() {
		if r := recover(); r != nil {
			res = "panic"
		}
	}()
	return f()
}

func (x *c12) unitCase(c *c12Case, maxHeights int) {
	x.header("unit", c, "")
	a := c12NewArb(x.t, c, nil, nil, false)
	a.arb.startTimestamp = a.clk.Now()
	a.setUptime(c.grace, x.rng)
	arb := a.arb
	sets := c.commitSet(nil).toActiveHTLCSets()

	// shouldGoOnChain probes on every HTLC with both deltas.
	hs := c.heights(x.rng, maxHeights)
	for s := 0; s < 3; s++ {
		for _, h := range c.sets[s] {
			for _, d := range []uint32{c.dout, c.din} {
				cut := h.exp - d
				for _, ht := range []uint32{cut - 1, cut, cut + 1} {
					hh, dd, htt := h, d, ht
					res := x.safe(func() string {
						return strconv.Itoa(c12b(arb.shouldGoOnChain(hh.toHTLC(), dd, htt)))
					})
					x.pf("sgoc idx=%d in=%d exp=%d delta=%d h=%d => %s", h.idx, c12b(h.incoming),
						h.exp, d, ht, res)
				}
			}
		}
	}
	for _, ht := range hs {
		trigs := []int{0, 1 + x.rng.Intn(5)}
		for _, ti := range trigs {
			tr := c12Triggers[ti]
			ht := ht
			for _, conf := range []bool{false, true} {
				conf := conf
				res := x.safe(func() string {
					return c12Render(arb.checkLocalChainActions(ht, tr.t, sets, conf))
				})
				x.pf("local h=%d trig=%s conf=%d => %s", ht, tr.n, c12b(conf), res)
			}
			for _, pend := range []bool{false, true} {
				pend := pend
				res := x.safe(func() string {
					return c12Render(arb.checkRemoteChainActions(ht, tr.t, sets, pend))
				})
				x.pf("remote h=%d trig=%s pend=%d => %s", ht, tr.n, c12b(pend), res)
			}
			for k := 0; k < 3; k++ {
				key := c12SetKeys[k]
				res := x.safe(func() string {
					return c12Render(arb.constructChainActions(c.commitSet(&key), ht, tr.t))
				})
				x.pf("construct key=%s h=%d trig=%s => %s", c12SetNames[k], ht, tr.n, res)
			}
		}
	}
	x.pf("END")
	_ = arb.Stop()
}

// ---------------------------------------------------------------------------
// arbitrator level
// ---------------------------------------------------------------------------

type c12Run struct {
	x    *c12
	c    *c12Case
	a    *c12Arb
	done bool
	// boot: "link" (sets arrive through link updates before Start), "restart"
	// (sets given to NewChannelArbitrator, silent peer: no link update) or
	// "restart+upd" (stale start-up sets for the keys in stale, repaired by link
	// updates before Start).
	boot  string
	stale [3]bool
}

func (r *c12Run) barrier() {
	r.a.arb.UpdateContractSignals(&ContractSignals{ShortChanID: r.a.arb.cfg.ShortChanID})
}

func (r *c12Run) report(op string) {
	o := r.a.obs
	o.mu.Lock()
	var fb []string
	for _, b := range o.fails {
		fb = append(fb, c12U64s(b))
	}
	fails := "-"
	if len(fb) > 0 {
		fails = strings.Join(fb, "|")
	}
	fin := append([]string(nil), o.finals...)
	sort.Slice(fin, func(i, j int) bool {
		a, _ := strconv.Atoi(strings.TrimSuffix(fin[i], "!"))
		b, _ := strconv.Atoi(strings.TrimSuffix(fin[j], "!"))
		return a < b
	})
	finals := "-"
	if len(fin) > 0 {
		finals = strings.Join(fin, ",")
	}
	rs := append([]string(nil), o.res...)
	sort.Slice(rs, func(i, j int) bool {
		pi, pj := strings.SplitN(rs[i], ":", 2), strings.SplitN(rs[j], ":", 2)
		if pi[0] != pj[0] {
			return pi[0] < pj[0]
		}
		a, _ := strconv.Atoi(pi[1])
		b, _ := strconv.Atoi(pj[1])
		return a < b
	})
	res := "-"
	if len(rs) > 0 {
		res = strings.Join(rs, ",")
	}
	fc, other := o.fc, o.otherMsgs+o.otherFin
	o.mu.Unlock()
	st := r.a.arb.state
	r.x.pf("%s => st=%s fc=%d fails=%s finals=%s res=%s other=%d", op, c12State(st), fc, fails, finals, res, other)
	if st == StateFullyResolved || st == StateError {
		r.done = true
	}
}

func (r *c12Run) start(h uint32) {
	r.a.obs.reset()
	for s := 0; s < 3; s++ {
		if s == c12P && !r.c.pPresent {
			continue
		}
		if r.boot == "restart" || (r.boot == "restart+upd" && !r.stale[s]) {
			continue
		}
		r.a.arb.notifyContractUpdate(&ContractUpdate{HtlcKey: c12SetKeys[s], Htlcs: r.c.htlcs(s)})
	}
	// Start reads Clock.Now() as start timestamp (first call of c12Clock)
	// and then runs the first chain trigger asynchronously.
	if err := r.a.arb.Start(nil, newBeatFromHeight(int32(h))); err != nil {
		r.x.t.Fatalf("start: %v", err)
	}
	r.barrier()
	r.report(fmt.Sprintf("start h=%d", h))
}

// relink: the link reports a new HTLC set for one commitment while the
// arbitrator is running (the case's set s is replaced by hs).
func (r *c12Run) relink(s int, hs []c12H) {
	r.c.sets[s] = hs
	r.x.pf("UPD s=%s", c12SetNames[s])
	for _, h := range hs {
		r.x.pf("U s=%s idx=%d in=%d amt=%d exp=%d out=%d hash=%d", c12SetNames[s], h.idx,
			c12b(h.incoming), h.amt, h.exp, h.out, h.hash)
	}
	r.a.obs.reset()
	r.a.arb.notifyContractUpdate(&ContractUpdate{HtlcKey: c12SetKeys[s], Htlcs: r.c.htlcs(s)})
	r.barrier()
	r.report("relink")
}

type c12Ev struct {
	kind   string // none local remote pending breach coop
	evh    uint32
	resIn  []int32
	resOut []int32
	stx    bool // use SignedTimeoutTx for the outgoing resolutions
	// real, when set, is the close event dispatched by the real chainWatcher
	// (*RemoteUnilateralCloseInfo or *LocalUnilateralCloseInfo).
	real interface{}
	// presence of a commit / anchor resolution in the (real) close summary
	commit, anchor bool
}

var c12CommitHash = chainhash.Hash{0xc1, 0x02}

func (r *c12Run) enqueue(ev c12Ev) {
	arb := r.a.arb
	switch e := ev.real.(type) {
	case *RemoteUnilateralCloseInfo:
		arb.cfg.ChainEvents.RemoteUnilateralClosure <- e
		return
	case *LocalUnilateralCloseInfo:
		arb.cfg.ChainEvents.LocalUnilateralClosure <- e
		return
	}
	hash := c12CommitHash
	closeTx := &wire.MsgTx{TxIn: []*wire.TxIn{{PreviousOutPoint: wire.OutPoint{}, Witness: [][]byte{{0x1}, {0x2}}}}}
	if ev.kind == "local" {
		hash = closeTx.TxHash()
	}
	htlcRes := &lnwallet.HtlcResolutions{}
	for _, i := range ev.resIn {
		htlcRes.IncomingHTLCs = append(htlcRes.IncomingHTLCs, lnwallet.IncomingHtlcResolution{
			ClaimOutpoint: wire.OutPoint{Hash: hash, Index: uint32(i)},
			SweepSignDesc: input.SignDescriptor{Output: &wire.TxOut{}},
		})
	}
	for _, i := range ev.resOut {
		op := wire.OutPoint{Hash: hash, Index: uint32(i)}
		res := lnwallet.OutgoingHtlcResolution{
			Expiry:        1,
			ClaimOutpoint: op,
			SweepSignDesc: input.SignDescriptor{Output: &wire.TxOut{}},
		}
		if ev.stx {
			res.ClaimOutpoint = wire.OutPoint{Hash: chainhash.Hash{0xee}, Index: 7}
			res.SignedTimeoutTx = &wire.MsgTx{
				TxIn:  []*wire.TxIn{{PreviousOutPoint: op, Witness: [][]byte{{}}}},
				TxOut: []*wire.TxOut{{}},
			}
		}
		htlcRes.OutgoingHTLCs = append(htlcRes.OutgoingHTLCs, res)
	}
	switch ev.kind {
	case "remote", "pending":
		key := RemoteHtlcSet
		if ev.kind == "pending" {
			key = RemotePendingHtlcSet
		}
		arb.cfg.ChainEvents.RemoteUnilateralClosure <- &RemoteUnilateralCloseInfo{
			UnilateralCloseSummary: &lnwallet.UnilateralCloseSummary{
				SpendDetail:     &chainntnfs.SpendDetail{SpenderTxHash: &hash, SpendingHeight: int32(ev.evh)},
				HtlcResolutions: htlcRes,
			},
			CommitSet: *r.c.commitSet(&key),
		}
	case "local":
		key := LocalHtlcSet
		arb.cfg.ChainEvents.LocalUnilateralClosure <- &LocalUnilateralCloseInfo{
			SpendDetail: &chainntnfs.SpendDetail{SpendingHeight: int32(ev.evh)},
			LocalForceCloseSummary: &lnwallet.LocalForceCloseSummary{
				CloseTx: closeTx,
				ContractResolutions: fn.Some(lnwallet.ContractResolutions{
					HtlcResolutions: htlcRes,
				}),
			},
			ChannelCloseSummary: &channeldb.ChannelCloseSummary{},
			CommitSet:           *r.c.commitSet(&key),
		}
	case "breach":
		key := RemoteHtlcSet
		arb.cfg.ChainEvents.ContractBreach <- &BreachCloseInfo{
			BreachResolution: &BreachResolution{FundingOutPoint: wire.OutPoint{}},
			CommitSet:        *r.c.commitSet(&key),
			CommitHash:       hash,
			CloseSummary:     channeldb.ChannelCloseSummary{CloseHeight: ev.evh},
		}
	case "coop":
		arb.cfg.ChainEvents.CooperativeClosure <- &CooperativeCloseInfo{
			ChannelCloseSummary: &channeldb.ChannelCloseSummary{CloseHeight: ev.evh},
		}
	}
}

func (r *c12Run) block(h uint32, ev c12Ev) {
	r.a.obs.reset()
	op := fmt.Sprintf("block h=%d ev=%s", h, ev.kind)
	if ev.kind != "none" {
		op += fmt.Sprintf(" evh=%d resin=%s resout=%s stx=%d commit=%d anchor=%d", ev.evh, c12I32s(ev.resIn),
			c12I32s(ev.resOut), c12b(ev.stx), c12b(ev.commit), c12b(ev.anchor))
		r.enqueue(ev)
	}
	if err := r.a.arb.ProcessBlock(newBeatFromHeight(int32(h))); err != nil {
		r.x.pf("%s => err", op)
		r.done = true
		return
	}
	r.report(op)
}

func (r *c12Run) user() {
	r.a.obs.reset()
	errChan := make(chan error, 1)
	respChan := make(chan *wire.MsgTx, 1)
	r.a.arb.forceCloseReqs <- &forceCloseReq{errResp: errChan, closeTx: respChan}
	<-respChan
	err := <-errChan
	r.barrier()
	op := "user"
	if errors.Is(err, errAlreadyForceClosed) {
		op = "user already=1"
	}
	r.report(op)
}

// resolutions for the confirmed set: all non-dust output indices, with noise.
func (x *c12) resolutionsFor(c *c12Case, set int, exact bool) (in, out []int32) {
	for _, h := range c.sets[set] {
		if h.out < 0 {
			continue
		}
		if !exact && x.rng.Intn(12) == 0 {
			continue // missing resolution
		}
		if h.incoming {
			in = append(in, h.out)
		} else {
			out = append(out, h.out)
		}
	}
	if !exact && x.rng.Intn(10) == 0 {
		in = append(in, 40+int32(x.rng.Intn(3)))
	}
	if !exact && x.rng.Intn(10) == 0 {
		out = append(out, 50+int32(x.rng.Intn(3)))
	}
	sort.Slice(in, func(i, j int) bool { return in[i] < in[j] })
	sort.Slice(out, func(i, j int) bool { return out[i] < out[j] })
	return
}

func (x *c12) mkEv(c *c12Case, kind string, evh uint32, exact bool) c12Ev {
	ev := c12Ev{kind: kind, evh: evh}
	switch kind {
	case "local":
		ev.resIn, ev.resOut = x.resolutionsFor(c, c12L, exact)
		ev.stx = x.rng.Intn(2) == 0
	case "remote":
		ev.resIn, ev.resOut = x.resolutionsFor(c, c12R, exact)
	case "pending":
		ev.resIn, ev.resOut = x.resolutionsFor(c, c12P, exact)
	}
	return ev
}

// scenario: 0 blocks-until-close, 1 user-then-close, 2 direct close from default
func (x *c12) arbCase(c *c12Case, scen int, fcErrKind int, closeKind string, script []uint32) {
	var fcErr error
	fcName := "none"
	switch fcErrKind {
	case 1:
		fcErr, fcName = lnwallet.ErrForceCloseLocalDataLoss, "dataloss"
	case 2:
		fcErr, fcName = errors.New("c12 force close failure"), "other"
	}
	// how the arbitrator learns its HTLC sets (drawn before anything runs)
	boot := []string{"link", "restart", "restart", "restart+upd"}[x.rng.Intn(4)]
	if x.forceBoot != "" {
		boot = x.forceBoot
	}
	var stale [3]bool
	var bootSets [3][]channeldb.HTLC
	for s := 0; s < 3; s++ {
		bootSets[s] = c.htlcs(s)
		if boot == "restart+upd" && x.rng.Intn(2) == 0 {
			stale[s] = true
			bootSets[s] = bootSets[s][:x.rng.Intn(len(bootSets[s])+1)]
		}
	}
	// a later link update while still in StateDefault (pure deadline cases only)
	relinkAt, relinkSet, relinkCut := -1, x.rng.Intn(3), x.rng.Intn(3)
	if closeKind == "none" && scen == 0 && fcErrKind == 0 && x.rng.Intn(3) != 0 {
		relinkAt = x.rng.Intn(3)
	}
	x.header("arb", c, " fcerr="+fcName+" boot="+boot)
	var a *c12Arb
	if boot == "link" {
		a = c12NewArb(x.t, c, fcErr, nil, false)
	} else {
		a = c12NewArb(x.t, c, fcErr, &bootSets, c.pPresent)
	}
	run := &c12Run{x: x, c: c, a: a, boot: boot, stale: stale}
	defer func() {
		x.pf("END")
		_ = run.a.arb.Stop()
	}()

	hs := script
	if len(hs) == 0 {
		hs = []uint32{0}
	}
	// every random decision is drawn before the arbitrator runs, so that the
	// generated script does not depend on the (map-order dependent) answers.
	secondUser := x.rng.Intn(4) == 0
	breakRoll := make([]bool, len(hs))
	for i := range breakRoll {
		breakRoll[i] = x.rng.Intn(3) == 0
	}
	userAfter := x.rng.Intn(5) == 0
	evhOff := uint32(x.rng.Intn(3))
	if x.rng.Intn(8) == 0 {
		evhOff = uint32(x.rng.Intn(200))
	}
	bhOff := uint32(x.rng.Intn(2))
	if closeKind == "pending" && !c.pPresent {
		closeKind = "remote"
	}
	ev := x.mkEv(c, closeKind, 0, x.rng.Intn(4) != 0)
	// the close event is not delivered: the handler's persistence happens, the
	// node stops right after MarkChannelClosed, and the arbitrator of the now
	// pending-close channel is started again (drawn before anything runs)
	rebootDen := 32
	if x.tier == "thorough" {
		rebootDen = 40
	}
	reboot := closeKind != "none" && x.rng.Intn(rebootDen) == 0
	rebootUpK := x.rng.Intn(3)
	if x.forceReboot == 1 {
		reboot = closeKind != "none"
	} else if x.forceReboot == 2 {
		reboot = false
	}

	a.setUptime(c.grace, x.rng)
	run.start(hs[0])
	if run.done {
		return
	}
	last := hs[0]
	if scen == 1 {
		run.user()
		if run.done {
			return
		}
		if secondUser {
			run.user() // second request: already force closed
		}
	}
	if scen != 2 {
		for i, h := range hs[1:] {
			if i == relinkAt && a.arb.state == StateDefault && (relinkSet != c12P || c.pPresent) {
				// the link drops the newest HTLCs of one set / re-sends the set
				old := c.sets[relinkSet]
				keep := len(old) - relinkCut
				if keep < 0 {
					keep = 0
				}
				run.relink(relinkSet, append([]c12H(nil), old[:keep]...))
			}
			run.block(h, c12Ev{kind: "none"})
			last = h
			if run.done {
				return
			}
			if a.arb.state != StateDefault && breakRoll[i] {
				break
			}
		}
	}
	if scen == 0 && userAfter {
		run.user()
		if run.done {
			return
		}
	}
	if closeKind == "none" {
		return
	}
	ev.evh = last + evhOff
	bh := ev.evh + bhOff
	if reboot {
		run.reboot(bh, ev, rebootUpK)
	} else {
		run.block(bh, ev)
	}
	if run.done {
		return
	}
	// a trailing block: nothing more may happen.
	run.block(bh+1, c12Ev{kind: "none"})
}

// ---------------------------------------------------------------------------
// watcher level: the real chainWatcher on a real channel pair
// ---------------------------------------------------------------------------

// c12WHash maps a real payment hash back to the small hash id used in traces.
type c12W struct {
	x      *c12
	alice  *lnwallet.LightningChannel
	bob    *lnwallet.LightningChannel
	hashID map[[32]byte]int
	nextA  uint64 // next HTLC id offered by alice (us)
	nextB  uint64 // next HTLC id offered by bob
	liveA  []uint64
	liveB  []uint64
}

var c12Ctx = context.Background()

// amounts (sat): dust on both commitments / dust only on the peer's / output on both.
func (w *c12W) amount(ours bool) lnwire.MilliSatoshi {
	r := w.x.rng
	var sat int
	switch r.Intn(4) {
	case 0:
		sat = 500 + r.Intn(3000)
	case 1:
		if ours {
			sat = 4300 + r.Intn(1100) // output on ours, dust on theirs
		} else {
			sat = 4500 + r.Intn(700)
		}
	default:
		sat = 8000 + r.Intn(40000)
	}
	return lnwire.NewMSatFromSatoshis(btcutil.Amount(sat))
}

func (w *c12W) add(ours bool, expiry uint32) error {
	var id uint64
	if ours {
		id = w.nextA
	} else {
		id = w.nextB
	}
	hid := 100 + int(id)
	if !ours {
		hid = 200 + int(id)
	}
	h := c12Hash(hid)
	w.hashID[h] = hid
	htlc := &lnwire.UpdateAddHTLC{ID: id, PaymentHash: h, Amount: w.amount(ours), Expiry: expiry}
	from, to := w.alice, w.bob
	if !ours {
		from, to = w.bob, w.alice
	}
	if _, err := from.AddHTLC(htlc, nil); err != nil {
		return err
	}
	if _, err := to.ReceiveHTLC(htlc); err != nil {
		return err
	}
	if ours {
		w.nextA++
		w.liveA = append(w.liveA, id)
	} else {
		w.nextB++
		w.liveB = append(w.liveB, id)
	}
	return nil
}

// fail removes a locked-in HTLC: the receiver fails it.
func (w *c12W) fail(ours bool) error {
	live := &w.liveA
	if !ours {
		live = &w.liveB
	}
	if len(*live) == 0 {
		return nil
	}
	i := w.x.rng.Intn(len(*live))
	id := (*live)[i]
	*live = append((*live)[:i], (*live)[i+1:]...)
	recv, sender := w.bob, w.alice
	if !ours {
		recv, sender = w.alice, w.bob
	}
	if err := recv.FailHTLC(id, []byte("x"), nil, nil, nil); err != nil {
		return err
	}
	return sender.ReceiveFailHTLC(id, []byte("x"))
}

// half transitions
func (w *c12W) aliceSigns() error {
	c, err := w.alice.SignNextCommitment(c12Ctx)
	if err != nil {
		return err
	}
	return w.bob.ReceiveNewCommitment(c.CommitSigs)
}

func (w *c12W) bobSignsAliceRevokes() error {
	c, err := w.bob.SignNextCommitment(c12Ctx)
	if err != nil {
		return err
	}
	if err := w.alice.ReceiveNewCommitment(c.CommitSigs); err != nil {
		return err
	}
	rev, _, _, err := w.alice.RevokeCurrentCommitment()
	if err != nil {
		return err
	}
	_, _, err = w.bob.ReceiveRevocation(rev)
	return err
}

func (w *c12W) toC12H(hs []channeldb.HTLC) []c12H {
	out := make([]c12H, 0, len(hs))
	for _, h := range hs {
		out = append(out, c12H{idx: h.HtlcIndex, incoming: h.Incoming, amt: uint64(h.Amt),
			exp: h.RefundTimeout, out: h.OutputIndex, hash: w.hashID[h.RHash]})
	}
	sort.Slice(out, func(i, j int) bool {
		if out[i].incoming != out[j].incoming {
			return !out[i].incoming
		}
		return out[i].idx < out[j].idx
	})
	return out
}

func (x *c12) watcherCase() {
	r := x.rng
	t := x.t
	alice, bob, err := lnwallet.CreateTestChannels(t, channeldb.SingleFunderTweaklessBit)
	if err != nil {
		t.Fatalf("CreateTestChannels: %v", err)
	}
	w := &c12W{x: x, alice: alice, bob: bob, hashID: map[[32]byte]int{}}
	base := uint32(600 + r.Intn(400))
	exp := func() uint32 { return base + uint32(r.Intn(60)) }
	must := func(err error) bool {
		if err != nil {
			x.n++
			x.pf("CASE w%d kind=watcher-skip", x.n)
			x.pf("END")
			return false
		}
		return true
	}
	// base state: locked in on all commitments
	nA, nB := r.Intn(4), r.Intn(3)
	for i := 0; i < nA; i++ {
		if !must(w.add(true, exp())) {
			return
		}
	}
	for i := 0; i < nB; i++ {
		if !must(w.add(false, exp())) {
			return
		}
	}
	if nA+nB > 0 {
		if !must(lnwallet.ForceStateTransition(alice, bob)) {
			return
		}
		if nB > 0 {
			if !must(lnwallet.ForceStateTransition(bob, alice)) {
				return
			}
		}
	}
	// divergence between the three commitments
	scen := r.Intn(7)
	switch scen {
	case 0: // all in sync
	case 1: // we add and sign: pending = base + new
		for i := 0; i < 1+r.Intn(2); i++ {
			if !must(w.add(true, exp())) {
				return
			}
		}
		if !must(w.aliceSigns()) {
			return
		}
	case 2, 3: // peer adds, signs, we revoke: ours = base + new; then maybe we sign
		for i := 0; i < 1+r.Intn(2); i++ {
			if !must(w.add(false, exp())) {
				return
			}
		}
		if !must(w.bobSignsAliceRevokes()) {
			return
		}
		if scen == 3 && !must(w.aliceSigns()) {
			return
		}
	case 4, 5: // peer fails one of our HTLCs, signs, we revoke: ours lacks it; then maybe we sign
		if !must(w.fail(true)) {
			return
		}
		if r.Intn(2) == 0 {
			if !must(w.add(true, exp())) {
				return
			}
		}
		if !must(w.bobSignsAliceRevokes()) {
			return
		}
		if scen == 5 && !must(w.aliceSigns()) {
			return
		}
	case 6: // we fail one of the peer's HTLCs and/or add, and sign: pending differs
		if !must(w.fail(false)) {
			return
		}
		if !must(w.add(true, exp())) {
			return
		}
		if !must(w.aliceSigns()) {
			return
		}
	}

	// dump the three commitments from the channel state before the spend
	st := alice.State()
	localC, remoteC, err := st.LatestCommitments()
	if !must(err) {
		return
	}
	c := &c12Case{fwd: map[uint64]bool{}, pre: map[int]int{}}
	c.dout = c12Pick32(r, 5, 10, 18, 40)
	c.din = c12Pick32(r, 5, 10, 18, 40)
	c.grace = r.Intn(2) == 0
	c.sets[c12L] = w.toC12H(localC.Htlcs)
	c.sets[c12R] = w.toC12H(remoteC.Htlcs)
	txs := [3]*wire.MsgTx{localC.CommitTx, remoteC.CommitTx, nil}
	tip, err := st.RemoteCommitChainTip()
	if err == nil && tip != nil {
		c.pPresent = true
		c.sets[c12P] = w.toC12H(tip.Commitment.Htlcs)
		txs[c12P] = tip.Commitment.CommitTx
	}
	for s := 0; s < 3; s++ {
		for _, h := range c.sets[s] {
			if !h.incoming {
				if _, ok := c.fwd[h.idx]; !ok {
					c.fwd[h.idx] = r.Intn(10) < 7
				}
			}
			if _, ok := c.pre[h.hash]; !ok {
				c.pre[h.hash] = []int{0, 4, 4, 0, 1}[r.Intn(5)]
			}
		}
	}
	spent := r.Intn(3)
	if txs[c12P] != nil && r.Intn(2) == 0 {
		spent = c12P
	}
	if txs[spent] == nil {
		spent = c12R
	}
	userFirst := r.Intn(2) == 0
	h0 := base - 100 - uint32(r.Intn(50))
	evh := h0 + 1 + uint32(r.Intn(3))

	// the real chain watcher
	notifier := &lnmock.ChainNotifier{
		SpendChan:      make(chan *chainntnfs.SpendDetail, 1),
		EpochChan:      make(chan *chainntnfs.BlockEpoch),
		ConfChan:       make(chan *chainntnfs.TxConfirmation, 1),
		ConfRegistered: make(chan struct{}, 1),
	}
	cw, err := newChainWatcher(chainWatcherConfig{
		chanState:           st,
		notifier:            notifier,
		signer:              alice.Signer,
		extractStateNumHint: lnwallet.GetStateNumHint,
		chanCloseConfs:      fn.Some(uint32(1)),
	})
	if !must(err) {
		return
	}
	if !must(cw.Start()) {
		return
	}
	defer cw.Stop()
	events := cw.SubscribeChannelEvents()
	tx := txs[spent]
	txHash := tx.TxHash()
	beat := &chainio.MockBlockbeat{}
	beat.On("logger").Return(log)
	beat.On("Height").Return(int32(evh)).Maybe()
	beat.On("NotifyBlockProcessed", nil, cw.quit).Return().Maybe()
	notifier.SpendChan <- &chainntnfs.SpendDetail{
		SpenderTxHash: &txHash, SpendingTx: tx, SpendingHeight: int32(evh),
	}
	select {
	case cw.BlockbeatChan <- beat:
	case <-time.After(5 * time.Second):
		t.Fatalf("watcher did not take the blockbeat")
	}

	sub, key := "none", "none"
	var cs *CommitSet
	var real interface{}
	var htlcRes *lnwallet.HtlcResolutions
	var hasCommit, hasAnchor bool
	select {
	case e := <-events.RemoteUnilateralClosure:
		sub, cs, real, htlcRes = "remote", &e.CommitSet, e, e.HtlcResolutions
		hasCommit, hasAnchor = e.CommitResolution != nil, e.AnchorResolution != nil
	case e := <-events.LocalUnilateralClosure:
		sub, cs, real = "local", &e.CommitSet, e
		if res, err := e.ContractResolutions.UnwrapOrErr(errors.New("none")); err == nil {
			htlcRes = res.HtlcResolutions
			hasCommit, hasAnchor = res.CommitResolution != nil, res.AnchorResolution != nil
		}
	case <-events.CooperativeClosure:
		sub = "coop"
	case <-events.ContractBreach:
		sub = "breach"
	case <-time.After(15 * time.Second):
		sub = "timeout"
	}
	evKind := "none"
	if cs != nil {
		cs.ConfCommitKey.WhenSome(func(k HtlcSetKey) {
			switch k {
			case LocalHtlcSet:
				key, evKind = "L", "local"
			case RemoteHtlcSet:
				key, evKind = "R", "remote"
			case RemotePendingHtlcSet:
				key, evKind = "P", "pending"
			}
		})
	}

	// trace: dump, what the watcher dispatched, then the dispatched CommitSet
	// as the case's HTLC sets.
	x.n++
	id := fmt.Sprintf("w%d", x.n)
	x.pf("CASE %s kind=watcher dout=%d din=%d grace=%d ppresent=%d fcerr=none scen=%d", id, c.dout, c.din,
		c12b(c.grace), c12b(c.pPresent), scen)
	for s := 0; s < 3; s++ {
		for _, h := range c.sets[s] {
			x.pf("D s=%s idx=%d in=%d amt=%d exp=%d out=%d hash=%d", c12SetNames[s], h.idx,
				c12b(h.incoming), h.amt, h.exp, h.out, h.hash)
		}
	}
	x.pf("WSPEND spent=%s sub=%s key=%s", c12SetNames[spent], sub, key)
	disp := &c12Case{dout: c.dout, din: c.din, grace: c.grace, fwd: c.fwd, pre: c.pre}
	if cs != nil {
		for s := 0; s < 3; s++ {
			if hs, ok := cs.HtlcSets[c12SetKeys[s]]; ok {
				disp.sets[s] = w.toC12H(hs)
				if s == c12P {
					disp.pPresent = true
				}
			}
		}
	}
	x.n-- // header() increments again
	for s := 0; s < 3; s++ {
		for _, h := range disp.sets[s] {
			x.pf("H s=%s idx=%d in=%d amt=%d exp=%d out=%d hash=%d", c12SetNames[s], h.idx,
				c12b(h.incoming), h.amt, h.exp, h.out, h.hash)
		}
	}
	x.n++
	var fw, pr []uint64
	for i, v := range c.fwd {
		if v {
			fw = append(fw, i)
		}
	}
	for i, v := range c.pre {
		if v == 1 || v == 2 {
			pr = append(pr, uint64(i))
		}
	}
	sort.Slice(fw, func(i, j int) bool { return fw[i] < fw[j] })
	sort.Slice(pr, func(i, j int) bool { return pr[i] < pr[j] })
	x.pf("FWD %s", c12U64s(fw))
	x.pf("PERR %s", c12U64s(c12PreErr(c.pre)))
	x.pf("PRE %s", c12U64s(pr))
	defer x.pf("END")
	if cs == nil || evKind == "none" || real == nil {
		return
	}

	// the arbitrator: told the HTLC sets the link saw (the dump), fed the
	// real close event.
	a := c12NewArb(t, c, nil, nil, false)
	defer func() { _ = a.arb.Stop() }()
	run := &c12Run{x: x, c: c, a: a}
	a.setUptime(c.grace, r)

	// unit level on the real CommitSet
	trig := remoteCloseTrigger
	tn := "remote"
	if evKind == "local" {
		trig, tn = localCloseTrigger, "local"
	}
	res := x.safe(func() string { return c12Render(a.arb.constructChainActions(cs, evh, trig)) })
	x.pf("construct key=%s h=%d trig=%s => %s", key, evh, tn, res)

	ev := c12Ev{kind: evKind, evh: evh, real: real, commit: hasCommit, anchor: hasAnchor}
	if htlcRes != nil {
		for _, ir := range htlcRes.IncomingHTLCs {
			ev.resIn = append(ev.resIn, int32(ir.HtlcPoint().Index))
		}
		for _, or := range htlcRes.OutgoingHTLCs {
			ev.resOut = append(ev.resOut, int32(or.HtlcPoint().Index))
		}
		sort.Slice(ev.resIn, func(i, j int) bool { return ev.resIn[i] < ev.resIn[j] })
		sort.Slice(ev.resOut, func(i, j int) bool { return ev.resOut[i] < ev.resOut[j] })
	}
	run.start(h0)
	if run.done {
		return
	}
	if userFirst {
		run.user()
		if run.done {
			return
		}
	}
	run.block(evh+uint32(r.Intn(2)), ev)
	if run.done {
		return
	}
	run.block(evh+2, c12Ev{kind: "none"})
}

// ---------------------------------------------------------------------------
// corpus: hand-written cases that run first
// ---------------------------------------------------------------------------

func c12Corpus() []struct {
	c     *c12Case
	scen  int
	fcErr int
	close string
	hs    []uint32
} {
	mk := func() *c12Case {
		return &c12Case{dout: 5, din: 5, grace: true, fwd: map[uint64]bool{}, pre: map[int]int{}}
	}
	type e = struct {
		c     *c12Case
		scen  int
		fcErr int
		close string
		hs    []uint32
	}
	var out []e

	// F2 witness: outgoing HTLC 99 has an output on our commitment and is
	// dust on the remote one; user force close, then REMOTE commitment confirms.
	f2 := mk()
	f2.sets[c12L] = []c12H{{idx: 99, amt: 10000000, exp: 700, out: 0, hash: 1}}
	f2.sets[c12R] = []c12H{{idx: 99, amt: 10000000, exp: 700, out: -1, hash: 1}}
	f2.fwd[99] = true
	out = append(out, e{f2, 1, 0, "remote", []uint32{100}})

	// same sets, remote commitment confirms without our broadcast: handled.
	out = append(out, e{f2, 2, 0, "remote", []uint32{100}})

	// dangling dust: outgoing HTLC 7 only on the remote pending commitment,
	// dust there, far from expiry; user force close, LOCAL commitment confirms.
	dd := mk()
	dd.sets[c12L] = []c12H{{idx: 3, amt: 5000000, exp: 900, out: 0, hash: 1}}
	dd.sets[c12R] = []c12H{{idx: 3, amt: 5000000, exp: 900, out: 0, hash: 1}}
	dd.sets[c12P] = []c12H{{idx: 3, amt: 5000000, exp: 900, out: 0, hash: 1},
		{idx: 7, amt: 100000, exp: 900, out: -1, hash: 2}}
	dd.pPresent = true
	dd.fwd[3], dd.fwd[7] = true, true
	out = append(out, e{dd, 1, 0, "local", []uint32{100}})

	// the package's own scenario: dust + non dust + incoming dust on local, local confirms.
	ok := mk()
	ok.sets[c12L] = []c12H{{idx: 99, amt: 10000000, exp: 700, out: 0, hash: 1},
		{idx: 100, amt: 100000, exp: 700, out: -1, hash: 2},
		{idx: 101, incoming: true, amt: 105000, exp: 700, out: -1, hash: 3}}
	ok.sets[c12R] = append([]c12H(nil), ok.sets[c12L]...)
	ok.fwd[99], ok.fwd[100] = true, true
	out = append(out, e{ok, 1, 0, "local", []uint32{100}})

	// offered HTLC 5 is dust on OUR commitment and has an output on the peer's;
	// user force close (fails 5 upstream at broadcast), then the REMOTE
	// commitment confirms: failed back although it has an output there.
	f2c := mk()
	f2c.sets[c12L] = []c12H{{idx: 5, amt: 600000, exp: 700, out: -1, hash: 1}}
	f2c.sets[c12R] = []c12H{{idx: 5, amt: 600000, exp: 700, out: 0, hash: 1}}
	f2c.fwd[5] = true
	out = append(out, e{f2c, 1, 0, "remote", []uint32{100}})

	// the peer's two commitments disagree on whether dangling HTLC 7 is dust;
	// user force close near its expiry, then OUR commitment confirms.
	f2b := mk()
	f2b.sets[c12L] = []c12H{{idx: 3, amt: 5000000, exp: 900, out: 0, hash: 1}}
	f2b.sets[c12R] = []c12H{{idx: 3, amt: 5000000, exp: 900, out: 0, hash: 1},
		{idx: 7, amt: 100000, exp: 900, out: -1, hash: 2}}
	f2b.sets[c12P] = []c12H{{idx: 3, amt: 5000000, exp: 900, out: 0, hash: 1},
		{idx: 7, amt: 100000, exp: 900, out: 1, hash: 2}}
	f2b.pPresent = true
	f2b.fwd[3], f2b.fwd[7] = true, true
	out = append(out, e{f2b, 1, 0, "local", []uint32{896}})

	// a node that never created an invoice (LookupInvoice answers
	// ErrNoInvoicesCreated) with a received HTLC whose preimage is unknown and a
	// forwarded offered HTLC reaching its cut-off: must still go on chain.
	ni := mk()
	ni.sets[c12L] = []c12H{{idx: 1, amt: 10000000, exp: 700, out: 0, hash: 1},
		{idx: 1, incoming: true, amt: 10000000, exp: 900, out: 1, hash: 2}}
	ni.sets[c12R] = append([]c12H(nil), ni.sets[c12L]...)
	ni.fwd[1] = true
	ni.pre[1], ni.pre[2] = 4, 4
	out = append(out, e{ni, 0, 0, "remote", []uint32{694, 695, 696}})

	// chain trigger exactly at the cutoff, one block before, one after.
	ct := mk()
	ct.sets[c12L] = []c12H{{idx: 1, amt: 10000000, exp: 700, out: 0, hash: 1}}
	ct.sets[c12R] = append([]c12H(nil), ct.sets[c12L]...)
	ct.fwd[1] = true
	out = append(out, e{ct, 0, 0, "local", []uint32{693, 694, 695, 696}})

	// incoming HTLC without preimage past its expiry: never go on chain.
	in := mk()
	in.sets[c12L] = []c12H{{idx: 1, incoming: true, amt: 10000000, exp: 700, out: 0, hash: 1}}
	in.sets[c12R] = append([]c12H(nil), in.sets[c12L]...)
	out = append(out, e{in, 0, 0, "none", []uint32{694, 695, 700, 701}})
	return out
}

// ---------------------------------------------------------------------------
// entry point
// ---------------------------------------------------------------------------

func TestVerifC12(t *testing.T) {
	outPath := os.Getenv("VERIF_OUT")
	if outPath == "" {
		t.Skip("VERIF_OUT not set")
	}
	seed, _ := strconv.ParseInt(os.Getenv("VERIF_SEED"), 10, 64)
	if seed == 0 {
		seed = 1
	}
	tier := os.Getenv("VERIF_TIER")
	f, err := os.Create(outPath)
	if err != nil {
		t.Fatal(err)
	}
	defer f.Close()
	w := bufio.NewWriterSize(f, 1<<20)
	defer w.Flush()
	x := &c12{t: t, w: w, rng: rand.New(rand.NewSource(seed)), tier: tier}

	x.pf("FACT timeout=%d claim=%d faildust=%d outwatch=%d inwatch=%d industfinal=%d faildangling=%d",
		HtlcTimeoutAction, HtlcClaimAction, HtlcFailDustAction, HtlcOutgoingWatchAction,
		HtlcIncomingWatchAction, HtlcIncomingDustFinalAction, HtlcFailDanglingAction)

	nUnit, nArb, nWatch, maxH := 1200, 14000, 250, 8
	if tier == "thorough" {
		nUnit, nArb, nWatch, maxH = 25000, 450000, 4000, 14
	}

	x.forceReboot = 2
	for _, e := range c12Corpus() {
		x.arbCase(e.c, e.scen, e.fcErr, e.close, e.hs)
	}
	// restart with one of our CommitSigs unrevoked: forwarded HTLC 8 exists only
	// on the peer's pending commitment; the peer stays silent until the HTLC
	// reaches expiry - delta (cut-off 695).
	{
		rs := &c12Case{dout: 5, din: 5, grace: true, fwd: map[uint64]bool{3: true, 8: true}, pre: map[int]int{}}
		rs.sets[c12L] = []c12H{{idx: 3, amt: 5000000, exp: 900, out: 0, hash: 1}}
		rs.sets[c12R] = []c12H{{idx: 3, amt: 5000000, exp: 900, out: 0, hash: 1}}
		rs.sets[c12P] = []c12H{{idx: 3, amt: 5000000, exp: 900, out: 0, hash: 1},
			{idx: 8, amt: 4000000, exp: 700, out: 1, hash: 2}}
		rs.pPresent = true
		for _, b := range []string{"restart", "link", "restart+upd"} {
			x.forceBoot = b
			x.arbCase(rs, 0, 0, "none", []uint32{600, 694, 695, 696})
		}
		x.forceBoot = ""
	}
	// the same corpus, the close arriving as a restart of the pending-close channel
	x.forceReboot = 1
	for _, e := range c12Corpus() {
		if e.close != "none" {
			x.arbCase(e.c, e.scen, e.fcErr, e.close, e.hs)
		}
	}
	x.forceReboot = 0
	nCodec := 120
	if tier == "thorough" {
		nCodec = 3000
	}
	for i := 0; i < nCodec; i++ {
		x.codecCase()
	}
	for _, e := range c12Corpus()[:3] {
		x.unitCase(e.c, maxH)
	}
	for i := 0; i < nUnit; i++ {
		x.unitCase(x.genCase(4+x.rng.Intn(3)), maxH)
	}
	for i := 0; i < nWatch; i++ {
		x.watcherCase()
		if i%50 == 0 {
			w.Flush()
		}
	}
	closeKinds := []string{"local", "remote", "pending", "local", "remote", "pending", "breach", "coop", "none"}
	for i := 0; i < nArb; i++ {
		c := x.genCase(3 + x.rng.Intn(3))
		scen := x.rng.Intn(3)
		fcErr := 0
		if x.rng.Intn(9) == 0 {
			fcErr = 1 + x.rng.Intn(2)
		}
		hs := c.heights(x.rng, 2+x.rng.Intn(5))
		x.arbCase(c, scen, fcErr, closeKinds[x.rng.Intn(len(closeKinds))], hs)
	}
	t.Logf("c12: time spent in reboot ops: %v", c12RebootDur)
}
