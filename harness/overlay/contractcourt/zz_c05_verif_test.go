//go:build verif

package contractcourt

// C05 harness, contract-court stream ("spend valid after reload of the
// resolution").  For real channel pairs of every channel type, for the node's
// own commitment (ForceClose) and for the peer's current and pending
// commitment (NewUnilateralCloseSummary), the resolutions are taken through
// the REAL persistence of the contract court and its REAL resolvers:
//
//	ContractResolutions -> boltArbitratorLog.LogContractResolutions
//	                    -> FetchContractResolutions (briefcase + taproot aux data)
//	resolvers (commit sweep / incoming contest -> success / outgoing contest,
//	timeout / anchor) -> InsertUnresolvedContracts -> FetchUnresolvedContracts
//	-> SupplementState / maybeAugmentTaprootResolvers / Supplement
//	-> applyPreimage -> Launch()  (input handed to a recording sweeper)
//	-> input.CraftInputScript (input.WitnessType.WitnessGenerator) -> btcd engine
//
// and, for the two-stage HTLC resolvers, through the checkpoint written after
// the second-level transaction confirmed (outputIncubating) and a second
// reload.  Pre-anchor channel types, whose HTLC outputs are handed to the utxo
// nursery, go through the nursery's own kid / baby output encoding.
//
// Every sign descriptor is printed before and after the round trip (`desc`),
// and the descriptor the signer finally receives is printed too (`signed`), so
// that the Lean model of what survives serialisation (`persist`) and of what
// the witness generators force (`effective`) is compared with the code.

import (
	"bufio"
	"bytes"
	"context"
	"crypto/sha256"
	"encoding/binary"
	"encoding/hex"
	"errors"
	"fmt"
	"math/rand"
	"os"
	"sort"
	"strconv"
	"strings"
	"testing"

	"github.com/btcsuite/btcd/address/v2"
	"github.com/btcsuite/btcd/btcec/v2"
	"github.com/btcsuite/btcd/btcec/v2/schnorr"
	"github.com/btcsuite/btcd/chainhash/v2"
	"github.com/btcsuite/btcd/txscript/v2"
	"github.com/btcsuite/btcd/wire/v2"
	"github.com/lightningnetwork/lnd/chainntnfs"
	"github.com/lightningnetwork/lnd/channeldb"
	"github.com/lightningnetwork/lnd/chanstate"
	"github.com/lightningnetwork/lnd/fn/v2"
	"github.com/lightningnetwork/lnd/input"
	"github.com/lightningnetwork/lnd/keychain"
	"github.com/lightningnetwork/lnd/kvdb"
	"github.com/lightningnetwork/lnd/lntypes"
	"github.com/lightningnetwork/lnd/lnwallet"
	"github.com/lightningnetwork/lnd/lnwallet/chainfee"
	"github.com/lightningnetwork/lnd/lnwire"
	"github.com/lightningnetwork/lnd/sweep"
)

const (
	c05cHeight      = 800_000 // "current height": default sweep locktime
	c05cCloseHeight = 777_000 // height at which the commitment confirmed
)

type c05cKind struct {
	name string
	ct   channeldb.ChannelType
}

var c05cKinds = []c05cKind{
	{"legacy", channeldb.SingleFunderBit},
	{"tweakless", channeldb.SingleFunderTweaklessBit},
	{"anchorsfee", channeldb.SingleFunderTweaklessBit | channeldb.AnchorOutputsBit},
	{"anchors", channeldb.SingleFunderTweaklessBit | channeldb.AnchorOutputsBit |
		channeldb.ZeroHtlcTxFeeBit},
	{"lease", channeldb.SingleFunderTweaklessBit | channeldb.AnchorOutputsBit |
		channeldb.ZeroHtlcTxFeeBit | channeldb.LeaseExpirationBit},
	{"taproot", channeldb.SingleFunderTweaklessBit | channeldb.AnchorOutputsBit |
		channeldb.ZeroHtlcTxFeeBit | channeldb.SimpleTaprootFeatureBit},
	{"taprootfinal", channeldb.SingleFunderTweaklessBit | channeldb.AnchorOutputsBit |
		channeldb.ZeroHtlcTxFeeBit | channeldb.SimpleTaprootFeatureBit |
		channeldb.TaprootFinalBit},
}

var c05cNode = [2]string{"A", "B"}

func c05cB2i(b bool) int {
	if b {
		return 1
	}
	return 0
}

// ---------------------------------------------------------------------------
// recording sweeper / signer / notifier
// ---------------------------------------------------------------------------

type c05cSweeper struct {
	inputs []input.Input
}

func (s *c05cSweeper) SweepInput(inp input.Input, _ sweep.Params) (chan sweep.Result, error) {
	s.inputs = append(s.inputs, inp)
	return make(chan sweep.Result, 1), nil
}

func (s *c05cSweeper) RelayFeePerKW() chainfee.SatPerKWeight { return 253 }

func (s *c05cSweeper) UpdateParams(wire.OutPoint, sweep.Params) (chan sweep.Result, error) {
	return make(chan sweep.Result, 1), nil
}

func (s *c05cSweeper) take() []input.Input {
	r := s.inputs
	s.inputs = nil
	return r
}

// c05cSigner records the descriptor the signer is finally asked to sign with.
type c05cSigner struct {
	input.Signer
	last *input.SignDescriptor
}

func (s *c05cSigner) SignOutputRaw(tx *wire.MsgTx, sd *input.SignDescriptor) (input.Signature, error) {
	cp := *sd
	s.last = &cp
	return s.Signer.SignOutputRaw(tx, sd)
}

// c05cNotifier answers spend registrations from a table.
type c05cNotifier struct {
	spends map[wire.OutPoint]*chainntnfs.SpendDetail
}

func (n *c05cNotifier) RegisterConfirmationsNtfn(*chainhash.Hash, []byte, uint32, uint32,
	...chainntnfs.NotifierOption) (*chainntnfs.ConfirmationEvent, error) {

	return &chainntnfs.ConfirmationEvent{
		Confirmed: make(chan *chainntnfs.TxConfirmation, 1),
		Cancel:    func() {},
	}, nil
}

func (n *c05cNotifier) RegisterSpendNtfn(op *wire.OutPoint, _ []byte, _ uint32) (*chainntnfs.SpendEvent, error) {
	ch := make(chan *chainntnfs.SpendDetail, 1)
	if op != nil {
		if sd, ok := n.spends[*op]; ok {
			ch <- sd
		}
	}
	return &chainntnfs.SpendEvent{Spend: ch, Cancel: func() {}}, nil
}

func (n *c05cNotifier) RegisterBlockEpochNtfn(*chainntnfs.BlockEpoch) (*chainntnfs.BlockEpochEvent, error) {
	return &chainntnfs.BlockEpochEvent{
		Epochs: make(chan *chainntnfs.BlockEpoch, 1),
		Cancel: func() {},
	}, nil
}

func (n *c05cNotifier) Start() error  { return nil }
func (n *c05cNotifier) Started() bool { return true }
func (n *c05cNotifier) Stop() error   { return nil }

// ---------------------------------------------------------------------------
// symbolic rendering (same vocabulary as the lnwallet stream)
// ---------------------------------------------------------------------------

type c05cTerms struct {
	byKey map[string]string
}

func (t *c05cTerms) put(k *btcec.PublicKey, name string) {
	t.byKey[string(k.SerializeCompressed())] = name
	t.byKey[string(schnorr.SerializePubKey(k))] = name
	t.byKey[string(address.Hash160(k.SerializeCompressed()))] = "h160(" + name + ")"
}

func c05cNewTerms(ch [2]*lnwallet.LightningChannel, commitPoint *btcec.PublicKey) *c05cTerms {
	t := &c05cTerms{byKey: map[string]string{}}
	for x := 0; x < 2; x++ {
		cfg := ch[x].State().LocalChanCfg
		n := c05cNode[x]
		bases := []struct {
			role string
			k    *btcec.PublicKey
		}{
			{"ms", cfg.MultiSigKey.PubKey}, {"rev", cfg.RevocationBasePoint.PubKey},
			{"pay", cfg.PaymentBasePoint.PubKey}, {"delay", cfg.DelayBasePoint.PubKey},
			{"htlc", cfg.HtlcBasePoint.PubKey},
		}
		for _, b := range bases {
			t.put(b.k, "bs:"+n+"."+b.role)
			if commitPoint != nil {
				t.put(input.TweakPubKey(b.k, commitPoint), "tw:"+n+"."+b.role)
			}
		}
		if commitPoint != nil {
			t.put(input.DeriveRevocationPubkey(cfg.RevocationBasePoint.PubKey, commitPoint),
				"rv:"+n+".rev")
		}
	}
	return t
}

func (t *c05cTerms) name(b []byte) (string, bool) {
	s, ok := t.byKey[string(b)]
	return s, ok
}

func (t *c05cTerms) baseTerm(k *btcec.PublicKey) string {
	if k == nil {
		return "nokey"
	}
	if s, ok := t.name(k.SerializeCompressed()); ok {
		return s
	}
	return "unknownkey"
}

func (t *c05cTerms) signerTerm(sd *input.SignDescriptor) string {
	if sd.KeyDesc.PubKey == nil {
		return "nokey"
	}
	pub := sd.KeyDesc.PubKey
	switch {
	case sd.SingleTweak != nil:
		pub = input.TweakPubKeyWithTweak(pub, sd.SingleTweak)
	case sd.DoubleTweak != nil:
		pub = input.DeriveRevocationPubkey(pub, sd.DoubleTweak.PubKey())
	}
	if s, ok := t.name(pub.SerializeCompressed()); ok {
		return s
	}
	return "unknownkey"
}

var c05cOpName = func() map[byte]string {
	m := map[byte]string{}
	for name, op := range txscript.OpcodeByName {
		if old, ok := m[op]; ok {
			if strings.HasPrefix(old, "OP_NOP") || old == "OP_TRUE" || old == "OP_FALSE" {
				m[op] = name
			}
			if strings.HasPrefix(name, "OP_NOP") || name == "OP_TRUE" || name == "OP_FALSE" {
				continue
			}
			if old < name && !strings.HasPrefix(old, "OP_NOP") && old != "OP_TRUE" && old != "OP_FALSE" {
				continue
			}
		}
		m[op] = name
	}
	return m
}()

func c05cScriptNum(b []byte) (int64, bool) {
	if len(b) == 0 {
		return 0, true
	}
	if len(b) > 5 {
		return 0, false
	}
	if b[len(b)-1]&0x7f == 0 {
		if len(b) == 1 || b[len(b)-2]&0x80 == 0 {
			return 0, false
		}
	}
	var v int64
	for i, x := range b {
		v |= int64(x) << (8 * uint(i))
	}
	if b[len(b)-1]&0x80 != 0 {
		v &= ^(int64(0x80) << (8 * uint(len(b)-1)))
		v = -v
	}
	return v, true
}

func (t *c05cTerms) renderScript(script []byte, payHash []byte) string {
	if len(script) == 0 {
		return "-"
	}
	var toks []string
	tk := txscript.MakeScriptTokenizer(0, script)
	for tk.Next() {
		op := tk.Opcode()
		data := tk.Data()
		switch {
		case op == txscript.OP_0:
			toks = append(toks, "OP_0")
		case op >= txscript.OP_1 && op <= txscript.OP_16:
			toks = append(toks, fmt.Sprintf("OP_%d", int(op-txscript.OP_1)+1))
		case data != nil:
			if s, ok := t.name(data); ok {
				toks = append(toks, "["+s+"]")
			} else if payHash != nil && bytes.Equal(data, input.Ripemd160H(payHash)) {
				toks = append(toks, "[rip:h]")
			} else if len(data) == 20 {
				toks = append(toks, "[rip:x]")
			} else if v, ok := c05cScriptNum(data); ok {
				toks = append(toks, fmt.Sprintf("num:%d", v))
			} else {
				toks = append(toks, fmt.Sprintf("[data:%d]", len(data)))
			}
		default:
			if n, ok := c05cOpName[op]; ok {
				toks = append(toks, n)
			} else {
				toks = append(toks, fmt.Sprintf("OP_UNKNOWN%d", op))
			}
		}
	}
	if tk.Err() != nil {
		toks = append(toks, "PARSE_ERROR")
	}
	return strings.Join(toks, ",")
}

func c05cIsSig(b []byte) (hashType int, ok bool) {
	switch {
	case len(b) == 64:
		return 0, true
	case len(b) == 65:
		return int(b[64]), true
	case len(b) >= 68 && len(b) <= 73 && b[0] == 0x30:
		return int(b[len(b)-1]), true
	}
	return 0, false
}

func (t *c05cTerms) renderWitness(w wire.TxWitness, nScriptElems int, sigTerms []string,
	payHash []byte) string {

	var toks []string
	si := 0
	for i := 0; i < len(w)-nScriptElems; i++ {
		e := w[i]
		if ht, ok := c05cIsSig(e); ok {
			term := "?"
			if si < len(sigTerms) {
				term = sigTerms[si]
			}
			si++
			toks = append(toks, fmt.Sprintf("sig(%s;%d)", term, ht))
			continue
		}
		switch {
		case len(e) == 0:
			toks = append(toks, "empty")
		case len(e) == 1:
			toks = append(toks, fmt.Sprintf("b%02x", e[0]))
		case len(e) == 33:
			if s, ok := t.name(e); ok {
				toks = append(toks, "key("+s+")")
			} else {
				toks = append(toks, "key(unknown)")
			}
		case len(e) == 32:
			h := sha256.Sum256(e)
			if payHash != nil && bytes.Equal(h[:], payHash) {
				toks = append(toks, "pre(h)")
			} else {
				toks = append(toks, "pre(x)")
			}
		default:
			toks = append(toks, fmt.Sprintf("data%d", len(e)))
		}
	}
	if len(toks) == 0 {
		return "-"
	}
	return strings.Join(toks, ",")
}

func c05cExec(tx *wire.MsgTx, idx int, prev map[wire.OutPoint]*wire.TxOut) (res string) {
	defer func() {
		if r := recover(); r != nil {
			res = "panic"
		}
	}()
	out, ok := prev[tx.TxIn[idx].PreviousOutPoint]
	if !ok {
		return "fail:noprevout"
	}
	fetcher := txscript.NewMultiPrevOutFetcher(prev)
	hc := txscript.NewTxSigHashes(tx, fetcher)
	vm, err := txscript.NewEngine(out.PkScript, tx, idx, txscript.StandardVerifyFlags,
		nil, hc, out.Value, fetcher)
	if err == nil {
		err = vm.Execute()
	}
	if err != nil {
		var se txscript.Error
		if errors.As(err, &se) {
			return "fail:" + se.ErrorCode.String()
		}
		return "fail:other"
	}
	return "ok"
}

func c05cSpkClass(pk []byte) string {
	switch {
	case txscript.IsPayToTaproot(pk):
		return "p2tr"
	case txscript.IsPayToWitnessScriptHash(pk):
		return "p2wsh"
	case txscript.IsPayToWitnessPubKeyHash(pk):
		return "p2wkh"
	}
	return "other"
}

func c05cNScriptElems(spk string, w wire.TxWitness) int {
	switch spk {
	case "p2wsh":
		return 1
	case "p2tr":
		if len(w) >= 2 {
			last := w[len(w)-1]
			if len(last) >= 33 && (len(last)-33)%32 == 0 && last[0]&0xfe == 0xc0 {
				return 2
			}
		}
		return 0
	}
	return 0
}

var c05cSweepPkScript = func() []byte {
	h := address.Hash160([]byte("c05 court sweep"))
	return append([]byte{txscript.OP_0, txscript.OP_DATA_20}, h...)
}()


// c05cKeyPathMatch tells whether the taproot output key is the descriptor's
// (tweaked) key with the descriptor's TapTweak applied (1 / 0; "-" if not
// applicable).
func c05cKeyPathMatch(sd *input.SignDescriptor, pkScript []byte) string {
	if sd == nil || !txscript.IsPayToTaproot(pkScript) || sd.KeyDesc.PubKey == nil || len(pkScript) != 34 {
		return "-"
	}
	pub := sd.KeyDesc.PubKey
	switch {
	case sd.SingleTweak != nil:
		pub = input.TweakPubKeyWithTweak(pub, sd.SingleTweak)
	case sd.DoubleTweak != nil:
		pub = input.DeriveRevocationPubkey(pub, sd.DoubleTweak.PubKey())
	}
	out := txscript.ComputeTaprootOutputKey(pub, sd.TapTweak)
	if bytes.Equal(schnorr.SerializePubKey(out), pkScript[2:34]) {
		return "1"
	}
	return "0"
}

// c05cDigest maps a byte string to a short non-zero number (0 = absent).
func c05cDigest(b []byte) uint64 {
	if len(b) == 0 {
		return 0
	}
	h := sha256.Sum256(b)
	return uint64(binary.BigEndian.Uint32(h[:4]))&0x7fffffff | 1
}

// c05cDescFields prints the fields of a sign descriptor the model talks about.
func (t *c05cTerms) descFields(prefix string, sd *input.SignDescriptor) string {
	var dbl []byte
	if sd.DoubleTweak != nil {
		dbl = sd.DoubleTweak.Serialize()
	}
	val, pk := int64(-1), []byte(nil)
	if sd.Output != nil {
		val, pk = sd.Output.Value, sd.Output.PkScript
	}
	return fmt.Sprintf("%sfam=%d %sidx=%d %skey=%s %ssingle=%d %sdouble=%d %stap=%d %sws=%d "+
		"%smethod=%d %sval=%d %spk=%d %sht=%d %scb=%d %sii=%d",
		prefix, uint32(sd.KeyDesc.Family), prefix, sd.KeyDesc.Index, prefix, t.baseTerm(sd.KeyDesc.PubKey),
		prefix, c05cDigest(sd.SingleTweak), prefix, c05cDigest(dbl), prefix, c05cDigest(sd.TapTweak),
		prefix, c05cDigest(sd.WitnessScript), prefix, uint8(sd.SignMethod), prefix, val,
		prefix, c05cDigest(pk), prefix, uint32(sd.HashType), prefix, c05cDigest(sd.ControlBlock),
		prefix, sd.InputIndex)
}

// ---------------------------------------------------------------------------
// byte-level dump of a resolution set (compared with the Lean codec model)
// ---------------------------------------------------------------------------

func c05cHex(b []byte) string {
	if len(b) == 0 {
		return "-"
	}
	return hex.EncodeToString(b)
}

func c05cOp(op wire.OutPoint) string {
	return hex.EncodeToString(op.Hash[:]) + ":" + strconv.FormatUint(uint64(op.Index), 10)
}

// fam,idx,key,single,double,ws,val,pk,ht,tap,cb,method,ii
func c05cSD(sd *input.SignDescriptor) string {
	var key, dbl []byte
	if sd.KeyDesc.PubKey != nil {
		key = sd.KeyDesc.PubKey.SerializeCompressed()
	}
	if sd.DoubleTweak != nil {
		dbl = sd.DoubleTweak.Serialize()
	}
	val, pk := int64(0), []byte(nil)
	if sd.Output != nil {
		val, pk = sd.Output.Value, sd.Output.PkScript
	}
	return fmt.Sprintf("%d,%d,%s,%s,%s,%s,%d,%s,%d,%s,%s,%d,%d", uint32(sd.KeyDesc.Family),
		sd.KeyDesc.Index, c05cHex(key), c05cHex(sd.SingleTweak), c05cHex(dbl),
		c05cHex(sd.WitnessScript), uint64(val), c05cHex(pk), uint32(sd.HashType),
		c05cHex(sd.TapTweak), c05cHex(sd.ControlBlock), uint8(sd.SignMethod), sd.InputIndex)
}

// ver/lock/in|in/out|out   in = hash:idx:sigscript:seq:wit   wit = ~ | item.item (e = empty item)
func c05cTx(tx *wire.MsgTx) string {
	if tx == nil {
		return "-"
	}
	var ins, outs []string
	for _, in := range tx.TxIn {
		wit := "~"
		if len(in.Witness) > 0 {
			var items []string
			for _, it := range in.Witness {
				if len(it) == 0 {
					items = append(items, "e")
				} else {
					items = append(items, hex.EncodeToString(it))
				}
			}
			wit = strings.Join(items, ".")
		}
		ins = append(ins, fmt.Sprintf("%s:%s:%d:%s", c05cOp(in.PreviousOutPoint),
			c05cHex(in.SignatureScript), in.Sequence, wit))
	}
	for _, out := range tx.TxOut {
		outs = append(outs, fmt.Sprintf("%d:%s", uint64(out.Value), c05cHex(out.PkScript)))
	}
	if len(outs) == 0 {
		outs = []string{"~"}
	}
	return fmt.Sprintf("%d/%d/%s/%s", uint32(tx.Version), tx.LockTime, strings.Join(ins, "|"),
		strings.Join(outs, "|"))
}

func c05cDetails(d *input.SignDetails) string {
	if d == nil {
		return "-"
	}
	var sig []byte
	if d.PeerSig != nil {
		sig = d.PeerSig.Serialize()
	}
	return fmt.Sprintf("%s;%d;%s", c05cSD(&d.SignDesc), uint32(d.SigHashType), c05cHex(sig))
}

// dumpRes prints every field of a resolution set the store is responsible for.
func (c *c05cRun) dumpRes(ctx, which string, r *ContractResolutions) {
	commit, anchor := "-", "-"
	if cr := r.CommitResolution; cr != nil {
		commit = fmt.Sprintf("%s;%d;%s", c05cOp(cr.SelfOutPoint), cr.MaturityDelay,
			c05cSD(&cr.SelfOutputSignDesc))
	}
	if ar := r.AnchorResolution; ar != nil {
		anchor = fmt.Sprintf("%s;%s", c05cOp(ar.CommitAnchor), c05cSD(&ar.AnchorSignDescriptor))
	}
	c.pf("rs ctx=%s which=%s hash=%s commit=%s anchor=%s nin=%d nout=%d\n", ctx, which,
		hex.EncodeToString(r.CommitHash[:]), commit, anchor, len(r.HtlcResolutions.IncomingHTLCs),
		len(r.HtlcResolutions.OutgoingHTLCs))
	for i := range r.HtlcResolutions.IncomingHTLCs {
		h := &r.HtlcResolutions.IncomingHTLCs[i]
		c.pf("rin ctx=%s which=%s i=%d pre=%s tx=%s csv=%d claim=%s sd=%s det=%s\n", ctx, which, i,
			hex.EncodeToString(h.Preimage[:]), c05cTx(h.SignedSuccessTx), h.CsvDelay,
			c05cOp(h.ClaimOutpoint), c05cSD(&h.SweepSignDesc), c05cDetails(h.SignDetails))
	}
	for i := range r.HtlcResolutions.OutgoingHTLCs {
		h := &r.HtlcResolutions.OutgoingHTLCs[i]
		c.pf("rout ctx=%s which=%s i=%d expiry=%d tx=%s csv=%d claim=%s sd=%s det=%s\n", ctx, which, i,
			h.Expiry, c05cTx(h.SignedTimeoutTx), h.CsvDelay, c05cOp(h.ClaimOutpoint),
			c05cSD(&h.SweepSignDesc), c05cDetails(h.SignDetails))
	}
}

func c05cCtrlMap(m resolverCtrlBlocks) string {
	if len(m) == 0 {
		return "-"
	}
	var es []string
	for id, cb := range m {
		es = append(es, hex.EncodeToString(id[:32])+":"+
			strconv.FormatUint(uint64(binary.BigEndian.Uint32(id[32:])), 10)+"@"+c05cHex(cb))
	}
	sort.Strings(es)
	return strings.Join(es, ",")
}

// storeBlobs reads the raw values LogContractResolutions wrote.
func c05cStoreBlobs(db kvdb.Backend, scope []byte) (vals [4][]byte, present [4]bool) {
	keys := [4][]byte{resolutionsKey, resolutionsSignDetailsKey, anchorResolutionKey, taprootDataKey}
	_ = kvdb.View(db, func(tx kvdb.RTx) error {
		b := tx.ReadBucket(scope)
		if b == nil {
			return nil
		}
		for i, k := range keys {
			if v := b.Get(k); v != nil {
				vals[i] = append([]byte{}, v...)
				present[i] = true
			}
		}
		return nil
	}, func() {})
	return vals, present
}

var c05cBlobNames = [4]string{"resolutions", "signdetails", "anchor", "taproot"}

// codecTie prints the raw stored bytes, the decoded taproot aux data and the
// reloaded set; then stores damaged values (truncated / extended / one byte
// changed) and reports what the REAL FetchContractResolutions makes of them.
func (c *c05cRun) codecTie(ctx string, db kvdb.Backend, arbLog *boltArbitratorLog,
	fresh, reload *ContractResolutions) {

	scope := arbLog.scopeKey[:]
	vals, present := c05cStoreBlobs(db, scope)
	c.dumpRes(ctx, "fresh", fresh)
	for i := 0; i < 3; i++ {
		h := "absent"
		if present[i] {
			h = c05cHex(vals[i])
		}
		c.pf("blob ctx=%s key=%s hex=%s\n", ctx, c05cBlobNames[i], h)
	}
	if present[3] {
		tc := newTaprootBriefcase()
		if err := tc.Decode(bytes.NewReader(vals[3])); err != nil {
			c.pf("aux ctx=%s written=1 => err:decode\n", ctx)
		} else {
			cb := tc.CtrlBlocks.Val
			c.pf("aux ctx=%s written=1 len=%d commit=%s tweak=%s in=%s out=%s second=%s => ok\n", ctx,
				len(vals[3]), c05cHex(cb.CommitSweepCtrlBlock), c05cHex(tc.TapTweaks.Val.AnchorTweak),
				c05cCtrlMap(cb.IncomingHtlcCtrlBlocks), c05cCtrlMap(cb.OutgoingHtlcCtrlBlocks),
				c05cCtrlMap(cb.SecondLevelCtrlBlocks))
		}
	} else {
		c.pf("aux ctx=%s written=0 => ok\n", ctx)
	}
	if reload == nil {
		c.pf("rsend ctx=%s which=reload => err\n", ctx)
		return
	}
	c.dumpRes(ctx, "reload", reload)
	c.pf("rsend ctx=%s which=reload => ok\n", ctx)

	// damaged values
	put := func(key, val []byte) {
		_ = kvdb.Update(db, func(tx kvdb.RwTx) error {
			b := tx.ReadWriteBucket(scope)
			if b == nil {
				return nil
			}
			return b.Put(key, val)
		}, func() {})
	}
	keys := [3][]byte{resolutionsKey, resolutionsSignDetailsKey, anchorResolutionKey}
	nMut := 2
	for m := 0; m < nMut; m++ {
		k := c.r.Intn(3)
		if !present[k] || len(vals[k]) < 2 {
			continue
		}
		orig := vals[k]
		var mut []byte
		kind := ""
		switch c.r.Intn(4) {
		case 0:
			cut := 1 + c.r.Intn(len(orig)-1)
			mut, kind = append([]byte{}, orig[:cut]...), fmt.Sprintf("cut%d", cut)
		case 1:
			mut = append(append([]byte{}, orig...), byte(c.r.Intn(256)), byte(c.r.Intn(256)))
			kind = "extend"
		default:
			// one byte changed; the resolutions value carries element counts
			// that size allocations, so only the other two values are damaged
			// this way
			if k == 0 {
				cut := len(orig) - 1 - c.r.Intn(40)%len(orig)
				if cut < 1 {
					cut = 1
				}
				mut, kind = append([]byte{}, orig[:cut]...), fmt.Sprintf("cut%d", cut)
				break
			}
			pos := c.r.Intn(len(orig))
			mut = append([]byte{}, orig...)
			nv := byte(c.r.Intn(256))
			switch c.r.Intn(3) {
			case 0:
				nv = mut[pos] + 1
			case 1:
				nv = mut[pos] ^ 0x80
			}
			if nv == mut[pos] {
				nv++
			}
			mut[pos] = nv
			kind = fmt.Sprintf("flip%d", pos)
		}
		put(keys[k], mut)
		var (
			got *ContractResolutions
			res = "ok"
		)
		func() {
			defer func() {
				if r := recover(); r != nil {
					res = "panic"
				}
			}()
			var err error
			got, err = arbLog.FetchContractResolutions()
			if err != nil {
				res = "err"
				msg := err.Error()
				for _, w := range []string{"pubkey", "public key", "signature", "malformed", "invalid sig",
					"not on the", "curve"} {
					if strings.Contains(strings.ToLower(msg), w) {
						res = "err:crypto"
					}
				}
			}
		}()
		put(keys[k], orig)
		which := fmt.Sprintf("mut%d", m)
		c.pf("damage ctx=%s which=%s key=%s kind=%s hex=%s => %s\n", ctx, which, c05cBlobNames[k], kind,
			c05cHex(mut), res)
		if res == "ok" {
			c.dumpRes(ctx, which, got)
		}
		c.pf("rsend ctx=%s which=%s => %s\n", ctx, which, res)
	}
}

// ---------------------------------------------------------------------------
// one probe
// ---------------------------------------------------------------------------

type c05cRun struct {
	t       *testing.T
	w       *bufio.Writer
	ch      [2]*lnwallet.LightningChannel
	kind    c05cKind
	pre     map[[32]byte][32]byte
	spendID int
	probeID int
	r       *rand.Rand
}

func (c *c05cRun) pf(format string, a ...interface{}) { fmt.Fprintf(c.w, format, a...) }

type c05cSpendRes struct {
	tx     *wire.MsgTx
	engine string
	signed *input.SignDescriptor
}

// sweepTx builds the sweeper's transaction for one input (version 2, sequence =
// BlocksToMaturity, locktime = RequiredLockTime or the current height, the
// input's required output first), signs through the input's own
// CraftInputScript and runs the engine against the actual previous output.
func (c *c05cRun) sweepTx(inp input.Input, signer input.Signer, actual *wire.TxOut) (res c05cSpendRes) {
	rec := &c05cSigner{Signer: signer}
	defer func() {
		if r := recover(); r != nil {
			res.engine = "panic"
		}
		res.signed = rec.last
	}()
	tx := wire.NewMsgTx(2)
	if rto := inp.RequiredTxOut(); rto != nil {
		tx.AddTxOut(rto)
	}
	tx.AddTxOut(&wire.TxOut{PkScript: c05cSweepPkScript, Value: 546})
	tx.AddTxIn(&wire.TxIn{PreviousOutPoint: inp.OutPoint(), Sequence: inp.BlocksToMaturity()})
	tx.LockTime = c05cHeight
	if lt, ok := inp.RequiredLockTime(); ok {
		tx.LockTime = lt
	}
	res.tx = tx
	fetcher, err := input.MultiPrevOutFetcher([]input.Input{inp})
	if err != nil {
		res.engine = "signerr:fetcher"
		return res
	}
	hc := txscript.NewTxSigHashes(tx, fetcher)
	script, err := inp.CraftInputScript(rec, tx, hc, fetcher, 0)
	if err != nil {
		res.engine = "signerr"
		return res
	}
	tx.TxIn[0].Witness = script.Witness
	res.engine = c05cExec(tx, 0, map[wire.OutPoint]*wire.TxOut{inp.OutPoint(): actual})
	return res
}

func (c *c05cRun) spendLine(ctx, kind, wt string, tx *wire.MsgTx, recIdx uint32, recAmt int64,
	actual *wire.TxOut, pkMatch bool, terms *c05cTerms, payHash []byte, sigTerms []string,
	engine string, signed *input.SignDescriptor) {

	seq, lock, ver := uint32(0), uint32(0), int32(0)
	spk := c05cSpkClass(actual.PkScript)
	ws, wit := "-", "-"
	if tx != nil {
		seq, lock, ver = tx.TxIn[0].Sequence, tx.LockTime, tx.Version
		w := tx.TxIn[0].Witness
		n := c05cNScriptElems(spk, w)
		if n >= 1 && len(w) >= n {
			ws = terms.renderScript(w[len(w)-n], payHash)
		}
		if len(w) > 0 {
			wit = terms.renderWitness(w, n, sigTerms, payHash)
		}
	}
	kp := "-"
	if spk == "p2tr" && ws == "-" {
		kp = c05cKeyPathMatch(signed, actual.PkScript)
	}
	c.spendID++
	c.pf("spend id=%d ctx=%s kind=%s wt=%s var=reload ver=%d seq=%d lock=%d rec_idx=%d rec_amt=%d "+
		"act_amt=%d pk=%d kp=%s spk=%s ws=%s wit=%s => %s\n",
		c.spendID, ctx, kind, wt, ver, seq, lock, recIdx, recAmt, actual.Value, c05cB2i(pkMatch),
		kp, spk, ws, wit, engine)
}

// spendInput signs and executes one input the (reloaded) resolver handed to
// the sweeper, and prints the descriptor the signer received.
func (c *c05cRun) spendInput(x int, ctx, kind string, inp input.Input, actual *wire.TxOut,
	terms *c05cTerms, payHash []byte, sigTerms func(*input.SignDescriptor) []string) *wire.MsgTx {

	sd := inp.SignDesc()
	before := *sd
	res := c.sweepTx(inp, c.ch[x].Signer, actual)
	st := []string{terms.signerTerm(sd)}
	if sigTerms != nil {
		st = sigTerms(sd)
	}
	pkMatch := sd.Output != nil && bytes.Equal(sd.Output.PkScript, actual.PkScript)
	recAmt := int64(-1)
	if sd.Output != nil {
		recAmt = sd.Output.Value
	}
	c.spendLine(ctx, kind, fmt.Sprint(inp.WitnessType()), res.tx, inp.OutPoint().Index, recAmt,
		actual, pkMatch, terms, payHash, st, res.engine, res.signed)
	if res.signed != nil {
		c.pf("signed ctx=%s kind=%s wt=%v %s %s\n", ctx, kind, inp.WitnessType(),
			terms.descFields("r.", &before), terms.descFields("s.", res.signed))
	}
	if res.engine != "ok" {
		return nil
	}
	return res.tx
}

func (c *c05cRun) desc(ctx, slot string, idx uint32, aux bool, terms *c05cTerms,
	fresh, reload *input.SignDescriptor) {

	c.pf("desc ctx=%s slot=%s idx=%d aux=%d %s %s\n", ctx, slot, idx, c05cB2i(aux),
		terms.descFields("f.", fresh), terms.descFields("r.", reload))
}

// probe takes one set of resolutions through the contract court.
func (c *c05cRun) probe(x int, src string, h uint64, commitTx *wire.MsgTx,
	commitPoint *btcec.PublicKey, st *chanstate.OpenChannel, htlcs []channeldb.HTLC,
	cr *lnwallet.CommitOutputResolution, hr *lnwallet.HtlcResolutions,
	ar *lnwallet.AnchorResolution) {

	c.probeID++
	xn := c05cNode[x]
	peer := c05cNode[1-x]
	ctx := fmt.Sprintf("x:%s,src:%s,h:%d,n:%d", xn, src, h, c.probeID)
	terms := c05cNewTerms(c.ch, commitPoint)
	ct := st.ChanType
	local := src == "local"

	fresh := &ContractResolutions{
		CommitHash:       commitTx.TxHash(),
		CommitResolution: cr,
		AnchorResolution: ar,
	}
	if hr != nil {
		fresh.HtlcResolutions = *hr
	}

	// --- the contract court's own store -------------------------------------
	db, err := kvdb.Create(kvdb.BoltBackendName, c.t.TempDir()+"/c05court.db", true,
		kvdb.DefaultDBTimeout, false)
	if err != nil {
		c.t.Fatalf("kvdb: %v", err)
	}
	defer db.Close()
	sweeper := &c05cSweeper{}
	notifier := &c05cNotifier{spends: map[wire.OutPoint]*chainntnfs.SpendDetail{}}
	arbCfg := ChannelArbitratorConfig{
		ChanPoint: st.FundingOutpoint,
		PutResolverReport: func(kvdb.RwTx, *channeldb.ResolverReport) error {
			return nil
		},
		ChainArbitratorConfig: ChainArbitratorConfig{
			Sweeper:  sweeper,
			Notifier: notifier,
			Budget:   *DefaultBudgetConfig(),
			PublishTx: func(*wire.MsgTx, string) error {
				return nil
			},
		},
	}
	arbLog, err := newBoltArbitratorLog(db, arbCfg, chainhash.Hash{}, st.FundingOutpoint)
	if err != nil {
		c.t.Fatalf("arb log: %v", err)
	}
	var reload *ContractResolutions
	res := "ok"
	func() {
		defer func() {
			if r := recover(); r != nil {
				res = "panic"
			}
		}()
		if err := arbLog.LogContractResolutions(fresh); err != nil {
			res = "err:log"
			return
		}
		reload, err = arbLog.FetchContractResolutions()
		if err != nil {
			res = "err:fetch"
		}
	}()
	nIn, nOut := len(fresh.HtlcResolutions.IncomingHTLCs), len(fresh.HtlcResolutions.OutgoingHTLCs)
	if res == "ok" && (reload.CommitHash != fresh.CommitHash ||
		(reload.CommitResolution == nil) != (cr == nil) ||
		(reload.AnchorResolution == nil) != (ar == nil) ||
		len(reload.HtlcResolutions.IncomingHTLCs) != nIn ||
		len(reload.HtlcResolutions.OutgoingHTLCs) != nOut) {

		res = "err:shape"
	}
	c.pf("probe n=%d x=%s src=%s h=%d tag=court mirror=- => ok\n", c.probeID, xn, src, h)
	c.pf("persist ctx=%s what=resolutions commit=%d anchor=%d in=%d out=%d => %s\n", ctx,
		c05cB2i(cr != nil), c05cB2i(ar != nil), nIn, nOut, res)
	if res != "err:log" && res != "panic" {
		// byte-level tie, also when the real reader rejects what was written
		rl := reload
		if res != "ok" {
			rl = nil
		}
		c.codecTie(ctx, db, arbLog, fresh, rl)
	}
	if res != "ok" {
		return
	}
	aux := ar != nil && txscript.IsPayToTaproot(ar.AnchorSignDescriptor.Output.PkScript)

	// --- descriptors before / after the round trip --------------------------
	if cr != nil {
		rc := reload.CommitResolution
		c.desc(ctx, "commit", cr.SelfOutPoint.Index, aux, terms, &cr.SelfOutputSignDesc,
			&rc.SelfOutputSignDesc)
		if rc.SelfOutPoint != cr.SelfOutPoint || rc.MaturityDelay != cr.MaturityDelay {
			c.pf("persist ctx=%s what=commitfields => err:changed\n", ctx)
		}
	}
	if ar != nil {
		ra := reload.AnchorResolution
		c.desc(ctx, "anchor", ar.CommitAnchor.Index, aux, terms, &ar.AnchorSignDescriptor,
			&ra.AnchorSignDescriptor)
		if ra.CommitAnchor != ar.CommitAnchor {
			c.pf("persist ctx=%s what=anchorfields => err:changed\n", ctx)
		}
	}
	for i := range fresh.HtlcResolutions.IncomingHTLCs {
		f, r := &fresh.HtlcResolutions.IncomingHTLCs[i], &reload.HtlcResolutions.IncomingHTLCs[i]
		c.desc(ctx, "htlcSweep", f.HtlcPoint().Index, aux, terms, &f.SweepSignDesc, &r.SweepSignDesc)
		if (f.SignDetails == nil) != (r.SignDetails == nil) || f.ClaimOutpoint != r.ClaimOutpoint ||
			f.CsvDelay != r.CsvDelay || c05cTx(f.SignedSuccessTx) != c05cTx(r.SignedSuccessTx) ||
			f.Preimage != r.Preimage {

			c.pf("persist ctx=%s what=incomingfields idx=%d => err:changed\n", ctx, f.HtlcPoint().Index)
		}
		if f.SignDetails != nil && r.SignDetails != nil {
			c.desc(ctx, "htlcSecond", f.HtlcPoint().Index, aux, terms, &f.SignDetails.SignDesc,
				&r.SignDetails.SignDesc)
			if f.SignDetails.SigHashType != r.SignDetails.SigHashType ||
				!bytes.Equal(f.SignDetails.PeerSig.Serialize(), r.SignDetails.PeerSig.Serialize()) {

				c.pf("persist ctx=%s what=signdetails idx=%d => err:changed\n", ctx, f.HtlcPoint().Index)
			}
		}
	}
	for i := range fresh.HtlcResolutions.OutgoingHTLCs {
		f, r := &fresh.HtlcResolutions.OutgoingHTLCs[i], &reload.HtlcResolutions.OutgoingHTLCs[i]
		c.desc(ctx, "htlcSweep", f.HtlcPoint().Index, aux, terms, &f.SweepSignDesc, &r.SweepSignDesc)
		if (f.SignDetails == nil) != (r.SignDetails == nil) || f.ClaimOutpoint != r.ClaimOutpoint ||
			f.CsvDelay != r.CsvDelay || f.Expiry != r.Expiry ||
			c05cTx(f.SignedTimeoutTx) != c05cTx(r.SignedTimeoutTx) {

			c.pf("persist ctx=%s what=outgoingfields idx=%d => err:changed\n", ctx, f.HtlcPoint().Index)
		}
		if f.SignDetails != nil && r.SignDetails != nil {
			c.desc(ctx, "htlcSecond", f.HtlcPoint().Index, aux, terms, &f.SignDetails.SignDesc,
				&r.SignDetails.SignDesc)
			if f.SignDetails.SigHashType != r.SignDetails.SigHashType ||
				!bytes.Equal(f.SignDetails.PeerSig.Serialize(), r.SignDetails.PeerSig.Serialize()) {

				c.pf("persist ctx=%s what=signdetails idx=%d => err:changed\n", ctx, f.HtlcPoint().Index)
			}
		}
	}

	// --- resolvers: create, store, fetch, supplement ------------------------
	resCfg := ResolverConfig{ChannelArbitratorConfig: arbCfg, Checkpoint: arbLog.checkpointContract}
	htlcByIdx := map[uint32]channeldb.HTLC{}
	for _, ht := range htlcs {
		if ht.OutputIndex >= 0 {
			htlcByIdx[uint32(ht.OutputIndex)] = ht
		}
	}
	var resolvers []ContractResolver
	if cr != nil {
		rs := newCommitSweepResolver(*cr, c05cCloseHeight, st.FundingOutpoint, resCfg)
		rs.SupplementState(st)
		resolvers = append(resolvers, rs)
	}
	legacyIn := map[uint32]bool{}
	legacyOut := map[uint32]bool{}
	for i := range fresh.HtlcResolutions.IncomingHTLCs {
		f := fresh.HtlcResolutions.IncomingHTLCs[i]
		ht := htlcByIdx[f.HtlcPoint().Index]
		rs := newIncomingContestResolver(f, c05cCloseHeight, ht, ct, resCfg)
		rs.SupplementState(st)
		resolvers = append(resolvers, rs)
		if f.SignedSuccessTx != nil && f.SignDetails == nil {
			legacyIn[f.HtlcPoint().Index] = true
		}
	}
	for i := range fresh.HtlcResolutions.OutgoingHTLCs {
		f := fresh.HtlcResolutions.OutgoingHTLCs[i]
		ht := htlcByIdx[f.HtlcPoint().Index]
		var rs ContractResolver
		if i%2 == 0 {
			r0 := newTimeoutResolver(f, c05cCloseHeight, ht, ct, resCfg)
			r0.SupplementState(st)
			rs = r0
		} else {
			r0 := newOutgoingContestResolver(f, c05cCloseHeight, ht, ct, resCfg)
			r0.SupplementState(st)
			rs = r0
		}
		resolvers = append(resolvers, rs)
		if f.SignedTimeoutTx != nil && f.SignDetails == nil {
			legacyOut[f.HtlcPoint().Index] = true
		}
	}
	fetch := func() ([]ContractResolver, string) {
		var (
			out []ContractResolver
			res = "ok"
		)
		func() {
			defer func() {
				if r := recover(); r != nil {
					res = "panic"
				}
			}()
			var err error
			out, err = arbLog.FetchUnresolvedContracts()
			if err != nil {
				res = "err:fetch"
				return
			}
			for _, r := range out {
				r.SupplementState(st)
				maybeAugmentTaprootResolvers(ct, r, reload)
				if hres, ok := r.(htlcContractResolver); ok {
					if ht, ok := htlcByIdx[hres.HtlcPoint().Index]; ok {
						hres.Supplement(ht)
					} else {
						res = "err:nohtlc"
					}
				}
			}
		}()
		return out, res
	}
	res = "ok"
	if len(resolvers) > 0 {
		if err := arbLog.InsertUnresolvedContracts(nil, resolvers...); err != nil {
			res = "err:insert"
		}
	}
	var loaded []ContractResolver
	if res == "ok" {
		loaded, res = fetch()
	}
	if res == "ok" && len(loaded) != len(resolvers) {
		res = "err:count"
	}
	c.pf("persist ctx=%s what=resolvers n=%d => %s\n", ctx, len(resolvers), res)
	if res != "ok" {
		return
	}

	launch := func(r ContractResolver) (inps []input.Input, res string) {
		res = "ok"
		defer func() {
			if rr := recover(); rr != nil {
				res = "panic"
			}
		}()
		sweeper.take()
		if err := r.Launch(); err != nil {
			res = "err:launch"
		}
		return sweeper.take(), res
	}
	lease, hasLease := uint32(0), false
	if ct.HasLeaseExpiration() && st.IsInitiator && st.ThawHeight > 0 {
		lease, hasLease = st.ThawHeight, true
	}
	_ = lease
	htlcSigs := func(*input.SignDescriptor) []string {
		return []string{"tw:" + peer + ".htlc", "tw:" + xn + ".htlc"}
	}

	// second stage of a two-stage HTLC resolver: the second-level transaction
	// `stx` confirmed, the resolver checkpoints (outputIncubating) and the node
	// restarts again.
	stageTwo := func(key []byte, htlcOp wire.OutPoint, stx *wire.MsgTx, setInc func(ContractResolver) bool) {
		if stx == nil {
			return
		}
		hash := stx.TxHash()
		notifier.spends[htlcOp] = &chainntnfs.SpendDetail{
			SpentOutPoint: &htlcOp, SpenderTxHash: &hash, SpendingTx: stx,
			SpenderInputIndex: 0, SpendingHeight: c05cCloseHeight + 10,
		}
		var found ContractResolver
		for _, r := range loaded {
			if bytes.Equal(r.ResolverKey(), key) && setInc(r) {
				found = r
			}
		}
		if found == nil {
			return
		}
		if err := arbLog.checkpointContract(found); err != nil {
			c.pf("persist ctx=%s what=checkpoint idx=%d => err:checkpoint\n", ctx, htlcOp.Index)
			return
		}
		again, res := fetch()
		if res != "ok" {
			c.pf("persist ctx=%s what=checkpoint idx=%d => %s\n", ctx, htlcOp.Index, res)
			return
		}
		for _, r := range again {
			if !bytes.Equal(r.ResolverKey(), key) {
				continue
			}
			var inner ContractResolver = r
			switch v := r.(type) {
			case *htlcIncomingContestResolver:
				inner = v.htlcSuccessResolver
			case *htlcOutgoingContestResolver:
				inner = v.htlcTimeoutResolver
			}
			inps, res := launch(inner)
			c.pf("persist ctx=%s what=launch2 idx=%d n=%d => %s\n", ctx, htlcOp.Index, len(inps), res)
			for _, inp := range inps {
				c.spendInput(x, ctx, "secondLevelOut", inp, stx.TxOut[0], terms, nil, nil)
			}
		}
	}

	for _, r := range loaded {
		switch v := r.(type) {
		case *commitSweepResolver:
			op := v.commitResolution.SelfOutPoint
			if int(op.Index) >= len(commitTx.TxOut) {
				c.pf("bad ctx=%s kind=commit idx=%d => out-of-range\n", ctx, op.Index)
				continue
			}
			inps, res := launch(v)
			c.pf("persist ctx=%s what=launch idx=%d n=%d => %s\n", ctx, op.Index, len(inps), res)
			kind := "toRemote"
			if local {
				kind = "toLocal"
			}
			for _, inp := range inps {
				c.spendInput(x, ctx, kind, inp, commitTx.TxOut[op.Index], terms, nil, nil)
			}

		case *htlcIncomingContestResolver:
			op := v.HtlcPoint()
			ht, ok := htlcByIdx[op.Index]
			if !ok || int(op.Index) >= len(commitTx.TxOut) {
				c.pf("bad ctx=%s kind=htlcIn idx=%d => out-of-range\n", ctx, op.Index)
				continue
			}
			pre := c.pre[ht.RHash]
			if err := v.applyPreimage(lntypes.Preimage(pre)); err != nil {
				c.pf("persist ctx=%s what=preimage idx=%d => err:apply\n", ctx, op.Index)
				continue
			}
			inner := v.htlcSuccessResolver
			actual := commitTx.TxOut[op.Index]
			payHash := ht.RHash[:]
			if legacyIn[op.Index] {
				// pre-anchor channel: the success transaction is published as
				// signed, its output goes to the nursery
				stx := inner.htlcResolution.SignedSuccessTx
				eng := c05cExec(stx, 0, map[wire.OutPoint]*wire.TxOut{op: actual})
				c.spendLine(ctx, "htlcSuccessTx", "presigned", stx, op.Index, actual.Value, actual,
					true, terms, payHash, htlcSigs(nil), eng, nil)
				c.nurseryKid(x, ctx, terms, &inner.htlcResolution, nil, stx, st)
				continue
			}
			inps, res := launch(inner)
			c.pf("persist ctx=%s what=launch idx=%d n=%d => %s\n", ctx, op.Index, len(inps), res)
			for _, inp := range inps {
				if local {
					stx := c.spendInput(x, ctx, "htlcSuccessAgg", inp, actual, terms, payHash, htlcSigs)
					stageTwo(v.ResolverKey(), op, stx, func(r ContractResolver) bool {
						if cr, ok := r.(*htlcIncomingContestResolver); ok {
							cr.htlcSuccessResolver.outputIncubating = true
							return true
						}
						return false
					})
				} else {
					c.spendInput(x, ctx, "htlcClaim", inp, actual, terms, payHash, nil)
				}
			}

		case *htlcTimeoutResolver, *htlcOutgoingContestResolver:
			var inner *htlcTimeoutResolver
			switch vv := v.(type) {
			case *htlcTimeoutResolver:
				inner = vv
			case *htlcOutgoingContestResolver:
				inner = vv.htlcTimeoutResolver
			}
			op := inner.HtlcPoint()
			ht, ok := htlcByIdx[op.Index]
			if !ok || int(op.Index) >= len(commitTx.TxOut) {
				c.pf("bad ctx=%s kind=htlcOut idx=%d => out-of-range\n", ctx, op.Index)
				continue
			}
			actual := commitTx.TxOut[op.Index]
			payHash := ht.RHash[:]
			if legacyOut[op.Index] {
				stx := inner.htlcResolution.SignedTimeoutTx
				eng := c05cExec(stx, 0, map[wire.OutPoint]*wire.TxOut{op: actual})
				c.spendLine(ctx, "htlcTimeoutTx", "presigned", stx, op.Index, actual.Value, actual,
					true, terms, payHash, htlcSigs(nil), eng, nil)
				c.nurseryKid(x, ctx, terms, nil, &inner.htlcResolution, stx, st)
				continue
			}
			inps, res := launch(inner)
			c.pf("persist ctx=%s what=launch idx=%d n=%d => %s\n", ctx, op.Index, len(inps), res)
			for _, inp := range inps {
				if local {
					stx := c.spendInput(x, ctx, "htlcTimeoutAgg", inp, actual, terms, payHash, htlcSigs)
					stageTwo(r.ResolverKey(), op, stx, func(r ContractResolver) bool {
						switch vv := r.(type) {
						case *htlcTimeoutResolver:
							vv.outputIncubating = true
							return true
						case *htlcOutgoingContestResolver:
							vv.htlcTimeoutResolver.outputIncubating = true
							return true
						}
						return false
					})
				} else {
					c.spendInput(x, ctx, "htlcTimeout", inp, actual, terms, payHash, nil)
				}
			}
		}
	}
	_ = hasLease

	// the anchor resolver is stateless: re-created from the stored resolutions
	if ra := reload.AnchorResolution; ra != nil && int(ra.CommitAnchor.Index) < len(commitTx.TxOut) {
		rs := newAnchorResolver(ra.AnchorSignDescriptor, ra.CommitAnchor, c05cCloseHeight,
			st.FundingOutpoint, resCfg)
		rs.SupplementState(st)
		inps, res := launch(rs)
		c.pf("persist ctx=%s what=launch idx=%d n=%d => %s\n", ctx, ra.CommitAnchor.Index, len(inps), res)
		for _, inp := range inps {
			c.spendInput(x, ctx, "anchor", inp, commitTx.TxOut[ra.CommitAnchor.Index], terms, nil, nil)
		}
	}
}

// nurseryKid takes the second-level output of a pre-anchor channel through the
// utxo nursery's own output encoding.
func (c *c05cRun) nurseryKid(x int, ctx string, terms *c05cTerms, in *lnwallet.IncomingHtlcResolution,
	out *lnwallet.OutgoingHtlcResolution, stx *wire.MsgTx, st *chanstate.OpenChannel) {

	var (
		kid kidOutput
		buf bytes.Buffer
		res = "ok"
	)
	func() {
		defer func() {
			if r := recover(); r != nil {
				res = "panic"
			}
		}()
		if in != nil {
			k := makeKidOutput(&in.ClaimOutpoint, &st.FundingOutpoint, in.CsvDelay,
				input.HtlcAcceptedSuccessSecondLevel, &in.SweepSignDesc, 0, fn.None[int32]())
			if err := k.Encode(&buf); err != nil {
				res = "err:encode"
				return
			}
			if err := kid.Decode(&buf); err != nil {
				res = "err:decode"
			}
			return
		}
		b := makeBabyOutput(&st.FundingOutpoint, out, fn.None[int32](), st.ChanType.IsTaprootFinal())
		if err := b.Encode(&buf); err != nil {
			res = "err:encode"
			return
		}
		var b2 babyOutput
		if err := b2.Decode(&buf); err != nil {
			res = "err:decode"
			return
		}
		kid = b2.kidOutput
	}()
	c.pf("persist ctx=%s what=nursery => %s\n", ctx, res)
	if res != "ok" {
		return
	}
	c.spendInput(x, ctx, "secondLevelOut", &kid, stx.TxOut[0], terms, nil, nil)
}

// ---------------------------------------------------------------------------
// the test
// ---------------------------------------------------------------------------

func TestVerifC05Court(t *testing.T) {
	out := os.Getenv("VERIF_OUT")
	if out == "" {
		t.Skip("VERIF_OUT not set")
	}
	seed, _ := strconv.ParseInt(os.Getenv("VERIF_SEED"), 10, 64)
	tier := os.Getenv("VERIF_TIER")
	f, err := os.Create(out)
	if err != nil {
		t.Fatal(err)
	}
	defer f.Close()
	w := bufio.NewWriterSize(f, 1<<20)
	defer w.Flush()

	perKind, rounds := 2, 3
	if tier == "thorough" {
		perKind, rounds = 16, 5
	}
	if v, err := strconv.Atoi(os.Getenv("VERIF_C05_COURT_CASES")); err == nil && v > 0 {
		perKind = v
	}
	fmt.Fprintf(w, "FACT htlcTimeoutWeight=%d htlcSuccessWeight=%d htlcTimeoutWeightConf=%d "+
		"htlcSuccessWeightConf=%d anchorSize=%d sweepHeight=%d\n",
		input.HtlcTimeoutWeight, input.HtlcSuccessWeight, input.HtlcTimeoutWeightConfirmed,
		input.HtlcSuccessWeightConfirmed, int64(lnwallet.AnchorSize), c05cHeight)

	caseID := 0
	for ki, kind := range c05cKinds {
		for i := 0; i < perKind; i++ {
			caseID++
			r := rand.New(rand.NewSource(seed*1_000_003 + int64(ki)*977 + int64(i)))
			alice, bob, err := lnwallet.CreateTestChannels(t, kind.ct)
			if err != nil {
				t.Fatalf("create channels: %v", err)
			}
			ch := [2]*lnwallet.LightningChannel{alice, bob}
			thaw := uint32(0)
			if kind.ct.HasLeaseExpiration() {
				thaw = uint32(600_000 + r.Intn(100_000))
				alice.State().ThawHeight = thaw
				bob.State().ThawHeight = thaw
			}
			// key locators: the fixture leaves them all zero; give every base
			// point its own family and a boundary-biased index, so that the
			// locator fields of the stored descriptors carry information
			locIdx := []uint32{0, 1, 255, 256, 65535, 65536, 1 << 31, 0xffffffff}
			for x := 0; x < 2; x++ {
				cfg := &ch[x].State().LocalChanCfg
				for fi, kd := range []*keychain.KeyDescriptor{&cfg.MultiSigKey, &cfg.RevocationBasePoint,
					&cfg.PaymentBasePoint, &cfg.DelayBasePoint, &cfg.HtlcBasePoint} {

					kd.KeyLocator = keychain.KeyLocator{
						Family: keychain.KeyFamily(uint32(fi) + uint32(r.Intn(3))*1000),
						Index:  locIdx[r.Intn(len(locIdx))] + uint32(r.Intn(2)),
					}
				}
			}
			ast := alice.State()
			fmt.Fprintf(w, "CASE c%d prop=c05 stream=court type=%s anchors=%d taproot=%d lease=%d "+
				"tweakless=%d zerofee=%d noamt=0 thaw=%d initiator=A csvA=%d csvB=%d dustA=%d dustB=%d\n",
				caseID, kind.name, c05cB2i(kind.ct.HasAnchors()), c05cB2i(kind.ct.IsTaproot()),
				c05cB2i(kind.ct.HasLeaseExpiration()), c05cB2i(kind.ct.IsTweakless()),
				c05cB2i(kind.ct.ZeroHtlcTxFee()), thaw, ast.LocalChanCfg.CsvDelay,
				ast.RemoteChanCfg.CsvDelay, int64(ast.LocalChanCfg.DustLimit),
				int64(ast.RemoteChanCfg.DustLimit))
			run := &c05cRun{t: t, w: w, ch: ch, kind: kind, pre: map[[32]byte][32]byte{}, r: r}

			nextPre := 0
			type live struct {
				from int
				idx  uint64
				pre  [32]byte
			}
			var lives []live
			dead := false
			add := func(x int) bool {
				var pre [32]byte
				nextPre++
				binary.BigEndian.PutUint64(pre[:8], uint64(nextPre))
				copy(pre[8:], "c05 court")
				amt := lnwire.MilliSatoshi(3_000_000 + r.Int63n(60_000_000))
				switch r.Intn(5) {
				case 0:
					// around either dust limit
					amt = lnwire.MilliSatoshi(1000 * (150 + r.Int63n(1400)))
				case 1:
					amt += lnwire.MilliSatoshi(r.Int63n(1000))
				}
				h := &lnwire.UpdateAddHTLC{
					PaymentHash: sha256.Sum256(pre[:]),
					Amount:      amt,
					Expiry:      uint32(700_100 + 44*r.Intn(3)),
				}
				idx, err := ch[x].AddHTLC(h, nil)
				if err != nil {
					return true
				}
				h.ID = idx
				cp := *h
				if _, err := ch[1-x].ReceiveHTLC(&cp); err != nil {
					t.Logf("c05court: case %d recv htlc: %v", caseID, err)
					return false
				}
				run.pre[h.PaymentHash] = pre
				lives = append(lives, live{x, idx, pre})
				return true
			}
			for rd := 0; rd < rounds && !dead; rd++ {
				nAdd := 1 + r.Intn(3)
				for a := 0; a < nAdd && !dead; a++ {
					if !add(r.Intn(2)) {
						dead = true
					}
				}
				if dead {
					break
				}
				fs := r.Intn(2)
				if err := lnwallet.ForceStateTransition(ch[fs], ch[1-fs]); err != nil {
					t.Logf("c05court: case %d transition: %v", caseID, err)
					dead = true
					break
				}
				// a second exchange started by the other side locks every add of
				// this round into both commitments (only then may it be settled)
				if err := lnwallet.ForceStateTransition(ch[1-fs], ch[fs]); err != nil {
					t.Logf("c05court: case %d transition b: %v", caseID, err)
					dead = true
					break
				}
				if len(lives) > 1 && r.Intn(2) == 0 {
					l := lives[0]
					lives = lives[1:]
					rcv := ch[1-l.from]
					if err := rcv.SettleHTLC(l.pre, l.idx, nil, nil, nil); err == nil {
						if err := ch[l.from].ReceiveHTLCSettle(l.pre, l.idx); err != nil {
							t.Logf("c05court: case %d recv settle: %v", caseID, err)
							dead = true
							break
						}
						if err := lnwallet.ForceStateTransition(ch[1], ch[0]); err != nil {
							t.Logf("c05court: case %d transition2: %v", caseID, err)
							dead = true
							break
						}
					}
				}
			}
			// mid-dance end state: one side has signed a new commitment for the
			// peer that the peer has (or has not yet) received, none revoked
			mid := "-"
			if !dead && r.Intn(3) != 0 {
				s := r.Intn(2)
				if add(s) {
					if nc, err := ch[s].SignNextCommitment(context.Background()); err == nil {
						mid = c05cNode[s] + "signed"
						if r.Intn(2) == 0 {
							if err := ch[1-s].ReceiveNewCommitment(nc.CommitSigs); err == nil {
								mid = c05cNode[s] + "signed+received"
							}
						}
					}
				}
			}
			fmt.Fprintf(w, "history rounds=%d dead=%d mid=%s\n", rounds, c05cB2i(dead), mid)
			if dead {
				fmt.Fprintf(w, "END\n")
				continue
			}

			for x := 0; x < 2; x++ {
				st := ch[x].State()
				// the peer's current and pending commitment
				type view struct {
					src string
					rc  channeldb.ChannelCommitment
					cp  *btcec.PublicKey
				}
				views := []view{{"remote", st.RemoteCommitment, st.RemoteCurrentRevocation}}
				if diff, err := st.RemoteCommitChainTip(); err == nil && diff != nil &&
					st.RemoteNextRevocation != nil {

					views = append(views, view{"pending", diff.Commitment, st.RemoteNextRevocation})
				}
				for _, v := range views {
					if v.rc.CommitHeight == 0 && kind.ct.HasLeaseExpiration() {
						continue
					}
					tx := v.rc.CommitTx
					hash := tx.TxHash()
					spend := &chainntnfs.SpendDetail{
						SpentOutPoint: &st.FundingOutpoint, SpenderTxHash: &hash, SpendingTx: tx,
						SpendingHeight: c05cCloseHeight,
					}
					var (
						s   *lnwallet.UnilateralCloseSummary
						res = "ok"
					)
					func() {
						defer func() {
							if rr := recover(); rr != nil {
								res = "panic"
							}
						}()
						var err error
						s, err = lnwallet.NewUnilateralCloseSummary(st, ch[x].Signer, spend, v.rc, v.cp,
							fn.None[lnwallet.AuxLeafStore](), fn.None[lnwallet.AuxContractResolver]())
						if err != nil {
							res = "err:summary"
						}
					}()
					if res != "ok" {
						fmt.Fprintf(w, "probe n=0 x=%s src=%s h=%d tag=court mirror=- => %s\n",
							c05cNode[x], v.src, v.rc.CommitHeight, res)
						continue
					}
					run.probe(x, v.src, v.rc.CommitHeight, tx, v.cp, st, v.rc.Htlcs,
						s.CommitResolution, s.HtlcResolutions, s.AnchorResolution)
				}
			}
			for x := 0; x < 2; x++ {
				st := ch[x].State()
				h := st.LocalCommitment.CommitHeight
				if h == 0 {
					continue
				}
				var (
					s   *lnwallet.LocalForceCloseSummary
					res = "ok"
				)
				func() {
					defer func() {
						if rr := recover(); rr != nil {
							res = "panic"
						}
					}()
					var err error
					s, err = ch[x].ForceClose()
					if err != nil {
						res = "err:forceclose"
					}
				}()
				if res != "ok" {
					fmt.Fprintf(w, "probe n=0 x=%s src=local h=%d tag=court mirror=- => %s\n",
						c05cNode[x], h, res)
					continue
				}
				rev, err := st.RevocationProducer.AtIndex(h)
				if err != nil {
					continue
				}
				cp := input.ComputeCommitmentPoint(rev[:])
				cres := s.ContractResolutions.UnwrapOr(lnwallet.ContractResolutions{})
				run.probe(x, "local", h, s.CloseTx, cp, st, s.ChanSnapshot.Htlcs,
					cres.CommitResolution, cres.HtlcResolutions, cres.AnchorResolution)
			}
			fmt.Fprintf(w, "END\n")
		}
	}
	_ = hex.EncodeToString
}
