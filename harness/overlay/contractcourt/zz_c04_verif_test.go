//go:build verif

package contractcourt

// C04 harness, breach-arbitrator stream: the REAL newRetributionInfo,
// createJusticeTx / sweepSpendableOutputsTxn and convertToSecondLevelRevoke of
// contractcourt/breach_arbitrator.go are run on retributions that
// lnwallet.NewBreachRetribution builds for revoked commitments of real
// channel pairs; every input of every justice transaction variant is executed
// with the real btcd script engine against the cheater's real transaction.

import (
	"bufio"
	"crypto/sha256"
	"encoding/binary"
	"errors"
	"fmt"
	"math/rand"
	"os"
	"strconv"
	"testing"

	"github.com/btcsuite/btcd/btcutil/v2"
	"github.com/btcsuite/btcd/txscript/v2"
	"github.com/btcsuite/btcd/wire/v2"
	"github.com/lightningnetwork/lnd/chainntnfs"
	"github.com/lightningnetwork/lnd/channeldb"
	"github.com/lightningnetwork/lnd/chanstate"
	lnmock "github.com/lightningnetwork/lnd/lntest/mock"
	"github.com/lightningnetwork/lnd/fn/v2"
	"github.com/lightningnetwork/lnd/input"
	"github.com/lightningnetwork/lnd/lntypes"
	"github.com/lightningnetwork/lnd/lnwallet"
	"github.com/lightningnetwork/lnd/lnwallet/chainfee"
	"github.com/lightningnetwork/lnd/lnwire"
)

type c04Kind struct {
	name string
	ct   channeldb.ChannelType
}

var c04Kinds = []c04Kind{
	{"legacy", channeldb.SingleFunderBit},
	{"tweakless", channeldb.SingleFunderTweaklessBit},
	{"anchorsfee", channeldb.SingleFunderTweaklessBit | channeldb.AnchorOutputsBit},
	{"anchors", channeldb.SingleFunderTweaklessBit | channeldb.AnchorOutputsBit |
		channeldb.ZeroHtlcTxFeeBit},
	{"lease", channeldb.SingleFunderTweaklessBit | channeldb.AnchorOutputsBit |
		channeldb.ZeroHtlcTxFeeBit | channeldb.LeaseExpirationBit},
	{"taproot", channeldb.SingleFunderTweaklessBit | channeldb.AnchorOutputsBit |
		channeldb.ZeroHtlcTxFeeBit | channeldb.SimpleTaprootFeatureBit},
	{"taprootfinal", channeldb.SingleFunderTweaklessBit | channeldb.AnchorOutputsBit |
		channeldb.ZeroHtlcTxFeeBit | channeldb.SimpleTaprootFeatureBit |
		channeldb.TaprootFinalBit},
}

func c04B2i(b bool) int {
	if b {
		return 1
	}
	return 0
}

func c04Exec(tx *wire.MsgTx, idx int, prev map[wire.OutPoint]*wire.TxOut) (res string) {
	defer func() {
		if r := recover(); r != nil {
			res = "panic"
		}
	}()
	out, ok := prev[tx.TxIn[idx].PreviousOutPoint]
	if !ok {
		return "fail:noprevout"
	}
	fetcher := txscript.NewMultiPrevOutFetcher(prev)
	hc := txscript.NewTxSigHashes(tx, fetcher)
	vm, err := txscript.NewEngine(out.PkScript, tx, idx, txscript.StandardVerifyFlags,
		nil, hc, out.Value, fetcher)
	if err == nil {
		err = vm.Execute()
	}
	if err != nil {
		var se txscript.Error
		if errors.As(err, &se) {
			return "fail:" + se.ErrorCode.String()
		}
		return "fail:other"
	}
	return "ok"
}

func c04KindOf(wt input.WitnessType) string {
	switch wt {
	case input.CommitmentRevoke, input.TaprootCommitmentRevoke,
		input.TaprootCommitmentRevokeFinal:
		return "toLocal"
	case input.HtlcAcceptedRevoke, input.TaprootHtlcAcceptedRevoke:
		return "htlcAcc"
	case input.HtlcOfferedRevoke, input.TaprootHtlcOfferedRevoke:
		return "htlcOff"
	case input.HtlcSecondLevelRevoke, input.TaprootHtlcSecondLevelRevoke:
		return "secondLevel"
	}
	return "toRemote"
}

func TestVerifC04Brar(t *testing.T) {
	out := os.Getenv("VERIF_OUT")
	if out == "" {
		t.Skip("VERIF_OUT not set")
	}
	seed, _ := strconv.ParseInt(os.Getenv("VERIF_SEED"), 10, 64)
	tier := os.Getenv("VERIF_TIER")
	f, err := os.Create(out)
	if err != nil {
		t.Fatal(err)
	}
	defer f.Close()
	w := bufio.NewWriterSize(f, 1<<20)
	defer w.Flush()

	perKind, rounds := 2, 3
	if tier == "thorough" {
		perKind, rounds = 20, 6
	}
	caseID := 0
	for ki, kind := range c04Kinds {
		for i := 0; i < perKind; i++ {
			caseID++
			r := rand.New(rand.NewSource(seed*7919 + int64(ki)*131 + int64(i)))
			alice, bob, err := lnwallet.CreateTestChannels(t, kind.ct)
			if err != nil {
				t.Fatalf("create channels: %v", err)
			}
			ch := [2]*lnwallet.LightningChannel{alice, bob}
			thaw := uint32(0)
			if kind.ct.HasLeaseExpiration() {
				thaw = uint32(600_000 + r.Intn(100_000))
				alice.State().ThawHeight = thaw
				bob.State().ThawHeight = thaw
			}
			st := alice.State()
			fmt.Fprintf(w, "CASE %d prop=c04 type=%s anchors=%d taproot=%d taprootfinal=%d lease=%d "+
				"tweakless=%d zerofee=%d noamt=0 thaw=%d csvA=%d csvB=%d\n",
				caseID, kind.name, c04B2i(kind.ct.HasAnchors()), c04B2i(kind.ct.IsTaproot()),
				c04B2i(kind.ct.IsTaprootFinal()), c04B2i(kind.ct.HasLeaseExpiration()),
				c04B2i(kind.ct.IsTweakless()), c04B2i(kind.ct.ZeroHtlcTxFee()), thaw,
				st.LocalChanCfg.CsvDelay, st.RemoteChanCfg.CsvDelay)

			held := [2]map[uint64]*wire.MsgTx{{}, {}}
			record := func() {
				for x := 0; x < 2; x++ {
					lc := ch[x].State().LocalCommitment
					held[x][lc.CommitHeight] = lc.CommitTx.Copy()
				}
			}
			nextPre := 0
			type live struct {
				from int
				idx  uint64
				pre  [32]byte
			}
			var lives []live
			dead := false
			// the chain watcher's own copies of the channel, loaded from the
			// database at an earlier point of the history (two per node)
			var stale [2][]*chanstate.OpenChannel
			takeStale := func() {
				for x := 0; x < 2; x++ {
					xs := ch[x].State()
					for k := 0; k < 2; k++ {
						if cs, err := xs.Db.FetchOpenChannels(xs.IdentityPub); err == nil && len(cs) == 1 {
							cs[0].ThawHeight = thaw
							stale[x] = append(stale[x], cs[0])
						}
					}
				}
			}
			staleRd := 1 + r.Intn(rounds-1)
			for rd := 0; rd < rounds && !dead; rd++ {
				if rd == staleRd {
					takeStale()
				}
				record()
				nAdd := 1 + r.Intn(3)
				var last *lnwire.UpdateAddHTLC
				for a := 0; a < nAdd; a++ {
					x := r.Intn(2)
					var pre [32]byte
					nextPre++
					binary.BigEndian.PutUint64(pre[:8], uint64(nextPre))
					copy(pre[8:], "c04 brar")
					h := &lnwire.UpdateAddHTLC{
						PaymentHash: sha256.Sum256(pre[:]),
						Amount:      lnwire.MilliSatoshi(3_000_000 + r.Int63n(60_000_000)),
						Expiry:      uint32(700_100 + 44*r.Intn(3)),
					}
					if last != nil && r.Intn(3) == 0 {
						// exact duplicate
						h = &lnwire.UpdateAddHTLC{PaymentHash: last.PaymentHash,
							Amount: last.Amount, Expiry: last.Expiry}
						pre = [32]byte{}
					}
					idx, err := ch[x].AddHTLC(h, nil)
					if err != nil {
						continue
					}
					h.ID = idx
					cp := *h
					if _, err := ch[1-x].ReceiveHTLC(&cp); err != nil {
						dead = true
						break
					}
					last = h
					if pre != ([32]byte{}) {
						lives = append(lives, live{x, idx, pre})
					}
				}
				if dead {
					break
				}
				if err := lnwallet.ForceStateTransition(ch[0], ch[1]); err != nil {
					dead = true
					break
				}
				// settle one locked-in HTLC now and then
				if len(lives) > 0 && r.Intn(2) == 0 {
					record()
					l := lives[0]
					lives = lives[1:]
					rcv := ch[1-l.from]
					if err := rcv.SettleHTLC(l.pre, l.idx, nil, nil, nil); err == nil {
						if err := ch[l.from].ReceiveHTLCSettle(l.pre, l.idx); err != nil {
							dead = true
							break
						}
						if err := lnwallet.ForceStateTransition(ch[0], ch[1]); err != nil {
							dead = true
							break
						}
					}
				}
			}
			record()

			lifeStore, lsErr := c04OpenStore(t.TempDir())
			if lsErr != nil {
				t.Fatalf("retribution store: %v", lsErr)
			}
			var retPool []*retributionInfo
			for v := 0; v < 2; v++ {
				vst := ch[v].State()
				vn := [2]string{"A", "B"}[v]
				brar := NewBreachArbitrator(&BreachConfig{
					Estimator: chainfee.NewStaticEstimator(253, 0),
					GenSweepScript: func() fn.Result[lnwallet.AddrWithKey] {
						return fn.Ok(lnwallet.AddrWithKey{})
					},
					Signer: ch[v].Signer,
				})
				h0 := uint64(0)
				if kind.ct.HasLeaseExpiration() {
					h0 = 1
				}
				for h := h0; h < vst.RemoteCommitment.CommitHeight; h++ {
					ctx := fmt.Sprintf("v:%s,h:%d", vn, h)
					ctTx := held[1-v][h]
					if ctTx == nil {
						fmt.Fprintf(w, "jmissing ctx=%s => no-tx\n", ctx)
						continue
					}
					br, err := lnwallet.NewBreachRetribution(vst, h, 777, ctTx,
						fn.None[lnwallet.AuxLeafStore](), fn.None[lnwallet.AuxContractResolver]())
					if err != nil {
						fmt.Fprintf(w, "jretr ctx=%s => err\n", ctx)
						continue
					}
					fmt.Fprintf(w, "jretr ctx=%s => ok\n", ctx)
					ret := newRetributionInfo(&vst.FundingOutpoint, br)
					prev := map[wire.OutPoint]*wire.TxOut{}
					for i, o := range ctTx.TxOut {
						prev[wire.OutPoint{Hash: ctTx.TxHash(), Index: uint32(i)}] = o
					}
					emit := func(variant string, jc *justiceTxCtx, prev map[wire.OutPoint]*wire.TxOut) {
						if jc == nil {
							return
						}
						tx := jc.justiceTx
						for i, inp := range jc.inputs {
							wt := inp.WitnessType()
							op := tx.TxIn[i].PreviousOutPoint
							amtOK := 0
							if o, ok := prev[op]; ok && o.Value == inp.SignDesc().Output.Value &&
								string(o.PkScript) == string(inp.SignDesc().Output.PkScript) {
								amtOK = 1
							}
							fmt.Fprintf(w, "jin ctx=%s variant=%s kind=%s wt=%v ver=%d seq=%d lock=%d idx=%d recok=%d => %s\n",
								ctx, variant, c04KindOf(wt), wt, tx.Version, tx.TxIn[i].Sequence,
								tx.LockTime, op.Index, amtOK, c04Exec(tx, i, prev))
						}
					}
					func() {
						defer func() {
							if rr := recover(); rr != nil {
								fmt.Fprintf(w, "jtx ctx=%s => panic\n", ctx)
							}
						}()
						txs, err := brar.createJusticeTx(ret.breachedOutputs)
						if err != nil {
							fmt.Fprintf(w, "jtx ctx=%s => err:%s\n", ctx, c04Short(err))
							return
						}
						fmt.Fprintf(w, "jtx ctx=%s => ok\n", ctx)
						emit("spendAll", txs.spendAll, prev)
						emit("spendCommitOuts", txs.spendCommitOuts, prev)
						emit("spendHTLCs", txs.spendHTLCs, prev)
					}()

					// what happens after the first justice transactions were signed
					// (second-level advances, partial confirmations, restart)
					retPool = append(retPool, newRetributionInfo(&vst.FundingOutpoint, br))
					for i := range retPool[len(retPool)-1].breachedOutputs {
						o := *retPool[len(retPool)-1].breachedOutputs[i].signDesc.Output
						retPool[len(retPool)-1].breachedOutputs[i].signDesc.Output = &o
					}
					(&c04Life{w: w, r: r, ctx: ctx, brar: brar, store: lifeStore, vst: vst,
						br: br, ctTx: ctTx, thaw: thaw}).run()

					// the cheater takes every HTLC to the second level first
					isRemoteInitiator := !vst.IsInitiator
					for i := range br.HtlcRetributions {
						hr := &br.HtlcRetributions[i]
						amt := btcutil.Amount(hr.SignDesc.Output.Value)
						var stx *wire.MsgTx
						if hr.IsIncoming {
							// the cheater offered it: timeout transaction
							stx, err = lnwallet.CreateHtlcTimeoutTx(vst.ChanType, isRemoteInitiator,
								hr.OutPoint, amt-1, 700_100, uint32(vst.RemoteChanCfg.CsvDelay), thaw,
								br.KeyRing.RevocationKey, br.KeyRing.ToLocalKey, fn.None[txscript.TapLeaf]())
						} else {
							stx, err = lnwallet.CreateHtlcSuccessTx(vst.ChanType, isRemoteInitiator,
								hr.OutPoint, amt-1, uint32(vst.RemoteChanCfg.CsvDelay), thaw,
								br.KeyRing.RevocationKey, br.KeyRing.ToLocalKey, fn.None[txscript.TapLeaf]())
						}
						if err != nil {
							fmt.Fprintf(w, "jsecond ctx=%s i=%d => err\n", ctx, i)
							continue
						}
						// find the matching breached output (fresh copy)
						ret2 := newRetributionInfo(&vst.FundingOutpoint, br)
						for j := range ret2.breachedOutputs {
							bo := &ret2.breachedOutputs[j]
							if bo.outpoint != hr.OutPoint {
								continue
							}
							hash := stx.TxHash()
							convertToSecondLevelRevoke(bo, ret2, &chainntnfs.SpendDetail{
								SpentOutPoint: &hr.OutPoint, SpenderTxHash: &hash,
								SpendingTx: stx, SpenderInputIndex: 0, SpendingHeight: 778,
							})
							func() {
								defer func() {
									if rr := recover(); rr != nil {
										fmt.Fprintf(w, "jtx ctx=%s => panic\n", ctx)
									}
								}()
								txs, err := brar.createJusticeTx([]breachedOutput{*bo})
								if err != nil {
									fmt.Fprintf(w, "jtx ctx=%s => err:%s\n", ctx, c04Short(err))
									return
								}
								p2 := map[wire.OutPoint]*wire.TxOut{
									{Hash: hash, Index: 0}: stx.TxOut[0],
								}
								for _, sl := range txs.spendSecondLevelHTLCs {
									emit("secondLevel", sl, p2)
								}
							}()
						}
					}
				}
			}
			lifeStore.close()
			nOps := 30
			if tier == "thorough" {
				nOps = 60
			}
			c04StoreScenario(w, r, t.TempDir(), retPool, nOps)
			// Real chain watcher on its own, earlier loaded copy of the channel:
			// one spend of a state revoked before the copy was taken and one
			// revoked afterwards must both be recognised (handleCommitSpend ->
			// newChainSet -> handlePossibleBreach -> contractBreach hand-off)
			// and yield a justice transaction the script engine accepts.
			for v := 0; v < 2 && !dead; v++ {
				if len(stale[v]) < 2 {
					continue
				}
				vn := [2]string{"A", "B"}[v]
				copyH := stale[v][0].RemoteCommitment.CommitHeight
				finalH := ch[v].State().RemoteCommitment.CommitHeight
				h0 := uint64(0)
				if kind.ct.HasLeaseExpiration() {
					h0 = 1
				}
				var picks []struct {
					when string
					h    uint64
				}
				if copyH > h0 {
					picks = append(picks, struct {
						when string
						h    uint64
					}{"before", h0 + uint64(r.Int63n(int64(copyH-h0)))})
				}
				if finalH > copyH && copyH >= h0 {
					picks = append(picks, struct {
						when string
						h    uint64
					}{"after", copyH + uint64(r.Int63n(int64(finalH-copyH)))})
				}
				for pi, pk := range picks {
					ctTx := held[1-v][pk.h]
					if ctTx == nil {
						continue
					}
					sc := stale[v][pi]
					ctx := fmt.Sprintf("v:%s,h:%d", vn, pk.h)
					var got *lnwallet.BreachRetribution
					res := "ok"
					func() {
						defer func() {
							if rr := recover(); rr != nil {
								res = "panic"
							}
						}()
						notifier := &lnmock.ChainNotifier{
							SpendChan: make(chan *chainntnfs.SpendDetail, 1),
							EpochChan: make(chan *chainntnfs.BlockEpoch),
							ConfChan:  make(chan *chainntnfs.TxConfirmation, 1),
						}
						cw, err := newChainWatcher(chainWatcherConfig{
							chanState:           sc,
							notifier:            notifier,
							signer:              ch[v].Signer,
							extractStateNumHint: lnwallet.GetStateNumHint,
							contractBreach: func(br *lnwallet.BreachRetribution) error {
								got = br
								return nil
							},
						})
						if err != nil {
							res = "err:watcher"
							return
						}
						hash := ctTx.TxHash()
						err = cw.handleCommitSpend(&chainntnfs.SpendDetail{
							SpentOutPoint: &sc.FundingOutpoint, SpenderTxHash: &hash,
							SpendingTx: ctTx, SpendingHeight: 777,
						})
						switch {
						case err != nil:
							res = "err:" + c04Short(err)
						case got == nil:
							res = "nobreach"
						case got.BreachTxHash != hash || got.RevokedStateNum != pk.h:
							res = "wrongstate"
						}
					}()
					gotState := int64(-1)
					if got != nil {
						gotState = int64(got.RevokedStateNum)
					}
					obfW := lnwallet.DeriveStateHintObfuscator(
						sc.LocalChanCfg.PaymentBasePoint.PubKey, sc.RemoteChanCfg.PaymentBasePoint.PubKey)
					if !sc.IsInitiator {
						obfW = lnwallet.DeriveStateHintObfuscator(
							sc.RemoteChanCfg.PaymentBasePoint.PubKey, sc.LocalChanCfg.PaymentBasePoint.PubKey)
					}
					fmt.Fprintf(w, "watch ctx=%s stale=%s copyh=%d finalh=%d seq=%d lock=%d obf=%x state=%d => %s\n",
						ctx, pk.when, copyH, finalH, ctTx.TxIn[0].Sequence, ctTx.LockTime, obfW[:], gotState, res)
					// The decision function itself on inputs that must NOT be taken for a
					// breach: the same revoked transaction with one output value changed
					// (same state hint, other txid) and the cheater's CURRENT commitment
					// (its state number has no revocation-log entry).
					negs := []struct {
						name string
						tx   *wire.MsgTx
					}{{"tamper", ctTx.Copy()}, {"current", held[1-v][finalH]}}
					negs[0].tx.TxOut[0].Value++
					for _, ng := range negs {
						if ng.tx == nil {
							continue
						}
						resN := "nobreach"
						var gotN *lnwallet.BreachRetribution
						snN := uint64(0)
						func() {
							defer func() {
								if rr := recover(); rr != nil {
									resN = "panic"
								}
							}()
							notifier := &lnmock.ChainNotifier{
								SpendChan: make(chan *chainntnfs.SpendDetail, 1),
								EpochChan: make(chan *chainntnfs.BlockEpoch),
								ConfChan:  make(chan *chainntnfs.TxConfirmation, 1),
							}
							cwN, err := newChainWatcher(chainWatcherConfig{
								chanState:           sc,
								notifier:            notifier,
								signer:              ch[v].Signer,
								extractStateNumHint: lnwallet.GetStateNumHint,
								contractBreach: func(br *lnwallet.BreachRetribution) error {
									gotN = br
									return nil
								},
							})
							if err != nil {
								resN = "err:watcher"
								return
							}
							cs, err := newChainSet(sc)
							if err != nil {
								resN = "err:chainset"
								return
							}
							hashN := ng.tx.TxHash()
							snN = cwN.cfg.extractStateNumHint(ng.tx, cwN.stateHintObfuscator)
							ok, err := cwN.handlePossibleBreach(&chainntnfs.SpendDetail{
								SpentOutPoint: &sc.FundingOutpoint, SpenderTxHash: &hashN,
								SpendingTx: ng.tx, SpendingHeight: 777,
							}, snN, cs)
							switch {
							case err != nil:
								resN = "err:" + c04Short(err)
							case ok || gotN != nil:
								resN = "breach"
							}
						}()
						fmt.Fprintf(w, "watchneg ctx=%s case=%s finalh=%d seq=%d lock=%d obf=%x state=%d => %s\n",
							ctx, ng.name, finalH, ng.tx.TxIn[0].Sequence, ng.tx.LockTime, obfW[:], snN, resN)
					}
					if got == nil {
						continue
					}
					brar := NewBreachArbitrator(&BreachConfig{
						Estimator: chainfee.NewStaticEstimator(253, 0),
						GenSweepScript: func() fn.Result[lnwallet.AddrWithKey] {
							return fn.Ok(lnwallet.AddrWithKey{})
						},
						Signer: ch[v].Signer,
					})
					func() {
						defer func() {
							if rr := recover(); rr != nil {
								fmt.Fprintf(w, "jtx ctx=%s => panic\n", ctx)
							}
						}()
						ret := newRetributionInfo(&sc.FundingOutpoint, got)
						txs, err := brar.createJusticeTx(ret.breachedOutputs)
						if err != nil {
							fmt.Fprintf(w, "jtx ctx=%s => err:%s\n", ctx, c04Short(err))
							return
						}
						fmt.Fprintf(w, "jtx ctx=%s => ok\n", ctx)
						prev := map[wire.OutPoint]*wire.TxOut{}
						for i, o := range ctTx.TxOut {
							prev[wire.OutPoint{Hash: ctTx.TxHash(), Index: uint32(i)}] = o
						}
						jc := txs.spendAll
						for i, inp := range jc.inputs {
							wt := inp.WitnessType()
							op := jc.justiceTx.TxIn[i].PreviousOutPoint
							amtOK := 0
							if o, ok := prev[op]; ok && o.Value == inp.SignDesc().Output.Value &&
								string(o.PkScript) == string(inp.SignDesc().Output.PkScript) {
								amtOK = 1
							}
							fmt.Fprintf(w, "jin ctx=%s variant=watcher-%s kind=%s wt=%v ver=%d seq=%d lock=%d idx=%d recok=%d => %s\n",
								ctx, pk.when, c04KindOf(wt), wt, jc.justiceTx.Version,
								jc.justiceTx.TxIn[i].Sequence, jc.justiceTx.LockTime, op.Index, amtOK,
								c04Exec(jc.justiceTx, i, prev))
						}
					}()
				}
			}
			fmt.Fprintf(w, "END\n")
		}
	}
	_ = lntypes.Local
}

func c04Short(err error) string {
	s := err.Error()
	if len(s) > 70 {
		s = s[:70]
	}
	out := []byte(s)
	for i, c := range out {
		if c == ' ' || c == '=' {
			out[i] = '_'
		}
	}
	return string(out)
}
