//go:build verif

package contractcourt

// C13 harness: "contract resolution survives restarts".
//
// Drives the REAL ChannelArbitrator (created with the package's own
// createTestChannelArbitrator) on the REAL bolt-backed ArbitratorLog
// (newBoltArbitratorLog).  Every durable write (= committed read-write
// transaction of the log's database, plus the channel-db writes
// MarkChannelClosed / MarkCommitmentBroadcasted / MarkChanFullyClosed that the
// ChainArbitrator performs for the arbitrator) is counted.  Each scenario is
// run once without a stop, then once per write index i: directly after the
// i-th write has committed the process "dies" (every later write of that
// instance is refused, every later side effect is dropped, the instance is
// stopped and discarded), a fresh arbitrator is built the way
// ChainArbitrator.Start does it from what is durable, and the same
// environment script continues.
//
// The chain / sweeper / preimage environment is a monotone oracle of facts
// shared by all incarnations: registering for something that already happened
// is answered immediately (as the real notifier's historical dispatch does).
//
// All top-level identifiers are prefixed with c13.

import (
	"bufio"
	"bytes"
	"crypto/sha256"
	"errors"
	"fmt"
	"math/rand"
	"net"
	"os"
	"os/exec"
	"path/filepath"
	"runtime"
	"sort"
	"strconv"
	"strings"
	"sync"
	"sync/atomic"
	"testing"
	"time"

	"github.com/btcsuite/btcd/chainhash/v2"
	"github.com/btcsuite/btcd/txscript/v2"
	"github.com/btcsuite/btcd/wire/v2"
	"github.com/btcsuite/btcwallet/walletdb"
	"github.com/lightningnetwork/lnd/chainntnfs"
	"github.com/lightningnetwork/lnd/channeldb"
	"github.com/lightningnetwork/lnd/fn/v2"
	graphdb "github.com/lightningnetwork/lnd/graph/db"
	"github.com/lightningnetwork/lnd/htlcswitch/hop"
	"github.com/lightningnetwork/lnd/input"
	"github.com/lightningnetwork/lnd/kvdb"
	"github.com/lightningnetwork/lnd/lntest/mock"
	"github.com/lightningnetwork/lnd/lntypes"
	"github.com/lightningnetwork/lnd/lnwallet"
	"github.com/lightningnetwork/lnd/lnwire"
	"github.com/lightningnetwork/lnd/sweep"
)

var c13ErrCrashed = errors.New("c13: process is dead")

const (
	c13Idle      = 3 * time.Millisecond
	c13FinalIdle = 40 * time.Millisecond
	c13StepMax   = 6 * time.Second
)

// ---------------------------------------------------------------------------
// environment
// ---------------------------------------------------------------------------

type c13Env struct {
	buf bytes.Buffer // trace of this case

	caseHeader string
	out        *os.File

	pmu sync.Mutex // protects buf
	wmu sync.Mutex // serialises durable writes and their snapshots
	mu  sync.Mutex // protects everything below

	rawDB      kvdb.Backend
	observer   *boltArbitratorLog
	nurseryObs *NurseryStore

	epoch   int
	alive   bool
	deadCh  chan struct{}
	crashAt []int
	crashCh chan int
	writes  int

	// hold CommitState(StateWaitingFullResolution) of the first
	// incarnation until released (legal schedule: the goroutine is
	// descheduled / waits for the bolt writer lock).
	hold     bool
	released chan struct{}

	// durable channel state (channeldb side)
	pendingClose  bool
	closeType     channeldb.ClosureType
	closingHeight uint32
	broadcasted   bool
	fullyClosed   bool
	marks         int
	wiped         bool
	// the REAL channeldb ChainArbitrator.ResolveContract marks the channel
	// fully closed in; markArmed: the next committed transaction on it is
	// that write (a stop point), issued by incarnation markEp
	chanDB    *channeldb.DB
	// ChainArbitrator.resolveContracts handles the resolution signals one by one
	resolveMu sync.Mutex
	markArmed bool
	markEp    int
	finalHtlcs    map[uint64]bool
	preimages     map[lntypes.Hash]lntypes.Preimage
	reports       []string
	lastState     ArbitratorState

	// oracle facts
	height      int32
	spends      map[wire.OutPoint]*chainntnfs.SpendDetail
	confirmable map[string]bool
	offered     map[wire.OutPoint]bool
	// transactions published by any incarnation (stay in the mempool across
	// restarts) and confirmed transactions
	pubTxs   map[chainhash.Hash]bool
	confs    map[chainhash.Hash]int32
	confSubs map[chainhash.Hash][]chan *chainntnfs.TxConfirmation
	wantConf map[chainhash.Hash]*c13PendingConf
	// sweeps of a live sweeper are broadcast with the next block; only then can
	// they confirm while the node is down
	mempool map[wire.OutPoint]bool
	// outputs handed to the utxo nursery (durable in the nursery store):
	// label of the htlc -> second-level output the nursery will sweep
	incubated map[string]wire.OutPoint
	ourWitness  map[string]wire.TxWitness
	breachDone  bool
	labels      map[wire.OutPoint]string

	// subscriptions of the live incarnation
	spendSubs  map[wire.OutPoint][]chan *chainntnfs.SpendDetail
	epochSubs  []chan *chainntnfs.BlockEpoch
	sweepSubs  map[wire.OutPoint][]chan sweep.Result
	beaconSubs []chan lntypes.Preimage
	breachSubs []chan struct{}

	// observations
	msgs      []string
	published int
	resolveWG sync.WaitGroup

	lastAct atomic.Int64
}

func (e *c13Env) pf(format string, a ...interface{}) {
	e.pmu.Lock()
	defer e.pmu.Unlock()
	if e.out != nil {
		// unbuffered: a panic in one of the arbitrator's goroutines
		// must not lose the lines written so far.
		fmt.Fprintf(e.out, format+"\n", a...)
		return
	}
	fmt.Fprintf(&e.buf, format+"\n", a...)
}

func (e *c13Env) touch() { e.lastAct.Store(time.Now().UnixNano()) }

func (e *c13Env) isAlive(ep int) bool {
	e.mu.Lock()
	defer e.mu.Unlock()
	return e.alive && e.epoch == ep
}

func (e *c13Env) label(op wire.OutPoint) string {
	if l, ok := e.labels[op]; ok {
		return l
	}
	return fmt.Sprintf("x%d", op.Index)
}

// snapshot prints the durable state of the log. Caller holds wmu.
func (e *c13Env) snapshot() string {
	st, _ := e.observer.CurrentState(nil)
	_, rerr := e.observer.FetchContractResolutions()
	_, cerr := e.observer.FetchConfirmedCommitSet(nil)
	cs, _ := e.observer.FetchUnresolvedContracts()
	var items []string
	for _, c := range cs {
		items = append(items, e.descr(c))
	}
	sort.Strings(items)
	b2i := func(b bool) int {
		if b {
			return 1
		}
		return 0
	}
	e.mu.Lock()
	if !e.wiped {
		e.lastState = st
	}
	e.mu.Unlock()
	return fmt.Sprintf("st=%d res=%d cs=%d C=[%s]", uint8(st), b2i(rerr == nil),
		b2i(cerr == nil), strings.Join(items, ","))
}

func (e *c13Env) descr(c ContractResolver) string {
	b2i := func(b bool) int {
		if b {
			return 1
		}
		return 0
	}
	switch r := c.(type) {
	case *htlcOutgoingContestResolver:
		return fmt.Sprintf("%s:oc:%d:%d", e.label(r.HtlcPoint()),
			b2i(r.outputIncubating), b2i(r.IsResolved()))
	case *htlcTimeoutResolver:
		return fmt.Sprintf("%s:to:%d:%d", e.label(r.HtlcPoint()),
			b2i(r.outputIncubating), b2i(r.IsResolved()))
	case *htlcIncomingContestResolver:
		return fmt.Sprintf("%s:ic:%d:%d", e.label(r.HtlcPoint()),
			b2i(r.outputIncubating), b2i(r.IsResolved()))
	case *htlcSuccessResolver:
		return fmt.Sprintf("%s:su:%d:%d", e.label(r.HtlcPoint()),
			b2i(r.outputIncubating), b2i(r.IsResolved()))
	case *commitSweepResolver:
		return fmt.Sprintf("commit:cs:0:%d", b2i(r.IsResolved()))
	case *breachResolver:
		return fmt.Sprintf("breach:br:0:%d", b2i(r.IsResolved()))
	case *anchorResolver:
		return fmt.Sprintf("anchor:an:0:%d", b2i(r.IsResolved()))
	}
	return fmt.Sprintf("?:%T", c)
}

// afterWrite is called after a stop point: a durable write committed (wmu
// held) or a volatile effect was performed (upstream messages delivered, an
// input offered to the sweeper, a transaction published).
func (e *c13Env) afterWrite(ep int, line string) {
	e.mu.Lock()
	e.writes++
	n := e.writes
	crash := len(e.crashAt) > 0 && e.crashAt[0] == n
	if crash {
		e.crashAt = e.crashAt[1:]
		e.alive = false
		close(e.deadCh)
	}
	e.mu.Unlock()
	e.pf("%s", strings.Replace(line, "#", strconv.Itoa(n), 1))
	if crash {
		e.pf("CRASH after=%d", n)
		e.crashCh <- n
	}
	e.touch()
}

// envWrite performs a durable write on the channel-db side.
func (e *c13Env) envWrite(ep int, what string, apply func()) error {
	e.wmu.Lock()
	defer e.wmu.Unlock()
	if !e.isAlive(ep) {
		return c13ErrCrashed
	}
	e.mu.Lock()
	apply()
	e.mu.Unlock()
	e.afterWrite(ep, fmt.Sprintf("E # ep=%d %s", ep, what))
	return nil
}

// effect records a volatile side effect of a live incarnation.
func (e *c13Env) effect(ep int, format string, a ...interface{}) bool {
	if !e.isAlive(ep) {
		return false
	}
	e.touch()
	e.mu.Lock()
	defer e.mu.Unlock()
	e.pf("%s", fmt.Sprintf(format, a...))
	return true
}

// effectPoint marks a stop point directly after a volatile effect (before the
// next durable write).
func (e *c13Env) effectPoint(ep int, what string) {
	// serialised with the durable writes, so that "dead" is decided once
	e.wmu.Lock()
	defer e.wmu.Unlock()
	if !e.isAlive(ep) {
		return
	}
	e.afterWrite(ep, fmt.Sprintf("K # ep=%d after=%s", ep, what))
}

// --- database decorator ----------------------------------------------------

// c13DB wraps the real bolt backend. It does not implement walletdb.BatchDB,
// so kvdb.Batch falls back to Update: one committed transaction = one write.
type c13DB struct {
	walletdb.DB
	env *c13Env
	ep  int
	// nursery: this handle backs the utxo nursery's store
	nursery bool
}

func (d *c13DB) Update(f func(tx walletdb.ReadWriteTx) error, reset func()) error {
	d.env.touch()
	d.env.wmu.Lock()
	defer d.env.wmu.Unlock()
	if !d.env.isAlive(d.ep) {
		return c13ErrCrashed
	}
	if err := d.DB.Update(f, reset); err != nil {
		return err
	}
	if d.nursery {
		d.env.afterWrite(d.ep, fmt.Sprintf("U # ep=%d %s", d.ep, d.env.nurserySnapshot()))
		return nil
	}
	d.env.afterWrite(d.ep, fmt.Sprintf("W # ep=%d %s", d.ep, d.env.snapshot()))
	return nil
}

// c13MarkDB is the backend of the real channeldb used by the real
// ChainArbitrator.ResolveContract: its MarkChanFullyClosed transaction is a
// durable write of the final step, hence a stop point of its own.
type c13MarkDB struct {
	walletdb.DB
	env *c13Env
}

func (d *c13MarkDB) Update(f func(tx walletdb.ReadWriteTx) error, reset func()) error {
	e := d.env
	e.mu.Lock()
	armed, ep := e.markArmed, e.markEp
	e.mu.Unlock()
	if !armed {
		return d.DB.Update(f, reset)
	}
	e.touch()
	e.wmu.Lock()
	defer e.wmu.Unlock()
	if !e.isAlive(ep) {
		return c13ErrCrashed
	}
	if err := d.DB.Update(f, reset); err != nil {
		return err
	}
	e.mu.Lock()
	e.fullyClosed = true
	e.marks++
	e.mu.Unlock()
	e.afterWrite(ep, fmt.Sprintf("E # ep=%d markfullyclosed", ep))
	return nil
}

// c13ClosedSummary returns the serialized pending close summary of a real test
// channel (built once per process), to be stored under the arbitrator's channel
// point in each case's channeldb.
var (
	c13SummaryOnce  sync.Once
	c13SummaryBytes []byte
)

func c13ClosedSummary(t *testing.T) []byte {
	c13SummaryOnce.Do(func() {
		db := channeldb.OpenForTesting(t, t.TempDir())
		ch, _, err := lnwallet.CreateTestChannels(t, channeldb.SingleFunderTweaklessBit)
		if err != nil {
			t.Fatalf("test channel: %v", err)
		}
		st := ch.State()
		st.Db = db.ChannelStateDB()
		addr := &net.TCPAddr{IP: net.ParseIP("127.0.0.1"), Port: 18556}
		if err := st.SyncPending(addr, 101); err != nil {
			t.Fatalf("sync pending: %v", err)
		}
		err = st.CloseChannel(&channeldb.ChannelCloseSummary{
			ChanPoint: st.FundingOutpoint, RemotePub: st.IdentityPub,
			CloseType: channeldb.LocalForceClose, IsPending: true,
		})
		if err != nil {
			t.Fatalf("close channel: %v", err)
		}
		var key bytes.Buffer
		_ = graphdb.WriteOutpoint(&key, &st.FundingOutpoint)
		_ = kvdb.View(db.Backend, func(tx kvdb.RTx) error {
			b := tx.ReadBucket([]byte("closed-chan-bucket"))
			if b != nil {
				c13SummaryBytes = append([]byte(nil), b.Get(key.Bytes())...)
			}
			return nil
		}, func() {})
		if len(c13SummaryBytes) == 0 {
			t.Fatalf("no close summary")
		}
	})
	return c13SummaryBytes
}

// nurserySnapshot prints the durable state of the utxo nursery store.
func (e *c13Env) nurserySnapshot() string {
	if e.nurseryObs == nil {
		return "N=[]"
	}
	var items []string
	classOf := map[wire.OutPoint]uint32{}
	hs, _ := e.nurseryObs.HeightsBelowOrEqual(1 << 30)
	for _, h := range hs {
		kids, _, _ := e.nurseryObs.FetchClass(h)
		for i := range kids {
			classOf[kids[i].OutPoint()] = h
		}
	}
	_ = e.nurseryObs.ForChanOutputs(&wire.OutPoint{}, func(k, _ []byte) error {
		if len(k) < 4 {
			return nil
		}
		if len(k) < 38 {
			return nil
		}
		var op wire.OutPoint
		copy(op.Hash[:], k[4:36])
		op.Index = uint32(k[36])<<8 | uint32(k[37])
		it := fmt.Sprintf("%s:%s", e.label(op), string(k[:4]))
		if string(k[:4]) == "kndr" {
			it += fmt.Sprintf("@%d", classOf[op])
		}
		items = append(items, it)
		return nil
	}, func() { items = nil })
	sort.Strings(items)
	return fmt.Sprintf("N=[%s]", strings.Join(items, ","))
}

func (d *c13DB) View(f func(tx walletdb.ReadTx) error, reset func()) error {
	d.env.touch()
	if !d.env.isAlive(d.ep) {
		return c13ErrCrashed
	}
	return d.DB.View(f, reset)
}

// --- log decorator (only used to hold one CommitState) -----------------------

type c13Log struct {
	ArbitratorLog
	env *c13Env
	ep  int
}

// WipeHistory: from here on the log no longer shows the last state reached.
func (l *c13Log) WipeHistory() error {
	l.env.mu.Lock()
	l.env.wiped = true
	l.env.mu.Unlock()
	err := l.ArbitratorLog.WipeHistory()
	if err != nil {
		l.env.mu.Lock()
		l.env.wiped = false
		l.env.mu.Unlock()
	}
	return err
}

func (l *c13Log) CommitState(s ArbitratorState) error {
	if l.env.hold && l.ep == 1 && s == StateWaitingFullResolution {
		l.env.effect(l.ep, "H ep=%d hold commit st=%d", l.ep, uint8(s))
		select {
		case <-l.env.released:
		case <-l.env.deadOf(l.ep):
		}
	}
	return l.ArbitratorLog.CommitState(s)
}

func (e *c13Env) deadOf(ep int) chan struct{} {
	e.mu.Lock()
	defer e.mu.Unlock()
	if e.epoch == ep {
		return e.deadCh
	}
	c := make(chan struct{})
	close(c)
	return c
}

type c13PendingConf struct {
	tx *wire.MsgTx
	op wire.OutPoint
}

// confirmTx: a published transaction confirms now. Caller holds mu.
func (e *c13Env) confirmTx(pc *c13PendingConf) {
	h := pc.tx.TxHash()
	if _, ok := e.confs[h]; ok {
		return
	}
	e.confs[h] = e.height
	e.pf("X conf %s height=%d", e.label(pc.op), e.height)
	conf := &chainntnfs.TxConfirmation{BlockHeight: uint32(e.height), Tx: pc.tx}
	for _, ch := range e.confSubs[h] {
		select {
		case ch <- conf:
		default:
		}
	}
	delete(e.confSubs, h)
	e.addSpend(pc.op, pc.tx, 0, true)
}

// --- notifier ---------------------------------------------------------------

type c13Notifier struct {
	env *c13Env
	ep  int
}

func (n *c13Notifier) RegisterConfirmationsNtfn(txid *chainhash.Hash, _ []byte, _ uint32,
	_ uint32, _ ...chainntnfs.NotifierOption) (*chainntnfs.ConfirmationEvent, error) {

	e := n.env
	e.touch()
	ch := make(chan *chainntnfs.TxConfirmation, 1)
	e.mu.Lock()
	defer e.mu.Unlock()
	if !(e.alive && e.epoch == n.ep) {
		return nil, c13ErrCrashed
	}
	if h, ok := e.confs[*txid]; ok {
		// historical dispatch
		ch <- &chainntnfs.TxConfirmation{BlockHeight: uint32(h)}
	} else {
		e.confSubs[*txid] = append(e.confSubs[*txid], ch)
	}
	return &chainntnfs.ConfirmationEvent{Confirmed: ch, Cancel: func() {}}, nil
}

func (n *c13Notifier) RegisterSpendNtfn(op *wire.OutPoint, _ []byte,
	_ uint32) (*chainntnfs.SpendEvent, error) {

	e := n.env
	e.touch()
	ch := make(chan *chainntnfs.SpendDetail, 1)
	e.mu.Lock()
	defer e.mu.Unlock()
	if !(e.alive && e.epoch == n.ep) {
		return nil, c13ErrCrashed
	}
	if sp, ok := e.spends[*op]; ok {
		ch <- sp
	} else {
		e.spendSubs[*op] = append(e.spendSubs[*op], ch)
	}
	return &chainntnfs.SpendEvent{Spend: ch, Cancel: func() {}}, nil
}

func (n *c13Notifier) RegisterBlockEpochNtfn(best *chainntnfs.BlockEpoch) (
	*chainntnfs.BlockEpochEvent, error) {

	e := n.env
	e.touch()
	ch := make(chan *chainntnfs.BlockEpoch, 256)
	e.mu.Lock()
	defer e.mu.Unlock()
	if !(e.alive && e.epoch == n.ep) {
		return nil, c13ErrCrashed
	}
	if best == nil {
		// no best block given: the current tip is dispatched at once
		ch <- &chainntnfs.BlockEpoch{Height: e.height}
	} else {
		// the client names its best block: only the backlog of blocks it
		// missed is sent (nothing when it is up to date)
		for x := best.Height + 1; x <= e.height && x-best.Height < 250; x++ {
			ch <- &chainntnfs.BlockEpoch{Height: x}
		}
	}
	e.epochSubs = append(e.epochSubs, ch)
	return &chainntnfs.BlockEpochEvent{Epochs: ch, Cancel: func() {}}, nil
}

func (n *c13Notifier) Start() error  { return nil }
func (n *c13Notifier) Started() bool { return true }
func (n *c13Notifier) Stop() error   { return nil }

// addSpend records a confirmed spend and notifies. Caller holds mu.
func (e *c13Env) addSpend(op wire.OutPoint, tx *wire.MsgTx, idx uint32, ours bool) {
	if _, ok := e.spends[op]; ok {
		return
	}
	h := tx.TxHash()
	opc := op
	sp := &chainntnfs.SpendDetail{
		SpentOutPoint:     &opc,
		SpenderTxHash:     &h,
		SpendingTx:        tx,
		SpenderInputIndex: idx,
		SpendingHeight:    e.height,
	}
	e.spends[op] = sp
	e.pf("X spend %s ours=%v", e.label(op), ours)
	for _, ch := range e.spendSubs[op] {
		select {
		case ch <- sp:
		default:
		}
	}
	delete(e.spendSubs, op)
	res := sweep.Result{Tx: tx}
	if !ours {
		res.Err = sweep.ErrRemoteSpend
	}
	for _, ch := range e.sweepSubs[op] {
		select {
		case ch <- res:
		default:
		}
	}
	delete(e.sweepSubs, op)
}

// confirmOurs lets our sweep of op confirm. Caller holds mu.
func (e *c13Env) confirmOurs(op wire.OutPoint) {
	l := e.label(op)
	wit := e.ourWitness[l]
	if wit == nil {
		wit = wire.TxWitness{{0x01}}
	}
	tx := &wire.MsgTx{
		Version: 2,
		TxIn:    []*wire.TxIn{{PreviousOutPoint: op, Witness: wit}},
		TxOut:   []*wire.TxOut{{Value: 1000, PkScript: []byte{0xaa, byte(len(l))}}},
	}
	h := tx.TxHash()
	e.labels[wire.OutPoint{Hash: h, Index: 0}] = l + "/2"
	e.addSpend(op, tx, 0, true)
}

// --- sweeper -----------------------------------------------------------------

type c13Sweeper struct {
	*mockSweeper
	env *c13Env
	ep  int
}

func (s *c13Sweeper) SweepInput(inp input.Input, _ sweep.Params) (
	chan sweep.Result, error) {

	e := s.env
	op := inp.OutPoint()
	if !e.effect(s.ep, "S ep=%d sweep %s", s.ep, e.label(op)) {
		return nil, c13ErrCrashed
	}
	ch := make(chan sweep.Result, 1)
	e.mu.Lock()
	defer e.mu.Unlock()
	e.offered[op] = true
	if sp, ok := e.spends[op]; ok {
		res := sweep.Result{Tx: sp.SpendingTx}
		if len(sp.SpendingTx.TxOut) == 0 ||
			len(sp.SpendingTx.TxOut[0].PkScript) == 0 ||
			sp.SpendingTx.TxOut[0].PkScript[0] != 0xaa {

			res.Err = sweep.ErrRemoteSpend
		}
		ch <- res
		return ch, nil
	}
	e.sweepSubs[op] = append(e.sweepSubs[op], ch)
	// A sweep never confirms instantly: if the chain already allows it, it
	// confirms at the next environment step.
	e.mu.Unlock()
	e.effectPoint(s.ep, "sweep")
	e.mu.Lock()
	return ch, nil
}

func (s *c13Sweeper) UpdateParams(op wire.OutPoint, _ sweep.Params) (
	chan sweep.Result, error) {

	return make(chan sweep.Result, 1), nil
}

// --- preimage beacon -----------------------------------------------------------

type c13Beacon struct {
	env *c13Env
	ep  int
}

func (b *c13Beacon) SubscribeUpdates(lnwire.ShortChannelID, *channeldb.HTLC,
	*hop.Payload, []byte) (*WitnessSubscription, error) {

	e := b.env
	e.touch()
	ch := make(chan lntypes.Preimage, 16)
	e.mu.Lock()
	e.beaconSubs = append(e.beaconSubs, ch)
	e.mu.Unlock()
	return &WitnessSubscription{
		WitnessUpdates:     ch,
		CancelSubscription: func() {},
	}, nil
}

func (b *c13Beacon) LookupPreimage(h lntypes.Hash) (lntypes.Preimage, bool) {
	e := b.env
	e.touch()
	e.mu.Lock()
	defer e.mu.Unlock()
	p, ok := e.preimages[h]
	return p, ok
}

func (b *c13Beacon) AddPreimages(ps ...lntypes.Preimage) error {
	e := b.env
	if !e.isAlive(b.ep) {
		return c13ErrCrashed
	}
	e.touch()
	e.mu.Lock()
	defer e.mu.Unlock()
	for _, p := range ps {
		e.preimages[p.Hash()] = p
	}
	return nil
}

// --- chain io / channel ---------------------------------------------------------

type c13ChainIO struct {
	*mockChainIO
	env *c13Env
}

func (c *c13ChainIO) GetBestBlock() (*chainhash.Hash, int32, error) {
	c.env.touch()
	c.env.mu.Lock()
	defer c.env.mu.Unlock()
	return &chainhash.Hash{}, c.env.height, nil
}

type c13Channel struct {
	closeTx *wire.MsgTx
}

func (c *c13Channel) ForceCloseChan() (*wire.MsgTx, error) { return c.closeTx, nil }
func (c *c13Channel) NewAnchorResolutions() (*lnwallet.AnchorResolutions, error) {
	return &lnwallet.AnchorResolutions{}, nil
}

// ---------------------------------------------------------------------------
// scenarios
// ---------------------------------------------------------------------------

type c13Step struct {
	name string
	do   func(r *c13Run)
}

type c13Scenario struct {
	name  string
	hold  bool
	// startHeight is the best height when the node first starts.
	startHeight int32
	// realNursery: IncubateOutputs goes to the REAL UtxoNursery on the real
	// nursery store (instead of the nursery oracle)
	realNursery bool
	txs         map[string]*c13PendingConf
	spec  []string // SPEC lines (contract plan for the model)
	htlcs map[HtlcSetKey][]channeldb.HTLC
	// closeEvent delivers the close event to a live arbitrator.
	closeEvent func(a *ChannelArbitrator)
	closeTx    *wire.MsgTx
	init       func(e *c13Env)
	steps      []c13Step
}

type c13Run struct {
	t   *testing.T
	env *c13Env
	scn *c13Scenario
	arb *ChannelArbitrator
	// closeFact is set once the scenario's commitment/closing tx confirmed.
	closeFact bool
	nursery   *UtxoNursery
	// downtime: after a stop, this many environment steps happen while the
	// node is down; restartIn counts them down (-1: node is up)
	down      int
	restartIn int
}

func c13Preimage(i byte) (lntypes.Preimage, lntypes.Hash) {
	var p lntypes.Preimage
	for k := range p {
		p[k] = i
	}
	return p, lntypes.Hash(sha256.Sum256(p[:]))
}

func c13CloseTx(tag byte) *wire.MsgTx {
	return &wire.MsgTx{
		Version: 2,
		TxIn: []*wire.TxIn{{
			PreviousOutPoint: wire.OutPoint{},
			Witness:          [][]byte{{0x1}, {tag}},
		}},
		TxOut: []*wire.TxOut{{Value: int64(tag) + 1}},
	}
}

// c13Builder accumulates what a unilateral close scenario needs.
type c13Builder struct {
	local      bool
	closeTx    *wire.MsgTx
	commitHash chainhash.Hash
	height     uint32
	confHtlcs  []channeldb.HTLC
	outRes     []lnwallet.OutgoingHtlcResolution
	inRes      []lnwallet.IncomingHtlcResolution
	preimages  map[string]lntypes.Preimage
	txs        map[string]*c13PendingConf
	labels     map[wire.OutPoint]string
	witness    map[string]wire.TxWitness
	spec       []string
	remoteTx   map[string]*wire.MsgTx
}

func c13NewBuilder(local bool, tag byte, height uint32) *c13Builder {
	tx := c13CloseTx(tag)
	return &c13Builder{
		local: local, closeTx: tx, commitHash: tx.TxHash(), height: height,
		labels:    map[wire.OutPoint]string{},
		witness:   map[string]wire.TxWitness{},
		remoteTx:  map[string]*wire.MsgTx{},
		preimages: map[string]lntypes.Preimage{},
		txs:       map[string]*c13PendingConf{},
	}
}

// outgoing adds an outgoing HTLC with an output on the confirmed commitment.
// fate: "timeout" (we time it out) or "claim" (remote sweeps with preimage).
func (b *c13Builder) outgoing(idx uint64, expiry uint32, fate string) {
	pre, hash := c13Preimage(byte(idx))
	op := wire.OutPoint{Hash: b.commitHash, Index: uint32(idx)}
	l := fmt.Sprintf("h%d", idx)
	b.labels[op] = l
	htlc := channeldb.HTLC{
		Incoming: false, Amt: 10_000_000, HtlcIndex: idx,
		OutputIndex: int32(idx), RefundTimeout: expiry, RHash: hash,
	}
	b.confHtlcs = append(b.confHtlcs, htlc)
	res := lnwallet.OutgoingHtlcResolution{
		Expiry:        expiry,
		SweepSignDesc: testSignDesc,
		CsvDelay:      4,
		ClaimOutpoint: op,
	}
	if b.local {
		timeoutTx := &wire.MsgTx{
			Version: 2,
			TxIn:    []*wire.TxIn{{PreviousOutPoint: op}},
			TxOut:   []*wire.TxOut{{Value: 9000, PkScript: []byte{0xff, 0xff}}},
		}
		wit, err := input.SenderHtlcSpendTimeout(
			&mock.DummySignature{}, txscript.SigHashAll,
			&mock.DummySigner{}, &testSignDesc, timeoutTx,
		)
		if err != nil {
			panic(err)
		}
		timeoutTx.TxIn[0].Witness = wit
		res.SignedTimeoutTx = timeoutTx
		res.SignDetails = testSignDetails
		b.witness[l] = wit
		// remote success spend on our commitment: <sig> <preimage> <script>
		b.remoteTx[l] = &wire.MsgTx{
			Version: 2,
			TxIn: []*wire.TxIn{{PreviousOutPoint: op,
				Witness: [][]byte{{0x30}, pre[:], {0x51}}}},
			TxOut: []*wire.TxOut{{Value: 1, PkScript: []byte{0xbb}}},
		}
	} else {
		// our direct timeout sweep on their commitment: <sig> <> <script>
		b.witness[l] = wire.TxWitness{{0x30}, {}, {0x51}}
		// remote second-level success: <0> <sig> <sig> <preimage> <script>
		b.remoteTx[l] = &wire.MsgTx{
			Version: 2,
			TxIn: []*wire.TxIn{{PreviousOutPoint: op,
				Witness: [][]byte{{}, {0x30}, {0x31}, pre[:], {0x51}}}},
			TxOut: []*wire.TxOut{{Value: 1, PkScript: []byte{0xbb}}},
		}
	}
	b.outRes = append(b.outRes, res)
	kind := "oc"
	if b.height+5 >= expiry { // OutgoingBroadcastDelta = 5
		kind = "to"
	}
	b2i := func(x bool) int {
		if x {
			return 1
		}
		return 0
	}
	_ = fate
	b.spec = append(b.spec, fmt.Sprintf("SPEC c label=%s kind=%s two=%d idx=%d expiry=%d",
		l, kind, b2i(b.local), idx, expiry))
}

// outgoingLegacy adds an outgoing HTLC on OUR commitment of a pre-anchor
// channel: the timeout resolver hands the htlc (with its pre-signed timeout tx)
// to the utxo nursery (IncubateOutputs: crib), which publishes the timeout tx at
// the expiry, moves the output to kindergarten once the timeout tx confirms and
// sweeps the CSV-delayed second-level output; the resolver only watches.
func (b *c13Builder) outgoingLegacy(idx uint64, expiry uint32) {
	pre, hash := c13Preimage(byte(idx))
	op := wire.OutPoint{Hash: b.commitHash, Index: uint32(idx)}
	l := fmt.Sprintf("h%d", idx)
	b.labels[op] = l
	b.confHtlcs = append(b.confHtlcs, channeldb.HTLC{
		Incoming: false, Amt: 10_000_000, HtlcIndex: idx,
		OutputIndex: int32(idx), RefundTimeout: expiry, RHash: hash,
	})
	timeoutTx := &wire.MsgTx{
		Version: 2,
		TxIn:    []*wire.TxIn{{PreviousOutPoint: op}},
		TxOut:   []*wire.TxOut{{Value: 9000, PkScript: []byte{0xfe, byte(idx)}}},
	}
	wit, err := input.SenderHtlcSpendTimeout(
		&mock.DummySignature{}, txscript.SigHashAll,
		&mock.DummySigner{}, &testSignDesc, timeoutTx,
	)
	if err != nil {
		panic(err)
	}
	timeoutTx.TxIn[0].Witness = wit
	claim := wire.OutPoint{Hash: timeoutTx.TxHash(), Index: 0}
	b.labels[claim] = l + "/2"
	b.txs[l] = &c13PendingConf{tx: timeoutTx, op: op}
	b.witness[l] = wit
	b.outRes = append(b.outRes, lnwallet.OutgoingHtlcResolution{
		Expiry:          expiry,
		SignedTimeoutTx: timeoutTx,
		SweepSignDesc:   testSignDesc,
		CsvDelay:        4,
		ClaimOutpoint:   claim,
	})
	// remote success spend on our commitment: <sig> <preimage> <script>
	b.remoteTx[l] = &wire.MsgTx{
		Version: 2,
		TxIn: []*wire.TxIn{{PreviousOutPoint: op,
			Witness: [][]byte{{0x30}, pre[:], {0x51}}}},
		TxOut: []*wire.TxOut{{Value: 1, PkScript: []byte{0xbb}}},
	}
	kind := "oc"
	if b.height+5 >= expiry { // OutgoingBroadcastDelta = 5
		kind = "to"
	}
	b.spec = append(b.spec, fmt.Sprintf("SPEC c label=%s kind=%s two=1 legacy=1 idx=%d expiry=%d",
		l, kind, idx, expiry))
}

// incoming adds an incoming HTLC with an output on the confirmed (remote)
// commitment: resolved by an incoming contest resolver that turns into a
// success resolver once the preimage is known, or gives up at the expiry.
func (b *c13Builder) incoming(idx uint64, expiry uint32) {
	pre, hash := c13Preimage(byte(idx))
	op := wire.OutPoint{Hash: b.commitHash, Index: uint32(idx)}
	l := fmt.Sprintf("h%d", idx)
	b.labels[op] = l
	b.confHtlcs = append(b.confHtlcs, channeldb.HTLC{
		Incoming: true, Amt: 10_000_000, HtlcIndex: idx,
		OutputIndex: int32(idx), RefundTimeout: expiry, RHash: hash,
	})
	b.inRes = append(b.inRes, lnwallet.IncomingHtlcResolution{
		ClaimOutpoint: op,
		SweepSignDesc: testSignDesc,
		CsvDelay:      4,
	})
	// our direct preimage sweep on their commitment: <sig> <preimage> <script>
	b.witness[l] = wire.TxWitness{{0x30}, pre[:], testSignDesc.WitnessScript}
	b.preimages[l] = pre
	b.spec = append(b.spec, fmt.Sprintf("SPEC c label=%s kind=ic two=0 idx=%d expiry=%d", l, idx, expiry))
}

// incomingLegacy adds an incoming HTLC on OUR commitment of a pre-anchor
// channel: second-level success tx published by the resolver, its output handed
// to the utxo nursery (IncubateOutputs), then checkpointed.
func (b *c13Builder) incomingLegacy(idx uint64, expiry uint32) {
	pre, hash := c13Preimage(byte(idx))
	op := wire.OutPoint{Hash: b.commitHash, Index: uint32(idx)}
	l := fmt.Sprintf("h%d", idx)
	b.labels[op] = l
	b.confHtlcs = append(b.confHtlcs, channeldb.HTLC{
		Incoming: true, Amt: 10_000_000, HtlcIndex: idx,
		OutputIndex: int32(idx), RefundTimeout: expiry, RHash: hash,
	})
	successTx := &wire.MsgTx{
		Version: 2,
		TxIn: []*wire.TxIn{{PreviousOutPoint: op,
			Witness: [][]byte{{}, {0x30}, {0x31}, {}, {0x51}}}},
		TxOut: []*wire.TxOut{{Value: 9000, PkScript: []byte{0xee, byte(idx)}}},
	}
	claim := wire.OutPoint{Hash: successTx.TxHash(), Index: 0}
	b.labels[claim] = l + "/2"
	b.txs[l] = &c13PendingConf{tx: successTx, op: op}
	b.inRes = append(b.inRes, lnwallet.IncomingHtlcResolution{
		SignedSuccessTx: successTx,
		ClaimOutpoint:   claim,
		SweepSignDesc:   testSignDesc,
		CsvDelay:        4,
	})
	b.preimages[l] = pre
	b.spec = append(b.spec, fmt.Sprintf("SPEC c label=%s kind=ic two=1 legacy=1 idx=%d expiry=%d", l, idx, expiry))
}

// incomingAnchor adds an incoming HTLC on OUR commitment of an anchor
// (zero-fee second level) channel: the success resolver offers the signed
// second-level success tx to the sweeper, waits for the spend of the htlc
// output, checks that the spender created the expected second-level output,
// checkpoints outputIncubating, offers that output (CSV) to the sweeper and
// waits for its spend.
func (b *c13Builder) incomingAnchor(idx uint64, expiry uint32) {
	pre, hash := c13Preimage(byte(idx))
	op := wire.OutPoint{Hash: b.commitHash, Index: uint32(idx)}
	l := fmt.Sprintf("h%d", idx)
	b.labels[op] = l
	b.confHtlcs = append(b.confHtlcs, channeldb.HTLC{
		Incoming: true, Amt: 10_000_000, HtlcIndex: idx,
		OutputIndex: int32(idx), RefundTimeout: expiry, RHash: hash,
	})
	// the output our (aggregated) success spend creates: see confirmOurs
	out := &wire.TxOut{Value: 1000, PkScript: []byte{0xaa, byte(len(l))}}
	successTx := &wire.MsgTx{
		Version: 2,
		TxIn: []*wire.TxIn{{PreviousOutPoint: op,
			Witness: [][]byte{{}, {0x30}, {0x31}, {}, {0x51}}}},
		TxOut: []*wire.TxOut{out},
	}
	sd := testSignDesc
	sd.Output = out
	// the resolver's report names the static claim outpoint
	claim := wire.OutPoint{Hash: successTx.TxHash(), Index: 0}
	b.labels[claim] = l + "/2"
	b.inRes = append(b.inRes, lnwallet.IncomingHtlcResolution{
		SignedSuccessTx: successTx,
		SignDetails:     testSignDetails,
		ClaimOutpoint:   claim,
		SweepSignDesc:   sd,
		CsvDelay:        4,
	})
	b.preimages[l] = pre
	b.spec = append(b.spec, fmt.Sprintf("SPEC c label=%s kind=ic two=1 idx=%d expiry=%d", l, idx, expiry))
}

func c13Dust(idx uint64, incoming bool) channeldb.HTLC {
	_, hash := c13Preimage(byte(idx))
	return channeldb.HTLC{
		Incoming: incoming, Amt: 1000, HtlcIndex: idx, OutputIndex: -1,
		RefundTimeout: 500, RHash: hash,
	}
}

func c13NewEnv(t *testing.T, dir string, scn *c13Scenario, crashAt []int) *c13Env {
	db, err := kvdb.Create(kvdb.BoltBackendName, filepath.Join(dir, "c13.db"), true,
		kvdb.DefaultDBTimeout, false)
	if err != nil {
		t.Fatalf("db: %v", err)
	}
	e := &c13Env{
		rawDB:       db,
		crashAt:     append([]int(nil), crashAt...),
		crashCh:     make(chan int, 8),
		hold:        scn.hold,
		released:    make(chan struct{}),
		finalHtlcs:  map[uint64]bool{},
		preimages:   map[lntypes.Hash]lntypes.Preimage{},
		spends:      map[wire.OutPoint]*chainntnfs.SpendDetail{},
		confirmable: map[string]bool{},
		offered:     map[wire.OutPoint]bool{},
		incubated:   map[string]wire.OutPoint{},
		pubTxs:      map[chainhash.Hash]bool{},
		confs:       map[chainhash.Hash]int32{},
		confSubs:    map[chainhash.Hash][]chan *chainntnfs.TxConfirmation{},
		wantConf:    map[chainhash.Hash]*c13PendingConf{},
		mempool:     map[wire.OutPoint]bool{},
		ourWitness:  map[string]wire.TxWitness{},
		labels:      map[wire.OutPoint]string{},
		height:      100,
	}
	if scn.startHeight != 0 {
		e.height = scn.startHeight
	}
	obs, err := newBoltArbitratorLog(db, ChannelArbitratorConfig{}, chainhash.Hash{}, wire.OutPoint{})
	if err != nil {
		t.Fatalf("observer: %v", err)
	}
	e.observer = obs
	// the real channeldb with the channel's (pending) close summary
	cdbBackend, err := kvdb.Create(kvdb.BoltBackendName, filepath.Join(dir, "chan.db"), true,
		kvdb.DefaultDBTimeout, false)
	if err != nil {
		t.Fatalf("chan db: %v", err)
	}
	e.chanDB, err = channeldb.CreateWithBackend(&c13MarkDB{DB: cdbBackend, env: e})
	if err != nil {
		t.Fatalf("channeldb: %v", err)
	}
	sum := c13ClosedSummary(t)
	err = kvdb.Update(cdbBackend, func(tx kvdb.RwTx) error {
		b, err := tx.CreateTopLevelBucket([]byte("closed-chan-bucket"))
		if err != nil {
			return err
		}
		var key bytes.Buffer
		_ = graphdb.WriteOutpoint(&key, &wire.OutPoint{})
		return b.Put(key.Bytes(), sum)
	}, func() {})
	if err != nil {
		t.Fatalf("close summary: %v", err)
	}
	if scn.realNursery {
		e.nurseryObs, err = NewNurseryStore(&chainhash.Hash{}, &channeldb.DB{Backend: db})
		if err != nil {
			t.Fatalf("nursery observer: %v", err)
		}
	}
	e.touch()
	return e
}

// start builds a fresh arbitrator from durable state, as ChainArbitrator.Start
// does (loadOpenChannels / loadPendingCloseChannels).
func (r *c13Run) start() {
	e := r.env
	e.mu.Lock()
	e.epoch++
	ep := e.epoch
	e.alive = true
	e.deadCh = make(chan struct{})
	e.spendSubs = map[wire.OutPoint][]chan *chainntnfs.SpendDetail{}
	e.sweepSubs = map[wire.OutPoint][]chan sweep.Result{}
	e.epochSubs = nil
	e.beaconSubs = nil
	e.breachSubs = nil
	// The sweeper does not persist its inputs: whatever was offered by a
	// previous incarnation and has not confirmed must be offered again.
	e.offered = map[wire.OutPoint]bool{}
	closed := e.fullyClosed
	if !closed {
		// a new arbitrator will write the log again
		e.wiped = false
	}
	pending, ctype, cheight, h := e.pendingClose, e.closeType, e.closingHeight, e.height
	e.mu.Unlock()

	if closed {
		// A fully closed channel gets no arbitrator any more.
		r.arb = nil
		e.pf("START ep=%d none", ep)
		return
	}

	ctx, err := createTestChannelArbitrator(r.t, &mockArbitratorLog{})
	if err != nil {
		r.t.Fatalf("create: %v", err)
	}
	arb := ctx.chanArb
	cfg := &arb.cfg
	cfg.Channel = &c13Channel{closeTx: r.scn.closeTx}
	cfg.IsPendingClose = pending
	cfg.CloseType = ctype
	cfg.ClosingHeight = cheight
	if pending {
		cfg.ChainEvents = &ChainEventSubscription{}
	}
	cfg.ChainIO = &c13ChainIO{mockChainIO: &mockChainIO{}, env: e}
	cfg.Notifier = &c13Notifier{env: e, ep: ep}
	cfg.Sweeper = &c13Sweeper{mockSweeper: newMockSweeper(), env: e, ep: ep}
	cfg.PreimageDB = &c13Beacon{env: e, ep: ep}
	cfg.PublishTx = func(tx *wire.MsgTx, _ string) error {
		_ = tx
		if !e.effect(ep, "P ep=%d publish", ep) {
			return c13ErrCrashed
		}
		e.mu.Lock()
		e.published++
		e.pubTxs[tx.TxHash()] = true
		e.mu.Unlock()
		e.effectPoint(ep, "publish")
		return nil
	}
	cfg.DeliverResolutionMsg = func(msgs ...ResolutionMsg) error {
		// canonical order inside one call (the code iterates a set)
		sort.Slice(msgs, func(i, j int) bool { return msgs[i].HtlcIndex < msgs[j].HtlcIndex })
		for _, m := range msgs {
			kind := "fail"
			if m.PreImage != nil {
				kind = "settle"
			}
			if !e.effect(ep, "M ep=%d idx=%d %s", ep, m.HtlcIndex, kind) {
				return c13ErrCrashed
			}
			e.mu.Lock()
			e.msgs = append(e.msgs, fmt.Sprintf("%d:%s", m.HtlcIndex, kind))
			e.mu.Unlock()
		}
		if len(msgs) > 0 {
			e.effectPoint(ep, "msgs")
		}
		return nil
	}
	cfg.IncubateOutputs = func(_ wire.OutPoint,
		outRes fn.Option[lnwallet.OutgoingHtlcResolution],
		inRes fn.Option[lnwallet.IncomingHtlcResolution], _ uint32, _ fn.Option[int32],
		_ ...IncubateOption) error {

		// IncubateOutputs persists the output in the nursery store: a
		// durable write (idempotent), hence a stop point.
		var lbl string
		var claim wire.OutPoint
		inRes.WhenSome(func(r lnwallet.IncomingHtlcResolution) {
			lbl = e.label(r.HtlcPoint())
			claim = r.ClaimOutpoint
		})
		outRes.WhenSome(func(r lnwallet.OutgoingHtlcResolution) {
			lbl = e.label(r.HtlcPoint())
			claim = r.ClaimOutpoint
		})
		return e.envWrite(ep, "incubate "+lbl, func() { e.incubated[lbl] = claim })
	}
	cfg.SubscribeBreachComplete = func(_ *wire.OutPoint, c chan struct{}) (bool, error) {
		e.touch()
		e.mu.Lock()
		defer e.mu.Unlock()
		if !(e.alive && e.epoch == ep) {
			return false, c13ErrCrashed
		}
		if e.breachDone {
			return true, nil
		}
		e.breachSubs = append(e.breachSubs, c)
		return false, nil
	}
	cfg.PutFinalHtlcOutcome = func(_ lnwire.ShortChannelID, id uint64, settled bool) error {
		if !e.effect(ep, "F ep=%d idx=%d settled=%v", ep, id, settled) {
			return c13ErrCrashed
		}
		e.mu.Lock()
		e.finalHtlcs[id] = settled
		e.mu.Unlock()
		return nil
	}
	cfg.MarkCommitmentBroadcasted = func(*wire.MsgTx, lntypes.ChannelParty) error {
		return e.envWrite(ep, "markbroadcast", func() { e.broadcasted = true })
	}
	cfg.MarkChannelClosed = func(s *channeldb.ChannelCloseSummary,
		_ ...channeldb.ChannelStatus) error {

		return e.envWrite(ep, fmt.Sprintf("markclosed type=%d height=%d", s.CloseType, s.CloseHeight),
			func() {
				e.pendingClose = true
				e.closeType = s.CloseType
				e.closingHeight = s.CloseHeight
			})
	}
	cfg.PutResolverReport = func(_ kvdb.RwTx, rep *channeldb.ResolverReport) error {
		if !e.isAlive(ep) {
			return c13ErrCrashed
		}
		e.mu.Lock()
		e.reports = append(e.reports, fmt.Sprintf("%s:%d:%d", e.label(rep.OutPoint),
			rep.ResolverType, rep.ResolverOutcome))
		e.mu.Unlock()
		return nil
	}
	cfg.NotifyChannelResolved = func() {
		// ChainArbitrator.ResolveContract, run from its own goroutine.
		e.effect(ep, "N ep=%d notifyresolved", ep)
		e.resolveWG.Add(1)
		go func() {
			defer e.resolveWG.Done()
			e.resolveMu.Lock()
			defer e.resolveMu.Unlock()
			e.mu.Lock()
			already := e.fullyClosed
			e.mu.Unlock()
			if already {
				// MarkChanFullyClosed of a channel that is already
				// fully closed: nothing left to do.
				return
			}
			// the REAL ChainArbitrator.ResolveContract: MarkChanFullyClosed
			// on the real channeldb (stop point, c13MarkDB), Stop, and
			// WipeHistory on the real bolt log (stop point) - in the
			// order the code under test performs them.
			e.mu.Lock()
			e.markArmed, e.markEp = true, ep
			e.mu.Unlock()
			ca := &ChainArbitrator{
				chanSource:     e.chanDB,
				activeChannels: map[wire.OutPoint]*ChannelArbitrator{arb.cfg.ChanPoint: arb},
				activeWatchers: map[wire.OutPoint]*chainWatcher{},
			}
			_ = ca.ResolveContract(arb.cfg.ChanPoint)
			e.mu.Lock()
			e.markArmed = false
			e.mu.Unlock()
		}()
	}

	if r.scn.realNursery {
		ndb := &c13DB{DB: e.rawDB, env: e, ep: ep, nursery: true}
		store, err := NewNurseryStore(&chainhash.Hash{}, &channeldb.DB{Backend: ndb})
		if err != nil {
			r.t.Fatalf("nursery store: %v", err)
		}
		sweeper := cfg.Sweeper
		nur := NewUtxoNursery(&NurseryConfig{
			ChainIO:   cfg.ChainIO,
			ConfDepth: 1,
			FetchClosedChannels: func(bool) ([]*channeldb.ChannelCloseSummary, error) {
				e.mu.Lock()
				defer e.mu.Unlock()
				if e.pendingClose && !e.fullyClosed {
					return []*channeldb.ChannelCloseSummary{{CloseHeight: e.closingHeight}}, nil
				}
				return nil, nil
			},
			FetchClosedChannel: func(*wire.OutPoint) (*channeldb.ChannelCloseSummary, error) {
				e.mu.Lock()
				defer e.mu.Unlock()
				return &channeldb.ChannelCloseSummary{CloseHeight: e.closingHeight}, nil
			},
			Notifier:           cfg.Notifier,
			PublishTransaction: cfg.PublishTx,
			Store:              store,
			SweepInput:         sweeper.SweepInput,
			Budget:             DefaultBudgetConfig(),
		})
		r.nursery = nur
		cfg.IncubateOutputs = nur.IncubateOutputs
	}
	db := &c13DB{DB: e.rawDB, env: e, ep: ep}
	bl, err := newBoltArbitratorLog(db, *cfg, chainhash.Hash{}, cfg.ChanPoint)
	if err != nil {
		r.t.Fatalf("log: %v", err)
	}
	arb.log = &c13Log{ArbitratorLog: bl, env: e, ep: ep}

	if !pending {
		for k, hs := range r.scn.htlcs {
			arb.notifyContractUpdate(&ContractUpdate{HtlcKey: k, Htlcs: hs})
		}
	}
	st, _ := e.observer.CurrentState(nil)
	e.pf("START ep=%d st=%d pending=%v type=%d cheight=%d", ep, uint8(st), pending, ctype, cheight)
	r.arb = arb
	if r.nursery != nil {
		// lnd starts the utxo nursery before the chain arbitrator
		if err := r.nursery.Start(); err != nil && e.isAlive(ep) {
			r.t.Fatalf("nursery start: %v", err)
		}
	}
	if err := arb.Start(nil, newBeatFromHeight(h)); err != nil && e.isAlive(ep) {
		r.t.Fatalf("start: %v", err)
	}
	// The chain watcher of a channel that is not yet marked closed
	// re-detects the confirmed close and dispatches it again.
	if !pending && r.closeFact && r.scn.closeEvent != nil {
		r.scn.closeEvent(arb)
	}
}

// c13Busy reports whether any goroutine of the package (other than the
// driver itself) is running, runnable or sleeping, i.e. not parked on a
// channel / select / lock. Parked goroutines can only be woken by the
// environment or by another goroutine that is then itself not parked.
var c13StackBuf = make([]byte, 1<<20)

func c13Busy() bool {
	buf := c13StackBuf
	n := runtime.Stack(buf, true)
	for _, g := range strings.Split(string(buf[:n]), "\n\n") {
		if !strings.Contains(g, "contractcourt.") && !strings.Contains(g, "chainio.") {
			continue
		}
		if strings.Contains(g, "c13Run).run(") || strings.Contains(g, "c13RunChildren") {
			continue
		}
		nl := strings.Index(g, "\n")
		if nl < 0 {
			continue
		}
		hdr := g[:nl]
		lb, rb := strings.Index(hdr, "["), strings.Index(hdr, "]")
		if lb < 0 || rb < lb {
			continue
		}
		st := hdr[lb+1 : rb]
		if c := strings.Index(st, ","); c >= 0 {
			st = st[:c]
		}
		switch st {
		case "select", "chan receive", "chan send", "semacquire", "sync.Mutex.Lock",
			"sync.RWMutex.RLock", "sync.RWMutex.Lock", "sync.Cond.Wait",
			"sync.WaitGroup.Wait", "select (no cases)", "chan receive (nil chan)",
			"chan send (nil chan)":
		default:
			return true
		}
	}
	return false
}

// flushConfirms lets every sweep that was offered and is allowed by the
// chain confirm now (called between environment steps).
func (r *c13Run) flushConfirms() bool {
	e := r.env
	e.mu.Lock()
	defer e.mu.Unlock()
	did := false
	cands := map[wire.OutPoint]bool{}
	if e.alive {
		for op := range e.offered {
			cands[op] = true
		}
	}
	for op := range e.mempool {
		cands[op] = true
	}
	for op := range cands {
		if _, ok := e.spends[op]; ok {
			continue
		}
		if e.confirmable[e.label(op)] {
			e.confirmOurs(op)
			did = true
		}
	}
	for h, pc := range e.wantConf {
		if e.pubTxs[h] {
			e.confirmTx(pc)
			delete(e.wantConf, h)
			did = true
		}
	}
	for l, op := range e.incubated {
		if _, ok := e.spends[op]; ok {
			continue
		}
		if e.confirmable[l+"/2"] {
			e.labels[op] = l + "/2"
			e.confirmOurs(op)
			did = true
		}
	}
	if did {
		e.touch()
	}
	return did
}

// quiet waits until nothing happened for `idle`, handling stops.
func (r *c13Run) quiet(idle time.Duration) {
	e := r.env
	deadline := time.Now().Add(c13StepMax)
	for {
		select {
		case <-e.crashCh:
			r.stopAll()
			if r.down > 0 {
				// the node stays down for the next `down` environment steps
				r.restartIn = r.down
				e.pf("DOWN steps=%d", r.down)
				return
			}
			r.start()
			deadline = time.Now().Add(c13StepMax)
			continue
		default:
		}
		if time.Since(time.Unix(0, e.lastAct.Load())) > idle && !c13Busy() {
			// still parked a moment later, and nothing happened in between?
			mark := e.lastAct.Load()
			time.Sleep(time.Millisecond)
			if c13Busy() || e.lastAct.Load() != mark {
				continue
			}
			// one more look at the crash channel before leaving
			select {
			case n := <-e.crashCh:
				e.crashCh <- n
				continue
			default:
			}
			return
		}
		if time.Now().After(deadline) {
			return
		}
		time.Sleep(2 * time.Millisecond)
	}
}

func (r *c13Run) stopAll() {
	if r.arb != nil {
		_ = r.arb.Stop()
		r.arb = nil
	}
	if r.nursery != nil {
		_ = r.nursery.Stop()
		r.nursery = nil
	}
	r.env.resolveWG.Wait()
}

func (r *c13Run) setHeight(h int32) {
	e := r.env
	e.mu.Lock()
	from := e.height
	if h > e.height {
		e.height = h
	}
	h = e.height
	if e.alive {
		// the live sweeper broadcasts its pending sweeps with the new block
		for op := range e.offered {
			e.mempool[op] = true
		}
	}
	subs := append([]chan *chainntnfs.BlockEpoch(nil), e.epochSubs...)
	e.mu.Unlock()
	// every block is delivered (the nursery graduates a class only at its height)
	for x := from + 1; x <= h || x == from+1; x++ {
		hh := x
		if hh > h {
			hh = h
		}
		for _, ch := range subs {
			select {
			case ch <- &chainntnfs.BlockEpoch{Height: hh}:
			default:
			}
		}
		if x >= h {
			break
		}
	}
	if arb := r.arb; arb != nil {
		go func() { _ = arb.ProcessBlock(newBeatFromHeight(h)) }()
	}
	e.touch()
}

func (r *c13Run) run() {
	e := r.env
	e.pf("CASE %s", e.caseHeader)
	for _, s := range r.scn.spec {
		e.pf("%s", s)
	}
	if r.scn.init != nil {
		r.scn.init(e)
	}
	r.restartIn = -1
	r.start()
	r.quiet(c13Idle)
	for _, s := range r.scn.steps {
		if r.restartIn == 0 {
			r.restartIn = -1
			r.start()
			r.quiet(c13Idle)
		}
		if r.flushConfirms() {
			r.quiet(c13Idle)
		}
		e.mu.Lock()
		e.pf("ENV %s", s.name)
		e.mu.Unlock()
		s.do(r)
		e.touch()
		if r.restartIn > 0 {
			r.restartIn--
		}
		r.quiet(c13Idle)
	}
	if r.restartIn >= 0 {
		r.restartIn = -1
		r.flushConfirms()
		r.start()
		r.quiet(c13Idle)
	}
	// final settle: finished (channel fully closed and nothing running) or
	// nothing moves any more.
	end := time.Now().Add(c13StepMax)
	for time.Now().Before(end) {
		r.quiet(c13Idle)
		if r.flushConfirms() {
			continue
		}
		e.mu.Lock()
		done := e.fullyClosed
		e.mu.Unlock()
		if done {
			e.resolveWG.Wait()
			select {
			case n := <-e.crashCh:
				e.crashCh <- n
				continue
			default:
			}
			break
		}
		if time.Since(time.Unix(0, e.lastAct.Load())) > c13FinalIdle && !c13Busy() {
			break
		}
		time.Sleep(2 * time.Millisecond)
	}
	r.stopAll()
	e.mu.Lock()
	e.alive = false
	e.mu.Unlock()

	e.wmu.Lock()
	snap := e.snapshot()
	e.wmu.Unlock()
	e.mu.Lock()
	set := map[string]bool{}
	for _, m := range e.msgs {
		set[m] = true
	}
	var ms []string
	for m := range set {
		ms = append(ms, m)
	}
	sort.Strings(ms)
	rs := map[string]bool{}
	for _, x := range e.reports {
		rs[x] = true
	}
	var reps []string
	for x := range rs {
		reps = append(reps, x)
	}
	sort.Strings(reps)
	var fh []string
	for id, s := range e.finalHtlcs {
		fh = append(fh, fmt.Sprintf("%d:%v", id, s))
	}
	sort.Strings(fh)
	b2i := func(b bool) int {
		if b {
			return 1
		}
		return 0
	}
	e.pf("FINAL closed=%d marks=%d wiped=%d last=%d %s msgs=[%s] nmsgs=%d reports=[%s] final=[%s] pub=%d writes=%d epochs=%d",
		b2i(e.fullyClosed), e.marks, b2i(e.wiped), uint8(e.lastState), snap,
		strings.Join(ms, ","), len(e.msgs), strings.Join(reps, ","),
		strings.Join(fh, ","), e.published, e.writes, e.epoch)
	e.pf("END")
	e.mu.Unlock()
	_ = e.rawDB.Close()
}

// ---------------------------------------------------------------------------
// scenario construction
// ---------------------------------------------------------------------------

func c13StepHeight(h int32) c13Step {
	return c13Step{name: fmt.Sprintf("height %d", h), do: func(r *c13Run) { r.setHeight(h) }}
}

func c13StepConfirmable(label string) c13Step {
	return c13Step{name: "confirmable " + label, do: func(r *c13Run) {
		e := r.env
		e.mu.Lock()
		defer e.mu.Unlock()
		e.confirmable[label] = true
	}}
}

func c13StepRemoteSpend(label string, op wire.OutPoint, tx *wire.MsgTx) c13Step {
	return c13Step{name: "remotespend " + label, do: func(r *c13Run) {
		e := r.env
		e.mu.Lock()
		defer e.mu.Unlock()
		e.addSpend(op, tx, 0, false)
	}}
}

// c13StepPreimage: the preimage of an incoming htlc becomes known to the
// preimage beacon (durable in the witness cache).
func c13StepPreimage(label string, pre lntypes.Preimage) c13Step {
	return c13Step{name: "preimage " + label, do: func(r *c13Run) {
		e := r.env
		e.mu.Lock()
		e.preimages[pre.Hash()] = pre
		subs := append([]chan lntypes.Preimage(nil), e.beaconSubs...)
		e.pf("X preimage %s", label)
		e.mu.Unlock()
		for _, ch := range subs {
			select {
			case ch <- pre:
			default:
			}
		}
	}}
}

// c13StepConfirmTx: a transaction published by a resolver (second-level success
// tx) confirms at the current height - or as soon as somebody has published it.
func c13StepConfirmTx(label string) c13Step {
	return c13Step{name: "confirmtx " + label, do: func(r *c13Run) {
		pc := r.scn.txs[label]
		if pc == nil {
			return
		}
		e := r.env
		e.mu.Lock()
		defer e.mu.Unlock()
		h := pc.tx.TxHash()
		if e.pubTxs[h] {
			e.confirmTx(pc)
		} else {
			e.wantConf[h] = pc
		}
	}}
}

// c13StepBlocks mines n more blocks.
func c13StepBlocks(n int32) c13Step {
	return c13Step{name: fmt.Sprintf("blocks %d", n), do: func(r *c13Run) {
		r.env.mu.Lock()
		h := r.env.height + n
		r.env.mu.Unlock()
		r.env.pf("ENV height %d", h)
		r.setHeight(h)
	}}
}

func c13StepRelease() c13Step {
	return c13Step{name: "release", do: func(r *c13Run) {
		select {
		case <-r.env.released:
		default:
			close(r.env.released)
		}
	}}
}

func c13StepForceClose() c13Step {
	return c13Step{name: "forceclose", do: func(r *c13Run) {
		arb := r.arb
		if arb == nil {
			return
		}
		st, _ := r.env.observer.CurrentState(nil)
		r.env.mu.Lock()
		pending := r.env.pendingClose
		r.env.mu.Unlock()
		if st != StateDefault || pending {
			return
		}
		req := &forceCloseReq{
			errResp: make(chan error, 1),
			closeTx: make(chan *wire.MsgTx, 1),
		}
		go func() {
			select {
			case arb.forceCloseReqs <- req:
			case <-arb.quit:
			}
		}()
	}}
}

func c13StepClose() c13Step {
	return c13Step{name: "closeconfirmed", do: func(r *c13Run) {
		r.closeFact = true
		r.env.mu.Lock()
		pending := r.env.pendingClose
		r.env.mu.Unlock()
		if r.arb != nil && !pending {
			r.scn.closeEvent(r.arb)
		}
	}}
}

// c13Unilateral builds a local / remote / pending-remote force close scenario.
func c13Unilateral(name string, kind string, near, hold bool, rng *rand.Rand) *c13Scenario {
	legacy := kind == "legacy"
	anchorIn := kind == "anchorin"
	legacyOut := kind == "legacyout"
	if legacy || anchorIn || legacyOut {
		kind = "local"
	}
	local := kind == "local"
	const closeHeight = 100
	b := c13NewBuilder(local, byte(len(name)), closeHeight)
	// h10: far expiry -> contest resolver, later timed out by us (two stage
	// on our commitment, direct on theirs).
	// (legacyOut: pre-anchor channel, both htlcs are handed to the utxo
	// nursery's crib by the timeout resolver)
	if legacyOut {
		b.outgoingLegacy(10, 140)
		b.outgoingLegacy(11, 150)
	} else {
		b.outgoing(10, 140, "timeout")
		// h11: far expiry -> contest resolver, the remote claims with preimage.
		b.outgoing(11, 150, "claim")
	}
	// h12: close to expiry at close height -> timeout resolver at once (and
	// the arbitrator goes to chain by itself: chain trigger).
	if near {
		b.outgoing(12, 103, "timeout")
	}
	if legacy {
		// h15: incoming htlc on our own commitment of a pre-anchor channel
		b.incomingLegacy(15, 175)
	}
	if anchorIn {
		// h16: incoming htlc on our own commitment of an anchor channel
		// (two-stage success through the sweeper); h17: the same, but the
		// preimage never becomes known: given up at its expiry.
		b.incomingAnchor(16, 175)
		b.incomingAnchor(17, 155)
	}
	if !local {
		// h13: incoming, we learn the preimage and claim; h14: incoming, never
		// learned, given up at its expiry.
		b.incoming(13, 170)
		b.incoming(14, 155)
	}
	dustOut := c13Dust(20, false)
	dustIn := c13Dust(21, true)
	dangling := channeldb.HTLC{Incoming: false, Amt: 5_000_000, HtlcIndex: 30,
		OutputIndex: 3, RefundTimeout: 160}
	_, dangling.RHash = c13Preimage(30)

	commitOp := wire.OutPoint{Hash: b.commitHash, Index: 50}
	anchorOp := wire.OutPoint{Hash: b.commitHash, Index: 51}
	b.labels[commitOp] = "commit"
	b.labels[anchorOp] = "anchor"
	commitRes := &lnwallet.CommitOutputResolution{
		SelfOutPoint: commitOp, SelfOutputSignDesc: testSignDesc, MaturityDelay: 3,
	}
	anchorRes := &lnwallet.AnchorResolution{
		AnchorSignDescriptor: testSignDesc, CommitAnchor: anchorOp,
	}
	conf := append([]channeldb.HTLC(nil), b.confHtlcs...)
	conf = append(conf, dustOut, dustIn)

	scn := &c13Scenario{name: name, hold: hold, closeTx: b.closeTx}
	// Output indexes are per commitment: on the commitments that did NOT
	// confirm the same htlcs sit at other output indexes, and DIFFERENT
	// (dangling) htlcs occupy the output indexes the confirmed commitment
	// uses for its htlcs.
	var shifted []channeldb.HTLC
	for _, h := range conf {
		if h.OutputIndex >= 0 {
			h.OutputIndex += 50
		}
		shifted = append(shifted, h)
	}
	var collide []channeldb.HTLC
	var collideIdx []uint64
	for _, h := range b.confHtlcs {
		d := channeldb.HTLC{Incoming: false, Amt: 7_000_000, HtlcIndex: h.HtlcIndex + 30,
			OutputIndex: h.OutputIndex, RefundTimeout: 190}
		_, d.RHash = c13Preimage(byte(h.HtlcIndex + 30))
		collide = append(collide, d)
		collideIdx = append(collideIdx, d.HtlcIndex)
	}
	other := append(append(append([]channeldb.HTLC(nil), shifted...), dangling), collide...)
	var confKey HtlcSetKey
	sets := map[HtlcSetKey][]channeldb.HTLC{}
	switch kind {
	case "local":
		confKey = LocalHtlcSet
		sets[LocalHtlcSet] = conf
		sets[RemoteHtlcSet] = other
	case "remote":
		confKey = RemoteHtlcSet
		sets[LocalHtlcSet] = shifted
		sets[RemoteHtlcSet] = conf
		sets[RemotePendingHtlcSet] = other
	case "pending":
		confKey = RemotePendingHtlcSet
		sets[LocalHtlcSet] = shifted
		sets[RemotePendingHtlcSet] = conf
		sets[RemoteHtlcSet] = other
	}
	scn.htlcs = sets
	scn.spec = append(scn.spec, b.spec...)
	ck := "remote"
	if local {
		ck = "local"
	}
	nearI := 0
	if near {
		nearI = 1
	}
	scn.spec = append(scn.spec,
		"SPEC c label=commit kind=cs two=0 claims=0 idx=0 expiry=0",
		"SPEC c label=anchor kind=an two=0 claims=0 idx=0 expiry=0",
		"SPEC dust idx=20",
		"SPEC dangling idx=30",
		"SPEC final idx=21",
		fmt.Sprintf("SPEC close kind=%s height=%d delta=5", ck, closeHeight),
	)
	_ = nearI
	for _, i := range collideIdx {
		scn.spec = append(scn.spec, fmt.Sprintf("SPEC dangling idx=%d", i))
	}
	commitSet := CommitSet{ConfCommitKey: fn.Some(confKey), HtlcSets: sets}
	hres := &lnwallet.HtlcResolutions{OutgoingHTLCs: b.outRes, IncomingHTLCs: b.inRes}
	spendDetail := &chainntnfs.SpendDetail{
		SpenderTxHash: &b.commitHash, SpendingTx: b.closeTx, SpendingHeight: closeHeight,
	}
	if local {
		scn.closeEvent = func(a *ChannelArbitrator) {
			a.cfg.ChainEvents.LocalUnilateralClosure <- &LocalUnilateralCloseInfo{
				SpendDetail: spendDetail,
				LocalForceCloseSummary: &lnwallet.LocalForceCloseSummary{
					CloseTx: b.closeTx,
					ContractResolutions: fn.Some(lnwallet.ContractResolutions{
						CommitResolution: commitRes,
						HtlcResolutions:  hres,
						AnchorResolution: anchorRes,
					}),
				},
				ChannelCloseSummary: &channeldb.ChannelCloseSummary{
					CloseType: channeldb.LocalForceClose, CloseHeight: closeHeight,
				},
				CommitSet: commitSet,
			}
		}
	} else {
		scn.closeEvent = func(a *ChannelArbitrator) {
			a.cfg.ChainEvents.RemoteUnilateralClosure <- &RemoteUnilateralCloseInfo{
				UnilateralCloseSummary: &lnwallet.UnilateralCloseSummary{
					SpendDetail: spendDetail,
					ChannelCloseSummary: channeldb.ChannelCloseSummary{
						CloseType: channeldb.RemoteForceClose, CloseHeight: closeHeight,
					},
					CommitResolution: commitRes,
					HtlcResolutions:  hres,
					AnchorResolution: anchorRes,
				},
				CommitSet: commitSet,
			}
		}
	}
	scn.init = func(e *c13Env) {
		for k, v := range b.labels {
			e.labels[k] = v
		}
		for k, v := range b.witness {
			e.ourWitness[k] = v
		}
	}

	h11 := wire.OutPoint{Hash: b.commitHash, Index: 11}
	var steps []c13Step
	if local {
		steps = append(steps, c13StepForceClose())
	}
	steps = append(steps, c13StepClose())
	// independent fact groups, interleaved by the seed
	groups := [][]c13Step{
		{c13StepHeight(102)},
		{c13StepRemoteSpend("h11", h11, b.remoteTx["h11"])},
		{c13StepConfirmable("commit")},
		{c13StepConfirmable("anchor")},
	}
	if !local {
		groups = append(groups, []c13Step{c13StepPreimage("h13", b.preimages["h13"]), c13StepConfirmable("h13")})
	}
	if legacy {
		// preimage -> success tx published, output handed to the REAL nursery
		// (preschool); the success tx confirms; CSV (4) matures; the nursery
		// sweeps the kindergarten output
		groups = append(groups, []c13Step{c13StepPreimage("h15", b.preimages["h15"]),
			c13StepConfirmTx("h15"), c13StepBlocks(4), c13StepBlocks(5), c13StepConfirmable("h15/2"),
			c13StepBlocks(1)})
		scn.realNursery = true
		scn.txs = b.txs
	}
	if anchorIn {
		// preimage -> contest resolver swaps to the success resolver, which
		// offers the second-level success tx; it confirms; checkpoint
		// (outputIncubating); the CSV-locked output is offered and swept.
		groups = append(groups, []c13Step{c13StepPreimage("h16", b.preimages["h16"]),
			c13StepConfirmable("h16"), c13StepBlocks(4), c13StepConfirmable("h16/2")})
	}
	if near {
		groups[0] = []c13Step{c13StepHeight(104), c13StepConfirmable("h12")}
		if local {
			groups[0] = append(groups[0], c13StepHeight(110), c13StepConfirmable("h12/2"))
		}
	}
	rng.Shuffle(len(groups), func(i, j int) { groups[i], groups[j] = groups[j], groups[i] })
	for _, g := range groups {
		steps = append(steps, g...)
	}
	if legacyOut {
		// 139: the contest resolver swaps to the timeout resolver, which hands
		// h10 to the REAL nursery (crib, class = expiry 140); 140: the nursery
		// publishes the timeout tx; it confirms; CSV (4) matures; the nursery
		// sweeps the kindergarten output
		scn.realNursery = true
		scn.txs = b.txs
		steps = append(steps, c13StepHeight(139), c13StepBlocks(1), c13StepConfirmTx("h10"),
			c13StepBlocks(4), c13StepBlocks(1), c13StepConfirmable("h10/2"), c13StepBlocks(1))
	} else {
		steps = append(steps, c13StepHeight(141), c13StepConfirmable("h10"))
		if local {
			steps = append(steps, c13StepHeight(150), c13StepConfirmable("h10/2"))
		}
	}
	if hold {
		steps = append(steps, c13StepRelease())
	}
	steps = append(steps, c13StepHeight(160))
	scn.steps = steps
	return scn
}

func c13Breach(name string, hold bool) *c13Scenario {
	tx := c13CloseTx(0x77)
	hash := tx.TxHash()
	anchorOp := wire.OutPoint{Hash: hash, Index: 51}
	out := channeldb.HTLC{Incoming: false, Amt: 10_000_000, HtlcIndex: 10, OutputIndex: 2, RefundTimeout: 140}
	_, out.RHash = c13Preimage(10)
	in := channeldb.HTLC{Incoming: true, Amt: 10_000_000, HtlcIndex: 11, OutputIndex: 3, RefundTimeout: 140}
	_, in.RHash = c13Preimage(11)
	sets := map[HtlcSetKey][]channeldb.HTLC{
		LocalHtlcSet:  {out, in},
		RemoteHtlcSet: {out, in},
	}
	scn := &c13Scenario{name: name, hold: hold, closeTx: tx, htlcs: sets}
	scn.spec = []string{
		"SPEC c label=breach kind=br two=0 claims=0 idx=0 expiry=0",
		"SPEC c label=anchor kind=an two=0 claims=0 idx=0 expiry=0",
		"SPEC breachfail idx=10",
		"SPEC close kind=breach height=100 delta=5",
	}
	scn.closeEvent = func(a *ChannelArbitrator) {
		a.cfg.ChainEvents.ContractBreach <- &BreachCloseInfo{
			BreachResolution: &BreachResolution{FundingOutPoint: wire.OutPoint{}},
			AnchorResolution: &lnwallet.AnchorResolution{
				AnchorSignDescriptor: testSignDesc, CommitAnchor: anchorOp,
			},
			CommitHash: hash,
			CommitSet: CommitSet{
				ConfCommitKey: fn.Some(RemoteHtlcSet),
				HtlcSets:      sets,
			},
			CloseSummary: channeldb.ChannelCloseSummary{
				CloseType: channeldb.BreachClose, CloseHeight: 100,
			},
		}
	}
	scn.init = func(e *c13Env) { e.labels[anchorOp] = "anchor" }
	scn.steps = []c13Step{
		c13StepClose(),
		c13StepHeight(101),
		c13StepConfirmable("anchor"),
		{name: "breachdone", do: func(r *c13Run) {
			e := r.env
			e.mu.Lock()
			e.breachDone = true
			subs := e.breachSubs
			e.breachSubs = nil
			e.mu.Unlock()
			for _, c := range subs {
				close(c)
			}
		}},
	}
	if hold {
		scn.steps = append(scn.steps, c13StepRelease())
	}
	scn.steps = append(scn.steps, c13StepHeight(102))
	return scn
}

func c13Coop(name string, afterBroadcast bool) *c13Scenario {
	tx := c13CloseTx(0x55)
	sets := map[HtlcSetKey][]channeldb.HTLC{}
	scn := &c13Scenario{name: name, closeTx: tx, htlcs: sets}
	scn.spec = []string{"SPEC close kind=coop height=100 delta=5"}
	scn.closeEvent = func(a *ChannelArbitrator) {
		a.cfg.ChainEvents.CooperativeClosure <- &CooperativeCloseInfo{
			ChannelCloseSummary: &channeldb.ChannelCloseSummary{
				CloseType: channeldb.CooperativeClose, CloseHeight: 100,
			},
		}
	}
	if afterBroadcast {
		scn.steps = append(scn.steps, c13StepForceClose())
	}
	scn.steps = append(scn.steps, c13StepClose(), c13StepHeight(101))
	return scn
}

func c13Scenarios(seed int64) []*c13Scenario {
	rng := rand.New(rand.NewSource(seed))
	// own force close decided by a new block while in StateDefault
	localB := c13Unilateral("localB", "local", true, false, rng)
	localB.startHeight = 90
	localB.steps = append([]c13Step{c13StepHeight(99)}, localB.steps...)
	return []*c13Scenario{
		localB,
		c13Unilateral("localL", "legacy", false, false, rng),
		c13Unilateral("localS", "anchorin", false, false, rng),
		c13Unilateral("localO", "legacyout", false, false, rng),
		c13Unilateral("local", "local", true, false, rng),
		c13Unilateral("localU", "local", false, false, rng),
		c13Unilateral("remote", "remote", false, false, rng),
		c13Unilateral("pending", "pending", false, false, rng),
		c13Breach("breach", false),
		c13Coop("coop", false),
		c13Coop("coopbc", true),
		c13Unilateral("localH", "local", true, true, rng),
		c13Unilateral("remoteH", "remote", false, true, rng),
		c13Unilateral("remoteN", "remote", true, false, rng),
		c13Unilateral("remoteNH", "remote", true, true, rng),
		c13Breach("breachH", true),
	}
}

// ---------------------------------------------------------------------------
// test entry
// ---------------------------------------------------------------------------

type c13Case struct {
	scn   int
	crash []int
	rep   int // repetition number (map-order dependent behaviour needs several restarts)
	down  int // environment steps that happen while the node is down after each stop
}

func (c c13Case) id(scns []*c13Scenario) string {
	s := scns[c.scn].name + "-c"
	if len(c.crash) == 0 {
		return s + "none"
	}
	var p []string
	for _, x := range c.crash {
		p = append(p, strconv.Itoa(x))
	}
	id := s + strings.Join(p, "_")
	if c.down > 0 {
		id += "d" + strconv.Itoa(c.down)
	}
	if c.rep > 0 {
		id += "r" + strconv.Itoa(c.rep)
	}
	return id
}

func c13RunCase(t *testing.T, scns []*c13Scenario, seed int64, c c13Case, out *os.File) (string, int) {
	// scenarios hold per-run state (nothing mutable), but rebuild to be safe
	scn := c13Scenarios(seed)[c.scn]
	dir, err := os.MkdirTemp("", "c13")
	if err != nil {
		t.Fatal(err)
	}
	defer os.RemoveAll(dir)
	e := c13NewEnv(t, dir, scn, c.crash)
	e.out = out
	var cr []string
	for _, x := range c.crash {
		cr = append(cr, strconv.Itoa(x))
	}
	crs := "none"
	if len(cr) > 0 {
		crs = strings.Join(cr, ",")
	}
	e.caseHeader = fmt.Sprintf("%s scn=%s hold=%v crash=%s h0=%d down=%d", c.id(scns), scn.name, scn.hold, crs, e.height, c.down)
	r := &c13Run{t: t, env: e, scn: scn, down: c.down}
	r.run()
	return e.buf.String(), e.writes
}

func TestVerifC13(t *testing.T) {
	out := os.Getenv("VERIF_OUT")
	if out == "" {
		t.Skip("VERIF_OUT not set")
	}
	seed, _ := strconv.ParseInt(os.Getenv("VERIF_SEED"), 10, 64)
	thorough := os.Getenv("VERIF_TIER") == "thorough"
	scns := c13Scenarios(seed)
	// development aid (never set by the runner): restrict to one scenario
	only := os.Getenv("VERIF_C13_ONLY")

	// child mode: run the listed cases, append traces to VERIF_OUT.
	if spec := os.Getenv("VERIF_C13_CASES"); spec != "" {
		f, err := os.OpenFile(out, os.O_CREATE|os.O_WRONLY|os.O_APPEND, 0o644)
		if err != nil {
			t.Fatal(err)
		}
		defer f.Close()
		for _, cs := range strings.Split(spec, ";") {
			c := c13ParseCase(cs)
			fmt.Fprintf(f, "BEGIN %s\n", cs)
			_, n := c13RunCase(t, scns, seed, c, f)
			fmt.Fprintf(f, "DONE %s writes=%d\n", cs, n)
			f.Sync()
		}
		return
	}

	rng := rand.New(rand.NewSource(seed ^ 0x5eed))
	// phase 1: crash-free runs give N per scenario.
	var base []c13Case
	for i := range scns {
		base = append(base, c13Case{scn: i})
	}
	if only != "" {
		base = nil
		for i := range scns {
			if scns[i].name == only {
				base = append(base, c13Case{scn: i})
			}
		}
	}
	res := c13RunChildren(t, out, seed, base)
	ns := make([]int, len(scns))
	baseTrace := make([]string, len(scns))
	for i, r := range res {
		ns[base[i].scn] = r.writes
		baseTrace[base[i].scn] = r.trace
	}
	// phase 2: every single stop point; pairs (all in thorough, a seeded
	// sample in quick).
	var cases []c13Case
	for i := range scns {
		for k := 1; k <= ns[i]; k++ {
			cases = append(cases, c13Case{scn: i, crash: []int{k}})
		}
	}
	for i := range scns {
		n := ns[i]
		var pairs [][2]int
		for a := 1; a <= n; a++ {
			// the second stop may come later than N: a stopped run
			// can need more writes than the uninterrupted one.
			for b := a + 1; b <= n+4; b++ {
				pairs = append(pairs, [2]int{a, b})
			}
		}
		if !thorough {
			rng.Shuffle(len(pairs), func(x, y int) { pairs[x], pairs[y] = pairs[y], pairs[x] })
			if len(pairs) > 6 {
				pairs = pairs[:6]
			}
		}
		for _, p := range pairs {
			cases = append(cases, c13Case{scn: i, crash: []int{p[0], p[1]}})
		}
		if thorough {
			// a few triples
			for k := 0; k < 10 && n >= 3; k++ {
				a := 1 + rng.Intn(n)
				b := a + 1 + rng.Intn(4)
				c := b + 1 + rng.Intn(4)
				cases = append(cases, c13Case{scn: i, crash: []int{a, b, c}})
			}
		}
	}
	// downtime: after the stop the chain moves on (next d environment steps)
	// before the node comes back and replays what it missed. Every stop point
	// of the legacy / real-nursery scenario with d = 1..4; a seeded sample
	// (thorough: every stop point, d = 2) elsewhere.
	for i := range scns {
		for k := 1; k <= ns[i]; k++ {
			if scns[i].realNursery {
				for d := 1; d <= 4; d++ {
					cases = append(cases, c13Case{scn: i, crash: []int{k}, down: d})
				}
			} else if thorough || rng.Intn(6) == 0 {
				cases = append(cases, c13Case{scn: i, crash: []int{k}, down: 2})
			}
		}
	}
	// the same stop point in StateWaitingFullResolution many times: what a
	// restart re-derives from Go maps may differ from restart to restart
	reps := 8
	if thorough {
		reps = 24
	}
	for i := range scns {
		if scns[i].name != "localU" && scns[i].name != "remote" {
			continue
		}
		k := 0
		for _, l := range strings.Split(baseTrace[i], "\n") {
			ws := strings.Fields(l)
			if len(ws) > 3 && ws[0] == "W" && ws[3] == "st=3" {
				k, _ = strconv.Atoi(ws[1])
				break
			}
		}
		for r := 1; k > 0 && r <= reps; r++ {
			cases = append(cases, c13Case{scn: i, crash: []int{k + 1}, rep: r})
		}
	}
	res2 := c13RunChildren(t, out+".p2", seed, cases)

	f, err := os.Create(out)
	if err != nil {
		t.Fatal(err)
	}
	w := bufio.NewWriter(f)
	fmt.Fprintf(w, "FACT states=6 stContractClosed=%d stWaiting=%d stFully=%d stDefault=%d stBroadcast=%d stCommitBroadcasted=%d\n",
		uint8(StateContractClosed), uint8(StateWaitingFullResolution), uint8(StateFullyResolved),
		uint8(StateDefault), uint8(StateBroadcastCommit), uint8(StateCommitmentBroadcasted))
	fmt.Fprintf(w, "FACT closeCoop=%d closeLocal=%d closeRemote=%d closeBreach=%d\n",
		channeldb.CooperativeClose, channeldb.LocalForceClose, channeldb.RemoteForceClose, channeldb.BreachClose)
	for _, r := range append(res, res2...) {
		w.WriteString(r.trace)
	}
	w.Flush()
	f.Close()
}

func c13ParseCase(s string) c13Case {
	parts := strings.Split(s, ":")
	scn, _ := strconv.Atoi(parts[0])
	c := c13Case{scn: scn}
	if len(parts) > 1 && parts[1] != "" {
		for _, x := range strings.Split(parts[1], ",") {
			n, _ := strconv.Atoi(x)
			c.crash = append(c.crash, n)
		}
	}
	if len(parts) > 2 {
		c.rep, _ = strconv.Atoi(parts[2])
	}
	if len(parts) > 3 {
		c.down, _ = strconv.Atoi(parts[3])
	}
	return c
}

func (c c13Case) enc() string {
	var p []string
	for _, x := range c.crash {
		p = append(p, strconv.Itoa(x))
	}
	return fmt.Sprintf("%d:%s:%d:%d", c.scn, strings.Join(p, ","), c.rep, c.down)
}

type c13Result struct {
	trace  string
	writes int
}

// c13RunChildren runs the cases in child processes (a panic inside one of the
// arbitrator's goroutines kills only the child; it is reported as the result
// `PANIC` of the case that was running).
func c13RunChildren(t *testing.T, out string, seed int64, cases []c13Case) []c13Result {
	workers := 6
	if len(cases) < workers {
		workers = len(cases)
	}
	results := make([]c13Result, len(cases))
	scns := c13Scenarios(seed)
	var wg sync.WaitGroup
	for w := 0; w < workers; w++ {
		wg.Add(1)
		go func(w int) {
			defer wg.Done()
			var mine []int
			for i := range cases {
				if i%workers == w {
					mine = append(mine, i)
				}
			}
			for len(mine) > 0 {
				batch := mine
				if len(batch) > 40 {
					batch = batch[:40]
				}
				var encs []string
				for _, i := range batch {
					encs = append(encs, cases[i].enc())
				}
				file := fmt.Sprintf("%s.w%d", out, w)
				os.Remove(file)
				cmd := exec.Command(os.Args[0], "-test.run", "^TestVerifC13$", "-test.count=1")
				cmd.Env = append(os.Environ(),
					"VERIF_OUT="+file,
					"VERIF_C13_CASES="+strings.Join(encs, ";"))
				outb, _ := cmd.CombinedOutput()
				data, _ := os.ReadFile(file)
				os.Remove(file)
				done := 0
				rest := string(data)
				for _, i := range batch {
					enc := cases[i].enc()
					bi := strings.Index(rest, "BEGIN "+enc+"\n")
					if bi < 0 {
						break
					}
					body := rest[bi+len("BEGIN "+enc+"\n"):]
					di := strings.Index(body, "DONE "+enc+" ")
					if di >= 0 {
						tr := body[:di]
						line := body[di:]
						if nl := strings.Index(line, "\n"); nl >= 0 {
							line = line[:nl]
						}
						wr := 0
						if k := strings.Index(line, "writes="); k >= 0 {
							wr, _ = strconv.Atoi(line[k+7:])
						}
						results[i] = c13Result{trace: tr, writes: wr}
						rest = body[di:]
						done++
						continue
					}
					// the child died inside this case
					msg := "unknown"
					for _, l := range strings.Split(string(outb), "\n") {
						if strings.HasPrefix(l, "panic:") {
							msg = strings.ReplaceAll(strings.TrimSpace(l), " ", "_")
							break
						}
					}
					tr := body
					if !strings.Contains(tr, "CASE ") {
						tr = fmt.Sprintf("CASE %s scn=%s hold=%v crash=?\n", cases[i].id(scns),
							scns[cases[i].scn].name, scns[cases[i].scn].hold)
					}
					if !strings.HasSuffix(tr, "\n") {
						tr += "\n"
					}
					tr += fmt.Sprintf("PANIC %s\nEND\n", msg)
					results[i] = c13Result{trace: tr}
					done++
					break
				}
				if done == 0 {
					t.Errorf("child made no progress: %s", string(outb))
					return
				}
				mine = mine[done:]
			}
		}(w)
	}
	wg.Wait()
	return results
}
