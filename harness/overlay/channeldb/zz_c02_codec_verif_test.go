//go:build verif

package channeldb

// C02, stream `codec`: the persisted channel structures at the byte level
// ("reproduces exactly the pre-crash state … a field dropped from
// serialisation is invisible to the fixed scripts").
//
// kind=commit / diff / upds / upd cases: generated ChannelCommitment /
// CommitDiff / []LogUpdate / LogUpdate values (boundary-biased integers, 0..6
// HTLCs with blinding points and custom records, all five update messages,
// commit_sig with HTLC signatures / partial signature / custom records,
// circuit keys, aux blobs, transactions with and without witnesses) are written
// with the production code (putChanCommitment into a real kvdb bucket,
// serializeCommitDiff, serializeLogUpdates, serializeLogUpdate), the RAW bytes
// are printed next to the value, and the bytes are read back with the
// production code (fetchChanCommitment from the bucket, deserializeCommitDiff,
// deserializeLogUpdates, deserializeLogUpdate).
//
// kind=trunc cases: every prefix and random single-byte corruptions of such
// encodings are handed to the production decoders (error or value printed).
//
// kind=store cases: a real channel in a real channeldb; AppendRemoteCommitChain,
// UpdateCommitment and AdvanceCommitChainTail are called with generated values,
// then the raw values of the chanBucket keys (both commitments, commit diff,
// unsigned-acked updates, remote-unsigned-local updates) and of the
// forwarding-package update buckets are read with a plain kvdb view and printed
// next to the in-memory value that was written and next to what a fresh
// FetchOpenChannels / RemoteCommitChainTip / UnsignedAckedUpdates /
// RemoteUnsignedLocalUpdates / LoadFwdPkgs returns.

import (
	"bufio"
	"bytes"
	"encoding/binary"
	"encoding/hex"
	"fmt"
	"math"
	"math/rand"
	"os"
	"sort"
	"strconv"
	"strings"
	"testing"

	"github.com/btcsuite/btcd/btcec/v2"
	"github.com/btcsuite/btcd/btcutil/v2"
	"github.com/btcsuite/btcd/chainhash/v2"
	"github.com/btcsuite/btcd/wire/v2"
	"github.com/lightningnetwork/lnd/fn/v2"
	"github.com/lightningnetwork/lnd/graph/db/models"
	"github.com/lightningnetwork/lnd/kvdb"
	"github.com/lightningnetwork/lnd/lnwire"
	"github.com/lightningnetwork/lnd/shachain"
	"github.com/lightningnetwork/lnd/tlv"
)

// ---- canonical text ---------------------------------------------------------

func c02cHex(b []byte) string {
	if len(b) == 0 {
		return "-"
	}
	return hex.EncodeToString(b)
}

// onion blobs: constant fill printed short
func c02cOnion(b []byte) string {
	same := true
	for _, x := range b {
		if x != b[0] {
			same = false
			break
		}
	}
	if same && len(b) == lnwire.OnionPacketSize {
		return fmt.Sprintf("r%02x", b[0])
	}
	return c02cHex(b)
}

type c02cRec struct {
	t uint64
	v []byte
}

func c02cRecs(rs []c02cRec) string {
	if len(rs) == 0 {
		return "-"
	}
	sort.Slice(rs, func(i, j int) bool { return rs[i].t < rs[j].t })
	parts := make([]string, len(rs))
	for i, r := range rs {
		parts[i] = fmt.Sprintf("%d:%s", r.t, c02cHex(r.v))
	}
	return strings.Join(parts, "+")
}

// c02cSplitTlv splits an encoded TLV stream into its records (harness-side,
// only used to print ExtraData in canonical form).
func c02cSplitTlv(b []byte) ([]c02cRec, bool) {
	var out []c02cRec
	r := bytes.NewReader(b)
	var buf [8]byte
	for r.Len() > 0 {
		t, err := tlv.ReadVarInt(r, &buf)
		if err != nil {
			return nil, false
		}
		l, err := tlv.ReadVarInt(r, &buf)
		if err != nil || l > uint64(r.Len()) {
			return nil, false
		}
		v := make([]byte, l)
		if _, err := r.Read(v); err != nil && l > 0 {
			return nil, false
		}
		out = append(out, c02cRec{t, v})
	}
	return out, true
}

func c02cCustom(cr lnwire.CustomRecords) []c02cRec {
	var out []c02cRec
	for k, v := range cr {
		out = append(out, c02cRec{k, v})
	}
	return out
}

func c02cTx(tx *wire.MsgTx) string {
	if tx == nil {
		return "nil"
	}
	ins := make([]string, len(tx.TxIn))
	for i, in := range tx.TxIn {
		wit := "-"
		if len(in.Witness) > 0 {
			ws := make([]string, len(in.Witness))
			for j, it := range in.Witness {
				ws[j] = "x" + hex.EncodeToString(it)
			}
			wit = strings.Join(ws, "_")
		}
		ins[i] = fmt.Sprintf("%s.%d.%s.%d.%s", hex.EncodeToString(in.PreviousOutPoint.Hash[:]),
			in.PreviousOutPoint.Index, c02cHex(in.SignatureScript), in.Sequence, wit)
	}
	outs := make([]string, len(tx.TxOut))
	for i, o := range tx.TxOut {
		outs[i] = fmt.Sprintf("%d.%s", uint64(o.Value), c02cHex(o.PkScript))
	}
	j := func(l []string) string {
		if len(l) == 0 {
			return "-"
		}
		return strings.Join(l, "|")
	}
	return fmt.Sprintf("%d~%d~%s~%s", uint32(tx.Version), tx.LockTime, j(ins), j(outs))
}

func c02cHtlc(h *HTLC) string {
	bl := "none"
	h.BlindingPoint.WhenSomeV(func(p *btcec.PublicKey) {
		if p != nil {
			bl = hex.EncodeToString(p.SerializeCompressed())
		}
	})
	inc := 0
	if h.Incoming {
		inc = 1
	}
	return fmt.Sprintf("%s/%s/%d/%d/%d/%d/%s/%s/%s/%d/%d", c02cHex(h.Signature), hex.EncodeToString(h.RHash[:]),
		uint64(h.Amt), h.RefundTimeout, h.OutputIndex, inc, c02cOnion(h.OnionBlob[:]), bl,
		c02cRecs(c02cCustom(h.CustomRecords)), h.HtlcIndex, h.LogIndex)
}

func c02cCommit(c *ChannelCommitment) string {
	hs := "-"
	if len(c.Htlcs) > 0 {
		parts := make([]string, len(c.Htlcs))
		for i := range c.Htlcs {
			parts[i] = c02cHtlc(&c.Htlcs[i])
		}
		hs = strings.Join(parts, ";")
	}
	blob := "none"
	c.CustomBlob.WhenSome(func(b tlv.Blob) { blob = c02cHex(b) })
	return fmt.Sprintf("%d,%d,%d,%d,%d,%d,%d,%d,%d,%s,%s,%s,%s", c.CommitHeight, c.LocalLogIndex, c.LocalHtlcIndex,
		c.RemoteLogIndex, c.RemoteHtlcIndex, uint64(c.LocalBalance), uint64(c.RemoteBalance), uint64(c.CommitFee),
		uint64(c.FeePerKw), c02cTx(c.CommitTx), c02cHex(c.CommitSig), blob, hs)
}

// merged extra records of a parsed message: known record + custom records +
// whatever stayed in ExtraData.
func c02cMerged(known []c02cRec, custom lnwire.CustomRecords, extra lnwire.ExtraOpaqueData) string {
	rs := append([]c02cRec{}, known...)
	rs = append(rs, c02cCustom(custom)...)
	ex, ok := c02cSplitTlv(extra)
	if !ok {
		return "badextra:" + c02cHex(extra)
	}
	rs = append(rs, ex...)
	return c02cRecs(rs)
}

func c02cMsg(m lnwire.Message) string {
	switch x := m.(type) {
	case *lnwire.UpdateAddHTLC:
		var known []c02cRec
		x.BlindingPoint.WhenSomeV(func(p *btcec.PublicKey) {
			if p != nil {
				known = append(known, c02cRec{0, p.SerializeCompressed()})
			}
		})
		return fmt.Sprintf("add/%s/%d/%d/%s/%d/%s/%s", hex.EncodeToString(x.ChanID[:]), x.ID, uint64(x.Amount),
			hex.EncodeToString(x.PaymentHash[:]), x.Expiry, c02cOnion(x.OnionBlob[:]),
			c02cMerged(known, x.CustomRecords, x.ExtraData))
	case *lnwire.UpdateFulfillHTLC:
		return fmt.Sprintf("ful/%s/%d/%s/%s", hex.EncodeToString(x.ChanID[:]), x.ID,
			hex.EncodeToString(x.PaymentPreimage[:]), c02cMerged(nil, x.CustomRecords, x.ExtraData))
	case *lnwire.UpdateFailHTLC:
		return fmt.Sprintf("fail/%s/%d/%s/%s", hex.EncodeToString(x.ChanID[:]), x.ID, c02cHex(x.Reason),
			c02cHex(x.ExtraData))
	case *lnwire.UpdateFailMalformedHTLC:
		return fmt.Sprintf("mal/%s/%d/%s/%d/%s", hex.EncodeToString(x.ChanID[:]), x.ID,
			hex.EncodeToString(x.ShaOnionBlob[:]), uint16(x.FailureCode), c02cHex(x.ExtraData))
	case *lnwire.UpdateFee:
		return fmt.Sprintf("fee/%s/%d/%s", hex.EncodeToString(x.ChanID[:]), x.FeePerKw, c02cHex(x.ExtraData))
	case *lnwire.CommitSig:
		var known []c02cRec
		x.PartialSig.WhenSomeV(func(p lnwire.PartialSigWithNonce) {
			var b bytes.Buffer
			sb := p.Sig.Bytes()
			b.Write(sb[:])
			b.Write(p.Nonce[:])
			known = append(known, c02cRec{2, b.Bytes()})
		})
		hs := "-"
		if len(x.HtlcSigs) > 0 {
			parts := make([]string, len(x.HtlcSigs))
			for i := range x.HtlcSigs {
				parts[i] = hex.EncodeToString(x.HtlcSigs[i].RawBytes())
			}
			hs = strings.Join(parts, "_")
		}
		return fmt.Sprintf("cs/%s/%s/%s/%s", hex.EncodeToString(x.ChanID[:]),
			hex.EncodeToString(x.CommitSig.RawBytes()), hs, c02cMerged(known, x.CustomRecords, x.ExtraData))
	}
	return "other"
}

func c02cUpd(u *LogUpdate) string { return fmt.Sprintf("%d@%s", u.LogIndex, c02cMsg(u.UpdateMsg)) }

func c02cUpds(us []LogUpdate) string {
	if len(us) == 0 {
		return "-"
	}
	parts := make([]string, len(us))
	for i := range us {
		parts[i] = c02cUpd(&us[i])
	}
	return strings.Join(parts, ";")
}

func c02cKeys(ks []models.CircuitKey) string {
	if len(ks) == 0 {
		return "-"
	}
	parts := make([]string, len(ks))
	for i, k := range ks {
		parts[i] = fmt.Sprintf("%d:%d", k.ChanID.ToUint64(), k.HtlcID)
	}
	return strings.Join(parts, ";")
}

func c02cDiff(d *CommitDiff) string {
	m := "nil"
	if d.CommitSig != nil {
		m = c02cMsg(d.CommitSig)
	}
	return fmt.Sprintf("c=%s m=%s u=%s o=%s x=%s", c02cCommit(&d.Commitment), m, c02cUpds(d.LogUpdates),
		c02cKeys(d.OpenedCircuitKeys), c02cKeys(d.ClosedCircuitKeys))
}

// revocation state of a channel handle: cur,root,buckets,storeIndex,next. The
// store's fields are unexported: its own Encode output is split here.
func c02cRev(ch *OpenChannel) string {
	cur := "nil"
	if ch.RemoteCurrentRevocation != nil {
		cur = hex.EncodeToString(ch.RemoteCurrentRevocation.SerializeCompressed())
	}
	next := "none"
	if ch.RemoteNextRevocation != nil {
		next = hex.EncodeToString(ch.RemoteNextRevocation.SerializeCompressed())
	}
	var pb, sb bytes.Buffer
	if ch.RevocationProducer == nil || ch.RevocationStore == nil {
		return "nil"
	}
	_ = ch.RevocationProducer.Encode(&pb)
	_ = ch.RevocationStore.Encode(&sb)
	st := sb.Bytes()
	bk := "-"
	idx := uint64(0)
	if len(st) >= 9 && len(st) == 9+40*int(st[0]) {
		n := int(st[0])
		parts := make([]string, n)
		for i := 0; i < n; i++ {
			e := st[1+40*i : 1+40*(i+1)]
			parts[i] = fmt.Sprintf("%d.%s", binary.BigEndian.Uint64(e[:8]), hex.EncodeToString(e[8:]))
		}
		if n > 0 {
			bk = strings.Join(parts, ";")
		}
		idx = binary.BigEndian.Uint64(st[len(st)-8:])
	} else {
		bk = "bad:" + c02cHex(st)
	}
	return fmt.Sprintf("%s,%s,%s,%d,%s", cur, c02cHex(pb.Bytes()), bk, idx, next)
}

func c02cHasOther(us []LogUpdate) bool {
	for i := range us {
		if c02cMsg(us[i].UpdateMsg) == "other" {
			return true
		}
	}
	return false
}

// ---- generators ---------------------------------------------------------------

type c02cGen struct {
	r     *rand.Rand
	stats map[string]int
}

func (g *c02cGen) bytes(n int) []byte {
	b := make([]byte, n)
	g.r.Read(b)
	return b
}

func (g *c02cGen) u64() uint64 {
	switch g.r.Intn(12) {
	case 0:
		return 0
	case 1:
		return 1
	case 2:
		return math.MaxUint64
	case 3:
		return math.MaxUint64 - 1
	case 4:
		return 1 << 32
	case 5:
		return 1<<32 - 1
	case 6:
		return 1 << 63
	case 7:
		return uint64(g.r.Intn(256)) << (8 * uint(g.r.Intn(8)))
	case 8:
		return g.r.Uint64()
	}
	return uint64(g.r.Intn(100000))
}

func (g *c02cGen) u32() uint32 {
	switch g.r.Intn(8) {
	case 0:
		return 0
	case 1:
		return math.MaxUint32
	case 2:
		return 1 << 31
	case 3:
		return 1<<16 - 1
	case 4:
		return g.r.Uint32()
	}
	return uint32(g.r.Intn(1000000))
}

func (g *c02cGen) i32() int32 {
	switch g.r.Intn(8) {
	case 0:
		return -1
	case 1:
		return math.MinInt32
	case 2:
		return math.MaxInt32
	case 3:
		return -int32(g.r.Intn(1000)) - 1
	}
	return int32(g.r.Intn(500))
}

// lengths around the CompactSize / BigSize switch points
func (g *c02cGen) blen(max int) int {
	switch g.r.Intn(10) {
	case 0:
		return 0
	case 1:
		if max >= 253 {
			return 252 + g.r.Intn(3)
		}
	case 2:
		if max >= 300 {
			return 255 + g.r.Intn(3)
		}
	case 3:
		return 1
	}
	if max > 40 {
		max = 40
	}
	return g.r.Intn(max + 1)
}

func (g *c02cGen) pub() *btcec.PublicKey {
	var sk [32]byte
	g.r.Read(sk[:])
	sk[0] &= 0x7f
	sk[31] |= 1
	_, p := btcec.PrivKeyFromBytes(sk[:])
	return p
}

func (g *c02cGen) custom() lnwire.CustomRecords {
	n := 0
	switch g.r.Intn(6) {
	case 0, 1:
		n = 1
	case 2:
		n = 2 + g.r.Intn(2)
	}
	if n == 0 {
		return nil
	}
	cr := lnwire.CustomRecords{}
	for i := 0; i < n; i++ {
		var t uint64
		switch g.r.Intn(6) {
		case 0:
			t = lnwire.MinCustomRecordsTlvType
		case 1:
			t = math.MaxUint32 + uint64(g.r.Intn(3))
		case 2:
			t = math.MaxUint64 - uint64(g.r.Intn(2))
		default:
			t = lnwire.MinCustomRecordsTlvType + uint64(g.r.Intn(5000))
		}
		cr[t] = g.bytes(g.blen(300))
	}
	// rarely one record that brings the onion+extra blob / the stored message
	// close to the readers' limits (66000-byte var-bytes, uint16 message length)
	if g.r.Intn(40) == 0 {
		cr[lnwire.MinCustomRecordsTlvType+7000] = g.bytes(60000 + g.r.Intn(2000))
		g.stats["custom_records_near_size_limit"]++
	}
	g.stats["custom_record_sets"]++
	return cr
}

func (g *c02cGen) tx() *wire.MsgTx {
	tx := wire.NewMsgTx(2)
	switch g.r.Intn(8) {
	case 0:
		tx.Version = 1
	case 1:
		tx.Version = -1
	case 2:
		tx.Version = int32(g.r.Uint32())
	}
	nIn := 1
	if g.r.Intn(5) == 0 {
		nIn = 2 + g.r.Intn(2)
	}
	withWit := g.r.Intn(4) == 0
	for i := 0; i < nIn; i++ {
		var h chainhash.Hash
		g.r.Read(h[:])
		in := wire.NewTxIn(wire.NewOutPoint(&h, g.u32()), nil, nil)
		if g.r.Intn(5) == 0 {
			in.SignatureScript = g.bytes(g.blen(300))
		}
		in.Sequence = g.u32()
		if withWit && (i == 0 || g.r.Intn(2) == 0) {
			nw := 1 + g.r.Intn(3)
			for j := 0; j < nw; j++ {
				in.Witness = append(in.Witness, g.bytes(g.blen(300)))
			}
		}
		tx.AddTxIn(in)
	}
	if withWit {
		g.stats["tx_with_witness"]++
	}
	nOut := g.r.Intn(7)
	for i := 0; i < nOut; i++ {
		var pk []byte
		switch g.r.Intn(5) {
		case 0:
			pk = g.bytes(22)
		case 1:
			pk = g.bytes(g.blen(300))
		default:
			pk = g.bytes(34)
		}
		v := int64(g.r.Intn(1 << 30))
		if g.r.Intn(8) == 0 {
			v = int64(g.u64())
		}
		tx.AddTxOut(wire.NewTxOut(v, pk))
	}
	tx.LockTime = g.u32()
	return tx
}

func (g *c02cGen) onion() [lnwire.OnionPacketSize]byte {
	var o [lnwire.OnionPacketSize]byte
	if g.r.Intn(6) == 0 {
		g.r.Read(o[:])
		g.stats["random_onions"]++
		return o
	}
	f := byte(g.r.Intn(256))
	for i := range o {
		o[i] = f
	}
	return o
}

func (g *c02cGen) htlc() HTLC {
	h := HTLC{
		Amt:           lnwire.MilliSatoshi(g.u64()),
		RefundTimeout: g.u32(),
		OutputIndex:   g.i32(),
		Incoming:      g.r.Intn(2) == 0,
		OnionBlob:     g.onion(),
		HtlcIndex:     g.u64(),
		LogIndex:      g.u64(),
	}
	g.r.Read(h.RHash[:])
	switch g.r.Intn(5) {
	case 0:
	case 1:
		h.Signature = g.bytes(g.blen(300))
	case 2:
		h.Signature = g.bytes(64)
	default:
		h.Signature = g.bytes(70 + g.r.Intn(4))
	}
	if g.r.Intn(3) == 0 {
		h.BlindingPoint = tlv.SomeRecordT(tlv.NewPrimitiveRecord[lnwire.BlindingPointTlvType](g.pub()))
		g.stats["htlcs_with_blinding_point"]++
	}
	h.CustomRecords = g.custom()
	// ExtraData is derived state (overwritten by the serialiser); a stale
	// value must not leak into the encoding
	if g.r.Intn(4) == 0 {
		h.ExtraData = g.bytes(5)
	}
	return h
}

func (g *c02cGen) commit() ChannelCommitment {
	c := ChannelCommitment{
		CommitHeight:    g.u64(),
		LocalLogIndex:   g.u64(),
		LocalHtlcIndex:  g.u64(),
		RemoteLogIndex:  g.u64(),
		RemoteHtlcIndex: g.u64(),
		LocalBalance:    lnwire.MilliSatoshi(g.u64()),
		RemoteBalance:   lnwire.MilliSatoshi(g.u64()),
		CommitFee:       btcutil.Amount(g.u64()),
		FeePerKw:        btcutil.Amount(g.u64()),
		CommitTx:        g.tx(),
	}
	switch g.r.Intn(4) {
	case 0:
	case 1:
		c.CommitSig = g.bytes(64)
	default:
		c.CommitSig = g.bytes(70 + g.r.Intn(4))
	}
	switch g.r.Intn(4) {
	case 0:
		c.CustomBlob = fn.Some[tlv.Blob](g.bytes(g.blen(300)))
		g.stats["commits_with_custom_blob"]++
	}
	nh := []int{0, 0, 1, 1, 2, 3, 4, 6}[g.r.Intn(8)]
	for i := 0; i < nh; i++ {
		c.Htlcs = append(c.Htlcs, g.htlc())
	}
	g.stats["htlcs_generated"] += nh
	return c
}

func (g *c02cGen) extraTlv() lnwire.ExtraOpaqueData {
	// a well-formed stream of non-custom, unknown record types
	if g.r.Intn(3) != 0 {
		return nil
	}
	var b bytes.Buffer
	var buf [8]byte
	t := uint64(3 + 2*g.r.Intn(20))
	for i := 0; i < 1+g.r.Intn(2); i++ {
		v := g.bytes(g.blen(40))
		_ = tlv.WriteVarInt(&b, t, &buf)
		_ = tlv.WriteVarInt(&b, uint64(len(v)), &buf)
		b.Write(v)
		t += uint64(2 + 2*g.r.Intn(100))
	}
	return b.Bytes()
}

func (g *c02cGen) chanID() lnwire.ChannelID {
	var c lnwire.ChannelID
	g.r.Read(c[:])
	return c
}

func (g *c02cGen) msg(kind int) lnwire.Message {
	switch kind {
	case 0:
		m := &lnwire.UpdateAddHTLC{ChanID: g.chanID(), ID: g.u64(), Amount: lnwire.MilliSatoshi(g.u64()),
			Expiry: g.u32(), OnionBlob: g.onion(), CustomRecords: g.custom(), ExtraData: g.extraTlv()}
		g.r.Read(m.PaymentHash[:])
		if g.r.Intn(3) == 0 {
			m.BlindingPoint = tlv.SomeRecordT(tlv.NewPrimitiveRecord[lnwire.BlindingPointTlvType](g.pub()))
		}
		return m
	case 1:
		m := &lnwire.UpdateFulfillHTLC{ChanID: g.chanID(), ID: g.u64(), CustomRecords: g.custom(),
			ExtraData: g.extraTlv()}
		g.r.Read(m.PaymentPreimage[:])
		return m
	case 2:
		return &lnwire.UpdateFailHTLC{ChanID: g.chanID(), ID: g.u64(), Reason: g.bytes(g.blen(300)),
			ExtraData: g.bytes(g.blen(40))}
	case 3:
		m := &lnwire.UpdateFailMalformedHTLC{ChanID: g.chanID(), ID: g.u64(),
			FailureCode: lnwire.FailCode(g.u32()), ExtraData: g.bytes(g.blen(40))}
		g.r.Read(m.ShaOnionBlob[:])
		return m
	}
	return &lnwire.UpdateFee{ChanID: g.chanID(), FeePerKw: g.u32(), ExtraData: g.bytes(g.blen(40))}
}

func (g *c02cGen) upds(n int) []LogUpdate {
	var us []LogUpdate
	for i := 0; i < n; i++ {
		k := g.r.Intn(5)
		g.stats[fmt.Sprintf("updates_kind_%d", k)]++
		us = append(us, LogUpdate{LogIndex: g.u64(), UpdateMsg: g.msg(k)})
	}
	return us
}

func (g *c02cGen) sig64() lnwire.Sig {
	s, _ := lnwire.NewSigFromWireECDSA(g.bytes(64))
	return s
}

func (g *c02cGen) commitSig() *lnwire.CommitSig {
	m := &lnwire.CommitSig{ChanID: g.chanID(), CommitSig: g.sig64(), CustomRecords: g.custom()}
	n := []int{0, 0, 1, 2, 3, 6}[g.r.Intn(6)]
	for i := 0; i < n; i++ {
		m.HtlcSigs = append(m.HtlcSigs, g.sig64())
	}
	if g.r.Intn(3) == 0 {
		var nonce [66]byte
		copy(nonce[:33], g.pub().SerializeCompressed())
		copy(nonce[33:], g.pub().SerializeCompressed())
		var sc btcec.ModNScalar
		var sb [32]byte
		g.r.Read(sb[:])
		sb[0] &= 0x7f
		sc.SetBytes(&sb)
		m.PartialSig = lnwire.MaybePartialSigWithNonce(lnwire.NewPartialSigWithNonce(nonce, sc))
		g.stats["commit_sigs_with_partial_sig"]++
	}
	return m
}

func (g *c02cGen) keys() []models.CircuitKey {
	n := []int{0, 0, 1, 2, 5}[g.r.Intn(5)]
	var ks []models.CircuitKey
	for i := 0; i < n; i++ {
		ks = append(ks, models.CircuitKey{ChanID: lnwire.NewShortChanIDFromInt(g.u64()), HtlcID: g.u64()})
	}
	return ks
}

// a channel handle carrying only revocation state: k secrets of a peer's
// producer stored in order (k up to 60: every bucket population incl. the full store)
func (g *c02cGen) revChan(k int) *OpenChannel {
	var root, peerRoot chainhash.Hash
	g.r.Read(root[:])
	g.r.Read(peerRoot[:])
	ch := &OpenChannel{
		RemoteCurrentRevocation: g.pub(),
		RevocationProducer:      shachain.NewRevocationProducer(root),
		RevocationStore:         shachain.NewRevocationStore(),
	}
	peer := shachain.NewRevocationProducer(peerRoot)
	for i := 0; i < k; i++ {
		h, err := peer.AtIndex(uint64(i))
		if err != nil {
			break
		}
		if err := ch.RevocationStore.AddNextEntry(h); err != nil {
			break
		}
	}
	if g.r.Intn(4) != 0 {
		ch.RemoteNextRevocation = g.pub()
	}
	return ch
}

func (g *c02cGen) diff() *CommitDiff {
	return &CommitDiff{
		Commitment:        g.commit(),
		CommitSig:         g.commitSig(),
		LogUpdates:        g.upds([]int{0, 1, 2, 3, 5, 8}[g.r.Intn(6)]),
		OpenedCircuitKeys: g.keys(),
		ClosedCircuitKeys: g.keys(),
	}
}

// ---- production encoders / decoders behind one interface ------------------------

type c02cCodec struct {
	t  *testing.T
	db kvdb.Backend
}

var c02cLastErr string

func c02cGuard(f func() error) (res string) {
	c02cLastErr = ""
	defer func() {
		if rc := recover(); rc != nil {
			c02cLastErr = fmt.Sprint(rc)
			res = "panic"
		}
	}()
	if err := f(); err != nil {
		c02cLastErr = err.Error()
		// a byte string that is not a point on the curve: public keys are
		// opaque 33-byte strings in the model
		if strings.Contains(c02cLastErr, "pubkey") || strings.Contains(c02cLastErr, "public key") {
			return "errkey"
		}
		return "err"
	}
	return "ok"
}

func c02cErrTxt() string {
	if c02cLastErr == "" {
		return ""
	}
	s := strings.Map(func(r rune) rune {
		if r == ' ' || r == '\n' || r == '\t' || r == '=' {
			return '_'
		}
		return r
	}, c02cLastErr)
	if len(s) > 120 {
		s = s[:120]
	}
	return "why:" + s
}

var c02cScratch = []byte("c02-codec-scratch")

// putChanCommitment into a real bucket, raw value read back
func (c *c02cCodec) encCommit(cm *ChannelCommitment, local bool) (string, []byte) {
	side := byte(0x01)
	if local {
		side = 0x00
	}
	var raw []byte
	res := c02cGuard(func() error {
		return kvdb.Update(c.db, func(tx kvdb.RwTx) error {
			b, err := tx.CreateTopLevelBucket(c02cScratch)
			if err != nil {
				return err
			}
			if err := putChanCommitment(b, cm, local); err != nil {
				return err
			}
			raw = append([]byte{}, b.Get(append(append([]byte{}, chanCommitmentKey...), side))...)
			return nil
		}, func() {})
	})
	return res, raw
}

// fetchChanCommitment from a real bucket holding raw
func (c *c02cCodec) decCommit(raw []byte, local bool) (string, *ChannelCommitment) {
	side := byte(0x01)
	if local {
		side = 0x00
	}
	var out *ChannelCommitment
	res := c02cGuard(func() error {
		return kvdb.Update(c.db, func(tx kvdb.RwTx) error {
			b, err := tx.CreateTopLevelBucket(c02cScratch)
			if err != nil {
				return err
			}
			if err := b.Put(append(append([]byte{}, chanCommitmentKey...), side), raw); err != nil {
				return err
			}
			cm, err := fetchChanCommitment(b, local)
			if err != nil {
				return err
			}
			out = &cm
			return nil
		}, func() {})
	})
	return res, out
}

func (c *c02cCodec) encRev(ch *OpenChannel) (string, []byte) {
	var raw []byte
	res := c02cGuard(func() error {
		return kvdb.Update(c.db, func(tx kvdb.RwTx) error {
			b, err := tx.CreateTopLevelBucket(c02cScratch)
			if err != nil {
				return err
			}
			if err := putChanRevocationState(b, ch); err != nil {
				return err
			}
			raw = append([]byte{}, b.Get(revocationStateKey)...)
			return nil
		}, func() {})
	})
	return res, raw
}

func (c *c02cCodec) decRev(raw []byte) (string, *OpenChannel) {
	out := &OpenChannel{}
	res := c02cGuard(func() error {
		return kvdb.Update(c.db, func(tx kvdb.RwTx) error {
			b, err := tx.CreateTopLevelBucket(c02cScratch)
			if err != nil {
				return err
			}
			if err := b.Put(revocationStateKey, raw); err != nil {
				return err
			}
			return fetchChanRevocationState(b, out)
		}, func() {})
	})
	return res, out
}

func c02cEncDiff(d *CommitDiff) (string, []byte) {
	var b bytes.Buffer
	res := c02cGuard(func() error { return serializeCommitDiff(&b, d) })
	return res, b.Bytes()
}

func c02cDecDiff(raw []byte) (string, *CommitDiff) {
	var out *CommitDiff
	res := c02cGuard(func() error {
		d, err := deserializeCommitDiff(bytes.NewReader(raw))
		out = d
		return err
	})
	return res, out
}

func c02cEncUpds(us []LogUpdate) (string, []byte) {
	var b bytes.Buffer
	res := c02cGuard(func() error { return serializeLogUpdates(&b, us) })
	return res, b.Bytes()
}

func c02cDecUpds(raw []byte) (string, []LogUpdate) {
	var out []LogUpdate
	res := c02cGuard(func() error {
		us, err := deserializeLogUpdates(bytes.NewReader(raw))
		out = us
		return err
	})
	return res, out
}

func c02cEncUpd(u *LogUpdate) (string, []byte) {
	var b bytes.Buffer
	res := c02cGuard(func() error { return serializeLogUpdate(&b, u) })
	return res, b.Bytes()
}

func c02cDecUpd(raw []byte) (string, *LogUpdate) {
	var out *LogUpdate
	res := c02cGuard(func() error {
		u, err := deserializeLogUpdate(bytes.NewReader(raw))
		out = u
		return err
	})
	return res, out
}

// decLine prints what the production decoder makes of raw.
func (c *c02cCodec) decLine(w *bufio.Writer, what string, rt int, raw []byte, stats map[string]int) {
	val := ""
	res := ""
	switch what {
	case "commit":
		r, cm := c.decCommit(raw, len(raw)%2 == 0)
		res = r
		if r == "ok" {
			val = "v=" + c02cCommit(cm)
		}
	case "diff":
		r, d := c02cDecDiff(raw)
		res = r
		if r == "ok" {
			if c02cHasOther(d.LogUpdates) {
				res = "other"
			} else {
				val = c02cDiff(d)
			}
		}
	case "upds":
		r, us := c02cDecUpds(raw)
		res = r
		if r == "ok" {
			if c02cHasOther(us) {
				res = "other"
			} else {
				val = "v=" + c02cUpds(us)
			}
		}
	case "upd":
		r, u := c02cDecUpd(raw)
		res = r
		if r == "ok" {
			if c02cMsg(u.UpdateMsg) == "other" {
				res = "other"
			} else {
				val = "v=" + c02cUpd(u)
			}
		}
	case "revstate":
		r, ch := c.decRev(raw)
		res = r
		if r == "ok" {
			val = "v=" + c02cRev(ch)
		}
	}
	stats["decodes_"+res]++
	why := ""
	if res != "ok" && res != "other" {
		why = c02cErrTxt()
	}
	fmt.Fprintf(w, "D what=%s rt=%d raw=%s => %s %s%s\n", what, rt, c02cHex(raw), res, val, why)
}

// large counts: more than 255 HTLCs / updates / HTLC signatures / circuit keys
// (a channel can carry 483 HTLCs per direction), so that a count written
// through a narrower integer is seen.
func (c *c02cCodec) bigCase(w *bufio.Writer, id int, g *c02cGen, what string, n int) {
	fmt.Fprintf(w, "CASE %d kind=big what=%s n=%d\n", id, what, n)
	var (
		res string
		raw []byte
		txt string
	)
	switch what {
	case "commit":
		cm := g.commit()
		cm.Htlcs = nil
		for i := 0; i < n; i++ {
			h := g.htlc()
			var o [lnwire.OnionPacketSize]byte
			h.OnionBlob = o
			h.CustomRecords = nil
			cm.Htlcs = append(cm.Htlcs, h)
		}
		txt = "v=" + c02cCommit(&cm)
		res, raw = c.encCommit(&cm, g.r.Intn(2) == 0)
	case "diff":
		d := g.diff()
		d.LogUpdates = nil
		for i := 0; i < n; i++ {
			d.LogUpdates = append(d.LogUpdates, LogUpdate{LogIndex: g.u64(), UpdateMsg: g.msg(1 + g.r.Intn(4))})
		}
		d.CommitSig.HtlcSigs = nil
		for i := 0; i < n+1; i++ {
			d.CommitSig.HtlcSigs = append(d.CommitSig.HtlcSigs, g.sig64())
		}
		d.OpenedCircuitKeys, d.ClosedCircuitKeys = nil, nil
		for i := 0; i < n+2; i++ {
			d.OpenedCircuitKeys = append(d.OpenedCircuitKeys,
				models.CircuitKey{ChanID: lnwire.NewShortChanIDFromInt(g.u64()), HtlcID: g.u64()})
		}
		for i := 0; i < n+3; i++ {
			d.ClosedCircuitKeys = append(d.ClosedCircuitKeys,
				models.CircuitKey{ChanID: lnwire.NewShortChanIDFromInt(g.u64()), HtlcID: g.u64()})
		}
		txt = c02cDiff(d)
		res, raw = c02cEncDiff(d)
	case "upds":
		var us []LogUpdate
		for i := 0; i < n; i++ {
			us = append(us, LogUpdate{LogIndex: g.u64(), UpdateMsg: g.msg(1 + g.r.Intn(4))})
		}
		txt = "v=" + c02cUpds(us)
		res, raw = c02cEncUpds(us)
	}
	fmt.Fprintf(w, "E what=%s %s => %s raw=%s %s\n", what, txt, res, c02cHex(raw), c02cErrTxt())
	g.stats["encodes"]++
	g.stats["encoded_bytes"] += len(raw)
	if res == "ok" {
		c.decLine(w, what, 1, raw, g.stats)
	}
	w.WriteString("END\n")
	g.stats["cases"]++
	g.stats["cases_big"]++
}

func (c *c02cCodec) valueCase(w *bufio.Writer, id int, g *c02cGen, what string) []byte {
	fmt.Fprintf(w, "CASE %d kind=%s\n", id, what)
	var (
		res string
		raw []byte
		txt string
	)
	switch what {
	case "commit":
		cm := g.commit()
		txt = "v=" + c02cCommit(&cm)
		res, raw = c.encCommit(&cm, g.r.Intn(2) == 0)
	case "diff":
		d := g.diff()
		txt = c02cDiff(d)
		res, raw = c02cEncDiff(d)
	case "upds":
		us := g.upds([]int{0, 1, 2, 3, 5, 9}[g.r.Intn(6)])
		txt = "v=" + c02cUpds(us)
		res, raw = c02cEncUpds(us)
	case "upd":
		us := g.upds(1)
		txt = "v=" + c02cUpd(&us[0])
		res, raw = c02cEncUpd(&us[0])
	case "revstate":
		k := []int{0, 1, 2, 3, 4, 7, 8, 15, 16, 31, 32, 33, 47, 48, 49, 50, 60}[g.r.Intn(17)]
		ch := g.revChan(k)
		txt = "v=" + c02cRev(ch)
		res, raw = c.encRev(ch)
	}
	fmt.Fprintf(w, "E what=%s %s => %s raw=%s %s\n", what, txt, res, c02cHex(raw), c02cErrTxt())
	g.stats["encodes"]++
	g.stats["encoded_bytes"] += len(raw)
	if res == "ok" {
		c.decLine(w, what, 1, raw, g.stats)
	}
	w.WriteString("END\n")
	g.stats["cases"]++
	g.stats["cases_"+what]++
	return raw
}

// truncations and corruptions of one encoding
func (c *c02cCodec) truncCase(w *bufio.Writer, id int, g *c02cGen, what string, raw []byte, every bool) {
	fmt.Fprintf(w, "CASE %d kind=trunc what=%s len=%d\n", id, what, len(raw))
	cuts := map[int]bool{}
	if every {
		for i := 0; i < len(raw); i++ {
			cuts[i] = true
		}
	} else {
		for i := 0; i < 40; i++ {
			cuts[g.r.Intn(len(raw))] = true
		}
		for i := 1; i <= 12 && i < len(raw); i++ {
			cuts[len(raw)-i] = true
		}
	}
	keys := make([]int, 0, len(cuts))
	for k := range cuts {
		keys = append(keys, k)
	}
	sort.Ints(keys)
	for _, k := range keys {
		c.decLine(w, what, 0, raw[:k], g.stats)
		g.stats["truncations"]++
	}
	for i := 0; i < 40; i++ {
		m := append([]byte{}, raw...)
		p := g.r.Intn(len(m))
		switch g.r.Intn(3) {
		case 0:
			m[p] ^= 1 << uint(g.r.Intn(8))
		case 1:
			m[p] = byte(g.r.Intn(256))
		default:
			m[p] = []byte{0, 0xfc, 0xfd, 0xfe, 0xff}[g.r.Intn(5)]
		}
		c.decLine(w, what, 0, m, g.stats)
		g.stats["corruptions"]++
	}
	// trailing garbage after a complete value
	m := append(append([]byte{}, raw...), g.bytes(1+g.r.Intn(4))...)
	c.decLine(w, what, 0, m, g.stats)
	w.WriteString("END\n")
	g.stats["cases"]++
	g.stats["cases_trunc"]++
}

// ---- real store -------------------------------------------------------------------

func c02cRawKeys(t *testing.T, cdb *ChannelStateDB, ch *OpenChannel) map[string][]byte {
	out := map[string][]byte{}
	err := kvdb.View(cdb.backend, func(tx kvdb.RTx) error {
		b, err := fetchChanBucket(tx, ch.IdentityPub, &ch.FundingOutpoint, ch.ChainHash)
		if err != nil {
			return err
		}
		get := func(name string, key []byte) {
			if v := b.Get(key); v != nil {
				out[name] = append([]byte{}, v...)
			}
		}
		get("local", append(append([]byte{}, chanCommitmentKey...), 0x00))
		get("remote", append(append([]byte{}, chanCommitmentKey...), 0x01))
		get("diff", commitDiffKey)
		get("ua", unsignedAckedUpdatesKey)
		get("rul", remoteUnsignedLocalUpdatesKey)
		get("rev", revocationStateKey)
		return nil
	}, func() {})
	if err != nil {
		t.Fatalf("raw view: %v", err)
	}
	return out
}

// raw values of the update buckets of one forwarding package
func c02cRawPkg(cdb *ChannelStateDB, source lnwire.ShortChannelID, height uint64) (adds, sfs [][]byte) {
	_ = kvdb.View(cdb.backend, func(tx kvdb.RTx) error {
		root := tx.ReadBucket(fwdPackagesKey)
		if root == nil {
			return nil
		}
		var sk, hk [8]byte
		binary.BigEndian.PutUint64(sk[:], source.ToUint64())
		binary.BigEndian.PutUint64(hk[:], height)
		sb := root.NestedReadBucket(sk[:])
		if sb == nil {
			return nil
		}
		hb := sb.NestedReadBucket(hk[:])
		if hb == nil {
			return nil
		}
		collect := func(key []byte) [][]byte {
			var out [][]byte
			bk := hb.NestedReadBucket(key)
			if bk == nil {
				return nil
			}
			_ = bk.ForEach(func(k, v []byte) error {
				out = append(out, append([]byte{}, v...))
				return nil
			})
			return out
		}
		adds = collect(addBucketKey)
		sfs = collect(failSettleBucketKey)
		return nil
	}, func() {})
	return
}

func c02cStoreCase(t *testing.T, w *bufio.Writer, id int, g *c02cGen, rounds int) {
	fullDB, err := MakeTestDB(t)
	if err != nil {
		t.Fatalf("db: %v", err)
	}
	cdb := fullDB.ChannelStateDB()
	scid := lnwire.NewShortChanIDFromInt(uint64(0x0c02c000 + id))
	ch := createTestChannel(t, cdb, channelIDOption(scid), openChannelOption())
	fmt.Fprintf(w, "CASE %d kind=store\n", id)

	fetch := func() *OpenChannel {
		chans, err := cdb.FetchOpenChannels(ch.IdentityPub)
		if err != nil {
			return nil
		}
		for _, oc := range chans {
			if oc.FundingOutpoint == ch.FundingOutpoint {
				return oc
			}
		}
		return nil
	}
	// mem: what the write was given (nil = the key is expected to be as before)
	dump := func(op string, memLocal, memRemote *ChannelCommitment, memDiff *CommitDiff, memUa, memRul *[]LogUpdate) {
		defer func() {
			if rc := recover(); rc != nil {
				fmt.Fprintf(w, "S op=%s key=all => fetcherr\n", op)
			}
		}()
		raw := c02cRawKeys(t, cdb, ch)
		oc := fetch()
		if oc == nil {
			fmt.Fprintf(w, "S op=%s key=all => fetcherr\n", op)
			return
		}
		line := func(key, what, rawHex, mem, fetched string) {
			fmt.Fprintf(w, "S op=%s key=%s what=%s raw=%s\n", op, key, what, rawHex)
			fmt.Fprintf(w, "SM key=%s %s\n", key, mem)
			fmt.Fprintf(w, "SF key=%s %s\n", key, fetched)
			g.stats["store_keys_dumped"]++
		}
		if memLocal != nil {
			line("local", "commit", c02cHex(raw["local"]), "v="+c02cCommit(memLocal), "v="+c02cCommit(&oc.LocalCommitment))
		}
		if memRemote != nil {
			line("remote", "commit", c02cHex(raw["remote"]), "v="+c02cCommit(memRemote), "v="+c02cCommit(&oc.RemoteCommitment))
		}
		if memDiff != nil {
			tip, err := oc.RemoteCommitChainTip()
			f := "err"
			if err == nil {
				f = c02cDiff(tip)
			}
			line("diff", "diff", c02cHex(raw["diff"]), c02cDiff(memDiff), f)
		}
		if memUa != nil {
			us, err := oc.UnsignedAckedUpdates()
			f := "err"
			if err == nil {
				f = "v=" + c02cUpds(us)
			}
			line("ua", "upds", c02cHex(raw["ua"]), "v="+c02cUpds(*memUa), f)
		}
		if op == "advance" {
			line("rev", "revstate", c02cHex(raw["rev"]), "v="+c02cRev(ch), "v="+c02cRev(oc))
		}
		if memRul != nil {
			us, err := oc.RemoteUnsignedLocalUpdates()
			f := "err"
			if err == nil {
				f = "v=" + c02cUpds(us)
			}
			line("rul", "upds", c02cHex(raw["rul"]), "v="+c02cUpds(*memRul), f)
		}
	}

	height := ch.RemoteCommitment.CommitHeight
	var peerRoot chainhash.Hash
	g.r.Read(peerRoot[:])
	peerProducer := shachain.NewRevocationProducer(peerRoot)
	ch.RevocationStore = shachain.NewRevocationStore()
	for i := uint64(0); i < height; i++ {
		if h, err := peerProducer.AtIndex(i); err == nil {
			_ = ch.RevocationStore.AddNextEntry(h)
		}
	}
	for round := 0; round < rounds; round++ {
		// (1) sign: AppendRemoteCommitChain
		d := g.diff()
		d.Commitment.CommitHeight = height + 1
		res := c02cGuard(func() error { return ch.AppendRemoteCommitChain(d) })
		fmt.Fprintf(w, "O op=sign => %s\n", res)
		if res != "ok" {
			break
		}
		dump("sign", nil, nil, d, nil, nil)

		// (2) revoke: UpdateCommitment with unsigned-acked updates
		lc := g.commit()
		lc.CommitHeight = ch.LocalCommitment.CommitHeight + 1
		ua := g.upds([]int{0, 1, 2, 4}[g.r.Intn(4)])
		res = c02cGuard(func() error {
			_, err := ch.UpdateCommitment(&lc, ua)
			return err
		})
		fmt.Fprintf(w, "O op=revoke => %s\n", res)
		if res != "ok" {
			break
		}
		dump("revoke", &lc, nil, d, &ua, nil)

		// (3) peer revokes: AdvanceCommitChainTail with a forwarding package
		// and remote-unsigned-local updates
		adds := g.upds(0)
		for i := 0; i < g.r.Intn(4); i++ {
			adds = append(adds, LogUpdate{LogIndex: g.u64(), UpdateMsg: g.msg(0)})
		}
		var sfs []LogUpdate
		for i := 0; i < g.r.Intn(4); i++ {
			sfs = append(sfs, LogUpdate{LogIndex: g.u64(), UpdateMsg: g.msg(1 + g.r.Intn(3))})
		}
		var rul []LogUpdate
		for i := 0; i < g.r.Intn(4); i++ {
			rul = append(rul, LogUpdate{LogIndex: g.u64(), UpdateMsg: g.msg(1 + g.r.Intn(4))})
		}
		// what ReceiveRevocation does to the handle before the write: the
		// peer's secret enters the store, the commitment points rotate
		if h, err := peerProducer.AtIndex(height); err == nil {
			_ = ch.RevocationStore.AddNextEntry(h)
		}
		if ch.RemoteNextRevocation != nil {
			ch.RemoteCurrentRevocation = ch.RemoteNextRevocation
		}
		ch.RemoteNextRevocation = g.pub()
		pkg := NewFwdPkg(ch.ShortChanID(), height, adds, sfs)
		res = c02cGuard(func() error {
			return ch.AdvanceCommitChainTail(pkg, rul, dummyLocalOutputIndex, dummyRemoteOutIndex)
		})
		fmt.Fprintf(w, "O op=advance => %s %s\n", res, c02cErrTxt())
		if res != "ok" {
			break
		}
		// the unsigned-acked updates are filtered by the store; only the
		// keys this call rewrites completely are compared
		dump("advance", nil, &d.Commitment, nil, nil, &rul)
		rawAdds, rawSfs := c02cRawPkg(cdb, ch.ShortChanID(), height)
		var loaded *FwdPkg
		_ = c02cGuard(func() error {
			if oc := fetch(); oc != nil {
				if pkgs, err := oc.LoadFwdPkgs(); err == nil {
					for _, p := range pkgs {
						if p.Height == height {
							loaded = p
						}
					}
				}
			}
			return nil
		})
		pk := func(bucket string, raws [][]byte, mem []LogUpdate, ld []LogUpdate) {
			fmt.Fprintf(w, "P bucket=%s h=%d n=%d mem=%d loaded=%d\n", bucket, height, len(raws), len(mem), len(ld))
			for i := range raws {
				m, f := "missing", "missing"
				if i < len(mem) {
					m = "v=" + c02cUpd(&mem[i])
				}
				if i < len(ld) {
					f = "v=" + c02cUpd(&ld[i])
				}
				fmt.Fprintf(w, "S op=advance key=%s.%d what=upd raw=%s\n", bucket, i, c02cHex(raws[i]))
				fmt.Fprintf(w, "SM key=%s.%d %s\n", bucket, i, m)
				fmt.Fprintf(w, "SF key=%s.%d %s\n", bucket, i, f)
				g.stats["store_pkg_updates_dumped"]++
			}
		}
		var la, ls []LogUpdate
		if loaded != nil {
			la, ls = loaded.Adds, loaded.SettleFails
		}
		pk("adds", rawAdds, adds, la)
		pk("sfs", rawSfs, sfs, ls)
		height++
	}
	w.WriteString("END\n")
	g.stats["cases"]++
	g.stats["cases_store"]++
}

func TestVerifC02Codec(t *testing.T) {
	out := os.Getenv("VERIF_OUT")
	if out == "" {
		t.Skip("VERIF_OUT not set")
	}
	seed, _ := strconv.ParseInt(os.Getenv("VERIF_SEED"), 10, 64)
	tier := os.Getenv("VERIF_TIER")
	f, err := os.Create(out)
	if err != nil {
		t.Fatal(err)
	}
	defer f.Close()
	w := bufio.NewWriterSize(f, 1<<20)
	defer w.Flush()

	fmt.Fprintf(w, "FACT onion=%d maxvarbytes=%d mincustom=%d add=%d fulfill=%d fail=%d commitsig=%d fee=%d malformed=%d\n",
		lnwire.OnionPacketSize, 66000, lnwire.MinCustomRecordsTlvType, lnwire.MsgUpdateAddHTLC,
		lnwire.MsgUpdateFulfillHTLC, lnwire.MsgUpdateFailHTLC, lnwire.MsgCommitSig, lnwire.MsgUpdateFee,
		lnwire.MsgUpdateFailMalformedHTLC)

	stats := map[string]int{}
	g := &c02cGen{r: rand.New(rand.NewSource(seed*104729 + 71)), stats: stats}
	fullDB, err := MakeTestDB(t)
	if err != nil {
		t.Fatalf("db: %v", err)
	}
	c := &c02cCodec{t: t, db: fullDB.Backend}

	nVal, nTrunc, nStore, rounds := 40, 3, 4, 3
	if tier == "thorough" {
		nVal, nTrunc, nStore, rounds = 400, 30, 40, 5
	}
	id := 0
	var keep = map[string][][]byte{}
	for i := 0; i < nVal; i++ {
		for _, what := range []string{"commit", "diff", "upds", "upd", "revstate"} {
			id++
			raw := c.valueCase(w, id, g, what)
			if len(raw) > 0 && len(raw) < 6000 {
				keep[what] = append(keep[what], raw)
			}
		}
	}
	for _, what := range []string{"commit", "diff", "upds", "upd", "revstate"} {
		rs := keep[what]
		sort.Slice(rs, func(i, j int) bool { return len(rs[i]) < len(rs[j]) })
		for i := 0; i < nTrunc && i < len(rs); i++ {
			id++
			// the shortest encodings: every prefix; others: sampled
			c.truncCase(w, id, g, what, rs[i], i == 0 && len(rs[i]) < 700)
		}
		for i := 0; i < nTrunc && len(rs) > nTrunc; i++ {
			id++
			c.truncCase(w, id, g, what, rs[nTrunc+g.r.Intn(len(rs)-nTrunc)], false)
		}
	}
	bigN := []int{256 + int(seed%2)}
	if tier == "thorough" {
		bigN = []int{255, 256, 257, 483, 966}
	}
	for _, n := range bigN {
		for _, what := range []string{"commit", "diff", "upds"} {
			id++
			c.bigCase(w, id, g, what, n)
		}
	}
	for i := 0; i < nStore; i++ {
		id++
		caseID := id
		t.Run(fmt.Sprintf("codecstore_%d", i), func(t *testing.T) {
			c02cStoreCase(t, w, caseID, g, rounds)
		})
	}

	keys := make([]string, 0, len(stats))
	for k := range stats {
		keys = append(keys, k)
	}
	sort.Strings(keys)
	for _, k := range keys {
		fmt.Fprintf(w, "HSTAT %s=%d\n", k, stats[k])
	}
}
