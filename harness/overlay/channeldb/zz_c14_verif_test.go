//go:build verif

package channeldb

// C14, second stream: the REAL persistent HeightHintCache (channeldb/height_hint.go on a
// kvdb backend) behind a real chainntnfs.TxNotifier, driven through the exported API only.
// Same operation language as the chainntnfs stream (conn/ntfy/disc/regc/regs/cancel/updc/upds)
// plus `restart` (a new TxNotifier on the same cache).  After every operation all event channels
// are emptied and the PERSISTED hints are read back with QueryConfirmHint/QuerySpendHint
// (`hic`/`his` lines); drv_c14 compares them with the model and evaluates hint_safe_conf /
// hint_safe_spend (and all event clauses) on them.

import (
	"bufio"
	"fmt"
	"math/rand"
	"os"
	"sort"
	"strconv"
	"strings"
	"testing"
	"time"

	"github.com/btcsuite/btcd/btcutil/v2"
	"github.com/btcsuite/btcd/chainhash/v2"
	"github.com/btcsuite/btcd/wire/v2"
	"github.com/lightningnetwork/lnd/chainntnfs"
)

var (
	x14RawScript = []byte{
		0xa9, 0x14,
		0x90, 0x1c, 0x86, 0x94, 0xc0, 0x3f, 0xaf, 0xd5,
		0x52, 0x28, 0x10, 0xe0, 0x33, 0x0f, 0x26, 0xe6,
		0x7a, 0x85, 0x33, 0xcd,
		0x87,
	}
	x14SigScript = []byte{
		0x16,
		0x00, 0x14, 0x1d, 0x7c, 0xd6, 0xc7, 0x5c, 0x2e,
		0x86, 0xf4, 0xcb, 0xf9, 0x8e, 0xae, 0xd2, 0x21,
		0xb3, 0x0b, 0xd9, 0xa0, 0xb9, 0x28,
	}
	x14Witness  = [][]byte{{0x01}}
	x14TxSpends = [][]int{{}, {0}, {1}, {0}, {1, 2}, {2}, {2, 0}, {}, {1}}
)

func x14OutPoint(o int) wire.OutPoint {
	return wire.OutPoint{Hash: chainhash.Hash{0xc1, 0x4c}, Index: uint32(o)}
}

func x14Script(id int) []byte {
	s := make([]byte, 34)
	s[0], s[1] = 0x00, 0x20
	for i := 2; i < 34; i++ {
		s[i] = byte(0x40 + id)
	}
	return s
}

func x14BuildTx(id int) *wire.MsgTx {
	tx := wire.NewMsgTx(2)
	tx.LockTime = uint32(7000 + id)
	for _, o := range x14TxSpends[id] {
		tx.AddTxIn(&wire.TxIn{PreviousOutPoint: x14OutPoint(o), SignatureScript: x14SigScript, Witness: x14Witness})
	}
	if len(x14TxSpends[id]) == 0 {
		tx.AddTxIn(&wire.TxIn{PreviousOutPoint: x14OutPoint(1000 + id), SignatureScript: x14SigScript, Witness: x14Witness})
	}
	tx.AddTxOut(&wire.TxOut{Value: int64(1000 + id), PkScript: x14Script(id)})
	return tx
}

type x14Block struct {
	id     int
	height uint32
	txs    []int
	blk    *btcutil.Block
}

type x14Reg struct {
	conf   bool
	key    int
	cev    *chainntnfs.ConfirmationEvent
	sev    *chainntnfs.SpendEvent
	closed bool
}

type x14 struct {
	w      *bufio.Writer
	rng    *rand.Rand
	caseNo int
	stats  map[string]int
	cache  *HeightHintCache

	txs      []*wire.MsgTx
	txHash   []chainhash.Hash
	txByHash map[chainhash.Hash]int

	n        *chainntnfs.TxNotifier
	limit    uint32
	cur      uint32
	maxTip   uint32
	chain    map[uint32]*x14Block
	blkByID  map[chainhash.Hash]int
	nextBlk  int
	regs     []*x14Reg
	confReq  map[int]chainntnfs.ConfRequest
	spendReq map[int]chainntnfs.SpendRequest
	pendC    map[int][2]uint32
	pendS    map[int][2]uint32
	last     map[string]string
	needNtfy uint32
	dead     bool
}

func (c *x14) pf(format string, a ...interface{}) { fmt.Fprintf(c.w, format+"\n", a...) }

func (c *x14) blockStr(b *x14Block) string {
	ss := []string{fmt.Sprintf("b%d", b.id)}
	for _, t := range b.txs {
		sp := x14TxSpends[t]
		if len(sp) == 0 {
			ss = append(ss, fmt.Sprintf("%d:-", t))
			continue
		}
		os := make([]string, len(sp))
		for i, o := range sp {
			os[i] = strconv.Itoa(o)
		}
		ss = append(ss, fmt.Sprintf("%d:%s", t, strings.Join(os, ".")))
	}
	return strings.Join(ss, " ")
}

func (c *x14) mkBlock(height uint32, txs []int) *x14Block {
	c.nextBlk++
	mb := &wire.MsgBlock{Header: wire.BlockHeader{Nonce: uint32(c.nextBlk), Bits: uint32(1<<20 + c.caseNo)}}
	for _, t := range txs {
		mb.Transactions = append(mb.Transactions, c.txs[t])
	}
	b := &x14Block{id: c.nextBlk, height: height, txs: txs, blk: btcutil.NewBlock(mb)}
	c.blkByID[*b.blk.Hash()] = b.id
	return b
}

func (c *x14) txOnChain(id int) (*x14Block, int, bool) {
	for h := uint32(1); h <= c.cur; h++ {
		if b := c.chain[h]; b != nil {
			for i, t := range b.txs {
				if t == id {
					return b, i, true
				}
			}
		}
	}
	return nil, 0, false
}

func (c *x14) opOnChain(o int) (*x14Block, int, int, bool) {
	for h := uint32(1); h <= c.cur; h++ {
		if b := c.chain[h]; b != nil {
			for _, t := range b.txs {
				for i, so := range x14TxSpends[t] {
					if so == o {
						return b, t, i, true
					}
				}
			}
		}
	}
	return nil, 0, 0, false
}

func (c *x14) genTxs(p float64) []int {
	var out []int
	used := map[int]bool{}
	for _, t := range c.rng.Perm(len(x14TxSpends)) {
		if c.rng.Float64() >= p {
			continue
		}
		if _, _, ok := c.txOnChain(t); ok {
			continue
		}
		bad := false
		for _, o := range x14TxSpends[t] {
			if _, _, _, ok := c.opOnChain(o); ok || used[o] {
				bad = true
			}
		}
		if bad {
			continue
		}
		for _, o := range x14TxSpends[t] {
			used[o] = true
		}
		out = append(out, t)
	}
	return out
}

func (c *x14) run(f func() string) string {
	ch := make(chan string, 1)
	go func() {
		defer func() {
			if r := recover(); r != nil {
				ch <- "panic"
			}
		}()
		ch <- f()
	}()
	select {
	case r := <-ch:
		return r
	case <-time.After(10 * time.Second):
		return "blocked"
	}
}

func (c *x14) after(res string) {
	c.stats["res_"+strings.Fields(res)[0]]++
	if res == "blocked" || res == "panic" {
		c.dead = true
		return
	}
	c.drain()
	c.dump()
}

func (c *x14) drain() {
	for i, r := range c.regs {
		if r.closed {
			continue
		}
		var parts []string
		if r.conf {
			var us, cs, ns []string
			d := 0
		loopC:
			for {
				select {
				case u, ok := <-r.cev.Updates:
					if !ok {
						break loopC
					}
					us = append(us, fmt.Sprintf("%d@%d", u.NumConfsLeft, u.BlockHeight))
				default:
					break loopC
				}
			}
			select {
			case d0, ok := <-r.cev.Confirmed:
				if ok && d0 != nil {
					id := -1
					if d0.BlockHash != nil {
						if x, ok := c.blkByID[*d0.BlockHash]; ok {
							id = x
						}
					}
					s := fmt.Sprintf("%d/%d/%d", d0.BlockHeight, id, d0.TxIndex)
					if d0.Tx == nil || d0.Tx.TxHash() != c.txHash[r.key] {
						s += "!"
					}
					cs = append(cs, s)
				}
			default:
			}
			select {
			case v, ok := <-r.cev.NegativeConf:
				if ok {
					ns = append(ns, strconv.Itoa(int(v)))
				}
			default:
			}
			select {
			case <-r.cev.Done:
				d++
			default:
			}
			if len(us) > 0 {
				parts = append(parts, "U="+strings.Join(us, ","))
			}
			if len(cs) > 0 {
				parts = append(parts, "C="+strings.Join(cs, ","))
			}
			if len(ns) > 0 {
				parts = append(parts, "N="+strings.Join(ns, ","))
			}
			if d > 0 {
				parts = append(parts, "D="+strconv.Itoa(d))
			}
		} else {
			select {
			case d0, ok := <-r.sev.Spend:
				if ok && d0 != nil {
					sp := -1
					if d0.SpenderTxHash != nil {
						if t, ok := c.txByHash[*d0.SpenderTxHash]; ok {
							sp = t
						}
					}
					s := fmt.Sprintf("S=%d/%d/%d", d0.SpendingHeight, sp, d0.SpenderInputIndex)
					if d0.SpentOutPoint == nil || *d0.SpentOutPoint != x14OutPoint(r.key) {
						s += "!"
					}
					parts = append(parts, s)
				}
			default:
			}
			select {
			case _, ok := <-r.sev.Reorg:
				if ok {
					parts = append(parts, "R=1")
				}
			default:
			}
			select {
			case _, ok := <-r.sev.Done:
				if ok {
					parts = append(parts, "D=1")
				}
			default:
			}
		}
		if len(parts) > 0 {
			c.pf("ev r%d %s", i, strings.Join(parts, " "))
			c.stats["ev_lines"]++
		}
	}
}

// dump reads the persisted hints back from the database.
func (c *x14) dump() {
	emit := func(key, line string) {
		if c.last[key] != line {
			c.last[key] = line
			c.pf("%s", line)
		}
	}
	var ks []int
	for k := range c.confReq {
		ks = append(ks, k)
	}
	sort.Ints(ks)
	for _, k := range ks {
		hint := "-"
		if h, err := c.cache.QueryConfirmHint(c.confReq[k]); err == nil {
			hint = strconv.Itoa(int(h))
		} else if err != chainntnfs.ErrConfirmHintNotFound {
			hint = "err"
		}
		emit(fmt.Sprintf("c%d", k), fmt.Sprintf("hic %d hint=%s", k, hint))
	}
	ks = ks[:0]
	for k := range c.spendReq {
		ks = append(ks, k)
	}
	sort.Ints(ks)
	for _, k := range ks {
		hint := "-"
		if h, err := c.cache.QuerySpendHint(c.spendReq[k]); err == nil {
			hint = strconv.Itoa(int(h))
		} else if err != chainntnfs.ErrSpendHintNotFound {
			hint = "err"
		}
		emit(fmt.Sprintf("s%d", k), fmt.Sprintf("his %d hint=%s", k, hint))
	}
}

func (c *x14) ensureConfReq(k int) chainntnfs.ConfRequest {
	if r, ok := c.confReq[k]; ok {
		return r
	}
	r, err := chainntnfs.NewConfRequest(&c.txHash[k], x14Script(k))
	if err != nil {
		panic(err)
	}
	c.confReq[k] = r
	return r
}

func (c *x14) ensureSpendReq(k int) chainntnfs.SpendRequest {
	if r, ok := c.spendReq[k]; ok {
		return r
	}
	op := x14OutPoint(k)
	r, err := chainntnfs.NewSpendRequest(&op, x14RawScript)
	if err != nil {
		panic(err)
	}
	c.spendReq[k] = r
	return r
}

func x14Err(err error) string {
	switch err {
	case chainntnfs.ErrNumConfsOutOfRange:
		return "err numconfs"
	case chainntnfs.ErrNoHeightHint:
		return "err nohint"
	}
	if strings.Contains(err.Error(), "out of order") {
		return "err order"
	}
	if strings.Contains(err.Error(), "not found") {
		return "err notfound"
	}
	return "err other"
}

func (c *x14) opRegConf(k int, numConfs, hint uint32) {
	c.ensureConfReq(k)
	var reg *chainntnfs.ConfRegistration
	res := c.run(func() string {
		r, err := c.n.RegisterConf(&c.txHash[k], x14Script(k), numConfs, hint)
		if err != nil {
			return x14Err(err)
		}
		reg = r
		if r.HistoricalDispatch != nil {
			return fmt.Sprintf("hist %d %d", r.HistoricalDispatch.StartHeight, r.HistoricalDispatch.EndHeight)
		}
		return "ok"
	})
	if reg != nil {
		c.regs = append(c.regs, &x14Reg{conf: true, key: k, cev: reg.Event})
		if reg.HistoricalDispatch != nil {
			c.pendC[k] = [2]uint32{reg.HistoricalDispatch.StartHeight, reg.HistoricalDispatch.EndHeight}
		}
	}
	c.pf("regc %d %d %d => %s", k, numConfs, hint, res)
	c.after(res)
}

func (c *x14) opRegSpend(k int, hint uint32) {
	c.ensureSpendReq(k)
	var reg *chainntnfs.SpendRegistration
	res := c.run(func() string {
		op := x14OutPoint(k)
		r, err := c.n.RegisterSpend(&op, x14RawScript, hint)
		if err != nil {
			return x14Err(err)
		}
		reg = r
		if r.HistoricalDispatch != nil {
			return fmt.Sprintf("hist %d %d", r.HistoricalDispatch.StartHeight, r.HistoricalDispatch.EndHeight)
		}
		return "ok"
	})
	if reg != nil {
		c.regs = append(c.regs, &x14Reg{conf: false, key: k, sev: reg.Event})
		if reg.HistoricalDispatch != nil {
			c.pendS[k] = [2]uint32{reg.HistoricalDispatch.StartHeight, reg.HistoricalDispatch.EndHeight}
		}
	}
	c.pf("regs %d %d => %s", k, hint, res)
	c.after(res)
}

func (c *x14) opCancel(i int) {
	r := c.regs[i]
	res := c.run(func() string {
		if r.conf {
			r.cev.Cancel()
		} else {
			r.sev.Cancel()
		}
		return "ok"
	})
	// all channels are empty here (eager reading): a receive succeeds
	// immediately iff the channel was closed by the cancel
	if res == "ok" {
		if r.conf {
			select {
			case _, ok := <-r.cev.NegativeConf:
				r.closed = !ok
			default:
			}
		} else {
			select {
			case _, ok := <-r.sev.Reorg:
				r.closed = !ok
			default:
			}
		}
	}
	c.pf("cancel r%d => %s", i, res)
	c.after(res)
}

func (c *x14) opConnect(txs []int) {
	h := c.cur + 1
	b := c.mkBlock(h, txs)
	res := c.run(func() string {
		if err := c.n.ConnectTip(b.blk, h); err != nil {
			return x14Err(err)
		}
		return "ok"
	})
	if res == "ok" {
		c.chain[h] = b
		c.cur = h
		if h > c.maxTip {
			c.maxTip = h
		}
		c.needNtfy = h
	}
	c.pf("conn %d %s => %s", h, c.blockStr(b), res)
	c.after(res)
}

func (c *x14) opNotify(h uint32) {
	res := c.run(func() string {
		if err := c.n.NotifyHeight(h); err != nil {
			return x14Err(err)
		}
		return "ok"
	})
	if h == c.needNtfy {
		c.needNtfy = 0
	}
	c.pf("ntfy %d => %s", h, res)
	c.after(res)
}

func (c *x14) opDisconnect(h uint32) {
	res := c.run(func() string {
		if err := c.n.DisconnectTip(h); err != nil {
			return x14Err(err)
		}
		return "ok"
	})
	if res == "ok" {
		delete(c.chain, h)
		c.cur = h - 1
	}
	c.pf("disc %d => %s", h, res)
	c.after(res)
}

func (c *x14) rescanTo(end uint32) uint32 {
	if c.rng.Intn(2) == 0 && end < c.cur {
		return end
	}
	return c.cur
}

func (c *x14) opUpdConf(k int) {
	req := c.ensureConfReq(k)
	rg := c.pendC[k]
	from, to := rg[0], c.rescanTo(rg[1])
	var det *chainntnfs.TxConfirmation
	arg := "none"
	if b, idx, ok := c.txOnChain(k); ok && b.height >= from && b.height <= to {
		det = &chainntnfs.TxConfirmation{
			BlockHash: b.blk.Hash(), BlockHeight: b.height, TxIndex: uint32(idx),
			Tx: c.txs[k], Block: b.blk.MsgBlock(),
		}
		arg = fmt.Sprintf("%d/%d/%d", b.height, b.id, idx)
	}
	res := c.run(func() string {
		if err := c.n.UpdateConfDetails(req, det); err != nil {
			return x14Err(err)
		}
		return "ok"
	})
	delete(c.pendC, k)
	c.pf("updc %d from=%d to=%d %s => %s", k, from, to, arg, res)
	c.after(res)
}

func (c *x14) opUpdSpend(k int) {
	req := c.ensureSpendReq(k)
	rg := c.pendS[k]
	from, to := rg[0], c.rescanTo(rg[1])
	var det *chainntnfs.SpendDetail
	arg := "none"
	if b, sp, idx, ok := c.opOnChain(k); ok && b.height >= from && b.height <= to {
		op := x14OutPoint(k)
		h := c.txHash[sp]
		det = &chainntnfs.SpendDetail{
			SpentOutPoint: &op, SpenderTxHash: &h, SpendingTx: c.txs[sp],
			SpenderInputIndex: uint32(idx), SpendingHeight: int32(b.height),
		}
		arg = fmt.Sprintf("%d/%d/%d", b.height, sp, idx)
	}
	res := c.run(func() string {
		if err := c.n.UpdateSpendDetails(req, det); err != nil {
			return x14Err(err)
		}
		return "ok"
	})
	delete(c.pendS, k)
	c.pf("upds %d from=%d to=%d %s => %s", k, from, to, arg, res)
	c.after(res)
}

// restart: the node restarts; a new TxNotifier is created at the current height
// on top of the same persisted hint cache.  All registrations are gone.
func (c *x14) opRestart() {
	c.n.TearDown()
	for _, r := range c.regs {
		r.closed = true
	}
	c.n = chainntnfs.NewTxNotifier(c.cur, c.limit, c.cache, c.cache)
	c.pendC, c.pendS = map[int][2]uint32{}, map[int][2]uint32{}
	c.needNtfy = 0
	c.pf("restart => ok")
	c.stats["restarts"]++
	c.dump()
}

func (c *x14) pickHint(onChain bool, at uint32) uint32 {
	r := c.rng.Intn(100)
	switch {
	case r < 35:
		return 1
	case r < 55 && onChain:
		return at
	case r < 62 && onChain && at > 1:
		return at - 1
	case r < 70:
		return c.cur
	case r < 80:
		return c.cur + 1
	case r < 86 && c.cur > 1:
		return c.cur - 1
	default:
		return 1 + uint32(c.rng.Intn(12))
	}
}

func (c *x14) oneCase(nops int) {
	c.caseNo++
	c.chain = map[uint32]*x14Block{}
	c.blkByID = map[chainhash.Hash]int{}
	c.nextBlk = 0
	c.regs = nil
	c.confReq = map[int]chainntnfs.ConfRequest{}
	c.spendReq = map[int]chainntnfs.SpendRequest{}
	c.pendC, c.pendS = map[int][2]uint32{}, map[int][2]uint32{}
	c.last = map[string]string{}
	c.needNtfy = 0
	c.dead = false

	// the database is shared by all cases: purge what the previous case left
	for k := 0; k < 4; k++ {
		r, _ := chainntnfs.NewConfRequest(&c.txHash[k], x14Script(k))
		if err := c.cache.PurgeConfirmHint(r); err != nil {
			panic(err)
		}
	}
	for k := 0; k < 3; k++ {
		op := x14OutPoint(k)
		r, _ := chainntnfs.NewSpendRequest(&op, x14RawScript)
		if err := c.cache.PurgeSpendHint(r); err != nil {
			panic(err)
		}
	}

	c.limit = []uint32{4, 4, 4, 3, 6}[c.rng.Intn(5)]
	start := uint32(c.rng.Intn(6))
	c.cur = 0
	c.pf("CASE x%d kind=persist limit=%d start=%d lazy=0 ext=1", c.caseNo, c.limit, start)
	for h := uint32(1); h <= start; h++ {
		c.cur = h - 1
		txs := c.genTxs(0.12)
		c.cur = h
		b := c.mkBlock(h, txs)
		c.chain[h] = b
		c.pf("pre %d %s", h, c.blockStr(b))
	}
	c.cur, c.maxTip = start, start
	c.n = chainntnfs.NewTxNotifier(start, c.limit, c.cache, c.cache)

	discRun := false
	for i := 0; i < nops && !c.dead; i++ {
		if c.needNtfy != 0 {
			if c.rng.Intn(100) < 85 {
				c.opNotify(c.needNtfy)
				continue
			}
		}
		r := c.rng.Intn(100)
		if c.needNtfy != 0 && r < 48 {
			r = 48 + c.rng.Intn(52)
		}
		switch {
		case r < 28:
			if c.cur >= 12 {
				continue
			}
			discRun = false
			c.opConnect(c.genTxs(0.3))
		case r < 44 || (discRun && r < 48):
			if c.cur == 0 || !(c.cur-1+c.limit > c.maxTip) {
				continue
			}
			discRun = true
			c.opDisconnect(c.cur)
		case r < 62:
			if len(c.regs) >= 8 {
				continue
			}
			k := c.rng.Intn(3)
			b, _, ok := c.txOnChain(k)
			at := uint32(0)
			if ok {
				at = b.height
			}
			nc := []uint32{1, 1, 2, 3}[c.rng.Intn(4)]
			if nc > c.limit {
				nc = 1
			}
			c.opRegConf(k, nc, c.pickHint(ok, at))
		case r < 74:
			if len(c.regs) >= 8 {
				continue
			}
			k := c.rng.Intn(3)
			b, _, _, ok := c.opOnChain(k)
			at := uint32(0)
			if ok {
				at = b.height
			}
			c.opRegSpend(k, c.pickHint(ok, at))
		case r < 79:
			var lr []int
			for j, rg := range c.regs {
				if !rg.closed {
					lr = append(lr, j)
				}
			}
			if len(lr) > 0 {
				c.opCancel(lr[c.rng.Intn(len(lr))])
			}
		case r < 94:
			var pc, ps []int
			for k := range c.pendC {
				pc = append(pc, k)
			}
			for k := range c.pendS {
				ps = append(ps, k)
			}
			sort.Ints(pc)
			sort.Ints(ps)
			if len(pc)+len(ps) == 0 {
				continue
			}
			j := c.rng.Intn(len(pc) + len(ps))
			if j < len(pc) {
				c.opUpdConf(pc[j])
			} else {
				c.opUpdSpend(ps[j-len(pc)])
			}
		default:
			if c.needNtfy == 0 {
				c.opRestart()
			}
		}
	}
	if !c.dead && c.needNtfy != 0 {
		c.opNotify(c.needNtfy)
	}
	c.pf("END")
	if !c.dead {
		c.n.TearDown()
	}
}

func TestVerifC14(t *testing.T) {
	out := os.Getenv("VERIF_OUT")
	if out == "" {
		t.Skip("VERIF_OUT not set")
	}
	seed, _ := strconv.ParseInt(os.Getenv("VERIF_SEED"), 10, 64)
	tier := os.Getenv("VERIF_TIER")
	f, err := os.Create(out)
	if err != nil {
		t.Fatal(err)
	}
	defer f.Close()
	w := bufio.NewWriterSize(f, 1<<20)
	defer w.Flush()

	// The kvdb backend fsyncs on every commit; prefer a memory-backed
	// directory so that the wall time (and the "blocked" time-out below)
	// does not depend on the load of the machine's disk.
	dbDir := t.TempDir()
	if d, err := os.MkdirTemp("/dev/shm", "c14_persist_"); err == nil {
		dbDir = d
		t.Cleanup(func() { os.RemoveAll(d) })
	}
	db := OpenForTesting(t, dbDir)
	cache, err := NewHeightHintCache(CacheConfig{QueryDisable: false}, db.Backend)
	if err != nil {
		t.Fatal(err)
	}
	c := &x14{w: w, rng: rand.New(rand.NewSource(seed*104729 + 141)), stats: map[string]int{}, cache: cache}
	c.txByHash = map[chainhash.Hash]int{}
	for id := range x14TxSpends {
		tx := x14BuildTx(id)
		c.txs = append(c.txs, tx)
		c.txHash = append(c.txHash, tx.TxHash())
		c.txByHash[tx.TxHash()] = id
	}
	n := 60
	if tier == "thorough" {
		n = 1500
	}
	for i := 0; i < n; i++ {
		c.oneCase(25 + c.rng.Intn(30))
	}
	keys := make([]string, 0, len(c.stats))
	for k := range c.stats {
		keys = append(keys, k)
	}
	sort.Strings(keys)
	for _, k := range keys {
		c.pf("HSTAT x_%s=%d", k, c.stats[k])
	}
}
