//go:build verif

package channeldb

// C02, stream `fwdpkg`: the forwarding-package store of a channel across crash
// points ("forwarding packages … reproduced exactly after reload").
//
// kind=filter cases: chanstate.PkgFilter alone. NewPkgFilter(count) for every
// count 0..40 and boundary counts, Set in random / reverse / in-order sequences
// with repetitions; after every call the encoding, IsFull() and Contains(i) for
// every i < count are printed; Decode(Encode(f)) and truncated encodings.
//
// kind=store cases: two real channels in one real channeldb (bbolt).  Every
// operation is one kvdb transaction of the production code:
//   sign    OpenChannel.AppendRemoteCommitChain (CommitDiff with AddAcks /
//           SettleFailAcks, the way a link acknowledges through a signature)
//   adv     OpenChannel.AdvanceCommitChainTail (NewFwdPkg + AddFwdPkg)
//   setfwd  OpenChannel.SetFwdFilter, with the FwdFilter of the package as the
//           link holds it: the RELOADED package (after a restart) or the
//           in-memory one returned by NewFwdPkg
//   ackadd  OpenChannel.AckAddHtlcs, acksf OpenChannel.AckSettleFails (also for
//           packages of the other channel, removed packages, unknown sources)
//   remove  OpenChannel.RemoveFwdPkgs
// and after EVERY operation both channels are re-fetched from the database and
// their packages are loaded with LoadFwdPkgs (= a crash + restart at every point
// between two writes); every loaded package is dumped completely: state, adds,
// settle/fails, and for each of the three filters its encoding, IsFull() and
// Contains(i) for all i < count.  Package sizes 0..20 (boundary biased around
// the multiples of 8), acknowledgements in random order.

import (
	"bufio"
	"bytes"
	"encoding/hex"
	"errors"
	"fmt"
	"math/rand"
	"os"
	"sort"
	"strconv"
	"strings"
	"testing"

	"github.com/btcsuite/btcwallet/walletdb"
	"github.com/lightningnetwork/lnd/kvdb"
	"github.com/lightningnetwork/lnd/lnwire"
)

func c02fErr(err error) string {
	switch {
	case err == nil:
		return "ok"
	case errors.Is(err, ErrCorruptedFwdPkg):
		return "corrupted"
	case errors.Is(err, kvdb.ErrBucketNotFound):
		return "bucketNotFound"
	}
	return "err:" + strings.ReplaceAll(fmt.Sprintf("%T", err), " ", "_")
}

// c02fFilter prints enc/full/bits of a filter; every call is guarded.
func c02fFilter(f *PkgFilter) string {
	if f == nil {
		return "nil"
	}
	res := ""
	func() {
		defer func() {
			if r := recover(); r != nil {
				res = "panic"
			}
		}()
		var b bytes.Buffer
		if err := f.Encode(&b); err != nil {
			res = "encerr"
			return
		}
		full := 0
		if f.IsFull() {
			full = 1
		}
		var bits strings.Builder
		for i := uint16(0); i < f.Count(); i++ {
			if f.Contains(i) {
				bits.WriteByte('1')
			} else {
				bits.WriteByte('0')
			}
		}
		bs := bits.String()
		if bs == "" {
			bs = "-"
		}
		res = fmt.Sprintf("%s/%d/%s", hex.EncodeToString(b.Bytes()), full, bs)
	}()
	return res
}

func c02fUpds(us []LogUpdate) string {
	if len(us) == 0 {
		return "-"
	}
	var parts []string
	for _, u := range us {
		switch m := u.UpdateMsg.(type) {
		case *lnwire.UpdateAddHTLC:
			parts = append(parts, fmt.Sprintf("0:%d:%d:%d", u.LogIndex, m.ID, uint64(m.Amount)))
		case *lnwire.UpdateFulfillHTLC:
			parts = append(parts, fmt.Sprintf("1:%d:%d:0", u.LogIndex, m.ID))
		case *lnwire.UpdateFailHTLC:
			parts = append(parts, fmt.Sprintf("2:%d:%d:0", u.LogIndex, m.ID))
		case *lnwire.UpdateFailMalformedHTLC:
			parts = append(parts, fmt.Sprintf("3:%d:%d:0", u.LogIndex, m.ID))
		default:
			parts = append(parts, fmt.Sprintf("9:%d:0:0", u.LogIndex))
		}
	}
	return strings.Join(parts, ",")
}

// ---------------------------------------------------------------------------
// kind=filter
// ---------------------------------------------------------------------------

func c02fFilterCase(w *bufio.Writer, id int, r *rand.Rand, count uint16, stats map[string]int) {
	fmt.Fprintf(w, "CASE %d kind=filter count=%d\n", id, count)
	f := NewPkgFilter(count)
	fmt.Fprintf(w, "FN count=%d => size=%d %s\n", count, f.Size(), c02fFilter(f))

	// order of the Set calls
	var order []uint16
	for i := uint16(0); i < count; i++ {
		order = append(order, i)
	}
	switch r.Intn(4) {
	case 0: // in order
	case 1: // reverse
		for i, j := 0, len(order)-1; i < j; i, j = i+1, j-1 {
			order[i], order[j] = order[j], order[i]
		}
	default:
		r.Shuffle(len(order), func(i, j int) { order[i], order[j] = order[j], order[i] })
	}
	// repetitions; sometimes leave one index out until the very end / forever
	leave := -1
	if count > 1 && r.Intn(2) == 0 {
		leave = r.Intn(int(count))
	}
	var seq []uint16
	for _, i := range order {
		if int(i) == leave {
			continue
		}
		seq = append(seq, i)
		if r.Intn(5) == 0 {
			seq = append(seq, order[r.Intn(len(order))])
			if int(seq[len(seq)-1]) == leave {
				seq = seq[:len(seq)-1]
			}
		}
	}
	if leave >= 0 && r.Intn(2) == 0 {
		seq = append(seq, uint16(leave))
	}
	if count > 200 {
		// large filters: a sample of the sequence plus the complete tail
		if len(seq) > 60 {
			seq = append(seq[:30], seq[len(seq)-30:]...)
		}
	}
	for _, i := range seq {
		res := "ok"
		func() {
			defer func() {
				if rc := recover(); rc != nil {
					res = "panic"
				}
			}()
			f.Set(i)
		}()
		fmt.Fprintf(w, "FS i=%d => %s %s\n", i, res, c02fFilter(f))
		stats["filter_set"]++

		if r.Intn(4) == 0 {
			var b bytes.Buffer
			_ = f.Encode(&b)
			g := &PkgFilter{}
			err := g.Decode(bytes.NewReader(b.Bytes()))
			eq := 0
			if err == nil && g.Equal(f) {
				eq = 1
			}
			fmt.Fprintf(w, "FD enc=%s => %s eq=%d %s\n", hex.EncodeToString(b.Bytes()), c02fErr(err), eq, c02fFilter(g))
			stats["filter_decode"]++
		}
	}
	// out-of-range Set (byte exists / does not exist) on a copy
	if count > 0 {
		var b bytes.Buffer
		_ = f.Encode(&b)
		for _, i := range []uint16{count, count + 1, (count+7)/8*8 - 1, (count + 7) / 8 * 8, (count+7)/8*8 + 7} {
			if i < count {
				continue
			}
			g := &PkgFilter{}
			_ = g.Decode(bytes.NewReader(b.Bytes()))
			res := "ok"
			func() {
				defer func() {
					if rc := recover(); rc != nil {
						res = "panic"
					}
				}()
				g.Set(i)
			}()
			fmt.Fprintf(w, "FO i=%d => %s %s\n", i, res, c02fFilter(g))
		}
	}
	// truncated / empty encodings
	var b bytes.Buffer
	_ = f.Encode(&b)
	enc := b.Bytes()
	for _, n := range []int{0, 1, 2, len(enc) - 1} {
		if n < 0 || n >= len(enc) {
			continue
		}
		g := &PkgFilter{}
		err := g.Decode(bytes.NewReader(enc[:n]))
		res := "ok"
		if err != nil {
			res = "err"
		}
		fmt.Fprintf(w, "FT enc=%s => %s\n", hex.EncodeToString(enc[:n]), res)
	}
	w.WriteString("END\n")
	stats["cases"]++
	stats["filter_cases"]++
	if count%8 != 0 {
		stats["filter_count_not_multiple_of_8"]++
	}
}

// ---------------------------------------------------------------------------
// kind=store
// ---------------------------------------------------------------------------

type c02fPkgMem struct {
	height uint64
	nAdds  int
	nSfs   int
	mem    *FwdPkg // the package as returned by NewFwdPkg (lost by a restart)
}

type c02fChan struct {
	name   string
	ch     *OpenChannel
	height uint64 // next package height
	signed bool   // a commit diff is pending
	pkgs   []*c02fPkgMem
	logIdx uint64
	htlcID uint64
}

// c02fBackend counts the write transactions that commit and calls `hook`
// right after each commit (= every instant at which a crash leaves a new
// durable state).
type c02fBackend struct {
	walletdb.DB
	n    int
	hook func(n int)
}

func (b *c02fBackend) Update(f func(tx walletdb.ReadWriteTx) error, reset func()) error {
	err := b.DB.Update(f, reset)
	if err == nil {
		b.n++
		if b.hook != nil {
			b.hook(b.n)
		}
	}
	return err
}

type c02fCtx struct {
	raw   *ChannelStateDB // unwrapped store: what a restarted node opens
	wb    *c02fBackend
	tx0   int
	imgs  []string
	t     *testing.T
	w     *bufio.Writer
	r     *rand.Rand
	cdb   *ChannelStateDB
	cs    [2]*c02fChan
	stats map[string]int
}

func (c *c02fCtx) fetch(x int) *OpenChannel {
	old := c.cs[x].ch
	chans, err := c.cdb.FetchOpenChannels(old.IdentityPub)
	if err != nil {
		return nil
	}
	for _, oc := range chans {
		if oc.FundingOutpoint == old.FundingOutpoint {
			return oc
		}
	}
	return nil
}

// reload: fresh handles for both channels, all packages dumped.
func (c *c02fCtx) reload() map[string][]*FwdPkg {
	out := map[string][]*FwdPkg{}
	for x := 0; x < 2; x++ {
		name := c.cs[x].name
		oc := c.fetch(x)
		if oc == nil {
			fmt.Fprintf(c.w, "L ch=%s => fetcherr\n", name)
			continue
		}
		var (
			pkgs []*FwdPkg
			res  string
		)
		func() {
			defer func() {
				if rc := recover(); rc != nil {
					res = "panic"
				}
			}()
			p, err := oc.LoadFwdPkgs()
			pkgs, res = p, c02fErr(err)
		}()
		fmt.Fprintf(c.w, "L ch=%s n=%d => %s\n", name, len(pkgs), res)
		for _, p := range pkgs {
			fmt.Fprintf(c.w, "LP ch=%s h=%d state=%d adds=%s sfs=%s fwd=%s ack=%s sf=%s\n", name, p.Height,
				int(p.State), c02fUpds(p.Adds), c02fUpds(p.SettleFails), c02fFilter(p.FwdFilter),
				c02fFilter(p.AckFilter), c02fFilter(p.SettleFailFilter))
		}
		out[name] = pkgs
		c.stats["reloads"]++
		c.stats["packages_loaded"] += len(pkgs)
	}
	return out
}

func (c *c02fCtx) guarded(f func() error) (res string) {
	defer func() {
		if rc := recover(); rc != nil {
			res = "panic"
		}
	}()
	return c02fErr(f())
}

func c02fSize(r *rand.Rand, max int) int {
	sizes := []int{0, 1, 1, 2, 2, 3, 4, 5, 6, 7, 7, 8, 8, 9, 9, 10, 11, 12, 13, 15, 15, 16, 16, 17, 17, 18, 19, 20, 20}
	n := sizes[r.Intn(len(sizes))]
	if max > 20 && r.Intn(6) == 0 {
		n = 21 + r.Intn(max-20)
	}
	return n
}

func (c *c02fCtx) mkUpdates(x int, nAdds, nSfs int) ([]LogUpdate, []LogUpdate) {
	cc := c.cs[x]
	var adds, sfs []LogUpdate
	for i := 0; i < nAdds; i++ {
		m := &lnwire.UpdateAddHTLC{
			ID:     cc.htlcID,
			Amount: lnwire.MilliSatoshi(1000 + c.r.Intn(100000)),
			Expiry: uint32(100 + c.r.Intn(400)),
		}
		c.r.Read(m.PaymentHash[:])
		adds = append(adds, LogUpdate{LogIndex: cc.logIdx, UpdateMsg: m})
		cc.htlcID++
		cc.logIdx++
	}
	for i := 0; i < nSfs; i++ {
		var m lnwire.Message
		id := uint64(c.r.Intn(int(cc.htlcID) + 1))
		switch c.r.Intn(3) {
		case 0:
			f := &lnwire.UpdateFulfillHTLC{ID: id}
			c.r.Read(f.PaymentPreimage[:])
			m = f
		case 1:
			m = &lnwire.UpdateFailHTLC{ID: id, Reason: []byte{1, 2, 3}}
		default:
			m = &lnwire.UpdateFailMalformedHTLC{ID: id, FailureCode: lnwire.CodeInvalidOnionKey}
		}
		sfs = append(sfs, LogUpdate{LogIndex: cc.logIdx, UpdateMsg: m})
		cc.logIdx++
	}
	return adds, sfs
}

type c02fRef struct {
	ch  string // destination channel name, or "Z" = unknown source
	h   uint64
	idx uint16
}

func c02fRefs(rs []c02fRef, withCh bool) string {
	if len(rs) == 0 {
		return "-"
	}
	var parts []string
	for _, r := range rs {
		if withCh {
			parts = append(parts, fmt.Sprintf("%s:%d:%d", r.ch, r.h, r.idx))
		} else {
			parts = append(parts, fmt.Sprintf("%d:%d", r.h, r.idx))
		}
	}
	return strings.Join(parts, ",")
}

// pickRefs: references into the packages of channel y (sel: settle/fails), in
// random order, mostly not yet acknowledged ones, some repeated, some to
// removed / never existing heights.
func (c *c02fCtx) pickRefs(y int, sel bool, loaded map[string][]*FwdPkg, max int) []c02fRef {
	var cand []c02fRef
	name := c.cs[y].name
	for _, p := range loaded[name] {
		f, n := p.AckFilter, len(p.Adds)
		if sel {
			f, n = p.SettleFailFilter, len(p.SettleFails)
		}
		for i := 0; i < n; i++ {
			set := false
			func() {
				defer func() { _ = recover() }()
				set = f.Contains(uint16(i))
			}()
			if !set || c.r.Intn(8) == 0 {
				cand = append(cand, c02fRef{name, p.Height, uint16(i)})
			}
		}
	}
	c.r.Shuffle(len(cand), func(i, j int) { cand[i], cand[j] = cand[j], cand[i] })
	n := 0
	if len(cand) > 0 {
		n = 1 + c.r.Intn(max)
		if c.r.Intn(4) == 0 {
			n = len(cand) // everything that is left
		}
		if n > len(cand) {
			n = len(cand)
		}
	}
	refs := append([]c02fRef(nil), cand[:n]...)
	if c.r.Intn(10) == 0 {
		// a package that is gone / never existed
		refs = append(refs, c02fRef{name, c.cs[y].height + 3 + uint64(c.r.Intn(3)), uint16(c.r.Intn(4))})
	}
	if c.r.Intn(12) == 0 && len(refs) > 0 {
		refs = append(refs, refs[c.r.Intn(len(refs))])
	}
	return refs
}

func (c *c02fCtx) scid(name string) lnwire.ShortChannelID {
	for x := 0; x < 2; x++ {
		if c.cs[x].name == name {
			return c.cs[x].ch.ShortChannelID
		}
	}
	return lnwire.NewShortChanIDFromInt(0x0c02ffff)
}

// image: every acknowledged index of every package of both channels plus
// whether channel x has a pending commit diff, read through the unwrapped store
// right after the k-th write transaction of the operation in progress.
func (c *c02fCtx) image(x, k int) string {
	var acked, sfacked []string
	pend := 0
	for y := 0; y < 2; y++ {
		old := c.cs[y].ch
		chans, err := c.raw.FetchOpenChannels(old.IdentityPub)
		if err != nil {
			continue
		}
		for _, oc := range chans {
			if oc.FundingOutpoint != old.FundingOutpoint {
				continue
			}
			if y == x {
				if d, err := oc.RemoteCommitChainTip(); err == nil && d != nil {
					pend = 1
				}
			}
			pkgs, _ := oc.LoadFwdPkgs()
			for _, p := range pkgs {
				for i := range p.Adds {
					if p.AckFilter.Contains(uint16(i)) {
						acked = append(acked, fmt.Sprintf("%s:%d:%d", c.cs[y].name, p.Height, i))
					}
				}
				for i := range p.SettleFails {
					if p.SettleFailFilter.Contains(uint16(i)) {
						sfacked = append(sfacked, fmt.Sprintf("%s:%d:%d", c.cs[y].name, p.Height, i))
					}
				}
			}
		}
	}
	j := func(l []string) string {
		if len(l) == 0 {
			return "-"
		}
		return strings.Join(l, ",")
	}
	return fmt.Sprintf("MI ch=%s k=%d pend=%d acked=%s sfacked=%s\n", c.cs[x].name, k, pend, j(acked), j(sfacked))
}

func (c *c02fCtx) txBegin(x int) {
	c.tx0 = c.wb.n
	c.imgs = nil
	c.wb.hook = func(n int) { c.imgs = append(c.imgs, c.image(x, n-c.tx0)) }
}

// op prints the operation line with the number of write transactions the call
// committed (the model: exactly one for a successful operation, none for a
// failed one); if there were several, the crash image after each of them.
func (c *c02fCtx) op(format string, a ...interface{}) {
	c.wb.hook = nil
	n := c.wb.n - c.tx0
	line := fmt.Sprintf(format, a...)
	fmt.Fprintf(c.w, "%s txs=%d\n", strings.TrimRight(line, "\n"), n)
	if n >= 2 {
		for _, im := range c.imgs {
			c.w.WriteString(im)
		}
		c.stats["ops_with_several_write_txs"]++
	}
	c.imgs = nil
	c.stats["store_ops"]++
}

func (c *c02fCtx) sign(x int, loaded map[string][]*FwdPkg) {
	cc := c.cs[x]
	ch := cc.ch
	var addAcks []c02fRef
	var sfAcks []c02fRef
	if c.r.Intn(3) != 0 {
		addAcks = c.pickRefs(x, false, loaded, 4)
	}
	if c.r.Intn(3) != 0 {
		// settle/fails live in the packages of the OTHER channel (the outgoing
		// link), sometimes in our own, rarely in a channel that is gone
		y := 1 - x
		if c.r.Intn(4) == 0 {
			y = x
		}
		sfAcks = c.pickRefs(y, true, loaded, 4)
		if c.r.Intn(10) == 0 {
			sfAcks = append(sfAcks, c02fRef{"Z", 1, 0})
		}
	}
	commit := ch.RemoteCommitment
	commit.CommitHeight = cc.height + 1
	diff := &CommitDiff{
		Commitment: commit,
		CommitSig: &lnwire.CommitSig{
			ChanID:    lnwire.ChannelID(key),
			CommitSig: wireSig,
		},
	}
	for _, r := range addAcks {
		diff.AddAcks = append(diff.AddAcks, AddRef{Height: r.h, Index: r.idx})
	}
	for _, r := range sfAcks {
		diff.SettleFailAcks = append(diff.SettleFailAcks, SettleFailRef{Source: c.scid(r.ch), Height: r.h, Index: r.idx})
	}
	c.txBegin(x)
	res := c.guarded(func() error { return ch.AppendRemoteCommitChain(diff) })
	c.op("O sign ch=%s acks=%s sfacks=%s => %s\n", cc.name, c02fRefs(addAcks, false), c02fRefs(sfAcks, true), res)
	if res == "ok" {
		cc.signed = true
	}
}

func (c *c02fCtx) adv(x int, maxSize int) {
	cc := c.cs[x]
	ch := cc.ch
	nAdds, nSfs := c02fSize(c.r, maxSize), c02fSize(c.r, maxSize)
	if c.r.Intn(3) == 0 {
		nSfs = 0
	}
	if c.r.Intn(8) == 0 {
		nAdds = 0
	}
	adds, sfs := c.mkUpdates(x, nAdds, nSfs)
	pkg := NewFwdPkg(ch.ShortChanID(), cc.height, adds, sfs)
	c.txBegin(x)
	res := c.guarded(func() error {
		return ch.AdvanceCommitChainTail(pkg, nil, dummyLocalOutputIndex, dummyRemoteOutIndex)
	})
	c.op("O adv ch=%s h=%d adds=%s sfs=%s => %s\n", cc.name, cc.height, c02fUpds(adds), c02fUpds(sfs), res)
	if res == "ok" {
		cc.pkgs = append(cc.pkgs, &c02fPkgMem{height: cc.height, nAdds: nAdds, nSfs: nSfs, mem: pkg})
		cc.height++
		cc.signed = false
		c.stats["packages_created"]++
		c.stats[fmt.Sprintf("pkg_adds_mod8_%d", nAdds%8)]++
	}
}

func (c *c02fCtx) setFwd(x int, loaded map[string][]*FwdPkg) {
	cc := c.cs[x]
	pkgs := loaded[cc.name]
	var (
		height uint64
		filter *PkgFilter
		nAdds  int
		from   string
	)
	if len(pkgs) == 0 && c.r.Intn(4) != 0 {
		return
	}
	switch {
	case len(pkgs) > 0 && c.r.Intn(10) != 0:
		// prefer packages that are still locked in
		var cand []*FwdPkg
		for _, p := range pkgs {
			if p.State == FwdStateLockedIn {
				cand = append(cand, p)
			}
		}
		if len(cand) == 0 || c.r.Intn(6) == 0 {
			cand = pkgs
		}
		p := cand[c.r.Intn(len(cand))]
		height, nAdds = p.Height, len(p.Adds)
		filter, from = p.FwdFilter, "reload"
		if c.r.Intn(3) == 0 {
			for _, m := range cc.pkgs {
				if m.height == p.Height && m.mem != nil {
					filter, from = m.mem.FwdFilter, "mem"
				}
			}
		}
	default:
		// a height without a package
		height, nAdds, from = cc.height+2+uint64(c.r.Intn(3)), 3, "none"
		filter = NewPkgFilter(3)
	}
	// the forwarding decision: mostly everything, sometimes a subset
	var idx []int
	for i := 0; i < nAdds; i++ {
		if c.r.Intn(5) != 0 {
			idx = append(idx, i)
		}
	}
	c.r.Shuffle(len(idx), func(i, j int) { idx[i], idx[j] = idx[j], idx[i] })
	c.txBegin(x)
	res := c.guarded(func() error {
		for _, i := range idx {
			filter.Set(uint16(i))
		}
		return cc.ch.SetFwdFilter(height, filter)
	})
	var is []string
	for _, i := range idx {
		is = append(is, strconv.Itoa(i))
	}
	s := "-"
	if len(is) > 0 {
		s = strings.Join(is, ",")
	}
	c.op("O setfwd ch=%s h=%d from=%s n=%d idx=%s => %s passed=%s\n", cc.name, height, from, nAdds, s, res, c02fFilter(filter))
}

func (c *c02fCtx) ackAdd(x int, loaded map[string][]*FwdPkg) {
	cc := c.cs[x]
	refs := c.pickRefs(x, false, loaded, 5)
	var ar []AddRef
	for _, r := range refs {
		ar = append(ar, AddRef{Height: r.h, Index: r.idx})
	}
	c.txBegin(x)
	res := c.guarded(func() error { return cc.ch.AckAddHtlcs(ar...) })
	c.op("O ackadd ch=%s refs=%s => %s\n", cc.name, c02fRefs(refs, false), res)
}

func (c *c02fCtx) ackSf(x int, loaded map[string][]*FwdPkg) {
	cc := c.cs[x]
	y := 1 - x
	if c.r.Intn(3) == 0 {
		y = x
	}
	refs := c.pickRefs(y, true, loaded, 5)
	if c.r.Intn(10) == 0 {
		refs = append(refs, c02fRef{"Z", 1, 0})
	}
	var sr []SettleFailRef
	for _, r := range refs {
		sr = append(sr, SettleFailRef{Source: c.scid(r.ch), Height: r.h, Index: r.idx})
	}
	c.txBegin(x)
	res := c.guarded(func() error { return cc.ch.AckSettleFails(sr...) })
	c.op("O acksf ch=%s refs=%s => %s\n", cc.name, c02fRefs(refs, true), res)
}

func (c *c02fCtx) remove(x int, loaded map[string][]*FwdPkg) {
	cc := c.cs[x]
	var hs []uint64
	for _, p := range loaded[cc.name] {
		// what the link's garbage collector does: completed packages only
		if p.State == FwdStateCompleted && c.r.Intn(3) != 0 {
			hs = append(hs, p.Height)
		}
	}
	if c.r.Intn(12) == 0 {
		hs = append(hs, cc.height+5) // never existed
	}
	if len(hs) == 0 {
		return
	}
	c.txBegin(x)
	res := c.guarded(func() error { return cc.ch.RemoveFwdPkgs(hs...) })
	var ss []string
	for _, h := range hs {
		ss = append(ss, strconv.FormatUint(h, 10))
	}
	c.op("O remove ch=%s hs=%s => %s\n", cc.name, strings.Join(ss, ","), res)
}

func c02fStoreCase(t *testing.T, w *bufio.Writer, id int, seed int64, steps, maxSize int, stats map[string]int) {
	r := rand.New(rand.NewSource(seed))
	fullDB, err := MakeTestDB(t)
	if err != nil {
		t.Fatalf("db: %v", err)
	}
	wb := &c02fBackend{DB: fullDB.Backend}
	wdb, err := CreateWithBackend(wb)
	if err != nil {
		t.Fatalf("wrap db: %v", err)
	}
	cdb := wdb.ChannelStateDB()
	c := &c02fCtx{t: t, w: w, r: r, cdb: cdb, raw: fullDB.ChannelStateDB(), wb: wb, stats: stats}
	for x := 0; x < 2; x++ {
		scid := lnwire.NewShortChanIDFromInt(uint64(0x0c020000 + id*4 + x))
		ch := createTestChannel(t, cdb, channelIDOption(scid), openChannelOption())
		c.cs[x] = &c02fChan{name: string(rune('A' + x)), ch: ch, height: ch.RemoteCommitment.CommitHeight}
	}
	fmt.Fprintf(w, "CASE %d kind=store hA=%d hB=%d\n", id, c.cs[0].height, c.cs[1].height)
	loaded := c.reload()
	for i := 0; i < steps; i++ {
		x := r.Intn(2)
		cc := c.cs[x]
		before := stats["store_ops"]
		switch k := r.Intn(20); {
		case k < 4:
			if cc.signed {
				c.adv(x, maxSize)
			} else {
				c.sign(x, loaded)
			}
		case k < 7:
			if !cc.signed {
				c.sign(x, loaded)
			} else {
				c.adv(x, maxSize)
			}
		case k < 11:
			c.setFwd(x, loaded)
		case k < 15:
			c.ackAdd(x, loaded)
		case k < 18:
			c.ackSf(x, loaded)
		default:
			c.remove(x, loaded)
		}
		if stats["store_ops"] == before {
			continue
		}
		// crash + restart: the in-memory packages are gone with probability 1/3
		if r.Intn(3) == 0 {
			for y := 0; y < 2; y++ {
				for _, m := range c.cs[y].pkgs {
					m.mem = nil
				}
				if oc := c.fetch(y); oc != nil {
					c.cs[y].ch = oc
				}
			}
			stats["handle_replaced"]++
		}
		loaded = c.reload()
	}
	w.WriteString("END\n")
	stats["cases"]++
	stats["store_cases"]++
}

func TestVerifC02(t *testing.T) {
	out := os.Getenv("VERIF_OUT")
	if out == "" {
		t.Skip("VERIF_OUT not set")
	}
	seed, _ := strconv.ParseInt(os.Getenv("VERIF_SEED"), 10, 64)
	tier := os.Getenv("VERIF_TIER")
	f, err := os.Create(out)
	if err != nil {
		t.Fatal(err)
	}
	defer f.Close()
	w := bufio.NewWriterSize(f, 1<<20)
	defer w.Flush()

	fmt.Fprintf(w, "FACT lockedIn=%d processed=%d completed=%d\n", int(FwdStateLockedIn), int(FwdStateProcessed),
		int(FwdStateCompleted))

	stats := map[string]int{}
	id := 0
	r := rand.New(rand.NewSource(seed*7919 + 13))

	// every count 0..40 (twice, different orders), boundary counts
	counts := []uint16{}
	for n := uint16(0); n <= 40; n++ {
		counts = append(counts, n, n)
	}
	counts = append(counts, 47, 48, 49, 63, 64, 65, 127, 128, 129, 255, 256, 257, 482, 483, 484)
	if tier == "thorough" {
		for n := uint16(41); n <= 130; n++ {
			counts = append(counts, n)
		}
		counts = append(counts, 511, 512, 513, 1000, 4095, 4096, 4097)
	}
	for _, n := range counts {
		id++
		c02fFilterCase(w, id, r, n, stats)
	}

	storeCases, steps, maxSize := 24, 60, 20
	if tier == "thorough" {
		storeCases, steps, maxSize = 160, 120, 40
	}
	for n := 0; n < storeCases; n++ {
		id++
		caseID := id
		cs := seed*1_000_003 + int64(n)*101 + 5
		t.Run(fmt.Sprintf("store_%d", n), func(t *testing.T) {
			c02fStoreCase(t, w, caseID, cs, steps, maxSize, stats)
		})
	}

	if tier == "thorough" {
		// a few cases with packages of up to 300 entries (2-byte index keys
		// beyond 255, multi-byte filters)
		for n := 0; n < 4; n++ {
			id++
			caseID := id
			cs := seed*1_000_003 + int64(n)*977 + 9_001
			t.Run(fmt.Sprintf("big_%d", n), func(t *testing.T) {
				c02fStoreCase(t, w, caseID, cs, 30, 300, stats)
			})
		}
	}

	keys := make([]string, 0, len(stats))
	for k := range stats {
		keys = append(keys, k)
	}
	sort.Strings(keys)
	for _, k := range keys {
		fmt.Fprintf(w, "HSTAT %s=%d\n", k, stats[k])
	}
}
