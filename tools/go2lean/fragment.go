package main

// Fragments: a guard, a computed local or the decision of a `switch` INSIDE a large, impure Go
// function is regenerated as a Lean definition of its own.  The free variables of the fragment
// (scalar field paths of the enclosing function's parameters / receiver and of its locals, and
// scalar locals) become the parameters; everything else must be bound as usual.  What is tied is
// the arithmetic and the comparisons of the fragment as the code states them now - not where the
// enclosing function uses the result (that stays with the behavioural correspondence).

import (
	"fmt"
	"go/ast"
	"go/token"
	"go/types"
	"sort"
	"strings"
)

// FragmentSpec selects exactly one node of the enclosing function's body.
//
//	{"assign": "x"}             the right-hand side of the assignment / definition of the local x
//	{"cond": ["a", "b"]}        the `if` / tagless-`case` / `for` condition whose printed form contains all the strings
//	{"switch": ["a", "b"]}      the `switch` statement whose printed case expressions contain all the strings;
//	                            the value is the source index of the clause that is taken
//	{"return": ["a"]}           the (single) result expression of the `return` statement whose printed form contains all the strings
//
// Matching is modulo white space.  "nth" (0-based, source order) picks one of several matches; without it
// the match must be unique.  No match, or an ambiguous one, is a hard error.
type FragmentSpec struct {
	Assign string   `json:"assign"`
	Cond   []string `json:"cond"`
	Switch []string `json:"switch"`
	Return []string `json:"return"`
	Nth    *int     `json:"nth"`
	// Marks (switch fragments only): an additional definition `<lean_name>_marks` maps the index of a clause
	// to the (sorted) indices of the listed strings that occur in the printed body of that clause - a coarse,
	// regenerated record of what each clause does (which list it appends to, which error it returns).
	Marks []string `json:"marks"`
}

func containsAll(printed string, subs []string) bool {
	p := nows(printed)
	for _, s := range subs {
		if !strings.Contains(p, nows(s)) {
			return false
		}
	}
	return true
}

func (t *tr) pick(what string, cands []ast.Node, nth *int) ast.Node {
	if nth != nil {
		if *nth < 0 || *nth >= len(cands) {
			t.fail(nil, "fragment %s: nth=%d but %d candidates match", what, *nth, len(cands))
		}
		return cands[*nth]
	}
	if len(cands) == 0 {
		t.fail(nil, "fragment %s: nothing in the function matches", what)
	}
	if len(cands) > 1 {
		var ps []string
		for _, c := range cands {
			ps = append(ps, "`"+t.src(c)+"`")
		}
		t.fail(nil, "fragment %s: ambiguous, %d candidates match (%s); refine the strings or set nth", what, len(cands), strings.Join(ps, ", "))
	}
	return cands[0]
}

// translateFragment produces the body lines and the Lean result type of a fragment definition.
func (t *tr) translateFragment(fs *FragmentSpec, e *env) (lines []string, resTy string, desc string) {
	body := t.fi.decl.Body
	n := 0
	if fs.Assign != "" {
		n++
	}
	if len(fs.Cond) > 0 {
		n++
	}
	if len(fs.Switch) > 0 {
		n++
	}
	if len(fs.Return) > 0 {
		n++
	}
	if n != 1 {
		t.fail(nil, "fragment: exactly one of assign / cond / switch / return must be given")
	}
	if len(fs.Marks) > 0 && len(fs.Switch) == 0 {
		t.fail(nil, "fragment: marks are only supported for switch fragments")
	}
	var target ast.Node
	switch {
	case fs.Assign != "":
		var cands []ast.Node
		ast.Inspect(body, func(n ast.Node) bool {
			switch s := n.(type) {
			case *ast.AssignStmt:
				if len(s.Lhs) == len(s.Rhs) && (s.Tok == token.DEFINE || s.Tok == token.ASSIGN) {
					for i, l := range s.Lhs {
						if id, ok := l.(*ast.Ident); ok && id.Name == fs.Assign {
							cands = append(cands, s.Rhs[i])
						}
					}
				}
			case *ast.ValueSpec:
				for i, id := range s.Names {
					if id.Name == fs.Assign && i < len(s.Values) && len(s.Names) == len(s.Values) {
						cands = append(cands, s.Values[i])
					}
				}
			}
			return true
		})
		target = t.pick("assign "+fs.Assign, cands, fs.Nth)
		desc = "value assigned to `" + fs.Assign + "`"
	case len(fs.Cond) > 0:
		var cands []ast.Node
		ast.Inspect(body, func(n ast.Node) bool {
			switch s := n.(type) {
			case *ast.IfStmt:
				if containsAll(t.src(s.Cond), fs.Cond) {
					cands = append(cands, s.Cond)
				}
			case *ast.ForStmt:
				if s.Cond != nil && containsAll(t.src(s.Cond), fs.Cond) {
					cands = append(cands, s.Cond)
				}
			case *ast.SwitchStmt:
				if s.Tag == nil {
					for _, c := range s.Body.List {
						for _, x := range c.(*ast.CaseClause).List {
							if containsAll(t.src(x), fs.Cond) {
								cands = append(cands, x)
							}
						}
					}
				}
			}
			return true
		})
		target = t.pick("cond "+strings.Join(fs.Cond, " & "), cands, fs.Nth)
		desc = "condition"
	case len(fs.Return) > 0:
		var cands []ast.Node
		ast.Inspect(body, func(n ast.Node) bool {
			if s, ok := n.(*ast.ReturnStmt); ok && len(s.Results) == 1 && containsAll(t.src(s.Results[0]), fs.Return) {
				cands = append(cands, s.Results[0])
			}
			return true
		})
		target = t.pick("return "+strings.Join(fs.Return, " & "), cands, fs.Nth)
		desc = "returned value"
	default:
		var cands []ast.Node
		ast.Inspect(body, func(n ast.Node) bool {
			if s, ok := n.(*ast.SwitchStmt); ok && s.Init == nil {
				var ps []string
				if s.Tag != nil {
					ps = append(ps, t.src(s.Tag))
				}
				for _, c := range s.Body.List {
					for _, x := range c.(*ast.CaseClause).List {
						ps = append(ps, t.src(x))
					}
				}
				if containsAll(strings.Join(ps, " ; "), fs.Switch) {
					cands = append(cands, s)
				}
			}
			return true
		})
		target = t.pick("switch "+strings.Join(fs.Switch, " & "), cands, fs.Nth)
		desc = "index of the clause taken by the `switch`"
	}

	// free locals of the fragment become roots, sorted by name (so that commuting operands keeps the signature)
	type loc struct {
		name string
		v    *types.Var
	}
	var locs []loc
	seen := map[*types.Var]bool{}
	byName := map[string]*types.Var{}
	var scan []ast.Node
	if sw, ok := target.(*ast.SwitchStmt); ok {
		// only the tag and the case expressions are translated, not the clause bodies
		if sw.Tag != nil {
			scan = append(scan, sw.Tag)
		}
		for _, c := range sw.Body.List {
			for _, x := range c.(*ast.CaseClause).List {
				scan = append(scan, x)
			}
		}
	} else {
		scan = []ast.Node{target}
	}
	visit := func(n ast.Node) bool {
		id, ok := n.(*ast.Ident)
		if !ok {
			return true
		}
		v, ok := t.info.Uses[id].(*types.Var)
		if !ok || v.IsField() || v.Pkg() == nil || v.Parent() == v.Pkg().Scope() || seen[v] {
			return true
		}
		if _, isRoot := t.rootIdx[v]; isRoot {
			return true
		}
		seen[v] = true
		if o, dup := byName[v.Name()]; dup && o != v {
			t.fail(id, "fragment reads two different locals named %s", v.Name())
		}
		byName[v.Name()] = v
		locs = append(locs, loc{v.Name(), v})
		return true
	}
	for _, n := range scan {
		ast.Inspect(n, visit)
	}
	sort.Slice(locs, func(i, j int) bool { return locs[i].name < locs[j].name })
	for _, l := range locs {
		for _, r := range t.fi.roots {
			if r.Name() == l.name {
				t.fail(nil, "fragment local %s shadows a parameter of the same name", l.name)
			}
		}
		t.rootIdx[l.v] = len(t.fi.roots)
		t.fi.roots = append(t.fi.roots, l.v)
		t.fi.usedNames[l.name] = l.v
	}

	if sw, ok := target.(*ast.SwitchStmt); ok {
		tag := ""
		if sw.Tag != nil {
			t.kindOfExpr(sw.Tag)
			tag = t.expr(sw.Tag, e)
		}
		deflt := -1
		var out []string
		for i, cs := range sw.Body.List {
			cc := cs.(*ast.CaseClause)
			for _, s := range cc.Body {
				if b, ok := s.(*ast.BranchStmt); ok && b.Tok == token.FALLTHROUGH {
					t.fail(s, "fallthrough is not supported")
				}
			}
			if cc.List == nil {
				deflt = i
				continue
			}
			var cs []string
			for _, x := range cc.List {
				if sw.Tag != nil {
					cs = append(cs, "("+tag+" = "+t.expr(x, e)+")")
				} else {
					cs = append(cs, t.prop(x, e))
				}
			}
			c := strings.Join(cs, " ∨ ")
			if len(cs) == 1 {
				c = strip(c)
			}
			out = append(out, fmt.Sprintf("if %s then %d else", c, i))
		}
		if deflt < 0 {
			deflt = len(sw.Body.List) // no clause taken
		}
		if len(fs.Marks) > 0 {
			var arms []string
			for i, cs := range sw.Body.List {
				var ps []string
				for _, s := range cs.(*ast.CaseClause).Body {
					ps = append(ps, t.src(s))
				}
				body := nows(strings.Join(ps, " ; "))
				var hit []string
				for j, m := range fs.Marks {
					if strings.Contains(body, nows(m)) {
						hit = append(hit, fmt.Sprintf("%d", j))
					}
				}
				arms = append(arms, fmt.Sprintf("if clause = %d then [%s] else", i, strings.Join(hit, ", ")))
			}
			var ms []string
			for j, m := range fs.Marks {
				ms = append(ms, fmt.Sprintf("%d = `%s`", j, strings.Join(strings.Fields(m), " ")))
			}
			t.fi.aux = append(t.fi.aux,
				fmt.Sprintf("/-- which of the marked statements occur in the body of each clause of that `switch` (%s). -/", strings.Join(ms, ", ")),
				fmt.Sprintf("def %s_marks (clause : Int) : List Int :=", t.fi.leanName))
			t.fi.aux = append(t.fi.aux, indent(append(arms, "[]"), 1)...)
			t.fi.aux = append(t.fi.aux, "")
		}
		out = append(out, fmt.Sprintf("%d", deflt))
		lines, resTy = out, "Int"
	} else {
		x := target.(ast.Expr)
		k := t.kindOfExpr(x)
		if k.isBool {
			lines, resTy = []string{"decide " + t.prop(x, e)}, "Bool"
		} else {
			lines, resTy = []string{strip(t.expr(x, e))}, "Int"
		}
	}
	if len(t.guards) != 0 {
		t.fail(target, "possibly-panicking division in a fragment")
	}
	return lines, resTy, desc
}
