// go2lean regenerates Lean 4 definitions from the current Go source of a
// whitelist of pure integer / boolean functions (see README.md).
//
//	go2lean -repo <repo root> -spec <spec.json> -out <file.lean>
package main

import (
	"encoding/json"
	"flag"
	"fmt"
	"os"
	"path/filepath"
	"runtime"
	"strings"
)

// Binding replaces one Go expression (matched by its printed form) by a fresh
// Lean parameter.  Every binding is a modelling decision in the trusted base.
type Binding struct {
	Expr  string `json:"expr"`
	Param string `json:"param"`
	Type  string `json:"type"` // optional Go basic type name when go/types cannot tell
	Note  string `json:"note"`
}

type FuncSpec struct {
	File       string               `json:"file"`
	Func       string               `json:"func"`
	Recv       *string              `json:"recv"`
	LeanName   string               `json:"lean_name"`
	Bindings   []Binding            `json:"bindings"`
	Erase      []string             `json:"erase"`       // callee expressions of erasable call statements
	EraseStmts []string             `json:"erase_stmts"` // whole statements (printed form) erased
	ErrorNames map[string]string    `json:"error_names"` // error literal (prefix) -> constructor name
	RangeElems map[string][]Binding `json:"range_elems"` // ranged slice expr -> what is read from each element
	Note       string               `json:"note"`
	Fragment   *FragmentSpec        `json:"fragment"` // translate one guard / local / switch of the function instead of the whole body (fragment.go)
}

type ConstSpec struct {
	File     string `json:"file"`
	Name     string `json:"name"`
	LeanName string `json:"lean_name"`
}

type Spec struct {
	Module       string            `json:"module"`
	TypedImports []string          `json:"typed_imports"`
	NamedTypes   map[string]string `json:"named_types"` // "pkgpath.Name" -> expected underlying basic type (verified)
	ConstVars    []string          `json:"const_vars"`  // package-level vars with constant initialiser, treated as constants
	Consts       []ConstSpec       `json:"consts"`
	Functions    []FuncSpec        `json:"functions"`
}

func fatalf(format string, a ...interface{}) {
	fmt.Fprintf(os.Stderr, "go2lean: "+format+"\n", a...)
	os.Exit(1)
}

func defaultModCache() string {
	if v := os.Getenv("GOMODCACHE"); v != "" {
		return v
	}
	if v := os.Getenv("GOPATH"); v != "" {
		return filepath.Join(strings.Split(v, string(os.PathListSeparator))[0], "pkg", "mod")
	}
	h, _ := os.UserHomeDir()
	return filepath.Join(h, "go", "pkg", "mod")
}

func main() {
	repo := flag.String("repo", "", "root of the Go repository under translation")
	specPath := flag.String("spec", "", "spec JSON")
	out := flag.String("out", "", "output .lean file")
	modcache := flag.String("modcache", defaultModCache(), "Go module cache (for dependency type declarations)")
	goroot := flag.String("goroot", runtime.GOROOT(), "GOROOT (for standard-library constants)")
	flag.Parse()
	if *repo == "" || *specPath == "" || *out == "" {
		fatalf("usage: go2lean -repo <repo root> -spec <spec.json> -out <file.lean>")
	}
	raw, err := os.ReadFile(*specPath)
	if err != nil {
		fatalf("%v", err)
	}
	var spec Spec
	dec := json.NewDecoder(strings.NewReader(string(raw)))
	dec.DisallowUnknownFields()
	if err := dec.Decode(&spec); err != nil {
		fatalf("spec %s: %v", *specPath, err)
	}
	text, err := generate(*repo, *modcache, *goroot, &spec)
	if err != nil {
		fatalf("%v", err)
	}
	if err := os.MkdirAll(filepath.Dir(*out), 0o755); err != nil {
		fatalf("%v", err)
	}
	if err := os.WriteFile(*out, []byte(text), 0o644); err != nil {
		fatalf("%v", err)
	}
}
