#!/usr/bin/env bash
# Rebuilds go2lean and regenerates lean/LndModel/Gen/CXX.lean for every spec/CXX.json.
#   usage: regen.sh [repo root (default /repo, or $VERIF_REPO)] [output dir (default <verif>/lean/LndModel/Gen)]
set -euo pipefail
here="$(cd "$(dirname "${BASH_SOURCE[0]}")" && pwd)"
repo="${1:-${VERIF_REPO:-/repo}}"
out="${2:-$here/../../lean/LndModel/Gen}"
bin="${GO2LEAN_BIN:-$here/../../build/go2lean}"
mkdir -p "$(dirname "$bin")" "$out"
(cd "$here" && GOFLAGS=-mod=mod GOPROXY=off go build -o "$bin" .)
for spec in "$here"/spec/C*.json; do
  name="$(basename "$spec" .json)"
  "$bin" -repo "$repo" -spec "$spec" -out "$out/$name.lean"
done
