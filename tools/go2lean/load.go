package main

// Package loading: a hand-rolled, offline source importer on top of go/types.
//
// Only the packages that contain whitelisted functions ("target" packages) and
// the packages listed in the spec's "typed_imports" are parsed and type-checked
// from source (imports of imports are resolved by the same rule).  Every other
// import is replaced by an empty fake package; the resulting type errors are
// ignored.  The translator refuses any expression whose type go/types could
// not determine, so a missing typed import surfaces as a hard error naming the
// expression, never as a silently wrong translation.

import (
	"bufio"
	"fmt"
	"go/ast"
	"go/build"
	"go/parser"
	"go/token"
	"go/types"
	"os"
	"path/filepath"
	"sort"
	"strings"
)

type loadedPkg struct {
	path  string
	dir   string
	files []*ast.File
	info  *types.Info
	pkg   *types.Package
}

type replacement struct {
	path    string // new module path or local dir
	version string // empty for local dirs
}

type loader struct {
	repo     string
	modcache string
	goroot   string
	modPath  string
	reqs     map[string]string
	repl     map[string]replacement
	typed    map[string]bool // import paths loaded from source (declarations only)
	targets  map[string]bool // import paths loaded with function bodies
	fset     *token.FileSet
	pkgs     map[string]*types.Package
	loaded   map[string]*loadedPkg
	loading  map[string]bool
}

func newLoader(repo, modcache, goroot string) (*loader, error) {
	l := &loader{
		repo: repo, modcache: modcache, goroot: goroot,
		reqs: map[string]string{}, repl: map[string]replacement{},
		typed: map[string]bool{}, targets: map[string]bool{},
		fset: token.NewFileSet(), pkgs: map[string]*types.Package{},
		loaded: map[string]*loadedPkg{}, loading: map[string]bool{},
	}
	if err := l.parseGoMod(filepath.Join(repo, "go.mod")); err != nil {
		return nil, err
	}
	return l, nil
}

// parseGoMod reads module / require / replace directives (no external deps).
func (l *loader) parseGoMod(path string) error {
	f, err := os.Open(path)
	if err != nil {
		return err
	}
	defer f.Close()
	sc := bufio.NewScanner(f)
	block := ""
	for sc.Scan() {
		line := sc.Text()
		if i := strings.Index(line, "//"); i >= 0 {
			line = line[:i]
		}
		line = strings.TrimSpace(line)
		if line == "" {
			continue
		}
		if block != "" {
			if line == ")" {
				block = ""
				continue
			}
			l.goModDirective(block, strings.Fields(line))
			continue
		}
		fs := strings.Fields(line)
		if len(fs) >= 2 && fs[1] == "(" {
			block = fs[0]
			continue
		}
		l.goModDirective(fs[0], fs[1:])
	}
	if l.modPath == "" {
		return fmt.Errorf("%s: no module directive", path)
	}
	return sc.Err()
}

func (l *loader) goModDirective(kind string, fs []string) {
	switch kind {
	case "module":
		if len(fs) >= 1 {
			l.modPath = strings.Trim(fs[0], "\"")
		}
	case "require":
		if len(fs) >= 2 {
			l.reqs[fs[0]] = fs[1]
		}
	case "replace":
		// old [v] => new [v]
		for i, f := range fs {
			if f == "=>" && i >= 1 && i+1 < len(fs) {
				r := replacement{path: fs[i+1]}
				if i+2 < len(fs) {
					r.version = fs[i+2]
				}
				l.repl[fs[0]] = r
			}
		}
	}
}

func escapeModPath(p string) string {
	var b strings.Builder
	for _, r := range p {
		if r >= 'A' && r <= 'Z' {
			b.WriteByte('!')
			b.WriteRune(r + 'a' - 'A')
		} else {
			b.WriteRune(r)
		}
	}
	return b.String()
}

// resolveDir maps an import path to a source directory.
func (l *loader) resolveDir(path string) (string, error) {
	first := path
	if i := strings.Index(path, "/"); i >= 0 {
		first = path[:i]
	}
	if !strings.Contains(first, ".") {
		return filepath.Join(l.goroot, "src", filepath.FromSlash(path)), nil
	}
	// longest matching module among main module and requirements
	best := ""
	if path == l.modPath || strings.HasPrefix(path, l.modPath+"/") {
		best = l.modPath
	}
	for m := range l.reqs {
		if (path == m || strings.HasPrefix(path, m+"/")) && len(m) > len(best) {
			best = m
		}
	}
	if best == "" {
		return "", fmt.Errorf("import %q: no module in go.mod provides it", path)
	}
	rel := strings.TrimPrefix(strings.TrimPrefix(path, best), "/")
	if best == l.modPath {
		return filepath.Join(l.repo, filepath.FromSlash(rel)), nil
	}
	mod, ver := best, l.reqs[best]
	if r, ok := l.repl[best]; ok {
		if r.version == "" {
			d := r.path
			if !filepath.IsAbs(d) {
				d = filepath.Join(l.repo, d)
			}
			return filepath.Join(d, filepath.FromSlash(rel)), nil
		}
		mod, ver = r.path, r.version
	}
	return filepath.Join(l.modcache, filepath.FromSlash(escapeModPath(mod))+"@"+ver, filepath.FromSlash(rel)), nil
}

func fakeName(path string) string {
	parts := strings.Split(path, "/")
	n := parts[len(parts)-1]
	if len(parts) > 1 && len(n) >= 2 && n[0] == 'v' && strings.Trim(n[1:], "0123456789") == "" {
		n = parts[len(parts)-2]
	}
	n = strings.ReplaceAll(n, "-", "_")
	n = strings.ReplaceAll(n, ".", "_")
	return n
}

// Import implements types.Importer.
func (l *loader) Import(path string) (*types.Package, error) {
	if path == "unsafe" {
		return types.Unsafe, nil
	}
	if p, ok := l.pkgs[path]; ok {
		return p, nil
	}
	if !(l.typed[path] || l.targets[path]) || l.loading[path] {
		p := types.NewPackage(path, fakeName(path))
		p.MarkComplete()
		if !l.loading[path] {
			l.pkgs[path] = p
		}
		return p, nil
	}
	lp, err := l.load(path)
	if err != nil {
		return nil, err
	}
	return lp.pkg, nil
}

func (l *loader) load(path string) (*loadedPkg, error) {
	if lp, ok := l.loaded[path]; ok {
		return lp, nil
	}
	dir, err := l.resolveDir(path)
	if err != nil {
		return nil, err
	}
	ents, err := os.ReadDir(dir)
	if err != nil {
		return nil, fmt.Errorf("import %q: %v", path, err)
	}
	ctx := build.Default
	ctx.CgoEnabled = false
	var names []string
	for _, e := range ents {
		n := e.Name()
		if e.IsDir() || !strings.HasSuffix(n, ".go") || strings.HasSuffix(n, "_test.go") {
			continue
		}
		ok, err := ctx.MatchFile(dir, n)
		if err != nil || !ok {
			continue
		}
		names = append(names, n)
	}
	sort.Strings(names)
	var files []*ast.File
	for _, n := range names {
		f, err := parser.ParseFile(l.fset, filepath.Join(dir, n), nil, parser.SkipObjectResolution)
		if err != nil {
			if l.targets[path] {
				return nil, fmt.Errorf("parse %s/%s: %v", path, n, err)
			}
			if f == nil {
				continue
			}
		}
		files = append(files, f)
	}
	if len(files) == 0 {
		return nil, fmt.Errorf("import %q: no Go files in its directory", path)
	}
	info := &types.Info{
		Types:      map[ast.Expr]types.TypeAndValue{},
		Defs:       map[*ast.Ident]types.Object{},
		Uses:       map[*ast.Ident]types.Object{},
		Selections: map[*ast.SelectorExpr]*types.Selection{},
	}
	conf := types.Config{
		Importer:         l,
		Error:            func(error) {},
		IgnoreFuncBodies: !l.targets[path],
		FakeImportC:      true,
	}
	l.loading[path] = true
	pkg, _ := conf.Check(path, l.fset, files, info)
	delete(l.loading, path)
	if pkg == nil {
		return nil, fmt.Errorf("import %q: type check produced no package", path)
	}
	lp := &loadedPkg{path: path, dir: dir, files: files, info: info, pkg: pkg}
	l.loaded[path] = lp
	l.pkgs[path] = pkg
	return lp, nil
}

// importPathOfFile maps a repo-relative file path to its package import path.
func (l *loader) importPathOfFile(rel string) string {
	d := filepath.ToSlash(filepath.Dir(rel))
	if d == "." {
		return l.modPath
	}
	// a directory inside a replaced local module belongs to that module
	for m, r := range l.repl {
		if r.version != "" {
			continue
		}
		ld := strings.TrimPrefix(filepath.ToSlash(r.path), "./")
		if d == ld || strings.HasPrefix(d, ld+"/") {
			return m + strings.TrimPrefix(d, ld)
		}
	}
	return l.modPath + "/" + d
}
