package main

import (
	"bytes"
	"fmt"
	"go/ast"
	"go/constant"
	"go/printer"
	"go/token"
	"go/types"
	"math/big"
	"sort"
	"strconv"
	"strings"
)

type trErr struct{ msg string }

type tr struct {
	g         *gen
	fi        *fnInfo
	info      *types.Info
	rootIdx   map[*types.Var]int
	canPanic  bool
	guards    []string // pending "divisor = 0" guards of the statement being translated
	inLoop    *loopCtx
	litRet    bool              // translating the body of an immediately-invoked func literal
	rangeBind map[string]string // element reads of the enclosing range loops -> Lean local
}

type loopCtx struct {
	brk  func(e *env) []string
	cont func(e *env) []string
}

type env struct {
	names    map[types.Object]string
	kinds    map[string]kind
	order    []string
	assigned map[string]bool // field variables assigned so far on this path
}

func (e *env) clone() *env {
	n := &env{names: map[types.Object]string{}, kinds: map[string]kind{}, assigned: map[string]bool{}}
	for k, v := range e.names {
		n.names[k] = v
	}
	for k, v := range e.kinds {
		n.kinds[k] = v
	}
	for k, v := range e.assigned {
		n.assigned[k] = v
	}
	n.order = append([]string(nil), e.order...)
	return n
}

type cont func(e *env) []string

func (t *tr) fail(n ast.Node, format string, a ...interface{}) {
	where := ""
	if n != nil {
		where = " in `" + t.src(n) + "`"
	}
	panic(trErr{fmt.Sprintf(format, a...) + where})
}

func (t *tr) src(n ast.Node) string {
	var b bytes.Buffer
	printer.Fprint(&b, token.NewFileSet(), n)
	return strings.Join(strings.Fields(b.String()), " ")
}

var leanReserved = map[string]bool{"at": true, "from": true, "fun": true, "end": true, "open": true, "in": true,
	"then": true, "else": true, "do": true, "have": true, "show": true, "with": true, "match": true, "let": true,
	"if": true, "by": true, "Type": true, "Prop": true, "local": true, "instance": true, "where": true,
	"deriving": true, "mut": true, "for": true, "return": true, "def": true, "theorem": true, "structure": true,
	"namespace": true, "section": true, "variable": true, "universe": true, "import": true, "export": true,
	"using": true, "calc": true, "suffices": true, "obtain": true, "fuel": true, "Int": true, "Nat": true,
	"Bool": true, "rest": true, "some": true, "none": true, "true": true, "false": true, "max": true, "min": true, "id": true}

func (t *tr) freshName(base string, obj types.Object) string {
	n := base
	if leanReserved[n] || n == "_" {
		n = base + "_"
	}
	for i := 1; ; i++ {
		o, used := t.fi.usedNames[n]
		if !used || o == obj {
			break
		}
		n = fmt.Sprintf("%s_%d", base, i)
	}
	t.fi.usedNames[n] = obj
	return n
}

// ---------------------------------------------------------------------------

func (g *gen) translate(fi *fnInfo) (err error) {
	t := &tr{g: g, fi: fi, info: fi.lp.info, rootIdx: map[*types.Var]int{}}
	defer func() {
		if r := recover(); r != nil {
			if te, ok := r.(trErr); ok {
				err = fmt.Errorf("%s", te.msg)
				return
			}
			panic(r)
		}
	}()
	sig := fi.obj.Type().(*types.Signature)
	e := &env{names: map[types.Object]string{}, kinds: map[string]kind{}, assigned: map[string]bool{}}
	addRoot := func(v *types.Var) {
		t.rootIdx[v] = len(fi.roots)
		fi.roots = append(fi.roots, v)
		if v.Name() != "" && v.Name() != "_" {
			fi.usedNames[v.Name()] = v
		}
	}
	if sig.Recv() != nil {
		// the receiver object used in the body is the one in Defs
		if len(fi.decl.Recv.List[0].Names) == 1 {
			if v, ok := t.info.Defs[fi.decl.Recv.List[0].Names[0]].(*types.Var); ok {
				addRoot(v)
			}
		} else {
			addRoot(sig.Recv())
		}
	}
	for _, f := range fi.decl.Type.Params.List {
		if len(f.Names) == 0 {
			addRoot(types.NewVar(token.NoPos, fi.lp.pkg, "_", t.info.Types[f.Type].Type))
		}
		for _, n := range f.Names {
			v, ok := t.info.Defs[n].(*types.Var)
			if !ok {
				v = types.NewVar(token.NoPos, fi.lp.pkg, "_", t.info.Types[f.Type].Type)
			}
			addRoot(v)
		}
	}
	var lines []string
	fragTy, fragDesc := "", ""
	if fi.spec.Fragment != nil {
		lines, fragTy, fragDesc = t.translateFragment(fi.spec.Fragment, e)
	} else {
		res := sig.Results()
		for i := 0; i < res.Len(); i++ {
			rt := res.At(i).Type()
			if res.At(i).Name() != "" && res.At(i).Name() != "_" {
				t.fail(nil, "named results are not supported")
			}
			if isErrorType(rt) {
				if i != res.Len()-1 {
					t.fail(nil, "error result must be last")
				}
				fi.hasErr = true
				continue
			}
			k, ok := kindOf(rt)
			if !ok {
				t.fail(nil, "unsupported result type %s", rt)
			}
			fi.results = append(fi.results, k)
		}
		t.prescan(fi.decl.Body)
		final := func(e *env) []string {
			if len(fi.results) > 0 || fi.hasErr {
				t.fail(nil, "control reaches the end of the function without a return")
			}
			return t.ret(nil, nil, e)
		}
		lines = t.stmts(fi.decl.Body.List, e, final)
	}

	// parameters: Go signature order, then struct field order; bindings last in spec order
	sort.SliceStable(fi.params, func(i, j int) bool {
		a, b := fi.params[i].origin, fi.params[j].origin
		if a.isBinding != b.isBinding {
			return !a.isBinding
		}
		if a.isBinding {
			return false
		}
		if a.rootIdx != b.rootIdx {
			return a.rootIdx < b.rootIdx
		}
		for k := 0; k < len(a.index) && k < len(b.index); k++ {
			if a.index[k] != b.index[k] {
				return a.index[k] < b.index[k]
			}
		}
		return len(a.index) < len(b.index)
	})
	var decl, args []string
	for _, p := range fi.params {
		ty := p.k.lean()
		if p.typ != "" {
			ty = p.typ
		}
		decl = append(decl, fmt.Sprintf("(%s : %s)", p.name, ty))
		args = append(args, p.name)
	}
	pd, pa := strings.Join(decl, " "), strings.Join(args, " ")
	fix := func(ls []string) []string {
		out := make([]string, len(ls))
		for i, l := range ls {
			l = strings.ReplaceAll(l, " @@PD@@", sp(pd))
			l = strings.ReplaceAll(l, " @@PA@@", sp(pa))
			out[i] = l
		}
		return out
	}
	fi.aux = fix(fi.aux)
	recv := ""
	if fi.spec.Recv != nil {
		recv = "(" + *fi.spec.Recv + ")."
	}
	resTy, what := t.resultType(), ""
	if fi.spec.Fragment != nil {
		resTy, what = fragTy, ": "+fragDesc
	}
	hdr := []string{fmt.Sprintf("/-- Go `%s%s` (%s)%s. -/", recv, fi.spec.Func, fi.spec.File, what),
		fmt.Sprintf("def %s%s : %s :=", fi.leanName, sp(pd), resTy)}
	fi.body = append(hdr, indent(fix(lines), 1)...)
	fi.panics = t.canPanic
	return nil
}

func sp(s string) string {
	if s == "" {
		return ""
	}
	return " " + s
}

func indent(ls []string, n int) []string {
	p := strings.Repeat("  ", n)
	out := make([]string, len(ls))
	for i, l := range ls {
		out[i] = p + l
	}
	return out
}

func isErrorType(t types.Type) bool {
	n, ok := t.(*types.Named)
	return ok && n.Obj().Pkg() == nil && n.Obj().Name() == "error"
}

func (t *tr) resultType() string {
	var ks []string
	for _, k := range t.fi.results {
		ks = append(ks, k.lean())
	}
	for _, o := range t.fi.outputs {
		ks = append(ks, o.k.lean())
	}
	ty := "Unit"
	if len(ks) > 0 {
		ty = strings.Join(ks, " × ")
	}
	if t.fi.hasErr {
		if len(ks) > 1 {
			ty = "(" + ty + ")"
		}
		ty = "Except Err " + ty
	}
	if t.canPanic {
		if t.fi.hasErr || len(ks) > 1 {
			ty = "(" + ty + ")"
		}
		ty = "Option " + ty
	}
	return ty
}

// prescan finds the assigned field variables (outputs) and whether the function can panic.
func (t *tr) prescan(body *ast.BlockStmt) {
	var outs []*leanParam
	addOut := func(lhs ast.Expr) {
		root, names, index, ok := t.pathOf(lhs)
		if !ok || len(names) == 0 {
			return
		}
		k, ok := kindOf(t.info.Types[lhs].Type)
		if !ok {
			t.fail(lhs, "assignment to a non-scalar field")
		}
		key := t.pathKey(root, names)
		if t.fi.outKeys[key] {
			return
		}
		t.fi.outKeys[key] = true
		outs = append(outs, &leanParam{name: t.pathLeanName(root, names), k: k,
			origin: paramOrigin{rootIdx: root, names: names, index: index}})
	}
	ast.Inspect(body, func(n ast.Node) bool {
		switch s := n.(type) {
		case *ast.AssignStmt:
			if s.Tok != token.DEFINE {
				for _, l := range s.Lhs {
					addOut(l)
				}
			}
		case *ast.IncDecStmt:
			addOut(s.X)
		case *ast.BinaryExpr:
			if s.Op == token.QUO || s.Op == token.REM {
				if _, isInt := kindOf(t.info.Types[s].Type); isInt && t.info.Types[s].Value == nil &&
					t.info.Types[s.Y].Value == nil && t.bindingFor(s) == nil {
					t.canPanic = true
				}
			}
		case *ast.CallExpr:
			if id, ok := s.Fun.(*ast.Ident); ok && id.Name == "panic" {
				if _, isB := t.info.Uses[id].(*types.Builtin); isB {
					t.canPanic = true
				}
			}
			if b := t.bindingFor(s); b != nil {
				return false
			}
			// tail calls to mutating whitelisted callees contribute their outputs
			if callee, recv, _ := t.calleeOf(s); callee != nil && len(callee.outputs) > 0 {
				for _, o := range callee.outputs {
					var rootExpr ast.Expr
					if t.hasRecv(callee) && o.origin.rootIdx == 0 {
						rootExpr = recv
					} else {
						i := o.origin.rootIdx
						if t.hasRecv(callee) {
							i--
						}
						rootExpr = s.Args[i]
					}
					root, names, index, ok := t.pathOf(stripAddr(rootExpr))
					if !ok {
						t.fail(s, "mutating callee applied to a non-path argument")
					}
					names = append(append([]string(nil), names...), o.origin.names...)
					index = append(append([]int(nil), index...), o.origin.index...)
					key := t.pathKey(root, names)
					if !t.fi.outKeys[key] {
						t.fi.outKeys[key] = true
						outs = append(outs, &leanParam{name: t.pathLeanName(root, names), k: o.k,
							origin: paramOrigin{rootIdx: root, names: names, index: index}})
					}
				}
			}
		}
		return true
	})
	sort.SliceStable(outs, func(i, j int) bool {
		a, b := outs[i].origin, outs[j].origin
		if a.rootIdx != b.rootIdx {
			return a.rootIdx < b.rootIdx
		}
		for k := 0; k < len(a.index) && k < len(b.index); k++ {
			if a.index[k] != b.index[k] {
				return a.index[k] < b.index[k]
			}
		}
		return len(a.index) < len(b.index)
	})
	t.fi.outputs = outs
}

func stripAddr(e ast.Expr) ast.Expr {
	for {
		switch x := e.(type) {
		case *ast.ParenExpr:
			e = x.X
		case *ast.UnaryExpr:
			if x.Op != token.AND {
				return e
			}
			e = x.X
		default:
			return e
		}
	}
}

func (t *tr) hasRecv(fi *fnInfo) bool { return fi.decl.Recv != nil }

// ---------------------------------------------------------------------------
// paths rooted at a parameter

func (t *tr) pathOf(e ast.Expr) (root int, names []string, index []int, ok bool) {
	switch x := e.(type) {
	case *ast.Ident:
		if v, isVar := t.info.Uses[x].(*types.Var); isVar {
			if i, isRoot := t.rootIdx[v]; isRoot {
				return i, nil, nil, true
			}
		}
	case *ast.ParenExpr:
		return t.pathOf(x.X)
	case *ast.StarExpr:
		return t.pathOf(x.X)
	case *ast.SelectorExpr:
		sel := t.info.Selections[x]
		if sel == nil || sel.Kind() != types.FieldVal {
			return 0, nil, nil, false
		}
		r, ns, ix, ok := t.pathOf(x.X)
		if !ok {
			return 0, nil, nil, false
		}
		return r, append(append([]string(nil), ns...), x.Sel.Name), append(append([]int(nil), ix...), sel.Index()...), true
	case *ast.IndexExpr:
		v := t.info.Types[x.Index].Value
		if v == nil || v.Kind() != constant.Int {
			return 0, nil, nil, false
		}
		n, exact := constant.Int64Val(v)
		if !exact {
			return 0, nil, nil, false
		}
		r, ns, ix, ok := t.pathOf(x.X)
		if !ok {
			return 0, nil, nil, false
		}
		return r, append(append([]string(nil), ns...), strconv.FormatInt(n, 10)), append(append([]int(nil), ix...), int(n)), true
	}
	return 0, nil, nil, false
}

func (t *tr) pathKey(root int, names []string) string {
	return "p:" + strconv.Itoa(root) + "." + strings.Join(names, ".")
}

func (t *tr) pathLeanName(root int, names []string) string {
	n := t.fi.roots[root].Name()
	if len(names) > 0 {
		n += "_" + strings.Join(names, "_")
	}
	if leanReserved[n] {
		n += "_"
	}
	return n
}

// readPath returns the Lean name holding the current value of a parameter path,
// registering the parameter on first use.
func (t *tr) readPath(n ast.Node, root int, names []string, index []int, k kind, e *env) string {
	key := t.pathKey(root, names)
	name := t.pathLeanName(root, names)
	if p, ok := t.fi.byKey[key]; ok {
		return p.name
	}
	if o, used := t.fi.usedNames[name]; used && !(len(names) == 0 && o == types.Object(t.fi.roots[root])) {
		t.fail(n, "parameter name %s collides with a local of the same name", name)
	}
	t.fi.usedNames[name] = t.fi.roots[root]
	p := &leanParam{name: name, k: k, origin: paramOrigin{rootIdx: root, names: names, index: index}}
	t.fi.byKey[key] = p
	t.fi.params = append(t.fi.params, p)
	return name
}

func (t *tr) bindingFor(e ast.Expr) *Binding {
	if len(t.fi.spec.Bindings) == 0 {
		return nil
	}
	s := nows(types.ExprString(e))
	for i := range t.fi.spec.Bindings {
		if nows(t.fi.spec.Bindings[i].Expr) == s {
			return &t.fi.spec.Bindings[i]
		}
	}
	return nil
}

func (t *tr) bindParam(n ast.Node, key, name string, k kind) string {
	if p, ok := t.fi.byKey[key]; ok {
		return p.name
	}
	if _, used := t.fi.usedNames[name]; used {
		t.fail(n, "binding parameter name %s collides with another name", name)
	}
	t.fi.usedNames[name] = nil
	p := &leanParam{name: name, k: k, origin: paramOrigin{isBinding: true, bindExpr: key}}
	t.fi.byKey[key] = p
	t.fi.params = append(t.fi.params, p)
	return name
}

// ---------------------------------------------------------------------------
// expressions

func (t *tr) kindOfExpr(e ast.Expr) kind {
	tv, ok := t.info.Types[e]
	if !ok || tv.Type == nil {
		t.fail(e, "no type information (add the defining package to typed_imports, or bind the expression)")
	}
	k, ok := kindOf(tv.Type)
	if !ok {
		t.fail(e, "unsupported type %s (only fixed-width integers and bool; floats are out of scope)", tv.Type)
	}
	return k
}

func strip(s string) string {
	if len(s) < 2 || s[0] != '(' || s[len(s)-1] != ')' {
		return s
	}
	d := 0
	for i, c := range s {
		if c == '(' {
			d++
		} else if c == ')' {
			d--
			if d == 0 && i != len(s)-1 {
				return s
			}
		}
	}
	return s[1 : len(s)-1]
}

func pow2(n int64) string { return new(big.Int).Lsh(big.NewInt(1), uint(n)).String() }

// maskBits returns n if v = 2^n - 1 (n >= 1).
func maskBits(v constant.Value) (int, bool) {
	if v == nil || v.Kind() != constant.Int {
		return 0, false
	}
	b, ok := new(big.Int).SetString(v.ExactString(), 10)
	if !ok || b.Sign() <= 0 {
		return 0, false
	}
	b1 := new(big.Int).Add(b, big.NewInt(1))
	if new(big.Int).And(b1, b).Sign() != 0 {
		return 0, false
	}
	return b1.BitLen() - 1, true
}

func (t *tr) expr(x ast.Expr, e *env) string {
	if n, ok := t.rangeBind[nows(types.ExprString(x))]; ok {
		return n
	}
	tv := t.info.Types[x]
	if tv.Value != nil {
		if b := t.bindingFor(x); b == nil {
			s, err := constLit(tv.Value)
			if err != nil {
				t.fail(x, "%v", err)
			}
			return s
		}
	}
	if b := t.bindingFor(x); b != nil {
		var k kind
		if b.Type != "" {
			kk, ok := kindOfName(b.Type)
			if !ok {
				t.fail(x, "binding type %q is not a supported basic type", b.Type)
			}
			k = kk
			if tv.Type != nil && tv.Type != types.Typ[types.Invalid] {
				if k2, ok := kindOf(tv.Type); ok && k2 != k {
					t.fail(x, "binding type %s disagrees with the checked type %s", b.Type, tv.Type)
				}
			}
		} else {
			k = t.kindOfExpr(x)
		}
		return t.bindParam(x, "b:"+b.Expr, b.Param, k)
	}
	switch n := x.(type) {
	case *ast.ParenExpr:
		return t.expr(n.X, e)
	case *ast.Ident:
		obj := t.info.Uses[n]
		if obj == nil {
			t.fail(x, "unresolved identifier")
		}
		if name, ok := e.names[obj]; ok {
			return name
		}
		if v, ok := obj.(*types.Var); ok && v.Pkg() != nil && v.Parent() == v.Pkg().Scope() {
			for _, cv := range t.g.spec.ConstVars {
				if cv == v.Name() && v.Pkg() == t.fi.lp.pkg {
					if val := t.g.varInit(t.fi.lp, v); val != nil {
						s, err := constLit(val)
						if err != nil {
							t.fail(x, "%v", err)
						}
						return s
					}
					t.fail(x, "const_vars: %s has no constant initialiser or is assigned somewhere in its package", cv)
				}
			}
			t.fail(x, "read of the package-level variable %s (list it under const_vars if it is never assigned)", v.Name())
		}
	case *ast.UnaryExpr:
		k := t.kindOfExpr(x)
		switch n.Op {
		case token.NOT:
			return "(decide " + t.prop(x, e) + ")"
		case token.ADD:
			return t.expr(n.X, e)
		case token.SUB:
			return fmt.Sprintf("(%s (0 - %s))", k.wrapName(), t.expr(n.X, e))
		case token.XOR:
			if k.signed {
				return fmt.Sprintf("((-1) - %s)", t.expr(n.X, e))
			}
			return fmt.Sprintf("(%s - %s)", new(big.Int).Sub(new(big.Int).Lsh(big.NewInt(1), uint(k.bits)), big.NewInt(1)).String(), t.expr(n.X, e))
		}
		t.fail(x, "unsupported unary operator %s", n.Op)
	case *ast.BinaryExpr:
		return t.binary(n, e)
	case *ast.CallExpr:
		return t.call(n, e)
	}
	if root, names, index, ok := t.pathOf(x); ok {
		return t.readPath(x, root, names, index, t.kindOfExpr(x), e)
	}
	t.fail(x, "unsupported expression (%T)", x)
	return ""
}

func (t *tr) binary(n *ast.BinaryExpr, e *env) string {
	switch n.Op {
	case token.LAND, token.LOR, token.EQL, token.NEQ, token.LSS, token.LEQ, token.GTR, token.GEQ:
		return "(decide " + t.prop(n, e) + ")"
	}
	return t.arith(n, n.Op, t.kindOfExpr(n), n.X, n.Y, e)
}

// arith translates X op Y evaluated at kind k (the Go type of the result).
func (t *tr) arith(n ast.Node, op token.Token, k kind, X, Y ast.Expr, e *env) string {
	if k.isBool {
		t.fail(n, "unsupported boolean operator %s", op)
	}
	a := t.expr(X, e)
	switch op {
	case token.SHL, token.SHR:
		cv := t.info.Types[Y].Value
		if cv != nil {
			s, exact := constant.Int64Val(constant.ToInt(cv))
			if !exact || s < 0 || s > 4096 {
				t.fail(n, "unsupported shift count")
			}
			if op == token.SHL {
				return fmt.Sprintf("(%s (%s * %s))", k.wrapName(), a, pow2(s))
			}
			return fmt.Sprintf("(%s / %s)", a, pow2(s))
		}
		sk := t.kindOfExpr(Y)
		if sk.signed {
			t.fail(n, "shift count of signed type (would panic when negative)")
		}
		s := t.expr(Y, e)
		if op == token.SHL {
			return fmt.Sprintf("(%s (GoInt.shl %s %s))", k.wrapName(), a, s)
		}
		return fmt.Sprintf("(GoInt.shr %s %s)", a, s)
	}
	b := t.expr(Y, e)
	switch op {
	case token.ADD:
		return fmt.Sprintf("(%s (%s + %s))", k.wrapName(), a, b)
	case token.SUB:
		return fmt.Sprintf("(%s (%s - %s))", k.wrapName(), a, b)
	case token.MUL:
		return fmt.Sprintf("(%s (%s * %s))", k.wrapName(), a, b)
	case token.QUO, token.REM:
		cv := t.info.Types[Y].Value
		minusOne := false
		if cv != nil {
			if constant.Sign(cv) == 0 {
				t.fail(n, "division by the constant zero")
			}
			minusOne = constant.Compare(cv, token.EQL, constant.MakeInt64(-1))
		} else {
			t.guards = append(t.guards, strip(b)+" = 0")
		}
		if op == token.QUO {
			if !k.signed {
				return fmt.Sprintf("(%s / %s)", a, b)
			}
			if cv != nil && !minusOne {
				return fmt.Sprintf("(Int.tdiv %s %s)", a, b)
			}
			return fmt.Sprintf("(%s (Int.tdiv %s %s))", k.wrapName(), a, b)
		}
		if !k.signed {
			return fmt.Sprintf("(%s %% %s)", a, b)
		}
		return fmt.Sprintf("(Int.tmod %s %s)", a, b)
	case token.AND:
		if !k.signed {
			if m, ok := maskBits(t.info.Types[Y].Value); ok {
				return fmt.Sprintf("(%s %% %s)", a, pow2(int64(m)))
			}
			if m, ok := maskBits(t.info.Types[X].Value); ok {
				return fmt.Sprintf("(%s %% %s)", b, pow2(int64(m)))
			}
			return fmt.Sprintf("(GoInt.andU %s %s)", a, b)
		}
		return fmt.Sprintf("(GoInt.andI%d %s %s)", k.bits, a, b)
	case token.OR:
		if !k.signed {
			return fmt.Sprintf("(GoInt.orU %s %s)", a, b)
		}
		return fmt.Sprintf("(GoInt.orI%d %s %s)", k.bits, a, b)
	case token.XOR:
		if !k.signed {
			return fmt.Sprintf("(GoInt.xorU %s %s)", a, b)
		}
		return fmt.Sprintf("(GoInt.xorI%d %s %s)", k.bits, a, b)
	case token.AND_NOT:
		if !k.signed {
			return fmt.Sprintf("(GoInt.andNotU %s %s)", a, b)
		}
	}
	t.fail(n, "unsupported binary operator %s", op)
	return ""
}

// prop translates a boolean Go expression to a Lean proposition.
func (t *tr) prop(x ast.Expr, e *env) string {
	if n, ok := t.rangeBind[nows(types.ExprString(x))]; ok {
		return "(" + n + " = true)"
	}
	if b := t.bindingFor(x); b != nil {
		return "(" + t.expr(x, e) + " = true)"
	}
	if tv := t.info.Types[x]; tv.Value != nil && tv.Value.Kind() == constant.Bool && t.bindingFor(x) == nil {
		if constant.BoolVal(tv.Value) {
			return "True"
		}
		return "False"
	}
	switch n := x.(type) {
	case *ast.ParenExpr:
		return t.prop(n.X, e)
	case *ast.UnaryExpr:
		if n.Op == token.NOT {
			return "(¬ " + t.prop(n.X, e) + ")"
		}
	case *ast.BinaryExpr:
		if t.bindingFor(x) != nil {
			break
		}
		switch n.Op {
		case token.LAND, token.LOR:
			a := t.prop(n.X, e)
			g := len(t.guards)
			b := t.prop(n.Y, e)
			if len(t.guards) != g {
				t.fail(x, "possibly-panicking division under a short-circuit operator")
			}
			if n.Op == token.LAND {
				return "(" + a + " ∧ " + b + ")"
			}
			return "(" + a + " ∨ " + b + ")"
		case token.EQL, token.NEQ, token.LSS, token.LEQ, token.GTR, token.GEQ:
			kx, ky := t.kindOfExpr(n.X), t.kindOfExpr(n.Y)
			if kx.isBool != ky.isBool {
				t.fail(x, "comparison of mixed kinds")
			}
			op := map[token.Token]string{token.EQL: "=", token.NEQ: "≠", token.LSS: "<", token.LEQ: "≤",
				token.GTR: ">", token.GEQ: "≥"}[n.Op]
			return "(" + t.expr(n.X, e) + " " + op + " " + t.expr(n.Y, e) + ")"
		}
	}
	k := t.kindOfExpr(x)
	if !k.isBool {
		t.fail(x, "expected a boolean expression")
	}
	return "(" + t.expr(x, e) + " = true)"
}

// calleeOf resolves a call to a whitelisted, already translated function.
func (t *tr) calleeOf(c *ast.CallExpr) (fi *fnInfo, recv ast.Expr, name string) {
	var id *ast.Ident
	switch f := c.Fun.(type) {
	case *ast.Ident:
		id = f
	case *ast.SelectorExpr:
		id = f.Sel
		if sel := t.info.Selections[f]; sel != nil && sel.Kind() == types.MethodVal {
			recv = f.X
		}
	case *ast.ParenExpr:
		return nil, nil, ""
	}
	if id == nil {
		return nil, nil, ""
	}
	fn, ok := t.info.Uses[id].(*types.Func)
	if !ok {
		return nil, nil, id.Name
	}
	return t.g.fns[fn.FullName()], recv, fn.FullName()
}

func (t *tr) call(c *ast.CallExpr, e *env) string {
	// conversion
	if ftv, ok := t.info.Types[c.Fun]; ok && ftv.IsType() {
		if len(c.Args) != 1 {
			t.fail(c, "malformed conversion")
		}
		dst, ok := kindOf(ftv.Type)
		if !ok {
			t.fail(c, "conversion to unsupported type %s", ftv.Type)
		}
		src := t.kindOfExpr(c.Args[0])
		a := t.expr(c.Args[0], e)
		if dst.isBool || src.isBool {
			if dst.isBool && src.isBool {
				return a
			}
			t.fail(c, "conversion between bool and integer")
		}
		if dst.contains(src) {
			return a
		}
		return fmt.Sprintf("(%s %s)", dst.wrapName(), a)
	}
	if id, ok := c.Fun.(*ast.Ident); ok {
		if _, isB := t.info.Uses[id].(*types.Builtin); isB && (id.Name == "min" || id.Name == "max") && len(c.Args) == 2 {
			a, b := t.expr(c.Args[0], e), t.expr(c.Args[1], e)
			if id.Name == "min" {
				return fmt.Sprintf("(if %s ≤ %s then %s else %s)", a, b, a, b)
			}
			return fmt.Sprintf("(if %s ≤ %s then %s else %s)", a, b, b, a)
		}
	}
	// built-in: fn.Option[T].UnwrapOr(d) on a parameter path (the option is flattened to isSome/some)
	if sel, ok := c.Fun.(*ast.SelectorExpr); ok && sel.Sel.Name == "UnwrapOr" && len(c.Args) == 1 {
		if root, names, index, ok := t.pathOf(sel.X); ok && isFnOption(t.info.Types[sel.X].Type) {
			k := t.kindOfExpr(c)
			is := t.readPath(sel.X, root, append(append([]string(nil), names...), "isSome"),
				append(append([]int(nil), index...), 0), kind{isBool: true}, e)
			val := t.readPath(sel.X, root, append(append([]string(nil), names...), "some"),
				append(append([]int(nil), index...), 1), k, e)
			return fmt.Sprintf("(if %s = true then %s else %s)", is, val, t.expr(c.Args[0], e))
		}
	}
	callee, recv, name := t.calleeOf(c)
	if callee == nil {
		t.fail(c, "call to %s, which is neither whitelisted (earlier in the spec) nor bound", name)
	}
	if callee.hasErr || len(callee.outputs) > 0 || callee.canPanicFlag() || len(callee.results) != 1 {
		t.fail(c, "call to %s in expression position: callee has error / outputs / panic / multiple results", name)
	}
	return "(" + callee.leanName + sp(t.calleeArgs(c, callee, recv, e)) + ")"
}

func (fi *fnInfo) canPanicFlag() bool { return fi.panics }

func (t *tr) calleeArgs(c *ast.CallExpr, callee *fnInfo, recv ast.Expr, e *env) string {
	rootExpr := func(i int) ast.Expr {
		if t.hasRecv(callee) {
			if i == 0 {
				if recv == nil {
					t.fail(c, "method expression calls are not supported")
				}
				return recv
			}
			i--
		}
		if i >= len(c.Args) {
			t.fail(c, "wrong number of arguments")
		}
		return c.Args[i]
	}
	var args []string
	for _, p := range callee.params {
		if p.origin.isBinding {
			printed := t.src(c)
			if prev, ok := t.fi.calls[callee.leanName]; ok && prev != printed {
				t.fail(c, "callee %s has bound parameters and is called at two different call sites", callee.leanName)
			}
			t.fi.calls[callee.leanName] = printed
			pname := callee.leanName + "_" + p.name
			if p.origin.propagated {
				pname = p.name
			}
			args = append(args, t.bindParam(c, "c:"+callee.leanName+":"+p.origin.bindExpr, pname, p.k))
			t.fi.byKey["c:"+callee.leanName+":"+p.origin.bindExpr].origin.propagated = true
			continue
		}
		a := rootExpr(p.origin.rootIdx)
		if len(p.origin.names) == 0 {
			args = append(args, t.expr(a, e))
			continue
		}
		root, names, index, ok := t.pathOf(stripAddr(a))
		if !ok {
			t.fail(a, "struct argument of a whitelisted callee must be a parameter path")
		}
		names = append(append([]string(nil), names...), p.origin.names...)
		index = append(append([]int(nil), index...), p.origin.index...)
		args = append(args, t.readPath(a, root, names, index, p.k, e))
	}
	return strings.Join(args, " ")
}

// isFnOption recognises lnd's fn.Option[A] = struct{ isSome bool; some A }.
func isFnOption(t types.Type) bool {
	n, ok := t.(*types.Named)
	if !ok || n.Obj().Name() != "Option" || n.Obj().Pkg() == nil ||
		!strings.HasSuffix(n.Obj().Pkg().Path(), "lightningnetwork/lnd/fn/v2") {
		return false
	}
	st, ok := n.Underlying().(*types.Struct)
	return ok && st.NumFields() == 2 && st.Field(0).Name() == "isSome" && st.Field(1).Name() == "some"
}

// nows removes all white space (expression strings are compared modulo spacing).
func nows(s string) string { return strings.Join(strings.Fields(s), "") }
