package main

import (
	"fmt"
	"go/ast"
	"go/constant"
	"go/token"
	"go/types"
	"strings"
)

func (t *tr) stmts(list []ast.Stmt, e *env, k cont) []string {
	if len(list) == 0 {
		return k(e)
	}
	return t.stmt(list[0], e, func(e2 *env) []string { return t.stmts(list[1:], e2, k) })
}

// withGuards prefixes the pending division-by-zero guards to the lines of a statement.
func (t *tr) withGuards(n ast.Node, from int, lines []string) []string {
	if len(t.guards) == from {
		return lines
	}
	if t.inLoop != nil || t.litRet {
		t.fail(n, "possibly-panicking division inside a loop or function literal")
	}
	gs := t.guards[from:]
	t.guards = t.guards[:from]
	var out []string
	for _, g := range gs {
		out = append(out, "if "+g+" then none else")
	}
	return append(out, lines...)
}

func (t *tr) erasedStmt(s ast.Stmt) bool {
	txt := t.src(s)
	for _, p := range t.fi.spec.EraseStmts {
		if strings.Join(strings.Fields(p), " ") == txt {
			return true
		}
	}
	if es, ok := s.(*ast.ExprStmt); ok {
		if c, ok := es.X.(*ast.CallExpr); ok {
			f := types.ExprString(c.Fun)
			for _, p := range t.fi.spec.Erase {
				if p == f {
					return true
				}
			}
		}
	}
	return false
}

func (t *tr) stmt(s ast.Stmt, e *env, k cont) []string {
	if t.erasedStmt(s) {
		return k(e)
	}
	switch n := s.(type) {
	case *ast.EmptyStmt:
		return k(e)
	case *ast.BlockStmt:
		return t.stmts(n.List, e, k)
	case *ast.ReturnStmt:
		if t.inLoop != nil {
			t.fail(s, "return inside a loop body is not supported")
		}
		g := len(t.guards)
		return t.withGuards(s, g, t.ret(n.Results, s, e))
	case *ast.ExprStmt:
		if c, ok := n.X.(*ast.CallExpr); ok {
			if id, ok := c.Fun.(*ast.Ident); ok && id.Name == "panic" {
				if _, isB := t.info.Uses[id].(*types.Builtin); isB {
					if t.inLoop != nil || t.litRet {
						t.fail(s, "panic inside a loop or function literal")
					}
					return []string{"none"}
				}
			}
		}
		t.fail(s, "unsupported expression statement (list its callee under \"erase\" if it is logging)")
	case *ast.AssignStmt:
		return t.assign(n, e, k)
	case *ast.IncDecStmt:
		op := token.ADD
		if n.Tok == token.DEC {
			op = token.SUB
		}
		one := &ast.BasicLit{Kind: token.INT, Value: "1"}
		t.info.Types[one] = types.TypeAndValue{Type: t.info.Types[n.X].Type, Value: constant.MakeInt64(1)}
		g := len(t.guards)
		name := t.lhsName(n.X, e, false)
		v := t.arith(s, op, t.kindOfExpr(n.X), n.X, one, e)
		return t.withGuards(s, g, append([]string{"let " + name + " := " + strip(v)}, k(e)...))
	case *ast.DeclStmt:
		gd, ok := n.Decl.(*ast.GenDecl)
		if !ok || gd.Tok != token.VAR {
			t.fail(s, "unsupported declaration")
		}
		var lines []string
		g := len(t.guards)
		for _, sp := range gd.Specs {
			vs := sp.(*ast.ValueSpec)
			for i, id := range vs.Names {
				obj := t.info.Defs[id]
				if obj == nil {
					t.fail(s, "no type information")
				}
				kd, ok := kindOf(obj.Type())
				if !ok {
					t.fail(s, "local of unsupported type %s", obj.Type())
				}
				val := "0"
				if kd.isBool {
					val = "false"
				}
				if i < len(vs.Values) {
					val = strip(t.expr(vs.Values[i], e))
				}
				name := t.declare(id, obj, kd, e)
				lines = append(lines, "let "+name+" := "+val)
			}
		}
		return t.withGuards(s, g, append(lines, k(e)...))
	case *ast.IfStmt:
		if n.Init != nil {
			return t.stmt(n.Init, e, func(e2 *env) []string {
				c := *n
				c.Init = nil
				return t.stmt(&c, e2, k)
			})
		}
		return t.ifStmt(n, e, k)
	case *ast.SwitchStmt:
		return t.switchStmt(n, e, k)
	case *ast.ForStmt:
		if n.Init != nil {
			return t.stmt(n.Init, e, func(e2 *env) []string { return t.forLoop(n, e2, k) })
		}
		return t.forLoop(n, e, k)
	case *ast.RangeStmt:
		return t.rangeLoop(n, e, k)
	case *ast.BranchStmt:
		if n.Label != nil || t.inLoop == nil {
			t.fail(s, "unsupported branch statement")
		}
		switch n.Tok {
		case token.BREAK:
			return t.inLoop.brk(e)
		case token.CONTINUE:
			return t.inLoop.cont(e)
		}
	}
	t.fail(s, "unsupported statement (%T)", s)
	return nil
}

// declare introduces a new Go local.
func (t *tr) declare(id *ast.Ident, obj types.Object, k kind, e *env) string {
	name := t.freshName(id.Name, obj)
	e.names[obj] = name
	e.kinds[name] = k
	e.order = append(e.order, name)
	return name
}

// lhsName returns the Lean name that an assignment to lhs (re)binds.
func (t *tr) lhsName(lhs ast.Expr, e *env, define bool) string {
	if id, ok := lhs.(*ast.Ident); ok {
		if id.Name == "_" {
			t.fail(lhs, "assignment to the blank identifier")
		}
		if obj := t.info.Defs[id]; obj != nil && define {
			k, ok := kindOf(obj.Type())
			if !ok {
				t.fail(lhs, "local of unsupported type %s (bind or erase it)", obj.Type())
			}
			return t.declare(id, obj, k, e)
		}
		obj := t.info.Uses[id]
		if name, ok := e.names[obj]; ok {
			return name
		}
	}
	root, names, index, ok := t.pathOf(lhs)
	if !ok {
		t.fail(lhs, "unsupported assignment target")
	}
	if len(names) == 0 {
		if _, isPtr := lhs.(*ast.StarExpr); isPtr {
			t.fail(lhs, "assignment through a pointer parameter")
		}
		return t.readPath(lhs, root, names, index, t.kindOfExpr(lhs), e)
	}
	name := t.pathLeanName(root, names)
	if !t.fi.outKeys[t.pathKey(root, names)] {
		t.fail(lhs, "internal: unregistered output")
	}
	e.assigned[name] = true
	return name
}

func (t *tr) funcLitCall(x ast.Expr) *ast.FuncLit {
	for {
		p, ok := x.(*ast.ParenExpr)
		if !ok {
			break
		}
		x = p.X
	}
	c, ok := x.(*ast.CallExpr)
	if !ok || len(c.Args) != 0 {
		return nil
	}
	fl, _ := c.Fun.(*ast.FuncLit)
	if fl != nil && fl.Type.Params != nil && len(fl.Type.Params.List) != 0 {
		return nil
	}
	return fl
}

var assignOps = map[token.Token]token.Token{token.ADD_ASSIGN: token.ADD, token.SUB_ASSIGN: token.SUB,
	token.MUL_ASSIGN: token.MUL, token.QUO_ASSIGN: token.QUO, token.REM_ASSIGN: token.REM,
	token.AND_ASSIGN: token.AND, token.OR_ASSIGN: token.OR, token.XOR_ASSIGN: token.XOR,
	token.SHL_ASSIGN: token.SHL, token.SHR_ASSIGN: token.SHR, token.AND_NOT_ASSIGN: token.AND_NOT}

func (t *tr) assign(s *ast.AssignStmt, e *env, k cont) []string {
	g := len(t.guards)
	define := s.Tok == token.DEFINE
	if op, ok := assignOps[s.Tok]; ok {
		if len(s.Lhs) != 1 || len(s.Rhs) != 1 {
			t.fail(s, "malformed assignment")
		}
		v := t.arith(s, op, t.kindOfExpr(s.Lhs[0]), s.Lhs[0], s.Rhs[0], e)
		name := t.lhsName(s.Lhs[0], e, false)
		return t.withGuards(s, g, append([]string{"let " + name + " := " + strip(v)}, k(e)...))
	}
	if s.Tok != token.ASSIGN && !define {
		t.fail(s, "unsupported assignment operator")
	}
	if len(s.Lhs) == 1 && len(s.Rhs) == 1 {
		if fl := t.funcLitCall(s.Rhs[0]); fl != nil {
			saveLit, saveLoop := t.litRet, t.inLoop
			t.litRet, t.inLoop = true, nil
			body := t.stmts(fl.Body.List, e.clone(), func(*env) []string {
				t.fail(fl, "function literal may end without a return")
				return nil
			})
			t.litRet, t.inLoop = saveLit, saveLoop
			name := t.lhsName(s.Lhs[0], e, define)
			return append(append([]string{"let " + name + " :="}, indent(body, 1)...), k(e)...)
		}
		v := strip(t.expr(s.Rhs[0], e))
		name := t.lhsName(s.Lhs[0], e, define)
		return t.withGuards(s, g, append([]string{"let " + name + " := " + v}, k(e)...))
	}
	if len(s.Lhs) == len(s.Rhs) {
		var vs, ns []string
		for _, r := range s.Rhs {
			vs = append(vs, strip(t.expr(r, e)))
		}
		for _, l := range s.Lhs {
			ns = append(ns, t.lhsName(l, e, define))
		}
		line := "let (" + strings.Join(ns, ", ") + ") := (" + strings.Join(vs, ", ") + ")"
		return t.withGuards(s, g, append([]string{line}, k(e)...))
	}
	if len(s.Rhs) == 1 {
		if c, ok := s.Rhs[0].(*ast.CallExpr); ok {
			callee, recv, name := t.calleeOf(c)
			if callee == nil {
				t.fail(s, "call to %s, which is neither whitelisted nor bound", name)
			}
			if callee.hasErr || len(callee.outputs) > 0 || callee.panics || len(callee.results) != len(s.Lhs) {
				t.fail(s, "unsupported multi-value call")
			}
			v := callee.leanName + sp(t.calleeArgs(c, callee, recv, e))
			var ns []string
			for _, l := range s.Lhs {
				ns = append(ns, t.lhsName(l, e, define))
			}
			return append([]string{"let (" + strings.Join(ns, ", ") + ") := " + v}, k(e)...)
		}
	}
	t.fail(s, "unsupported assignment form")
	return nil
}

// ---------------------------------------------------------------------------
// return

func (t *tr) wrapResult(vals []string) string {
	v := "()"
	if len(vals) == 1 {
		v = vals[0]
	} else if len(vals) > 1 {
		v = "(" + strings.Join(vals, ", ") + ")"
	}
	if t.fi.hasErr {
		v = "Except.ok " + v
	}
	if t.canPanic {
		if t.fi.hasErr {
			v = "(" + v + ")"
		}
		v = "some " + v
	}
	return v
}

func (t *tr) wrapError(ctor string) string {
	v := "Except.error Err." + ctor
	if t.canPanic {
		v = "some (" + v + ")"
	}
	return v
}

func (t *tr) outputVals(n ast.Node, e *env) []string {
	var vs []string
	for _, o := range t.fi.outputs {
		if e.assigned[o.name] {
			vs = append(vs, o.name)
		} else {
			vs = append(vs, t.readPath(n, o.origin.rootIdx, o.origin.names, o.origin.index, o.k, e))
		}
	}
	return vs
}

func (t *tr) ret(rs []ast.Expr, n ast.Node, e *env) []string {
	if t.litRet {
		if len(rs) != 1 {
			t.fail(n, "function literal must return exactly one value")
		}
		return []string{strip(t.expr(rs[0], e))}
	}
	want := len(t.fi.results)
	if t.fi.hasErr {
		want++
	}
	if len(rs) == 1 && (want > 1 || t.fi.hasErr) {
		if c, ok := rs[0].(*ast.CallExpr); ok {
			if callee, recv, _ := t.calleeOf(c); callee != nil {
				return t.tailCall(c, callee, recv, e)
			}
		}
	}
	if len(rs) != want {
		t.fail(n, "return with %d values, expected %d", len(rs), want)
	}
	if t.fi.hasErr {
		ev := rs[len(rs)-1]
		rs = rs[:len(rs)-1]
		if id, ok := ev.(*ast.Ident); !ok || id.Name != "nil" {
			if len(e.assigned) > 0 {
				t.fail(n, "error return after a field was modified (the modification would be dropped)")
			}
			return []string{t.wrapError(t.g.errCtor(t.errName(ev)))}
		}
	}
	var vals []string
	for _, r := range rs {
		vals = append(vals, strip(t.expr(r, e)))
	}
	for i, v := range vals {
		if strings.ContainsAny(v, " ") && len(vals)+len(t.fi.outputs) == 1 && (t.fi.hasErr || t.canPanic) {
			vals[i] = "(" + v + ")"
		}
	}
	vals = append(vals, t.outputVals(n, e)...)
	return []string{t.wrapResult(vals)}
}

// tailCall translates `return callee(args)` where the callee has the same result shape.
func (t *tr) tailCall(c *ast.CallExpr, callee *fnInfo, recv ast.Expr, e *env) []string {
	if callee.hasErr != t.fi.hasErr || len(callee.results) != len(t.fi.results) || callee.panics {
		t.fail(c, "tail call to a callee with a different result shape")
	}
	for i := range callee.results {
		if callee.results[i] != t.fi.results[i] {
			t.fail(c, "tail call to a callee with a different result type")
		}
	}
	args := t.calleeArgs(c, callee, recv, e)
	// map callee outputs to caller field variables
	mapped := map[string]string{}
	var pat []string
	for i := range callee.results {
		pat = append(pat, fmt.Sprintf("r%d", i))
	}
	for i, o := range callee.outputs {
		var rootExpr ast.Expr
		ri := o.origin.rootIdx
		if t.hasRecv(callee) {
			if ri == 0 {
				rootExpr = recv
			} else {
				rootExpr = c.Args[ri-1]
			}
		} else {
			rootExpr = c.Args[ri]
		}
		root, names, _, ok := t.pathOf(stripAddr(rootExpr))
		if !ok {
			t.fail(c, "mutating callee applied to a non-path argument")
		}
		names = append(append([]string(nil), names...), o.origin.names...)
		v := fmt.Sprintf("o%d", i)
		mapped[t.pathLeanName(root, names)] = v
		pat = append(pat, v)
	}
	var vals []string
	for i := range callee.results {
		vals = append(vals, fmt.Sprintf("r%d", i))
	}
	for _, o := range t.fi.outputs {
		if v, ok := mapped[o.name]; ok {
			vals = append(vals, v)
		} else if e.assigned[o.name] {
			vals = append(vals, o.name)
		} else {
			vals = append(vals, t.readPath(c, o.origin.rootIdx, o.origin.names, o.origin.index, o.k, e))
		}
	}
	call := callee.leanName + sp(args)
	if strings.Join(pat, ",") == strings.Join(vals, ",") {
		// the callee's results and outputs are exactly the caller's: a plain tail call
		return []string{call}
	}
	p := "()"
	if len(pat) == 1 {
		p = pat[0]
	} else if len(pat) > 1 {
		p = "(" + strings.Join(pat, ", ") + ")"
	}
	if !t.fi.hasErr {
		return []string{"match " + call + " with", "| " + p + " => " + t.wrapResult(vals)}
	}
	if len(e.assigned) > 0 {
		t.fail(c, "tail call that may return an error after a field was modified")
	}
	return []string{"match " + call + " with",
		"| Except.error err => " + strings.Replace(t.wrapError("X"), "Err.X", "err", 1),
		"| Except.ok " + p + " => " + t.wrapResult(vals)}
}

// errName derives the constructor name of a returned error value.
func (t *tr) errName(ev ast.Expr) string {
	sentinel := func(x ast.Expr) string {
		var id *ast.Ident
		switch v := x.(type) {
		case *ast.Ident:
			id = v
		case *ast.SelectorExpr:
			id = v.Sel
		}
		if id == nil {
			return ""
		}
		if v, ok := t.info.Uses[id].(*types.Var); ok && v.Parent() == v.Pkg().Scope() {
			return id.Name
		}
		if _, qualified := x.(*ast.SelectorExpr); qualified && strings.HasPrefix(id.Name, "Err") {
			return id.Name
		}
		return ""
	}
	if s := sentinel(ev); s != "" {
		return s
	}
	c, ok := ev.(*ast.CallExpr)
	if !ok {
		t.fail(ev, "unsupported error value")
	}
	fn := types.ExprString(c.Fun)
	if fn != "fmt.Errorf" && fn != "errors.New" {
		t.fail(ev, "unsupported error constructor %s", fn)
	}
	for _, a := range c.Args[1:] {
		if s := sentinel(a); s != "" {
			return s
		}
	}
	tv := t.info.Types[c.Args[0]]
	lit := ""
	if tv.Value != nil && tv.Value.Kind() == constant.String {
		lit = constant.StringVal(tv.Value)
	} else if bl, ok := c.Args[0].(*ast.BasicLit); ok {
		lit = strings.Trim(bl.Value, "\"`")
	} else {
		lit = t.flattenStringLit(c.Args[0])
	}
	for pfx, name := range t.fi.spec.ErrorNames {
		if strings.HasPrefix(lit, pfx) {
			return name
		}
	}
	// camel-case the first four words of the message
	var words []string
	cur := ""
	for _, r := range lit {
		if (r >= 'a' && r <= 'z') || (r >= 'A' && r <= 'Z') || (r >= '0' && r <= '9') {
			cur += string(r)
		} else if cur != "" {
			words = append(words, cur)
			cur = ""
		}
	}
	if cur != "" {
		words = append(words, cur)
	}
	if len(words) > 4 {
		words = words[:4]
	}
	name := ""
	for i, w := range words {
		w = strings.ToLower(w)
		if i > 0 {
			w = strings.ToUpper(w[:1]) + w[1:]
		}
		name += w
	}
	if name == "" || (name[0] >= '0' && name[0] <= '9') {
		name = "err" + name
	}
	return name
}

func (t *tr) flattenStringLit(x ast.Expr) string {
	switch v := x.(type) {
	case *ast.BasicLit:
		return strings.Trim(v.Value, "\"`")
	case *ast.BinaryExpr:
		if v.Op == token.ADD {
			return t.flattenStringLit(v.X) + t.flattenStringLit(v.Y)
		}
	case *ast.ParenExpr:
		return t.flattenStringLit(v.X)
	}
	t.fail(x, "error message is not a string literal")
	return ""
}
