package main

import (
	"fmt"
	"go/ast"
	"go/constant"
	"go/token"
	"go/types"
	"strings"
)

type arm struct {
	cond string // Lean proposition
	body []ast.Stmt
}

func (t *tr) mayExit(list []ast.Stmt) bool {
	found := false
	for _, s := range list {
		ast.Inspect(s, func(n ast.Node) bool {
			switch v := n.(type) {
			case *ast.FuncLit:
				return false
			case *ast.ReturnStmt, *ast.BranchStmt:
				found = true
			case *ast.CallExpr:
				if id, ok := v.Fun.(*ast.Ident); ok && id.Name == "panic" {
					found = true
				}
			case *ast.ExprStmt:
				_ = v
			}
			return !found
		})
	}
	return found
}

// assignedTargets lists, in order of first appearance, the Lean names visible in
// env e (locals, scalar parameters, field variables) that the statements assign.
func (t *tr) assignedTargets(list []ast.Stmt, e *env) []string {
	var out []string
	seen := map[string]bool{}
	add := func(lhs ast.Expr) {
		name := ""
		if id, ok := lhs.(*ast.Ident); ok {
			obj := t.info.Uses[id]
			if obj == nil {
				return // a definition of a new local
			}
			if n, ok := e.names[obj]; ok {
				name = n
			}
		}
		if name == "" {
			root, names, _, ok := t.pathOf(lhs)
			if !ok {
				return // rejected later, when the statement is translated
			}
			name = t.pathLeanName(root, names)
		}
		if !seen[name] {
			seen[name] = true
			out = append(out, name)
		}
	}
	for _, s := range list {
		ast.Inspect(s, func(n ast.Node) bool {
			switch v := n.(type) {
			case *ast.FuncLit:
				return false
			case *ast.AssignStmt:
				for _, l := range v.Lhs {
					add(l)
				}
			case *ast.IncDecStmt:
				add(v.X)
			}
			return true
		})
	}
	return out
}

func tuple(ns []string) string {
	if len(ns) == 1 {
		return ns[0]
	}
	return "(" + strings.Join(ns, ", ") + ")"
}

func (t *tr) ifStmt(n *ast.IfStmt, e *env, k cont) []string {
	g := len(t.guards)
	var arms []arm
	var deflt []ast.Stmt
	cur := n
	for {
		if cur.Init != nil {
			t.fail(cur, "init statement in an else-if is not supported")
		}
		arms = append(arms, arm{cond: strip(t.prop(cur.Cond, e)), body: cur.Body.List})
		switch el := cur.Else.(type) {
		case nil:
		case *ast.BlockStmt:
			deflt = el.List
		case *ast.IfStmt:
			cur = el
			continue
		}
		break
	}
	return t.withGuards(n, g, t.ifChain(arms, deflt, e, k))
}

func (t *tr) switchStmt(n *ast.SwitchStmt, e *env, k cont) []string {
	if n.Init != nil {
		return t.stmt(n.Init, e, func(e2 *env) []string {
			c := *n
			c.Init = nil
			return t.switchStmt(&c, e2, k)
		})
	}
	g := len(t.guards)
	var pre []string
	tag := ""
	if n.Tag != nil {
		tag = t.expr(n.Tag, e)
		if strings.ContainsAny(tag, " (") {
			t.kindOfExpr(n.Tag)
			name := t.freshName("tag", nil)
			pre = append(pre, "let "+name+" := "+strip(tag))
			tag = name
		}
	}
	var arms []arm
	var deflt []ast.Stmt
	hasDefault := false
	for _, cs := range n.Body.List {
		cc := cs.(*ast.CaseClause)
		for _, s := range cc.Body {
			if b, ok := s.(*ast.BranchStmt); ok && b.Tok == token.FALLTHROUGH {
				t.fail(s, "fallthrough is not supported")
			}
		}
		if cc.List == nil {
			hasDefault = true
			deflt = cc.Body
			continue
		}
		var cs []string
		for _, x := range cc.List {
			if n.Tag != nil {
				cs = append(cs, "("+tag+" = "+t.expr(x, e)+")")
			} else {
				cs = append(cs, t.prop(x, e))
			}
		}
		c := strings.Join(cs, " ∨ ")
		if len(cs) == 1 {
			c = strip(c)
		}
		arms = append(arms, arm{cond: c, body: cc.Body})
	}
	_ = hasDefault
	// `break` inside a switch arm leaves the switch, not an enclosing loop
	save := t.inLoop
	if save != nil {
		t.inLoop = &loopCtx{
			brk: func(*env) []string {
				t.fail(n, "break inside a switch arm is not supported")
				return nil
			},
			cont: save.cont,
		}
	}
	if len(arms) == 0 {
		t.fail(n, "switch without case clauses")
	}
	lines := t.ifChain(arms, deflt, e, k)
	t.inLoop = save
	return t.withGuards(n, g, append(pre, lines...))
}

// ifChain translates `if c1 {b1} else if c2 {b2} ... else {deflt}` followed by k.
func (t *tr) ifChain(arms []arm, deflt []ast.Stmt, e *env, k cont) []string {
	var bodies [][]ast.Stmt
	exit := t.mayExit(deflt)
	var all []ast.Stmt
	for _, a := range arms {
		bodies = append(bodies, a.body)
		all = append(all, a.body...)
		exit = exit || t.mayExit(a.body)
	}
	bodies = append(bodies, deflt)
	all = append(all, deflt...)

	chain := func(armK cont) []string {
		var lines []string
		for i, b := range bodies {
			sub := t.stmts(b, e.clone(), armK)
			switch {
			case i == 0:
				lines = append(lines, "if "+arms[i].cond+" then")
			case i < len(arms):
				lines = append(lines, "else if "+arms[i].cond+" then")
			default:
				lines = append(lines, "else")
			}
			lines = append(lines, indent(sub, 1)...)
		}
		return lines
	}

	if exit {
		return chain(k)
	}
	targets := t.assignedTargets(all, e)
	if len(targets) == 0 {
		// nothing observable happens in any arm (only erased statements / dead locals);
		// the arms are still translated so that unsupported constructs are reported
		chain(func(*env) []string { return []string{"()"} })
		return k(e)
	}
	// a join: the arms only update `targets`
	lines := []string{"let " + tuple(targets) + " :="}
	lines = append(lines, indent(chain(func(*env) []string { return []string{tuple(targets)} }), 1)...)
	for _, n := range targets {
		if _, isLocal := e.kinds[n]; !isLocal {
			// a field variable or scalar parameter: from here on the let-bound value is current
			for _, o := range t.fi.outputs {
				if o.name == n {
					e.assigned[n] = true
				}
			}
		}
	}
	return append(lines, k(e)...)
}

// forLoop translates `for ; cond; post { body }` (init already translated) as a
// fuel-indexed structurally recursive auxiliary definition.
func (t *tr) forLoop(s *ast.ForStmt, e *env, k cont) []string {
	list := append([]ast.Stmt{}, s.Body.List...)
	if s.Post != nil {
		list = append(list, s.Post)
	}
	state := t.assignedTargets(list, e)
	if len(state) == 0 {
		t.fail(s, "loop without observable effect")
	}
	fuel := t.loopFuel(s, e)
	isState := map[string]bool{}
	for _, n := range state {
		isState[n] = true
	}
	kindOfName := func(n string) kind {
		if kd, ok := e.kinds[n]; ok {
			return kd
		}
		for _, p := range t.fi.params {
			if p.name == n {
				return p.k
			}
		}
		for _, o := range t.fi.outputs {
			if o.name == n {
				return o.k
			}
		}
		t.fail(s, "internal: unknown kind of %s", n)
		return kind{}
	}
	var ctxDecl, ctxArgs []string
	for _, n := range e.order {
		if !isState[n] {
			ctxDecl = append(ctxDecl, fmt.Sprintf("(%s : %s)", n, e.kinds[n].lean()))
			ctxArgs = append(ctxArgs, n)
		}
	}
	t.fi.loopN++
	aux := fmt.Sprintf("%s_loop%d", t.fi.leanName, t.fi.loopN)
	var stTypes []string
	for _, n := range state {
		stTypes = append(stTypes, kindOfName(n).lean())
	}
	stTuple := tuple(state)
	recCall := func(fuelArg string) string {
		return aux + " @@PA@@" + sp(strings.Join(ctxArgs, " ")) + " " + fuelArg + " " + strings.Join(state, " ")
	}
	save := t.inLoop
	le := e.clone()
	ctx := &loopCtx{brk: func(*env) []string { return []string{stTuple} }}
	next := func(e2 *env) []string {
		if s.Post == nil {
			return []string{recCall("fuel")}
		}
		return t.stmt(s.Post, e2, func(*env) []string { return []string{recCall("fuel")} })
	}
	ctx.cont = next
	t.inLoop = ctx
	g := len(t.guards)
	cond := "True"
	if s.Cond != nil {
		cond = strip(t.prop(s.Cond, le))
	}
	body := t.stmts(s.Body.List, le, next)
	if len(t.guards) != g {
		t.fail(s, "possibly-panicking division inside a loop")
	}
	t.inLoop = save

	def := []string{
		fmt.Sprintf("/-- Loop %d of Go `%s`; the fuel argument bounds the number of iterations. -/", t.fi.loopN, t.fi.spec.Func),
		fmt.Sprintf("def %s @@PD@@%s : Nat → %s → %s", aux, sp(strings.Join(ctxDecl, " ")),
			strings.Join(stTypes, " → "), strings.Join(stTypes, " × ")),
		"  | 0, " + strings.Join(state, ", ") + " => " + stTuple,
		"  | fuel + 1, " + strings.Join(state, ", ") + " =>",
		"    if " + cond + " then",
	}
	def = append(def, indent(body, 3)...)
	def = append(def, "    else "+stTuple, "")
	t.fi.aux = append(t.fi.aux, def...)

	lines := []string{"let " + stTuple + " := " + recCall(fmt.Sprint(fuel))}
	for _, n := range state {
		for _, o := range t.fi.outputs {
			if o.name == n {
				e.assigned[n] = true
			}
		}
	}
	return append(lines, k(e)...)
}

// loopFuel recognises `v < C` / `v <= C` with post `v++` (v not assigned in the
// body, v never negative) and returns an iteration bound that is provably enough.
func (t *tr) loopFuel(s *ast.ForStmt, e *env) int64 {
	bad := func(why string) int64 {
		t.fail(s, "cannot bound the loop (%s); supported: `for ...; v < C; v++` with constant C", why)
		return 0
	}
	c, ok := s.Cond.(*ast.BinaryExpr)
	if !ok || (c.Op != token.LSS && c.Op != token.LEQ) {
		return bad("condition is not v < C or v <= C")
	}
	id, ok := c.X.(*ast.Ident)
	if !ok {
		return bad("left side of the condition is not a variable")
	}
	obj := t.info.Uses[id]
	cv := t.info.Types[c.Y].Value
	if cv == nil || cv.Kind() != constant.Int {
		return bad("bound is not a constant")
	}
	bound, exact := constant.Int64Val(cv)
	if !exact || bound < 0 || bound > 4096 {
		return bad("bound out of the supported range 0..4096")
	}
	okPost := false
	switch p := s.Post.(type) {
	case *ast.IncDecStmt:
		if pid, ok := p.X.(*ast.Ident); ok && p.Tok == token.INC && t.info.Uses[pid] == obj {
			okPost = true
		}
	case *ast.AssignStmt:
		if len(p.Lhs) == 1 && p.Tok == token.ADD_ASSIGN {
			if pid, ok := p.Lhs[0].(*ast.Ident); ok && t.info.Uses[pid] == obj {
				if v := t.info.Types[p.Rhs[0]].Value; v != nil && constant.Compare(v, token.EQL, constant.MakeInt64(1)) {
					okPost = true
				}
			}
		}
	}
	if !okPost {
		return bad("post statement is not v++")
	}
	for _, n := range t.assignedTargets(s.Body.List, e) {
		if n == e.names[obj] {
			return bad("loop variable assigned in the body")
		}
	}
	kd, ok := kindOf(obj.Type())
	if !ok || kd.isBool {
		return bad("loop variable is not an integer")
	}
	if kd.signed {
		nonneg := false
		if in, ok := s.Init.(*ast.AssignStmt); ok && len(in.Lhs) == 1 && len(in.Rhs) == 1 {
			if iid, ok := in.Lhs[0].(*ast.Ident); ok && (t.info.Defs[iid] == obj || t.info.Uses[iid] == obj) {
				if v := t.info.Types[in.Rhs[0]].Value; v != nil && constant.Sign(v) >= 0 {
					nonneg = true
				}
			}
		}
		if !nonneg {
			return bad("signed loop variable without a non-negative constant initialiser")
		}
	}
	_ = types.Typ
	if c.Op == token.LEQ {
		if kd.bits < 64 && bound >= (int64(1)<<uint(kd.bits-boolToInt(kd.signed)))-1 {
			return bad("v <= C with C the maximum of the type never terminates")
		}
		return bound + 1
	}
	return bound
}

// rangeLoop translates `for _, v := range <slice parameter> { body }` as a
// structurally recursive fold over a Lean list; what the body reads from each
// element is declared in the spec ("range_elems").
func (t *tr) rangeLoop(s *ast.RangeStmt, e *env, k cont) []string {
	if s.Key != nil {
		if id, ok := s.Key.(*ast.Ident); !ok || id.Name != "_" {
			t.fail(s, "range loops must ignore the index")
		}
	}
	root, names, index, ok := t.pathOf(s.X)
	if !ok {
		t.fail(s, "range over something that is not a parameter path")
	}
	if _, isSlice := t.info.Types[s.X].Type.Underlying().(*types.Slice); !isSlice {
		t.fail(s, "range over a non-slice")
	}
	elems := t.fi.spec.RangeElems[types.ExprString(s.X)]
	if len(elems) == 0 {
		t.fail(s, "no range_elems entry for %s in the spec", types.ExprString(s.X))
	}
	var compNames, compTypes []string
	if t.rangeBind == nil {
		t.rangeBind = map[string]string{}
	}
	for _, b := range elems {
		kd, ok := kindOfName(b.Type)
		if !ok {
			t.fail(s, "range_elems: type %q of %s is not a supported basic type", b.Type, b.Expr)
		}
		n := t.freshName(b.Param, nil)
		compNames = append(compNames, n)
		compTypes = append(compTypes, kd.lean())
		t.rangeBind[nows(b.Expr)] = n
	}
	key := t.pathKey(root, names)
	listName := t.pathLeanName(root, names)
	if _, ok := t.fi.byKey[key]; !ok {
		p := &leanParam{name: listName, typ: "List (" + strings.Join(compTypes, " × ") + ")",
			origin: paramOrigin{rootIdx: root, names: names, index: index}}
		t.fi.usedNames[listName] = t.fi.roots[root]
		t.fi.byKey[key] = p
		t.fi.params = append(t.fi.params, p)
	}
	state := t.assignedTargets(s.Body.List, e)
	if len(state) == 0 {
		t.fail(s, "loop without observable effect")
	}
	isState := map[string]bool{}
	var stTypes []string
	for _, n := range state {
		isState[n] = true
		kd, ok := e.kinds[n]
		if !ok {
			t.fail(s, "range loops may only assign locals (not %s)", n)
		}
		stTypes = append(stTypes, kd.lean())
	}
	var ctxDecl, ctxArgs []string
	for _, n := range e.order {
		if !isState[n] {
			ctxDecl = append(ctxDecl, fmt.Sprintf("(%s : %s)", n, e.kinds[n].lean()))
			ctxArgs = append(ctxArgs, n)
		}
	}
	t.fi.loopN++
	aux := fmt.Sprintf("%s_loop%d", t.fi.leanName, t.fi.loopN)
	stTuple := tuple(state)
	recCall := func(list string) string {
		return aux + " @@PA@@" + sp(strings.Join(ctxArgs, " ")) + " " + list + " " + strings.Join(state, " ")
	}
	save := t.inLoop
	next := func(*env) []string { return []string{recCall("rest")} }
	t.inLoop = &loopCtx{brk: func(*env) []string { return []string{stTuple} }, cont: next}
	g := len(t.guards)
	body := t.stmts(s.Body.List, e.clone(), next)
	if len(t.guards) != g {
		t.fail(s, "possibly-panicking division inside a loop")
	}
	t.inLoop = save
	for _, b := range elems {
		delete(t.rangeBind, nows(b.Expr))
	}
	def := []string{
		fmt.Sprintf("/-- Loop %d of Go `%s`: a fold over the ranged slice. -/", t.fi.loopN, t.fi.spec.Func),
		fmt.Sprintf("def %s @@PD@@%s : List (%s) → %s → %s", aux, sp(strings.Join(ctxDecl, " ")),
			strings.Join(compTypes, " × "), strings.Join(stTypes, " → "), strings.Join(stTypes, " × ")),
		"  | [], " + strings.Join(state, ", ") + " => " + stTuple,
		"  | " + tuple(compNames) + " :: rest, " + strings.Join(state, ", ") + " =>",
	}
	def = append(def, indent(body, 2)...)
	def = append(def, "")
	t.fi.aux = append(t.fi.aux, def...)
	return append([]string{"let " + stTuple + " := " + recCall(listName)}, k(e)...)
}

func boolToInt(b bool) int {
	if b {
		return 1
	}
	return 0
}
