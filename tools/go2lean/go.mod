module verif/go2lean

go 1.23
