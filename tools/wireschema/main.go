// wireschema extracts, from the CURRENT Go source of lnd's lnwire package, the
// wire schema of every registered message type: the ordered element types read
// by Decode (ReadElement(s) argument lists and every other call that consumes
// the reader), the ordered WriteX calls of Encode, the TLV record producers
// handed to the stream decoder (type number + Go value type) and how Encode
// builds the extension tail.  It emits a Lean 4 file of plain data
// (lean/LndModel/Gen/C10.lean); LndModel/C10/GenRefine.lean proves per message
// that decode schema = encode schema = the schema the Lean model instantiates.
//
//	wireschema -repo <repo root> -spec <spec.json> -out <file.lean>
//
// Standard library only (go/parser, go/ast, go/types.ExprString).  Purely
// syntactic: types are resolved through the package's own struct / const /
// alias declarations.  Output is deterministic; no line numbers, no paths.  A
// construct that consumes the reader / writes the buffer and is not understood
// is a hard error (exit 1), never skipped.
package main

import (
	"encoding/json"
	"flag"
	"fmt"
	"go/ast"
	"go/parser"
	"go/token"
	"go/types"
	"os"
	"path/filepath"
	"regexp"
	"sort"
	"strconv"
	"strings"
)

type Spec struct {
	Module       string `json:"module"`
	PackageDir   string `json:"package_dir"`
	DispatchFunc string `json:"dispatch_func"`
}

func fatalf(format string, a ...interface{}) {
	fmt.Fprintf(os.Stderr, "wireschema: "+format+"\n", a...)
	os.Exit(1)
}

type field struct {
	name string
	typ  ast.Expr
}

type pkg struct {
	structs map[string][]field
	named   map[string]ast.Expr // non-struct named types and aliases
	consts  map[string]string   // const name -> literal / expression text
	funcs   map[string]*ast.FuncDecl
	methods map[string]*ast.FuncDecl // "T.M"
}

func load(dir string) *pkg {
	fset := token.NewFileSet()
	ents, err := os.ReadDir(dir)
	if err != nil {
		fatalf("%v", err)
	}
	p := &pkg{map[string][]field{}, map[string]ast.Expr{}, map[string]string{}, map[string]*ast.FuncDecl{}, map[string]*ast.FuncDecl{}}
	var names []string
	for _, e := range ents {
		n := e.Name()
		if strings.HasSuffix(n, ".go") && !strings.HasSuffix(n, "_test.go") {
			names = append(names, n)
		}
	}
	sort.Strings(names)
	for _, n := range names {
		f, err := parser.ParseFile(fset, filepath.Join(dir, n), nil, parser.SkipObjectResolution)
		if err != nil {
			fatalf("parse %s: %v", n, err)
		}
		if f.Name.Name != "lnwire" {
			continue
		}
		for _, d := range f.Decls {
			switch d := d.(type) {
			case *ast.FuncDecl:
				if d.Recv == nil {
					p.funcs[d.Name.Name] = d
				} else if len(d.Recv.List) == 1 {
					p.methods[recvName(d.Recv.List[0].Type)+"."+d.Name.Name] = d
				}
			case *ast.GenDecl:
				for _, s := range d.Specs {
					switch s := s.(type) {
					case *ast.TypeSpec:
						if st, ok := s.Type.(*ast.StructType); ok {
							var fs []field
							for _, fl := range st.Fields.List {
								if len(fl.Names) == 0 {
									fs = append(fs, field{recvName(fl.Type), fl.Type})
								}
								for _, nm := range fl.Names {
									fs = append(fs, field{nm.Name, fl.Type})
								}
							}
							p.structs[s.Name.Name] = fs
						} else {
							p.named[s.Name.Name] = s.Type
						}
					case *ast.ValueSpec:
						if d.Tok == token.CONST || d.Tok == token.VAR {
							for i, nm := range s.Names {
								if i < len(s.Values) {
									p.consts[nm.Name] = types.ExprString(s.Values[i])
								}
							}
						}
					}
				}
			}
		}
	}
	return p
}

func recvName(e ast.Expr) string {
	switch e := e.(type) {
	case *ast.StarExpr:
		return recvName(e.X)
	case *ast.Ident:
		return e.Name
	case *ast.SelectorExpr:
		return e.Sel.Name
	case *ast.IndexExpr:
		return recvName(e.X)
	case *ast.IndexListExpr:
		return recvName(e.X)
	}
	return types.ExprString(e)
}

// ---- syntactic typing ----

type env struct {
	p      *pkg
	locals map[string]ast.Expr
}

func deref(t ast.Expr) ast.Expr {
	if s, ok := t.(*ast.StarExpr); ok {
		return s.X
	}
	return t
}

// generic instance tlv.RecordT[T, V] / tlv.OptionalRecordT[T, V] -> (T, V)
var thePkg *pkg

// resolve follows package-level aliases / named non-struct types (type X = tlv.OptionalRecordT[…]).
func resolve(t ast.Expr) ast.Expr {
	for i := 0; i < 6 && t != nil; i++ {
		id, ok := deref(t).(*ast.Ident)
		if !ok {
			return t
		}
		u, ok := thePkg.named[id.Name]
		if !ok {
			return t
		}
		if _, generic := u.(*ast.IndexListExpr); !generic {
			if _, isId := u.(*ast.Ident); !isId {
				return t
			}
		}
		t = u
	}
	return t
}

func recArgs(t ast.Expr) (ast.Expr, ast.Expr, bool) {
	if t == nil {
		return nil, nil, false
	}
	if il, ok := deref(resolve(t)).(*ast.IndexListExpr); ok && len(il.Indices) == 2 {
		n := recvName(il.X)
		if n == "RecordT" || n == "OptionalRecordT" || n == "ZeroRecordT" {
			return il.Indices[0], il.Indices[1], true
		}
	}
	return nil, nil, false
}

func (e *env) fieldType(t ast.Expr, name string) ast.Expr {
	t = deref(t)
	if tt, vv, ok := recArgs(t); ok {
		_ = tt
		if name == "Val" {
			return vv
		}
	}
	id, ok := t.(*ast.Ident)
	if !ok {
		return nil
	}
	fs, ok := e.p.structs[id.Name]
	if !ok {
		return nil
	}
	for _, f := range fs {
		if f.name == name {
			return f.typ
		}
	}
	for _, f := range fs { // promoted through embedded structs
		if _, emb := e.p.structs[f.name]; emb && types.ExprString(f.typ) == f.name {
			if r := e.fieldType(f.typ, name); r != nil {
				return r
			}
		}
	}
	return nil
}

func (e *env) typeOf(x ast.Expr) ast.Expr {
	switch x := x.(type) {
	case *ast.ParenExpr:
		return e.typeOf(x.X)
	case *ast.Ident:
		return e.locals[x.Name]
	case *ast.UnaryExpr:
		if x.Op == token.AND {
			return e.typeOf(x.X)
		}
	case *ast.StarExpr:
		return deref(e.typeOf(x.X))
	case *ast.SliceExpr:
		return e.typeOf(x.X)
	case *ast.SelectorExpr:
		if t := e.typeOf(x.X); t != nil {
			return e.fieldType(t, x.Sel.Name)
		}
	case *ast.CallExpr:
		// x.F.Zero() on an OptionalRecordT field; tlv.ZeroRecordT[T, V]()
		if s, ok := x.Fun.(*ast.SelectorExpr); ok && s.Sel.Name == "Zero" {
			if t := e.typeOf(s.X); t != nil {
				if a, b, ok := recArgs(t); ok {
					return &ast.IndexListExpr{X: ast.NewIdent("RecordT"), Indices: []ast.Expr{a, b}}
				}
			}
		}
		if a, b, ok := recArgs(x.Fun); ok {
			return &ast.IndexListExpr{X: ast.NewIdent("RecordT"), Indices: []ast.Expr{a, b}}
		}
		if id, ok := x.Fun.(*ast.Ident); ok && id.Name == "make" && len(x.Args) > 0 {
			return x.Args[0]
		}
	case *ast.CompositeLit:
		return x.Type
	}
	return nil
}

var nonIdent = regexp.MustCompile(`[^A-Za-z0-9]+`)

func ident(t ast.Expr) string {
	s := types.ExprString(t)
	s = strings.ReplaceAll(s, "*", "p ")
	s = strings.ReplaceAll(s, "[]", "s ")
	s = strings.ReplaceAll(s, "[", "a")
	s = strings.ReplaceAll(s, "]", " ")
	s = strings.Trim(nonIdent.ReplaceAllString(s, "_"), "_")
	if s == "" || (s[0] >= '0' && s[0] <= '9') {
		s = "t_" + s
	}
	return "T_" + s
}

var tlvTypeRe = regexp.MustCompile(`TlvType(\d+)`)
var shiftRe = regexp.MustCompile(`^(\d+)\s*<<\s*(\d+)$`)

// record type number of a producer of Go type t
func (e *env) recNumber(t ast.Expr, depth int) (uint64, ast.Expr, bool) {
	if depth > 6 || t == nil {
		return 0, nil, false
	}
	if a, b, ok := recArgs(t); ok {
		if n, ok := e.constNumber(types.ExprString(a), 0); ok {
			return n, b, true
		}
		return 0, nil, false
	}
	name := recvName(deref(t))
	if m, ok := e.p.methods[name+".Record"]; ok && m.Body != nil {
		var num uint64
		found := false
		ast.Inspect(m.Body, func(n ast.Node) bool {
			if found {
				return false
			}
			if c, ok := n.(*ast.CallExpr); ok {
				fn := recvName(c.Fun)
				if strings.HasPrefix(fn, "Make") && strings.HasSuffix(fn, "Record") && len(c.Args) > 0 {
					if v, ok := e.constNumber(types.ExprString(c.Args[0]), 0); ok {
						num, found = v, true
					}
				}
			}
			return true
		})
		if found {
			return num, deref(t), true
		}
	}
	return 0, nil, false
}

func (e *env) constNumber(s string, depth int) (uint64, bool) {
	if depth > 6 {
		return 0, false
	}
	s = strings.TrimSpace(s)
	if v, err := strconv.ParseUint(s, 0, 64); err == nil {
		return v, true
	}
	if m := shiftRe.FindStringSubmatch(s); m != nil {
		a, _ := strconv.ParseUint(m[1], 0, 64)
		b, _ := strconv.ParseUint(m[2], 0, 64)
		return a << b, true
	}
	if m := tlvTypeRe.FindStringSubmatch(s); m != nil && (strings.HasPrefix(s, "tlv.TlvType") || strings.HasPrefix(s, "(")) {
		v, _ := strconv.ParseUint(m[1], 10, 64)
		return v, true
	}
	// T(nil).TypeVal() / (T)(nil).TypeVal() with T an alias of tlv.TlvTypeN
	if i := strings.Index(s, ")(nil).TypeVal()"); i > 0 {
		return e.constNumber(strings.TrimPrefix(s[:i], "("), depth+1)
	}
	if i := strings.Index(s, "("); i > 0 && strings.HasSuffix(s, ")") { // conversion tlv.Type(20)
		return e.constNumber(s[i+1:len(s)-1], depth+1)
	}
	if v, ok := e.p.consts[s]; ok {
		return e.constNumber(v, depth+1)
	}
	if t, ok := e.p.named[s]; ok {
		return e.constNumber(types.ExprString(t), depth+1)
	}
	return 0, false
}

// ---- extraction ----

type rec struct {
	num uint64
	ty  string
}

type msg struct {
	typ   uint64
	name  string
	dec   []string // element identifiers in read order
	recs  []rec
	enc   []string // writer identifiers in write order ("WriteX:T_..." )
	tail  string
}

func collectLocals(e *env, body *ast.BlockStmt) {
	ast.Inspect(body, func(n ast.Node) bool {
		switch n := n.(type) {
		case *ast.FuncLit:
			return false
		case *ast.DeclStmt:
			if g, ok := n.Decl.(*ast.GenDecl); ok {
				for _, s := range g.Specs {
					if vs, ok := s.(*ast.ValueSpec); ok {
						for i, nm := range vs.Names {
							if vs.Type != nil {
								e.locals[nm.Name] = vs.Type
							} else if i < len(vs.Values) {
								if t := e.typeOf(vs.Values[i]); t != nil {
									e.locals[nm.Name] = t
								}
							}
						}
					}
				}
			}
		case *ast.AssignStmt:
			if n.Tok == token.DEFINE && len(n.Lhs) == len(n.Rhs) {
				for i, l := range n.Lhs {
					if id, ok := l.(*ast.Ident); ok {
						if t := e.typeOf(n.Rhs[i]); t != nil {
							e.locals[id.Name] = t
						}
					}
				}
			}
		}
		return true
	})
}

func usesIdent(args []ast.Expr, name string) bool {
	for _, a := range args {
		if id, ok := a.(*ast.Ident); ok && id.Name == name {
			return true
		}
	}
	return false
}

func (m *msg) producers(e *env, where string, args []ast.Expr) {
	for _, a := range args {
		t := e.typeOf(a)
		if t == nil {
			if sp, ok := a.(*ast.CallExpr); ok && recordCalls[recvName(sp.Fun)] {
				continue // nested ProduceRecordsSorted(...) is visited on its own
			}
			fatalf("%s.%s: cannot type record producer %s", m.name, where, types.ExprString(a))
		}
		if types.ExprString(deref(t)) == "ExtraOpaqueData" {
			continue
		}
		n, v, ok := e.recNumber(t, 0)
		if !ok {
			fatalf("%s.%s: cannot determine the TLV type of producer %s : %s", m.name, where, types.ExprString(a), types.ExprString(t))
		}
		m.recs = append(m.recs, rec{n, ident(v)})
	}
}

var recordCalls = map[string]bool{"ExtractRecords": true, "ParseAndExtractExtraData": true,
	"ParseAndExtractCustomRecords": true, "ProduceRecordsSorted": true}

func (m *msg) walkDecode(p *pkg, fd *ast.FuncDecl, bind map[string]ast.Expr, depth int) {
	if fd.Body == nil || depth > 3 {
		return
	}
	e := &env{p, map[string]ast.Expr{}}
	reader := ""
	if fd.Recv != nil && len(fd.Recv.List[0].Names) == 1 {
		e.locals[fd.Recv.List[0].Names[0].Name] = fd.Recv.List[0].Type
	}
	for _, prm := range fd.Type.Params.List {
		for _, nm := range prm.Names {
			if types.ExprString(prm.Type) == "io.Reader" {
				reader = nm.Name
			}
			if b, ok := bind[nm.Name]; ok {
				e.locals[nm.Name] = b
			} else {
				e.locals[nm.Name] = prm.Type
			}
		}
	}
	collectLocals(e, fd.Body)
	ast.Inspect(fd.Body, func(n ast.Node) bool {
		c, ok := n.(*ast.CallExpr)
		if !ok {
			return true
		}
		fn := recvName(c.Fun)
		switch {
		case fn == "ReadElements" || fn == "ReadElement":
			for _, a := range c.Args[1:] {
				t := e.typeOf(a)
				if t == nil {
					fatalf("%s.Decode: cannot type ReadElement argument %s", m.name, types.ExprString(a))
				}
				id := ident(t)
				if _, isSlice := a.(*ast.SliceExpr); isSlice {
					id += "_sl"
				}
				m.dec = append(m.dec, id)
			}
			return false
		case recordCalls[fn]:
			m.producers(e, "Decode", c.Args)
			return false
		case fn == "ValidateTLV":
			m.dec = append(m.dec, "T_call_ValidateTLV")
			return false
		case reader != "" && usesIdent(c.Args, reader):
			// another consumer of the reader
			if fn == "ReadFull" && len(c.Args) == 2 {
				if sl, ok := c.Args[1].(*ast.SliceExpr); ok && sl.High != nil {
					m.dec = append(m.dec, "T_io_ReadFull_"+types.ExprString(sl.High))
					return false
				}
			}
			if callee, ok := p.funcs[fn]; ok && depth < 3 {
				_ = callee
			}
			if s, ok := c.Fun.(*ast.SelectorExpr); ok {
				if t := e.typeOf(s.X); t != nil {
					m.dec = append(m.dec, "T_call_"+recvName(deref(t))+"_"+fn)
					return false
				}
			}
			m.dec = append(m.dec, "T_call_"+fn)
			return false
		default:
			// package-level helper that receives decoded TLV bytes (decodeClosingSigs …): follow it
			if callee, ok := p.funcs[fn]; ok && callee.Body != nil && strings.HasPrefix(fn, "decode") && fn != "decodeShortChanIDs" {
				b := map[string]ast.Expr{}
				i := 0
				for _, prm := range callee.Type.Params.List {
					for _, nm := range prm.Names {
						if i < len(c.Args) {
							if t := e.typeOf(c.Args[i]); t != nil {
								b[nm.Name] = t
							}
						}
						i++
					}
				}
				m.walkDecode(p, callee, b, depth+1)
				return false
			}
		}
		return true
	})
}

func (m *msg) walkEncode(p *pkg, fd *ast.FuncDecl) {
	if fd.Body == nil {
		return
	}
	e := &env{p, map[string]ast.Expr{}}
	writer := ""
	if len(fd.Recv.List[0].Names) == 1 {
		e.locals[fd.Recv.List[0].Names[0].Name] = fd.Recv.List[0].Type
	}
	for _, prm := range fd.Type.Params.List {
		for _, nm := range prm.Names {
			if types.ExprString(prm.Type) == "*bytes.Buffer" {
				writer = nm.Name
			}
			e.locals[nm.Name] = prm.Type
		}
	}
	collectLocals(e, fd.Body)
	m.tail = "none"
	ast.Inspect(fd.Body, func(n ast.Node) bool {
		c, ok := n.(*ast.CallExpr)
		if !ok {
			return true
		}
		fn := recvName(c.Fun)
		switch {
		case fn == "EncodeMessageExtraData":
			m.tail = "knownOnly"
			return false
		case fn == "MergeAndEncode" || fn == "RecordProducers":
			m.tail = "merge"
			return true
		case fn == "EncodePureTLVMessage":
			m.tail = "pureTLV"
			return false
		case writer != "" && usesIdent(c.Args, writer):
			if strings.HasPrefix(fn, "Write") && len(c.Args) == 2 {
				t := e.typeOf(c.Args[1])
				ts := "T_unknown"
				if t != nil {
					ts = ident(t)
				}
				if ts == "T_ExtraOpaqueData" || ts == "T_p_ExtraOpaqueData" {
					if m.tail == "none" {
						m.tail = "opaque"
					}
					return false
				}
				if t == nil {
					// locally built byte slices (tlvData, onionLen conversions …)
					ts = "T_expr_" + strings.Trim(nonIdent.ReplaceAllString(types.ExprString(c.Args[1]), "_"), "_")
				}
				m.enc = append(m.enc, "W_"+fn+"__"+ts)
				return false
			}
			m.enc = append(m.enc, "W_call_"+fn)
			return false
		case writer != "":
			if s, ok := c.Fun.(*ast.SelectorExpr); ok {
				if id, ok := s.X.(*ast.Ident); ok && id.Name == writer {
					m.enc = append(m.enc, "W_buf_"+fn)
					return false
				}
			}
		}
		return true
	})
}

func main() {
	repo := flag.String("repo", "", "repo root")
	specPath := flag.String("spec", "", "spec JSON")
	out := flag.String("out", "", "output .lean file")
	flag.Parse()
	if *repo == "" || *specPath == "" || *out == "" {
		fatalf("usage: wireschema -repo <repo root> -spec <spec.json> -out <file.lean>")
	}
	raw, err := os.ReadFile(*specPath)
	if err != nil {
		fatalf("%v", err)
	}
	var spec Spec
	if err := json.Unmarshal(raw, &spec); err != nil {
		fatalf("spec: %v", err)
	}
	p := load(filepath.Join(*repo, spec.PackageDir))
	thePkg = p
	e := &env{p, map[string]ast.Expr{}}

	// dispatch: case MsgX: msg = &T{}
	disp, ok := p.funcs[spec.DispatchFunc]
	if !ok {
		fatalf("dispatch function %s not found", spec.DispatchFunc)
	}
	var msgs []*msg
	ast.Inspect(disp.Body, func(n ast.Node) bool {
		cc, ok := n.(*ast.CaseClause)
		if !ok || len(cc.List) != 1 {
			return true
		}
		num, ok := e.constNumber(types.ExprString(cc.List[0]), 0)
		if !ok {
			fatalf("dispatch: cannot evaluate case %s", types.ExprString(cc.List[0]))
		}
		for _, st := range cc.Body {
			if as, ok := st.(*ast.AssignStmt); ok && len(as.Rhs) == 1 {
				if u, ok := as.Rhs[0].(*ast.UnaryExpr); ok {
					if cl, ok := u.X.(*ast.CompositeLit); ok {
						msgs = append(msgs, &msg{typ: num, name: recvName(cl.Type)})
					}
				}
			}
		}
		return true
	})
	if len(msgs) == 0 {
		fatalf("no message types found in %s", spec.DispatchFunc)
	}
	sort.Slice(msgs, func(i, j int) bool { return msgs[i].typ < msgs[j].typ })

	tys, wrs := map[string]bool{}, map[string]bool{}
	for _, m := range msgs {
		d, ok1 := p.methods[m.name+".Decode"]
		en, ok2 := p.methods[m.name+".Encode"]
		if !ok1 || !ok2 {
			fatalf("%s: Decode/Encode method not found", m.name)
		}
		m.walkDecode(p, d, nil, 0)
		m.walkEncode(p, en)
		sort.SliceStable(m.recs, func(i, j int) bool { return m.recs[i].num < m.recs[j].num })
		for _, t := range m.dec {
			tys[t] = true
		}
		for _, r := range m.recs {
			tys[r.ty] = true
		}
		for _, w := range m.enc {
			wrs[w] = true
		}
	}
	keys := func(m map[string]bool) []string {
		var ks []string
		for k := range m {
			ks = append(ks, k)
		}
		sort.Strings(ks)
		return ks
	}
	var sb strings.Builder
	w := func(f string, a ...interface{}) { fmt.Fprintf(&sb, f+"\n", a...) }
	w("/- GENERATED by tools/wireschema from the Go source of lnwire (Decode / Encode method bodies of")
	w("   every message type registered in %s).  Do not edit; regenerate. -/", spec.DispatchFunc)
	w("namespace %s\n", spec.Module)
	w("/-- Go types of the elements read by `Decode` (ReadElement(s) arguments; `_sl`: passed as a slice")
	w("    `x[:]`), other calls consuming the reader (`T_call_…`, `T_io_ReadFull_n`), and value types of")
	w("    TLV record producers. -/")
	w("inductive Ty where")
	for _, k := range keys(tys) {
		w("  | %s", k)
	}
	w("  deriving DecidableEq, Repr\n")
	w("/-- writer calls of `Encode`: `W_<WriteFn>__<Go type of the written expression>`. -/")
	w("inductive Wr where")
	for _, k := range keys(wrs) {
		w("  | %s", k)
	}
	w("  deriving DecidableEq, Repr\n")
	w("/-- how `Encode` produces the extension tail. -/")
	w("inductive TailEnc where")
	w("  | none | opaque | knownOnly | merge | pureTLV")
	w("  deriving DecidableEq, Repr\n")
	w("structure Msg where")
	w("  type : Nat")
	w("  dec : List Ty")
	w("  recs : List (Nat × Ty)")
	w("  enc : List Wr")
	w("  tail : TailEnc")
	w("  deriving DecidableEq, Repr\n")
	lst := func(xs []string, pre string) string {
		var o []string
		for _, x := range xs {
			o = append(o, pre+x)
		}
		return "[" + strings.Join(o, ", ") + "]"
	}
	for _, m := range msgs {
		var rs []string
		for _, r := range m.recs {
			rs = append(rs, fmt.Sprintf("(%d, .%s)", r.num, r.ty))
		}
		w("/-- %s -/", m.name)
		w("def m%d : Msg :=", m.typ)
		w("  { type := %d,", m.typ)
		w("    dec := %s,", lst(m.dec, "."))
		w("    recs := [%s],", strings.Join(rs, ", "))
		w("    enc := %s,", lst(m.enc, "."))
		w("    tail := .%s }\n", m.tail)
	}
	var all []string
	for _, m := range msgs {
		all = append(all, fmt.Sprintf("m%d", m.typ))
	}
	w("def messages : List Msg := [%s]\n", strings.Join(all, ", "))
	w("end %s", spec.Module)
	if err := os.MkdirAll(filepath.Dir(*out), 0o755); err != nil {
		fatalf("%v", err)
	}
	if err := os.WriteFile(*out, []byte(sb.String()), 0o644); err != nil {
		fatalf("%v", err)
	}
}
