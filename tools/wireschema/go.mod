module verif/wireschema

go 1.23
