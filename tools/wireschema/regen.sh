#!/usr/bin/env bash
# Rebuilds wireschema and regenerates lean/LndModel/Gen/C10.lean.
#   usage: regen.sh [repo root (default /repo, or $VERIF_REPO)] [output dir (default <verif>/lean/LndModel/Gen)]
set -euo pipefail
here="$(cd "$(dirname "${BASH_SOURCE[0]}")" && pwd)"
repo="${1:-${VERIF_REPO:-/repo}}"
out="${2:-$here/../../lean/LndModel/Gen}"
bin="${WIRESCHEMA_BIN:-$here/../../build/wireschema}"
mkdir -p "$(dirname "$bin")" "$out"
(cd "$here" && GOFLAGS=-mod=mod GOPROXY=off go build -o "$bin" .)
"$bin" -repo "$repo" -spec "$here/spec/C10.json" -out "$out/C10.lean"
